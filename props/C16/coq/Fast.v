(* C16: executable twins of the GENERATED functions in which `wrapU w x = x mod 2^w` is computed as
   `Z.land x <literal mask>` (in extracted binary-positive arithmetic recomputing 2^64 and the `mod` cost ~1-15 us per
   call, the `land` ~0.2 us).  The twins are not written by hand: they are obtained from the regenerated definitions by Ltac
   (`pattern` on wrapU / Log2) and each is PROVED equal to the generated function for all arguments, so running the
   extracted twin against the real C++ validates the generated function itself. *)
From Coq Require Import ZArith Bool List Lia.
From MomoCommon Require Import GenPrelude.
From C16 Require Gen_Log2_64 Gen_Log2_32 Gen_SegSqrt Gen_SegCnst.
Local Open Scope Z_scope.

(* the masks are literals: recomputing Z.ones 64 (or 2^64) costs ~1 us in extracted binary-positive arithmetic *)
Definition m64 : Z := 18446744073709551615.
Definition m32 : Z := 4294967295.
Definition wrapU_fast (w x : Z) : Z :=
  if Z.eqb w 64 then Z.land x m64 else if Z.eqb w 32 then Z.land x m32 else wrapU w x.

Lemma wrapU_fast_eq w x : wrapU_fast w x = wrapU w x.
Proof.
  unfold wrapU_fast, wrapU.
  destruct (Z.eqb_spec w 64) as [->|]; [change m64 with (Z.ones 64); apply Z.land_ones; lia|].
  destruct (Z.eqb_spec w 32) as [->|]; [change m32 with (Z.ones 32); apply Z.land_ones; lia|].
  reflexivity.
Qed.

Ltac swap_wrapU t :=
  let t' := eval pattern GenPrelude.wrapU in t in
  match t' with ?f _ => let r := eval cbv beta in (f wrapU_fast) in exact r end.

Definition log2_64 : Z -> Z :=
  ltac:(let t := eval cbv beta delta [Gen_Log2_64.Log2 Gen_Log2_64.pvLog2] in Gen_Log2_64.Log2 in swap_wrapU t).
Definition log2_32 : Z -> Z :=
  ltac:(let t := eval cbv beta delta [Gen_Log2_32.Log2 Gen_Log2_32.pvLog2] in Gen_Log2_32.Log2 in swap_wrapU t).

Lemma log2_64_eq v : log2_64 v = Gen_Log2_64.Log2 v.
Proof.
  unfold log2_64, Gen_Log2_64.Log2, Gen_Log2_64.pvLog2. cbv beta zeta. rewrite !wrapU_fast_eq. reflexivity.
Qed.
Lemma log2_32_eq v : log2_32 v = Gen_Log2_32.Log2 v.
Proof.
  unfold log2_32, Gen_Log2_32.Log2, Gen_Log2_32.pvLog2. cbv beta zeta. rewrite !wrapU_fast_eq. reflexivity.
Qed.

Ltac swap_both t :=
  let t1 := eval pattern GenPrelude.wrapU in t in
  match t1 with ?f _ =>
    let t2 := eval cbv beta in (f wrapU_fast) in
    let t3 := eval pattern Gen_Log2_64.Log2 in t2 in
    match t3 with ?g _ => let r := eval cbv beta in (g log2_64) in exact r end
  end.

Definition sq_seg : Z -> Z -> Z * Z :=
  ltac:(let t := eval cbv beta delta [Gen_SegSqrt.GetSegItemIndexes Gen_SegSqrt.pvIndexToLogItemCount Gen_SegSqrt.pvSegIndexToLogItemCount]
                 in Gen_SegSqrt.GetSegItemIndexes in swap_both t).
Definition sq_idx : Z -> Z -> Z -> Z :=
  ltac:(let t := eval cbv beta delta [Gen_SegSqrt.GetIndex Gen_SegSqrt.pvIndexToLogItemCount Gen_SegSqrt.pvSegIndexToLogItemCount]
                 in Gen_SegSqrt.GetIndex in swap_both t).
Definition sq_cnt : Z -> Z -> Z :=
  ltac:(let t := eval cbv beta delta [Gen_SegSqrt.GetItemCount Gen_SegSqrt.pvIndexToLogItemCount Gen_SegSqrt.pvSegIndexToLogItemCount]
                 in Gen_SegSqrt.GetItemCount in swap_both t).
Definition cn_seg : Z -> Z -> Z * Z :=
  ltac:(let t := eval cbv beta delta [Gen_SegCnst.GetSegItemIndexes] in Gen_SegCnst.GetSegItemIndexes in swap_wrapU t).
Definition cn_idx : Z -> Z -> Z -> Z :=
  ltac:(let t := eval cbv beta delta [Gen_SegCnst.GetIndex] in Gen_SegCnst.GetIndex in swap_wrapU t).
Definition cn_cnt : Z -> Z :=
  ltac:(let t := eval cbv beta delta [Gen_SegCnst.GetItemCount] in Gen_SegCnst.GetItemCount in swap_wrapU t).

Ltac eq_tac := cbv beta zeta; rewrite ?wrapU_fast_eq, ?log2_64_eq; rewrite ?wrapU_fast_eq; reflexivity.

Lemma sq_seg_eq L i : sq_seg L i = Gen_SegSqrt.GetSegItemIndexes L i.
Proof. unfold sq_seg, Gen_SegSqrt.GetSegItemIndexes, Gen_SegSqrt.pvIndexToLogItemCount, Gen_SegSqrt.pvSegIndexToLogItemCount. eq_tac. Qed.
Lemma sq_idx_eq L s j : sq_idx L s j = Gen_SegSqrt.GetIndex L s j.
Proof. unfold sq_idx, Gen_SegSqrt.GetIndex, Gen_SegSqrt.pvIndexToLogItemCount, Gen_SegSqrt.pvSegIndexToLogItemCount. eq_tac. Qed.
Lemma sq_cnt_eq L s : sq_cnt L s = Gen_SegSqrt.GetItemCount L s.
Proof. unfold sq_cnt, Gen_SegSqrt.GetItemCount, Gen_SegSqrt.pvIndexToLogItemCount, Gen_SegSqrt.pvSegIndexToLogItemCount. eq_tac. Qed.
Lemma cn_seg_eq L i : cn_seg L i = Gen_SegCnst.GetSegItemIndexes L i.
Proof. unfold cn_seg, Gen_SegCnst.GetSegItemIndexes. eq_tac. Qed.
Lemma cn_idx_eq L s j : cn_idx L s j = Gen_SegCnst.GetIndex L s j.
Proof. unfold cn_idx, Gen_SegCnst.GetIndex. eq_tac. Qed.
Lemma cn_cnt_eq L : cn_cnt L = Gen_SegCnst.GetItemCount L.
Proof. unfold cn_cnt, Gen_SegCnst.GetItemCount. eq_tac. Qed.

Theorem twins_equal :
  (forall v, log2_64 v = Gen_Log2_64.Log2 v) /\ (forall v, log2_32 v = Gen_Log2_32.Log2 v) /\
  (forall L i, sq_seg L i = Gen_SegSqrt.GetSegItemIndexes L i) /\ (forall L s j, sq_idx L s j = Gen_SegSqrt.GetIndex L s j) /\
  (forall L s, sq_cnt L s = Gen_SegSqrt.GetItemCount L s) /\
  (forall L i, cn_seg L i = Gen_SegCnst.GetSegItemIndexes L i) /\ (forall L s j, cn_idx L s j = Gen_SegCnst.GetIndex L s j) /\
  (forall L, cn_cnt L = Gen_SegCnst.GetItemCount L).
Proof.
  repeat split; intros; [apply log2_64_eq|apply log2_32_eq|apply sq_seg_eq|apply sq_idx_eq|apply sq_cnt_eq|apply cn_seg_eq|apply cn_idx_eq|apply cn_cnt_eq].
Qed.
