"""C07 - DataTable queries equal a brute-force scan; unique indexes are never violated.
proof : Coq theorems over TableSpec (L0), IndexModel (L1 two-phase protocol, unique hash with nondeterministic
        find-by-content) and MultiHash (L1 sorted segments + tail).
tie   : T-cor - the extracted models are run against the real momo::DataTable (4 column-list/row-number
        variants) and against the real DataIndexes / MultiHash objects on the same histories.
oracle: brute-force shadow inside harness.cpp / harness_idx.cpp (independent of the Coq models)."""
import os, re, sys
sys.path.insert(0, os.path.dirname(os.path.abspath(__file__)))

GEN = ['gen_log2.json', 'gen_segments.json', 'gen_multihash_ops.json']
VARIANTS = [0, 1, 2, 3]


def variants(ctx):
    """quick tier: the two default-traits builds that between them cover static / dynamic column lists and keepRowNumber off / on
    (0 and 3); the custom-traits builds (selectEqualityMaxCount 1 / 2, pool block counts, checkVersion off) are thorough-only -
    cold quick time on a loaded machine (robustness round)"""
    return VARIANTS if ctx.tier == 'thorough' else [0, 3]

UNIQ_MENU = [[0], [0, 3], [1, 2]]          # (id) (id,c) (a,b)
MULTI_MENU = [[2], [3], [2, 3], [1, 2]]    # (b) (c) (b,c) (a,b)
PREDS = ['T', 'E 1 0', 'E 2 3', 'L 0 20', 'N E 3 2', '& L 1 2 N E 2 0', 'L 2 3', 'E 3 7', 'N L 0 5']


class Shadow:
    """generator-side bookkeeping only (keeps row numbers valid and aims at conflicts)"""
    def __init__(self):
        self.rows = []; self.uniq = []; self.multi = []

    def conflict(self, r, skip=None):
        for cols in self.uniq:
            for i, x in enumerate(self.rows):
                if i != skip and all(x[c] == r[c] for c in cols):
                    return True
        return False


def gen_table_case(r, kind, copy_faults=False):
    """kind: 'small' | 'medium' | 'big'"""
    sh = Shadow(); ops = []
    uniq = [u for u in UNIQ_MENU if r.chance(1, 2)]
    multi = [m for m in MULTI_MENU if r.chance(1, 2)]
    huge = (kind == 'huge')          # one history per run is forced across ALL segment boundaries: a single key, 470 rows
    if huge: kind = 'big'
    if kind == 'big':
        uniq = [u for u in uniq if u != [1, 2]]
        if not multi: multi = [[2]]
    if huge and [2] not in multi: multi.append([2])
    r.shuffle(uniq); r.shuffle(multi)
    target = {'small': r.range(4, 12), 'medium': r.range(30, 80), 'big': r.choice([70, 140, 200, 330, 460])}[kind]
    if huge: target = 470
    nops = {'small': r.range(25, 60), 'medium': r.range(120, 220), 'big': 2 * target + r.range(160, 300)}[kind]
    fault_pct = {'small': 30, 'medium': 15, 'big': 4}[kind]
    pending = [('IU', u) for u in uniq] + [('IM', m) for m in multi]
    when = {}
    for p in pending:
        t = r.below(3)
        when[id(p)] = 0 if t == 0 else (r.range(1, nops - 1) if t == 1 else r.range(max(1, nops - 20), nops - 1))
    next_id = [0]
    nb = r.choice([1, 2, 6]) if kind == 'big' else 6          # few b values => huge duplicate groups in multi(b)
    if huge: nb = 1
    nc = r.choice([1, 3, 8]) if kind == 'big' else 8

    def new_row(aim_conflict):
        if aim_conflict and sh.rows:
            base = list(r.choice(sh.rows))
            if r.chance(1, 2): base[r.range(1, 3)] = r.below(4)
            return base
        if kind == 'small' and r.chance(1, 3):
            i = r.below(16)
        else:
            i = next_id[0]; next_id[0] += 1
        return [i, r.below(4), r.below(nb), r.below(nc)]

    def f(): return 1 if r.below(100) < fault_pct else 0

    def query():
        q = r.below(12)
        probe = list(r.choice(sh.rows)) if sh.rows and r.chance(3, 4) else [9999, 4, 6, 8]
        if r.chance(1, 5): probe[r.below(4)] = [9999, 4, 6, 8][r.below(4)] if r.chance(1, 2) else r.below(4)
        if q < 4:
            mask = r.range(0, 15)
            return 'Q %d %d %d %d %d %d %s' % (mask, r.below(2), probe[0], probe[1], probe[2], probe[3], r.choice(PREDS) if r.chance(1, 2) else 'T')
        if q == 4: return 'QA'
        if q in (5, 6):
            u = r.choice(UNIQ_MENU)
            return '%s %s : %d %d %d %d' % (r.choice(['FU', 'FUR']), ' '.join(map(str, u)), *probe)
        if q in (7, 8):
            m = r.choice(MULTI_MENU)
            return 'FM %s : %d %d %d %d' % (' '.join(map(str, m)), *probe)
        if q == 9:
            return 'P %d %d %s' % (r.below(2), r.choice([2, 4, 8, 6, 12, 14, 9]), r.choice(PREDS))
        if q == 10:
            return 'S %d %s : %d %d %d %d' % (r.choice([2, 4, 8, 6, 12, 14, 1]), r.choice(PREDS), *probe)
        return 'D'

    def pick_pos(n, allow_end=False):
        # aimed at the boundaries: first, last, (one past the last for inserts)
        t = r.below(10)
        if t == 0: return 0
        if t == 1: return max(0, n - 1)
        if t == 2 and allow_end: return n
        return r.range(0, n) if allow_end else r.below(n)

    phase = ['grow']      # big histories: grow to the target, shrink to a third, grow again (every threshold crossed up, down, up)
    for step in range(nops):
        for p in pending:
            if when[id(p)] == step:
                ops.append('%s %s' % (p[0], ' '.join(map(str, p[1]))))
                if p[0] == 'IU':
                    keys = [tuple(x[c] for c in p[1]) for x in sh.rows]
                    if len(set(keys)) == len(keys): sh.uniq.append(p[1])
                else:
                    sh.multi.append(p[1])
        n = len(sh.rows)
        if kind == 'big':
            if phase[0] == 'grow' and n >= target: phase[0] = 'shrink' if len(phase) == 1 else 'done'
            if phase[0] == 'shrink' and n <= target // 3: phase[0] = 'grow'; phase.append('again')
            if phase[0] == 'shrink' and n > 0 and r.chance(1, 2):
                k = r.range(1, min(n, 40)); pos = r.range(0, n - k)
                ops.append('RR %d %d %d' % (f(), pos, k)); del sh.rows[pos:pos + k]
                continue
        growing = n < target and (kind != 'big' or phase[0] == 'grow')
        t = r.below(100)
        if kind == 'big' and growing and t < 85:
            t = 0
        elif kind == 'big' and growing and 80 <= t < 92:
            t = 95        # no bulk removals while a big history is growing: they used to keep it from ever reaching its target
        if n == 0 or t < (45 if growing else 22):
            row = new_row(r.chance(1, 6) and bool(sh.uniq))
            if r.chance(1, 5):
                pos = pick_pos(n, True); ops.append('I %d %d %d %d %d %d' % (f(), pos, *row))
                if not sh.conflict(row): sh.rows.insert(pos, row)
            else:
                ops.append('A %d %d %d %d %d' % (f(), *row))
                if not sh.conflict(row): sh.rows.append(row)
        elif t < 55:
            pos = pick_pos(n); row = new_row(r.chance(1, 4) and bool(sh.uniq))
            if r.chance(1, 4): row = list(sh.rows[pos]); row[r.range(1, 3)] = r.below(4)     # same unique key, other columns
            if len(sh.uniq) >= 2 and n >= 2 and r.chance(1, 3):
                # aimed: keep the row's key on one unique index, collide with another row on a different one
                q = r.below(n); u1 = r.choice(sh.uniq)
                row = list(sh.rows[pos])
                for cc in u1: row[cc] = sh.rows[q][cc]
            ops.append('U %d %d %d %d %d %d' % (f(), pos, *row))
            if not sh.conflict(row, pos): sh.rows[pos] = row
        elif t < 70:
            pos = r.below(n); col = r.below(4)
            if col == 0:
                v = next_id[0] if r.chance(2, 3) else r.choice(sh.rows)[0]
                if v == next_id[0]: next_id[0] += 1
            else:
                v = r.below([0, 4, nb, nc][col])
            ops.append('C %d %d %d %d' % (f(), pos, col, v))
            row = list(sh.rows[pos]); row[col] = v
            if row[col] == sh.rows[pos][col] or not sh.conflict(row, pos): sh.rows[pos] = row
        elif t < 80:
            pos = pick_pos(n); keep = r.below(3)
            ops.append('%s %d %d %d' % ('X' if r.chance(1, 4) else 'R', f(), pos, keep))
            if keep: del sh.rows[pos]
            else:
                sh.rows[pos] = sh.rows[-1]; sh.rows.pop()
        elif t < 83:
            pos = r.below(n); k = r.range(0, min(n - pos, 5 if kind != 'big' else 80))
            ops.append('RR %d %d %d' % (f(), pos, k)); del sh.rows[pos:pos + k]
        elif t < 86:
            p = r.choice(PREDS[1:]); ops.append('RP %d %s' % (f(), p))
            sh.rows = [x for x in sh.rows if not evalp(p.split(), x)[0]]
        elif t < 88:
            k = r.range(0, n); ns = [r.below(n) for _ in range(k)]
            if r.chance(1, 2): ns = list(range(n)); r.shuffle(ns); ns = ns[:r.range(n // 2, n)]
            ops.append('AS %d %s' % (f(), ' '.join(map(str, ns))))
            seen = []
            for q in ns:
                if q not in seen: seen.append(q)
            sh.rows = [sh.rows[q] for q in seen]
        elif t < (96 if copy_faults else 90):
            cf = f()
            if r.chance(1, 2): ops.append('CP %d' % cf)
            else:
                p = r.choice(PREDS); ops.append('CF %d %s' % (cf, p))
                sh.rows = [x for x in sh.rows if evalp(p.split(), x)[0]]
        elif t == 90 and kind != 'big':
            ops.append('CL'); sh.rows = []
        elif t == 92:
            ops.append('RS %d %d' % (f(), r.choice([0, 1, n, n + 1, 2 * n + 3, 600])))
        elif t == 93 and kind == 'small' and r.chance(1, 4):
            p = r.choice(PREDS); ops.append('CS %d %s' % (f(), p))
            sh.rows = [x for x in sh.rows if evalp(p.split(), x)[0]]; sh.uniq = []; sh.multi = []
        elif t == 91 and r.chance(1, 3):
            ops.append(r.choice(['DU', 'DM']))
            if ops[-1] == 'DU': sh.uniq = []
            else: sh.multi = []
        else:
            ops.append(query())
    ops += ['QA', 'D']
    for m in MULTI_MENU:
        ops.append('FM %s : 9999 4 6 8' % ' '.join(map(str, m)))
    return 'T | ' + ' | '.join(ops)


def evalp(ws, row):
    k = ws[0]
    if k == 'T': return True, ws[1:]
    if k == 'E': return row[int(ws[1])] == int(ws[2]), ws[3:]
    if k == 'L': return row[int(ws[1])] < int(ws[2]), ws[3:]
    if k == 'N':
        v, rest = evalp(ws[1:], row); return (not v), rest
    a, rest = evalp(ws[1:], row); b, rest = evalp(rest, row)
    return (a and b), rest


def gen_table_cases(ctx, scale):
    r = ctx.rng
    cases = []
    for _ in range(160 * scale): cases.append(gen_table_case(r, 'small'))
    for _ in range(36 * scale): cases.append(gen_table_case(r, 'medium'))
    for _ in range(8 * scale - 1): cases.append(gen_table_case(r, 'big'))
    cases.append(gen_table_case(r, 'huge'))
    return cases


def table_nontrivial(case, out):
    """a history is non-trivial when an operation was refused by a unique index, or a multi-hash group crossed
    the first segment boundary (more than 65 equal rows), or an allocation failure was injected"""
    return ('conflict' in out) or (' 1 ' in case and ('A 1' in case or 'C 1' in case or 'U 1' in case)) or bool(re.search(r'fm (6[6-9]|[7-9]\d|\d{3,})', out))


def run_resilient(ctx, exe, cases, name):
    """run a harness over all cases; when it aborts (assertion, sanitizer, signal) the case it died on gets an
    ORACLE-FAIL line naming the abort and the run continues with the next case in a fresh process"""
    lines = []; start = 0; crashes = 0; last_err = ''
    while start < len(cases):
        path = os.path.join(ctx.build, name + '.cases'); open(path, 'w').write('\n'.join(cases[start:]) + '\n')
        rc, out, err = ctx.run_lines([exe], path)
        last_err = err
        rest = len(cases) - start
        if rc == 0 and len(out) >= rest:
            lines += out[:rest]; break
        k = min(len(out), rest - 1)
        lines += out[:k]
        msg = [l for l in err.strip().splitlines() if l.strip()]
        why = (msg[-1] if msg else 'no message')
        why = re.sub(r'\[with [^\]]*\]', '', why)[-260:]
        lines.append('!ORACLE-FAIL:harness aborted (exit %s): %s' % (rc, why))
        start += k + 1; crashes += 1
        if crashes >= 12:
            lines += ['<not run after %d aborts>' % crashes] * (len(cases) - start); break
    return lines, last_err


def oracle_scan(ctx, name, cases, lines):
    bad = []
    for c, out in zip(cases, lines):
        m = re.search(r'!ORACLE-FAIL:(.*)', out)
        if m:
            bad.append((c, out[-300:], m.group(1)[:300]))
    return bad


def shrink_case(ctx, exe, case):
    """ddmin-lite on the op list of a failing table case"""
    parts = case.split(' | ')
    head, ops = parts[0], parts[1:]

    def fails(ops2):
        path = os.path.join(ctx.build, 'shrink.cases'); open(path, 'w').write(head + ' | ' + ' | '.join(ops2) + '\n')
        rc, lines, err = ctx.run_lines([exe], path, timeout=60)
        return rc != 0 or any('!ORACLE-FAIL' in l for l in lines)
    n = 2; budget = 150
    while len(ops) >= 2 and budget > 0:
        chunk = max(1, len(ops) // n); reduced = False
        for i in range(0, len(ops), chunk):
            cand = ops[:i] + ops[i + chunk:]; budget -= 1
            if cand and fails(cand):
                ops = cand; n = max(n - 1, 2); reduced = True; break
            if budget <= 0: break
        if not reduced:
            if chunk == 1: break
            n = min(n * 2, len(ops))
    return head + ' | ' + ' | '.join(ops)


def source_key(ctx, src, flags):
    """content hash of the harness source, the framework header and EVERY momo header of the tree under test"""
    import hashlib, glob
    h = hashlib.sha256()
    files = [os.path.join(ctx.pdir, src), os.path.join(ctx.root, 'harness', 'private_access.h')]
    files += sorted(glob.glob(os.path.join(ctx.repo, 'include', 'momo', '**', '*.h'), recursive=True))
    for f in files:
        h.update(f.encode()); h.update(open(f, 'rb').read())
    h.update(repr(flags).encode())
    return h.hexdigest()


def build_harnesses(ctx):
    """compile the five harness TUs in parallel; a binary is reused only if the source AND all momo headers are
    byte-identical to the ones it was built from (so the tie is always to the current tree).
    Thorough tier: ASan+UBSan for table variants 1 and 2 (custom traits / keepRowNumber / dynamic columns between them) and for the
    index harness, built without debug info; variants 0 and 3 run unsanitized - five sanitized TUs cost > 8 min of compile time on
    the shared machine and add no configuration the other three do not cover."""
    import concurrent.futures as cf
    thorough = ctx.tier == 'thorough'
    jobs = [('harness.cpp', 'harness%d' % v, ['-DVARIANT=%d' % v], thorough and v in (1, 2)) for v in variants(ctx)]
    jobs.append(('harness_idx.cpp', 'harness_idx', [], thorough))
    res = {}; todo = []
    for (src, exe, flags, san) in jobs:
        fl = list(flags) + ['-g0']      # no debug info: a third of the compile time, the harnesses report by message not by backtrace
        key = source_key(ctx, src, (fl, san)); out = os.path.join(ctx.build, exe + ('.san' if san else '')); kf = out + '.key'
        if os.path.exists(out) and os.path.exists(kf) and open(kf).read() == key:
            res[exe] = out
        else:
            todo.append((src, exe, fl, san, key, kf))
    if todo:
        with cf.ThreadPoolExecutor(max_workers=min(8, len(todo))) as ex:
            futs = {ex.submit(ctx.cxx, s, e, f, san, 1500): (e, k, kf) for (s, e, f, san, k, kf) in todo}
            for fu in cf.as_completed(futs):
                (e, k, kf) = futs[fu]; out = fu.result(); res[e] = out
                if out: open(kf, 'w').write(k)
                elif os.path.exists(kf): os.remove(kf)
    ctx.coverage['harness_rebuilt'] = [e for (s, e, f, san, k, kf) in todo]
    ctx.coverage['sanitized'] = [e for (s, e, f, san) in jobs if san]
    return res


def replay(ctx, rp):
    case = rp.get('case')
    if not case:
        print('replay has no concrete case (no-failing-input-found): broken stages were', list(rp.get('broken', {}).keys())); return 1
    exes = build_harnesses(ctx)
    exe = exes.get(rp.get('exe', 'harness0'))
    if exe is None:
        print('harness does not build'); return 2
    path = os.path.join(ctx.build, 'replay.cases'); open(path, 'w').write(case + '\n')
    rc, lines, err = ctx.run_lines([exe], path)
    print('case:', case[:2000], '\nimplementation:', (lines[0] if lines else err)[-2000:])
    if rc != 0 or any('!ORACLE-FAIL' in l for l in lines) or (rp.get('model') and lines and lines[0] != rp['model']):
        print('VIOLATION property=C07 replay=%s' % ctx.replay); return 1
    print('property holds on this case'); return 0


def run(ctx):
    import idxgen
    scale = 1 if ctx.quick() else 3
    ctx.trusted += ['extraction: ExtrOcamlBasic only (no Extract Constant), OCaml 4.13.1; driver.ml parses/prints and folds digests',
                    'g++ 12 -std=c++17; harness_idx.cpp reaches DataIndexes / UniqueHash / MultiHash via #define private public',
                    'HashSet::Insert/Remove/Find, HashMultiMap::Add/Remove/InsertKey and Array are taken as their abstract set/list '
                    'semantics with strong exception safety (properties C01/C04/C08)']
    ctx.assumptions += ['rows are tuples of 4 values (int id, int a in 0..3, int b in 0..5, std::string c from 8 values); '
                        'column equality is == (DataTraits::IsEqual)',
                        'allocation failures are std::bad_alloc thrown by the table\'s memory manager',
                        'std::lower_bound is modelled by a linear scan (equal on sorted segments, which is the proved invariant)']
    ctx.regen(GEN)
    # round 8: statement trees of the DataIndexes / UniqueHash member functions cxx2coq cannot translate (range-for, lambdas,
    # try/catch, calls into sub-objects), dumped by props/C07/proto2coq.py; their meaning and the equalities with the hand
    # model are in ProtoSem.v / ProtoProofs.v / FitSem.v / UHashSem.v / UHashProofs.v
    import proto2coq
    gpath = os.path.join(ctx.cdir, 'Gen_Protocol.v')
    try:
        txt = proto2coq.translate(repo=ctx.repo)
        if not os.path.exists(gpath) or open(gpath).read() != txt:
            open(gpath, 'w').write(txt)
        ctx.tie_obligations.append({'name': 'translate Gen_Protocol (call/control skeletons of AddRaw, RemoveRaw, UpdateRaw x2, GetFit*Index, UniqueHash ops)', 'ok': True,
                                    'sha256': __import__('hashlib').sha256(txt.encode()).hexdigest()[:16]})
        ctx.stage('regen-protocol', True)
    except Exception as e:
        if os.path.exists(gpath): os.remove(gpath)       # a stale model must not keep the proofs green
        ctx.tie_obligations.append({'name': 'translate Gen_Protocol', 'ok': False, 'error': str(e)[:500]})
        ctx.stage('regen-protocol', False, str(e)[:2000])
    # the harness TUs are compiled WHILE the proofs are checked (independent work; cold quick time)
    import threading
    hb = {}
    th = threading.Thread(target=lambda: hb.update(exes=build_harnesses(ctx)))
    th.start()
    ctx.prove()
    th.join()
    exes = hb.get('exes') or {}
    missing = [k for k, v in exes.items() if v is None]
    if missing:
        ctx.stage('build-harness', False, 'does not compile: %s\n%s' % (missing, getattr(ctx, 'last_cxx_error', '')))
    have_model = ctx.stages.get('prove', {}).get('ok') and ctx.extract(extra_ml=['idx_driver.ml'])
    broken = any(not s['ok'] for s in ctx.stages.values())
    if broken:
        ctx.log('a stage broke: searching the implementation with the thorough generator')
        scale = max(scale, 4)
    tcases = gen_table_cases(ctx, scale)
    icases = idxgen.gen_cases(ctx.rng, scale)
    all_bad = []; corr_viol = []
    # ---- L0: real DataTable (4 variants) vs extracted TableSpec, plus the harness's brute-force oracle
    model_lines = None
    if have_model:
        path = os.path.join(ctx.build, 'table.cases'); open(path, 'w').write('\n'.join(tcases) + '\n')
        rcm, model_lines, errm = ctx.run_lines([ctx.model_exe], path)
        if rcm != 0:
            ctx.stage('model-run', False, errm[-500:]); model_lines = None
    for v in variants(ctx):
        exe = exes.get('harness%d' % v)
        if exe is None: continue
        lines, err = run_resilient(ctx, exe, tcases, 'table-v%d' % v)
        ctx.evaluations += len(tcases)
        ctx.coverage.setdefault('harness_stats', []).append(err.strip().splitlines()[-1][-900:] if err.strip() else '')
        ctx.coverage.setdefault('harness_stats_by_variant', {})[v] = ctx.coverage['harness_stats'][-1]
        bad = oracle_scan(ctx, 'harness%d' % v, tcases, lines)
        for b in bad: all_bad.append(('harness%d' % v, exe) + b)
        for c, o in zip(tcases, lines):
            if table_nontrivial(c, o): ctx.nontrivial.add(c)
        if model_lines is not None:
            mism = [(i, tcases[i], lines[i] if i < len(lines) else '<missing>', model_lines[i] if i < len(model_lines) else '<missing>')
                    for i in range(len(tcases)) if (lines[i] if i < len(lines) else None) != (model_lines[i] if i < len(model_lines) else None)]
            ctx.traces_validated += len(tcases) - len(mism)
            ctx.stage('corr:table-v%d' % v, not mism, ('first disagreement: case %r impl=%r model=%r' % (mism[0][1][:200], first_diff(mism[0][2], mism[0][3]), '')) if mism else '')
            ctx.tie_obligations.append({'name': 'TableSpec (extracted) == momo::DataTable variant %d on %d histories' % (v, len(tcases)), 'ok': not mism})
            for (i, c, a, b) in [m for m in mism if '!ORACLE-FAIL' not in m[2] and not m[2].startswith('<not run')][:1]:
                corr_viol.append(('L0 specification and DataTable (variant %d) disagree: %s' % (v, first_diff(a, b)),
                                  {'case': c, 'exe': 'harness%d' % v, 'impl': a[-1500:], 'model': b[-1500:], 'cmd': 'build/C07/harness%d < case' % v}))
    # ---- L1: real DataIndexes / MultiHash vs extracted IndexModel / MultiHash
    exe = exes.get('harness_idx')
    if exe is not None:
        bad, mism = idxgen.correspond(ctx, exe, ctx.model_exe if have_model else None, icases, run_resilient)
        for b in bad: all_bad.append(('harness_idx', exe) + b)
        if have_model:
            ctx.stage('corr:indexes', not mism, ('first disagreement: %r' % (mism[0],)) if mism else '')
            ctx.tie_obligations.append({'name': 'IndexModel/MultiHash (extracted) == real DataIndexes on %d scripts' % len(icases), 'ok': not mism})
            for (c, a, b) in [m for m in mism if '!ORACLE-FAIL' not in m[1] and not m[1].startswith('<not run')][:2]:
                corr_viol.append(('L1 index model and DataIndexes disagree: %s' % first_diff(a, b),
                                  {'case': c, 'exe': 'harness_idx', 'impl': a[-1500:], 'model': b[-1500:]}))
    # ---- the oracle verdict (independent of the Coq models)
    ctx.stage('oracle', not all_bad, all_bad[0][4] if all_bad else '')
    seen = set()
    for (name, exe, c, out, why) in all_bad:
        if (name, why[:60]) in seen or len(seen) >= 3: continue
        seen.add((name, why[:60]))
        small = shrink_case(ctx, exe, c)
        ctx.violation('%s: %s' % (name, why), {'case': small, 'exe': name, 'impl_output': out, 'cmd': 'build/C07/%s < case' % name}, found_input=True)
    for (what, rp) in corr_viol[:3]:
        ctx.violation(what, rp, found_input=True)
    for c in (tcases[:2] + icases[:3]):
        ctx.add_sample(c[:400])
    ctx.coverage['input_distribution'] = measure(tcases, icases, ctx.coverage.get('harness_stats', []), ctx.coverage.get('harness_idx_stats', ''))
    # the configurations the four builds claim (static_asserts in harness.cpp make the claim true at compile time)
    want = {0: 'dynamic=0 keepRowNumber=0 selectEqualityMaxCount=6', 1: 'dynamic=0 keepRowNumber=1 selectEqualityMaxCount=1',
            2: 'dynamic=1 keepRowNumber=0 selectEqualityMaxCount=2 checkVersion=0', 3: 'dynamic=1 keepRowNumber=1 selectEqualityMaxCount=6'}
    stats = ctx.coverage.get('harness_stats', [])
    byv = ctx.coverage.get('harness_stats_by_variant', {})
    cfg_bad = [v for v in variants(ctx) if v in byv and want[v] not in byv[v]]
    idx_stats = ctx.coverage.get('harness_idx_stats', '')
    if exes.get('harness_idx') is not None and 'BucketOpen2N2' not in idx_stats: cfg_bad.append('harness_idx bucket class: ' + idx_stats[-200:])
    ctx.stage('configurations', not cfg_bad, 'unexpected configuration: %s' % cfg_bad if cfg_bad else '')
    return ctx.finish(rule=RULE)


def measure(tcases, icases, hstats, istats):
    """what this run really exercised: op histogram, boundary positions, index subsets and creation times, fault-flagged ops,
    and the events the harnesses counted (refusals, injected faults, largest multi-hash group, segment-boundary crossings)"""
    ops = {}; bound = {'insert_at_0': 0, 'remove_first': 0, 'range_empty': 0, 'assign_empty': 0, 'reserve_zero': 0}
    faults = 0; idx_sets = {}; idx_time = {'before_data': 0, 'during': 0, 'after_most_data': 0}
    for c in tcases:
        parts = c.split(' | ')[1:]; n = 0; made = []
        for i, o in enumerate(parts):
            w = o.split(); ops[w[0]] = ops.get(w[0], 0) + 1
            if len(w) > 1 and w[0] in ('A', 'I', 'U', 'C', 'R', 'X', 'RR', 'RP', 'AS', 'CP', 'CF', 'CS', 'RS') and w[1] == '1': faults += 1
            if w[0] == 'I' and w[2] == '0': bound['insert_at_0'] += 1
            if w[0] in ('IU', 'IM'):
                made.append(o); idx_time['before_data' if i < 8 else ('after_most_data' if i > len(parts) - 30 else 'during')] += 1
            if w[0] == 'RR' and w[3] == '0': bound['range_empty'] += 1
            if w[0] == 'AS' and len(w) == 2: bound['assign_empty'] += 1
            if w[0] in ('R', 'X') and w[2] == '0': bound['remove_first'] += 1
            if w[0] == 'RS' and w[2] == '0': bound['reserve_zero'] += 1
        key = ','.join(sorted(set(made))) or '(none)'; idx_sets[key] = idx_sets.get(key, 0) + 1
    iops = {}
    for c in icases:
        for o in c.split(' | ')[1:]:
            w = o.split()[0]; iops[w] = iops.get(w, 0) + 1
    traits = {}
    for c in icases: traits[c.split()[1]] = traits.get(c.split()[1], 0) + 1
    return {'table_histories': len(tcases), 'table_ops_histogram': ops, 'fault_flagged_table_ops': faults, 'boundary_arguments': bound,
            'distinct_index_subsets': len(idx_sets), 'index_creation_time': idx_time,
            'index_scripts': len(icases), 'index_script_ops_histogram': iops, 'index_scripts_per_hash_traits': traits,
            'measured_by_harness': hstats, 'measured_by_harness_idx': istats}


def first_diff(a, b):
    pa, pb = a.split('|'), b.split('|')
    for i in range(max(len(pa), len(pb))):
        x = pa[i] if i < len(pa) else '<none>'; y = pb[i] if i < len(pb) else '<none>'
        if x != y:
            return 'op #%d: impl %r, model %r' % (i, x[:120], y[:120])
    return 'identical?'


RULE = ('table histories: random op lists (add/insert/update row/update column/remove by number, reference, range, predicate/'
        'extract/assign/clear/copy/copy-filter/index creation and removal/queries) over every subset of {unique(id),unique(id,c),'
        'unique(a,b),multi(b),multi(c),multi(b,c)} created before, during or after the data, in three size classes (<=12, <=80, '
        'up to 460 rows with 1-6 distinct b values so that multi-hash groups cross the 64/192/320/448 segment boundaries), each run '
        'on 4 table variants (static/dynamic columns x keepRowNumber); index scripts: direct AddRaw/RemoveRaw/UpdateRaw histories on '
        'the real DataIndexes with controlled row addresses, colliding hash, allocation failure at every allocation; '
        'distinct = distinct case line; non-trivial = a unique-index refusal occurred, or an allocation failure was injected, or a '
        'multi-hash group exceeded one segment')
