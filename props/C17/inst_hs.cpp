// instantiation TU for cxx2coq (C17): HashSorter::pvFindHash / pvIsSorted (private member templates) so that their ENTRY
// GUARDS (the `if (count == 0) return ...` added by 2715474, before any dereference of begin) are translated from the source
#include "momo/HashSorter.h"
namespace momo {
inline void c17_use3(uint64_t* b, size_t n)
{
	(void)HashSorter::Find(b, n, uint64_t{1});
	(void)HashSorter::IsSorted(b, n);
	HashSorter::Sort(b, n);
}
}
