(* C16 (round 4): Arr_Proofs instantiated with the regenerated sizing functions (sqrt / cnst, every L <= 62, sizes < 2^62) *)
From Coq Require Import ZArith Bool List Lia.
From MomoCommon Require Import GenPrelude.
From C16 Require Gen_SegSqrt Gen_SegCnst Gen_ArrSqrt Gen_ArrCnst Gen_ArrLog Gen_ShiftSqrt Gen_ShiftCnst Gen_ShiftXSqrt ShiftX_Proofs Gen_SegFacts SegMath SegSqrt_Proofs SegCnst_Proofs SegModel SegModel_Inst Arr_Proofs.
Local Open Scope Z_scope.
Import SegMath SegModel_Inst.

Lemma maxi_small : maxi <= 2 ^ 62. Proof. unfold maxi. lia. Qed.

Section Sqrt.
Variable L : Z.
Hypothesis HL : 0 <= L <= 62.
Let seg := Gen_SegSqrt.GetSegItemIndexes L.
Let idx := Gen_SegSqrt.GetIndex L.
Let HL64 : 0 <= L < 64. Proof. lia. Qed.
Let R := maxi_in_range L HL.

Lemma q_last : 0 <= maxi - 1 < 2 ^ 64 - 2 ^ L. Proof. unfold maxi in *. lia. Qed.

Lemma q_SC_small : SCq L < 2 ^ 63.
Proof.
  unfold SCq. destruct (SegSqrt_Proofs.seg_small L (maxi - 1) HL64 q_last) as (H0 & H1 & _).
  rewrite SegSqrt_Proofs.gen_seg_of by (try assumption; apply q_last).
  change (2 ^ 64) with (2 * 2 ^ 63) in H1. lia.
Qed.

Lemma q_fit sc : 0 <= sc <= SCq L -> idx_of L sc 0 < 2 ^ 64 - 2 ^ L.
Proof.
  intros Hsc. pose proof q_last as Hm.
  pose proof (SegSqrt_Proofs.item_lt_count L (maxi - 1) HL64 Hm) as Hlast. cbv zeta in Hlast.
  rewrite SegSqrt_Proofs.gen_seg_of in Hlast by assumption.
  destruct Hlast as (Hs0 & Hj & Hcnt & Hk).
  assert (Hfit : idx_of L (SCq L) 0 < 2 ^ 64 - 2 ^ L).
  { unfold SCq. rewrite SegSqrt_Proofs.gen_seg_of by assumption.
    set (s := fst (seg_of L (maxi - 1))) in *. set (j := snd (seg_of L (maxi - 1))) in *.
    rewrite cap_step by lia.
    pose proof (roundtrip L ltac:(lia) (maxi - 1) ltac:(lia)) as Rt. fold s j in Rt.
    rewrite idx_offset in Rt; [|lia|lia|].
    2:{ rewrite <- SegSqrt_Proofs.gen_cnt_of; try lia.
        destruct (SegSqrt_Proofs.seg_small L (maxi - 1) HL64 Hm) as (_ & X & _). exact X. }
    assert (cnt_of L s <= 2 ^ 63) by (unfold cnt_of; apply Z.pow_le_mono_r; lia).
    assert (2 ^ L <= 2 ^ 62) by (apply Z.pow_le_mono_r; lia).
    unfold maxi in *. change (2 ^ 64) with (4 * 2 ^ 62). change (2 ^ 63) with (2 * 2 ^ 62) in *. lia. }
  pose proof (cap_mono L sc (SCq L) ltac:(lia) ltac:(lia)). lia.
Qed.

Lemma q_seg_idx0 sc : 0 <= sc <= SCq L -> idx sc 0 < maxi -> seg (idx sc 0) = (sc, 0).
Proof.
  intros Hsc _. unfold seg, idx. pose proof (q_fit sc Hsc) as Hfit.
  pose proof (cnt_pos L sc ltac:(lia) ltac:(lia)) as Hc.
  rewrite SegSqrt_Proofs.gen_idx_of by (try assumption; lia).
  destruct (roundtrip_rev L ltac:(lia) sc 0 ltac:(lia) ltac:(lia)) as [Rr R0].
  rewrite SegSqrt_Proofs.gen_seg_of by lia. exact Rr.
Qed.


Ltac dq := first [exact (q_nonneg L HL)|exact (q_zero L HL)|exact (q_next L HL)|exact (q_mono L HL)|exact (q_bound L HL)|exact (q_cap_lt L HL)
                 |exact maxi_pos|exact q_SC_small|exact maxi_small|exact q_seg_idx0|eassumption].

Theorem sqrt_Reserve_refines alloc segs n c cap : Arr_Proofs.ginv seg maxi (SCq L) n c -> 0 <= cap < maxi ->
  exists segs' n', Gen_ArrSqrt.Reserve seg idx alloc segs n c cap = Ok (tt, segs', n') /\
    (forall i, i < n -> segs' i = segs i) /\ n <= n' /\
    n' = SegModel.len (SegModel.reserve seg idx (Arr_Proofs.mst n c) cap) /\ Arr_Proofs.ginv seg maxi (SCq L) n' c.
Proof. intros. eapply (Arr_Proofs.Reserve_refines seg idx alloc maxi (SCq L)); dq. Qed.

Theorem sqrt_ShrinkTo_refines segs n c cap : Arr_Proofs.ginv seg maxi (SCq L) n c -> 0 <= cap < maxi ->
  exists n', Gen_ArrSqrt.ShrinkTo seg idx segs n c cap = Ok (tt, n') /\ n' <= n /\
    (exists st', SegModel.step seg idx (Arr_Proofs.mst n c) (SegModel.ShrinkTo cap) = Some st' /\ n' = SegModel.len st') /\
    Arr_Proofs.ginv seg maxi (SCq L) n' c.
Proof. intros. eapply (Arr_Proofs.ShrinkTo_refines seg idx maxi (SCq L)); dq. Qed.

Theorem sqrt_AddBackCrt_refines alloc segs n c : Arr_Proofs.ginv seg maxi (SCq L) n c -> c + 1 < maxi ->
  exists segs' n', Gen_ArrSqrt.AddBackCrt seg alloc segs n c = Ok (tt, segs', n', c + 1) /\
    (forall i, i < n -> segs' i = segs i) /\ (n' = n \/ (n' = n + 1 /\ segs' n = alloc n)) /\ Arr_Proofs.ginv seg maxi (SCq L) n' (c + 1).
Proof. intros. eapply (Arr_Proofs.AddBackCrt_refines seg idx alloc maxi (SCq L)); dq. Qed.

Let cnt := Gen_SegSqrt.GetItemCount L.

Lemma q_SCq_eq : SCq L = fst (seg_of L (maxi - 1)) + 1.
Proof. unfold SCq. rewrite SegSqrt_Proofs.gen_seg_of by (try assumption; apply q_last). reflexivity. Qed.

Lemma q_first_le s : 0 <= s < SCq L -> idx_of L s 0 <= maxi - 1.
Proof.
  intros Hs. pose proof q_last as Hm. rewrite q_SCq_eq in Hs.
  destruct (Z_le_dec (idx_of L s 0) (maxi - 1)) as [|Hn]; [assumption|exfalso].
  assert (X : maxi - 1 < idx_of L s 0) by lia.
  apply (cap_lt_pure L s (maxi - 1) (proj1 HL) (proj1 Hs) (proj1 Hm)) in X. lia.
Qed.

Lemma q_first_index s : 0 <= s < SCq L -> 0 <= idx_of L s 0 <= maxi - 1 /\ seg (idx_of L s 0) = (s, 0).
Proof.
  intros Hs. pose proof q_last as Hm. pose proof (q_first_le s Hs) as Hle.
  pose proof (cnt_pos L s (proj1 HL) (proj1 Hs)) as Hc.
  destruct (roundtrip_rev L (proj1 HL) s 0 (proj1 Hs) (conj (Z.le_refl 0) Hc)) as [Rr R0].
  split; [split; assumption|]. unfold seg. rewrite SegSqrt_Proofs.gen_seg_of; [exact Rr|exact HL64|]. destruct Hm. split; [assumption|]. lia.
Qed.

Lemma q_cnt_pos s : 0 <= s < SCq L -> 1 <= cnt s <= 2 ^ 63.
Proof.
  intros Hs. destruct (q_first_index s Hs) as [Hi E]. pose proof q_last.
  pose proof (SegSqrt_Proofs.item_lt_count L (idx_of L s 0) HL64 ltac:(lia)) as H1. cbv zeta in H1.
  unfold seg in E. rewrite E in H1. cbn [fst snd] in H1. destruct H1 as (_ & Hj & Hc & Hk). unfold cnt.
  split; [lia|]. rewrite Hc. apply Z.pow_le_mono_r; lia.
Qed.

Lemma q_idx_step s : 0 <= s < SCq L -> idx (s + 1) 0 = idx s 0 + cnt s.
Proof. intros Hs. apply (SegSqrt_Proofs.capacity_step L s HL64 ltac:(lia)). apply q_fit. lia. Qed.

Lemma q_seg_split i : 0 <= i < maxi -> i = idx (fst (seg i)) 0 + snd (seg i) /\ snd (seg i) < cnt (fst (seg i)).
Proof.
  intros Hi. pose proof (SegSqrt_Proofs.item_lt_count L i HL64 ltac:(lia)) as H1. cbv zeta in H1. destruct H1 as (Hs0 & Hj & _ & _).
  split; [|exact (proj2 Hj)].
  pose proof (SegSqrt_Proofs.seg_roundtrip L i HL64 ltac:(lia)) as Rt. fold seg idx in Rt, Hs0, Hj.
  (* GetIndex s j = GetIndex s 0 + j through the exact functions *)
  unfold seg, idx in *. rewrite SegSqrt_Proofs.gen_seg_of in * by lia.
  pose proof (item_lt_cnt L ltac:(lia) i ltac:(lia)) as Hjc. pose proof (roundtrip L ltac:(lia) i ltac:(lia)) as Rp.
  set (s := fst (seg_of L i)) in *. set (j := snd (seg_of L i)) in *.
  pose proof (idx_offset L ltac:(lia) s j ltac:(lia) Hjc) as Off.
  pose proof (cnt_pos L s ltac:(lia) ltac:(lia)).
  assert (Hroot : 0 <= idx_of L s 0) by (destruct (roundtrip_rev L ltac:(lia) s 0 ltac:(lia) ltac:(lia)); assumption).
  rewrite (SegSqrt_Proofs.gen_idx_of L s 0) by (try lia). lia.
Qed.

Lemma q_idx_small m : 0 <= m <= SCq L -> idx m 0 < 2 ^ 64 - 1.
Proof.
  intros Hm. pose proof (q_fit m Hm) as Hfit. pose proof (cnt_pos L m ltac:(lia) ltac:(lia)).
  unfold idx. rewrite SegSqrt_Proofs.gen_idx_of by (try assumption; lia).
  pose proof (SegMath.pow2_pos L ltac:(lia)). lia.
Qed.

Ltac dq2 := first [exact q_cnt_pos|exact q_idx_step|exact (q_idx_zero L HL)|exact q_seg_split|exact q_idx_small|dq].

Theorem sqrt_ShrinkFit_refines segs n c : Arr_Proofs.ginv seg maxi (SCq L) n c ->
  exists n', Gen_ArrSqrt.ShrinkFit seg idx segs n c = Ok (tt, n') /\ n' <= n /\
    (exists st', SegModel.step seg idx (Arr_Proofs.mst n c) SegModel.ShrinkFit = Some st' /\ n' = SegModel.len st') /\
    Arr_Proofs.ginv seg maxi (SCq L) n' c.
Proof. intros. eapply (Arr_Proofs.ShrinkFit_refines seg idx maxi (SCq L)); dq2. Qed.

Theorem sqrt_pvDecCount_spec segs n c count : 0 <= count <= c -> c < maxi -> Gen_ArrSqrt.pvDecCount seg cnt segs n c count = Ok (tt, count).
Proof. intros. eapply (Arr_Proofs.pvDecCount_spec seg idx cnt maxi (SCq L)); dq2. Qed.

Theorem sqrt_RemoveBack_spec segs n c k : 0 <= k <= c -> c < maxi -> Gen_ArrSqrt.RemoveBack seg cnt segs n c k = Ok (tt, c - k).
Proof. intros. eapply (Arr_Proofs.RemoveBack_spec seg idx cnt maxi (SCq L)); dq2. Qed.

Theorem sqrt_SetCountCrt_down_spec alloc segs n c count : 0 <= count < c -> c < maxi ->
  Gen_ArrSqrt.SetCountCrt seg idx cnt alloc segs n c count = Ok (tt, segs, n, count).
Proof. intros. eapply (Arr_Proofs.SetCountCrt_down_spec seg idx cnt alloc maxi (SCq L)); dq2. Qed.

Theorem sqrt_Clear_spec segs n c shrink : Arr_Proofs.ginv seg maxi (SCq L) n c ->
  Gen_ArrSqrt.Clear seg idx cnt segs n c shrink = Ok (tt, (if shrink then 0 else n), 0).
Proof. intros. eapply (Arr_Proofs.Clear_spec seg idx cnt maxi (SCq L)); dq2. Qed.

Theorem sqrt_AddBackNogrowCrt_spec segs n c : Arr_Proofs.ginv seg maxi (SCq L) n c -> c + 1 < maxi -> c < idx n 0 ->
  Gen_ArrSqrt.AddBackNogrowCrt seg segs n c = Ok (tt, c + 1) /\ Arr_Proofs.ginv seg maxi (SCq L) n (c + 1).
Proof. intros. eapply (Arr_Proofs.AddBackNogrowCrt_spec seg idx maxi (SCq L)); dq2. Qed.

Theorem sqrt_pvGetItem_spec segs n c i : Arr_Proofs.ginv seg maxi (SCq L) n c -> 0 <= i < c ->
  Gen_ArrSqrt.pvGetItem seg segs n c i = Ok (segs (fst (seg i)) + snd (seg i)) /\
  0 <= fst (seg i) < n /\ 0 <= snd (seg i) < cnt (fst (seg i)).
Proof. intros. eapply (Arr_Proofs.pvGetItem_spec seg idx cnt maxi (SCq L)); dq2. Qed.

Theorem sqrt_getitem_stable segs n c segs' n' c' i : Arr_Proofs.ginv seg maxi (SCq L) n c -> Arr_Proofs.ginv seg maxi (SCq L) n' c' ->
  (forall k, k < n -> segs' k = segs k) -> 0 <= i < c -> i < c' ->
  Gen_ArrSqrt.pvGetItem seg segs' n' c' i = Gen_ArrSqrt.pvGetItem seg segs n c i.
Proof. intros. eapply (Arr_Proofs.getitem_stable seg idx cnt maxi (SCq L)); dq2. Qed.

Theorem sqrt_SetCountCrt_spec alloc segs n c count : Arr_Proofs.ginv seg maxi (SCq L) n c -> 0 <= count < maxi ->
  exists segs' n', Gen_ArrSqrt.SetCountCrt seg idx cnt alloc segs n c count = Ok (tt, segs', n', count) /\
    (forall i, i < n -> segs' i = segs i) /\ n <= n' /\ (count <= c -> segs' = segs /\ n' = n) /\ Arr_Proofs.ginv seg maxi (SCq L) n' count.
Proof. intros. eapply (Arr_Proofs.SetCountCrt_spec seg idx cnt alloc maxi (SCq L)); dq2. Qed.

Theorem sqrt_pvDecCount_log segs n c glog gn count : 0 <= count <= c -> c < maxi ->
  exists glog' m, Gen_ArrLog.pvDecCount seg cnt segs n c glog gn count = Ok (tt, count, glog', gn + 2 * Z.of_nat m) /\
    (forall i, i < gn -> glog' i = glog i) /\ Arr_Proofs.tiles idx cnt (SCq L) glog' segs m gn c count.
Proof. intros. eapply (Arr_Proofs.pvDecCount_log_spec seg idx cnt maxi (SCq L)); dq2. Qed.

Theorem sqrt_Insert_stable alloc segs n c (items : Z -> Z) index count it : Arr_Proofs.ginv seg maxi (SCq L) n c -> 0 <= index <= c -> 0 <= count ->
  c + count < maxi -> (it < index \/ c + count <= it) ->
  exists segs' n' items',
    Gen_ArrSqrt.Reserve seg idx alloc segs n c (c + count) = Ok (tt, segs', n') /\
    Gen_ShiftSqrt.ShiftInsert items c (idx n' 0) index count it = Ok (tt, items', c + count) /\
    (forall k, k < n -> segs' k = segs k) /\ n <= n' /\ Arr_Proofs.ginv seg maxi (SCq L) n' (c + count) /\
    (forall i, 0 <= i < c -> Gen_ArrSqrt.pvGetItem seg segs' n' (c + count) i = Gen_ArrSqrt.pvGetItem seg segs n c i) /\
    (forall j, j < index -> items' j = items j) /\ (forall j, index <= j < index + count -> items' j = items it) /\
    (forall j, index + count <= j < c + count -> items' j = items (j - count)).
Proof. intros. eapply (Arr_Proofs.Insert_stable seg idx cnt alloc maxi (SCq L)); dq2. Qed.

Theorem sqrt_Remove_stable segs n c (items : Z -> Z) index count : Arr_Proofs.ginv seg maxi (SCq L) n c -> 0 <= index -> 0 <= count -> index + count <= c ->
  exists items',
    Gen_ShiftSqrt.ShiftRemove items c (idx n 0) index count = Ok (tt, items', c - count) /\ Arr_Proofs.ginv seg maxi (SCq L) n (c - count) /\
    (forall i, 0 <= i < c - count -> Gen_ArrSqrt.pvGetItem seg segs n (c - count) i = Gen_ArrSqrt.pvGetItem seg segs n c i) /\
    (forall j, j < index -> items' j = items j) /\ (forall j, index <= j < c - count -> items' j = items (j + count)).
Proof. intros. eapply (Arr_Proofs.Remove_stable seg idx cnt maxi (SCq L)); dq2. Qed.

Theorem sqrt_nogrow_bridge segs n c : Arr_Proofs.ginv seg maxi (SCq L) n c -> c + 1 < maxi ->
  Gen_ArrSqrt.AddBackNogrowCrt seg segs n c = if Z.ltb c (idx n 0) then Ok (tt, c + 1) else Stuck.
Proof. intros. eapply (Arr_Proofs.nogrow_bridge seg idx cnt maxi (SCq L)); dq2. Qed.

Theorem sqrt_removeback_bridge segs n c k : 0 <= k -> 0 <= c < maxi ->
  Gen_ArrSqrt.RemoveBack seg cnt segs n c k = if Z.leb k c then Ok (tt, c - k) else Stuck.
Proof. intros. eapply (Arr_Proofs.removeback_bridge seg idx cnt maxi (SCq L)); dq2. Qed.

Theorem sqrt_insert_n_from_facts alloc segs n c (items : Z -> Z) index count it : Arr_Proofs.ginv seg maxi (SCq L) n c -> 0 <= index <= c -> 0 <= count ->
  c + count < maxi -> (it < index \/ c + count <= it) ->
  exists g', Arr_Proofs.run seg idx alloc (map Arr_Proofs.act_of Gen_SegFacts.seg_insert_n) index count it (Arr_Proofs.mkg segs n c items) = Ok g' /\
    Arr_Proofs.g_c g' = c + count /\ (forall k, k < n -> Arr_Proofs.g_segs g' k = segs k) /\ Arr_Proofs.ginv seg maxi (SCq L) (Arr_Proofs.g_n g') (c + count) /\
    (forall i, 0 <= i < c -> Arr_Proofs.GA.pvGetItem seg (Arr_Proofs.g_segs g') (Arr_Proofs.g_n g') (c + count) i = Arr_Proofs.GA.pvGetItem seg segs n c i) /\
    (forall j, j < index -> Arr_Proofs.g_items g' j = items j) /\ (forall j, index <= j < index + count -> Arr_Proofs.g_items g' j = items it) /\
    (forall j, index + count <= j < c + count -> Arr_Proofs.g_items g' j = items (j - count)).
Proof. intros. eapply (Arr_Proofs.insert_n_from_facts seg idx cnt alloc maxi (SCq L)); dq2. Qed.

Theorem sqrt_remove_n_from_facts alloc segs n c (items : Z -> Z) index count : Arr_Proofs.ginv seg maxi (SCq L) n c -> 0 <= index -> 0 <= count -> index + count <= c ->
  exists g', Arr_Proofs.run seg idx alloc (map Arr_Proofs.act_of Gen_SegFacts.seg_remove_n) index count 0 (Arr_Proofs.mkg segs n c items) = Ok g' /\
    Arr_Proofs.g_c g' = c - count /\ Arr_Proofs.g_segs g' = segs /\ Arr_Proofs.g_n g' = n /\ Arr_Proofs.ginv seg maxi (SCq L) n (c - count) /\
    (forall i, 0 <= i < c - count -> Arr_Proofs.GA.pvGetItem seg segs n (c - count) i = Arr_Proofs.GA.pvGetItem seg segs n c i) /\
    (forall j, j < index -> Arr_Proofs.g_items g' j = items j) /\ (forall j, index <= j < c - count -> Arr_Proofs.g_items g' j = items (j + count)).
Proof. intros. eapply (Arr_Proofs.remove_n_from_facts seg idx cnt alloc maxi (SCq L)); dq2. Qed.

Theorem sqrt_range_insert_from_facts alloc segs n c (items : Z -> Z) index count it : Arr_Proofs.ginv seg maxi (SCq L) n c -> 0 <= index <= c -> 0 <= count ->
  c + count < maxi -> c + count <= it ->
  exists g', Arr_Proofs.run seg idx alloc (map Arr_Proofs.act_of Gen_SegFacts.seg_pvinsert_forward) index count it (Arr_Proofs.mkg segs n c items) = Ok g' /\
    Arr_Proofs.g_c g' = c + count /\ (forall k, k < n -> Arr_Proofs.g_segs g' k = segs k) /\ Arr_Proofs.ginv seg maxi (SCq L) (Arr_Proofs.g_n g') (c + count) /\
    (forall i, 0 <= i < c -> Arr_Proofs.GA.pvGetItem seg (Arr_Proofs.g_segs g') (Arr_Proofs.g_n g') (c + count) i = Arr_Proofs.GA.pvGetItem seg segs n c i) /\
    (forall j, j < index -> Arr_Proofs.g_items g' j = items j) /\ (forall j, index <= j < index + count -> Arr_Proofs.g_items g' j = items (it + (j - index))) /\
    (forall j, index + count <= j < c + count -> Arr_Proofs.g_items g' j = items (j - count)).
Proof. intros. eapply (Arr_Proofs.range_insert_from_facts seg idx cnt alloc maxi (SCq L)); dq2. Qed.

Theorem sqrt_remove_if_stable (pred : Z -> bool) segs n (m : nat) (items : Z -> Z) : Arr_Proofs.ginv seg maxi (SCq L) n (Z.of_nat m) ->
  exists items', Gen_ShiftXSqrt.ShiftRemoveIf pred items (Z.of_nat m) (idx n 0) =
      Ok (Z.of_nat m - Z.of_nat (length (ShiftX_Proofs.filt pred items m)), items', Z.of_nat (length (ShiftX_Proofs.filt pred items m))) /\
    Arr_Proofs.ginv seg maxi (SCq L) n (Z.of_nat (length (ShiftX_Proofs.filt pred items m))) /\
    (forall j, (j < length (ShiftX_Proofs.filt pred items m))%nat -> items' (Z.of_nat j) = nth j (ShiftX_Proofs.filt pred items m) 0) /\
    (forall i, 0 <= i < Z.of_nat (length (ShiftX_Proofs.filt pred items m)) ->
       Arr_Proofs.GA.pvGetItem seg segs n (Z.of_nat (length (ShiftX_Proofs.filt pred items m))) i = Arr_Proofs.GA.pvGetItem seg segs n (Z.of_nat m) i).
Proof. intros. eapply (Arr_Proofs.remove_if_stable seg idx cnt maxi (SCq L)); dq2. Qed.

Theorem sqrt_singlepass_insert_from_facts alloc m segs n c (items : Z -> Z) index (its : nat -> Z) : Arr_Proofs.ginv seg maxi (SCq L) n c -> 0 <= index <= c ->
  c + Z.of_nat m < maxi -> (forall k, c + Z.of_nat m <= its k) ->
  exists g', Arr_Proofs.insert_crt_times seg idx alloc m index its (Arr_Proofs.mkg segs n c items) = Ok g' /\ Arr_Proofs.g_c g' = c + Z.of_nat m /\
    (forall k, k < n -> Arr_Proofs.g_segs g' k = segs k) /\ Arr_Proofs.ginv seg maxi (SCq L) (Arr_Proofs.g_n g') (c + Z.of_nat m) /\
    (forall i, 0 <= i < c -> Arr_Proofs.GA.pvGetItem seg (Arr_Proofs.g_segs g') (Arr_Proofs.g_n g') (c + Z.of_nat m) i = Arr_Proofs.GA.pvGetItem seg segs n c i).
Proof. intros. eapply (Arr_Proofs.singlepass_insert_from_facts seg idx cnt alloc maxi (SCq L)); dq2. Qed.

Theorem sqrt_removeback_stable segs n c k : Arr_Proofs.ginv seg maxi (SCq L) n c -> 0 <= k <= c ->
  Arr_Proofs.GA.RemoveBack seg cnt segs n c k = Ok (tt, c - k) /\ Arr_Proofs.ginv seg maxi (SCq L) n (c - k) /\
  (forall i, 0 <= i < c - k -> Arr_Proofs.GA.pvGetItem seg segs n (c - k) i = Arr_Proofs.GA.pvGetItem seg segs n c i).
Proof. intros. eapply (Arr_Proofs.removeback_stable seg idx cnt maxi (SCq L)); dq2. Qed.

Theorem sqrt_ginv_empty : Arr_Proofs.ginv seg maxi (SCq L) 0 0.
Proof. split; [lia|]. apply (SegModel_Inst.sqrt_inv_empty L HL). Qed.
End Sqrt.

Section Cnst.
Variable L : Z.
Hypothesis HL : 0 <= L <= 62.
Let seg := Gen_SegCnst.GetSegItemIndexes L.
Let idx := Gen_SegCnst.GetIndex L.
Let HL64 : 0 <= L < 64. Proof. lia. Qed.
Let HB : 0 < 2 ^ L. Proof. apply SegMath.pow2_pos; lia. Qed.

Lemma c_SC_small : SCc L < 2 ^ 63.
Proof.
  unfold SCc. assert ((maxi - 1) / 2 ^ L <= maxi - 1) by (apply Z.div_le_upper_bound; [lia|]; unfold maxi; nia).
  unfold maxi in *. change (2 ^ 63) with (2 * 2 ^ 62). lia.
Qed.

Lemma c_seg_idx0 sc : 0 <= sc <= SCc L -> idx sc 0 < maxi -> seg (idx sc 0) = (sc, 0).
Proof.
  intros Hsc _. unfold seg, idx.
  assert (Hq : ((maxi - 1) / 2 ^ L) * 2 ^ L <= maxi - 1).
  { pose proof (Z.div_mod (maxi - 1) (2 ^ L) ltac:(lia)). pose proof (Z.mod_pos_bound (maxi - 1) (2 ^ L) HB). lia. }
  assert (HB62 : 2 ^ L <= 2 ^ 62) by (apply Z.pow_le_mono_r; lia).
  assert (Hfit : sc * 2 ^ L < 2 ^ 64).
  { unfold SCc in Hsc. assert (sc * 2 ^ L <= ((maxi - 1) / 2 ^ L + 1) * 2 ^ L) by nia.
    unfold maxi in *. change (2 ^ 64) with (4 * 2 ^ 62). lia. }
  rewrite SegCnst_Proofs.gen_idx by lia. rewrite SegCnst_Proofs.gen_seg by assumption. rewrite Z.add_0_r.
  rewrite Z.div_mul, Z.mod_mul by lia. reflexivity.
Qed.

Ltac dc := first [exact (c_nonneg L HL)|exact (c_zero L HL)|exact (c_next L HL)|exact (c_mono L HL)|exact (c_bound L HL)|exact (c_cap_lt L HL)
                 |exact maxi_pos|exact c_SC_small|exact maxi_small|exact c_seg_idx0|eassumption].

Theorem cnst_Reserve_refines alloc segs n c cap : Arr_Proofs.ginv seg maxi (SCc L) n c -> 0 <= cap < maxi ->
  exists segs' n', Gen_ArrCnst.Reserve seg idx alloc segs n c cap = Ok (tt, segs', n') /\
    (forall i, i < n -> segs' i = segs i) /\ n <= n' /\
    n' = SegModel.len (SegModel.reserve seg idx (Arr_Proofs.mst n c) cap) /\ Arr_Proofs.ginv seg maxi (SCc L) n' c.
Proof. intros. eapply (Arr_Proofs.Reserve_refines seg idx alloc maxi (SCc L)); dc. Qed.

Theorem cnst_ShrinkTo_refines segs n c cap : Arr_Proofs.ginv seg maxi (SCc L) n c -> 0 <= cap < maxi ->
  exists n', Gen_ArrCnst.ShrinkTo seg idx segs n c cap = Ok (tt, n') /\ n' <= n /\
    (exists st', SegModel.step seg idx (Arr_Proofs.mst n c) (SegModel.ShrinkTo cap) = Some st' /\ n' = SegModel.len st') /\
    Arr_Proofs.ginv seg maxi (SCc L) n' c.
Proof. intros. eapply (Arr_Proofs.ShrinkTo_refines seg idx maxi (SCc L)); dc. Qed.

Theorem cnst_AddBackCrt_refines alloc segs n c : Arr_Proofs.ginv seg maxi (SCc L) n c -> c + 1 < maxi ->
  exists segs' n', Gen_ArrCnst.AddBackCrt seg alloc segs n c = Ok (tt, segs', n', c + 1) /\
    (forall i, i < n -> segs' i = segs i) /\ (n' = n \/ (n' = n + 1 /\ segs' n = alloc n)) /\ Arr_Proofs.ginv seg maxi (SCc L) n' (c + 1).
Proof. intros. eapply (Arr_Proofs.AddBackCrt_refines seg idx alloc maxi (SCc L)); dc. Qed.
Let cnt := fun _ : Z => Gen_SegCnst.GetItemCount L.

Lemma c_fit sc : 0 <= sc <= SCc L -> sc * 2 ^ L < 2 ^ 64.
Proof.
  intros Hsc.
  assert (Hq : ((maxi - 1) / 2 ^ L) * 2 ^ L <= maxi - 1).
  { pose proof (Z.div_mod (maxi - 1) (2 ^ L) ltac:(lia)). pose proof (Z.mod_pos_bound (maxi - 1) (2 ^ L) HB). lia. }
  assert (HB62 : 2 ^ L <= 2 ^ 62) by (apply Z.pow_le_mono_r; lia).
  unfold SCc in Hsc. assert (sc * 2 ^ L <= ((maxi - 1) / 2 ^ L + 1) * 2 ^ L) by nia.
  unfold maxi in *. change (2 ^ 64) with (4 * 2 ^ 62). lia.
Qed.

Lemma c_cnt_pos s : 0 <= s < SCc L -> 1 <= cnt s <= 2 ^ 63.
Proof.
  intros _. unfold cnt. rewrite SegCnst_Proofs.gen_count by assumption.
  assert (2 ^ L <= 2 ^ 62) by (apply Z.pow_le_mono_r; lia). change (2 ^ 63) with (2 * 2 ^ 62). lia.
Qed.

Lemma c_idx_step s : 0 <= s < SCc L -> idx (s + 1) 0 = idx s 0 + cnt s.
Proof.
  intros Hs. unfold idx, cnt. pose proof (c_fit (s + 1) ltac:(lia)). pose proof (c_fit s ltac:(lia)).
  rewrite !SegCnst_Proofs.gen_idx by lia. rewrite SegCnst_Proofs.gen_count by assumption. lia.
Qed.

Lemma c_seg_split i : 0 <= i < maxi -> i = idx (fst (seg i)) 0 + snd (seg i) /\ snd (seg i) < cnt (fst (seg i)).
Proof.
  intros Hi. unfold seg, idx, cnt. rewrite SegCnst_Proofs.gen_seg by assumption. cbn [fst snd].
  rewrite SegCnst_Proofs.gen_count by assumption.
  pose proof (Z.div_mod i (2 ^ L) ltac:(lia)). pose proof (Z.mod_pos_bound i (2 ^ L) HB).
  assert (0 <= i / 2 ^ L) by (apply Z.div_pos; lia).
  assert (i / 2 ^ L * 2 ^ L <= i) by lia. assert (maxi < 2 ^ 64) by reflexivity.
  rewrite SegCnst_Proofs.gen_idx by lia. lia.
Qed.

Lemma c_idx_small m : 0 <= m <= SCc L -> idx m 0 < 2 ^ 64 - 1.
Proof.
  intros Hm. unfold idx. pose proof (c_fit m Hm).
  assert (Hq : ((maxi - 1) / 2 ^ L) * 2 ^ L <= maxi - 1).
  { pose proof (Z.div_mod (maxi - 1) (2 ^ L) ltac:(lia)). pose proof (Z.mod_pos_bound (maxi - 1) (2 ^ L) HB). lia. }
  assert (HB62 : 2 ^ L <= 2 ^ 62) by (apply Z.pow_le_mono_r; lia).
  rewrite SegCnst_Proofs.gen_idx by lia. unfold SCc in Hm.
  assert (m * 2 ^ L <= ((maxi - 1) / 2 ^ L + 1) * 2 ^ L) by nia.
  unfold maxi in *. change (2 ^ 64) with (4 * 2 ^ 62). lia.
Qed.

Ltac dc2 := first [exact c_cnt_pos|exact c_idx_step|exact (c_idx_zero L HL)|exact c_seg_split|exact c_idx_small|dc].

Theorem cnst_pvDecCount_spec segs n c count : 0 <= count <= c -> c < maxi -> Gen_ArrCnst.pvDecCount seg cnt segs n c count = Ok (tt, count).
Proof. intros. eapply (Arr_Proofs.pvDecCount_spec seg idx cnt maxi (SCc L)); dc2. Qed.

Theorem cnst_RemoveBack_spec segs n c k : 0 <= k <= c -> c < maxi -> Gen_ArrCnst.RemoveBack seg cnt segs n c k = Ok (tt, c - k).
Proof. intros. eapply (Arr_Proofs.RemoveBack_spec seg idx cnt maxi (SCc L)); dc2. Qed.

Theorem cnst_Clear_spec segs n c shrink : Arr_Proofs.ginv seg maxi (SCc L) n c ->
  Gen_ArrCnst.Clear seg idx cnt segs n c shrink = Ok (tt, (if shrink then 0 else n), 0).
Proof. intros. eapply (Arr_Proofs.Clear_spec seg idx cnt maxi (SCc L)); dc2. Qed.

Theorem cnst_AddBackNogrowCrt_spec segs n c : Arr_Proofs.ginv seg maxi (SCc L) n c -> c + 1 < maxi -> c < idx n 0 ->
  Gen_ArrCnst.AddBackNogrowCrt seg segs n c = Ok (tt, c + 1) /\ Arr_Proofs.ginv seg maxi (SCc L) n (c + 1).
Proof. intros. eapply (Arr_Proofs.AddBackNogrowCrt_spec seg idx maxi (SCc L)); dc2. Qed.

Theorem cnst_pvGetItem_spec segs n c i : Arr_Proofs.ginv seg maxi (SCc L) n c -> 0 <= i < c ->
  Gen_ArrCnst.pvGetItem seg segs n c i = Ok (segs (fst (seg i)) + snd (seg i)) /\
  0 <= fst (seg i) < n /\ 0 <= snd (seg i) < cnt (fst (seg i)).
Proof. intros. eapply (Arr_Proofs.pvGetItem_spec seg idx cnt maxi (SCc L)); dc2. Qed.

Theorem cnst_getitem_stable segs n c segs' n' c' i : Arr_Proofs.ginv seg maxi (SCc L) n c -> Arr_Proofs.ginv seg maxi (SCc L) n' c' ->
  (forall k, k < n -> segs' k = segs k) -> 0 <= i < c -> i < c' ->
  Gen_ArrCnst.pvGetItem seg segs' n' c' i = Gen_ArrCnst.pvGetItem seg segs n c i.
Proof. intros. eapply (Arr_Proofs.getitem_stable seg idx cnt maxi (SCc L)); dc2. Qed.
Theorem cnst_SetCountCrt_spec alloc segs n c count : Arr_Proofs.ginv seg maxi (SCc L) n c -> 0 <= count < maxi ->
  exists segs' n', Gen_ArrCnst.SetCountCrt seg idx cnt alloc segs n c count = Ok (tt, segs', n', count) /\
    (forall i, i < n -> segs' i = segs i) /\ n <= n' /\ (count <= c -> segs' = segs /\ n' = n) /\ Arr_Proofs.ginv seg maxi (SCc L) n' count.
Proof. intros. eapply (Arr_Proofs.SetCountCrt_spec seg idx cnt alloc maxi (SCc L)); dc2. Qed.
Theorem cnst_pvDecCount_log segs n c glog gn count : 0 <= count <= c -> c < maxi ->
  exists glog' m, Gen_ArrLog.pvDecCount seg cnt segs n c glog gn count = Ok (tt, count, glog', gn + 2 * Z.of_nat m) /\
    (forall i, i < gn -> glog' i = glog i) /\ Arr_Proofs.tiles idx cnt (SCc L) glog' segs m gn c count.
Proof. intros. eapply (Arr_Proofs.pvDecCount_log_spec seg idx cnt maxi (SCc L)); dc2. Qed.
Theorem cnst_Insert_stable alloc segs n c (items : Z -> Z) index count it : Arr_Proofs.ginv seg maxi (SCc L) n c -> 0 <= index <= c -> 0 <= count ->
  c + count < maxi -> (it < index \/ c + count <= it) ->
  exists segs' n' items',
    Gen_ArrCnst.Reserve seg idx alloc segs n c (c + count) = Ok (tt, segs', n') /\
    Gen_ShiftCnst.ShiftInsert items c (idx n' 0) index count it = Ok (tt, items', c + count) /\
    (forall k, k < n -> segs' k = segs k) /\ n <= n' /\ Arr_Proofs.ginv seg maxi (SCc L) n' (c + count) /\
    (forall i, 0 <= i < c -> Gen_ArrCnst.pvGetItem seg segs' n' (c + count) i = Gen_ArrCnst.pvGetItem seg segs n c i) /\
    (forall j, j < index -> items' j = items j) /\ (forall j, index <= j < index + count -> items' j = items it) /\
    (forall j, index + count <= j < c + count -> items' j = items (j - count)).
Proof. intros. eapply (Arr_Proofs.Insert_stable seg idx cnt alloc maxi (SCc L)); dc2. Qed.

Theorem cnst_Remove_stable segs n c (items : Z -> Z) index count : Arr_Proofs.ginv seg maxi (SCc L) n c -> 0 <= index -> 0 <= count -> index + count <= c ->
  exists items',
    Gen_ShiftCnst.ShiftRemove items c (idx n 0) index count = Ok (tt, items', c - count) /\ Arr_Proofs.ginv seg maxi (SCc L) n (c - count) /\
    (forall i, 0 <= i < c - count -> Gen_ArrCnst.pvGetItem seg segs n (c - count) i = Gen_ArrCnst.pvGetItem seg segs n c i) /\
    (forall j, j < index -> items' j = items j) /\ (forall j, index <= j < c - count -> items' j = items (j + count)).
Proof. intros. eapply (Arr_Proofs.Remove_stable seg idx cnt maxi (SCc L)); dc2. Qed.

Theorem cnst_nogrow_bridge segs n c : Arr_Proofs.ginv seg maxi (SCc L) n c -> c + 1 < maxi ->
  Gen_ArrCnst.AddBackNogrowCrt seg segs n c = if Z.ltb c (idx n 0) then Ok (tt, c + 1) else Stuck.
Proof. intros. eapply (Arr_Proofs.nogrow_bridge seg idx cnt maxi (SCc L)); dc2. Qed.

Theorem cnst_removeback_bridge segs n c k : 0 <= k -> 0 <= c < maxi ->
  Gen_ArrCnst.RemoveBack seg cnt segs n c k = if Z.leb k c then Ok (tt, c - k) else Stuck.
Proof. intros. eapply (Arr_Proofs.removeback_bridge seg idx cnt maxi (SCc L)); dc2. Qed.

Theorem cnst_insert_n_from_facts alloc segs n c (items : Z -> Z) index count it : Arr_Proofs.ginv seg maxi (SCc L) n c -> 0 <= index <= c -> 0 <= count ->
  c + count < maxi -> (it < index \/ c + count <= it) ->
  exists g', Arr_Proofs.run seg idx alloc (map Arr_Proofs.act_of Gen_SegFacts.seg_insert_n) index count it (Arr_Proofs.mkg segs n c items) = Ok g' /\
    Arr_Proofs.g_c g' = c + count /\ (forall k, k < n -> Arr_Proofs.g_segs g' k = segs k) /\ Arr_Proofs.ginv seg maxi (SCc L) (Arr_Proofs.g_n g') (c + count) /\
    (forall i, 0 <= i < c -> Arr_Proofs.GA.pvGetItem seg (Arr_Proofs.g_segs g') (Arr_Proofs.g_n g') (c + count) i = Arr_Proofs.GA.pvGetItem seg segs n c i) /\
    (forall j, j < index -> Arr_Proofs.g_items g' j = items j) /\ (forall j, index <= j < index + count -> Arr_Proofs.g_items g' j = items it) /\
    (forall j, index + count <= j < c + count -> Arr_Proofs.g_items g' j = items (j - count)).
Proof. intros. eapply (Arr_Proofs.insert_n_from_facts seg idx cnt alloc maxi (SCc L)); dc2. Qed.

Theorem cnst_remove_n_from_facts alloc segs n c (items : Z -> Z) index count : Arr_Proofs.ginv seg maxi (SCc L) n c -> 0 <= index -> 0 <= count -> index + count <= c ->
  exists g', Arr_Proofs.run seg idx alloc (map Arr_Proofs.act_of Gen_SegFacts.seg_remove_n) index count 0 (Arr_Proofs.mkg segs n c items) = Ok g' /\
    Arr_Proofs.g_c g' = c - count /\ Arr_Proofs.g_segs g' = segs /\ Arr_Proofs.g_n g' = n /\ Arr_Proofs.ginv seg maxi (SCc L) n (c - count) /\
    (forall i, 0 <= i < c - count -> Arr_Proofs.GA.pvGetItem seg segs n (c - count) i = Arr_Proofs.GA.pvGetItem seg segs n c i) /\
    (forall j, j < index -> Arr_Proofs.g_items g' j = items j) /\ (forall j, index <= j < c - count -> Arr_Proofs.g_items g' j = items (j + count)).
Proof. intros. eapply (Arr_Proofs.remove_n_from_facts seg idx cnt alloc maxi (SCc L)); dc2. Qed.

Theorem cnst_range_insert_from_facts alloc segs n c (items : Z -> Z) index count it : Arr_Proofs.ginv seg maxi (SCc L) n c -> 0 <= index <= c -> 0 <= count ->
  c + count < maxi -> c + count <= it ->
  exists g', Arr_Proofs.run seg idx alloc (map Arr_Proofs.act_of Gen_SegFacts.seg_pvinsert_forward) index count it (Arr_Proofs.mkg segs n c items) = Ok g' /\
    Arr_Proofs.g_c g' = c + count /\ (forall k, k < n -> Arr_Proofs.g_segs g' k = segs k) /\ Arr_Proofs.ginv seg maxi (SCc L) (Arr_Proofs.g_n g') (c + count) /\
    (forall i, 0 <= i < c -> Arr_Proofs.GA.pvGetItem seg (Arr_Proofs.g_segs g') (Arr_Proofs.g_n g') (c + count) i = Arr_Proofs.GA.pvGetItem seg segs n c i) /\
    (forall j, j < index -> Arr_Proofs.g_items g' j = items j) /\ (forall j, index <= j < index + count -> Arr_Proofs.g_items g' j = items (it + (j - index))) /\
    (forall j, index + count <= j < c + count -> Arr_Proofs.g_items g' j = items (j - count)).
Proof. intros. eapply (Arr_Proofs.range_insert_from_facts seg idx cnt alloc maxi (SCc L)); dc2. Qed.

Theorem cnst_remove_if_stable (pred : Z -> bool) segs n (m : nat) (items : Z -> Z) : Arr_Proofs.ginv seg maxi (SCc L) n (Z.of_nat m) ->
  exists items', Gen_ShiftXSqrt.ShiftRemoveIf pred items (Z.of_nat m) (idx n 0) =
      Ok (Z.of_nat m - Z.of_nat (length (ShiftX_Proofs.filt pred items m)), items', Z.of_nat (length (ShiftX_Proofs.filt pred items m))) /\
    Arr_Proofs.ginv seg maxi (SCc L) n (Z.of_nat (length (ShiftX_Proofs.filt pred items m))) /\
    (forall j, (j < length (ShiftX_Proofs.filt pred items m))%nat -> items' (Z.of_nat j) = nth j (ShiftX_Proofs.filt pred items m) 0) /\
    (forall i, 0 <= i < Z.of_nat (length (ShiftX_Proofs.filt pred items m)) ->
       Arr_Proofs.GA.pvGetItem seg segs n (Z.of_nat (length (ShiftX_Proofs.filt pred items m))) i = Arr_Proofs.GA.pvGetItem seg segs n (Z.of_nat m) i).
Proof. intros. eapply (Arr_Proofs.remove_if_stable seg idx cnt maxi (SCc L)); dc2. Qed.

Theorem cnst_singlepass_insert_from_facts alloc m segs n c (items : Z -> Z) index (its : nat -> Z) : Arr_Proofs.ginv seg maxi (SCc L) n c -> 0 <= index <= c ->
  c + Z.of_nat m < maxi -> (forall k, c + Z.of_nat m <= its k) ->
  exists g', Arr_Proofs.insert_crt_times seg idx alloc m index its (Arr_Proofs.mkg segs n c items) = Ok g' /\ Arr_Proofs.g_c g' = c + Z.of_nat m /\
    (forall k, k < n -> Arr_Proofs.g_segs g' k = segs k) /\ Arr_Proofs.ginv seg maxi (SCc L) (Arr_Proofs.g_n g') (c + Z.of_nat m) /\
    (forall i, 0 <= i < c -> Arr_Proofs.GA.pvGetItem seg (Arr_Proofs.g_segs g') (Arr_Proofs.g_n g') (c + Z.of_nat m) i = Arr_Proofs.GA.pvGetItem seg segs n c i).
Proof. intros. eapply (Arr_Proofs.singlepass_insert_from_facts seg idx cnt alloc maxi (SCc L)); dc2. Qed.

Theorem cnst_removeback_stable segs n c k : Arr_Proofs.ginv seg maxi (SCc L) n c -> 0 <= k <= c ->
  Arr_Proofs.GA.RemoveBack seg cnt segs n c k = Ok (tt, c - k) /\ Arr_Proofs.ginv seg maxi (SCc L) n (c - k) /\
  (forall i, 0 <= i < c - k -> Arr_Proofs.GA.pvGetItem seg segs n (c - k) i = Arr_Proofs.GA.pvGetItem seg segs n c i).
Proof. intros. eapply (Arr_Proofs.removeback_stable seg idx cnt maxi (SCc L)); dc2. Qed.

Theorem cnst_ginv_empty : Arr_Proofs.ginv seg maxi (SCc L) 0 0.
Proof. split; [lia|]. apply (SegModel_Inst.cnst_inv_empty L HL). Qed.
End Cnst.
