(* C02 -- pvRebalance: merging two siblings, the bottom-up loop and the root collapse preserve WF and the contents *)
From Coq Require Import List ZArith Arith Lia Bool.
From C02 Require Import BTreeModel BTreeBase BTreeSearch BTreeIter BTreeAdd.
Import ListNotations.

Lemma interleave_app2 A ka B k kb :
  length A = S (length ka) -> interleave (A ++ B) (ka ++ k :: kb) = interleave A ka ++ k :: interleave B kb.
Proof.
  revert ka; induction A as [|a A IH]; intros ka H; simpl in H; [lia|].
  destruct ka as [|k0 ka]; simpl in *.
  - destruct A; simpl in *; [reflexivity | lia].
  - rewrite IH by lia. rewrite <- app_assoc. reflexivity.
Qed.

Lemma skipn_head' {A} (l : list A) i x : nth_error l i = Some x -> skipn i l = x :: skipn (S i) l.
Proof. revert l; induction i; intros [|a l] H; simpl in *; try discriminate; [congruence | auto]. Qed.

Section Rem.
Variable maxCap : nat.
Hypothesis Hpos : 0 < maxCap.
Notation shape := (shape maxCap).

(* replacing child c by a node of the same depth with the same contents *)
Lemma replace_child_spec d n c ch ch' :
  shape (S d) n -> nth_error (n_children n) c = Some ch -> shape d ch' -> flatten ch' = flatten ch ->
  let n' := Node (n_cap n) (n_items n) (replace_at c ch' (n_children n)) in
  shape (S d) n' /\ flatten n' = flatten n.
Proof.
  intros Sh E Sch' Fl n'. pose proof Sh as (H1 & H2 & L & F & Cpx).
  assert (Hc : c < length (n_children n)) by (eapply nth_error_lt; eauto).
  assert (E' : nth_error (n_children n') c = Some ch') by (apply replace_at_nth_error; auto).
  assert (L' : length (n_children n') = S (n_count n')) by (unfold n', n_count; simpl; rewrite replace_at_length; auto).
  split.
  - unfold n'. simpl. unfold n_count. simpl. rewrite replace_at_length by auto. repeat split; auto; try lia.
    apply Forall_replace_at; auto.
  - rewrite (flatten_split n' c ch' L' E'), (flatten_split n c ch L E). unfold n'.
    rewrite (pre_replace maxCap Hpos), (post_replace maxCap Hpos) by auto. rewrite Fl. reflexivity.
Qed.

Lemma update_at_spec p : forall d n nd f,
  shape d n -> node_at p n = Some nd ->
  (forall d', shape d' nd -> shape d' (f nd) /\ flatten (f nd) = flatten nd) ->
  shape d (update_at p f n) /\ flatten (update_at p f n) = flatten n.
Proof.
  induction p as [|c p IH]; intros d n nd f Sh E Hf; simpl in *.
  - inversion E; subst. apply Hf. exact Sh.
  - destruct (nth_error (n_children n) c) as [ch|] eqn:Ec; [|discriminate].
    destruct d as [|d].
    + exfalso. destruct Sh as (_ & _ & L). rewrite L in Ec. destruct c; discriminate.
    + pose proof (shape_child _ _ _ _ _ Sh Ec) as Sch.
      destruct (IH d ch nd f Sch E Hf) as [S' F'].
      apply (replace_child_spec d n c ch); auto.
Qed.

(* bool pvRebalance(parentNode, index, savedNode): children j and j+1 merged around separator j *)
Lemma merge_children_spec d par j par' :
  shape (S d) par -> merge_children par (S j) = Some par' ->
  shape (S d) par' /\ flatten par' = flatten par.
Proof.
  intros Sh M. pose proof Sh as (H1 & H2 & L & F & Cpx). unfold merge_children in M.
  replace (S j - 1) with j in M by lia.
  destruct (nth_error (n_children par) j) as [n1|] eqn:E1; [|discriminate].
  destruct (nth_error (n_children par) (S j)) as [n2|] eqn:E2; [|discriminate].
  destruct (nth_error (n_items par) j) as [sep|] eqn:Es; [|discriminate].
  destruct (n_cap n1 <? n_count n1 + n_count n2 + 1) eqn:Ecap; [discriminate|].
  apply Nat.ltb_ge in Ecap.
  assert (Ep : par' = Node (n_cap par) (remove_at j (n_items par))
            (firstn j (n_children par) ++ Node (n_cap n1) (n_items n1 ++ sep :: n_items n2) (n_children n1 ++ n_children n2)
               :: skipn (S (S j)) (n_children par))) by congruence.
  clear M. subst par'.
  pose proof (shape_child _ _ _ _ _ Sh E1) as S1. pose proof (shape_child _ _ _ _ _ Sh E2) as S2.
  set (Mn := Node (n_cap n1) (n_items n1 ++ sep :: n_items n2) (n_children n1 ++ n_children n2)).
  assert (SM : shape d Mn /\ flatten Mn = flatten n1 ++ sep :: flatten n2).
  { destruct d as [|d].
    - destruct S1 as (A1 & A2 & A3). destruct S2 as (B1 & B2 & B3). unfold Mn. rewrite A3, B3. simpl.
      unfold n_count in *. simpl. rewrite app_length. simpl. split; [repeat split; auto; lia|].
      rewrite (flatten_leaf n1), (flatten_leaf n2) by (unfold is_leaf; rewrite ?A3, ?B3; reflexivity). reflexivity.
    - destruct S1 as (A1 & A2 & A3 & A4 & A5). destruct S2 as (B1 & B2 & B3 & B4 & B5). unfold Mn. split.
      + simpl. unfold n_count in *. simpl. rewrite !app_length. simpl.
        split; [lia|]. split; [lia|]. split; [lia|]. split; [apply Forall_app; auto | exact A5].
      + cbn [flatten]. rewrite map_app. rewrite interleave_app2 by (rewrite map_length; exact A3).
        rewrite <- !flatten_unfold. reflexivity. }
  destruct SM as [SM FM].
  destruct (nth_error_split _ _ _ E1) as [Ecs Lc]. destruct (nth_error_split _ _ _ Es) as [Eks Lk].
  assert (Ecs2 : skipn (S j) (n_children par) = n2 :: skipn (S (S j)) (n_children par)).
  { clear - E2. revert E2. generalize (n_children par). induction (S j); intros [|a l] H; simpl in *; try discriminate; [congruence | auto]. }
  assert (Hj : j < n_count par) by (apply nth_error_lt in Es; exact Es).
  split.
  - assert (LT : length (skipn (S (S j)) (n_children par)) = length (n_children par) - S (S j)) by apply skipn_length.
    assert (FT : Forall (shape d) (skipn (S (S j)) (n_children par))) by (apply Forall_skipn; auto).
    remember (skipn (S (S j)) (n_children par)) as T eqn:ET.
    assert (LK : length (skipn (S j) (n_items par)) = length (n_items par) - S j) by apply skipn_length.
    remember (skipn (S j) (n_items par)) as K eqn:EK.
    cbn [BTreeBase.shape]. unfold n_count in *. cbn [n_items n_cap n_children]. unfold remove_at. rewrite <- EK.
    rewrite !app_length. cbn [length]. rewrite !firstn_length_le by lia. rewrite LT, LK.
    split; [lia|]. split; [lia|]. split; [lia|]. split; [|exact Cpx].
    apply Forall_app. split; [apply Forall_firstn; auto|]. constructor; auto.
  - assert (Fpar : flatten par = pre par j ++ flatten n1 ++ sep :: flatten n2 ++
        tailpart (map flatten (skipn (S (S j)) (n_children par))) (skipn (S j) (n_items par))).
    { rewrite (flatten_split par j n1 L E1). unfold post. rewrite skipn_map', Ecs2, (skipn_head' _ _ _ Es).
      cbn [map]. unfold tailpart at 1. rewrite interleave_cons. reflexivity. }
    rewrite Fpar. rewrite (flatten_unfold (Node _ _ _)). cbn [n_children n_items]. fold Mn. unfold remove_at.
    rewrite map_app. cbn [map]. rewrite interleave_app by (rewrite map_length, Lc, firstn_length_le; unfold n_count in Hj; lia).
    rewrite interleave_cons, FM. unfold pre. rewrite firstn_map'. rewrite <- !app_assoc. reflexivity.
Qed.

Lemma try_merge_spec d r pp i sp r' sp' :
  shape d r -> try_merge r pp i sp = Some (r', sp') -> shape d r' /\ flatten r' = flatten r.
Proof.
  intros Sh T. unfold try_merge in T.
  destruct (node_at pp r) as [par|] eqn:En; [|discriminate].
  destruct ((i =? 0) || (n_count par <? i)) eqn:E0; [discriminate|].
  destruct (list_eqb (pp ++ [i]) sp); [discriminate|].
  destruct (merge_children par i) as [par'|] eqn:Em; [|discriminate].
  destruct (nth_error (n_children par) (i - 1)); [|discriminate].
  inversion T; subst. clear T.
  apply orb_false_iff in E0. destruct E0 as [E0 _]. apply Nat.eqb_neq in E0.
  destruct i as [|j]; [lia|].
  apply (update_at_spec pp d r par); auto.
  intros d' Sp. destruct d' as [|d'].
  - exfalso. destruct Sp as (_ & _ & L). unfold merge_children in Em. rewrite L in Em. simpl in Em.
    destruct (j - 0); discriminate.
  - eapply merge_children_spec; eauto.
Qed.

Lemma reb_loop_spec rnp : forall d r sp fast,
  shape d r -> shape d (fst (reb_loop rnp r sp fast)) /\ flatten (fst (reb_loop rnp r sp fast)) = flatten r.
Proof.
  induction rnp as [|index rpp IH]; intros d r sp fast Sh; simpl; auto.
  destruct (try_merge r (rev rpp) (S index) sp) as [[r1 sp1]|] eqn:T1.
  - destruct (try_merge_spec _ _ _ _ _ _ _ Sh T1) as [S1 F1].
    destruct (IH d r1 sp1 fast S1) as [S' F']. split; auto. congruence.
  - destruct (try_merge r (rev rpp) index sp) as [[r2 sp2]|] eqn:T2.
    + destruct (try_merge_spec _ _ _ _ _ _ _ Sh T2) as [S2 F2].
      destruct (IH d r2 sp2 fast S2) as [S' F']. split; auto. congruence.
    + destruct fast; simpl; auto.
Qed.

Lemma collapse_spec fuel : forall d r np sp,
  shape d r -> exists d', shape d' (fst (fst (collapse fuel r np sp))) /\ flatten (fst (fst (collapse fuel r np sp))) = flatten r.
Proof.
  induction fuel; intros d r np sp Sh; simpl; eauto.
  destruct ((n_count r =? 0) && negb (is_leaf r)) eqn:E; simpl; eauto.
  apply andb_true_iff in E. destruct E as [E1 E2]. apply Nat.eqb_eq in E1. apply negb_true_iff in E2.
  destruct (shape_internal _ _ _ Sh E2) as [d' ->]. pose proof Sh as (_ & _ & L & F & Cpx).
  destruct (n_children r) as [|ch cs] eqn:Ec; [simpl in L; lia|].
  assert (cs = []) by (destruct cs; simpl in L; [reflexivity | lia]). subst cs.
  inversion F; subst.
  destruct (IHfuel d' ch (tl np) (tl sp) H1) as (d'' & S'' & F''). exists d''. split; auto.
  rewrite F''. rewrite (flatten_unfold r), Ec. unfold n_count in E1. destruct (n_items r); simpl in *; [reflexivity | lia].
Qed.

(* rebalance_preserves_flatten: pvRebalance (root collapse + merge loop) keeps the WF shape and the contents *)
Theorem rebalance_spec d r np sp fast :
  shape d r ->
  exists d', shape d' (fst (rebalance r np sp fast)) /\ flatten (fst (rebalance r np sp fast)) = flatten r.
Proof.
  intros Sh. unfold rebalance.
  destruct (collapse_spec (height r) d r np sp Sh) as (d' & S' & F').
  destruct (collapse (height r) r np sp) as [[r0 np0] sp0]. simpl in S', F'.
  destruct (reb_loop_spec (rev np0) d' r0 sp0 fast S') as [S'' F'']. exists d'. split; auto. congruence.
Qed.

(* ---------- Remove(iterator) for an item stored in a leaf: node->Remove + pvRebalance ---------- *)
Lemma remove_item_leaf_spec p : forall d n j,
  shape d n -> valid d p n j -> has_item p n j -> length p = d ->
  shape d (update_at p (remove_item j) n) /\
  flatten (update_at p (remove_item j) n) = before p n j ++ tl (after p n j).
Proof.
  induction p as [|c p IH]; intros d n j Sh V H Lp.
  - simpl in Lp. subst d. pose proof (shape_0_leaf _ _ Sh) as Lf. pose proof Sh as (H1 & H2 & H3).
    cbn [update_at before after has_item] in *. rewrite Lf. unfold remove_item. split.
    + cbn [BTreeBase.shape]. unfold n_count in *. cbn [n_items n_cap n_children]. unfold remove_at.
      rewrite app_length, firstn_length_le, skipn_length by lia. repeat split; auto; lia.
    + rewrite flatten_unfold. cbn [n_children n_items]. rewrite H3. cbn [map interleave]. unfold remove_at.
      destruct (nth_error_ex (n_items n) j H) as [x Ex]. rewrite (skipn_head' _ _ _ Ex). reflexivity.
  - destruct (valid_cons _ _ _ _ _ V) as (d' & ch & -> & E & V'). cbn [has_item] in H. rewrite E in H.
    pose proof (shape_child _ _ _ _ _ Sh E) as Sch. simpl in Lp.
    destruct (IH d' ch j Sch V' H ltac:(lia)) as [S' F'].
    cbn [update_at before after]. rewrite E.
    pose proof Sh as (H1 & H2 & L & F & Cpx).
    assert (Hc : c < length (n_children n)) by (eapply nth_error_lt; eauto).
    set (ch' := update_at p (remove_item j) ch) in *.
    set (n' := Node (n_cap n) (n_items n) (replace_at c ch' (n_children n))).
    assert (E' : nth_error (n_children n') c = Some ch') by (apply replace_at_nth_error; auto).
    assert (L' : length (n_children n') = S (n_count n')) by (unfold n', n_count; simpl; rewrite replace_at_length; auto).
    split.
    + unfold n'. cbn [BTreeBase.shape]. unfold n_count. cbn [n_items n_cap n_children]. rewrite replace_at_length by auto.
      repeat split; auto; try lia. apply Forall_replace_at; auto.
    + rewrite (flatten_split n' c ch' L' E'). unfold n'.
      rewrite (pre_replace maxCap Hpos), (post_replace maxCap Hpos) by auto. rewrite F'.
      destruct (after_item maxCap d' p ch j Sch V' H) as (x & tl0 & _ & Ea). rewrite Ea. simpl. rewrite <- !app_assoc. reflexivity.
Qed.

End Rem.
