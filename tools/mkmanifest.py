#!/usr/bin/env python3
"""Regenerates MANIFEST.json from props/*/meta.json (one per claimed property) + properties.jsonl."""
import json, os, glob
ROOT = os.path.dirname(os.path.dirname(os.path.abspath(__file__)))
props = [json.loads(l)['id'] for l in open(os.path.join(ROOT, 'properties.jsonl'))]
checks = []; na = []
for pid in props:
    mp = os.path.join(ROOT, 'props', pid, 'meta.json')
    if os.path.exists(mp):
        m = json.load(open(mp))
        if m.get('claimed', True):
            checks.append({
                'property_id': pid,
                'quick_cmd': './check %s --tier quick' % pid,
                'thorough_cmd': './check %s --tier thorough' % pid,
                'evidence_file': '/verif/evidence/%s.json' % pid,
                'replay_cmd_template': './check %s --replay {path}' % pid,
                'engine': 'coq-proof+tie',
                'level_claimed': {'category': m.get('level', 'proof'), 'text': m['level_text'], 'design_ref': m.get('design_ref', 'DESIGN.md §7 ' + pid)},
                'level_note': m['level_note'],
                'technique': m['technique']})
            continue
        na.append({'property_id': pid, 'reason': m.get('na_reason', 'not claimed')})
    else:
        na.append({'property_id': pid, 'reason': 'check not built yet in this session (work in progress; no technique switch intended)'})
man = {
    'version': 1,
    'setup_cmd': './setup.sh',
    'hooks': {'guard': 'MOMO_VERIF', 'enable': 'harness TUs are compiled with -DMOMO_VERIF; no hook code exists in /repo (observation via public API and #define private public inside harness TUs)',
              'baseline_off_cmd': 'cmake --build /repo/_build && /repo/_build/test/momo_test',
              'source_commits': [], 'add_only': True},
    'engines': [{'name': 'coq-proof+tie', 'path': '/verif/check', 'serves_properties': [c['property_id'] for c in checks],
                 'kind_free_text': 'Coq 8.16.1 theorems (props/<id>/coq/Properties_<id>.v) about models tied to /repo on every run: cxx2coq-regenerated Gallina and/or extracted-model vs real-code correspondence; search stage on any break'}],
    'checks': checks,
    'not_applicable': na,
    'notes': 'see DESIGN.md; known findings in known_findings.txt; seeded breaking changes in seeded/'}
json.dump(man, open(os.path.join(ROOT, 'MANIFEST.json'), 'w'), indent=1)
print('claimed:', [c['property_id'] for c in checks]); print('not claimed:', [n['property_id'] for n in na])
