(* Property C05 -- theorems only.  Each is closed by `exact <lemma>` and followed by Print Assumptions.
   ArrayShift.v / ArrayModel.v are hand-written executable models of ArrayUtility.h / Array.h / (thin) SegmentedArray.h, tied to the
   real code by running the extracted OCaml against momo on the same scripts on every run; Gen_Grow.v is regenerated from Array.h by
   cxx2coq on every run.
   V = element type; self_move v = what `x = std::move(x)` leaves in x; after_move v = what a move leaves in its source (None =
   moved-from).  Array contents are lists of `option V` (None = a moved-from element); arr_ofo l r = an array holding exactly the
   objects l followed by r unconstructed slots (arr_of l r = all elements live).  `= Ok ...` means: no failed MOMO_CHECK/MOMO_ASSERT,
   no access to unconstructed storage, no construction over a live object, no stale reference after growth. *)
From Coq Require Import String List Arith ZArith Bool.
From MomoCommon Require GenPrelude.
From C05 Require Import ArrayShift ArrayModel ShiftProofs FilterProofs ArrayProofs SegProofs.
From C05 Require GrowProofs Gen_Grow GuardProofs Gen_GuardsShifter Gen_GuardsArray Gen_GuardsSeg.
From C05 Require Gen_ShiftLoops ShiftLoopProofs Gen_IndexOf IndexOfProofs InsertGlue Gen_ArrayFacts FactsProofs Gen_ShiftLoopsSeg SameCode.
Import ListNotations.

(* ArrayShifter::InsertNogrow(array, index, count, const Item& item): for EVERY array contents l (elements may even be
   moved-from: option V), index, count (including 0), free capacity r >= count, element behaviour (self_move, after_move) and item that
   is a temporary or an element in front of the insertion point (all that Array::Insert ever passes): the result is exactly the list
   insertion; no failed check, nothing self-move-assigned, no use of a moved-from or shifted alias. *)
Theorem C05_insert_copies_refines :
  forall (V : Type) (self_move after_move : V -> option V) (l : list (option V)) (r index count : nat)
           (x : arg V),
         index <= length l ->
         count <= r ->
         arg_ok V index x ->
         insert_nogrow_copies V self_move after_move true (arr_ofo l r) index count x =
         Ok (arr_ofo (firstn index l ++ repeat (arg_val V l x) count ++ skipn index l) (r - count)).
Proof. exact insert_copies_refines. Qed.
Print Assumptions C05_insert_copies_refines.

(* the forward-iterator overload InsertNogrow(array, index, begin, count), same quantification *)
Theorem C05_insert_range_refines :
  forall (V : Type) (self_move after_move : V -> option V) (l : list (option V)) (r index : nat)
           (xs : list (arg V)),
         index <= length l ->
         length xs <= r ->
         Forall (arg_ok V index) xs ->
         insert_nogrow_range V self_move after_move true (arr_ofo l r) index xs =
         Ok (arr_ofo (firstn index l ++ map (arg_val V l) xs ++ skipn index l) (r - length xs)).
Proof. exact insert_range_refines. Qed.
Print Assumptions C05_insert_range_refines.

(* InsertNogrow(array, index, Item&& item) where item is a temporary OR an element a[p] in front of the insertion point: the inserted
   object is the OLD a[p], a[p] itself is left as after_move says (moved_out), all other elements as in the list insertion *)
Theorem C05_insert_rvalue_refines :
  forall (V : Type) (self_move after_move : V -> option V) (l : list (option V)) (r index : nat) (x : arg V),
         index <= length l ->
         1 <= r ->
         arg_ok V index x ->
         insert_nogrow_rvalue V self_move after_move true (arr_ofo l r) index x =
         Ok
           (arr_ofo
              (firstn index (moved_out V after_move l x) ++ [arg_val V l x] ++ skipn index (moved_out V after_move l x))
              (r - 1)).
Proof. exact insert_rvalue_refines. Qed.
Print Assumptions C05_insert_rvalue_refines.

(* ArrayShifter::Remove(array, index, count): exactly the list erase, for all lengths/indexes/counts incl. 0 *)
Theorem C05_remove_refines :
  forall (V : Type) (self_move after_move : V -> option V) (l : list (option V)) (r index count : nat),
         index + count <= length l ->
         remove_range V self_move after_move true (arr_ofo l r) index count =
         Ok (arr_ofo (firstn index l ++ skipn (index + count) l) (r + count)).
Proof. exact remove_refines. Qed.
Print Assumptions C05_remove_refines.

(* ArrayShifter::Remove(array, itemFilter) = List.filter of the complement (keep), returned count = number removed *)
Theorem C05_remove_filter_refines :
  forall (V : Type) (self_move after_move : V -> option V) (p : V -> bool) (l : list (option V)) (r : nat),
         remove_filter V self_move after_move p (arr_ofo l r) =
         Ok
           (arr_ofo (filter (keep V p) l) (r + (length l - length (filter (keep V p) l))),
            length l - length (filter (keep V p) l)).
Proof. exact remove_filter_refines. Qed.
Print Assumptions C05_remove_filter_refines.

(* empty ranges change nothing at all -- for ANY array state and any value source *)
Theorem C05_insert_count0_is_identity :
  forall (V : Type) (self_move after_move : V -> option V) (src : source V) (s : arr V) (index : nat),
         index <= cnt s -> cnt s <= cap s -> insert_nogrow_gen V self_move after_move true src s index 0 = Ok s.
Proof. exact insert_count0_is_identity. Qed.
Print Assumptions C05_insert_count0_is_identity.

(* empty removal changes nothing, for any array state *)
Theorem C05_remove_count0_is_identity :
  forall (V : Type) (self_move after_move : V -> option V) (s : arr V) (index : nat),
         index <= cnt s -> remove_range V self_move after_move true s index 0 = Ok s.
Proof. exact remove_count0_is_identity. Qed.
Print Assumptions C05_remove_count0_is_identity.

(* an array of live elements l is the special case  map Some l  of the statements above (so for all-live input every result slot is live) *)
Theorem C05_arr_of_arr_ofo :
  forall (V : Type) (l : list V) (r : nat), arr_of l r = arr_ofo (map Some l) r.
Proof. exact arr_of_arr_ofo. Qed.
Print Assumptions C05_arr_of_arr_ofo.

(* Array::Insert(index, count, item) (Array.h): item may refer to ANY element (or be a temporary), the capacity may or may not suffice:
   pvIndexOf + the ArrayItemHandler temporary made BEFORE growth give exactly the list insertion; allocates iff free capacity r < count *)
Theorem C05_array_insert_refines :
  forall (V : Type) (self_move after_move : V -> option V) (growOnReserve : bool) (l : list (option V))
           (r al index count : nat) (x : arg V),
         index <= length l ->
         arg_in V (length l) x ->
         fits (length l + count) ->
         exists r' : nat,
           array_insert V self_move after_move growOnReserve {| body := arr_ofo l r; allocs := al |} index count x =
           Ok
             {|
               body := arr_ofo (firstn index l ++ repeat (arg_val V l x) count ++ skipn index l) r';
               allocs := if r <? count then S al else al
             |} /\ (count <= r -> r' = r - count) /\ length l + r <= length l + count + r'.
Proof. exact array_insert_refines. Qed.
Print Assumptions C05_array_insert_refines.

(* Array::AddBack(const Item&) with item aliasing any element, through all pvAddBackGrow code paths *)
Theorem C05_array_add_back_refines :
  forall (V : Type) (growOnReserve nothrowReloc : bool) (l : list (option V)) (r al : nat) (x : arg V),
         arg_in V (length l) x ->
         fits (length l + 1) ->
         exists r' : nat,
           array_add_back V growOnReserve nothrowReloc {| body := arr_ofo l r; allocs := al |} x =
           Ok {| body := arr_ofo (l ++ [arg_val V l x]) r'; allocs := if r =? 0 then S al else al |} /\
           (0 < r -> r' = r - 1) /\ length l + r <= length l + 1 + r'.
Proof. exact array_add_back_refines. Qed.
Print Assumptions C05_array_add_back_refines.

(* Array::Insert(index, Item&& item) with item = ANY element a[p] (Insert(j, std::move(a[i]))) or a temporary, with or without growth:
   the inserted object is the OLD a[p]; a[p] ends as after_move says (moved-from); every other element as in the list insertion *)
Theorem C05_array_insert_rvalue_refines :
  forall (V : Type) (self_move after_move : V -> option V) (growOnReserve : bool) (l : list (option V))
           (r al index : nat) (x : arg V),
         index <= length l ->
         arg_in V (length l) x ->
         fits (length l + 1) ->
         exists r' : nat,
           array_insert_rvalue V self_move after_move growOnReserve {| body := arr_ofo l r; allocs := al |} index x =
           Ok
             {|
               body :=
                 arr_ofo
                   (firstn index (moved_out V after_move l x) ++
                    [arg_val V l x] ++ skipn index (moved_out V after_move l x)) r';
               allocs := if r =? 0 then S al else al
             |} /\ (0 < r -> r' = r - 1) /\ length l + r <= length l + 1 + r'.
Proof. exact array_insert_rvalue_refines. Qed.
Print Assumptions C05_array_insert_rvalue_refines.

(* Array::AddBack(Item&& item) with item = any element a[p]: the appended object is the old a[p]; a[p] ends moved-from, except on the
   one growth path that COPIES the items (neither nothrow-move-constructible nor nothrow-relocatable) where a[p] keeps its value *)
Theorem C05_array_add_back_rvalue_refines :
  forall (V : Type) (after_move : V -> option V) (growOnReserve nothrowMove nothrowReloc : bool)
           (l : list (option V)) (r al : nat) (x : arg V),
         arg_in V (length l) x ->
         fits (length l + 1) ->
         exists r' : nat,
           array_add_back_rvalue V after_move growOnReserve nothrowMove nothrowReloc
             {| body := arr_ofo l r; allocs := al |} x =
           Ok
             {|
               body :=
                 arr_ofo
                   ((if (0 <? r) || nothrowMove || nothrowReloc then moved_out V after_move l x else l) ++
                    [arg_val V l x]) r';
               allocs := if r =? 0 then S al else al
             |} /\ (0 < r -> r' = r - 1) /\ length l + r <= length l + 1 + r'.
Proof. exact array_add_back_rvalue_refines. Qed.
Print Assumptions C05_array_add_back_rvalue_refines.

(* Array::SetCount(m, item), item aliasing any element: shrinking = firstn m, growing (within the capacity or with reallocation: the new
   items are created from item while the old buffer is intact) = l ++ repeat item; the capacity never decreases; no allocation if m fits *)
Theorem C05_array_set_count_refines :
  forall (V : Type) (growOnReserve : bool) (l : list (option V)) (r al m : nat) (x : arg V),
         arg_in V (length l) x ->
         fits m ->
         exists r' al' : nat,
           array_set_count V growOnReserve {| body := arr_ofo l r; allocs := al |} m x =
           Ok {| body := arr_ofo (firstn m l ++ repeat (arg_val V l x) (m - length l)) r'; allocs := al' |} /\
           length l + r <= length (firstn m l ++ repeat (arg_val V l x) (m - length l)) + r' /\
           (m <= length l + r -> al' = al).
Proof. exact array_set_count_refines. Qed.
Print Assumptions C05_array_set_count_refines.

(* Array::Shrink(n): elements unchanged; the capacity never drops below the count nor below the internal capacity ic and never grows;
   with count <= ic and n <= ic the array ends in the internal buffer (capacity exactly ic, Data::pvReset as fixed in f340ccf) without
   allocating; otherwise the new capacity is max(n, count, ic) *)
Theorem C05_array_shrink_refines :
  forall (V : Type) (ic : nat) (canRealloc : bool) (l : list (option V)) (r al n : nat),
         ic <= length l + r ->
         exists r' al' : nat,
           array_shrink V ic canRealloc {| body := arr_ofo l r; allocs := al |} n =
           Ok {| body := arr_ofo l r'; allocs := al' |} /\
           ic <= length l + r' /\
           length l + r' <= length l + r /\
           (n <= ic -> length l <= ic -> length l + r' = ic /\ al' = al) /\
           (length l + r <> ic -> n < length l + r -> length l + r' = Nat.max (Nat.max n (length l)) ic).
Proof. exact array_shrink_refines. Qed.
Print Assumptions C05_array_shrink_refines.

(* stdish::vector::assign(count, item) with item aliasing an element of the vector itself *)
Theorem C05_array_assign_refines :
  forall (V : Type) (ic : nat) (l : list (option V)) (r al count : nat) (x : arg V),
         arg_in V (length l) x ->
         exists r' al' : nat,
           array_assign V ic {| body := arr_ofo l r; allocs := al |} count x =
           Ok {| body := arr_ofo (repeat (arg_val V l x) count) r'; allocs := al' |} /\ ic <= count + r'.
Proof. exact array_assign_refines. Qed.
Print Assumptions C05_array_assign_refines.

(* stdish::vector::assign(first, last) (range outside the container) *)
Theorem C05_array_assign_range_refines :
  forall (V : Type) (ic : nat) (l : list (option V)) (r al : nat) (vs : list V),
         exists r' al' : nat,
           array_assign_range V ic {| body := arr_ofo l r; allocs := al |} vs =
           Ok {| body := arr_ofo (map Some vs) r'; allocs := al' |} /\ ic <= length vs + r'.
Proof. exact array_assign_range_refines. Qed.
Print Assumptions C05_array_assign_range_refines.

(* Array::RemoveBack(count) *)
Theorem C05_array_remove_back_refines :
  forall (V : Type) (l : list (option V)) (r al count : nat),
         count <= length l ->
         array_remove_back V {| body := arr_ofo l r; allocs := al |} count =
         Ok {| body := arr_ofo (firstn (length l - count) l) (r + count); allocs := al |}.
Proof. exact array_remove_back_refines. Qed.
Print Assumptions C05_array_remove_back_refines.

(* Array::Clear(shrink): empty afterwards; shrink = true returns to the internal buffer (capacity ic), otherwise the capacity is kept *)
Theorem C05_array_clear_refines :
  forall (V : Type) (ic : nat) (l : list (option V)) (r al : nat) (shrink : bool),
         exists r' : nat,
           array_clear V ic {| body := arr_ofo l r; allocs := al |} shrink =
           Ok {| body := arr_ofo [] r'; allocs := al |} /\
           (shrink = true -> r' = ic) /\ (shrink = false -> r' = length l + r).
Proof. exact array_clear_refines. Qed.
Print Assumptions C05_array_clear_refines.

(* Insert(index, begin, end) over an INPUT iterator range (ArrayShifter::Insert: one InsertCrt per item) refines the list insertion *)
Theorem C05_array_insert_input_refines :
  forall (V : Type) (self_move after_move : V -> option V) (growOnReserve : bool) (vs : list V)
           (l : list (option V)) (r al index : nat),
         index <= length l ->
         fits (length l + length vs) ->
         exists r' al' : nat,
           array_insert_input V self_move after_move growOnReserve {| body := arr_ofo l r; allocs := al |} index vs =
           Ok {| body := arr_ofo (firstn index l ++ map Some vs ++ skipn index l) r'; allocs := al' |} /\
           length l + r <= length l + length vs + r'.
Proof. exact array_insert_input_refines. Qed.
Print Assumptions C05_array_insert_input_refines.

(* EVERY history over the full operation alphabet of the model (AddBack, AddBack&&, Insert n copies, Insert&&, Insert forward/input range,
   Remove, Remove(filter), SetCount, assign(n,item), assign(range), RemoveBack, Clear, Reserve, Shrink, a[i]=v), value arguments aliasing any
   element, empty ranges anywhere, whose list-level preconditions hold (bounded: also lengths <= B, B+1 < 2^64), runs without any error
   and ends in exactly the list-level result spec_ops (elements: Some v, or None where an rvalue was moved out); capacity >= ic throughout *)
Theorem C05_history_refines :
  forall (V : Type) (self_move after_move : V -> option V) (ic : nat)
           (growOnReserve nothrowMove nothrowReloc canRealloc : bool) (os : list (op V)) (l : list (option V))
           (r al B : nat),
         bounded V after_move nothrowMove nothrowReloc l os B ->
         length l <= B ->
         fits (B + 1) ->
         ic <= length l + r ->
         exists (l' : list (option V)) (r' al' : nat),
           spec_ops V after_move nothrowMove nothrowReloc l os = Some l' /\
           run_ops V self_move after_move ic growOnReserve nothrowMove nothrowReloc canRealloc
             {| body := arr_ofo l r; allocs := al |} os = Ok {| body := arr_ofo l' r'; allocs := al' |} /\
           ic <= length l' + r'.
Proof. exact history_refines. Qed.
Print Assumptions C05_history_refines.

(* after Reserve(n): any history of element-level operations (everything except Shrink / assign / Clear / input-iterator Insert) whose
   lengths stay <= n performs NO allocation (allocation counter unchanged), keeps the capacity, and refines the list operations *)
Theorem C05_reserve_then_grow_no_alloc :
  forall (V : Type) (self_move after_move : V -> option V) (ic : nat)
           (growOnReserve nothrowMove nothrowReloc canRealloc : bool) (l : list (option V)) 
           (r al n : nat) (os : list (op V)),
         fits (n + 1) ->
         length l <= n ->
         bounded V after_move nothrowMove nothrowReloc l os n ->
         all_keep V os = true ->
         exists (r1 al1 : nat) (l' : list (option V)) (r' : nat),
           array_reserve V growOnReserve {| body := arr_ofo l r; allocs := al |} n =
           Ok {| body := arr_ofo l r1; allocs := al1 |} /\
           n <= length l + r1 /\
           spec_ops V after_move nothrowMove nothrowReloc l os = Some l' /\
           run_ops V self_move after_move ic growOnReserve nothrowMove nothrowReloc canRealloc
             {| body := arr_ofo l r1; allocs := al1 |} os = Ok {| body := arr_ofo l' r'; allocs := al1 |} /\
           length l' + r' = length l + r1.
Proof. exact reserve_then_grow_no_alloc. Qed.
Print Assumptions C05_reserve_then_grow_no_alloc.

(* SegmentedArray::Reserve appends raw cells only: every existing cell stays where it is, count unchanged, capacity not smaller *)
Theorem C05_seg_reserve_no_relocation :
  forall (V : Type) (seg_cap : nat -> nat) (b : arr V) (c : nat),
         firstn (cap b) (cells (seg_reserve V seg_cap b c)) = cells b /\
         cnt (seg_reserve V seg_cap b c) = cnt b /\ cap b <= cap (seg_reserve V seg_cap b c).
Proof. exact seg_reserve_no_relocation. Qed.
Print Assumptions C05_seg_reserve_no_relocation.

(* SegmentedArray::Insert(index, count, item), item aliasing ANY element: temporary + Reserve + the same ArrayShifter::InsertNogrow *)
Theorem C05_seg_insert_refines :
  forall (V : Type) (self_move after_move : V -> option V) (seg_cap : nat -> nat),
         (forall n : nat, n <= seg_cap n) ->
         forall (l : list (option V)) (r index count : nat) (x : arg V),
         index <= length l ->
         arg_in V (length l) x ->
         exists r' : nat,
           seg_insert V self_move after_move seg_cap (arr_ofo l r) index count x =
           Ok (arr_ofo (firstn index l ++ repeat (arg_val V l x) count ++ skipn index l) r').
Proof. exact seg_insert_refines. Qed.
Print Assumptions C05_seg_insert_refines.

(* SegmentedArray::Insert(index, Item&&) with item = any element: old a[p] inserted, a[p] left moved-from *)
Theorem C05_seg_insert_rvalue_refines :
  forall (V : Type) (self_move after_move : V -> option V) (seg_cap : nat -> nat),
         (forall n : nat, n <= seg_cap n) ->
         forall (l : list (option V)) (r index : nat) (x : arg V),
         index <= length l ->
         arg_in V (length l) x ->
         exists r' : nat,
           seg_insert_rvalue V self_move after_move seg_cap (arr_ofo l r) index x =
           Ok
             (arr_ofo
                (firstn index (moved_out V after_move l x) ++
                 [arg_val V l x] ++ skipn index (moved_out V after_move l x)) r').
Proof. exact seg_insert_rvalue_refines. Qed.
Print Assumptions C05_seg_insert_rvalue_refines.

(* SegmentedArray::Remove is ArrayShifter::Remove *)
Theorem C05_seg_remove_refines :
  forall (V : Type) (self_move after_move : V -> option V) (l : list (option V)) (r index count : nat),
         index + count <= length l ->
         seg_remove V self_move after_move (arr_ofo l r) index count =
         Ok (arr_ofo (firstn index l ++ skipn (index + count) l) (r + count)).
Proof. exact seg_remove_refines. Qed.
Print Assumptions C05_seg_remove_refines.

(* SegmentedArray::SetCount(m, item) (pvDecCount / pvIncCapacity + construction in place), item aliasing any element *)
Theorem C05_seg_set_count_refines :
  forall (V : Type) (seg_cap : nat -> nat),
         (forall n : nat, n <= seg_cap n) ->
         forall (l : list (option V)) (r m : nat) (x : arg V),
         arg_in V (length l) x ->
         exists r' : nat,
           seg_set_count V seg_cap (arr_ofo l r) m x =
           Ok (arr_ofo (firstn m l ++ repeat (arg_val V l x) (m - length l)) r').
Proof. exact seg_set_count_refines. Qed.
Print Assumptions C05_seg_set_count_refines.

(* non-vacuity + the mutant: the code shape BEFORE fix 62f9657 (same definition, early return removed) violates the statements above
   on [1;2;3], index 1, count 0 for a self-move-hostile element type *)
Theorem C05_insert_count0_refuted :
  exists (l : list nat) (index : nat), index <= length l /\
    insert_nogrow_copies nat (fun _ => None) (fun _ => None) false (arr_of l 2) index 0 (ArgVal 7) <> Ok (arr_of l 2) /\
    insert_nogrow_copies nat (fun _ => None) (fun _ => None) true (arr_of l 2) index 0 (ArgVal 7) = Ok (arr_of l 2).
Proof. exact ShiftProofs.insert_count0_refuted. Qed.
Print Assumptions C05_insert_count0_refuted.

Theorem C05_remove_count0_refuted :
  exists (l : list nat) (index : nat), index <= length l /\
    remove_range nat (fun _ => None) (fun _ => None) false (arr_of l 0) index 0 <> Ok (arr_of l 0) /\
    remove_range nat (fun _ => None) (fun _ => None) true (arr_of l 0) index 0 = Ok (arr_of l 0).
Proof. exact ShiftProofs.remove_count0_refuted. Qed.
Print Assumptions C05_remove_count0_refuted.

(* ArraySettings::GrowCapacity (GENERATED from Array.h): for every capacity < requested < 2^64, either cause, both modes and both
   growOnReserve settings the assertion holds and the result is >= the requested capacity *)
Theorem C05_grow_capacity_ge :
  forall (growOnReserve : bool) (capacity minNew cause : Z) (linear : bool),
    (0 <= capacity < minNew)%Z -> (minNew < 2 ^ 64)%Z ->
    exists r, Gen_Grow.GrowCapacity growOnReserve capacity minNew cause linear = GenPrelude.Ok r /\ (minNew <= r < 2 ^ 64)%Z.
Proof. exact GrowProofs.grow_capacity_ge. Qed.
Print Assumptions C05_grow_capacity_ge.

(* non-vacuity of the history theorems: a 16-op history over the full alphabet with aliased lvalue and rvalue arguments, empty
   ranges, a filter, Shrink, assign and Clear satisfies `bounded`; its first 11 ops are element-level (all_keep) *)
Theorem C05_history_nonvacuous :
  let os := [OAddBack nat (ArgRef 0); OInsert nat 1 2 (ArgRef 3); ORemove nat 0 0; OInsert nat 2 0 (ArgRef 1);
             OReserve nat 9; OInsertRange nat 6 [7;8]; OInsertR nat 0 (ArgRef 2); OSet nat 3 5; OAddBackR nat (ArgVal 9);
             ORemoveFilter nat (fun v => v =? 1); OSetCount nat 6 (ArgRef 0); OShrink nat 0; ORemoveBack nat 2;
             OInsertInput nat 1 [4;4]; OAssign nat 3 (ArgRef 1); OClear nat true] in
  bounded nat (fun _ => None) true true (map Some [1;2;3]) os 12 /\
  all_keep nat (firstn 11 os) = true /\
  spec_ops nat (fun _ => None) true true (map Some [1;2;3]) (firstn 14 os) = Some (map Some [5;4;4;2;3;7]).
Proof. exact ArrayProofs.bounded_example. Qed.
Print Assumptions C05_history_nonvacuous.

(* ================= the range checks of the real functions, GENERATED by cxx2coq with 64-bit wrap-around arithmetic ================= *)
(* ArrayShifter::Remove(array, index, count) [bcbf078]: for EVERY 64-bit index and count (incl. SIZE_MAX) the first statements accept
   the call iff index + count <= GetCount() in unbounded arithmetic; otherwise the MOMO_CHECK fails before anything is touched *)
Theorem C05_remove_guard_exact :
  forall cnt : Z, GuardProofs.u64 cnt -> forall index count : Z, GuardProofs.u64 index -> GuardProofs.u64 count ->
    ((index + count <= cnt)%Z -> Gen_GuardsShifter.Remove_guard cnt index count = GenPrelude.Ok cnt) /\
    ((cnt < index + count)%Z -> Gen_GuardsShifter.Remove_guard cnt index count = GenPrelude.Stuck).
Proof. exact GuardProofs.remove_guard_exact. Qed.
Print Assumptions C05_remove_guard_exact.

(* ArrayShifter::InsertNogrow(array, index, count, item) [c5d1be1]: accepted iff index <= count and count + n <= capacity (no wrap) *)
Theorem C05_insert_nogrow_guard_spec :
  forall cnt capa : Z, GuardProofs.u64 cnt -> GuardProofs.u64 capa -> (cnt <= capa)%Z ->
  forall index count : Z, GuardProofs.u64 index -> GuardProofs.u64 count ->
    Gen_GuardsShifter.InsertNogrow_guard cnt capa index count =
      (if (index <=? cnt)%Z && (cnt + count <=? capa)%Z then GenPrelude.Ok cnt else GenPrelude.Stuck).
Proof. exact GuardProofs.insert_nogrow_guard_spec. Qed.
Print Assumptions C05_insert_nogrow_guard_spec.

(* Array::Insert(index, count, item) [c5d1be1] composed with InsertNogrow: a count with GetCount() + count > SIZE_MAX throws before
   anything else; otherwise newCount does not wrap, growth is requested iff newCount > capacity, the capacity chosen by the GENERATED
   GrowCapacity is >= newCount, and the assertions of InsertNogrow reduce to index <= GetCount() (the capacity MOMO_ASSERT never fires) *)
Theorem C05_array_insert_guards_compose :
  forall cnt capa : Z, GuardProofs.u64 cnt -> GuardProofs.u64 capa -> (cnt <= capa)%Z ->
  forall (index count : Z) (growOnReserve : bool), GuardProofs.u64 index -> GuardProofs.u64 count ->
    ((GuardProofs.U - 1 < cnt + count)%Z -> Gen_GuardsArray.Insert_prefix cnt capa index count = GenPrelude.Exn) /\
    ((cnt + count <= GuardProofs.U - 1)%Z ->
       exists newCap, Gen_GuardsArray.Insert_prefix cnt capa index count =
                        GenPrelude.Ok ((cnt + count)%Z, if (capa <? cnt + count)%Z then 1%Z else 0%Z) /\
         (if (capa <? cnt + count)%Z
          then exists r, Gen_Grow.GrowCapacity growOnReserve capa (cnt + count) 0 false = GenPrelude.Ok r /\ newCap = r
          else newCap = capa) /\
         (cnt + count <= newCap)%Z /\
         Gen_GuardsShifter.InsertNogrow_guard cnt newCap index count = (if (index <=? cnt)%Z then GenPrelude.Ok cnt else GenPrelude.Stuck)).
Proof. exact GuardProofs.array_insert_guards_compose. Qed.
Print Assumptions C05_array_insert_guards_compose.

(* SegmentedArray::Insert(index, count, item) [c5d1be1]: throws length_error iff mCount + count > SIZE_MAX *)
Theorem C05_seg_insert_guard_spec :
  forall cnt : Z, GuardProofs.u64 cnt -> forall index count : Z, GuardProofs.u64 count ->
    Gen_GuardsSeg.SegInsert_guard cnt index count =
      (if (GuardProofs.U - 1 <? cnt + count)%Z then GenPrelude.Exn else GenPrelude.Ok count).
Proof. exact GuardProofs.seg_insert_guard_spec. Qed.
Print Assumptions C05_seg_insert_guard_spec.

(* the checks of the hand model (ArrayShift.v, on nat: remove_range, insert_nogrow_gen, remove_back, add_back_ctor, item_at) accept
   exactly what the GENERATED checks of the real code accept, for all values below 2^64: the model's Err EIndex / ECap = the real rejection *)
Theorem C05_model_checks_are_the_real_checks :
  forall n cap_ i c : nat,
    GuardProofs.u64 (Z.of_nat n) -> GuardProofs.u64 (Z.of_nat cap_) -> GuardProofs.u64 (Z.of_nat i) -> GuardProofs.u64 (Z.of_nat c) -> n <= cap_ ->
    (Gen_GuardsShifter.Remove_guard (Z.of_nat n) (Z.of_nat i) (Z.of_nat c) = GenPrelude.Ok (Z.of_nat n) <-> (i + c <=? n) = true) /\
    (Gen_GuardsShifter.InsertNogrow_guard (Z.of_nat n) (Z.of_nat cap_) (Z.of_nat i) (Z.of_nat c) = GenPrelude.Ok (Z.of_nat n) <->
       ((i <=? n) && (n + c <=? cap_) = true)) /\
    (Gen_GuardsArray.RemoveBack_guard (Z.of_nat n) (Z.of_nat c) = GenPrelude.Ok (Z.of_nat c) <-> (c <=? n) = true) /\
    (Gen_GuardsArray.AddBackNogrowCrt_guard (Z.of_nat n) (Z.of_nat cap_) = GenPrelude.Ok tt <-> (n <? cap_) = true) /\
    (Gen_GuardsArray.index_guard (Z.of_nat n) (Z.of_nat i) = GenPrelude.Ok (Z.of_nat i) <-> (i <? n) = true).
Proof. exact GuardProofs.model_checks_are_the_real_checks. Qed.
Print Assumptions C05_model_checks_are_the_real_checks.

(* non-vacuity / the mutants: the guards as they were before bcbf078 and c5d1be1 accepted Remove(3, SIZE_MAX) on 4 items and computed
   newCount = 4, grow = false for Insert(0, SIZE_MAX, x) on 5 items with capacity 8; the current generated guards reject both *)
Theorem C05_overflow_guards_refuted :
  GuardProofs.Remove_guard_before_bcbf078 4 3 (2 ^ 64 - 1) = GenPrelude.Ok 4%Z /\
  Gen_GuardsShifter.Remove_guard 4 3 (2 ^ 64 - 1) = GenPrelude.Stuck /\
  GuardProofs.Insert_prefix_before_c5d1be1 5 8 (2 ^ 64 - 1) = GenPrelude.Ok (4%Z, 0%Z) /\
  Gen_GuardsArray.Insert_prefix 5 8 0 (2 ^ 64 - 1) = GenPrelude.Exn.
Proof. exact GuardProofs.overflow_guards_refuted. Qed.
Print Assumptions C05_overflow_guards_refuted.

(* ================= the LOOPS of ArrayShifter::Remove, GENERATED from the real template code (array = index-addressed cells) ================= *)
(* "the shift moves exactly the tail": for every valid call the generated Remove (range check + loop + RemoveBack, 64-bit arithmetic) ends with
   count - n items, the cells below index untouched, the cells [index, count - n) holding the old cells shifted down by n, and every cell at or
   beyond the old count untouched *)
Theorem C05_shift_remove_spec :
  forall (items : Z -> Z) (cnt cap_ index count : Z),
    (0 <= index)%Z -> (0 <= count)%Z -> (index + count <= cnt)%Z -> (cnt <= cap_)%Z -> (cap_ < ShiftLoopProofs.U64)%Z ->
    exists items', Gen_ShiftLoops.ShiftRemove items cnt cap_ index count = GenPrelude.Ok (tt, items', (cnt - count)%Z) /\
      (forall j, (j < index)%Z -> items' j = items j) /\
      (forall j, (index <= j < cnt - count)%Z -> items' j = items (j + count)%Z) /\
      (forall j, (cnt <= j)%Z -> items' j = items j).
Proof. exact ShiftLoopProofs.shift_remove_spec. Qed.
Print Assumptions C05_shift_remove_spec.

(* refinement: on every valid call the generated loops and the hand model (remove_range, C05_remove_refines) compute the same sequence *)
Theorem C05_shift_remove_refines_model :
  forall (self_move after_move : Z -> option Z) (items : Z -> Z) (n cap_ index count r : nat),
    index + count <= n -> n <= cap_ -> (Z.of_nat cap_ < ShiftLoopProofs.U64)%Z ->
    exists items',
      Gen_ShiftLoops.ShiftRemove items (Z.of_nat n) (Z.of_nat cap_) (Z.of_nat index) (Z.of_nat count) =
        GenPrelude.Ok (tt, items', Z.of_nat (n - count)) /\
      remove_range Z self_move after_move true (arr_ofo (map Some (ShiftLoopProofs.list_of items n)) r) index count =
        Ok (arr_ofo (map Some (ShiftLoopProofs.list_of items' (n - count))) (r + count)).
Proof. exact ShiftLoopProofs.shift_remove_refines_model. Qed.
Print Assumptions C05_shift_remove_refines_model.

(* ================= the alias-protection mechanism: GENERATED Array::pvIndexOf ================= *)
(* pvIndexOf returns the item's index exactly when the reference points into [items, items + count); otherwise maxSize, which is never < count *)
Theorem C05_pv_index_of_exact :
  forall items cnt ptr : Z,
    (0 <= items)%Z -> (0 <= cnt)%Z -> (items + cnt < IndexOfProofs.U64)%Z -> (0 <= ptr < IndexOfProofs.U64)%Z ->
    (forall p, (0 <= p < cnt)%Z -> ptr = (items + p)%Z -> Gen_IndexOf.pvIndexOf items cnt ptr = p) /\
    ((ptr < items \/ items + cnt <= ptr)%Z -> Gen_IndexOf.pvIndexOf items cnt ptr = (IndexOfProofs.U64 - 1)%Z /\ (cnt <= IndexOfProofs.U64 - 1)%Z).
Proof. exact IndexOfProofs.pv_index_of_exact. Qed.
Print Assumptions C05_pv_index_of_exact.

(* the test of Array::Insert on it: the ArrayItemHandler temporary is made exactly for an element at or behind the insertion point *)
Theorem C05_alias_test_exact :
  forall items cnt ptr index : Z,
    (0 <= items)%Z -> (0 <= cnt)%Z -> (items + cnt < IndexOfProofs.U64)%Z -> (0 <= ptr < IndexOfProofs.U64)%Z -> (0 <= index)%Z ->
    (forall p, (0 <= p < cnt)%Z -> ptr = (items + p)%Z ->
       IndexOfProofs.alias_test index cnt (Gen_IndexOf.pvIndexOf items cnt ptr) = (index <=? p)%Z) /\
    ((ptr < items \/ items + cnt <= ptr)%Z -> IndexOfProofs.alias_test index cnt (Gen_IndexOf.pvIndexOf items cnt ptr) = false).
Proof. exact IndexOfProofs.alias_test_exact. Qed.
Print Assumptions C05_alias_test_exact.

(* ... and it is the hand model's pv_index_of / alias_at_or_after (ArgRef p = the address items + p) *)
Theorem C05_model_index_of_is_the_real_one :
  forall (items : Z) (cnt p index : nat),
    (0 <= items)%Z -> (items + Z.of_nat cnt < IndexOfProofs.U64)%Z -> (0 <= items + Z.of_nat p < IndexOfProofs.U64)%Z ->
    IndexOfProofs.alias_test (Z.of_nat index) (Z.of_nat cnt) (Gen_IndexOf.pvIndexOf items (Z.of_nat cnt) (items + Z.of_nat p)%Z) =
      (if p <? cnt then (index <=? p) && (p <? cnt) else false).
Proof. exact IndexOfProofs.model_index_of_is_the_real_one. Qed.
Print Assumptions C05_model_index_of_is_the_real_one.

(* ================= copy / move / swap of whole arrays (hand model) ================= *)
(* copy construction / assignment: same objects, capacity = max(count, internal capacity), one allocation iff count > internal capacity *)
Theorem C05_array_copy_refines :
  forall (V : Type) (ic : nat) (l : list (option V)) (r al : nat),
    array_copy V ic {| body := arr_ofo l r; allocs := al |} =
      {| body := arr_ofo l ((if ic <? length l then length l else ic) - length l); allocs := if ic <? length l then S al else al |}.
Proof. exact ArrayProofs.array_copy_refines. Qed.
Print Assumptions C05_array_copy_refines.

(* move assignment: the target's items are destroyed, the target becomes the source (contents, count, capacity), the source is empty *)
Theorem C05_array_move_assign_refines :
  forall (V : Type) (ic : nat) (lt ls : list (option V)) (rt rs alt als : nat),
    array_move_assign V ic {| body := arr_ofo lt rt; allocs := alt |} {| body := arr_ofo ls rs; allocs := als |} =
      Ok ({| body := arr_ofo ls rs; allocs := alt |}, {| body := arr_ofo [] ic; allocs := alt |}).
Proof. exact ArrayProofs.array_move_assign_refines. Qed.
Print Assumptions C05_array_move_assign_refines.

(* move construction leaves the source empty with the internal capacity; swap exchanges the two arrays completely *)
Theorem C05_array_move_construct_and_swap :
  forall (V : Type) (ic : nat) (a b : array V),
    array_move_construct V ic a = (a, {| body := arr_ofo [] ic; allocs := allocs V a |}) /\ array_swap V a b = (b, a).
Proof. exact ArrayProofs.array_move_construct_and_swap. Qed.
Print Assumptions C05_array_move_construct_and_swap.

(* ================= the five LOOPS of ArrayShifter::InsertNogrow, GENERATED from the real template code ================= *)
(* for every valid call (both branches: index + count < n, and the branch with appended copies) whose item is a cell in front of the insertion
   point or outside the array's new extent (external object / ItemHandler temporary): count = n + count, the cells below index untouched,
   [index, index + count) hold THE VALUE THE ITEM HAD WHEN THE CALL STARTED, the old tail shifted up by count, everything beyond untouched *)
Theorem C05_shift_insert_spec :
  forall (items : Z -> Z) (cnt cap_ index count it : Z),
    (0 <= index)%Z -> (index <= cnt)%Z -> (0 <= count)%Z -> (cnt + count <= cap_)%Z -> (cap_ < ShiftLoopProofs.U64)%Z ->
    (it < index \/ cnt + count <= it)%Z ->
    exists items', Gen_ShiftLoops.ShiftInsert items cnt cap_ index count it = GenPrelude.Ok (tt, items', (cnt + count)%Z) /\
      (forall j, (j < index)%Z -> items' j = items j) /\
      (forall j, (index <= j < index + count)%Z -> items' j = items it) /\
      (forall j, (index + count <= j < cnt + count)%Z -> items' j = items (j - count)%Z) /\
      (forall j, (cnt + count <= j)%Z -> items' j = items j).
Proof. exact ShiftLoopProofs.shift_insert_spec. Qed.
Print Assumptions C05_shift_insert_spec.

(* refinement: the generated InsertNogrow and the hand model's insert_nogrow_copies (C05_insert_copies_refines) compute the same sequence *)
Theorem C05_shift_insert_refines_model :
  forall (self_move after_move : Z -> option Z) (items : Z -> Z) (n index count r : nat) (x : arg Z) (it : Z),
    index <= n -> count <= r -> (Z.of_nat (n + r) < ShiftLoopProofs.U64)%Z -> ShiftLoopProofs.item_cell items n index count x it ->
    exists items',
      Gen_ShiftLoops.ShiftInsert items (Z.of_nat n) (Z.of_nat (n + r)) (Z.of_nat index) (Z.of_nat count) it =
        GenPrelude.Ok (tt, items', Z.of_nat (n + count)) /\
      insert_nogrow_copies Z self_move after_move true (arr_ofo (map Some (ShiftLoopProofs.list_of items n)) r) index count x =
        Ok (arr_ofo (map Some (ShiftLoopProofs.list_of items' (n + count))) (r - count)).
Proof. exact ShiftLoopProofs.shift_insert_refines_model. Qed.
Print Assumptions C05_shift_insert_refines_model.

(* Array::Insert(index, count, item) END TO END on generated pieces (Insert_prefix, pvIndexOf, GrowCapacity, ShiftInsert; the six statements
   of Array.h glued in InsertGlue.v and corresponded with the real function): the item is ANY element of the array (any position) or an
   external object, the capacity may or may not suffice: on every path ("grow || aliased -> ItemHandler copy first", or used in place) the
   count inserted cells hold the item's PRE-CALL value, the prefix is untouched, the tail is shifted up by count *)
Theorem C05_gen_array_insert_spec :
  forall (growOnReserve : bool) (items : Z -> Z) (cnt cap_ base index count it ptr tmp : Z),
    (0 <= index)%Z -> (index <= cnt)%Z -> (cnt <= cap_)%Z -> (cap_ < InsertGlue.U64)%Z -> (0 <= count)%Z -> (cnt + count < InsertGlue.U64)%Z ->
    (0 <= base)%Z -> (base + cnt < InsertGlue.U64)%Z -> (0 <= ptr < InsertGlue.U64)%Z -> (InsertGlue.U64 <= tmp)%Z ->
    ((0 <= it < cnt)%Z /\ ptr = (base + it)%Z \/ (InsertGlue.U64 <= it)%Z /\ (ptr < base \/ base + cnt <= ptr)%Z) ->
    exists items' cap', InsertGlue.gen_array_insert growOnReserve items cnt cap_ base index count it ptr tmp =
                          GenPrelude.Ok (items', (cnt + count)%Z, cap') /\
      (cnt + count <= cap')%Z /\
      (forall j, (0 <= j < index)%Z -> items' j = items j) /\
      (forall j, (index <= j < index + count)%Z -> items' j = items it) /\
      (forall j, (index + count <= j < cnt + count)%Z -> items' j = items (j - count)%Z).
Proof. exact InsertGlue.gen_array_insert_spec. Qed.
Print Assumptions C05_gen_array_insert_spec.

(* ================= statement-order facts read off the clang AST (Gen_ArrayFacts.v, regenerated every run) ================= *)
(* the alias condition of Array::Insert, the order inside its copy branch (ItemHandler temporary BEFORE pvGrow, then InsertNogrow from the
   temporary), its direct branch, and the order inside the two nothrow pvAddBackGrow overloads (copy into itemBuffer before pvGrow, relocation
   after; itemIndex before pvGrow, items pointer and re-indexed element after) are exactly these *)
Theorem C05_facts_shape :
  Gen_ArrayFacts.array_insert_condition = "(grow || ((index <= itemIndex) && (itemIndex < initCount)))"%string /\
  map FactsProofs.act_of Gen_ArrayFacts.array_insert_copy_branch =
    [Some FactsProofs.ANop; Some FactsProofs.ACopyItem; Some FactsProofs.AGrowIf; Some FactsProofs.AInsertCopy] /\
  map FactsProofs.act_of Gen_ArrayFacts.array_insert_direct_branch = [Some FactsProofs.AInsertItem] /\
  Gen_ArrayFacts.add_back_grow_copy_stmts =
    ["decl initCount = GetCount()"; "decl newCount = (initCount + 1)"; "decl itemBuffer = ctor{}"; "decl memManager = GetMemManager()";
     "operator()(ctor{memManager, item}, operator&(itemBuffer))"; "try { pvGrow(newCount, add) }";
     "Relocate(memManager, operator&(itemBuffer), (GetItems() + initCount), 1)"; "SetCount(newCount)"]%string /\
  Gen_ArrayFacts.add_back_grow_move_stmts =
    ["decl initCount = GetCount()"; "decl newCount = (initCount + 1)"; "decl itemIndex = pvIndexOf(item)"; "pvGrow(newCount, add)";
     "decl items = GetItems()";
     "operator()(ctor{GetMemManager(), move(((itemIndex == maxSize) ? item : items[itemIndex]))}, (items + initCount))";
     "SetCount(newCount)"]%string.
Proof. exact FactsProofs.facts_shape. Qed.
Print Assumptions C05_facts_shape.

(* Array::Insert with BOTH branches executed from the generated statement lists (after pvGrow a reference into the old buffer is dangling:
   reading it yields poison): item = any element or an external object, any capacity: the inserted cells hold the PRE-CALL value *)
Theorem C05_gen_array_insert_from_facts_spec :
  forall (growOnReserve : bool) (items : Z -> Z) (cnt cap_ base index count it ptr tmp : Z),
    (0 <= index)%Z -> (index <= cnt)%Z -> (cnt <= cap_)%Z -> (cap_ < InsertGlue.U64)%Z -> (0 <= count)%Z -> (cnt + count < InsertGlue.U64)%Z ->
    (0 <= base)%Z -> (base + cnt < InsertGlue.U64)%Z -> (0 <= ptr < InsertGlue.U64)%Z -> (InsertGlue.U64 <= tmp)%Z ->
    ((0 <= it < cnt)%Z /\ ptr = (base + it)%Z \/ (InsertGlue.U64 <= it)%Z /\ (ptr < base \/ base + cnt <= ptr)%Z) ->
    exists items' cap', FactsProofs.gen_array_insert_f growOnReserve items cnt cap_ base index count it ptr tmp =
                          GenPrelude.Ok (items', (cnt + count)%Z, cap') /\
      (cnt + count <= cap')%Z /\
      (forall j, (0 <= j < index)%Z -> items' j = items j) /\
      (forall j, (index <= j < index + count)%Z -> items' j = items it) /\
      (forall j, (index + count <= j < cnt + count)%Z -> items' j = items (j - count)%Z).
Proof. exact FactsProofs.gen_array_insert_f_spec. Qed.
Print Assumptions C05_gen_array_insert_from_facts_spec.

(* non-vacuity / the I3 mutant: [7] with capacity 1, Insert(0, 1, a[0]): real order -> 7 is inserted; temporary made after the growth -> poison *)
Theorem C05_copy_after_grow_is_wrong :
  let items := fun j => if Z.eqb j 0 then 7%Z else 0%Z in
  FactsProofs.cell0 (FactsProofs.run_acts true 1 0 1 0 (2 ^ 64 + 1) 2 1
     [Some FactsProofs.ANop; Some FactsProofs.ACopyItem; Some FactsProofs.AGrowIf; Some FactsProofs.AInsertCopy] items 1 false) = Some 7%Z /\
  FactsProofs.cell0 (FactsProofs.run_acts true 1 0 1 0 (2 ^ 64 + 1) 2 1
     [Some FactsProofs.ANop; Some FactsProofs.AGrowIf; Some FactsProofs.ACopyItem; Some FactsProofs.AInsertCopy] items 1 false) = Some FactsProofs.poison.
Proof. exact FactsProofs.copy_after_grow_is_wrong. Qed.
Print Assumptions C05_copy_after_grow_is_wrong.

(* [62f9657] empty ranges execute NO store: the generated Remove / InsertNogrow return the very same cell function for count = 0 *)
Theorem C05_shift_count0_no_store :
  forall (items : Z -> Z) (cnt cap_ index it : Z),
    (0 <= index)%Z -> (index <= cnt)%Z -> (cnt <= cap_)%Z -> (cap_ < ShiftLoopProofs.U64)%Z ->
    Gen_ShiftLoops.ShiftRemove items cnt cap_ index 0 = GenPrelude.Ok (tt, items, cnt) /\
    Gen_ShiftLoops.ShiftInsert items cnt cap_ index 0 it = GenPrelude.Ok (tt, items, cnt).
Proof. exact ShiftLoopProofs.shift_count0_no_store. Qed.
Print Assumptions C05_shift_count0_no_store.

(* SegmentedArray::Shrink(capacity) (GENERATED clamp): the capacity handed to pvDecCapacity is never below the element count *)
Theorem C05_seg_shrink_clamp_spec :
  forall segcap mCount capacity : Z, (mCount <= segcap)%Z ->
    Gen_GuardsSeg.SegShrink_clamp segcap mCount capacity = (if (segcap <=? capacity)%Z then segcap else Z.max capacity mCount) /\
    (mCount <= Gen_GuardsSeg.SegShrink_clamp segcap mCount capacity <= segcap)%Z.
Proof. exact GuardProofs.seg_shrink_clamp_spec. Qed.
Print Assumptions C05_seg_shrink_clamp_spec.

(* ================= SegmentedArray's own instantiation of the shifter ================= *)
(* ArrayShifter<SegmentedArray<T>>, translated separately from ITS instantiation, is convertible with the Array instantiation: same code *)
Theorem C05_shift_same_code :
  Gen_ShiftLoopsSeg.ShiftRemove = Gen_ShiftLoops.ShiftRemove /\ Gen_ShiftLoopsSeg.ShiftInsert = Gen_ShiftLoops.ShiftInsert.
Proof. exact SameCode.shift_same_code. Qed.
Print Assumptions C05_shift_same_code.

(* ... so the loop theorems are claimed for SegmentedArray::Insert / Remove too *)
Theorem C05_seg_shift_insert_spec :
  forall (items : Z -> Z) (cnt cap_ index count it : Z),
    (0 <= index)%Z -> (index <= cnt)%Z -> (0 <= count)%Z -> (cnt + count <= cap_)%Z -> (cap_ < ShiftLoopProofs.U64)%Z ->
    (it < index \/ cnt + count <= it)%Z ->
    exists items', Gen_ShiftLoopsSeg.ShiftInsert items cnt cap_ index count it = GenPrelude.Ok (tt, items', (cnt + count)%Z) /\
      (forall j, (j < index)%Z -> items' j = items j) /\
      (forall j, (index <= j < index + count)%Z -> items' j = items it) /\
      (forall j, (index + count <= j < cnt + count)%Z -> items' j = items (j - count)%Z) /\
      (forall j, (cnt + count <= j)%Z -> items' j = items j).
Proof. exact SameCode.seg_shift_insert_spec. Qed.
Print Assumptions C05_seg_shift_insert_spec.

Theorem C05_seg_shift_remove_spec :
  forall (items : Z -> Z) (cnt cap_ index count : Z),
    (0 <= index)%Z -> (0 <= count)%Z -> (index + count <= cnt)%Z -> (cnt <= cap_)%Z -> (cap_ < ShiftLoopProofs.U64)%Z ->
    exists items', Gen_ShiftLoopsSeg.ShiftRemove items cnt cap_ index count = GenPrelude.Ok (tt, items', (cnt - count)%Z) /\
      (forall j, (j < index)%Z -> items' j = items j) /\
      (forall j, (index <= j < cnt - count)%Z -> items' j = items (j + count)%Z) /\
      (forall j, (cnt <= j)%Z -> items' j = items j).
Proof. exact SameCode.seg_shift_remove_spec. Qed.
Print Assumptions C05_seg_shift_remove_spec.

(* ================= Array::AddBack(const Item&) executed from the AST facts ================= *)
(* pvAddBackNogrow / pvAddBackGrow(const Item&, true_type) statement lists (Relocate = a cell move; after pvGrow a reference into the old buffer
   reads poison): item = ANY element or an external object, full or not: the appended cell holds the PRE-CALL value, the rest is untouched *)
Theorem C05_gen_add_back_from_facts_spec :
  forall (growOnReserve : bool) (items : Z -> Z) (cnt cap_ it tmp : Z),
    (0 <= cnt)%Z -> (cnt <= cap_)%Z -> (cnt + 1 < InsertGlue.U64)%Z -> (InsertGlue.U64 <= tmp)%Z -> ((0 <= it < cnt)%Z \/ (InsertGlue.U64 <= it)%Z) ->
    exists items' cap', FactsProofs.gen_add_back_f growOnReserve items cnt cap_ it tmp = GenPrelude.Ok (items', (cnt + 1)%Z, cap') /\
      (cnt + 1 <= cap')%Z /\ items' cnt = items it /\ (forall j, (0 <= j < cnt)%Z -> items' j = items j).
Proof. exact FactsProofs.gen_add_back_f_spec. Qed.
Print Assumptions C05_gen_add_back_from_facts_spec.

(* ================= Array::Shrink clamp (GENERATED, internalCapacity symbolic) and the forwards of stdish::vector (AST facts) ================= *)
Theorem C05_array_shrink_clamp_is_the_model :
  forall ic cnt capa n : nat,
    Gen_GuardsArray.Shrink_clamp (Z.of_nat ic) (Z.of_nat cnt) (Z.of_nat capa) (Z.of_nat n) =
      Z.of_nat (if (capa <=? n) || (capa =? ic) then capa else if n <? cnt then cnt else n).
Proof. exact GuardProofs.array_shrink_clamp_is_the_model. Qed.
Print Assumptions C05_array_shrink_clamp_is_the_model.

(* stdish::vector::insert(where, n, v) forwards to Array::Insert(where - cbegin(), n, v), erase(first, last) to Remove(first - cbegin(),
   last - first), push_back to AddBack, resize to SetCount, assign(n, v) builds a new Array from v and move-assigns it, ...; Array::Reserve /
   Shrink have the statement structure the hand model mirrors *)
Theorem C05_facts_shape_forwards :
  Gen_ArrayFacts.array_reserve_stmts = ["if (capacity > GetCapacity()) { pvGrow(capacity, reserve) }"]%string /\
  Gen_ArrayFacts.array_shrink_stmts =
    ["decl initCapacity = GetCapacity()"; "if ((initCapacity <= capacity) || (initCapacity == internalCapacity)) { return }";
     "decl count = GetCount()"; "if (capacity < count) { (capacity = count) }";
     "if !Reallocate(capacity, capacity) { decl itemsCreator = LambdaExpr; Reset(capacity, count, itemsCreator) }"]%string /\
  Gen_ArrayFacts.vector_insert_n = ["decl index = Dist(cbegin(), where)"; "Insert(index, count, value)"; "return Next(begin(), index)"]%string /\
  Gen_ArrayFacts.vector_insert_copy = ["decl index = Dist(cbegin(), where)"; "Insert(index, value)"; "return Next(begin(), index)"]%string /\
  Gen_ArrayFacts.vector_insert_move = ["decl index = Dist(cbegin(), where)"; "Insert(index, move(value))"; "return Next(begin(), index)"]%string /\
  Gen_ArrayFacts.vector_erase_range = ["decl index = Dist(cbegin(), first)"; "Remove(index, Dist(first, last))"; "return Next(begin(), index)"]%string /\
  Gen_ArrayFacts.vector_erase_one = ["return erase(where, (where + 1))"]%string /\
  Gen_ArrayFacts.vector_push_back_copy = ["AddBack(value)"]%string /\ Gen_ArrayFacts.vector_push_back_move = ["AddBack(move(value))"]%string /\
  Gen_ArrayFacts.vector_resize_value = ["SetCount(size, value)"]%string /\ Gen_ArrayFacts.vector_resize = ["SetCount(size)"]%string /\
  Gen_ArrayFacts.vector_assign_n = ["operator=(mArray, ctor{count, value, ctor{get_allocator()}})"]%string /\
  Gen_ArrayFacts.vector_reserve = ["Reserve(count)"]%string /\ Gen_ArrayFacts.vector_shrink_to_fit = ["Shrink()"]%string /\
  Gen_ArrayFacts.vector_clear = ["Clear(CXXDefaultArgExpr)"]%string /\ Gen_ArrayFacts.vector_pop_back = ["RemoveBack(CXXDefaultArgExpr)"]%string.
Proof. exact FactsProofs.facts_shape_forwards. Qed.
Print Assumptions C05_facts_shape_forwards.

(* ================= Array::AddBack(Item&&) executed from the AST facts; statement structure of the remaining operations ================= *)
(* a[i] (ANY element) or an external object moved to the back, with or without reallocation: itemIndex is taken before pvGrow, the items pointer
   after it, the aliased element is re-indexed in the new buffer: the appended cell holds the PRE-CALL value *)
Theorem C05_gen_add_back_move_from_facts_spec :
  forall (growOnReserve : bool) (items : Z -> Z) (cnt cap_ it tmp : Z),
    (0 <= cnt)%Z -> (cnt <= cap_)%Z -> (cnt + 1 < InsertGlue.U64)%Z -> (InsertGlue.U64 <= tmp)%Z -> ((0 <= it < cnt)%Z \/ (InsertGlue.U64 <= it)%Z) ->
    exists items' cap', FactsProofs.gen_add_back_move_f growOnReserve items cnt cap_ it tmp = GenPrelude.Ok (items', (cnt + 1)%Z, cap') /\
      (cnt + 1 <= cap')%Z /\ items' cnt = items it /\ (forall j, (0 <= j < cnt)%Z -> items' j = items j).
Proof. exact FactsProofs.gen_add_back_move_f_spec. Qed.
Print Assumptions C05_gen_add_back_move_from_facts_spec.

(* non-vacuity / the M3 mutant: [7] full, AddBack(std::move(a[0])): 7 is appended; with the items pointer taken before the growth: poison *)
Theorem C05_stale_item_after_grow_is_wrong :
  let items := fun j => if Z.eqb j 0 then 7%Z else 0%Z in
  FactsProofs.cellat 1 (FactsProofs.run_macts true 1 0 [Some FactsProofs.MIndexOf; Some FactsProofs.MGrow; Some FactsProofs.MRefreshItems;
      Some FactsProofs.MMoveCreateCond; Some FactsProofs.MSetCount] items 1 1 false false true) = Some 7%Z /\
  FactsProofs.cellat 1 (FactsProofs.run_macts true 1 0 [Some FactsProofs.MIndexOf; Some FactsProofs.MRefreshItems; Some FactsProofs.MGrow;
      Some FactsProofs.MMoveCreateCond; Some FactsProofs.MSetCount] items 1 1 false false true) = Some FactsProofs.poison.
Proof. exact FactsProofs.stale_item_after_grow_is_wrong. Qed.
Print Assumptions C05_stale_item_after_grow_is_wrong.

(* statement structure (AST facts) of AddBack(Item&&) / pvAddBackGrow(Item&&), Insert(index, Item&&), InsertCrt (temporary BEFORE growth), the
   input-iterator ArrayShifter::Insert (item k to index + k), RemoveBack / pvRemoveBack / Clear and the three-way SetCountCrt *)
Theorem C05_facts_shape_more :
  Gen_ArrayFacts.add_back_move_stmts = ["if (GetCount() < GetCapacity()) { pvAddBackNogrow(ctor{GetMemManager(), move(item)}) } else { pvAddBackGrow(move(item)) }"]%string /\
  map FactsProofs.mact_of Gen_ArrayFacts.add_back_grow_move_stmts =
    [Some FactsProofs.MNop; Some FactsProofs.MNop; Some FactsProofs.MIndexOf; Some FactsProofs.MGrow; Some FactsProofs.MRefreshItems;
     Some FactsProofs.MMoveCreateCond; Some FactsProofs.MSetCount] /\
  Gen_ArrayFacts.insert_rvalue_stmts = ["decl initCount = GetCount()"; "decl grow = ((initCount + 1) > GetCapacity())"; "decl itemIndex = pvIndexOf(item)";
    "if (grow || ((index <= itemIndex) && (itemIndex < initCount))) { InsertVar(index, move(item)) } else { InsertNogrow(*CXXThisExpr, index, move(item)) }"]%string /\
  Gen_ArrayFacts.insert_crt_stmts = ["decl itemHandler = ctor{GetMemManager(), forward(itemCreator)}"; "decl newCount = (GetCount() + 1)";
    "if (newCount > GetCapacity()) { pvGrow(newCount, add) }"; "InsertNogrow(*CXXThisExpr, index, move(*operator&(itemHandler)))"]%string /\
  Gen_ArrayFacts.shifter_insert_input_stmts = ["typedef"; "decl memManager = GetMemManager()"; "decl count = 0";
    "for (decl iter = ctor{move(begin)}; operator!=(iter, ctor{end}); (CStyleCastExpr , ++count)) { InsertCrt((index + count), ctor{memManager, operator*(iter)}) }"]%string /\
  Gen_ArrayFacts.remove_back_stmts = ["DoStmt"; "pvRemoveBack(count)"]%string /\
  Gen_ArrayFacts.pv_remove_back_stmts = ["decl initCount = GetCount()"; "Destroy(GetMemManager(), ((GetItems() + initCount) - count), count)"; "SetCount((initCount - count))"]%string /\
  Gen_ArrayFacts.clear_stmts = ["if shrink { Clear() } else { pvRemoveBack(GetCount()) }"]%string /\
  Gen_ArrayFacts.set_count_crt_stmts = ["decl newCount = count"; "decl initCount = GetCount()"; "decl initCapacity = GetCapacity()";
    "if (newCount <= initCount) { pvRemoveBack((initCount - newCount)) } else { if (newCount <= initCapacity) { decl items = GetItems(); decl index = initCount; try { for (; (index < newCount); ++index) { operator()(itemMultiCreator, (items + index)) } }; SetCount(newCount) } else { decl newCapacity = pvGrowCapacity(initCapacity, newCount, reserve, CXXBoolLiteralExpr); decl itemsCreator = LambdaExpr; Reset(newCapacity, newCount, itemsCreator) } }"]%string.
Proof. exact FactsProofs.facts_shape_more. Qed.
Print Assumptions C05_facts_shape_more.

(* Array::Data::Reset runs the items creator on the NEW storage before the old storage is released, and the creator of SetCountCrt constructs the
   new items (from `item`) before it relocates the old ones: an aliased argument is read while the old buffer is intact (AST facts) *)
Theorem C05_facts_shape_reset :
  Gen_ArrayFacts.data_reset_stmts =
    ["assert((count <= capacity))"; "pvCheckCapacity(capacity)";
     "if (capacity > internalCapacity) { decl items = pvAllocate(capacity); try { operator()(forward(itemsCreator), items) }; pvDeallocate(); (mItems = items); (mCount = count); (mCapacity = capacity) } else { pvReset(count, forward(itemsCreator)) }"]%string /\
  Gen_ArrayFacts.pv_grow_lambda = ["Relocate(GetMemManager(), GetItems(), newItems, count)"]%string /\
  Gen_ArrayFacts.set_count_crt_lambdas =
    ["decl index = initCount; try { for (; (index < newCount); ++index) { operator()(itemMultiCreator, (newItems + index)) }; Relocate(GetMemManager(), GetItems(), newItems, initCount) }"]%string.
Proof. exact FactsProofs.facts_shape_reset. Qed.
Print Assumptions C05_facts_shape_reset.
