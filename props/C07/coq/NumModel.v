(* C07 / L1: the stored row numbers of a DataTable with Settings::keepRowNumber (DataTable.h: pvSetNumber,
   pvSetNumbers(beginNumber), TryAdd, TryInsert, TryUpdate, pvExtractRaw, pvRemove, pvFill).
   State = the L0 table plus, for every row in table order, the number stored in its raw.  Each operation
   rewrites exactly the numbers the C++ code rewrites; the theorem says that the stored numbers are always
   the positions.  (Assign's in-place permutation by numbers is taken as its result: rows in the requested
   order, numbered 0..count-1; the real code is checked on every history by the harness: GetNumber == position.) *)
From Coq Require Import List ZArith Lia Bool Arith PeanoNat Permutation.
From C07 Require Import TableSpec TableProofs.
Import ListNotations.

(* pvSetNumbers(from): rows from..count-1 get their position *)
Definition set_nums (from : nat) (nums : list nat) : list nat := firstn from nums ++ seq from (length nums - from).

Definition accepted (res : result) : bool := match res with ROk | RRow _ | RCount _ => true | _ => false end.

Definition nstep (st : table * list nat) (o : op) : (table * list nat) * result :=
  let '(t, nums) := st in
  let '(t', res) := step t o in
  let n0 := length (rows t) in
  let all := seq 0 (length (rows t')) in
  let nums' :=
    if negb (accepted res) then nums else
    match o with
    | OAdd _ => nums ++ [n0]                                          (* pvSetNumber(raw, mRaws.GetCount()) *)
    | OInsert n _ => set_nums n (insert_at n n0 nums)                 (* TryAdd, std::rotate, pvSetNumbers(rowNumber) *)
    | OUpdate n _ => set_nth n n nums                                 (* pvSetNumber(raw, rowNumber) *)
    | OUpdateCol _ _ _ => nums
    | ORemove n true | OExtract n true => set_nums n (remove_nth n nums)      (* mRaws.Remove(number); pvSetNumbers(number) *)
    | ORemove n false | OExtract n false =>                          (* back item moved into the hole and renumbered *)
        let l := remove_unordered n nums in
        if Nat.ltb n (length l) then set_nth n n l else l
    | ORemoveRange _ _ | ORemovePred _ | OAssign _ | OCopy | OCopyFilter _ => all   (* pvFilterRaws / pvFill, then pvSetNumbers() *)
    | OClear => []
    | OAddUnique _ | OAddMulti _ | ODropUnique | ODropMulti => nums
    end in
  ((t', nums'), res).

Definition nums_ok (st : table * list nat) : Prop := snd st = seq 0 (length (rows (fst st))).

Definition nrun (st : table * list nat) (ops : list op) : table * list nat := fold_left (fun s o => fst (nstep s o)) ops st.

(* ---------------------------------------------------------------- facts *)

Lemma seq_split_at a n m : n <= m -> seq a m = seq a n ++ seq (a + n) (m - n).
Proof. intros H. replace m with (n + (m - n)) at 1 by lia. apply seq_app. Qed.

Lemma set_nums_ok from nums m : length nums = m -> from <= m -> firstn from nums = seq 0 from -> set_nums from nums = seq 0 m.
Proof. intros Hl Hf Hp. unfold set_nums. rewrite Hp, Hl. rewrite (seq_split_at 0 from m Hf). reflexivity. Qed.

Lemma firstn_seq a n m : n <= m -> firstn n (seq a m) = seq a n.
Proof.
  revert a m; induction n as [|n IH]; intros a m H; [reflexivity|]. destruct m; [lia|]. simpl. f_equal. apply IH. lia.
Qed.

Lemma firstn_firstn_min {A} n (l : list A) : firstn n (firstn n l) = firstn n l.
Proof. rewrite firstn_firstn, Nat.min_id. reflexivity. Qed.

Lemma firstn_insert_at {A} n (x : A) l : n <= length l -> firstn n (insert_at n x l) = firstn n l.
Proof.
  intros H. unfold insert_at. rewrite firstn_app. rewrite firstn_length, Nat.min_l by exact H.
  rewrite Nat.sub_diag. simpl. rewrite app_nil_r. apply firstn_firstn_min.
Qed.

Lemma insert_at_length {A} n (x : A) l : length (insert_at n x l) = S (length l).
Proof. pose proof (Permutation_length (insert_at_perm x l n)) as P. exact P. Qed.

Lemma firstn_remove_nth {A} n (l : list A) : firstn n (remove_nth n l) = firstn n l.
Proof. revert n; induction l as [|x l IH]; intros [|n]; simpl; auto. f_equal. apply IH. Qed.

Lemma remove_nth_length {A} n (l : list A) : n < length l -> length (remove_nth n l) = length l - 1.
Proof.
  revert n; induction l as [|x l IH]; intros n H; simpl in *; [lia|]. destruct n; simpl; [lia|]. rewrite IH by lia. lia.
Qed.

Lemma set_nth_seq n m : n < m -> set_nth n n (seq 0 m) = seq 0 m.
Proof.
  assert (G : forall a n m, n < m -> set_nth n (a + n) (seq a m) = seq a m).
  { intros a n0; revert a; induction n0 as [|n0 IH]; intros a m0 H; destruct m0; try lia; simpl.
    - rewrite Nat.add_0_r. reflexivity.
    - f_equal. replace (a + S n0) with (S a + n0) by lia. apply IH. lia. }
  intros H. apply (G 0 n m H).
Qed.

Lemma removelast_len {A} (l : list A) : length (removelast l) = length l - 1.
Proof. destruct l using rev_ind; [reflexivity|]. rewrite removelast_last, app_length. simpl. lia. Qed.

Lemma removelast_seq a m : removelast (seq a (S m)) = seq a m.
Proof. rewrite seq_S. apply removelast_last. Qed.

(* the unordered removal on numbers 0..m-1, followed by renumbering the moved row, gives 0..m-2 *)
Lemma unordered_nums n m :
  n < m ->
  (let l := remove_unordered n (seq 0 m) in if Nat.ltb n (length l) then set_nth n n l else l) = seq 0 (m - 1).
Proof.
  intros H. destruct m; [lia|]. simpl Nat.sub. rewrite Nat.sub_0_r.
  unfold remove_unordered.
  replace (rev (seq 0 (S m))) with (m :: rev (seq 0 m)) by (rewrite seq_S; simpl; rewrite rev_unit; reflexivity).
  rewrite seq_length.
  destruct (Nat.eqb_spec (S n) (S m)) as [E|E].
  - rewrite removelast_seq. rewrite seq_length. replace (Nat.ltb n m) with false by (symmetry; apply Nat.ltb_ge; lia). reflexivity.
  - assert (Hn : n < m) by lia.
    assert (Hl : length (removelast (set_nth n m (seq 0 (S m)))) = m).
    { rewrite removelast_len, set_nth_length, seq_length. lia. }
    rewrite Hl. replace (Nat.ltb n m) with true by (symmetry; apply Nat.ltb_lt; exact Hn).
    rewrite seq_S. rewrite set_nth_app_l by (rewrite seq_length; exact Hn). rewrite removelast_last.
    (* set_nth n n (set_nth n x l) = set_nth n n l *)
    assert (G : forall {A} k (x y : A) l, set_nth k y (set_nth k x l) = set_nth k y l).
    { intros A k x y l. revert k; induction l as [|z l IH]; intros [|k]; simpl; auto. f_equal. apply IH. }
    rewrite G. apply set_nth_seq. exact Hn.
Qed.

Lemma step_rows_length_add t r t' : step t (OAdd r) = (t', ROk) -> length (rows t') = S (length (rows t)).
Proof.
  simpl. unfold try_put. destruct (find_conflict _ _ _ _ _) as [[a b]|]; intros H; inversion H; subst. simpl.
  rewrite app_length. simpl. lia.
Qed.

Theorem nstep_numbers t nums o : nums_ok (t, nums) -> nums_ok (fst (nstep (t, nums) o)).
Proof.
  unfold nums_ok. simpl. intros Hn. subst nums.
  destruct (step t o) as [t' res] eqn:Es. simpl.
  destruct (accepted res) eqn:Ea; simpl.
  2:{ (* refused: the table is unchanged *)
      assert (Href : refused res) by (destruct res; simpl in *; try discriminate; exact I).
      pose proof (refused_op_is_identity t o) as Hid. rewrite Es in Hid. simpl in Hid. rewrite (Hid Href). reflexivity. }
  destruct o; simpl in Es.
  - (* add *) unfold try_put in Es. destruct (find_conflict _ _ _ _ _) as [[a b]|]; inversion Es; subst; [discriminate|]. simpl.
    rewrite app_length. simpl. rewrite Nat.add_1_r. rewrite seq_S. reflexivity.
  - (* insert *) destruct (Nat.leb_spec n (length (rows t))); [|inversion Es; subst; discriminate].
    unfold try_put in Es. destruct (find_conflict _ _ _ _ _) as [[a b]|]; inversion Es; subst; [discriminate|]. simpl.
    rewrite insert_at_length. apply set_nums_ok.
    + rewrite insert_at_length, seq_length. reflexivity.
    + lia.
    + rewrite firstn_insert_at by (rewrite seq_length; lia). apply firstn_seq. lia.
  - (* update *) destruct (Nat.ltb_spec n (length (rows t))); [|inversion Es; subst; discriminate].
    unfold try_put in Es. destruct (find_conflict _ _ _ _ _) as [[a b]|]; inversion Es; subst; [discriminate|]. simpl.
    rewrite set_nth_length. apply set_nth_seq. assumption.
  - (* update column *) destruct (nth_error (rows t) n) as [old|] eqn:En; [|inversion Es; subst; discriminate].
    destruct (Z.eqb v (getc old c)); [inversion Es; subst; reflexivity|].
    unfold try_put in Es. destruct (find_conflict _ _ _ _ _) as [[a b]|]; inversion Es; subst; [discriminate|]. simpl.
    rewrite set_nth_length. reflexivity.
  - (* remove *) destruct (Nat.ltb_spec n (length (rows t))); [|inversion Es; subst; discriminate].
    inversion Es; subst. simpl. destruct keep.
    + rewrite remove_nth_length by assumption. apply set_nums_ok.
      * rewrite remove_nth_length, seq_length by (rewrite seq_length; assumption). reflexivity.
      * lia.
      * rewrite firstn_remove_nth. apply firstn_seq. lia.
    + pose proof (Permutation_length (remove_unordered_perm (rows t) n H)) as P. rewrite P.
      rewrite remove_nth_length by assumption. apply unordered_nums. assumption.
  - destruct (Nat.leb (n + k) (length (rows t))); inversion Es; subst; [reflexivity|discriminate].
  - inversion Es; subst. reflexivity.
  - (* extract *) destruct (nth_error (rows t) n) as [r|] eqn:En; [|inversion Es; subst; discriminate].
    assert (H : n < length (rows t)) by (apply nth_error_Some; congruence).
    inversion Es; subst. simpl. destruct keep.
    + rewrite remove_nth_length by assumption. apply set_nums_ok.
      * rewrite remove_nth_length, seq_length by (rewrite seq_length; assumption). reflexivity.
      * lia.
      * rewrite firstn_remove_nth. apply firstn_seq. lia.
    + pose proof (Permutation_length (remove_unordered_perm (rows t) n H)) as P. rewrite P.
      rewrite remove_nth_length by assumption. apply unordered_nums. assumption.
  - destruct (forallb _ ns); inversion Es; subst; [reflexivity|discriminate].
  - inversion Es; subst. reflexivity.
  - inversion Es; subst. reflexivity.
  - inversion Es; subst. reflexivity.
  - destruct (existsb _ (uniq t)); [inversion Es; subst; reflexivity|].
    destruct (first_dup _ _ _ _); inversion Es; subst; [discriminate|reflexivity].
  - destruct (existsb _ (multi t)); inversion Es; subst; reflexivity.
  - inversion Es; subst. reflexivity.
  - inversion Es; subst. reflexivity.
Qed.

(* the numbered table is the L0 table: same rows, same results *)
Theorem nstep_refines t nums o : fst (fst (nstep (t, nums) o)) = fst (step t o) /\ snd (nstep (t, nums) o) = snd (step t o).
Proof. simpl. destruct (step t o). split; reflexivity. Qed.

(* for every history: the number stored in every row is its position *)
Theorem row_numbers_are_positions ops :
  snd (nrun (empty_table, []) ops) = seq 0 (length (rows (fst (nrun (empty_table, []) ops)))).
Proof.
  assert (G : forall st, nums_ok st -> nums_ok (nrun st ops)).
  { induction ops as [|o ops IH]; intros st H; [exact H|]. simpl. apply IH. destruct st as [t nums]. apply nstep_numbers. exact H. }
  apply (G (empty_table, [])). reflexivity.
Qed.
