(* C17: the GENERATED cycle-leader permutation (Gen_RadixCycle.v: nested for / while loops of the second pvRadixSort overload)
   refines the hand model's flattened perm_loop (SorterSort.v): whenever the hand loop returns Ok l', the generated loops
   return Ok with the codes of l'.  With Radix_Proofs.perm_loop_spec this moves totality (the counting argument), the
   permutation property and "every bucket holds exactly its digit" onto the generated code. *)
From Coq Require Import ZArith Bool List Lia.
From MomoCommon Require Import GenPrelude.
From C17 Require Import SorterSearch SorterSort Sort_Proofs Radix_Proofs SelPrims Gen_Radix Radix_Gen_Proofs Gen_RadixCycle.
Local Open Scope Z_scope.

Section CycleRefine.
  Variable sw : arr -> Z -> Z -> arr.
  Hypothesis Hsw : forall l i j, sw l i j = swap l i j.
  Variable R : Z.
  Hypothesis HR : 0 <= R <= 16.
  Let N := 2 ^ R.
  Variable p cnt shift begin : Z.
  Hypothesis Hp : 0 <= p.
  Hypothesis Hcnt : 0 <= cnt.
  Hypothesis Hshift : 0 <= shift.
  Variable ei : Z -> Z.
  Hypothesis Hei_le : forall r, 0 <= r < N -> ei r <= cnt.
  Variable loop_fuel : nat.

  Definition Rel (l : arr) (items : Z -> Z) : Prop := forall k, 0 <= k -> items k = code l (p + k).
  Definition Beq (bg bh : Z -> Z) : Prop := forall r, 0 <= r < N -> bg r = bh r.

  Lemma N_bounds : 0 < N <= 2 ^ 16.
  Proof. unfold N. split; [apply Z.pow_pos_nonneg; lia|apply Z.pow_le_mono_r; lia]. Qed.

  Lemma hand_eq F l r bh : perm_loop sw R (S F) l p shift r ei bh =
      if r <? radixCount R then
        if bh r <? ei r then
          let radix := getRadix R (code l (p + bh r)) shift in
          l' <- (if negb (radix =? r) then swp sw l (p + bh r) (p + bh radix) else Ok l) ;;
          perm_loop sw R F l' p shift r ei (upd bh radix (bh radix + 1))
        else perm_loop sw R F l p shift (r + 1) ei bh
      else Ok l.
  Proof. reflexivity. Qed.

  Lemma swp_inv l i j l' : swp sw l i j = Ok l' -> l' = swap l i j /\ 0 <= i < alen l /\ 0 <= j < alen l.
  Proof.
    unfold swp, inr. intros H. destruct ((0 <=? i) && (i <? alen l) && ((0 <=? j) && (j <? alen l))) eqn:B; [|discriminate].
    inversion H. rewrite Hsw. apply andb_true_iff in B. destruct B as [B1 B2].
    apply andb_true_iff in B1. apply andb_true_iff in B2. destruct B1 as [A1 A2]. destruct B2 as [A3 A4].
    apply Z.leb_le in A1. apply Z.ltb_lt in A2. apply Z.leb_le in A3. apply Z.ltb_lt in A4. repeat split; lia.
  Qed.

  (* one bucket: the generated while loop follows the hand loop until the hand loop advances to r + 1 *)
  Lemma inner_refines : forall F f2 l bh bg items swa swb swn r lf, (F <= f2)%nat -> 0 <= r < N ->
    perm_loop sw R F l p shift r ei bh = Ok lf -> Rel l items -> Beq bg bh -> (forall r', 0 <= r' < N -> 0 <= bh r') ->
    p + cnt <= alen l -> alen l < 2 ^ 62 ->
    exists bg' items' swa' swb' swn' l' bh' F',
      pvRadixSort_cycle_loop2 R f2 begin (ei r) r shift bg items swa swb swn = Ok (bg', items', swa', swb', swn') /\
      perm_loop sw R F' l' p shift (r + 1) ei bh' = Ok lf /\ (F' <= F)%nat /\ Rel l' items' /\ Beq bg' bh' /\
      (forall r', 0 <= r' < N -> 0 <= bh' r') /\ alen l' = alen l.
  Proof.
    pose proof N_bounds as HN.
    induction F as [|F IH]; intros f2 l bh bg items swa swb swn r lf Hf Hr Hh HRel HB Hnn Hl Hlen; [simpl in Hh; discriminate|].
    destruct f2 as [|f2]; [lia|]. rewrite hand_eq in Hh. rewrite pvRadixSort_cycle_loop2_eq.
    assert (HrN : (r <? radixCount R) = true) by (apply Z.ltb_lt; unfold radixCount; fold N; lia). rewrite HrN in Hh.
    rewrite (HB r Hr).
    destruct (Z.ltb_spec (bh r) (ei r)) as [Hlt|Hge].
    2:{ exists bg, items, swa, swb, swn, l, bh, F. split; [reflexivity|]. split; [exact Hh|]. split; [lia|]. auto. }
    cbv zeta in Hh. cbv zeta.
    assert (Hbr : 0 <= bh r < cnt) by (specialize (Hnn r Hr); specialize (Hei_le r Hr); lia).
    rewrite (HRel (bh r) ltac:(lia)). rewrite gen_pvGetRadix_u64_refines by lia.
    set (d := getRadix R (code l (p + bh r)) shift) in *.
    assert (Hd : 0 <= d < N) by (unfold d, N; apply getRadix_range; lia).
    rewrite (HB d Hd).
    destruct (Z.eqb_spec d r) as [Heq|Hne]; cbn [negb] in Hh |- *.
    - cbn [bind] in Hh.
      assert (Hw : wrapU 64 (bh d + 1) = bh d + 1) by (apply wrapU_small; rewrite Heq; lia). rewrite Hw.
      destruct (IH f2 l (upd bh d (bh d + 1)) (upd bg d (bh d + 1)) items swa swb swn r lf) as (bg' & it' & a' & b' & n' & l' & bh' & F' & E1 & E2 & E3 & E4 & E5 & E6 & E7); try lia; auto.
      + intros r' Hr'. unfold upd. destruct (r' =? d); [reflexivity|apply HB; exact Hr'].
      + intros r' Hr'. unfold upd. destruct (Z.eqb_spec r' d) as [->|]; [specialize (Hnn d Hd); lia|apply Hnn; exact Hr'].
      + exists bg', it', a', b', n', l', bh', F'. repeat split; auto; lia.
    - destruct (swp sw l (p + bh r) (p + bh d)) as [l1| | |] eqn:Es; try discriminate. cbn [bind] in Hh.
      destruct (swp_inv _ _ _ _ Es) as (-> & Hi1 & Hi2).
      assert (Hw : wrapU 64 (bh d + 1) = bh d + 1) by (apply wrapU_small; specialize (Hnn d Hd); lia). rewrite Hw.
      destruct (IH f2 (swap l (p + bh r) (p + bh d)) (upd bh d (bh d + 1)) (upd bg d (bh d + 1)) (swapf items (bh r) (bh d))
                  (upd swa swn (bh r)) (upd swb swn (bh d)) (wrapU 64 (swn + 1)) r lf)
        as (bg' & it' & a' & b' & n' & l' & bh' & F' & E1 & E2 & E3 & E4 & E5 & E6 & E7); try lia; auto.
      + intros k Hk. rewrite swapf_spec, code_swap by lia. rewrite (HRel k Hk). specialize (Hnn d Hd).
        rewrite (HRel (bh r)), (HRel (bh d)) by lia.
        destruct (Z.eqb_spec k (bh d)); destruct (Z.eqb_spec (p + k) (p + bh d)); try lia.
        destruct (Z.eqb_spec k (bh r)); destruct (Z.eqb_spec (p + k) (p + bh r)); try lia.
      + intros r' Hr'. unfold upd. destruct (r' =? d); [reflexivity|apply HB; exact Hr'].
      + intros r' Hr'. unfold upd. destruct (Z.eqb_spec r' d) as [->|]; [specialize (Hnn d Hd); lia|apply Hnn; exact Hr'].
      + rewrite alen_swap. exact Hl.
      + rewrite alen_swap. exact Hlen.
      + rewrite alen_swap in E7. exists bg', it', a', b', n', l', bh', F'. repeat split; auto; lia.
  Qed.

  (* all buckets: the generated for loop over r follows the hand loop to its end *)
  Lemma outer_refines : forall n F f1 l bh bg items swa swb swn r lf, r + Z.of_nat n = N -> 0 <= r -> (n < f1)%nat ->
    (F <= loop_fuel)%nat -> perm_loop sw R F l p shift r ei bh = Ok lf -> Rel l items -> Beq bg bh ->
    (forall r', 0 <= r' < N -> 0 <= bh r') -> p + cnt <= alen l -> alen l < 2 ^ 62 ->
    exists bg' items' r' swa' swb' swn',
      pvRadixSort_cycle_loop1 R N loop_fuel f1 begin ei shift bg items r swa swb swn = Ok (bg', items', r', swa', swb', swn') /\
      Rel lf items'.
  Proof.
    pose proof N_bounds as HN.
    induction n as [|n IH]; intros F f1 l bh bg items swa swb swn r lf Hn Hr Hf1 HF Hh HRel HB Hnn Hl Hlen.
    - simpl in Hn. destruct f1 as [|f1]; [lia|]. rewrite pvRadixSort_cycle_loop1_eq. destruct (Z.ltb_spec r N); [lia|].
      destruct F as [|F]; [simpl in Hh; discriminate|]. rewrite hand_eq in Hh.
      assert (HrN : (r <? radixCount R) = false) by (apply Z.ltb_ge; unfold radixCount; fold N; lia). rewrite HrN in Hh.
      inversion Hh; subst lf. do 6 eexists. split; [reflexivity|exact HRel].
    - rewrite Nat2Z.inj_succ in Hn. destruct f1 as [|f1]; [lia|]. rewrite pvRadixSort_cycle_loop1_eq. destruct (Z.ltb_spec r N); [|lia].
      cbv zeta. unfold fuel_of_pvRadixSort_cycle.
      destruct (inner_refines F loop_fuel l bh bg items swa swb swn r lf HF ltac:(lia) Hh HRel HB Hnn Hl Hlen)
        as (bg1 & it1 & a1 & b1 & n1 & l1 & bh1 & F1 & E1 & E2 & E3 & E4 & E5 & E6 & E7).
      rewrite E1. rewrite (wrapU_small 64 (r + 1)) by lia.
      apply (IH F1 f1 l1 bh1); try lia; auto.
  Qed.
End CycleRefine.

(* ---------------- totality / permutation / bucket contents of the GENERATED cycle-leader function ---------------- *)
Section CycleTotal.
  Variable sw : arr -> Z -> Z -> arr.
  Hypothesis Hsw : forall l i j, sw l i j = swap l i j.
  Variable R : Z.
  Hypothesis HR : 0 <= R <= 16.
  Let N := 2 ^ R.
  Variable p cnt shift begin : Z.
  Hypothesis Hp : 0 <= p.
  Hypothesis Hshift : 0 <= shift.
  Variable S : Z -> Z.                 (* bucket r = relative positions [S r, S (r+1)) *)
  Variable E : Z -> Z.                 (* the endIndexes table handed to the function *)
  Hypothesis HE : forall r, 0 <= r < N -> E r = S (r + 1).
  Hypothesis HS0 : S 0 = 0.
  Hypothesis HSN : S N = cnt.
  Hypothesis HSstep : forall r, 0 <= r < N -> S r <= S (r + 1).
  Variable l : arr.
  Hypothesis Hl : p + cnt <= alen l.
  Hypothesis Hlen : alen l < 2 ^ 62.
  (* the table is the histogram of the digits of l *)
  Hypothesis HT : forall r, 0 <= r < N -> cz (fun k => Dg R p shift l k =? r) 0 cnt = S (r + 1) - S r.
  Variable loop_fuel : nat.
  Hypothesis Hfuel : (Z.to_nat (cnt + N) + 2 <= loop_fuel)%nat.

  Lemma loop0_spec : forall m f r b, 1 <= r -> r + Z.of_nat m = N -> (m < f)%nat -> b 0 = 0 ->
    (forall r', 1 <= r' < r -> b r' = E (r' - 1)) ->
    exists b' r1, pvRadixSort_cycle_loop0 N f E b r = Ok (b', r1) /\ b' 0 = 0 /\ forall r', 1 <= r' < N -> b' r' = E (r' - 1).
  Proof.
    assert (HN : 0 < N <= 2 ^ 16) by (unfold N; split; [apply Z.pow_pos_nonneg; lia|apply Z.pow_le_mono_r; lia]).
    induction m as [|m IH]; intros f r b Hr Hm Hf Hb0 Hb.
    - simpl in Hm. destruct f as [|f]; [lia|]. rewrite pvRadixSort_cycle_loop0_eq. destruct (Z.ltb_spec r N); [lia|].
      exists b, r. split; [reflexivity|]. split; [exact Hb0|]. intros r' Hr'. apply Hb. lia.
    - rewrite Nat2Z.inj_succ in Hm. destruct f as [|f]; [lia|]. rewrite pvRadixSort_cycle_loop0_eq. destruct (Z.ltb_spec r N); [|lia].
      cbv zeta. rewrite (wrapU_small 64 (r - 1)), (wrapU_small 64 (r + 1)) by lia. apply IH; try lia.
      + unfold upd. destruct (Z.eqb_spec 0 r); [lia|exact Hb0].
      + intros r' Hr'. unfold upd. destruct (Z.eqb_spec r' r) as [->|]; [reflexivity|apply Hb; lia].
  Qed.

  Theorem gen_cycle_leader_total bi0 swa swb swn :
    exists bi' items' swa' swb' swn' l',
      pvRadixSort_cycle R N loop_fuel E bi0 (fun k => code l (p + k)) swa swb swn begin shift = Ok (tt, bi', items', swa', swb', swn') /\
      relR p (p + cnt) l l' /\ (forall k, 0 <= k -> items' k = code l' (p + k)) /\
      (forall r, 0 <= r < N -> forall k, S r <= k < S (r + 1) -> getRadix R (items' k) shift = r).
  Proof.
    assert (HN : 0 < N <= 2 ^ 16) by (unfold N; split; [apply Z.pow_pos_nonneg; lia|apply Z.pow_le_mono_r; lia]).
    assert (Hmono : forall a b, 0 <= a -> a <= b -> b <= N -> S a <= S b) by (intros; apply (S_mono R S HSstep); assumption).
    assert (Hc0 : 0 <= cnt) by (rewrite <- HSN, <- HS0; apply Hmono; lia).
    (* the hand loop terminates and places every item (perm_loop_spec: counting argument) *)
    assert (HInv : Inv R p cnt shift S l S).
    { split; [|split].
      - intros r Hr. specialize (HSstep r Hr). lia.
      - intros r Hr k Hk. lia.
      - exact HT. }
    assert (HMz : Mz R S S + (radixCount R - 0) + 1 <= Z.of_nat (Datatypes.S (Z.to_nat (cnt + N)))).
    { assert (X : Mz R S S = cnt).
      { unfold Mz. change (radixCount R) with N. rewrite psum_tele. rewrite Z2Nat.id by lia. lia. }
      change (radixCount R) with N. rewrite X. lia. }
    destruct (perm_loop_spec sw Hsw R ltac:(lia) p cnt shift Hp Hshift S E HE HS0 HSN HSstep
                (Datatypes.S (Z.to_nat (cnt + N))) l 0 S ltac:(change (radixCount R) with N; lia) Hl HInv ltac:(intros; lia) HMz) as (l' & Eh & Rl & Fin).
    (* the generated initialisation of beginIndexes *)
    unfold pvRadixSort_cycle. cbv zeta. unfold fuel_of_pvRadixSort_cycle.
    destruct (loop0_spec (Z.to_nat (N - 1)) loop_fuel 1 (upd bi0 0 0)) as (bg & r1 & E0 & Hbg0 & Hbg); try lia.
    { unfold upd. reflexivity. }
    rewrite E0.
    assert (HB : Beq R bg S).
    { intros r Hr. destruct (Z.eq_dec r 0) as [->|]; [rewrite Hbg0, HS0; reflexivity|].
      rewrite Hbg by lia. rewrite HE by lia. f_equal. lia. }
    destruct (outer_refines sw Hsw R HR p cnt shift begin Hp Hshift E ltac:(intros r Hr; rewrite HE by exact Hr; rewrite <- HSN; apply Hmono; lia)
                loop_fuel (Z.to_nat N) (Datatypes.S (Z.to_nat (cnt + N))) loop_fuel l S bg (fun k => code l (p + k)) swa swb swn 0 l')
      as (bg' & it' & r' & a' & b' & n' & E1 & Rel'); try (fold N; lia); auto.
    { intros k Hk. reflexivity. }
    { intros r Hr. rewrite <- HS0. apply Hmono; lia. }
    fold N in E1. rewrite E1. do 6 eexists. split; [reflexivity|]. split; [exact Rl|]. split; [exact Rel'|].
    intros r Hr k Hk. rewrite Rel' by (specialize (Hmono 0 r ltac:(lia) ltac:(lia) ltac:(lia)); lia).
    apply (Fin r Hr k Hk).
  Qed.
End CycleTotal.

(* ---------------- the generated counting pass followed by the generated cycle-leader permutation ---------------- *)
From C17 Require Import Gen_RadixCount Radix_Count_Refine.

Theorem gen_count_then_cycle_total sw (Hsw : forall l i j, sw l i j = swap l i j) R l p cnt shift begin fuel e0 b1 b2 bi0 swa swb swn :
  0 <= R <= 16 -> 0 <= p -> 0 < cnt -> 0 <= shift -> p + cnt <= alen l -> alen l < 2 ^ 62 -> (Z.to_nat (cnt + 2 ^ R) + 2 <= fuel)%nat ->
  exists E sc sr S bi' items' swa' swb' swn' l',
    pvRadixSort_count R (2 ^ R) fuel e0 (fun k => code l (p + k)) b1 b2 begin cnt shift = Ok (tt, E, sc, sr) /\
    pvRadixSort_cycle R (2 ^ R) fuel E bi0 (fun k => code l (p + k)) swa swb swn begin shift = Ok (tt, bi', items', swa', swb', swn') /\
    relR p (p + cnt) l l' /\ (forall k, 0 <= k -> items' k = code l' (p + k)) /\
    S 0 = 0 /\ S (2 ^ R) = cnt /\ (forall r, 0 <= r < 2 ^ R -> S r <= S (r + 1) /\ E r = S (r + 1)) /\
    (forall r, 0 <= r < 2 ^ R -> forall k, S r <= k < S (r + 1) -> getRadix R (items' k) shift = r).
Proof.
  intros HR Hp Hc Hs Hl Hlen Hf.
  assert (HN : 0 < 2 ^ R <= 2 ^ 16) by (split; [apply Z.pow_pos_nonneg; lia|apply Z.pow_le_mono_r; lia]).
  pose proof (gen_count_refines R HR l p cnt shift begin ltac:(lia) Hs (fun k => code l (p + k)) ltac:(intros; reflexivity) fuel e0 b1 b2 ltac:(lia)) as GC.
  destruct (cnt_loop R (Z.to_nat (cnt - 1)) l p shift 1 (code l p) (getRadix R (code l p) shift) _ true true) as [[eh sch] srh].
  destruct GC as (E & EC & _ & HEp).
  set (g := fun r' => cz (fun k => Dg R p shift l k =? r') 0 cnt) in *.
  set (S := fun r => psum g (Z.to_nat r)).
  assert (Hg0 : forall r, 0 <= g r) by (intros; apply cz_nonneg).
  assert (HSsucc : forall r, 0 <= r -> S (r + 1) = S r + g r).
  { intros r Hr. unfold S. replace (Z.to_nat (r + 1)) with (Datatypes.S (Z.to_nat r)) by lia. cbn [psum]. rewrite Z2Nat.id by lia. reflexivity. }
  assert (HS0 : S 0 = 0) by reflexivity.
  assert (HDr : forall k, 0 <= Dg R p shift l k < 2 ^ R) by (intros; unfold Dg; apply getRadix_range; lia).
  assert (HSN : S (2 ^ R) = cnt).
  { unfold S, g. rewrite (psum_cz_digits (Dg R p shift l) 0 cnt (Z.to_nat (2 ^ R))); [lia|lia|]. intros k Hk. rewrite Z2Nat.id by lia. apply HDr. }
  assert (HSstep : forall r, 0 <= r < 2 ^ R -> S r <= S (r + 1)) by (intros r Hr; rewrite HSsucc by lia; specialize (Hg0 r); lia).
  assert (HE : forall r, 0 <= r < 2 ^ R -> E r = S (r + 1)) by (intros r Hr; rewrite HEp by exact Hr; reflexivity).
  destruct (gen_cycle_leader_total sw Hsw R HR p cnt shift begin Hp Hs S E HE HS0 HSN HSstep l Hl Hlen
              ltac:(intros r Hr; rewrite HSsucc by lia; unfold g; lia) fuel Hf bi0 swa swb swn)
    as (bi' & it' & a' & b' & n' & l' & EY & Rl & Rel' & Fin).
  exists E, sch, srh, S, bi', it', a', b', n', l'. split; [exact EC|]. split; [exact EY|]. split; [exact Rl|]. split; [exact Rel'|].
  split; [exact HS0|]. split; [exact HSN|]. split; [intros r Hr; split; [apply HSstep|apply HE]; exact Hr|exact Fin].
Qed.
