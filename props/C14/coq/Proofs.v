(* C14 -- proofs about the pointer-level model (Model.v) and its link to the propagation table. *)
From Coq Require Import ZArith Bool List Lia.
From C14 Require Import PropagationModel Model.
Import ListNotations.
Local Open Scope Z_scope.

(* ================================================================ well-formedness *)
(* every block a container owns was allocated through the container's current manager *)
Definition wf_blocks (m : mgr) (bs : list block) : Prop := Forall (fun b => snd b = m) bs.
Definition cc_wf (c : cc) : Prop :=
  match c with
  | Owned cr body items =>
      wf_blocks (cmgr cr) (cblocks cr) /\ wf_blocks (cmgr cr) body /\ (body = [] -> items = [])   (* no storage, no items *)
  | MovedFrom => True
  end.
Definition arr_wf (a : arr) : Prop := match ablock a with Some b => snd b = amgr a | None => True end.
(* every block id of the container was handed out before (ids below the world's counter) *)
Definition below (w : world) (bs : list block) : Prop := Forall (fun b => fst b < next w) bs.
Definition is_owned (c : cc) : Prop := match c with Owned _ _ _ => True | MovedFrom => False end.

(* ================================================================ traces *)
Definition ev_copy (e : event) : bool := match e with ECopy _ => true | _ => false end.
Definition ev_keycopy (e : event) : bool := match e with EKeyCopy _ => true | _ => false end.
Definition ev_move (e : event) : bool := match e with EMove _ => true | _ => false end.
Definition ev_elem (e : event) : bool :=
  match e with ECopy _ | EKeyCopy _ | EMove _ | EDestroy _ => true | _ => false end.
Definition ev_mem (e : event) : bool := match e with EAlloc _ _ | EDealloc _ _ => true | _ => false end.

(* w' extends w by events that all satisfy P *)
Definition extends (P : event -> bool) (w w' : world) : Prop :=
  exists d, trace w' = d ++ trace w /\ forallb P d = true.

Lemma extends_refl P w : extends P w w.
Proof. exists []. split; reflexivity. Qed.
Lemma extends_trans P w1 w2 w3 : extends P w1 w2 -> extends P w2 w3 -> extends P w1 w3.
Proof.
  intros [d1 [H1 F1]] [d2 [H2 F2]]. exists (d2 ++ d1). split.
  - rewrite H2, H1. apply app_assoc.
  - rewrite forallb_app, F1, F2. reflexivity.
Qed.
Lemma extends_emit P es w : forallb P es = true -> extends P w (emit es w).
Proof.
  intros H. exists (rev es). split; [reflexivity|].
  apply forallb_forall. intros x Hx. apply in_rev in Hx. rewrite forallb_forall in H. auto.
Qed.
Lemma forallb_map_const {A} (P : event -> bool) (f : A -> event) l :
  (forall x, P (f x) = true) -> forallb P (map f l) = true.
Proof. intros H. induction l; simpl; [reflexivity|]. rewrite H, IHl. reflexivity. Qed.

Lemma next_emit es w : next (emit es w) = next w.
Proof. reflexivity. Qed.

(* ================================================================ alloc / dealloc *)
Lemma alloc_n_spec n m w bs w' :
  alloc_n n m w = (bs, w') ->
  wf_blocks m bs /\ next w' = next w + Z.of_nat n /\ length bs = n /\
  Forall (fun b => next w <= fst b < next w') bs /\
  (forall P, (forall a b, P (EAlloc a b) = true) -> extends P w w').
Proof.
  revert w bs w'. induction n as [|n IH]; intros w bs w' H; simpl in H.
  - inversion H; subst. repeat split; try constructor; try lia. intros; apply extends_refl.
  - destruct (alloc_n n m (mkW (next w + 1) (EAlloc m (next w) :: trace w))) as [bs1 w1] eqn:E.
    inversion H; subst; clear H.
    destruct (IH _ _ _ E) as (Hwf & Hn & Hl & Hr & He). simpl in *.
    repeat split.
    + constructor; [reflexivity|assumption].
    + rewrite Hn. lia.
    + simpl. congruence.
    + constructor; [simpl; lia|]. eapply Forall_impl; [|exact Hr]. simpl. intros; lia.
    + intros P HP. eapply extends_trans; [|apply He; assumption].
      exists [EAlloc m (next w)]. split; [reflexivity|]. simpl. rewrite HP. reflexivity.
Qed.

Lemma dealloc_all_ok m bs w :
  wf_blocks m bs ->
  exists w', dealloc_all m bs w = Ok tt w' /\ next w' = next w /\
             (forall P, (forall a b, P (EDealloc a b) = true) -> extends P w w').
Proof.
  revert w. induction bs as [|b r IH]; intros w H; simpl.
  - exists w. repeat split. intros; apply extends_refl.
  - apply Forall_cons_iff in H. destruct H as [Hb Hr]. simpl in Hb.
    unfold dealloc. rewrite Hb, Z.eqb_refl. simpl.
    destruct (IH (mkW (next w) (EDealloc m (fst b) :: trace w)) Hr) as (w' & E & Hn & He).
    exists w'. repeat split; auto.
    intros P HP. eapply extends_trans; [|apply He; assumption].
    exists [EDealloc m (fst b)]. split; [reflexivity|]. simpl. rewrite HP. reflexivity.
Qed.

(* a manager mismatch IS detected by the model (non-vacuity of WrongMgr) *)
Lemma dealloc_wrong_manager m m' id w : m <> m' -> dealloc m (id, m') w = WrongMgr.
Proof. intros H. unfold dealloc. simpl. destruct (Z.eqb_spec m' m); [congruence|reflexivity]. Qed.

(* ================================================================ crew containers: basic operations *)
Lemma cc_destroy_ok k c w :
  cc_wf c ->
  exists w', cc_destroy k c w = Ok tt w' /\ next w' = next w /\
    (forall P, (forall a b, P (EDealloc a b) = true) -> (forall v, P (EDestroy v) = true) -> extends P w w').
Proof.
  intros H. destruct c as [cr body items|]; simpl.
  - destruct H as (Hc & Hb & _).
    destruct (dealloc_all_ok (cmgr cr) body (emit (map EDestroy items) w) Hb) as (w1 & E1 & N1 & X1).
    destruct (dealloc_all_ok (cmgr cr) (cblocks cr) w1 Hc) as (w2 & E2 & N2 & X2).
    rewrite E1. simpl. rewrite E2. exists w2. repeat split; [rewrite N2, N1; reflexivity|].
    intros P HD HE. eapply extends_trans; [|apply X2; assumption].
    eapply extends_trans; [|apply X1; assumption].
    apply extends_emit. apply forallb_map_const. assumption.
  - exists w. repeat split. intros; apply extends_refl.
Qed.

Lemma cc_clear_ok k c w :
  cc_wf c ->
  exists c' w', cc_clear k c w = Ok c' w' /\ next w' = next w /\ items_of c' = [] /\ cc_wf c' /\
    mgr_of c' = mgr_of c /\
    (forall P, (forall a b, P (EDealloc a b) = true) -> (forall v, P (EDestroy v) = true) -> extends P w w').
Proof.
  intros H. destruct c as [cr body items|]; simpl.
  - destruct H as (Hc & Hb & Hi).
    assert (G : exists c' w', (dealloc_all (cmgr cr) body (emit (map EDestroy items) w) >>=
                 fun _ w1 => Ok (Owned cr [] []) w1) = Ok c' w' /\ next w' = next w /\ items_of c' = [] /\
                 cc_wf c' /\ mgr_of c' = Some (cmgr cr) /\
                 (forall P, (forall a b, P (EDealloc a b) = true) -> (forall v, P (EDestroy v) = true) -> extends P w w')).
    { destruct (dealloc_all_ok (cmgr cr) body (emit (map EDestroy items) w) Hb) as (w1 & E1 & N1 & X1).
      rewrite E1. simpl. exists (Owned cr [] []), w1. repeat split; auto; try constructor.
      intros P HD HE. eapply extends_trans; [|apply X1; assumption].
      apply extends_emit. apply forallb_map_const. assumption. }
    assert (G0 : body = [] -> exists c' w', Ok (Owned cr body items) w = Ok c' w' /\ next w' = next w /\
                 items_of c' = [] /\ cc_wf c' /\ mgr_of c' = Some (cmgr cr) /\
                 (forall P, (forall a b, P (EDealloc a b) = true) -> (forall v, P (EDestroy v) = true) -> extends P w w')).
    { intros Eb. exists (Owned cr body items), w. repeat split; auto. simpl. auto. intros; apply extends_refl. }
    destruct k; destruct body as [|b0 body']; try exact G; apply G0; reflexivity.
  - exists MovedFrom, w. repeat split; auto. intros; apply extends_refl.
Qed.

(* ================================================================ generic event classes used below *)
(* P accepts everything a MOVE may do: allocation, deallocation, element moves and destructions -- never a copy *)
Definition move_class (P : event -> bool) : Prop :=
  (forall a b, P (EAlloc a b) = true) /\ (forall a b, P (EDealloc a b) = true) /\
  (forall v, P (EMove v) = true) /\ (forall v, P (EDestroy v) = true).
Definition no_copy (e : event) : bool := negb (ev_copy e) && negb (ev_keycopy e).
Definition no_elem_copy (e : event) : bool := negb (ev_copy e).          (* const keys of multimap pairs may be copied *)
Lemma move_class_no_copy : move_class no_copy.
Proof. repeat split. Qed.
Lemma move_class_no_elem_copy : move_class no_elem_copy.
Proof. repeat split. Qed.

Lemma shape_zero k n : shape k n = O -> n = O.
Proof. destruct n; [reflexivity|]. destruct k; simpl; intros H; try discriminate. Qed.

(* ================================================================ crew containers: copy *)
Lemma cc_copy_ctor_mm_spec k cr body items m w :
  exists cb bb w',
    cc_copy_ctor_mm k (Owned cr body items) m w = Ok (Owned (mkCrew cb m) bb items) w' /\
    cc_wf (Owned (mkCrew cb m) bb items) /\
    Forall (fun b => next w <= fst b < next w') (cb ++ bb) /\ next w <= next w' /\
    (forall P, (forall a b, P (EAlloc a b) = true) -> (forall v, P (ECopy v) = true) -> extends P w w').
Proof.
  unfold cc_copy_ctor_mm.
  destruct (alloc_n (crew_n k) m w) as [cb w1] eqn:E1.
  destruct (alloc_n (shape k (length items)) m w1) as [bb w2] eqn:E2.
  destruct (alloc_n_spec _ _ _ _ _ E1) as (W1 & N1 & L1 & R1 & X1).
  destruct (alloc_n_spec _ _ _ _ _ E2) as (W2 & N2 & L2 & R2 & X2).
  exists cb, bb, (emit (map ECopy items) w2). repeat split; simpl; auto.
  - intros Hb. subst bb. simpl in L2. symmetry in L2. apply shape_zero in L2.
    destruct items; [reflexivity|discriminate].
  - apply Forall_app. split.
    + eapply Forall_impl; [|exact R1]. simpl. intros; lia.
    + eapply Forall_impl; [|exact R2]. simpl. intros; lia.
  - lia.
  - intros P HA HC. eapply extends_trans; [apply X1; assumption|].
    eapply extends_trans; [apply X2; assumption|].
    apply extends_emit. apply forallb_map_const. assumption.
Qed.

(* ================================================================ crew containers: move assignment *)
Lemma cc_move_assign_spec k dst src w :
  cc_wf dst ->
  exists w', cc_move_assign k dst src w = Ok (src, MovedFrom) w' /\ next w' = next w /\
    (forall P, (forall a b, P (EDealloc a b) = true) -> (forall v, P (EDestroy v) = true) -> extends P w w').
Proof.
  intros H. unfold cc_move_assign, cc_move_ctor, cc_swap.
  destruct (cc_destroy_ok k dst w H) as (w' & E & N & X). rewrite E. simpl. exists w'. auto.
Qed.

(* X x; ...; x = std::move(x) leaves x exactly as it was, in every state, without any event *)
Theorem self_move_assign_identity k c w : cc_self_move_assign k c w = Ok c w.
Proof. reflexivity. Qed.
Theorem self_copy_assign_identity k c w : cc_self_copy_assign k c w = Ok c w.
Proof. reflexivity. Qed.

(* ================================================================ usable: insertion works and allocates through the
   container's own manager *)
Definition allocs_through (m : mgr) (e : event) : bool :=
  match e with EAlloc a _ => Z.eqb a m | _ => false end.

Lemma alloc_n_through n m w bs w' : alloc_n n m w = (bs, w') -> extends (allocs_through m) w w'.
Proof.
  revert w bs w'. induction n as [|n IH]; intros w bs w' H; simpl in H.
  - inversion H; subst. apply extends_refl.
  - destruct (alloc_n n m (mkW (next w + 1) (EAlloc m (next w) :: trace w))) as [bs1 w1] eqn:E.
    inversion H; subst. eapply extends_trans; [|eapply IH; eauto].
    exists [EAlloc m (next w)]. split; [reflexivity|]. simpl. rewrite Z.eqb_refl. reflexivity.
Qed.

Lemma cc_insert_ok k multi cr body items v w :
  cc_wf (Owned cr body items) ->
  exists c' w', cc_insert k multi (Owned cr body items) v w = Ok c' w' /\ cc_wf c' /\ is_owned c' /\
    mgr_of c' = Some (cmgr cr) /\ extends (allocs_through (cmgr cr)) w w' /\
    (items_of c' = items \/ items_of c' = items ++ [v]).
Proof.
  intros (Hc & Hb & Hi). unfold cc_insert.
  destruct (negb multi && existsb (Z.eqb v) items).
  - exists (Owned cr body items), w. repeat split; auto. apply extends_refl.
  - destruct body as [|b0 body'].
    + destruct (alloc_n (shape k 1) (cmgr cr) w) as [nb w1] eqn:E.
      destruct (alloc_n_spec _ _ _ _ _ E) as (W1 & N1 & L1 & R1 & X1).
      exists (Owned cr nb (items ++ [v])), w1. repeat split; simpl; auto.
      * intros Hn. subst nb. simpl in L1. destruct k; discriminate.
      * eapply alloc_n_through; eauto.
    + exists (Owned cr (b0 :: body') (items ++ [v])), w. repeat split; simpl; auto.
      * intros; discriminate.
      * apply extends_refl.
Qed.

(* ================================================================ moved_from_ops_total, native containers
   (HashSet/HashMap, TreeSet/TreeMap as of fix a0dc6a6, HashMultiMap): no hypotheses needed *)
Theorem moved_from_ops_total_native :
  forall k w,
    cc_destroy k MovedFrom w = Ok tt w /\
    cc_clear k MovedFrom w = Ok MovedFrom w /\
    (forall c, cc_swap MovedFrom c = (c, MovedFrom) /\ cc_swap c MovedFrom = (MovedFrom, c)) /\
    cc_self_move_assign k MovedFrom w = Ok MovedFrom w /\
    (forall src, cc_move_assign k MovedFrom src w = Ok (src, MovedFrom) w) /\
    (forall src, is_owned src -> cc_wf src ->
       exists c' w', cc_copy_assign k MovedFrom src w = Ok c' w' /\ is_owned c' /\ cc_wf c' /\
                     items_of c' = items_of src /\ mgr_of c' = mgr_of src /\
                     (* ... and the assigned container is fully usable again *)
                     forall multi v w2, exists c2 w3, cc_insert k multi c' v w2 = Ok c2 w3 /\ is_owned c2 /\ mgr_of c2 = mgr_of src).
Proof.
  intros k w. repeat split; try reflexivity.
  intros src Ho Hw. destruct src as [cr body items|]; [|contradiction].
  unfold cc_copy_assign, cc_copy_ctor.
  destruct (cc_copy_ctor_mm_spec k cr body items (cmgr cr) w) as (cb & bb & w' & E & Hwf & _).
  rewrite E. simpl. exists (Owned (mkCrew cb (cmgr cr)) bb items), w'. repeat split; auto; try apply Hwf.
  intros multi v w2.
  destruct (cc_insert_ok k multi (mkCrew cb (cmgr cr)) bb items v w2 Hwf) as (c2 & w3 & E2 & _ & Ho2 & Hm2 & _).
  exists c2, w3. auto.
Qed.

(* ================================================================ stdish wrappers *)
Lemma alloc_eq_refl tr a : alloc_eq tr a a = true.
Proof. unfold alloc_eq. rewrite Z.eqb_refl. apply orb_true_r. Qed.

(* element-wise transfer into a fresh container with the target's allocator *)
Lemma cc_merge_from_spec k dcr scr sbody sitems w :
  cc_wf (Owned dcr [] []) -> cc_wf (Owned scr sbody sitems) ->
  exists n s' w', cc_merge_from k (Owned dcr [] []) (Owned scr sbody sitems) w = Ok (n, s') w' /\
    is_owned n /\ mgr_of n = Some (cmgr dcr) /\ items_of n = sitems /\ cc_wf n /\
    mgr_of s' = Some (cmgr scr) /\ items_of s' = [] /\ cc_wf s' /\ is_owned s' /\
    (forall P, move_class P -> extends P w w') /\
    (sitems <> [] -> exists d, trace w' = d ++ trace w /\ existsb ev_move d = true).
Proof.
  intros (Dc & _ & _) (Sc & Sb & Si). unfold cc_merge_from.
  destruct (alloc_n (shape k (length sitems)) (cmgr dcr) w) as [nb w1] eqn:E.
  destruct (alloc_n_spec _ _ _ _ _ E) as (W1 & N1 & L1 & R1 & X1).
  exists (Owned dcr ([] ++ nb) ([] ++ sitems)), (Owned scr sbody []),
         (emit (map EMove sitems ++ map EDestroy sitems) w1).
  repeat split; simpl; auto.
  - intros Hn. subst nb. simpl in L1. symmetry in L1. apply shape_zero in L1. destruct sitems; [reflexivity|discriminate].
  - intros P (PA & PD & PM & PX). eapply extends_trans; [apply X1; assumption|].
    apply extends_emit. rewrite forallb_app. rewrite !forallb_map_const; auto.
  - intros Hne. destruct (X1 (fun _ => true) (fun _ _ => eq_refl)) as (d1 & T1 & _).
    exists (rev (map EMove sitems ++ map EDestroy sitems) ++ d1). split.
    + simpl. rewrite T1. apply app_assoc.
    + rewrite existsb_app. apply orb_true_iff. left.
      destruct sitems as [|i0 r]; [congruence|].
      apply existsb_exists. exists (EMove i0). split; [|reflexivity].
      apply -> in_rev. simpl. left. reflexivity.
Qed.

Lemma cc_merge_multi_spec dcr scr sbody sitems w :
  cc_wf (Owned dcr [] []) -> cc_wf (Owned scr sbody sitems) ->
  exists n s' w', cc_merge_multi (Owned dcr [] []) (Owned scr sbody sitems) w = Ok (n, s') w' /\
    is_owned n /\ mgr_of n = Some (cmgr dcr) /\ items_of n = sitems /\ cc_wf n /\
    mgr_of s' = Some (cmgr scr) /\ items_of s' = [] /\ cc_wf s' /\
    (forall P, move_class P -> (forall v, P (EKeyCopy v) = true) -> extends P w w').
Proof.
  intros (Dc & _ & _) Sw. unfold cc_merge_multi.
  destruct (alloc_n (shape KMulti (length sitems)) (cmgr dcr) w) as [nb w1] eqn:E.
  destruct (alloc_n_spec _ _ _ _ _ E) as (W1 & N1 & L1 & R1 & X1).
  destruct (cc_clear_ok KMulti (Owned scr sbody sitems) (emit (map EKeyCopy sitems ++ map EMove sitems) w1) Sw)
    as (s1 & w2 & EC & NC & IC & WC & MC & XC).
  rewrite EC. simpl.
  exists (Owned dcr ([] ++ nb) ([] ++ sitems)), s1, w2. repeat split; simpl; auto.
  - intros Hn. subst nb. simpl in L1. symmetry in L1. apply shape_zero in L1. destruct sitems; [reflexivity|discriminate].
  - intros P (PA & PD & PM & PX) PK. eapply extends_trans; [apply X1; assumption|].
    eapply extends_trans; [|apply XC; assumption].
    apply extends_emit. rewrite forallb_app. rewrite !forallb_map_const; auto.
Qed.

Definition keycopy_ok (wk : wkind) (P : event -> bool) : Prop :=
  match wk with WUMulti => forall v, P (EKeyCopy v) = true | _ => True end.

(* pvCreateMap / pvCreateSet / pvCreateMultiMap = X(X&&, alloc) *)
Lemma w_create_spec wk tr scr sbody sitems al w :
  cc_wf (Owned scr sbody sitems) ->
  exists n s' w', w_create wk tr (Owned scr sbody sitems) al w = Ok (n, s') w' /\
    is_owned n /\ cc_wf n /\ cc_wf s' /\ items_of n = sitems /\ items_of s' = [] /\
    (w_steal tr (cmgr scr) al = true -> n = Owned scr sbody sitems /\ s' = MovedFrom /\ w' = w) /\
    (w_steal tr (cmgr scr) al = false -> mgr_of n = Some al /\ mgr_of s' = Some (cmgr scr)) /\
    (forall P, move_class P -> keycopy_ok wk P -> extends P w w').
Proof.
  intros Sw. unfold w_create. simpl.
  destruct (w_steal tr (cmgr scr) al) eqn:St.
  - exists (Owned scr sbody sitems), MovedFrom, w. unfold cc_move_ctor.
    split; [reflexivity|]. split; [exact I|]. split; [exact Sw|]. split; [exact I|].
    split; [reflexivity|]. split; [reflexivity|]. split; [intros _; auto|]. split; [discriminate|].
    intros; apply extends_refl.
  - unfold cc_new.
    destruct (alloc_n (crew_n (nested wk)) al w) as [cb w1] eqn:E.
    destruct (alloc_n_spec _ _ _ _ _ E) as (W1 & N1 & L1 & R1 & X1). cbn [bind].
    assert (Dw : cc_wf (Owned (mkCrew cb al) [] [])) by (repeat split; simpl; auto; constructor).
    destruct wk; cbv beta iota.
    1-4: match goal with |- context [cc_merge_from ?k _ _ _] =>
           destruct (cc_merge_from_spec k (mkCrew cb al) scr sbody sitems w1 Dw Sw)
             as (n & s' & w' & EM & On & Mn & In & Wn & Ms & Is & Ws & _ & XM & _) end;
         (rewrite EM; exists n, s', w'; repeat split; auto; try discriminate;
          intros P PC _; eapply extends_trans; [apply X1; apply PC | apply XM; assumption]).
    destruct (cc_merge_multi_spec (mkCrew cb al) scr sbody sitems w1 Dw Sw)
      as (n & s' & w' & EM & On & Mn & In & Wn & Ms & Is & Ws & XM).
    rewrite EM. exists n, s', w'. repeat split; auto; try discriminate.
    intros P PC PK; eapply extends_trans; [apply X1; apply PC | apply XM; assumption].
Qed.

(* operator=(X&&) on two live wrappers: the container-level outcome equals the propagation table *)
Theorem w_move_assign_spec wk tr dcr dbody ditems scr sbody sitems w :
  cc_wf (Owned dcr dbody ditems) -> cc_wf (Owned scr sbody sitems) ->
  exists d s' w', w_move_assign wk tr (Owned dcr dbody ditems) (Owned scr sbody sitems) w = Ok (d, s') w' /\
    is_owned d /\ cc_wf d /\ cc_wf s' /\
    items_of d = sitems /\ items_of s' = [] /\
    (is_empty tr = false -> mgr_of d = Some (code_target_alloc tr OpMoveAssign (cmgr scr) (cmgr dcr))) /\
    (code_elementwise tr OpMoveAssign (cmgr scr) (cmgr dcr) = false -> d = Owned scr sbody sitems /\ s' = MovedFrom) /\
    (code_elementwise tr OpMoveAssign (cmgr scr) (cmgr dcr) = true -> mgr_of s' = Some (cmgr scr)) /\
    (forall P, move_class P -> keycopy_ok wk P -> extends P w w').
Proof.
  intros Dw Sw. unfold w_move_assign.
  set (al := if w_propagate_move tr then cmgr scr else cmgr dcr).
  assert (EA : w_get_allocator (if w_propagate_move tr then Owned scr sbody sitems else Owned dcr dbody ditems) w = Ok al w).
  { unfold al. destruct (w_propagate_move tr); reflexivity. }
  rewrite EA. simpl.
  destruct (w_create_spec wk tr scr sbody sitems al w Sw) as (n & s' & w1 & EC & On & Wn & Ws & In & Is & Hst & Hew & XC).
  rewrite EC. simpl.
  destruct (cc_move_assign_spec (nested wk) (Owned dcr dbody ditems) n w1 Dw) as (w2 & EM & NM & XM).
  rewrite EM. simpl. exists n, s', w2. repeat split; auto.
  - intros He. unfold code_target_alloc. fold al.
    destruct (w_steal tr (cmgr scr) al) eqn:St.
    + destruct (Hst eq_refl) as (-> & _ & _). reflexivity.
    + destruct (Hew eq_refl) as (-> & _). reflexivity.
  - unfold code_elementwise in H. fold al in H. apply negb_false_iff in H. apply Hst in H. apply H.
  - unfold code_elementwise in H. fold al in H. apply negb_false_iff in H. apply Hst in H. apply H.
  - intros H. unfold code_elementwise in H. fold al in H. apply negb_true_iff in H. apply Hew in H. apply H.
  - intros P PC PK. eapply extends_trans; [apply XC; assumption|].
    destruct PC as (PA & PD & PM & PX). apply XM; assumption.
Qed.

(* operator=(const X&) on two live wrappers *)
Theorem w_copy_assign_spec wk tr dcr dbody ditems scr sbody sitems w :
  cc_wf (Owned dcr dbody ditems) -> cc_wf (Owned scr sbody sitems) ->
  exists d w', w_copy_assign wk tr (Owned dcr dbody ditems) (Owned scr sbody sitems) w = Ok d w' /\
    is_owned d /\ cc_wf d /\ items_of d = sitems /\
    (is_empty tr = false -> mgr_of d = Some (code_target_alloc tr OpCopyAssign (cmgr scr) (cmgr dcr))) /\
    Forall (fun b => next w <= fst b) (blocks_of d).
Proof.
  intros Dw Sw. unfold w_copy_assign.
  set (al := if w_propagate_copy tr then cmgr scr else cmgr dcr).
  assert (EA : w_get_allocator (if w_propagate_copy tr then Owned scr sbody sitems else Owned dcr dbody ditems) w = Ok al w).
  { unfold al. destruct (w_propagate_copy tr); reflexivity. }
  rewrite EA. cbn [bind].
  destruct (cc_copy_ctor_mm_spec (nested wk) scr sbody sitems al w) as (cb & bb & w1 & EC & Wn & Rn & _).
  rewrite EC. cbn [bind].
  destruct (cc_move_assign_spec (nested wk) (Owned dcr dbody ditems) (Owned (mkCrew cb al) bb sitems) w1 Dw) as (w2 & EM & _).
  rewrite EM. cbn [bind]. exists (Owned (mkCrew cb al) bb sitems), w2. repeat split; auto; try apply Wn.
  simpl. eapply Forall_impl; [|exact Rn]. simpl. intros; lia.
Qed.

(* swap of two live wrappers whose allocators satisfy the std precondition: exact exchange, no event at all *)
Theorem w_swap_exact tr a b w x y :
  mgr_of a = Some x -> mgr_of b = Some y -> w_swap_assert_holds tr x y = true ->
  w_swap tr a b w = Ok (b, a) w.
Proof.
  intros Ha Hb Hs. unfold w_swap, w_swap_evaluates_allocators, w_swap_assert_holds in *.
  destruct (pocs tr); simpl in *; [reflexivity|].
  destruct a as [ca ? ?|]; [|discriminate]. destruct b as [cb ? ?|]; [|discriminate].
  simpl in *. inversion Ha; inversion Hb; subst. rewrite Hs. reflexivity.
Qed.

(* ---------------------------------------------------------------- moved-from wrappers: the full-strength statement
   with the two known findings as named hypotheses *)
Definition not_D12 (tr : traits) : Prop := pocs tr = true.
    (* D12 (key stdish-swap-moved-from-assert): swap's assertion evaluates get_allocator() unless POCS *)
Definition not_D13 (tr : traits) : Prop := w_propagate_move tr = true /\ w_propagate_copy tr = true.
    (* D13 (key stdish-move-assign-into-moved-from-nonpropagating): operator= needs this->get_allocator() unless the
       allocator propagates (or is an empty type) *)

Theorem moved_from_ops_total_stdish :
  forall wk tr w fcr fbody fitems,
    cc_wf (Owned fcr fbody fitems) -> not_D12 tr -> not_D13 tr ->
    let f := Owned fcr fbody fitems in
    cc_destroy (nested wk) MovedFrom w = Ok tt w /\
    cc_clear (nested wk) MovedFrom w = Ok MovedFrom w /\
    w_swap tr MovedFrom f w = Ok (f, MovedFrom) w /\
    w_swap tr f MovedFrom w = Ok (MovedFrom, f) w /\
    w_swap tr MovedFrom MovedFrom w = Ok (MovedFrom, MovedFrom) w /\
    w_move_assign wk tr MovedFrom f w = Ok (f, MovedFrom) w /\
    (exists c' w', w_copy_assign wk tr MovedFrom f w = Ok c' w' /\ is_owned c' /\ cc_wf c' /\
                   items_of c' = fitems /\ mgr_of c' = Some (cmgr fcr) /\
                   forall multi v w2, exists c2 w3, cc_insert (nested wk) multi c' v w2 = Ok c2 w3 /\ is_owned c2).
Proof.
  intros wk tr w fcr fbody fitems Fw D12 (D13m & D13c) f. unfold not_D12 in D12.
  repeat split; try reflexivity.
  - unfold w_swap, w_swap_evaluates_allocators. rewrite D12. reflexivity.
  - unfold w_swap, w_swap_evaluates_allocators. rewrite D12. reflexivity.
  - unfold w_swap, w_swap_evaluates_allocators. rewrite D12. reflexivity.
  - unfold w_move_assign. rewrite D13m. unfold f. simpl.
    unfold w_create. simpl. unfold w_steal. rewrite alloc_eq_refl. simpl. reflexivity.
  - unfold w_copy_assign. rewrite D13c. unfold f. cbn [w_get_allocator bind].
    destruct (cc_copy_ctor_mm_spec (nested wk) fcr fbody fitems (cmgr fcr) w) as (cb & bb & w1 & EC & Wn & _).
    rewrite EC. cbn [bind]. unfold cc_move_assign, cc_move_ctor, cc_swap, cc_destroy. cbn [bind]. exists (Owned (mkCrew cb (cmgr fcr)) bb fitems), w1. repeat split; auto; try apply Wn.
    intros multi v w2.
    destruct (cc_insert_ok (nested wk) multi (mkCrew cb (cmgr fcr)) bb fitems v w2 Wn) as (c2 & w3 & E2 & _ & Ho2 & _).
    exists c2, w3. auto.
Qed.

(* ... and the excluded situations really fail, for EVERY allocator type outside the hypotheses *)
Theorem D12_refuted :
  forall tr c w, pocs tr = false ->
    w_swap tr MovedFrom c w = NullCrew /\ (is_owned c -> w_swap tr c MovedFrom w = NullCrew).
Proof.
  intros tr c w H. unfold w_swap, w_swap_evaluates_allocators. rewrite H. simpl. split; [reflexivity|].
  destruct c; [reflexivity|contradiction].
Qed.
Theorem D13_refuted :
  forall wk tr c w,
    (w_propagate_move tr = false -> w_move_assign wk tr MovedFrom c w = NullCrew) /\
    (w_propagate_copy tr = false -> w_copy_assign wk tr MovedFrom c w = NullCrew).
Proof.
  intros wk tr c w. split; intros H.
  - unfold w_move_assign. rewrite H. reflexivity.
  - unfold w_copy_assign. rewrite H. reflexivity.
Qed.
(* concrete witnesses (vm_compute): std::allocator-like and kit::StdAlloc<.,false,false,false> *)
Definition w0 : world := mkW 0 [].
Definition some_set : cc := Owned (mkCrew [(0, 7)] 7) [(1, 7)] [10; 20].
Example D12_witness_std_allocator :
  w_swap (mkTraits false true false true true) MovedFrom some_set w0 = NullCrew.
Proof. vm_compute. reflexivity. Qed.
Example D13_witness_stateful_nonpropagating :
  w_move_assign WUMap (mkTraits false false false true false) MovedFrom some_set w0 = NullCrew.
Proof. vm_compute. reflexivity. Qed.
Example not_D12_D13_witness :     (* the hypotheses are satisfiable: a fully propagating stateful allocator *)
  not_D12 (mkTraits true true true true false) /\ not_D13 (mkTraits true true true true false) /\ cc_wf some_set.
Proof. repeat split; repeat constructor. intros; discriminate. Qed.

(* ================================================================ copies are independent (crew containers) *)
Definition dealloc_within (ids : list Z) (e : event) : bool :=
  match e with EDealloc _ b => existsb (Z.eqb b) ids | EDestroy _ => true | _ => false end.

Lemma dealloc_all_within m bs w ids :
  wf_blocks m bs -> incl (map fst bs) ids ->
  exists w', dealloc_all m bs w = Ok tt w' /\ extends (dealloc_within ids) w w'.
Proof.
  revert w. induction bs as [|b r IH]; intros w H Hin; simpl.
  - exists w. split; [reflexivity|apply extends_refl].
  - apply Forall_cons_iff in H. destruct H as [Hb Hr]. simpl in Hb.
    unfold dealloc. rewrite Hb, Z.eqb_refl. simpl.
    destruct (IH (mkW (next w) (EDealloc m (fst b) :: trace w)) Hr) as (w' & E & X).
    { intros x Hx. apply Hin. right. exact Hx. }
    exists w'. split; [assumption|]. eapply extends_trans; [|exact X].
    exists [EDealloc m (fst b)]. split; [reflexivity|]. simpl.
    assert (In (fst b) ids) by (apply Hin; left; reflexivity).
    replace (existsb (Z.eqb (fst b)) ids) with true; [reflexivity|].
    symmetry. apply existsb_exists. exists (fst b). split; [assumption|apply Z.eqb_refl].
Qed.

(* destroying a container deallocates only its own blocks *)
Lemma cc_destroy_within k c w :
  cc_wf c -> exists w', cc_destroy k c w = Ok tt w' /\ extends (dealloc_within (map fst (blocks_of c))) w w'.
Proof.
  intros H. destruct c as [cr body items|]; simpl.
  - destruct H as (Hc & Hb & _).
    destruct (dealloc_all_within (cmgr cr) body (emit (map EDestroy items) w) (map fst (cblocks cr ++ body)) Hb) as (w1 & E1 & X1).
    { rewrite map_app. apply incl_appr. apply incl_refl. }
    destruct (dealloc_all_within (cmgr cr) (cblocks cr) w1 (map fst (cblocks cr ++ body)) Hc) as (w2 & E2 & X2).
    { rewrite map_app. apply incl_appl. apply incl_refl. }
    rewrite E1. simpl. rewrite E2. exists w2. split; [reflexivity|].
    eapply extends_trans; [|exact X2]. eapply extends_trans; [|exact X1].
    apply extends_emit. apply forallb_map_const. reflexivity.
  - exists w. split; [reflexivity|apply extends_refl].
Qed.

Theorem copy_independent k cr body items m w :
  below w (blocks_of (Owned cr body items)) ->
  exists c' w', cc_copy_ctor_mm k (Owned cr body items) m w = Ok c' w' /\
    items_of c' = items /\ mgr_of c' = Some m /\ is_owned c' /\ cc_wf c' /\
    (* no block is reachable from both *)
    (forall b b0, In b (blocks_of c') -> In b0 (blocks_of (Owned cr body items)) -> fst b <> fst b0) /\
    (* hence destroying the copy frees none of the source's blocks *)
    (forall w2, exists w3, cc_destroy k c' w2 = Ok tt w3 /\
       exists d, trace w3 = d ++ trace w2 /\
         forall mg id, In (EDealloc mg id) d -> ~ In id (map fst (blocks_of (Owned cr body items)))).
Proof.
  intros Hbelow.
  destruct (cc_copy_ctor_mm_spec k cr body items m w) as (cb & bb & w' & E & Wn & Rn & _).
  exists (Owned (mkCrew cb m) bb items), w'. split; [exact E|]. repeat split; auto; try apply Wn.
  - intros b b0 Hb Hb0 Heq. simpl in Hb.
    unfold below in Hbelow. rewrite Forall_forall in Hbelow, Rn.
    specialize (Rn b Hb). specialize (Hbelow b0 Hb0). simpl in *. lia.
  - intros w2. destruct (cc_destroy_within k (Owned (mkCrew cb m) bb items) w2 Wn) as (w3 & E3 & d & T & F).
    exists w3. split; [assumption|]. exists d. split; [assumption|].
    intros mg id Hin Hsrc. rewrite forallb_forall in F. specialize (F _ Hin). simpl in F.
    apply existsb_exists in F. destruct F as (x & Hx & Hxe). apply Z.eqb_eq in Hxe. subst x.
    apply in_map_iff in Hx. destruct Hx as (b & Hfb & Hb).
    apply in_map_iff in Hsrc. destruct Hsrc as (b0 & Hfb0 & Hb0).
    unfold below in Hbelow. rewrite Forall_forall in Hbelow, Rn.
    specialize (Rn b Hb). specialize (Hbelow b0 Hb0). simpl in *. lia.
Qed.

(* ================================================================ Array / stdish::vector *)
Definition assign_takes_source (assign : mgr -> mgr -> mgr * mgr) : Prop := forall s d, snd (assign s d) = s.
Lemma native_assign_takes_source : assign_takes_source (native_proxy_assign false).
Proof. intros s d. reflexivity. Qed.
Lemma proxy_assign_takes_source tr : is_empty tr = false -> assign_takes_source (proxy_assign tr false).
Proof. intros H s d. apply proxy_assign_dst. assumption. Qed.

Lemma arr_destroy_ok a w :
  arr_wf a -> exists w', arr_destroy a w = Ok tt w' /\ next w' = next w /\
    (forall P, (forall x y, P (EDealloc x y) = true) -> (forall v, P (EDestroy v) = true) -> extends P w w').
Proof.
  intros H. unfold arr_destroy. unfold arr_wf in H. destruct (ablock a) as [b|].
  - unfold dealloc. rewrite H, Z.eqb_refl. eexists. split; [reflexivity|]. split; [reflexivity|].
    intros P PD PX. apply extends_trans with (w2 := emit (map EDestroy (aitems a)) w).
    + apply extends_emit. apply forallb_map_const. assumption.
    + exists [EDealloc (amgr a) (fst b)]. split; [reflexivity|]. simpl. rewrite PD. reflexivity.
  - eexists. split; [reflexivity|]. split; [reflexivity|].
    intros P PD PX. apply extends_emit. apply forallb_map_const. assumption.
Qed.

Lemma arr_take_spec m src w :
  exists d s' w', arr_take m src w = (d, s', w') /\ amgr d = m /\ aitems d = aitems src /\ ablock d = ablock src /\
    s' = mkArr (amgr src) None [] /\ next w' = next w /\ (forall P, move_class P -> extends P w w').
Proof.
  unfold arr_take. destruct (ablock src) as [b|].
  - do 3 eexists. repeat split. intros; apply extends_refl.
  - do 3 eexists. repeat split. intros P (PA & PD & PM & PX). apply extends_emit.
    rewrite forallb_app, !forallb_map_const; auto.
Qed.

(* Array::operator=(Array&&) / Data::operator=(Data&&): the old storage is released through the OLD manager, the
   manager travels with the storage *)
Theorem arr_move_assign_spec assign dst src w :
  assign_takes_source assign -> arr_wf dst -> arr_wf src ->
  exists d s' w', arr_move_assign assign dst src w = Ok (d, s') w' /\
    amgr d = amgr src /\ aitems d = aitems src /\ ablock d = ablock src /\ arr_wf d /\
    aitems s' = [] /\ ablock s' = None /\ arr_wf s' /\
    (forall P, move_class P -> extends P w w').
Proof.
  intros HA Dw Sw. unfold arr_move_assign.
  destruct (arr_destroy_ok dst w Dw) as (w1 & E1 & N1 & X1). rewrite E1. cbn [bind].
  destruct (assign (amgr src) (amgr dst)) as [s' d'] eqn:EA.
  assert (Hd : d' = amgr src) by (specialize (HA (amgr src) (amgr dst)); rewrite EA in HA; exact HA).
  destruct (arr_take_spec d' (mkArr s' (ablock src) (aitems src)) w1) as (d & s1 & w2 & ET & Md & Id & Bd & Es & N2 & X2).
  rewrite ET. exists d, s1, w2. simpl in *. repeat split; auto.
  - congruence.
  - unfold arr_wf. rewrite Bd, Md, Hd. exact Sw.
  - subst s1. reflexivity.
  - subst s1. reflexivity.
  - subst s1. exact I.
  - intros P PC. eapply extends_trans; [|apply X2; assumption].
    destruct PC as (PA & PD & PM & PX). apply X1; assumption.
Qed.

(* Array(Array&&): storage and manager identity move, the source is left empty (and is immediately reusable) *)
Theorem arr_move_ctor_spec src w :
  arr_wf src ->
  exists d s' w', arr_move_ctor src w = (d, s', w') /\ amgr d = amgr src /\ aitems d = aitems src /\
    ablock d = ablock src /\ arr_wf d /\ aitems s' = [] /\ ablock s' = None /\ arr_wf s' /\ amgr s' = amgr src /\
    (forall P, move_class P -> extends P w w').
Proof.
  intros Sw. unfold arr_move_ctor.
  destruct (arr_take_spec (amgr src) src w) as (d & s1 & w2 & ET & Md & Id & Bd & Es & N2 & X2).
  exists d, s1, w2. subst s1. repeat split; auto. unfold arr_wf. rewrite Bd, Md. exact Sw.
Qed.

(* Array::Swap / std::swap(mData, ...): contents, storage and managers exchanged exactly; no copy *)
Theorem arr_swap_exact assign a b w :
  assign_takes_source assign -> arr_wf a -> arr_wf b ->
  exists a' b' w', arr_swap assign a b w = Ok (a', b') w' /\
    amgr a' = amgr b /\ aitems a' = aitems b /\ ablock a' = ablock b /\
    amgr b' = amgr a /\ aitems b' = aitems a /\ ablock b' = ablock a /\ arr_wf a' /\ arr_wf b' /\
    (forall P, move_class P -> extends P w w').
Proof.
  intros HA Aw Bw. unfold arr_swap.
  destruct (arr_move_ctor_spec a w Aw) as (tmp & a1 & w1 & E1 & Mt & It & Bt & Wt & Ia1 & Ba1 & Wa1 & _ & X1).
  rewrite E1.
  destruct (arr_move_assign_spec assign a1 b w1 HA Wa1 Bw) as (a2 & b1 & w2 & E2 & Ma2 & Ia2 & Ba2 & Wa2 & Ib1 & Bb1 & Wb1 & X2).
  rewrite E2. cbn [bind].
  destruct (arr_move_assign_spec assign b1 tmp w2 HA Wb1 Wt) as (b2 & tmp1 & w3 & E3 & Mb2 & Ib2 & Bb2 & Wb2 & It1 & Bt1 & Wt1 & X3).
  rewrite E3. cbn [bind].
  destruct (arr_destroy_ok tmp1 w3 Wt1) as (w4 & E4 & N4 & X4). rewrite E4. cbn [bind].
  exists a2, b2, w4. repeat split; auto; try congruence.
  intros P PC. eapply extends_trans; [apply X1; assumption|].
  eapply extends_trans; [apply X2; assumption|]. eapply extends_trans; [apply X3; assumption|].
  destruct PC as (PA & PD & PM & PX). apply X4; assumption.
Qed.

(* pvCreateArray / vector(vector&&, alloc) *)
Lemma v_create_spec tr ic right al w :
  arr_wf right ->
  exists n r' w', v_create tr ic right al w = (n, r', w') /\
    aitems n = aitems right /\ aitems r' = [] /\ arr_wf n /\ arr_wf r' /\
    (w_steal tr (amgr right) al = true -> amgr n = amgr right /\ ablock n = ablock right /\ ablock r' = None) /\
    (w_steal tr (amgr right) al = false -> amgr n = al /\ amgr r' = amgr right) /\
    (forall P, move_class P -> extends P w w').
Proof.
  intros Rw. unfold v_create. destruct (w_steal tr (amgr right) al) eqn:St.
  - destruct (arr_move_ctor_spec right w Rw) as (d & s1 & w2 & E & Md & Id & Bd & Wd & Is & Bs & Ws & Ms & X).
    exists d, s1, w2. repeat split; auto; discriminate.
  - destruct (Nat.leb (length (aitems right)) ic).
    + do 3 eexists. split; [reflexivity|]. simpl. repeat split; auto; try discriminate.
      intros P (PA & PD & PM & PX).
      apply extends_trans with (w2 := emit (map EMove (aitems right)) w).
      * apply extends_emit. apply forallb_map_const. exact PM.
      * apply extends_emit. apply forallb_map_const. exact PX.
    + do 3 eexists. split; [reflexivity|]. simpl. repeat split; auto; try discriminate.
      intros P (PA & PD & PM & PX).
      apply extends_trans with (w2 := emit (map EMove (aitems right)) w).
      * apply extends_emit. apply forallb_map_const. exact PM.
      * apply extends_trans with (w2 := snd (alloc al (emit (map EMove (aitems right)) w))).
        -- eexists [_]. split; [reflexivity|]. simpl. rewrite PA. reflexivity.
        -- apply extends_emit. apply forallb_map_const. exact PX.
Qed.

(* vector::operator=(vector&&): outcome equals the propagation table; nothing is copied *)
Theorem v_move_assign_spec tr ic dst src w :
  is_empty tr = false -> arr_wf dst -> arr_wf src ->
  exists d s' w', v_move_assign tr ic dst src w = Ok (d, s') w' /\
    amgr d = code_target_alloc tr OpMoveAssign (amgr src) (amgr dst) /\
    aitems d = aitems src /\ aitems s' = [] /\ arr_wf d /\ arr_wf s' /\
    (code_elementwise tr OpMoveAssign (amgr src) (amgr dst) = false -> ablock d = ablock src) /\
    (forall P, move_class P -> extends P w w').
Proof.
  intros He Dw Sw. unfold v_move_assign.
  set (al := if w_propagate_move tr then amgr src else amgr dst).
  destruct (v_create_spec tr ic src al w Sw) as (n & r' & w1 & EC & In & Ir & Wn & Wr & Hst & Hew & XC).
  rewrite EC.
  destruct (arr_move_assign_spec (proxy_assign tr false) dst n w1 (proxy_assign_takes_source tr He) Dw Wn)
    as (d & t1 & w2 & EM & Md & Id & Bd & Wd & It & Bt & Wt & XM).
  rewrite EM. cbn [bind].
  destruct (arr_destroy_ok t1 w2 Wt) as (w3 & ED & _ & XD). rewrite ED. cbn [bind].
  exists d, r', w3. repeat split; auto; try congruence.
  - unfold code_target_alloc. fold al. destruct (w_steal tr (amgr src) al) eqn:St.
    + destruct (Hst eq_refl) as (Hm & _). congruence.
    + destruct (Hew eq_refl) as (Hm & _). congruence.
  - intros H. unfold code_elementwise in H. fold al in H. apply negb_false_iff in H.
    destruct (Hst H) as (_ & Hb & _). congruence.
  - intros P PC. eapply extends_trans; [apply XC; assumption|].
    eapply extends_trans; [apply XM; assumption|]. destruct PC as (PA & PD & PM & PX). apply XD; assumption.
Qed.

(* a moved-from / emptied array is usable immediately: insertion is total and allocates through its own manager *)
Theorem arr_reusable ic a v w :
  exists a' w', arr_insert ic a v w = (a', w') /\ aitems a' = aitems a ++ [v] /\ amgr a' = amgr a /\
    extends (fun e => allocs_through (amgr a) e || ev_move e || negb (ev_copy e) && negb (ev_mem e)) w w'.
Proof.
  unfold arr_insert. destruct (ablock a).
  - do 2 eexists. repeat split. apply extends_refl.
  - destruct (Nat.ltb (length (aitems a)) ic).
    + do 2 eexists. repeat split. apply extends_refl.
    + do 2 eexists. split; [reflexivity|]. repeat split.
      apply extends_trans with (w2 := snd (alloc (amgr a) w)).
      * eexists [_]. split; [reflexivity|]. simpl. rewrite Z.eqb_refl. reflexivity.
      * apply extends_emit. rewrite forallb_app. rewrite !forallb_map_const; auto.
Qed.

(* ================================================================ named corollaries used by Properties_C14.v *)
Lemma keycopy_ok_no_elem_copy wk : keycopy_ok wk no_elem_copy.
Proof. destruct wk; simpl; auto. Qed.
Lemma keycopy_ok_no_copy wk : wk <> WUMulti -> keycopy_ok wk no_copy.
Proof. destruct wk; simpl; auto; congruence. Qed.

(* a wrapper move assignment never copy-constructs an element (the const keys of unordered_multimap pairs are the
   only copies, and only on the element-wise path) *)
Theorem move_no_copy_stdish wk tr dcr dbody ditems scr sbody sitems w :
  cc_wf (Owned dcr dbody ditems) -> cc_wf (Owned scr sbody sitems) ->
  exists d s' w', w_move_assign wk tr (Owned dcr dbody ditems) (Owned scr sbody sitems) w = Ok (d, s') w' /\
    extends no_elem_copy w w' /\ (wk <> WUMulti -> extends no_copy w w').
Proof.
  intros Dw Sw.
  destruct (w_move_assign_spec wk tr dcr dbody ditems scr sbody sitems w Dw Sw) as (d & s' & w' & E & _ & _ & _ & _ & _ & _ & _ & _ & X).
  exists d, s', w'. split; [exact E|]. split.
  - apply X; [apply move_class_no_elem_copy|apply keycopy_ok_no_elem_copy].
  - intros H. apply X; [apply move_class_no_copy|apply keycopy_ok_no_copy; assumption].
Qed.

(* move construction and native move assignment: pure pointer steal, the source becomes MovedFrom *)
Theorem move_leaves_source_empty_native :
  (forall src, cc_move_ctor src = (src, MovedFrom)) /\
  (forall k dst src w, cc_wf dst ->
     exists w', cc_move_assign k dst src w = Ok (src, MovedFrom) w' /\ extends no_copy w w' /\
                extends (fun e => negb (ev_move e)) w w').
Proof.
  split; [reflexivity|]. intros k dst src w H.
  destruct (cc_move_assign_spec k dst src w H) as (w' & E & _ & X).
  exists w'. split; [exact E|]. split; apply X; reflexivity.
Qed.

Theorem swap_exact_native a b : cc_swap a b = (b, a).
Proof. reflexivity. Qed.

(* the element-wise path really moves every element: at least one EMove when the source is not empty *)
Theorem elementwise_moves k dcr scr sbody sitems w :
  cc_wf (Owned dcr [] []) -> cc_wf (Owned scr sbody sitems) -> sitems <> [] ->
  exists n s' w', cc_merge_from k (Owned dcr [] []) (Owned scr sbody sitems) w = Ok (n, s') w' /\
    exists d, trace w' = d ++ trace w /\ existsb ev_move d = true.
Proof.
  intros Dw Sw Hne.
  destruct (cc_merge_from_spec k dcr scr sbody sitems w Dw Sw) as (n & s' & w' & E & _ & _ & _ & _ & _ & _ & _ & _ & _ & M).
  exists n, s', w'. split; [exact E|]. apply M. exact Hne.
Qed.

(* Array(const Array&, MemManager): equal contents, requested manager, and the copy's storage (if any) is a block
   that did not exist before: it cannot be the source's block *)
Theorem arr_copy_independent ic src m w :
  (match ablock src with Some b => fst b < next w | None => True end) ->
  exists c w', arr_copy_ctor_mm ic src m w = (c, w') /\ aitems c = aitems src /\ amgr c = m /\ arr_wf c /\
    (forall b b0, ablock c = Some b -> ablock src = Some b0 -> fst b <> fst b0) /\
    (forall P, (forall x y, P (EAlloc x y) = true) -> (forall v, P (ECopy v) = true) -> extends P w w').
Proof.
  intros Hb. unfold arr_copy_ctor_mm. destruct (Nat.leb (length (aitems src)) ic).
  - do 2 eexists. split; [reflexivity|]. simpl. repeat split; auto; try discriminate.
    intros P PA PC. apply extends_emit. apply forallb_map_const. assumption.
  - do 2 eexists. split; [reflexivity|]. simpl. repeat split; auto.
    + intros b b0 E1 E2. inversion E1; subst. rewrite E2 in Hb. simpl. lia.
    + intros P PA PC. apply extends_trans with (w2 := snd (alloc m w)).
      * eexists [_]. split; [reflexivity|]. simpl. rewrite PA. reflexivity.
      * apply extends_emit. apply forallb_map_const. assumption.
Qed.

(* ================================================================ the boundary of the claim about moved-from objects
   The property: the source of a move is "destructible, clearable, swappable and assignable (and fully usable again once
   assigned)".  GUARANTEED = moved_from_ops_total_native / moved_from_ops_total_stdish above (assignment INTO).
   NOT guaranteed = every use that needs the moved-from object's own crew: as the SOURCE of a stdish move / copy
   assignment or of X(X&&, alloc), as the source of any copy construction, initializer-list assignment, insertion,
   lookup.  The model (like the code) dereferences the null crew in each of them, for every allocator type. *)
Theorem moved_from_not_a_source :
  forall wk tr k multi c v vs al w,
    w_move_assign wk tr c MovedFrom w = NullCrew /\
    w_copy_assign wk tr c MovedFrom w = NullCrew /\
    w_create wk tr MovedFrom al w = NullCrew /\
    cc_copy_ctor k MovedFrom w = NullCrew /\
    cc_copy_ctor_mm k MovedFrom al w = NullCrew /\
    cc_copy_assign k c MovedFrom w = NullCrew /\
    w_assign_ilist wk multi MovedFrom vs w = NullCrew /\
    cc_insert k multi MovedFrom v w = NullCrew /\
    cc_find MovedFrom v w = NullCrew.
Proof.
  intros. repeat split; try reflexivity.
  - unfold w_move_assign. destruct (w_propagate_move tr); simpl; [reflexivity|]. destruct c; reflexivity.
  - unfold w_copy_assign. destruct (w_propagate_copy tr); simpl; [reflexivity|]. destruct c; reflexivity.
Qed.

(* native containers: a moved-from object MAY be the source of a move (crew pointers are just exchanged); the target
   then is moved-from as well *)
Theorem moved_from_native_move_source :
  forall k dst w, cc_wf dst -> exists w', cc_move_assign k dst MovedFrom w = Ok (MovedFrom, MovedFrom) w'.
Proof. intros k dst w H. destruct (cc_move_assign_spec k dst MovedFrom w H) as (w' & E & _). eauto. Qed.

(* vm_compute witnesses of the NOT-guaranteed side, one per use (std::allocator-like traits: even the most benign
   allocator fails) *)
Definition std_alloc_traits : traits := mkTraits false true false true true.
Example boundary_witnesses :
  w_move_assign WSet std_alloc_traits some_set MovedFrom w0 = NullCrew /\
  cc_copy_ctor KTree MovedFrom w0 = NullCrew /\
  w_assign_ilist WSet false MovedFrom [1; 2] w0 = NullCrew /\
  cc_insert KTree false MovedFrom 5 w0 = NullCrew /\
  cc_find MovedFrom 5 w0 = NullCrew /\
  (* ... while the guaranteed side works on the same objects *)
  w_move_assign WSet std_alloc_traits MovedFrom some_set w0 = Ok (some_set, MovedFrom) w0 /\
  (exists c w, w_assign_ilist WSet false some_set [1; 2] w0 = Ok c w /\ items_of c = [1; 2]).
Proof. vm_compute. repeat split. do 2 eexists. split; reflexivity. Qed.
