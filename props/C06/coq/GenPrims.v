(* C06 - fixed meanings of the trivial primitives used by the cxx2coq configurations (gen_*.json):
   iterator <-> const_iterator conversions, proxy wrapping/unwrapping, operator-> are the identity on abstract iterator values *)
From Coq Require Import ZArith.
Definition it_id (x : Z) : Z := x.
Definition traits_ : Z := 0%Z.
