"""C19 tie (a): static conformance of the free-row list code with the Coq machine (Treiber.v).

From the clang JSON AST of the INSTANTIATED members DataRow::~DataRow, DataTable::pvDeallocateFreeRaws,
pvAllocateRaw, pvDestroyRaws (current headers) we extract
  1. a canonical text of each body in which every operation on the std::atomic free-list head is rendered as
     ATOMIC:<op>(<object>;<args>;<memory order>)  -- a defaulted memory_order argument is `seq_cst`, an explicit one is
     rendered verbatim (and therefore deviates);  compared with EXPECTED_TEXT (exactly these operations, this order,
     these operands);
  2. the control-flow automaton over the protocol events (begin/load/link/cas:ok/cas:fail, exchange/read/free/done),
     minimised by bisimulation and canonically numbered; compared with the automaton obtained by probing the extracted
     `Treiber.step` (model_driver prog), restricted to the same labels.
Any deviation = broken tie."""
import os, sys, re, json
sys.path.insert(0, os.path.join(os.path.dirname(os.path.abspath(__file__)), '..', '..', 'tools'))
import cxx2coq

HERE = os.path.dirname(os.path.abspath(__file__))
WRAPPERS = ('ImplicitCastExpr', 'ParenExpr', 'ExprWithCleanups', 'MaterializeTemporaryExpr', 'CXXBindTemporaryExpr',
            'ConstantExpr', 'CXXFunctionalCastExpr')
ATOMIC_METHODS = ('load', 'store', 'exchange', 'compare_exchange_weak', 'compare_exchange_strong', 'fetch_add', 'fetch_sub',
                  'operator void *', 'operator=', 'operator++', 'operator--')


class Deviation(Exception):
    pass


def qt(n):
    t = n.get('type')
    return t.get('qualType', '') if isinstance(t, dict) else ''


def unwrap(n):
    while isinstance(n, dict) and n.get('kind') in WRAPPERS and n.get('inner'):
        n = n['inner'][-1] if n['kind'] == 'CXXFunctionalCastExpr' else n['inner'][0]
    return n


def is_atomic_type(t):
    return 'atomic' in t or 'FreeRaws' in t


def rx(n):
    """canonical rendering of an expression"""
    n = unwrap(n)
    k = n.get('kind')
    inner = [c for c in n.get('inner', []) if isinstance(c, dict)]
    if k == 'DeclRefExpr':
        return n.get('referencedDecl', {}).get('name', '?')
    if k == 'CXXThisExpr':
        return 'this'
    if k == 'CXXNullPtrLiteralExpr':
        return 'null'
    if k == 'CXXBoolLiteralExpr':
        return 'true' if n.get('value') else 'false'
    if k == 'IntegerLiteral':
        return str(n.get('value'))
    if k == 'CXXDefaultArgExpr':
        return '<default>'
    if k == 'LambdaExpr':
        body = [c for c in inner if c.get('kind') == 'CompoundStmt']
        ls = []
        norm_stmt(body[-1], ls, 0)
        return 'lambda{ ' + ' ; '.join(x.strip() for x in ls) + ' }'
    if k == 'InitListExpr':
        return '{%s}' % ', '.join(rx(a) for a in inner)
    if k == 'UnaryExprOrTypeTraitExpr':
        return '%s(%s)' % (n.get('name'), (n.get('argType') or {}).get('qualType') or (rx(inner[0]) if inner else ''))
    if k == 'CXXThrowExpr':
        return 'throw' + (' ' + rx(inner[0]) if inner else '')
    if k == 'MemberExpr':
        return rx(inner[0]) + ('->' if n.get('isArrow') else '.') + n.get('name', '?')
    if k == 'UnaryOperator':
        return '(%s%s)' % (n.get('opcode'), rx(inner[0]))
    if k in ('BinaryOperator', 'CompoundAssignOperator'):
        return '(%s %s %s)' % (rx(inner[0]), n.get('opcode'), rx(inner[1]))
    if k == 'CXXMemberCallExpr':
        callee = unwrap(inner[0])
        args = inner[1:]
        if callee.get('kind') == 'MemberExpr':
            obj = callee['inner'][0]
            meth = callee.get('name', '?')
            objt = qt(unwrap(obj)) + ' ' + qt(obj)
            if is_atomic_type(objt) and (meth in ATOMIC_METHODS or True):
                if meth not in ATOMIC_METHODS:
                    return 'ATOMIC:?%s(%s)' % (meth, rx(obj))
                vals = []; orders = []
                for a in args:
                    if 'memory_order' in qt(a):
                        orders.append('seq_cst' if unwrap(a).get('kind') == 'CXXDefaultArgExpr' else 'EXPLICIT:' + rx(a))
                    else:
                        vals.append(rx(a))
                op = 'load' if meth == 'operator void *' else meth
                if meth == 'operator void *':
                    orders = ['seq_cst']          # atomic<T>::operator T() is load(memory_order_seq_cst)
                return 'ATOMIC:%s(%s;%s;%s)' % (op, rx(obj) + ('->' if callee.get('isArrow') else ''), ','.join(vals), ','.join(orders))
            return '%s%s%s(%s)' % (rx(obj), '->' if callee.get('isArrow') else '.', meth, ', '.join(rx(a) for a in args))
        return 'call?(%s)' % ', '.join(rx(a) for a in inner)
    if k == 'CallExpr':
        return '%s(%s)' % (rx(inner[0]), ', '.join(rx(a) for a in inner[1:]))
    if k == 'CXXOperatorCallExpr':
        return 'op(%s)' % ', '.join(rx(a) for a in inner)
    if k in ('CXXStaticCastExpr', 'CStyleCastExpr'):
        return 'cast(%s)' % rx(inner[-1])
    if k in ('CXXConstructExpr', 'CXXTemporaryObjectExpr'):
        return 'construct(%s)' % ', '.join(rx(a) for a in inner)
    raise Deviation('unsupported expression kind %s' % k)


def norm_stmt(n, out, ind):
    """append canonical text lines; return structured IR"""
    k = n.get('kind')
    inner = [c for c in n.get('inner', [])]
    pad = '  ' * ind
    if k == 'CompoundStmt':
        ir = []
        for c in inner:
            if isinstance(c, dict) and c.get('kind'):
                ir.append(norm_stmt(c, out, ind))
        return ('seq', ir)
    if k == 'NullStmt':
        return ('seq', [])
    if k == 'C19Init':
        e = 'init %s := %s' % (n.get('name'), rx(inner[0]) if inner else '')
        out.append(pad + e); return ('expr', '')
    if k == 'DeclStmt':
        ir = []
        for v in inner:
            if v.get('kind') in ('TypedefDecl', 'TypeAliasDecl'):
                continue
            if v.get('kind') != 'VarDecl':
                raise Deviation('unsupported declaration ' + str(v.get('kind')))
            init = [c for c in v.get('inner', []) if isinstance(c, dict) and c.get('kind')]
            e = rx(init[0]) if init else ''
            out.append('%svar %s = %s' % (pad, v.get('name'), e))
            ir.append(('expr', e))
        return ('seq', ir)
    if k == 'IfStmt':
        if n.get('hasElse') and len(inner) < 3:
            raise Deviation('malformed if')
        cond = rx(inner[0])
        out.append('%sif %s {' % (pad, cond))
        th = norm_stmt(inner[1], out, ind + 1)
        el = ('seq', [])
        if len(inner) > 2 and isinstance(inner[2], dict) and inner[2].get('kind'):
            out.append('%s} else {' % pad)
            el = norm_stmt(inner[2], out, ind + 1)
        out.append('%s}' % pad)
        return ('if', cond, th, el)
    if k == 'WhileStmt':
        cond = rx(inner[0])
        out.append('%swhile %s {' % (pad, cond))
        body = norm_stmt(inner[1], out, ind + 1)
        out.append('%s}' % pad)
        return ('while', cond, body)
    if k == 'CXXForRangeStmt':
        # children: init, range decl, begin decl, end decl, cond, inc, loop var decl, body
        ch = [c for c in inner]
        rng = ch[1]['inner'][0]
        rinit = [c for c in rng.get('inner', []) if isinstance(c, dict) and c.get('kind')]
        var = ch[6]['inner'][0].get('name')
        out.append('%sfor %s in %s {' % (pad, var, rx(rinit[0])))
        body = norm_stmt(ch[7], out, ind + 1)
        out.append('%s}' % pad)
        return ('forrange', body)
    if k == 'CXXTryStmt':
        out.append(pad + 'try {')
        body = norm_stmt(inner[0], out, ind + 1)
        for c in inner[1:]:
            if c.get('kind') != 'CXXCatchStmt':
                raise Deviation('unexpected child of try: %s' % c.get('kind'))
            ch = [x for x in c.get('inner', []) if isinstance(x, dict) and x.get('kind')]
            var = [x for x in ch if x.get('kind') == 'VarDecl']
            out.append('%s} catch (%s) {' % (pad, qt(var[0]) if var else '...'))
            norm_stmt([x for x in ch if x.get('kind') == 'CompoundStmt'][0], out, ind + 1)
        out.append(pad + '}')
        return body
    if k == 'BreakStmt':
        out.append(pad + 'break'); return ('break',)
    if k == 'ContinueStmt':
        out.append(pad + 'continue'); return ('seq', [])
    if k == 'ReturnStmt':
        es = [c for c in inner if isinstance(c, dict) and c.get('kind')]
        e = rx(es[0]) if es else ''
        out.append((pad + 'return ' + e).rstrip()); return ('return', e)
    if k == 'DoStmt' and 'checkMode' in json.dumps(n) and '__assert_fail' in json.dumps(n):
        # MOMO_CHECK(expr): do { assert(mode != assertion || expr); if (mode == exception) ... throw } while (false)
        first = [c for c in inner[0].get('inner', []) if isinstance(c, dict) and c.get('kind')][0]
        c = cxx2coq.find_assert_cond(first)
        out.append(pad + 'MOMO_CHECK ' + (rx(c) if c is not None else '?')); return ('expr', '')
    if k == 'ForStmt':
        ini, _cv, cnd, inc, bod = inner[0], inner[1], inner[2], inner[3], inner[4]
        il = []
        if isinstance(ini, dict) and ini.get('kind'):
            norm_stmt(ini, il, 0)
        cs = rx(cnd) if isinstance(cnd, dict) and cnd.get('kind') else 'true'
        out.append('%sfor (%s; %s; %s) {' % (pad, ' ; '.join(x.strip() for x in il), cs, rx(inc) if isinstance(inc, dict) and inc.get('kind') else ''))
        body = norm_stmt(bod, out, ind + 1)
        out.append(pad + '}')
        if events_of(cs):
            raise Deviation('protocol event in a for condition')
        return ('while', 'cond', body)
    if k in ('DoStmt', 'SwitchStmt', 'GotoStmt'):
        raise Deviation('unsupported statement kind %s' % k)
    # expression statement (MOMO_ASSERT expands to a conditional around __assert_fail)
    if k in ('ConditionalOperator', 'CStyleCastExpr', 'ParenExpr', 'CXXFunctionalCastExpr', 'CXXStaticCastExpr') and cxx2coq.is_assert_stmt(n):
        c = cxx2coq.find_assert_cond(n)
        e = 'assert ' + (rx(c) if c is not None else '?')
        out.append(pad + e)
        return ('expr', '')
    e = rx(n)
    out.append(pad + e)
    return ('expr', e)


# ---------------------------------------------------------------- events and the control-flow automaton
def events_of(e):
    """protocol events inside a rendered expression, in textual (= evaluation, for these shapes) order"""
    evs = []
    for m in re.finditer(r'ATOMIC:(\??[\w ]+)\(|(\bToBuffer|\bFromBuffer|mRawMemPool\.Deallocate|mRawMemPool\.Allocate|->DestroyRaw|this->pvDeallocateFreeRaws|this->pvDestroyRaw)\(', e):
        a = m.group(1) or m.group(2)
        evs.append({'load': 'load', 'exchange': 'exchange', 'compare_exchange_weak': 'cas', 'compare_exchange_strong': 'cas_strong',
                    'store': 'store', 'ToBuffer': 'link', 'FromBuffer': 'read', 'mRawMemPool.Deallocate': 'free',
                    'mRawMemPool.Allocate': 'alloc', '->DestroyRaw': 'begin', 'this->pvDeallocateFreeRaws': 'drain',
                    'this->pvDestroyRaw': 'remove'}.get(a, 'atomic?' + a))
    return evs


class Cfg:
    def __init__(self):
        self.n = 1; self.edges = []          # node 0 = entry = exit (the thread is back at its idle point)

    def new(self):
        self.n += 1; return self.n - 1

    def chain(self, cur, evs):
        for ev in evs:
            nx = self.new(); self.edges.append((cur, ev, nx)); cur = nx
        return cur

    def build(self, ir, cur, brk):
        t = ir[0]
        if t == 'seq':
            for s in ir[1]:
                cur = self.build(s, cur, brk)
                if cur is None:
                    break
            return cur
        if t == 'expr':
            return self.chain(cur, events_of(ir[1]))
        if t == 'return':
            cur = self.chain(cur, events_of(ir[1])); self.edges.append((cur, None, 0)); return None
        if t == 'break':
            self.edges.append((cur, None, brk)); return None
        if t == 'if':
            evs = events_of(ir[1])
            a = self.new(); b = self.new(); join = self.new()
            if evs:
                cur = self.chain(cur, evs[:-1]); last = evs[-1]
                yes, no = ((':ok', ':fail') if last.startswith('cas') else (':nonnull', ':null') if '!= null' in ir[1] else (':true', ':false'))
                self.edges.append((cur, last + yes, a)); self.edges.append((cur, last + no, b))
            else:
                self.edges.append((cur, None, a)); self.edges.append((cur, None, b))
            ea = self.build(ir[2], a, brk); eb = self.build(ir[3], b, brk)
            for e in (ea, eb):
                if e is not None:
                    self.edges.append((e, None, join))
            return join
        if t == 'while':
            head = self.new(); after = self.new(); self.edges.append((cur, None, head))
            body = self.new()
            evs = events_of(ir[1])
            if evs:      # e.g. while (!head.compare_exchange_weak(h, raw)) ;
                c = self.chain(head, evs[:-1]); last = evs[-1]
                yes, no = ((':ok', ':fail') if last.startswith('cas') else (':true', ':false'))
                neg = ir[1].startswith('(!')
                self.edges.append((c, last + (no if neg else yes), body)); self.edges.append((c, last + (yes if neg else no), after))
            else:
                self.edges.append((head, None, body))
                if ir[1] != 'true':
                    self.edges.append((head, 'done', after))
            e = self.build(ir[2], body, after)
            if e is not None:
                self.edges.append((e, None, head))
            return after
        if t == 'forrange':
            head = self.new(); after = self.new(); body = self.new()
            self.edges.append((cur, None, head)); self.edges.append((head, None, after)); self.edges.append((head, None, body))
            e = self.build(ir[1], body, after)
            if e is not None:
                self.edges.append((e, None, head))
            return after
        raise Deviation('unsupported IR ' + t)


def automaton(ir):
    g = Cfg(); end = g.build(ir, 0, None)
    if end is not None:
        g.edges.append((end, None, 0))
    return minimise(g.n, g.edges, 0)


def minimise(n, edges, entry):
    """epsilon-closure, bisimulation quotient, canonical BFS numbering -> sorted list of 'S<i> -label-> S<j>'"""
    eps = {i: {i} for i in range(n)}
    changed = True
    while changed:
        changed = False
        for (u, l, v) in edges:
            if l is None:
                for x in range(n):
                    if u in eps[x] and not eps[v] <= eps[x]:
                        eps[x] |= eps[v]; changed = True
    out = {i: set() for i in range(n)}
    for i in range(n):
        for (u, l, v) in edges:
            if l is not None and u in eps[i]:
                out[i].add((l, v))
    block = {i: 0 for i in range(n)}
    while True:
        sig = {i: (block[i], tuple(sorted(set((l, block[v]) for (l, v) in out[i])))) for i in range(n)}
        ids = {}
        nb = {}
        for i in range(n):
            nb[i] = ids.setdefault(sig[i], len(ids))
        if len(ids) == len(set(block.values())):
            block = nb; break
        block = nb
    # canonical numbering by BFS from the entry's block over sorted labels
    order = {block[entry]: 0}; queue = [block[entry]]; res = []
    bout = {}
    for i in range(n):
        bout.setdefault(block[i], set()).update((l, block[v]) for (l, v) in out[i])
    while queue:
        b = queue.pop(0)
        for (l, v) in sorted(bout.get(b, ()), key=lambda x: (x[0], )):
            if v not in order:
                order[v] = len(order); queue.append(v)
    for b in sorted(order, key=lambda x: order[x]):
        for (l, v) in sorted(bout.get(b, ())):
            res.append('S%d -%s-> S%d' % (order[b], l, order[v]))
    return sorted(set(res))


def model_automaton(prog_lines, role, labels):
    """the model's probed automaton for `role`, restricted to `labels`, minimised the same way"""
    names = {}; edges = []
    def nid(s):
        return names.setdefault(s, len(names))
    entry = nid('Idle')
    for line in prog_lines:
        m = re.match(r'(\w+): (\w+) -([\w:]+)(\[[^\]]*\])?-> (\w+)$', line.strip())
        if not m or m.group(1) != role:
            continue
        if m.group(3) in labels:
            edges.append((nid(m.group(2)), m.group(3), nid(m.group(5))))
    return minimise(len(names), edges, entry)


# ---------------------------------------------------------------- AST access
def specializations(objs, cls):
    """instantiated class bodies: inside the ClassTemplateDecl (implicit instantiation) or as a top-level
    ClassTemplateSpecializationDecl (explicit instantiation definition, `template class ...;`)"""
    specs = []
    for o in objs:
        if o.get('kind') == 'ClassTemplateDecl' and o.get('name') == cls:
            specs += [m for m in o.get('inner', []) if m.get('kind') == 'ClassTemplateSpecializationDecl']
        if o.get('kind') == 'ClassTemplateSpecializationDecl' and o.get('name') == cls:
            specs.append(o)
    return [s for s in specs if s.get('inner')]


def find_member(objs, cls, name, kinds, nested=None, nparams=None, first_param=None):
    """bodies (and, for constructors, member initialisers) of the instantiated member `name`"""
    found = []
    for m in specializations(objs, cls):
        scope = m.get('inner', [])
        if nested:
            scope = [y for x in scope if x.get('kind') == 'CXXRecordDecl' and x.get('name') == nested for y in x.get('inner', [])]
        scope = list(scope) + [y for x in scope if x.get('kind') == 'FunctionTemplateDecl' and x.get('name') == name
                               for y in x.get('inner', []) if y.get('kind') == 'CXXMethodDecl'
                               and any(z.get('kind') == 'TemplateArgument' for z in y.get('inner', []))]
        for x in scope:
            params = [y for y in x.get('inner', []) if y.get('kind') == 'ParmVarDecl']
            if nparams is not None and len(params) != nparams:
                continue
            if first_param is not None and not (params and first_param in qt(params[0])):
                continue
            if 'GetFreeRaws' == name and 'const' in qt(x).split(')')[-1]:
                continue
            if x.get('kind') in kinds and x.get('name') == name:
                body = [y for y in x.get('inner', []) if y.get('kind') == 'CompoundStmt']
                if body:
                    inits = [y for y in x.get('inner', []) if y.get('kind') == 'CXXCtorInitializer']
                    if inits:
                        body = [{'kind': 'CompoundStmt', 'inner': [{'kind': 'C19Init', 'name': y.get('anyInit', {}).get('name', '?'),
                                                                     'inner': y.get('inner', [])} for y in inits] + body[0].get('inner', [])}]
                    found.append(body[0])
    return found


EXPECTED_TEXT = {
    '~DataRow': '''if (this->mRaw == null) {
  return
}
this->mColumnList->DestroyRaw(null, this->mRaw)
var raw = this->mRaw
while true {
  var headRaw = ATOMIC:load((*this->mFreeRaws);;seq_cst)
  ToBuffer(headRaw, raw)
  if ATOMIC:compare_exchange_weak(this->mFreeRaws->;headRaw,raw;seq_cst) {
    break
  }
}''',
    'pvDeallocateFreeRaws': '''var headRaw = ATOMIC:exchange(this->mCrew.GetFreeRaws();null;seq_cst)
while (headRaw != null) {
  var nextRaw = FromBuffer(headRaw)
  this->mRawMemPool.Deallocate(headRaw)
  (headRaw = nextRaw)
}''',
    'pvAllocateRaw': '''if (ATOMIC:load(this->mCrew.GetFreeRaws();;seq_cst) != null) {
  this->pvDeallocateFreeRaws()
}
return this->mRawMemPool.Allocate()''',
    # the owner and every detached row address the SAME atomic object
    'Crew::GetFreeRaws': '''assert cast((!this->IsNull()))
return this->mData->freeRaws''',
    'pvMakeRow': '''return construct(construct((&this->GetColumnList()), raw, (&this->mCrew.GetFreeRaws())))''',
    'pvDestroyRaws': '''if this->mCrew.IsNull() {
  return
}
this->pvDeallocateFreeRaws()
for raw in this->mRaws {
  this->pvDestroyRaw(raw)
}''',
}
# the Row object layer (TreiberRows.v: LMoveCtor, LSwap, move_assign = [LMoveCtor tmp b; LSwap tmp a; LDestroy tmp], extract_raw)
EXPECTED_TEXT.update({
    'DataRow(DataRow&&)': '''init mColumnList := row.mColumnList
init mRaw := row.mRaw
init mFreeRaws := row.mFreeRaws
(row.mRaw = null)
(row.mFreeRaws = null)''',
    'DataRow(columnList,raw,freeRaws)': '''init mColumnList := columnList
init mRaw := raw
init mFreeRaws := freeRaws''',
    'DataRow::operator=(DataRow&&)': '''construct(move(row)).Swap((*this))
return (*this)''',
    'DataRow::Swap': '''swap(this->mColumnList, row.mColumnList)
swap(this->mRaw, row.mRaw)
swap(this->mFreeRaws, row.mFreeRaws)''',
    'DataRow::ptExtractRaw': '''var raw = this->mRaw
(this->mRaw = null)
return raw''',
})
EXPECTED_TEXT.update({
    # TreiberCreate.v: CTakeRaw ; (CMakeRow | CAbort): the catch blocks give the buffer straight back to the POOL
    'DataTable::pvCreateRaw<RawCreator>': '''var raw = this->pvAllocateRaw()
try {
  op(operator(), forward(rawCreator), raw)
} catch (...) {
  this->mRawMemPool.Deallocate(raw)
  throw
}
return raw''',
    'DataTable::pvNewRow<...>': '''var raw = this->pvCreateRaw()
try {
  this->pvFillRaw(raw, assigns)
} catch (...) {
  this->pvDestroyRaw(raw)
  throw
}
return this->pvMakeRow(raw)''',
    'DataTable::pvDestroyRaw': '''this->GetColumnList().DestroyRaw((&this->GetMemManager()), raw)
this->mRawMemPool.Deallocate(raw)''',
})
EXPECTED_TEXT.update({
    # row paths of the table (events A/U, X, R of the trace machine) and the raw pool's parameters
    'DataTable::pvCreateRawMemPool': '''var columnList = this->GetColumnList()
var size = minmax(columnList.GetTotalSize(), sizeof(void *)).second
return construct(construct(size, columnList.GetAlignment()), construct(this->GetMemManager()))''',
    'DataTable::Extract(rowNumber)': '''MOMO_CHECK cast(((checkMode != assertion) || (rowNumber < this->GetCount())))
return this->pvMakeRow(this->pvExtractRaw(rowNumber, keepRowOrder))''',
    'DataTable::Remove(rowNumber)': '''MOMO_CHECK cast(((checkMode != assertion) || (rowNumber < this->GetCount())))
this->pvDestroyRaw(this->pvExtractRaw(rowNumber, keepRowOrder))''',
    'DataTable::TryAdd': '''MOMO_CHECK cast(((checkMode != assertion) || ((&row.GetColumnList()) == (&this->GetColumnList()))))
this->mRaws.Reserve((this->mRaws.GetCount() + 1))
var res = this->mIndexes.AddRaw(row.GetRaw())
if (res.raw != null) {
  return {this->pvMakeRowReference(res.raw), res.uniqueHashIndex}
}
var raw = ExtractRaw(row)
this->pvSetNumber(raw, this->mRaws.GetCount())
this->mRaws.AddBackNogrow(raw)
(++this->mCrew.GetChangeVersion())
return {this->pvMakeRowReference(raw), empty}''',
})
TABLE_MEMBERS = [('DataTable::pvCreateRawMemPool', 'pvCreateRawMemPool', ('CXXMethodDecl',), {}),
                 ('DataTable::Extract(rowNumber)', 'Extract', ('CXXMethodDecl',), {'nparams': 2}),
                 ('DataTable::Remove(rowNumber)', 'Remove', ('CXXMethodDecl',), {'nparams': 2, 'first_param': 'size_t'}),
                 ('DataTable::TryAdd', 'TryAdd', ('CXXMethodDecl',), {}),
                 ('DataTable::pvCreateRaw<RawCreator>', 'pvCreateRaw', ('CXXMethodDecl',), {'nparams': 1}),
                 ('DataTable::pvNewRow<...>', 'pvNewRow', ('CXXMethodDecl',), {}),
                 ('DataTable::pvDestroyRaw', 'pvDestroyRaw', ('CXXMethodDecl',), {})]
# row creation by copy, insertion / update of a row, table copy construction, removal by filter: they reach the free-list code only through
# pvCreateRaw / pvDestroyRaw / pvDestroyRaws / ExtractRaw (all modelled); pinned so that a new direct use of the pool or the list is noticed
EXPECTED_TEXT.update({'DataTable::pvImportRaw': 'var rawCreator = lambda{ this->GetColumnList().ImportRaw(this->GetMemManager(), srcColumnList, srcRaw, raw) }\nreturn this->pvCreateRaw(rawCreator)', 'DataTable::pvCreateRaw()': 'var rawCreator = lambda{ this->GetColumnList().CreateRaw(this->GetMemManager(), raw) }\nreturn this->pvCreateRaw(rawCreator)', 'DataTable::TryInsert': 'MOMO_CHECK cast(((checkMode != assertion) || (rowNumber <= this->GetCount())))\nvar res = this->TryAdd(move(row))\nif res.operator bool() {\n  rotate(Next(this->mRaws.GetBegin(), rowNumber), prev(this->mRaws.GetEnd(), <default>), this->mRaws.GetEnd())\n  this->pvSetNumbers(rowNumber)\n}\nreturn construct(res)', 'DataTable::TryUpdate(rowNumber,Row&&)': 'MOMO_CHECK cast(((checkMode != assertion) || (rowNumber < this->GetCount())))\nvar raw = op(operator[], this->mRaws, rowNumber)\nvar res = this->mIndexes.UpdateRaw(raw, row.GetRaw())\nif (res.raw != null) {\n  return {this->pvMakeRowReference(res.raw), res.uniqueHashIndex}\n}\nthis->pvDestroyRaw(raw)\n(raw = ExtractRaw(row))\nthis->pvSetNumber(raw, rowNumber)\n(++this->mCrew.GetChangeVersion())\n(++this->mCrew.GetRemoveVersion())\nreturn {this->pvMakeRowReference(raw), empty}', 'DataTable::pvFill (table copy construction)': 'var columnList = this->GetColumnList()\nif value {\n  this->Reserve(rows.GetCount())\n}\ntry {\n  for rowRef in rows {\n    if (!op(operator(), rowFilter, construct(rowRef))) {\n      continue\n    }\n    this->mRaws.Reserve((this->mRaws.GetCount() + 1))\n    var raw = this->pvImportRaw(columnList, rowRef.GetRaw())\n    try {\n      this->mIndexes.AddRaw(raw)\n    } catch (...) {\n      this->pvDestroyRaw(raw)\n      throw\n    }\n    this->mRaws.AddBackNogrow(raw)\n  }\n} catch (...) {\n  this->pvDestroyRaws()\n  this->mRaws.Clear(<default>)\n  throw\n}\nthis->pvSetNumbers(<default>)', 'DataTable::pvRemove(rowFilter)': 'var rawSet = construct(construct(), construct(this->GetMemManager()))\nfor raw in this->mRaws {\n  if op(operator(), rowFilter, this->pvMakeConstRowReference(raw)) {\n    rawSet.Insert(raw)\n  }\n}\nvar rawFilter = lambda{ return (!rawSet.ContainsKey(raw)) }\nthis->pvFilterRaws(construct(rawFilter))'})
TABLE_MEMBERS += [('DataTable::pvImportRaw', 'pvImportRaw', ('CXXMethodDecl',), {}), ('DataTable::pvCreateRaw()', 'pvCreateRaw', ('CXXMethodDecl',), {'nparams': 0}), ('DataTable::TryInsert', 'TryInsert', ('CXXMethodDecl',), {}), ('DataTable::TryUpdate(rowNumber,Row&&)', 'TryUpdate', ('CXXMethodDecl',), {'first_param': 'size_t'}), ('DataTable::pvFill (table copy construction)', 'pvFill', ('CXXMethodDecl',), {}), ('DataTable::pvRemove(rowFilter)', 'pvRemove', ('CXXMethodDecl',), {'nparams': 1})]
# bulk removal: Assign(begin,end), Remove(begin,end), Remove(filter) all end in pvFilterRaws, which gives every filtered-out raw to pvDestroyRaw
EXPECTED_TEXT.update({'DataTable::pvFilterRaws (the only bulk caller of pvDestroyRaw)': 'this->mIndexes.FilterRaws(construct(rawFilter))\nvar count = 0\nfor raw in this->mRaws {\n  if (!op(operator(), rawFilter, raw)) {\n    this->pvDestroyRaw(raw)\n    continue\n  }\n  (op(operator[], this->mRaws, count) = raw)\n  (++count)\n}\nthis->mRaws.RemoveBack((this->mRaws.GetCount() - count))\n(++this->mCrew.GetChangeVersion())\n(++this->mCrew.GetRemoveVersion())', 'DataTable::pvAssign(begin,end)': 'var rawMap = construct(construct(), construct(this->GetMemManager()))\nvar count = 0\nfor (var iter = construct(move(begin)); op(operator!=, construct(iter), construct(end)); op(operator++, iter)) {\n  var rowRef = construct(op(operator*, iter))\n  MOMO_CHECK cast(((checkMode != assertion) || ((&rowRef.GetColumnList()) == (&this->GetColumnList()))))\n  rowRef.GetRaw()\n  var raw = GetRaw(rowRef)\n  if rawMap.Insert(raw, count).inserted {\n    (++count)\n  }\n}\nvar rawFilter = lambda{ return rawMap.ContainsKey(raw) }\nthis->pvFilterRaws(construct(rawFilter))\nfor (var i = 0; (i < count); (++i)) {\n  var raw = op(operator[], this->mRaws, i)\n  while true {\n    var number = op(operator[], rawMap, raw)\n    if (number == i) {\n      break\n    }\n    swap(raw, op(operator[], this->mRaws, number))\n  }\n}', 'DataTable::pvRemove(begin,end)': 'var rawSet = construct(construct(), construct(this->GetMemManager()))\nfor (var iter = construct(move(begin)); op(operator!=, construct(iter), construct(end)); op(operator++, iter)) {\n  var rowRef = construct(op(operator*, iter))\n  MOMO_CHECK cast(((checkMode != assertion) || ((&rowRef.GetColumnList()) == (&this->GetColumnList()))))\n  rowRef.GetRaw()\n  rawSet.Insert(GetRaw(rowRef))\n}\nvar rawFilter = lambda{ return (!rawSet.ContainsKey(raw)) }\nthis->pvFilterRaws(construct(rawFilter))'})
TABLE_MEMBERS += [('DataTable::pvFilterRaws (the only bulk caller of pvDestroyRaw)', 'pvFilterRaws', ('CXXMethodDecl',), {}), ('DataTable::pvAssign(begin,end)', 'pvAssign', ('CXXMethodDecl',), {}), ('DataTable::pvRemove(begin,end)', 'pvRemove', ('CXXMethodDecl',), {'nparams': 2})]
ROW_MEMBERS = [('DataRow(DataRow&&)', 'DataRow', ('CXXConstructorDecl',), {'nparams': 1, 'first_param': '&&'}),
               ('DataRow(columnList,raw,freeRaws)', 'DataRow', ('CXXConstructorDecl',), {'nparams': 3}),
               ('DataRow::operator=(DataRow&&)', 'operator=', ('CXXMethodDecl',), {'first_param': '&&'}),
               ('DataRow::Swap', 'Swap', ('CXXMethodDecl',), {}),
               ('DataRow::ptExtractRaw', 'ptExtractRaw', ('CXXMethodDecl',), {})]
MODEL_LABELS = {'~DataRow': ('disposer', ('begin', 'load', 'link', 'cas:ok', 'cas:fail')),
                'pvDeallocateFreeRaws': ('owner', ('exchange', 'read', 'free', 'done'))}
# the two wrappers are not separate pcs of the machine (OExchange / OAlloc / ORemove are enabled whenever the owner is
# idle, which covers both outcomes of the `freeRaws != nullptr` check); their event automata are compared with these
EXPECTED_WRAPPER = {
    'pvAllocateRaw': ['S0 -load:nonnull-> S1', 'S0 -load:null-> S2', 'S1 -drain-> S2', 'S2 -alloc-> S0'],
    # drain once, then any number of pvDestroyRaw; S1 -drain-> S1 is the next call (function exit == idle point S0)
    'pvDestroyRaws': ['S0 -drain-> S1', 'S1 -drain-> S1', 'S1 -remove-> S1'],
}
MODEL_ANNOTATIONS = {
    'disposer': ['disposer: Idle -begin-> Start', 'disposer: Linked -cas:fail[head!=h]-> Start', 'disposer: Linked -cas:fail[spurious]-> Start',
                 'disposer: Linked -cas:ok[head==h;head:=own]-> Idle', 'disposer: Loaded -link[link(own):=h]-> Linked',
                 'disposer: Start -load[h:=head]-> Loaded'],
    'owner': ['owner: Drain -done[c==null]-> Idle', 'owner: Drain -read[n:=link(c)]-> Next', 'owner: Idle -add-> Idle', 'owner: Idle -alloc-> Idle',
              'owner: Idle -exchange[c:=head;head:=null]-> Drain', 'owner: Idle -extract-> Idle', 'owner: Idle -remove-> Idle',
              'owner: Next -free[pool<-c;c:=n]-> Drain'],
}


def dump(repo, filt):
    cfg = {'tu': os.path.join(HERE, 'inst.cpp'), 'filter': filt, 'includes': [os.path.join(repo, 'include')]}
    return cxx2coq.load_objs(cxx2coq.dump_ast(cfg, repo))


def check(repo, prog_lines):
    """returns (list of obligations {'name','ok','detail'}, report dict)"""
    obl = []; report = {}
    try:
        objs_t = dump(repo, 'DataTable'); objs_r = dump(repo, 'DataRow')
    except cxx2coq.TranslationError as e:
        return [{'name': 'clang AST dump of inst.cpp', 'ok': False, 'detail': str(e)[-800:]}], report
    prog_lines = [l.strip() for l in prog_lines if l.strip()]
    for role, exp in MODEL_ANNOTATIONS.items():
        got = sorted(l for l in prog_lines if l.startswith(role + ':'))
        obl.append({'name': 'model skeleton (probed from extracted step): ' + role, 'ok': got == sorted(exp),
                    'detail': '' if got == sorted(exp) else 'got %s' % got})
    for fn, (cls, kinds) in (('~DataRow', ('DataRow', ('CXXDestructorDecl',))),
                             ('pvDeallocateFreeRaws', ('DataTable', ('CXXMethodDecl',))),
                             ('pvAllocateRaw', ('DataTable', ('CXXMethodDecl',))),
                             ('pvDestroyRaws', ('DataTable', ('CXXMethodDecl',))),
                             ('Crew::GetFreeRaws', ('DataTable', ('CXXMethodDecl',))),
                             ('pvMakeRow', ('DataTable', ('CXXMethodDecl',)))):
        bodies = find_member(objs_r if cls == 'DataRow' else objs_t, cls, fn.split('::')[-1], kinds, nested='Crew' if '::' in fn else None)
        if len(bodies) != 1:
            obl.append({'name': 'AST: instantiated body of ' + fn, 'ok': False, 'detail': '%d instantiated bodies found' % len(bodies)})
            continue
        try:
            lines = []
            ir = norm_stmt(bodies[0], lines, 0)
            text = '\n'.join(lines)
            auto = automaton(ir)
        except (Deviation, KeyError, IndexError, TypeError) as e:
            obl.append({'name': 'AST: canonical form of ' + fn, 'ok': False, 'detail': 'cannot normalise: %r' % (e,)})
            continue
        report[fn] = {'text': text, 'automaton': auto}
        ok = text == EXPECTED_TEXT[fn]
        det = ''
        if not ok:
            import difflib
            det = '\n'.join(difflib.unified_diff(EXPECTED_TEXT[fn].splitlines(), text.splitlines(), 'modelled', 'source', lineterm=''))
        obl.append({'name': 'AST: %s performs exactly the modelled atomic operations (seq_cst) on the modelled operands, in order' % fn,
                    'ok': ok, 'detail': det})
        if fn in ('Crew::GetFreeRaws', 'pvMakeRow'):
            continue
        if fn in MODEL_LABELS:
            role, labels = MODEL_LABELS[fn]
            ma = model_automaton(prog_lines, role, labels)
            ok2 = (auto == ma) and len(ma) == len(labels)
            obl.append({'name': 'AST: event automaton of %s == automaton of Treiber.step (%s)' % (fn, role), 'ok': ok2,
                        'detail': '' if ok2 else 'source %s / model %s' % (auto, ma)})
        else:
            exp = EXPECTED_WRAPPER[fn]
            ok2 = auto == sorted(exp)
            obl.append({'name': 'AST: event order of wrapper %s' % fn, 'ok': ok2, 'detail': '' if ok2 else 'source %s / expected %s' % (auto, sorted(exp))})
    for (fn, member, kinds, kw) in ROW_MEMBERS + TABLE_MEMBERS:
        bodies = find_member(objs_r, 'DataRow', member, kinds, **kw) if (fn, member, kinds, kw) in ROW_MEMBERS else \
            find_member(objs_t, 'DataTable', member, kinds, **kw)
        try:
            texts_ = set()
            for b_ in bodies:      # a member template may be instantiated several times (pvCreateRaw<lambda>): all instantiations must agree
                lines = []; norm_stmt(b_, lines, 0); texts_.add('\n'.join(lines))
            if len(texts_) != 1:
                obl.append({'name': 'AST: instantiated body of ' + fn, 'ok': False, 'detail': '%d instantiated bodies, %d different texts' % (len(bodies), len(texts_))})
                continue
            text = texts_.pop()
        except (Deviation, KeyError, IndexError, TypeError) as e:
            obl.append({'name': 'AST: canonical form of ' + fn, 'ok': False, 'detail': 'cannot normalise: %r' % (e,)})
            continue
        report[fn] = {'text': text, 'automaton': []}
        ok = text == EXPECTED_TEXT[fn]
        det = ''
        if not ok:
            import difflib
            det = '\n'.join(difflib.unified_diff(EXPECTED_TEXT[fn].splitlines(), text.splitlines(), 'modelled', 'source', lineterm=''))
        obl.append({'name': 'AST: %s has exactly the modelled effect %s' % (fn, 'on (mColumnList, mRaw, mFreeRaws) [TreiberRows.v]' if fn.startswith('DataRow') else '[TreiberCreate.v / TreiberRows.v / RawPoolSize.v]'), 'ok': ok, 'detail': det})
    return obl, report


if __name__ == '__main__':
    repo = os.environ.get('VERIF_REPO', '/repo')
    prog = open(sys.argv[1]).read().splitlines() if len(sys.argv) > 1 else []
    obl, rep = check(repo, prog)
    for fn, r in rep.items():
        print('==', fn); print(r['text']); print('\n'.join(r['automaton']))
    for o in obl:
        print('OK ' if o['ok'] else 'BAD', o['name'], o['detail'])
