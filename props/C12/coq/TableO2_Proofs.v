(* C12: element_found_after_growth on the table model TableO2 (generated leaves + hand glue). *)
From Coq Require Import ZArith Bool List Lia.
From MomoCommon Require Import GenPrelude.
From C12 Require Import Bits Known Gen_Base Gen_O2 Gen_O2MP MP_Open2N2 O2_Slot Chain TableO2.
Import ListNotations.
Local Open Scope Z_scope.

(* ---------------------------------------------------------------- mState: count bits vs max-probe encoding *)
Lemma cnt_val b : 0 <= bst b 1 -> cnt b = bst b 1 mod 4.
Proof. intros. unfold cnt, Gen_O2.pvGetCount. apply land3. assumption. Qed.

Lemma decode_upd1 st v : v / 4 = st 1 / 4 -> 0 <= v -> 0 <= st 1 -> decode (upd st 1 v) = decode st.
Proof.
  intros Hv H0 H1. unfold decode, Gen_O2MP.pvGetMaxProbe. rewrite upd_same, upd_other by lia.
  rewrite !Z.shiftr_div_pow2 by lia. change (2 ^ 2) with 4. rewrite Hv. reflexivity.
Qed.

Lemma st_inc st : enc_inv st -> st 1 mod 4 < 3 ->
  let st' := upd st 1 (wrapU 8 (st 1 + 1)) in
  enc_inv st' /\ decode st' = decode st /\ st' 1 mod 4 = st 1 mod 4 + 1 /\ st' 0 = st 0.
Proof.
  intros (H0 & H1 & Hm & He) Hc. cbv zeta.
  assert (Hlt : st 1 + 1 < 256) by (clear - H1 Hc He; Z.div_mod_to_equations; lia).
  rewrite wrapU_small by (change (2 ^ 8) with 256; lia).
  assert (Hd : (st 1 + 1) / 4 = st 1 / 4) by (clear - H1 Hc; Z.div_mod_to_equations; lia).
  set (v := st 1 + 1) in *. set (st' := upd st 1 v).
  assert (E0 : st' 0 = st 0) by (subst st'; apply upd_other; lia).
  assert (E1 : st' 1 = v) by (subst st'; apply upd_same).
  split; [|split; [|split]].
  - unfold enc_inv. rewrite E0, E1, Hd. lia.
  - subst st'. apply decode_upd1; lia.
  - rewrite E1. subst v. clear - H1 Hc. Z.div_mod_to_equations. lia.
  - exact E0.
Qed.

Lemma st_dec st : enc_inv st -> 0 < st 1 mod 4 ->
  let st' := upd st 1 (wrapU 8 (st 1 - 1)) in
  enc_inv st' /\ decode st' = decode st /\ st' 1 mod 4 = st 1 mod 4 - 1 /\ st' 0 = st 0.
Proof.
  intros (H0 & H1 & Hm & He) Hc. cbv zeta.
  assert (Hlt : 0 <= st 1 - 1) by (clear - H1 Hc; Z.div_mod_to_equations; lia).
  rewrite wrapU_small by (change (2 ^ 8) with 256; lia).
  assert (Hd : (st 1 - 1) / 4 = st 1 / 4) by (clear - H1 Hc; Z.div_mod_to_equations; lia).
  set (v := st 1 - 1) in *. set (st' := upd st 1 v).
  assert (E0 : st' 0 = st 0) by (subst st'; apply upd_other; lia).
  assert (E1 : st' 1 = v) by (subst st'; apply upd_same).
  split; [|split; [|split]].
  - unfold enc_inv. rewrite E0, E1, Hd. lia.
  - subst st'. apply decode_upd1; lia.
  - rewrite E1. subst v. clear - H1 Hc. Z.div_mod_to_equations. lia.
  - exact E0.
Qed.

(* ---------------------------------------------------------------- probe path *)
Definition pidx (L start p : Z) : Z := (start + tri p) mod 2 ^ L.

Lemma tri_succ p : 0 <= p -> tri (p + 1) = tri p + (p + 1).
Proof.
  intros. unfold tri. replace ((p + 1) * (p + 1 + 1)) with (p * (p + 1) + (p + 1) * 2) by lia.
  rewrite Z.div_add by lia. reflexivity.
Qed.

Lemma next_pidx L start p : 0 <= L <= 63 -> 0 <= p -> p + 1 < 2 ^ L ->
  Gen_O2.GetNextBucketIndex (pidx L start p) (2 ^ L) (p + 1) = pidx L start (p + 1).
Proof.
  intros HL Hp Hlt. unfold Gen_O2.GetNextBucketIndex, pidx.
  assert (0 < 2 ^ L) by (apply pow2_pos; lia).
  assert (2 ^ L <= 2 ^ 63) by (apply pow2_le_mono; lia).
  rewrite (wrapU_small 64 (2 ^ L - 1)) by (change (2 ^ 64) with (2 * 2 ^ 63); lia).
  rewrite pow2m1_ones. rewrite land_wrap64_ones by lia.
  rewrite Zplus_mod_idemp_l. rewrite tri_succ by lia. f_equal. lia.
Qed.

Lemma pidx_range L start p : 0 <= L -> 0 <= pidx L start p < 2 ^ L.
Proof. intros. unfold pidx. apply Z.mod_pos_bound. apply pow2_pos. lia. Qed.

Lemma probe_loop_spec L t start : 0 <= L <= 63 -> forall fuel probe,
  0 <= probe < 2 ^ L -> (Z.to_nat (2 ^ L - probe) <= fuel)%nat ->
  match probe_loop fuel t (2 ^ L) (pidx L start probe) probe with
  | Ok (idx, p) => probe <= p < 2 ^ L /\ idx = pidx L start p /\
                   Gen_O2.IsFull (bst (t idx)) (bsh (t idx)) (bhp (t idx)) = false
  | Exn => True
  | _ => False
  end.
Proof.
  intros HL. assert (2 ^ L <= 2 ^ 63) by (apply pow2_le_mono; lia).
  induction fuel as [|f IH]; intros probe Hp Hf.
  - exfalso. lia.
  - cbn [probe_loop]. destruct (Gen_O2.IsFull _ _ _) eqn:Hfull.
    + rewrite (wrapU_small 64 (probe + 1)) by (change (2 ^ 64) with (2 * 2 ^ 63); lia).
      destruct (Z.geb_spec (probe + 1) (2 ^ L)); [exact I|].
      rewrite next_pidx by lia.
      specialize (IH (probe + 1) ltac:(lia) ltac:(lia)).
      destruct (probe_loop f t (2 ^ L) (pidx L start (probe + 1)) (probe + 1)) as [[idx p]| | |]; try assumption.
      destruct IH as (H1 & H2 & H3). repeat split; try assumption; lia.
    + repeat split; try lia. assumption.
Qed.

(* ---------------------------------------------------------------- table invariant *)
Section Inv.
Variable hash : Z -> Z.
Hypothesis hash_range : forall k, 0 <= hash k < 2 ^ 64.

Definition occ (b : bucket) (slot : Z) : Prop := 3 - cnt b <= slot <= 2.
Definition bwf (b : bucket) : Prop :=
  enc_inv (bst b) /\ (forall i, 0 <= i < 3 - cnt b -> bsh b i = 128) /\ (forall i, 3 - cnt b <= i <= 2 -> 0 <= bsh b i < 128).
Definition home (L key : Z) : Z := Gen_Base.GetStartBucketIndex (hash key) (2 ^ L).

(* the element in (bucket b, slot) sits on the probe path of the home bucket of its TRUE hash, within the bound recorded
   there, with the short hash of its true hash and (where the byte is live) the packing of its true hash *)
Definition elem_ok (L : Z) (t : table) (b slot : Z) : Prop :=
  let key := bky (t b) slot in let h := hash key in
  exists p, 0 <= p < 2 ^ L /\ b = pidx L (home L key) p /\ p <= decode (bst (t (home L key))) /\
    bsh (t b) slot = Gen_O2.pvCalcShortHash h /\ 0 <= bhp (t b) slot < 256 /\
    ((L + 7) mod 8 <> 0 -> bhp (t b) slot = o2_byte h L p).

Definition Tinv (L : Z) (t : table) : Prop :=
  (forall i, bwf (t i)) /\ (forall b slot, 0 <= b < 2 ^ L -> occ (t b) slot -> elem_ok L t b slot).

Definition At (L : Z) (t : table) (k b s : Z) : Prop := 0 <= b < 2 ^ L /\ occ (t b) s /\ bky (t b) s = k.

Definition Present (L : Z) (t : table) (key : Z) : Prop :=
  exists b slot, 0 <= b < 2 ^ L /\ occ (t b) slot /\ bky (t b) slot = key.

Lemma bwf_cnt b : bwf b -> 0 <= cnt b <= 3 /\ cnt b = bst b 1 mod 4.
Proof.
  intros [(H0 & H1 & _) _]. rewrite cnt_val by lia. split; [|reflexivity]. pose proof (Z.mod_pos_bound (bst b 1) 4 ltac:(lia)). lia.
Qed.

Lemma home_range L key : 0 <= L <= 63 -> 0 <= home L key < 2 ^ L.
Proof. intros. unfold home. rewrite start_mod by lia. apply Z.mod_pos_bound. apply pow2_pos. lia. Qed.

Lemma pidx_0 L s : 0 <= L -> 0 <= s < 2 ^ L -> pidx L s 0 = s.
Proof. intros. unfold pidx, tri. simpl. rewrite Z.add_0_r. apply Z.mod_small. assumption. Qed.

Lemma empty_inv L : Tinv L empty_table.
Proof.
  split.
  - intros i. unfold bwf, empty_table, empty_bucket, cnt. cbn. split; [unfold enc_inv; cbn; lia|]. split; intros x Hx; [|lia].
    unfold Gen_O2.maxCount. destruct (Z.leb_spec 0 x), (Z.ltb_spec x 3); try lia. reflexivity.
  - intros b slot Hb Ho. unfold occ, empty_table, empty_bucket, cnt in Ho. cbn in Ho. lia.
Qed.

(* pvAddNogrow with a code that agrees with the true hash on what the placement reads *)
Lemma add_nogrow_spec L t code key : 0 <= L <= 63 -> Tinv L t -> 0 <= code < 2 ^ 64 ->
  Gen_Base.GetStartBucketIndex code (2 ^ L) = home L key ->
  Gen_O2.pvCalcShortHash code = Gen_O2.pvCalcShortHash (hash key) ->
  (forall p, 0 <= p -> (L + 7) mod 8 <> 0 -> o2_byte code L p = o2_byte (hash key) L p) ->
  match add_nogrow t L code key with
  | Ok t' => Tinv L t' /\ Present L t' key /\ (forall k, Present L t k -> Present L t' k) /\
             (exists b0 s0, ~ occ (t b0) s0 /\ forall k b s, At L t' k b s <-> (At L t k b s \/ (k = key /\ b = b0 /\ s = s0 /\ 0 <= b0 < 2 ^ L)))
  | Exn => True
  | _ => False
  end.
Proof.
  intros HL [Hwf Hel] Hcode Hstart Hshort Hbyte.
  assert (Hpos : 0 < 2 ^ L) by (apply pow2_pos; lia).
  assert (Hle : 2 ^ L <= 2 ^ 63) by (apply pow2_le_mono; lia).
  unfold add_nogrow. rewrite shl1_pow2 by lia.
  rewrite (wrapU_small 64 (2 ^ L)) by (change (2 ^ 64) with (2 * 2 ^ 63); lia).
  rewrite Hstart. pose proof (home_range L key ltac:(lia)) as Hhome. set (start := home L key) in *.
  pose proof (probe_loop_spec L t start ltac:(lia) (S (Z.to_nat (2 ^ L))) 0 ltac:(lia) ltac:(lia)) as Hloop.
  rewrite pidx_0 in Hloop by lia.
  destruct (probe_loop _ t (2 ^ L) start 0) as [[idx p]| | |]; try exact Hloop.
  destruct Hloop as (Hp & Hidx & Hfull).
  pose proof (Hwf idx) as Hwfi. pose proof (bwf_cnt _ Hwfi) as [Hc Hcv]. destruct Hwfi as (Henc & Hemp & Hoc).
  set (c := cnt (t idx)) in *.
  assert (Hc3 : c < 3).
  { destruct (Z.lt_ge_cases c 3); [assumption|exfalso]. assert (c = 3) by lia.
    unfold Gen_O2.IsFull, Gen_O2.emptyShortHash in Hfull. pose proof (Hoc 0 ltac:(lia)).
    change (wrapU 8 (Z.shiftl 1 (wrapU 64 (wrapU 64 (1 * 8) - 1)))) with 128 in Hfull.
    destruct (Z.ltb_spec (bsh (t idx) 0) 128); [discriminate|lia]. }
  rewrite o2_addcrt_eq by (try lia; change (2 ^ 64) with (2 * 2 ^ 63); lia).
  fold (cnt (t idx)). fold c. cbv zeta. destruct (Z.ltb_spec c 3); [|lia].
  rewrite (wrapU_small 64 (2 - c)) by (change (2 ^ 64) with 18446744073709551616; lia).
  destruct (st_inc (bst (t idx)) Henc ltac:(lia)) as (Henc' & Hdec' & Hcnt' & Hs0').
  set (st' := upd (bst (t idx)) 1 (wrapU 8 (bst (t idx) 1 + 1))) in *.
  set (sh' := upd (bsh (t idx)) (2 - c) (Gen_O2.pvCalcShortHash code)).
  set (hp' := upd (bhp (t idx)) (2 - c) (o2_byte code L p)).
  set (ky' := upd (bky (t idx)) (2 - c) key).
  set (t1 := tupd t idx (mkB st' sh' hp' ky')).
  assert (Henc1 : enc_inv (bst (t1 start))).
  { unfold t1, tupd. destruct (Z.eqb start idx); [exact Henc'|apply (Hwf start)]. }
  destruct (update_spec (bst (t1 start)) p Henc1 ltac:(lia))
    as (st'' & Hupd & Henc'' & Hcov & Hmono & Hcb).
  rewrite Hupd. unfold count_bits in Hcb.
  set (t' := tupd t1 start (mkB st'' (bsh (t1 start)) (bhp (t1 start)) (bky (t1 start)))).
  (* frame facts *)
  assert (Fsh : forall j, bsh (t' j) = if Z.eqb j idx then sh' else bsh (t j)).
  { intros j. unfold t', t1, tupd. destruct (Z.eqb_spec j start) as [->|]; cbn [bsh]; destruct (Z.eqb start idx) eqn:E; try reflexivity.
    all: destruct (Z.eqb j idx); reflexivity. }
  assert (Fhp : forall j, bhp (t' j) = if Z.eqb j idx then hp' else bhp (t j)).
  { intros j. unfold t', t1, tupd. destruct (Z.eqb_spec j start) as [->|]; cbn [bhp]; destruct (Z.eqb start idx) eqn:E; try reflexivity.
    all: destruct (Z.eqb j idx); reflexivity. }
  assert (Fky : forall j, bky (t' j) = if Z.eqb j idx then ky' else bky (t j)).
  { intros j. unfold t', t1, tupd. destruct (Z.eqb_spec j start) as [->|]; cbn [bky]; destruct (Z.eqb start idx) eqn:E; try reflexivity.
    all: destruct (Z.eqb j idx); reflexivity. }
  assert (Fst : forall j, enc_inv (bst (t' j)) /\ decode (bst (t j)) <= decode (bst (t' j)) /\
                          bst (t' j) 1 mod 4 = (if Z.eqb j idx then c + 1 else bst (t j) 1 mod 4) /\
                          (j = start -> p <= decode (bst (t' j)))).
  { intros j. unfold t', tupd. destruct (Z.eqb_spec j start) as [Hjs|Hjs]; cbn [bst].
    - assert (Hc1 : st'' 1 mod 4 = bst (t1 start) 1 mod 4).
      { unfold Gen_O2MP.pvGetCount in Hcb. destruct Henc'' as (_ & ? & _). destruct Henc1 as (_ & ? & _).
        rewrite !land3 in Hcb by lia. exact Hcb. }
      assert (Hrel : decode (bst (t j)) <= decode (bst (t1 start)) /\
                     bst (t1 start) 1 mod 4 = (if Z.eqb j idx then c + 1 else bst (t j) 1 mod 4)).
      { rewrite Hjs. unfold t1, tupd. destruct (Z.eqb_spec start idx) as [E|E]; cbn [bst].
        - rewrite E. split; lia.
        - split; lia. }
      destruct Hrel as [Hr1 Hr2]. split; [exact Henc''|]. split; [lia|]. split; [congruence|]. intros _. exact Hcov.
    - unfold t1, tupd. destruct (Z.eqb_spec j idx) as [E|E]; cbn [bst].
      + rewrite E. split; [exact Henc'|]. split; [lia|]. split; [lia|]. intros Hx; exfalso; lia.
      + destruct (Hwf j) as (He & _). split; [exact He|]. split; [lia|]. split; [reflexivity|]. intros Hx; exfalso; lia.
  }
  assert (Fcnt : forall j, cnt (t' j) = if Z.eqb j idx then c + 1 else cnt (t j)).
  { intros j. destruct (Fst j) as ((_ & H1 & _) & _ & Hm & _). rewrite cnt_val by lia. rewrite Hm.
    destruct (Z.eqb j idx); [reflexivity|]. destruct (bwf_cnt _ (Hwf j)) as [_ ->]. reflexivity. }
  assert (Hidxr : 0 <= idx < 2 ^ L) by (rewrite Hidx; apply pidx_range; lia).
  pose proof (o2_short_range code Hcode) as Hsr.
  split; [split|split; [|split]].
  - (* bucket well-formedness *)
    intros j. unfold bwf. rewrite Fsh, Fcnt. destruct (Fst j) as (He & _). split; [exact He|].
    destruct (Z.eqb_spec j idx) as [->|].
    + split; intros i Hi; unfold sh', upd; destruct (Z.eqb_spec i (2 - c)); try lia.
      * apply Hemp. fold c. lia.
      * apply Hoc. fold c. lia.
    + apply (Hwf j).
  - (* every element is on its true-hash probe path within the recorded bound *)
    intros b slot Hb Ho. unfold occ in Ho. rewrite Fcnt in Ho. unfold elem_ok. rewrite Fky, Fsh, Fhp.
    destruct (Z.eqb_spec b idx) as [->|Hne].
    + destruct (Z.eq_dec slot (2 - c)) as [->|Hns].
      * unfold ky', sh', hp'. rewrite !upd_same. exists p. fold start.
        destruct (Fst start) as (_ & _ & _ & Hb4). specialize (Hb4 eq_refl).
        pose proof (o2_byte_range code L p ltac:(lia) ltac:(lia)) as Hbr.
        repeat split; try lia; try assumption; try (intros Hnz; apply Hbyte; lia).
      * assert (Ho' : occ (t idx) slot) by (unfold occ; fold c; lia).
        destruct (Hel idx slot Hb Ho') as (p0 & Hp0 & Hb0 & Hbd0 & Hs0 & Hr0 & Hy0).
        unfold ky', sh', hp'. rewrite !upd_other by lia. exists p0.
        destruct (Fst (home L (bky (t idx) slot))) as (_ & Hm & _).
        repeat split; try assumption; try lia.
    + assert (Ho' : occ (t b) slot) by (unfold occ; lia).
      destruct (Hel b slot Hb Ho') as (p0 & Hp0 & Hb0 & Hbd0 & Hs0 & Hr0 & Hy0).
      exists p0. destruct (Fst (home L (bky (t b) slot))) as (_ & Hm & _).
      repeat split; try assumption; try lia.
  - exists idx, (2 - c). split; [assumption|]. split.
    + unfold occ. rewrite Fcnt, Z.eqb_refl. lia.
    + rewrite Fky, Z.eqb_refl. unfold ky'. apply upd_same.
  - intros k (b & slot & Hb & Ho & Hk). exists b, slot. split; [assumption|]. unfold occ in *. rewrite Fcnt, Fky.
    destruct (Z.eqb_spec b idx) as [->|]; [|split; assumption].
    fold c in Ho. split; [lia|]. unfold ky'. rewrite upd_other by lia. assumption.
  - exists idx, (2 - c). split; [unfold occ; fold c; lia|]. intros k b s. unfold At, occ. rewrite Fcnt, Fky.
    destruct (Z.eqb_spec b idx) as [->|Hne].
    + fold c. unfold ky', upd. destruct (Z.eqb_spec s (2 - c)) as [->|Hns]; split.
      * intros (Hb & Ho & Hk). right. repeat split; try assumption; try lia.
      * intros [(Hb & Ho & Hk)|(-> & _)]; [lia|]. repeat split; try assumption; lia.
      * intros (Hb & Ho & Hk). left. repeat split; try assumption; lia.
      * intros [(Hb & Ho & Hk)|(_ & _ & Hs & _)]; [|lia]. repeat split; try assumption; lia.
    + split.
      * intros G. left. exact G.
      * intros [G|(_ & Hb & _)]; [exact G|contradiction].
Qed.

(* GetHashCodePart on the raw arrays of a bucket whose slot idx holds a live element (true hash h, displacement probe) *)
Lemma o2_code_raw st sh hp h bidx L newL idx probe : 0 <= h < 2 ^ 64 -> 0 <= L <= 63 -> L < newL <= 63 -> 0 <= probe ->
  sh idx = Gen_O2.pvCalcShortHash h -> 0 <= hp idx < 256 -> ((L + 7) mod 8 <> 0 -> hp idx = o2_byte h L probe) ->
  bidx = (h mod 2 ^ L + tri probe) mod 2 ^ L ->
  exists c, Gen_O2.GetHashCodePart st sh hp h bidx L newL idx = Ok c /\ (c = h \/ c = known (qof newL) h).
Proof.
  intros Hh HL HnL Hp Hsh Hr Hv Hb.
  destruct (Z.eq_dec ((L + 7) mod 8) 0) as [Hz|Hnz].
  - rewrite o2_getpart_eq by lia.
    assert (Hq : qof L <> qof newL) by (unfold qof; clear - Hz HL HnL; Z.div_mod_to_equations; lia).
    replace (o2_full_used (hp idx) L newL) with true.
    + exists h. split; [reflexivity|left; reflexivity].
    + symmetry. apply o2_full_getter_iff. right. assumption.
  - rewrite (o2_reconstruct st sh hp h bidx L newL idx h probe); try lia; try assumption; try (apply Hv; assumption).
    eexists. split; [reflexivity|].
    destruct (o2_full_used _ _ _) eqn:Hfu; [left; reflexivity|right].
    unfold o2_full_used in Hfu. apply orb_false_iff in Hfu. destruct Hfu as [_ Hq].
    destruct (Z.eqb_spec (qof L) (qof newL)) as [->|]; [reflexivity|discriminate].
Qed.

(* one iteration of pvRelocateItems' inner loop: the element moves to the new table onto the probe path of its TRUE hash *)
Lemma relocate_item_spec L newL told tnew i : 0 <= L -> L < newL <= 63 -> Tinv L told -> Tinv newL tnew ->
  0 <= i < 2 ^ L -> 0 < cnt (told i) ->
  match relocate_item hash told tnew L newL i with
  | Ok (told', tnew') =>
      Tinv L told' /\ Tinv newL tnew' /\ cnt (told' i) = cnt (told i) - 1 /\ (forall j, j <> i -> told' j = told j) /\
      (forall k, Present L told k -> Present L told' k \/ Present newL tnew' k) /\
      (forall k, Present newL tnew k -> Present newL tnew' k) /\
      (* position-level bookkeeping: exactly one stored element leaves the old table and enters a free slot of the new one *)
      (let key := bky (told i) (3 - cnt (told i)) in
       At L told key i (3 - cnt (told i)) /\
       (forall k b s, At L told' k b s <-> (At L told k b s /\ ~ (b = i /\ s = 3 - cnt (told i)))) /\
       exists b0 s0, ~ occ (tnew b0) s0 /\
         forall k b s, At newL tnew' k b s <-> (At newL tnew k b s \/ (k = key /\ b = b0 /\ s = s0 /\ 0 <= b0 < 2 ^ newL)))
  | Exn => True
  | _ => False
  end.
Proof.
  intros HL0 HnL [Hwf Hel] Hnew Hi Hc0. unfold relocate_item.
  pose proof (Hwf i) as Hwfi. pose proof (bwf_cnt _ Hwfi) as [Hc Hcv]. destruct Hwfi as (Henc & Hemp & Hoc).
  set (b := told i) in *. set (c := cnt b) in *. set (slot := 3 - c). set (key := bky b slot).
  assert (Ho : occ b slot) by (unfold occ; fold c; subst slot; lia).
  destruct (Hel i slot Hi Ho) as (p0 & Hp0 & Hb0 & Hbd0 & Hs0 & Hr0 & Hy0). fold b key in Hb0, Hbd0, Hs0, Hr0, Hy0.
  pose proof (hash_range key) as Hh.
  destruct (o2_code_raw (bst b) (bsh b) (bhp b) (hash key) i L newL slot p0 Hh ltac:(lia) HnL ltac:(lia) Hs0 Hr0 Hy0)
    as (code & Hcode & Hcc).
  { rewrite Hb0 at 1. unfold pidx, home. rewrite start_mod by lia. reflexivity. }
  fold b c slot key. rewrite Hcode.
  assert (Hq0 : 0 <= qof newL) by (apply qof_nonneg; lia).
  assert (Hagree : 0 <= code < 2 ^ 64 /\ Gen_Base.GetStartBucketIndex code (2 ^ newL) = home newL key /\
                   Gen_O2.pvCalcShortHash code = Gen_O2.pvCalcShortHash (hash key) /\
                   (forall p, 0 <= p -> (newL + 7) mod 8 <> 0 -> o2_byte code newL p = o2_byte (hash key) newL p)).
  { destruct Hcc as [->| ->]; [repeat split; try reflexivity; lia|].
    split; [apply known_range; lia|]. split; [|split].
    - unfold home. apply start_known; try lia. apply qof_le. lia.
    - apply o2_short_known. lia.
    - intros p Hp Hnz. apply o2_byte_known; try lia. }
  destruct Hagree as (Hcr & Ha1 & Ha2 & Ha3).
  pose proof (add_nogrow_spec newL tnew code key ltac:(lia) Hnew Hcr Ha1 Ha2 Ha3) as Hadd.
  destruct (add_nogrow tnew newL code key) as [tnew'| | |]; try exact Hadd.
  destruct Hadd as (Hnew' & Hpres & Hmono & Hpos).
  rewrite o2_remove_eq by (fold (cnt b); fold c; lia). fold (cnt b). fold c. cbv zeta. fold slot.
  destruct (Z.geb_spec slot slot); [|lia].
  destruct (st_dec (bst b) Henc ltac:(lia)) as (Henc' & Hdec' & Hcnt' & Hs0').
  set (st' := upd (bst b) 1 (wrapU 8 (bst b 1 - 1))) in *.
  set (sh' := upd (upd (bsh b) slot (bsh b slot)) slot 128).
  set (hp' := upd (bhp b) slot (bhp b slot)).
  set (told' := tupd told i (mkB st' sh' hp' (bky b))).
  assert (Fcnt : forall j, cnt (told' j) = if Z.eqb j i then c - 1 else cnt (told j)).
  { intros j. unfold told', tupd. destruct (Z.eqb_spec j i); [|reflexivity].
    destruct Henc' as (_ & ? & _). rewrite cnt_val by (cbn [bst]; lia). cbn [bst]. lia. }
  assert (Fdec : forall j, decode (bst (told' j)) = decode (bst (told j))).
  { intros j. unfold told', tupd. destruct (Z.eqb_spec j i) as [->|]; [|reflexivity]. cbn [bst]. exact Hdec'. }
  assert (Fhp : forall j x, bhp (told' j) x = bhp (told j) x).
  { intros j x. unfold told', tupd. destruct (Z.eqb_spec j i) as [->|]; [|reflexivity]. cbn [bhp]. unfold hp', upd.
    destruct (Z.eqb_spec x slot) as [->|]; reflexivity. }
  assert (Fky : forall j, bky (told' j) = bky (told j)).
  { intros j. unfold told', tupd. destruct (Z.eqb_spec j i) as [->|]; reflexivity. }
  assert (Fsh : forall j x, (j <> i \/ x <> slot) -> bsh (told' j) x = bsh (told j) x).
  { intros j x Hx. unfold told', tupd. destruct (Z.eqb_spec j i) as [->|]; [|reflexivity]. cbn [bsh]. unfold sh'.
    rewrite !upd_other by lia. reflexivity. }
  split; [split|split; [exact Hnew'|split; [|split; [|split; [|split]]]]].
  - intros j. unfold bwf. rewrite Fcnt. destruct (Z.eqb_spec j i) as [->|Hne].
    + split; [unfold told', tupd; rewrite Z.eqb_refl; exact Henc'|]. split; intros x Hx.
      * destruct (Z.eq_dec x slot) as [->|]; [unfold told', tupd; rewrite Z.eqb_refl; cbn [bsh]; unfold sh'; apply upd_same|].
        rewrite Fsh by lia. apply Hemp. subst slot. lia.
      * rewrite Fsh by (subst slot; lia). apply Hoc. lia.
    + pose proof (Hwf j) as Hj. unfold bwf in Hj. unfold told', tupd. destruct (Z.eqb_spec j i); [contradiction|exact Hj].
  - intros b0 slot0 Hb0r Ho0. unfold occ in Ho0. rewrite Fcnt in Ho0.
    assert (Ho0' : occ (told b0) slot0 /\ (b0 <> i \/ slot0 <> slot)).
    { unfold occ. destruct (Z.eqb_spec b0 i) as [->|]; [fold b; fold c; subst slot; lia|lia]. }
    destruct Ho0' as [Ho0' Hdiff].
    destruct (Hel b0 slot0 Hb0r Ho0') as (p1 & Hp1 & Hbb1 & Hbd1 & Hs1 & Hr1 & Hy1).
    unfold elem_ok. rewrite Fky, Fdec, Fhp, Fsh by assumption. exists p1. repeat split; try assumption; lia.
  - rewrite Fcnt, Z.eqb_refl. reflexivity.
  - intros j Hj. unfold told', tupd. destruct (Z.eqb_spec j i); [contradiction|reflexivity].
  - intros k (b0 & slot0 & Hb0r & Ho0 & Hk0).
    destruct (Z.eq_dec b0 i) as [->|Hne]; [destruct (Z.eq_dec slot0 slot) as [->|Hns]|].
    + right. fold b in Hk0. fold key in Hk0. rewrite <- Hk0. exact Hpres.
    + left. exists i, slot0. split; [assumption|]. unfold occ in *. rewrite Fcnt, Z.eqb_refl, Fky. fold b c in Ho0. subst slot. split; [lia|assumption].
    + left. exists b0, slot0. split; [assumption|]. unfold occ in *. rewrite Fcnt, Fky. destruct (Z.eqb_spec b0 i); [contradiction|]. split; assumption.
  - exact Hmono.
  - fold b c slot key. split; [unfold At; fold b; split; [assumption|split; [exact Ho|reflexivity]]|]. split; [|exact Hpos].
    intros k b1 s1. unfold At, occ. rewrite Fcnt, Fky. destruct (Z.eqb_spec b1 i) as [->|Hne].
    + fold b c. subst slot. split.
      * intros (Hb & Hoc1 & Hk). split; [split; [assumption|split; [lia|assumption]]|lia].
      * intros ((Hb & Hoc1 & Hk) & Hn). split; [assumption|]. split; [|assumption].
        destruct (Z.eq_dec s1 (3 - c)); [exfalso; apply Hn; split; [reflexivity|assumption]|lia].
    + split.
      * intros G. split; [exact G|]. intros [E _]. contradiction.
      * intros [G _]. exact G.
Qed.

Definition mig_post (L newL : Z) (told tnew told' tnew' : table) : Prop :=
  Tinv L told' /\ Tinv newL tnew' /\
  (forall k, Present L told k -> Present L told' k \/ Present newL tnew' k) /\
  (forall k, Present newL tnew k -> Present newL tnew' k).

Lemma migrate_bucket_spec L newL i : 0 <= L -> L < newL <= 63 -> 0 <= i < 2 ^ L ->
  forall fuel told tnew, Tinv L told -> Tinv newL tnew -> (Z.to_nat (cnt (told i)) < fuel)%nat ->
  match migrate_bucket hash fuel told tnew L newL i with
  | Ok (told', tnew') => mig_post L newL told tnew told' tnew' /\ cnt (told' i) = 0 /\ (forall j, j <> i -> told' j = told j)
  | Exn => True
  | _ => False
  end.
Proof.
  intros HL HnL Hi. induction fuel as [|f IH]; intros told tnew Hold Hnew Hf; [lia|].
  cbn [migrate_bucket]. pose proof (bwf_cnt _ (proj1 Hold i)) as [Hc _].
  destruct (Z.eqb_spec (cnt (told i)) 0) as [Hz|Hnz].
  - split; [|split; [assumption|reflexivity]]. unfold mig_post. split; [exact Hold|split; [exact Hnew|split; auto]].
  - pose proof (relocate_item_spec L newL told tnew i HL HnL Hold Hnew Hi ltac:(lia)) as Hstep.
    destruct (relocate_item hash told tnew L newL i) as [[told1 tnew1]| | |]; try exact Hstep.
    destruct Hstep as (Ho1 & Hn1 & Hc1 & Hfr1 & Hp1 & Hm1 & _).
    specialize (IH told1 tnew1 Ho1 Hn1 ltac:(lia)).
    destruct (migrate_bucket hash f told1 tnew1 L newL i) as [[told2 tnew2]| | |]; try exact IH.
    destruct IH as ((Ho2 & Hn2 & Hp2 & Hm2) & Hc2 & Hfr2).
    split; [|split; [assumption|]].
    + unfold mig_post. split; [exact Ho2|split; [exact Hn2|split]].
      * intros k Hk. destruct (Hp1 k Hk) as [H1|H1]; [apply Hp2; assumption|right; apply Hm2; assumption].
      * intros k Hk. apply Hm2, Hm1. assumption.
    + intros j Hj. rewrite Hfr2, Hfr1 by assumption. reflexivity.
Qed.

Lemma migrate_from_spec L newL : 0 <= L -> L < newL <= 63 ->
  forall n told tnew i, 0 <= i -> i + Z.of_nat n <= 2 ^ L -> Tinv L told -> Tinv newL tnew ->
  (forall j, 0 <= j < i -> cnt (told j) = 0) ->
  match migrate_from hash n told tnew L newL i with
  | Ok (told', tnew') => mig_post L newL told tnew told' tnew' /\ (forall j, 0 <= j < i + Z.of_nat n -> cnt (told' j) = 0)
  | Exn => True
  | _ => False
  end.
Proof.
  intros HL HnL. induction n as [|m IH]; intros told tnew i Hi Hn Hold Hnew Hz.
  - cbn [migrate_from]. split; [|intros j Hj; apply Hz; lia].
    unfold mig_post. split; [exact Hold|split; [exact Hnew|split; auto]].
  - cbn [migrate_from].
    pose proof (bwf_cnt _ (proj1 Hold i)) as [Hc _].
    pose proof (migrate_bucket_spec L newL i HL HnL ltac:(lia) 4%nat told tnew Hold Hnew ltac:(lia)) as Hb.
    destruct (migrate_bucket hash 4 told tnew L newL i) as [[told1 tnew1]| | |]; try exact Hb.
    destruct Hb as ((Ho1 & Hn1 & Hp1 & Hm1) & Hc1 & Hfr1).
    specialize (IH told1 tnew1 (i + 1) ltac:(lia) ltac:(lia) Ho1 Hn1).
    assert (Hz1 : forall j, 0 <= j < i + 1 -> cnt (told1 j) = 0).
    { intros j Hj. destruct (Z.eq_dec j i) as [->|]; [assumption|]. rewrite Hfr1 by assumption. apply Hz. lia. }
    specialize (IH Hz1).
    destruct (migrate_from hash m told1 tnew1 L newL (i + 1)) as [[told2 tnew2]| | |]; try exact IH.
    destruct IH as ((Ho2 & Hn2 & Hp2 & Hm2) & Hz2).
    split.
    + unfold mig_post. split; [exact Ho2|split; [exact Hn2|split]].
      * intros k Hk. destruct (Hp1 k Hk) as [H1|H1]; [apply Hp2; assumption|right; apply Hm2; assumption].
      * intros k Hk. apply Hm2, Hm1. assumption.
    + intros j Hj. apply Hz2. lia.
Qed.

(* what pvFind + BucketOpen2N2::Find examine for key k: the probes 0..GetMaxProbe(home bucket) along the path of the TRUE
   hash, in each bucket the slots whose short hash equals the true short hash, then key equality *)
Definition Found (L : Z) (t : table) (k : Z) : Prop :=
  exists p slot, 0 <= p <= decode (bst (t (home L k))) /\ p < 2 ^ L /\ 0 <= slot <= 2 /\
    bsh (t (pidx L (home L k) p)) slot = Gen_O2.pvCalcShortHash (hash k) /\ bky (t (pidx L (home L k) p)) slot = k.

Lemma present_found L t k : Tinv L t -> Present L t k -> Found L t k.
Proof.
  intros [Hwf Hel] (b & slot & Hb & Ho & Hk). destruct (Hel b slot Hb Ho) as (p & Hp & Hbp & Hbd & Hs & _).
  rewrite Hk in *. exists p, slot. pose proof (bwf_cnt _ (Hwf b)) as [Hc _]. unfold occ in Ho.
  rewrite <- Hbp. repeat split; try lia; assumption.
Qed.

(* element_found_after_growth *)
Theorem migrate_found L newL told : 0 <= L -> L < newL <= 63 -> Tinv L told ->
  match migrate hash told L newL with
  | Ok (_, tnew) => Tinv newL tnew /\ (forall k, Present L told k -> Found newL tnew k)
  | Exn => True            (* "Hash table is full": cannot happen when the new capacity suffices; not needed here *)
  | _ => False             (* no MOMO_ASSERT fails, no loop runs out of fuel *)
  end.
Proof.
  intros HL HnL Hold. unfold migrate.
  assert (Hpos : 0 < 2 ^ L) by (apply pow2_pos; lia).
  pose proof (migrate_from_spec L newL HL HnL (Z.to_nat (2 ^ L)) told empty_table 0 ltac:(lia) ltac:(lia) Hold (empty_inv newL)
              ltac:(intros; lia)) as Hm.
  destruct (migrate_from hash (Z.to_nat (2 ^ L)) told empty_table L newL 0) as [[told' tnew']| | |]; try exact Hm.
  destruct Hm as ((Ho & Hn & Hp & _) & Hz). split; [assumption|].
  intros k Hk. apply present_found; [assumption|].
  destruct (Hp k Hk) as [(b & slot & Hb & Hocc & _)|H1]; [exfalso|assumption].
  unfold occ in Hocc. rewrite Hz in Hocc by lia. lia.
Qed.

(* a table filled by insertions with the full hash (HashSet::Insert without growth) satisfies the invariant, so the
   theorem applies to every such table; Remove only clears a slot (see the Remove part of relocate_item_spec) *)
Lemma insert_all_inv L : 0 <= L <= 63 -> forall keys t, Tinv L t ->
  match insert_all hash t L keys with
  | Ok t' => Tinv L t' /\ (forall k, Present L t k -> Present L t' k) /\ (forall k, In k keys -> Present L t' k)
  | Exn => True
  | _ => False
  end.
Proof.
  intros HL. induction keys as [|k r IH]; intros t Ht; cbn [insert_all].
  - split; [assumption|]. split; [auto|intros k []].
  - pose proof (add_nogrow_spec L t (hash k) k HL Ht (hash_range k) eq_refl eq_refl ltac:(intros; reflexivity)) as Ha.
    destruct (add_nogrow t L (hash k) k) as [t1| | |]; try exact Ha.
    destruct Ha as (Ht1 & Hp1 & Hm1 & _). specialize (IH t1 Ht1).
    destruct (insert_all hash t1 L r) as [t2| | |]; try exact IH.
    destruct IH as (Ht2 & Hm2 & Hin). split; [assumption|]. split.
    + intros k0 Hk0. apply Hm2, Hm1. assumption.
    + intros k0 [<-|Hr]; [apply Hm2; assumption|apply Hin; assumption].
Qed.
End Inv.

(* non-vacuity: a concrete table of 4 buckets with 8 colliding keys migrates to 32 buckets without "table full" *)
Definition demo_hash (k : Z) : Z := (k * 11400714819323198485) mod 2 ^ 64.
Lemma demo_hash_range k : 0 <= demo_hash k < 2 ^ 64.
Proof. unfold demo_hash. apply Z.mod_pos_bound. reflexivity. Qed.

Lemma table_nonvacuous :
  match insert_all demo_hash empty_table 2 [1; 2; 3; 4; 5; 6; 7; 8] with
  | Ok t => match migrate demo_hash t 2 5 with Ok _ => true | _ => false end
  | _ => false
  end = true.
Proof. vm_compute. reflexivity. Qed.

(* ---- round 3: the call-count observer and removal at table level ---- *)
Lemma getter_used_spec b i L newL slot : 0 <= L <= 63 -> 0 <= newL <= 63 -> 0 <= bhp b slot < 256 ->
  getter_used b i L newL slot = o2_full_used (bhp b slot) L newL.
Proof.
  intros HL HnL Hr. unfold getter_used. rewrite !o2_getpart_eq by assumption.
  destruct (o2_full_used (bhp b slot) L newL); [reflexivity|]. cbv zeta.
  destruct (_ >? 0); [|reflexivity]. rewrite Z.eqb_refl. reflexivity.
Qed.

Section Rem.
Variable hash : Z -> Z.
Hypothesis hash_range : forall k, 0 <= hash k < 2 ^ 64.

(* HashSet::Remove of any stored element keeps the table invariant: the pair of the lowest occupied slot moves with its key *)
Lemma remove_at_spec L t b slot : Tinv hash L t -> occ (t b) slot ->
  exists t', remove_at t b slot = Ok t' /\ Tinv hash L t' /\ cnt (t' b) = cnt (t b) - 1 /\ (forall j, j <> b -> t' j = t j) /\
    (forall k, Present L t k -> k = bky (t b) slot \/ Present L t' k).
Proof.
  intros [Hwf Hel] Ho. pose proof (Hwf b) as Hwfb. pose proof (bwf_cnt _ Hwfb) as [Hc Hcv]. destruct Hwfb as (Henc & Hemp & Hoc).
  unfold occ in Ho. set (bk := t b) in *. set (c := cnt bk) in *. set (lo := 3 - c).
  unfold remove_at. fold bk. rewrite o2_remove_eq by (fold (cnt bk); fold c; lia). fold (cnt bk). fold c. cbv zeta. fold lo.
  destruct (Z.geb_spec slot lo); [|lia].
  destruct (st_dec (bst bk) Henc ltac:(lia)) as (Henc' & Hdec' & Hcnt' & Hs0').
  set (st' := upd (bst bk) 1 (wrapU 8 (bst bk 1 - 1))) in *.
  set (sh' := upd (upd (bsh bk) slot (bsh bk lo)) lo 128).
  set (hp' := upd (bhp bk) slot (bhp bk lo)).
  set (ky' := upd (bky bk) slot (bky bk lo)).
  set (b' := mkB st' sh' hp' ky'). set (t' := tupd t b b').
  assert (Ft : forall j, j <> b -> t' j = t j) by (intros j Hj; unfold t', tupd; destruct (Z.eqb_spec j b); [contradiction|reflexivity]).
  assert (Fi : t' b = b') by (unfold t', tupd; rewrite Z.eqb_refl; reflexivity).
  assert (Hcb' : cnt b' = c - 1).
  { destruct Henc' as (_ & ? & _). rewrite cnt_val by (unfold b'; cbn [bst]; lia). unfold b'; cbn [bst]. lia. }
  assert (Fdec : forall j, decode (bst (t' j)) = decode (bst (t j))).
  { intros j. destruct (Z.eq_dec j b) as [->|Hne]; [rewrite Fi; unfold b'; cbn [bst]; exact Hdec'|rewrite Ft by assumption; reflexivity]. }
  exists t'. split; [reflexivity|]. split; [split|split; [rewrite Fi; exact Hcb'|split; [exact Ft|]]].
  - intros j. destruct (Z.eq_dec j b) as [->|Hne]; [|rewrite Ft by assumption; apply Hwf].
    rewrite Fi. unfold bwf. rewrite Hcb'. split; [unfold b'; cbn [bst]; exact Henc'|]. unfold b'; cbn [bsh]. split; intros x Hx; unfold sh', upd.
    + destruct (Z.eqb_spec x lo); [reflexivity|]. destruct (Z.eqb_spec x slot); [lia|]. apply Hemp. fold c. lia.
    + destruct (Z.eqb_spec x lo); [lia|]. destruct (Z.eqb_spec x slot); apply Hoc; fold c; lia.
  - intros b0 x Hb0 Hox. unfold occ in Hox. unfold elem_ok. destruct (Z.eq_dec b0 b) as [->|Hne].
    + rewrite Fi in *. rewrite Hcb' in Hox. rewrite !Fdec.
      assert (Hsrc : exists y, 3 - c <= y <= 2 /\ bky b' x = bky bk y /\ bsh b' x = bsh bk y /\ bhp b' x = bhp bk y).
      { unfold b'; cbn [bky bsh bhp]. unfold ky', sh', hp', upd. destruct (Z.eqb_spec x lo); [lia|].
        destruct (Z.eqb_spec x slot); [exists lo|exists x]; repeat split; lia. }
      destruct Hsrc as (y & Hy & E1 & E2 & E3). rewrite E1, E2, E3.
      destruct (Hel b y Hb0 ltac:(unfold occ; fold bk c; lia)) as (p1 & G). fold bk in G. exists p1. exact G.
    + rewrite Ft in * by assumption. rewrite !Fdec. destruct (Hel b0 x Hb0 Hox) as (p1 & G). exists p1. exact G.
  - intros k (b0 & x & Hb0 & Hox & Hk). destruct (Z.eq_dec b0 b) as [->|Hne].
    + fold bk in Hox, Hk. unfold occ in Hox. fold c in Hox.
      destruct (Z.eq_dec x slot) as [->|Hns]; [left; symmetry; exact Hk|right].
      destruct (Z.eq_dec x lo) as [->|Hnl].
      * exists b, slot. rewrite Fi. unfold occ. rewrite Hcb'. split; [assumption|]. split; [lia|]. unfold b'; cbn [bky]. unfold ky'. rewrite upd_same. exact Hk.
      * exists b, x. rewrite Fi. unfold occ. rewrite Hcb'. split; [assumption|]. split; [lia|]. unfold b'; cbn [bky]. unfold ky'. rewrite upd_other by lia. exact Hk.
    + right. exists b0, x. rewrite Ft by assumption. split; [assumption|split; assumption].
Qed.
End Rem.

(* ---- round 4: the budgeted / throwing loops ---- *)
Section Budget.
Variable hash : Z -> Z.
Hypothesis hash_range : forall k, 0 <= hash k < 2 ^ 64.

(* whatever prefix was migrated before the full getter threw: both generations satisfy their table invariants and no key
   is lost; if nothing was thrown the processed buckets are empty *)
Lemma migrate_bucket_c_spec L newL i budget : 0 <= L -> L < newL <= 63 -> 0 <= i < 2 ^ L ->
  forall fuel told tnew calls, Tinv hash L told -> Tinv hash newL tnew -> (Z.to_nat (cnt (told i)) < fuel)%nat ->
  match migrate_bucket_c hash fuel told tnew L newL i budget calls with
  | Ok (told', tnew', _, thrown) => mig_post hash L newL told tnew told' tnew' /\ (thrown = false -> cnt (told' i) = 0) /\
                                    (forall j, j <> i -> told' j = told j)
  | Exn => True
  | _ => False
  end.
Proof.
  intros HL HnL Hi. induction fuel as [|f IH]; intros told tnew calls Hold Hnew Hf; [lia|].
  cbn [migrate_bucket_c]. pose proof (bwf_cnt _ (proj1 Hold i)) as [Hc _].
  assert (Hid : mig_post hash L newL told tnew told tnew) by (unfold mig_post; split; [exact Hold|split; [exact Hnew|split; auto]]).
  destruct (Z.eqb_spec (cnt (told i)) 0) as [Hz|Hnz]; [split; [exact Hid|split; [intros; assumption|reflexivity]]|].
  destruct (getter_used (told i) i L newL (3 - cnt (told i)) && (budget <=? calls));
    [split; [exact Hid|split; [intros; discriminate|reflexivity]]|].
  pose proof (relocate_item_spec hash hash_range L newL told tnew i HL HnL Hold Hnew Hi ltac:(lia)) as Hstep.
  destruct (relocate_item hash told tnew L newL i) as [[told1 tnew1]| | |]; try exact Hstep.
  destruct Hstep as (Ho1 & Hn1 & Hc1 & Hfr1 & Hp1 & Hm1 & _).
  specialize (IH told1 tnew1 (if getter_used (told i) i L newL (3 - cnt (told i)) then calls + 1 else calls) Ho1 Hn1 ltac:(lia)).
  destruct (migrate_bucket_c hash f told1 tnew1 L newL i budget _) as [[[[told2 tnew2] c2] th]| | |]; try exact IH.
  destruct IH as ((Ho2 & Hn2 & Hp2 & Hm2) & Hc2 & Hfr2).
  split; [|split; [assumption|]].
  - unfold mig_post. split; [exact Ho2|split; [exact Hn2|split]].
    + intros k Hk. destruct (Hp1 k Hk) as [G|G]; [apply Hp2; assumption|right; apply Hm2; assumption].
    + intros k Hk. apply Hm2, Hm1. assumption.
  - intros j Hj. rewrite Hfr2, Hfr1 by assumption. reflexivity.
Qed.

Lemma migrate_from_c_spec L newL budget : 0 <= L -> L < newL <= 63 ->
  forall n told tnew i calls, 0 <= i -> i + Z.of_nat n <= 2 ^ L -> Tinv hash L told -> Tinv hash newL tnew ->
  (forall j, 0 <= j < i -> cnt (told j) = 0) ->
  match migrate_from_c hash n told tnew L newL i budget calls with
  | Ok (told', tnew', _, thrown) => mig_post hash L newL told tnew told' tnew' /\
                                    (thrown = false -> forall j, 0 <= j < i + Z.of_nat n -> cnt (told' j) = 0)
  | Exn => True
  | _ => False
  end.
Proof.
  intros HL HnL. induction n as [|m IH]; intros told tnew i calls Hi Hn Hold Hnew Hz.
  - cbn [migrate_from_c]. split; [|intros _ j Hj; apply Hz; lia].
    unfold mig_post. split; [exact Hold|split; [exact Hnew|split; auto]].
  - cbn [migrate_from_c]. pose proof (bwf_cnt _ (proj1 Hold i)) as [Hc _].
    pose proof (migrate_bucket_c_spec L newL i budget HL HnL ltac:(lia) 4%nat told tnew calls Hold Hnew ltac:(lia)) as Hb.
    destruct (migrate_bucket_c hash 4 told tnew L newL i budget calls) as [[[[told1 tnew1] c1] th]| | |]; try exact Hb.
    destruct Hb as ((Ho1 & Hn1 & Hp1 & Hm1) & Hc1 & Hfr1).
    destruct th.
    + split; [|intros; discriminate]. unfold mig_post. split; [exact Ho1|split; [exact Hn1|split; assumption]].
    + assert (Hz1 : forall j, 0 <= j < i + 1 -> cnt (told1 j) = 0).
      { intros j Hj. destruct (Z.eq_dec j i) as [->|]; [apply Hc1; reflexivity|]. rewrite Hfr1 by assumption. apply Hz. lia. }
      specialize (IH told1 tnew1 (i + 1) c1 ltac:(lia) ltac:(lia) Ho1 Hn1 Hz1).
      destruct (migrate_from_c hash m told1 tnew1 L newL (i + 1) budget c1) as [[[[told2 tnew2] c2] th2]| | |]; try exact IH.
      destruct IH as ((Ho2 & Hn2 & Hp2 & Hm2) & Hz2).
      split.
      * unfold mig_post. split; [exact Ho2|split; [exact Hn2|split]].
        -- intros k Hk. destruct (Hp1 k Hk) as [G|G]; [apply Hp2; assumption|right; apply Hm2; assumption].
        -- intros k Hk. apply Hm2, Hm1. assumption.
      * intros Hth j Hj. apply Hz2; [assumption|lia].
Qed.

(* a chain of older generations, oldest first, all into the newest table *)
Definition gens_ok (newL : Z) (gens : list (table * Z)) : Prop :=
  Forall (fun g => 0 <= snd g /\ snd g < newL /\ Tinv hash (snd g) (fst g)) gens.
Definition in_gens (gens : list (table * Z)) (k : Z) : Prop := exists g, In g gens /\ Present (snd g) (fst g) k.

Theorem migrate_gens_spec newL budget : newL <= 63 -> forall gens tnew calls, gens_ok newL gens -> Tinv hash newL tnew ->
  match migrate_gens hash gens tnew newL budget calls with
  | Ok (gens', tnew', _, thrown) =>
      gens_ok newL gens' /\ Tinv hash newL tnew' /\
      (forall k, in_gens gens k \/ Present newL tnew k -> in_gens gens' k \/ Present newL tnew' k) /\
      (thrown = false -> gens' = [])
  | Exn => True
  | _ => False
  end.
Proof.
  intros HnL. induction gens as [|[told L] r IH]; intros tnew calls Hg Hnew; cbn [migrate_gens].
  - split; [constructor|]. split; [assumption|]. split; [auto|reflexivity].
  - inversion Hg as [|g gs Hg1 Hg2]; subst. cbn [fst snd] in Hg1. destruct Hg1 as (HL0 & HLn & Hold).
    assert (Hpos : 0 < 2 ^ L) by (apply pow2_pos; lia).
    pose proof (migrate_from_c_spec L newL budget HL0 ltac:(lia) (Z.to_nat (2 ^ L)) told tnew 0 calls ltac:(lia) ltac:(lia) Hold Hnew
                ltac:(intros; lia)) as Hm.
    destruct (migrate_from_c hash (Z.to_nat (2 ^ L)) told tnew L newL 0 budget calls) as [[[[told1 tnew1] c1] th]| | |]; try exact Hm.
    destruct Hm as ((Ho1 & Hn1 & Hp1 & Hm1) & Hz1).
    destruct th.
    + split; [constructor; [cbn [fst snd]; split; [assumption|split; assumption]|assumption]|]. split; [assumption|]. split; [|intros; discriminate].
      intros k [(g & [<-|Hin] & Hk)|Hk].
      * cbn [fst snd] in Hk. destruct (Hp1 k Hk) as [G|G]; [left; exists (told1, L); split; [left; reflexivity|exact G]|right; exact G].
      * left. exists g. split; [right; assumption|assumption].
      * right. apply Hm1. assumption.
    + specialize (IH tnew1 c1 Hg2 Hn1).
      destruct (migrate_gens hash r tnew1 newL budget c1) as [[[[r' t2] c2] th2]| | |]; try exact IH.
      destruct IH as (Hg' & Ht2 & Hk2 & Hth2). split; [assumption|]. split; [assumption|]. split; [|assumption].
      intros k [(g & [<-|Hin] & Hk)|Hk].
      * cbn [fst snd] in Hk. destruct (Hp1 k Hk) as [(b & slot & Hb & Hocc & _)|G]; [exfalso|apply Hk2; right; exact G].
        unfold occ in Hocc. rewrite (Hz1 eq_refl) in Hocc by lia. lia.
      * apply Hk2. left. exists g. split; assumption.
      * apply Hk2. right. apply Hm1. assumption.
Qed.
End Budget.

(* ---- round 4: every key is in EXACTLY one generation ---- *)
Section Excl.
Variable hash : Z -> Z.
Hypothesis hash_range : forall k, 0 <= hash k < 2 ^ 64.

Definition Uniq (L : Z) (t : table) : Prop :=
  forall k b s b' s', At L t k b s -> At L t k b' s' -> b = b' /\ s = s'.
(* no key is stored twice: neither inside one generation nor across the two *)
Definition Sep (L newL : Z) (told tnew : table) : Prop :=
  Uniq L told /\ Uniq newL tnew /\ forall k, ~ (Present L told k /\ Present newL tnew k).
Definition Good (L newL : Z) (told tnew : table) : Prop := Tinv hash L told /\ Tinv hash newL tnew /\ Sep L newL told tnew.

Lemma relocate_good L newL told tnew i told' tnew' : 0 <= L -> L < newL <= 63 -> 0 <= i < 2 ^ L -> cnt (told i) <> 0 ->
  Good L newL told tnew -> relocate_item hash told tnew L newL i = Ok (told', tnew') -> Good L newL told' tnew'.
Proof.
  intros HL HnL Hi Hc (Hold & Hnew & Huo & Hun & Hdis) Heq.
  pose proof (bwf_cnt _ (proj1 Hold i)) as [Hc0 _].
  pose proof (relocate_item_spec hash hash_range L newL told tnew i HL HnL Hold Hnew Hi ltac:(lia)) as Hs. rewrite Heq in Hs.
  destruct Hs as (Ho' & Hn' & _ & _ & _ & _ & Hat & Hpo & (b0 & s0 & Hfree & Hpn)).
  set (key := bky (told i) (3 - cnt (told i))) in *. set (lo := 3 - cnt (told i)) in *.
  split; [exact Ho'|]. split; [exact Hn'|]. split; [|split].
  - intros k b s b' s' H1 H2. apply Hpo in H1. apply Hpo in H2. apply (Huo k); [apply H1|apply H2].
  - intros k b s b' s' H1 H2. apply Hpn in H1. apply Hpn in H2.
    destruct H1 as [H1|(E1 & -> & -> & _)], H2 as [H2|(E2 & -> & -> & _)].
    + apply (Hun k); assumption.
    + exfalso. subst k. apply (Hdis key). split; [exists i, lo; exact Hat|exists b, s; exact H1].
    + exfalso. subst k. apply (Hdis key). split; [exists i, lo; exact Hat|exists b', s'; exact H2].
    + split; reflexivity.
  - intros k [(b & s & H1) (b' & s' & H2)]. apply Hpo in H1. destruct H1 as [H1 Hne]. apply Hpn in H2.
    destruct H2 as [H2|(E & _)].
    + apply (Hdis k). split; [exists b, s; exact H1|exists b', s'; exact H2].
    + subst k. destruct (Huo key b s i lo H1 Hat) as [-> ->]. apply Hne. split; reflexivity.
Qed.

Lemma migrate_bucket_c_good L newL i budget : 0 <= L -> L < newL <= 63 -> 0 <= i < 2 ^ L ->
  forall fuel told tnew calls, Good L newL told tnew ->
  match migrate_bucket_c hash fuel told tnew L newL i budget calls with
  | Ok (told', tnew', _, _) => Good L newL told' tnew'
  | _ => True
  end.
Proof.
  intros HL HnL Hi. induction fuel as [|f IH]; intros told tnew calls Hg; [exact I|].
  cbn [migrate_bucket_c]. destruct (Z.eqb_spec (cnt (told i)) 0) as [Hz|Hnz]; [exact Hg|].
  destruct (getter_used (told i) i L newL (3 - cnt (told i)) && (budget <=? calls)); [exact Hg|].
  destruct (relocate_item hash told tnew L newL i) as [[told1 tnew1]| | |] eqn:E; try exact I.
  apply IH. apply (relocate_good L newL told tnew i told1 tnew1 HL HnL Hi Hnz Hg E).
Qed.

Lemma migrate_from_c_good L newL budget : 0 <= L -> L < newL <= 63 ->
  forall n told tnew i calls, 0 <= i -> i + Z.of_nat n <= 2 ^ L -> Good L newL told tnew ->
  match migrate_from_c hash n told tnew L newL i budget calls with
  | Ok (told', tnew', _, _) => Good L newL told' tnew'
  | _ => True
  end.
Proof.
  intros HL HnL. induction n as [|m IH]; intros told tnew i calls Hi Hn Hg; [exact Hg|].
  cbn [migrate_from_c].
  pose proof (migrate_bucket_c_good L newL i budget HL HnL ltac:(lia) 4%nat told tnew calls Hg) as Hb.
  destruct (migrate_bucket_c hash 4 told tnew L newL i budget calls) as [[[[told1 tnew1] c1] th]| | |]; try exact I.
  destruct th; [exact Hb|]. apply IH; [lia|lia|exact Hb].
Qed.

(* whatever prefix was migrated before the throw: both generations satisfy their table invariants and every key that was in
   one of them is now in EXACTLY one of them (on its true-hash path, by the invariants) *)
Theorem migrate_from_c_exactly_one L newL budget told tnew calls : 0 <= L -> L < newL <= 63 -> Good L newL told tnew ->
  match migrate_from_c hash (Z.to_nat (2 ^ L)) told tnew L newL 0 budget calls with
  | Ok (told', tnew', _, thrown) =>
      Good L newL told' tnew' /\
      (forall k, Present L told k \/ Present newL tnew k ->
         (Present L told' k \/ Present newL tnew' k) /\ ~ (Present L told' k /\ Present newL tnew' k)) /\
      (thrown = false -> forall k, Present L told k \/ Present newL tnew k -> Found hash newL tnew' k)
  | Exn => True
  | _ => False
  end.
Proof.
  intros HL HnL Hg. pose proof Hg as (Hold & Hnew & _).
  assert (Hpos : 0 < 2 ^ L) by (apply pow2_pos; lia).
  pose proof (migrate_from_c_spec hash hash_range L newL budget HL HnL (Z.to_nat (2 ^ L)) told tnew 0 calls ltac:(lia) ltac:(lia) Hold Hnew
              ltac:(intros; lia)) as Hs.
  pose proof (migrate_from_c_good L newL budget HL HnL (Z.to_nat (2 ^ L)) told tnew 0 calls ltac:(lia) ltac:(lia) Hg) as Hgd.
  destruct (migrate_from_c hash (Z.to_nat (2 ^ L)) told tnew L newL 0 budget calls) as [[[[told' tnew'] c'] th]| | |]; try exact Hs.
  destruct Hs as ((Ho & Hn & Hp & Hm) & Hz). split; [exact Hgd|]. split.
  - intros k Hk. split.
    + destruct Hk as [Hk|Hk]; [apply Hp; exact Hk|right; apply Hm; exact Hk].
    + destruct Hgd as (_ & _ & _ & _ & Hd). apply Hd.
  - intros Hth k Hk. apply present_found; [exact Hn|].
    destruct Hk as [Hk|Hk]; [|apply Hm; exact Hk].
    destruct (Hp k Hk) as [(b & s & Hb & Hocc & _)|G]; [exfalso|exact G].
    unfold occ in Hocc. rewrite (Hz Hth) in Hocc by lia. lia.
Qed.
End Excl.
