// C20 – shared by harness.cpp: counting base allocator, the event tracer and the monitoring wrapper `Mon<T>`.
//
// Two ways the real allocator is exercised:
//   PA<T>  = momo::stdish::unsynchronized_pool_allocator<T, Base>   used DIRECTLY by the std containers (oracle run)
//   Mon<T> = a thin class derived from PA<T> that forwards every operation to PA<T> and records it as an
//            event (allocator constructed / copied / rebound / select_on_container_copy_construction / assigned /
//            destroyed / allocate / deallocate) together with what the real allocator did (pool or raw memory,
//            pool parameters, GetAllocateCount, shared_ptr use_count, base allocator calls).  The event list is the
//            input of the extracted Coq model; the observations are what the model must predict.
#pragma once
#include "private_access.h"
#include "kit.h"
#include "momo/stdish/pool_allocator.h"

typedef kit::StdAlloc<unsigned char> Base;
template<class T> using PA = momo::stdish::unsynchronized_pool_allocator<T, Base>;
template<class PP> using PoolOf = momo::MemPool<PP, momo::MemManagerStd<Base>>;
typedef PoolOf<momo::MemPoolParams<>> Pool;
static const int BASE_ID = 1;

struct Tracer
{
	bool on = false;
	std::string events, obs;
	int nh = 0, nb = 0;
	std::map<const void*, int> blk;                 // pointer -> model block id
	// independent bookkeeping for the H monitor and the routing oracle
	struct BlockInfo { const void* pool; bool pooled; size_t bs, al; size_t rawsize; };
	std::string cfg = "32 16";     // compile-time pool configuration of the allocator under test: first pseudo-event "K bc cf"
	std::map<const void*, BlockInfo> info;
	size_t h_violations = 0, misrouted = 0, n_pool = 0, n_raw = 0, n_reparam = 0, n_events = 0;
	size_t n_cross32 = 0, n_flush = 0, n_fromcache = 0, n_reparam_cached = 0, n_fail_events = 0, n_moves = 0, max_count = 0;   // measured
	uint64_t a0 = 0, d0 = 0; size_t e0 = 0, l0 = 0;
	std::string fatal;      // set when the real allocator did something after which the run cannot sensibly continue
	std::string pending;    // the allocator call in flight (reported by the crash handler)

	void reset() { events.clear(); obs.clear(); nh = nb = 0; blk.clear(); info.clear();
		h_violations = misrouted = n_pool = n_raw = n_reparam = n_events = 0;
		n_cross32 = n_flush = n_fromcache = n_reparam_cached = n_fail_events = n_moves = max_count = 0; fatal.clear(); pending.clear(); }
	void pre() { kit::World& w = kit::W(); a0 = w.n_alloc; d0 = w.n_dealloc; e0 = w.errors.size(); l0 = w.log.size(); }
	// base-allocator calls since pre(): deallocate calls that the registry rejected (unknown block) still count as calls
	size_t allocs() const { return size_t(kit::W().n_alloc - a0); }
	size_t frees() const
	{
		kit::World& w = kit::W(); size_t n = size_t(w.n_dealloc - d0);
		for (size_t i = e0; i < w.errors.size(); ++i) if (w.errors[i].find("unknown/already freed") != std::string::npos) ++n;
		return n;
	}
	// size argument of the last base deallocate call since pre()
	long last_free_size() const
	{
		kit::World& w = kit::W();
		for (size_t i = w.errors.size(); i > e0; --i)
		{
			size_t p = w.errors[i - 1].find("(size ");
			if (p != std::string::npos) return atol(w.errors[i - 1].c_str() + p + 6);
		}
		for (size_t i = w.log.size(); i > l0; --i)
			if (w.log[i - 1][0] == 'D') { size_t p = w.log[i - 1].rfind(' '); return atol(w.log[i - 1].c_str() + p + 1); }
		return -1;
	}
	// MemPool's own invariant, observed from outside: the head of the free-buffer list has a free block
	// (and the cache head is null exactly when the cached count is 0)
	template<class PoolT> static bool pool_sane(PoolT* p)
	{
		if ((p->mCachedCount == 0) != (p->mCacheHead == nullptr)) return false;
		if (p->mFreeBufferHead == nullptr) return true;
		auto bytes = p->pvGetBufferBytes(p->mFreeBufferHead);
		return bytes.freeBlockCount > 0 && size_t(bytes.freeBlockCount) <= PoolT::blockCount;
	}
	template<class PoolT> static std::string pool_state(const std::shared_ptr<PoolT>& p)
	{
		if (!p) return "dead";
		return std::to_string(p.use_count()) + " " + std::to_string(p->GetAllocateCount()) + " "
			+ std::to_string(p->GetBlockSize()) + " " + std::to_string(p->GetBlockAlignment()) + " " + std::to_string(p->mCachedCount)
			+ " " + (pool_sane(p.get()) ? "1" : "0");
	}
	// last token of every observation: what the GENERATED allocate / deallocate + pool Allocate / Deallocate must compute for this call
	// (destination -1 = pool | raw size, pool re-created, allocCount after, mCachedCount after), "g-" for the other events
	// after it: what the GENERATED pvNewBlock must compute for an allocation that takes a block from an existing head buffer ("n-" otherwise)
	void ev(const std::string& e, const std::string& o, const std::string& gen = "g-", const std::string& nb = "n-")
	{
		if (!on) return;
		++n_events;
		if (events.empty()) { events = "K " + cfg; obs = "K"; }
		events += " ; "; obs += " ; ";
		events += e; obs += o + " " + gen + " " + nb;
	}
};
inline Tracer& G() { static Tracer t; return t; }

// destroyed AFTER the PA<T> base of Mon<T>: reports what the destruction of the allocator object did
template<class PoolT>
struct PostLogT
{
	int hid = -1;
	bool armed = false;
	std::weak_ptr<PoolT> wp;
	~PostLogT()
	{
		if (!armed) return;
		Tracer& g = G();
		std::shared_ptr<PoolT> p = wp.lock();
		std::string st;
		if (p) { st = std::to_string(p.use_count() - 1) + " " + std::to_string(p->GetAllocateCount()) + " "
			+ std::to_string(p->GetBlockSize()) + " " + std::to_string(p->GetBlockAlignment()) + " " + std::to_string(p->mCachedCount)
			+ " " + (Tracer::pool_sane(p.get()) ? "1" : "0"); }
		else { st = "dead"; wp.reset(); }   // drop the weak reference: the control block goes back to the base allocator now
		g.ev("X " + std::to_string(hid), "- " + st + " " + std::to_string(g.allocs()) + " " + std::to_string(g.frees()) + " 1 1 1");
	}
};

struct SoccTag {};

template<class T, class PP = momo::MemPoolParams<>>
struct MonT : PostLogT<PoolOf<PP>>, momo::stdish::unsynchronized_pool_allocator<T, Base, PP>
{
	typedef momo::stdish::unsynchronized_pool_allocator<T, Base, PP> P;
	typedef PostLogT<PoolOf<PP>> PostLog;
	typedef PoolOf<PP> Pool;
	template<class U> using PAU = momo::stdish::unsynchronized_pool_allocator<U, Base, PP>;
	using PostLog::hid; using PostLog::armed; using PostLog::wp;
	typedef T value_type;
	static std::string vt() { return std::to_string(sizeof(T)) + " " + std::to_string(momo::internal::ObjectAlignmenter<T>::alignment); }
	std::string tail() const { Tracer& g = G(); return Tracer::pool_state(this->mMemPool) + " " + std::to_string(g.allocs()) + " " + std::to_string(g.frees()); }

	explicit MonT(const Base& b = Base(BASE_ID)) : PostLog(), P((G().pre(), b))
	{ hid = G().nh++; G().ev("N " + vt(), "- " + tail() + " 1 1 1"); }
	MonT(const MonT& o) noexcept : PostLog(), P((G().pre(), static_cast<const P&>(o)))
	{ hid = G().nh++; G().ev("C " + std::to_string(o.hid), "- " + tail() + " 1 1 1"); }
	// construction from an rvalue: forwards to whatever PA<T> does for an rvalue PA<T> (in the unchanged tree: the copy constructor)
	MonT(MonT&& o) noexcept : PostLog(), P((G().pre(), static_cast<P&&>(o)))
	{
		hid = G().nh++;
		bool src_kept = (o.mMemPool != nullptr && o.mMemPool == this->mMemPool);
		++G().n_moves;
		if (!src_kept && G().fatal.empty()) G().fatal = "allocator constructed from an rvalue: the source allocator lost its pool";
		G().ev("M " + std::to_string(o.hid), "- " + tail() + " 1 1 " + (src_kept ? "1" : "0"));
	}
	template<class U> MonT(const MonT<U, PP>& o) noexcept : PostLog(), P((G().pre(), static_cast<P>(static_cast<const PAU<U>&>(o))))
	{ hid = G().nh++; G().ev("R " + std::to_string(o.hid) + " " + vt(), "- " + tail() + " 1 1 1"); }
	MonT(SoccTag, const MonT& o)
	try : PostLog(), P((G().pre(), o.P::select_on_container_copy_construction()))
	{ hid = G().nh++; G().ev("S " + std::to_string(o.hid), "- " + tail() + " 1 1 1"); }
	catch (const std::bad_alloc&)
	{	// allocate_shared of the new pool failed: event Z (OpSoccFail), state of the SOURCE's pool; the exception is rethrown
		Tracer& g = G(); ++g.n_fail_events;
		g.ev("Z " + std::to_string(o.hid), "E " + Tracer::pool_state(o.mMemPool) + " " + std::to_string(g.allocs()) + " " + std::to_string(g.frees()) + " 1 1 1");
	}
	MonT& operator=(const MonT& o) noexcept
	{
		G().pre();
		P::operator=(static_cast<const P&>(o));
		G().ev("= " + std::to_string(hid) + " " + std::to_string(o.hid), "- " + tail() + " 1 1 1");
		return *this;
	}
	~MonT() { armed = true; wp = this->mMemPool; G().pre(); }
	MonT select_on_container_copy_construction() const { return MonT(SoccTag(), *this); }

	// construct / destroy / == / != / get_base_allocator: forwarded to the real allocator; the model says they leave the allocator
	// state untouched (events T = OpElem, Q = OpQuery with the comparison result)
	template<class V, class... Args> void construct(V* p, Args&&... args)
	{
		G().pre(); P::construct(p, std::forward<Args>(args)...);
		G().ev("T " + std::to_string(hid), "- " + tail() + " 1 1 1");
	}
	template<class V> void destroy(V* p) noexcept
	{
		G().pre(); P::destroy(p);
		G().ev("T " + std::to_string(hid), "- " + tail() + " 1 1 1");
	}
	friend bool operator==(const MonT& a, const MonT& b) noexcept
	{
		G().pre(); bool r = (static_cast<const P&>(a) == static_cast<const P&>(b));
		G().ev("Q " + std::to_string(a.hid) + " " + std::to_string(b.hid), std::string(r ? "Q1 " : "Q0 ") + a.tail() + " 1 1 1");
		return r;
	}
	friend bool operator!=(const MonT& a, const MonT& b) noexcept
	{
		G().pre(); bool r = (static_cast<const P&>(a) != static_cast<const P&>(b));
		G().ev("Q " + std::to_string(a.hid) + " " + std::to_string(b.hid), std::string(r ? "Q0 " : "Q1 ") + a.tail() + " 1 1 1");
		return r;
	}
	Base get_base_allocator() const noexcept
	{
		G().pre(); Base r = P::get_base_allocator();
		G().ev("Q " + std::to_string(hid) + " " + std::to_string(hid), std::string(r.id() == BASE_ID ? "Q1 " : "Q0 ") + tail() + " 1 1 1");
		return r;
	}

	T* allocate(size_t n)
	{
		Tracer& g = G();
		Pool* pool = this->mMemPool.get();
		typename P::MemPoolParams mp = P::pvGetMemPoolParams();
		// H monitor (independent of the model): a single-object request while a pooled block of this pool is
		// outstanding must use that block's parameter set
		bool hok = true;
		if (n == 1)
			for (auto& kv : g.info)
				if (kv.second.pool == pool && kv.second.pooled && (kv.second.bs != mp.GetBlockSize() || kv.second.al != mp.GetBlockAlignment()))
					hok = false;
		if (!hok) ++g.h_violations;
		size_t cnt0 = pool->GetAllocateCount(); size_t bs0 = pool->GetBlockSize(), al0 = pool->GetBlockAlignment();
		size_t cached0 = pool->mCachedCount;
		// pre-state of the head buffer when this call will go through MemPool::pvNewBlock on an EXISTING head buffer (input of the generated pvNewBlock)
		std::string nb_in = " - - - -"; bool nb_on = false; momo::internal::Byte* h0 = nullptr; momo::internal::Byte* nx0 = nullptr;
		if (n == 1 && Pool::blockCount > 1 && P::pvIsEqual(mp, pool->GetParams()) && !(pool->pvUseCache() && pool->mCachedCount > 0) && pool->mFreeBufferHead != nullptr)
		{
			h0 = pool->mFreeBufferHead; auto by = pool->pvGetBufferBytes(h0); nx0 = pool->pvGetNextBuffer(h0);
			int nf = int(pool->pvGetNextFreeBlockIndex(pool->pvGetBlock(h0, by.firstFreeBlockIndex)));
			nb_in = " " + std::to_string(int(by.firstFreeBlockIndex)) + " " + std::to_string(int(by.freeBlockCount)) + " " + (nx0 == nullptr ? "1" : "0") + " " + std::to_string(nf);
			nb_on = true;
		}
		g.pre();
		g.pending = "A " + std::to_string(hid) + " " + std::to_string(n);
		T* p;
		try { p = P::allocate(n); }
		catch (const std::bad_alloc&)
		{	// base allocator failure: report the state the allocator is left in, then propagate
			g.pending.clear(); ++g.n_fail_events;
			if (g.on) g.ev("F " + std::to_string(hid) + " " + std::to_string(n) + " " + std::to_string(g.allocs()),
				"E " + tail() + " " + (hok ? "1" : "0") + " 1 1");
			throw;
		}
		g.pending.clear();
		bool pooled = pool->GetAllocateCount() == cnt0 + 1;
		bool reparam = pooled && (pool->GetBlockSize() != bs0 || pool->GetBlockAlignment() != al0);
		std::string dest;
		Tracer::BlockInfo bi{ pool, pooled, pool->GetBlockSize(), pool->GetBlockAlignment(), 0 };
		if (pooled)
		{
			dest = "P" + std::to_string(pool->GetBlockSize()) + "/" + std::to_string(pool->GetBlockAlignment()); ++g.n_pool;
			if (reparam) { ++g.n_reparam; if (cached0 > 0) ++g.n_reparam_cached; }
			else if (cached0 > 0 && pool->mCachedCount + 1 == cached0) ++g.n_fromcache;
			size_t c1 = pool->GetAllocateCount(); if (c1 % Pool::blockCount == 0) ++g.n_cross32; if (c1 > g.max_count) g.max_count = c1;
		}
		else
		{
			auto it = kit::W().blocks.find(p);
			bi.rawsize = (it == kit::W().blocks.end()) ? size_t(-1) : it->second.size;
			dest = "R" + std::to_string(long(bi.rawsize)); ++g.n_raw;
		}
		if (g.on)
		{
			int b = g.nb++; g.blk[p] = b; g.info[p] = bi;
			std::string nb_out = "n-";
			if (nb_on)
			{	// the real pvNewBlock's effect: where the head went, and the BufferBytes now stored in the old head buffer
				auto by1 = pool->pvGetBufferBytes(h0); momo::internal::Byte* h1 = pool->mFreeBufferHead;
				nb_out = "n" + std::string(h1 == h0 ? "0" : (nx0 != nullptr && h1 == nx0) ? "1" : "2") + ":" + std::to_string(int(by1.firstFreeBlockIndex)) + ":" + std::to_string(int(by1.freeBlockCount));
			}
			g.ev("A " + std::to_string(hid) + " " + std::to_string(n) + " " + std::to_string(g.allocs()) + nb_in,
				dest + " " + tail() + " " + (hok ? "1" : "0") + " 1 1",
				"g" + (pooled ? std::string("-1") : std::to_string(long(bi.rawsize))) + ":" + (reparam ? "1" : "0") + ":"
					+ std::to_string(pool->GetAllocateCount()) + ":" + std::to_string(pool->mCachedCount), nb_out);
		}
		return p;
	}

	void deallocate(T* p, size_t n) noexcept
	{
		Tracer& g = G();
		Pool* pool = this->mMemPool.get();
		size_t cnt0 = pool->GetAllocateCount();
		if (pool->mCachedCount >= Pool::cachedFreeBlockCount) ++g.n_flush;
		g.pre();
		g.pending = "D " + std::to_string(hid) + " " + std::to_string(n);
		P::deallocate(p, n);
		g.pending.clear();
		bool to_pool = pool->GetAllocateCount() + 1 == cnt0;
		if (!g.on) return;
		std::string dest = to_pool ? "P" + std::to_string(pool->GetBlockSize()) + "/" + std::to_string(pool->GetBlockAlignment())
			: "R" + std::to_string(g.last_free_size());
		auto it = g.info.find(p);
		bool routed = false; int b = -1;
		if (it != g.info.end())
		{
			const Tracer::BlockInfo& bi = it->second;
			routed = to_pool ? (bi.pooled && bi.bs == pool->GetBlockSize() && bi.al == pool->GetBlockAlignment())
				: (!bi.pooled && long(bi.rawsize) == g.last_free_size());
			b = g.blk[p];
			g.info.erase(it); g.blk.erase(p);
		}
		if (!routed) ++g.misrouted;
		g.ev("D " + std::to_string(hid) + " " + std::to_string(b) + " " + std::to_string(n) + " " + std::to_string(g.frees()),
			dest + " " + tail() + " 1 " + (routed ? "1" : "0") + " 1",
			"g" + (to_pool ? std::string("-1") : std::to_string(g.last_free_size())) + ":" + std::to_string(pool->GetAllocateCount()) + ":" + std::to_string(pool->mCachedCount));
	}
};
template<class T> using Mon = MonT<T, momo::MemPoolParams<>>;
template<class T> using Mon4 = MonT<T, momo::MemPoolParams<4, 0>>;
template<class T> using Mon1 = MonT<T, momo::MemPoolParams<1, 2>>;
template<class T> using Mon127 = MonT<T, momo::MemPoolParams<127, 1>>;
