(* C10 -- array_basic: proofs about the ArrayShifter model, for every failure schedule. *)
From Coq Require Import ZArith Bool List Lia Arith.
From C10 Require Import Machine ArrayShift.
Import ListNotations.

(* the count is consistent: every slot below it holds a constructed (live or moved-from) element, every slot at or
   above it is raw (nothing leaked, nothing destroyed twice) *)
Definition wf (a : arr) : Prop :=
  (count a <= length (slots a))%nat /\
  (forall i, (i < count a)%nat -> exists v, nth i (slots a) Raw = Obj v) /\
  (forall i, (count a <= i)%nat -> nth i (slots a) Raw = Raw).

Lemma set_slot_length l i s : (i < length l)%nat -> length (set_slot l i s) = length l.
Proof.
  intros H. unfold set_slot. rewrite app_length.
  change (length (s :: skipn (S i) l)) with (S (length (skipn (S i) l))). rewrite firstn_length, skipn_length. lia.
Qed.

Lemma set_slot_cons a l i s : set_slot (a :: l) (S i) s = a :: set_slot l i s.
Proof. reflexivity. Qed.

Lemma set_slot_same : forall l i s, (i < length l)%nat -> nth i (set_slot l i s) Raw = s.
Proof.
  induction l as [|a l IH]; intros [|i] s H; simpl in H; try lia; [reflexivity|].
  rewrite set_slot_cons. simpl. apply IH. lia.
Qed.

Lemma set_slot_other : forall l i j s, (i < length l)%nat -> j <> i -> nth j (set_slot l i s) Raw = nth j l Raw.
Proof.
  induction l as [|a l IH]; intros [|i] [|j] s H Hne; simpl in H; try lia; try reflexivity.
  rewrite set_slot_cons. simpl. apply IH; lia.
Qed.

Lemma get_obj a i v : get a i = Obj v -> (i < count a)%nat /\ nth i (slots a) Raw = Obj v.
Proof. unfold get. destruct (Nat.ltb_spec i (count a)); [auto|discriminate]. Qed.

Lemma get_raw a j : wf a -> get a j = Raw -> Nat.ltb j (count a) = false.
Proof.
  intros (_ & Hobj & _) H. unfold get in H. destruct (Nat.ltb_spec j (count a)) as [L|L]; [|reflexivity].
  destruct (Hobj j L) as [v Hv]. congruence.
Qed.

(* static bounds check of a straight-line program: Some m = every index is in range, final count m *)
Fixpoint check (n cap : nat) (p : list instr) : option nat :=
  match p with
  | [] => Some n
  | IAddBackMove i :: r => if Nat.ltb i n && Nat.ltb n cap then check (S n) cap r else None
  | IAddBackCopy _ :: r => if Nat.ltb n cap then check (S n) cap r else None
  | IAssignMove i j :: r => if Nat.ltb i n && Nat.ltb j n && negb (Nat.eqb i j) then check n cap r else None
  | IAssignCopy _ j :: r => if Nat.ltb j n then check n cap r else None
  | IRemoveBack k :: r => if Nat.leb k n then check (n - k) cap r else None
  end.

Lemma destroy_range_spec : forall n w l start,
  (start + n <= length l)%nat -> (forall i, (start <= i < start + n)%nat -> exists v, nth i l Raw = Obj v) ->
  exists w' l', destroy_range w l start n = (w', l', true) /\ length l' = length l /\
    (forall i, (start <= i < start + n)%nat -> nth i l' Raw = Raw) /\
    (forall i, ~ (start <= i < start + n)%nat -> nth i l' Raw = nth i l Raw).
Proof.
  induction n as [|n IH]; intros w l start Hl Ho; simpl.
  - exists w, l. repeat split; auto. intros; lia.
  - destruct (Ho start) as [v Hv]; [lia|]. rewrite Hv.
    assert (Hs : (start < length l)%nat) by lia.
    destruct (IH (dtor w v) (set_slot l start Raw) (S start)) as (w' & l' & E & L & R & O).
    + rewrite set_slot_length; lia.
    + intros i Hi. rewrite set_slot_other; [|exact Hs|lia]. apply Ho. lia.
    + exists w', l'. split; [exact E|]. split; [rewrite L; apply set_slot_length; exact Hs|]. split.
      * intros i Hi. destruct (Nat.eq_dec i start) as [->|Hne].
        -- rewrite O; [|lia]. apply set_slot_same. exact Hs.
        -- apply R. lia.
      * intros i Hi. rewrite O; [|lia]. apply set_slot_other; [exact Hs|lia].
Qed.

(* one instruction, every category, every schedule: well-formedness and the capacity are preserved; the count
   changes only as the instruction says; and when the instruction passes the bounds check it does not get stuck *)
Lemma exec_wf c w a ins w' a' o : wf a -> exec c w a ins = (w', a', o) ->
  wf a' /\ length (slots a') = length (slots a) /\
  (o <> AOk -> count a' = count a) /\
  (o = AOk -> check (count a) (length (slots a)) [ins] = Some (count a') \/ check (count a) (length (slots a)) [ins] = None) /\
  (check (count a) (length (slots a)) [ins] <> None -> o <> AStuck).
Proof.
  intros Hwf. pose proof Hwf as (Hc & Hobj & Hraw). destruct ins as [i|v|i j|v j|k]; simpl.
  - (* IAddBackMove *)
    destruct (get a i) as [|v] eqn:Eg; [intros H; injection H as <- <- <-; repeat split; auto; try congruence;
      (intros Hn _; apply Hn; rewrite (get_raw a i Hwf Eg); reflexivity)|].
    apply get_obj in Eg. destruct Eg as [Hi Hv].
    destruct (Nat.ltb_spec (count a) (length (slots a))) as [Hcap|Hcap];
      [|intros H; injection H as <- <- <-; repeat split; auto; try congruence;
        intros Hn _; apply Hn; destruct (Nat.ltb_spec (count a) (length (slots a))); [lia|]; rewrite andb_false_r; reflexivity].
    rewrite (Hraw (count a)); [|lia].
    destruct (move_ctor c w v) as [w1 [[n s]|]] eqn:Em; intros H; injection H as <- <- <-.
    + assert (L1 : length (set_slot (slots a) i (Obj s)) = length (slots a)) by (apply set_slot_length; lia).
      simpl. split; [|split; [rewrite set_slot_length; lia|]].
      * split; [simpl; rewrite set_slot_length; lia|]. split; simpl.
        -- intros q Hq. destruct (Nat.eq_dec q (count a)) as [->|Hne].
           ++ rewrite set_slot_same; [eauto|lia].
           ++ rewrite set_slot_other; [|lia|exact Hne].
              destruct (Nat.eq_dec q i) as [->|Hne2]; [rewrite set_slot_same; [eauto|lia]|].
              rewrite set_slot_other; [apply Hobj; lia|lia|exact Hne2].
        -- intros q Hq. rewrite set_slot_other; [|lia|lia]. rewrite set_slot_other; [apply Hraw; lia|lia|lia].
      * split; [congruence|]. split; [|congruence]. intros _. left.
        destruct (Nat.ltb_spec i (count a)); [|lia]. destruct (Nat.ltb_spec (count a) (length (slots a))); [|lia]. reflexivity.
    + repeat split; auto; try congruence.
  - (* IAddBackCopy *)
    destruct (Nat.ltb_spec (count a) (length (slots a))) as [Hcap|Hcap];
      [|intros H; injection H as <- <- <-; repeat split; auto; congruence].
    rewrite (Hraw (count a)); [|lia].
    destruct (copy_ctor c w v) as [w1 [n|]] eqn:Em; intros H; injection H as <- <- <-.
    + simpl. split; [|split; [rewrite set_slot_length; lia|]].
      * split; [simpl; rewrite set_slot_length; lia|]. split; simpl.
        -- intros q Hq. destruct (Nat.eq_dec q (count a)) as [->|Hne].
           ++ rewrite set_slot_same; [eauto|lia].
           ++ rewrite set_slot_other; [apply Hobj; lia|lia|exact Hne].
        -- intros q Hq. rewrite set_slot_other; [apply Hraw; lia|lia|lia].
      * split; [congruence|]. split; [|congruence]. intros _. left. reflexivity.
    + repeat split; auto; try congruence.
  - (* IAssignMove *)
    destruct (get a i) as [|s] eqn:Egi.
    { intros H; injection H as <- <- <-; repeat split; auto; try congruence.
      intros Hn _. apply Hn. rewrite (get_raw a i Hwf Egi). reflexivity. }
    destruct (get a j) as [|d] eqn:Egj.
    { intros H; injection H as <- <- <-; repeat split; auto; try congruence.
      intros Hn _. apply Hn. rewrite (get_raw a j Hwf Egj). rewrite andb_false_r. reflexivity. }
    apply get_obj in Egi. apply get_obj in Egj. destruct Egi as [Hi Hvi]. destruct Egj as [Hj Hvj].
    destruct (Nat.eqb_spec i j) as [->|Hne].
    { intros H; injection H as <- <- <-; repeat split; auto; try congruence.
      intros Hn _. apply Hn. simpl. rewrite ?andb_false_r. reflexivity. }
    destruct (move_assign c w s d) as [w1 [[d' s']|]] eqn:Em; intros H; injection H as <- <- <-.
    + simpl. split; [|split; [rewrite !set_slot_length; try lia; rewrite set_slot_length; lia|]].
      * split; [simpl; rewrite !set_slot_length; try lia; rewrite set_slot_length; lia|]. split; simpl.
        -- intros q Hq. destruct (Nat.eq_dec q j) as [->|Hnj].
           ++ rewrite set_slot_same; [eauto|rewrite set_slot_length; lia].
           ++ rewrite set_slot_other; [|rewrite set_slot_length; lia|exact Hnj].
              destruct (Nat.eq_dec q i) as [->|Hni]; [rewrite set_slot_same; [eauto|lia]|].
              rewrite set_slot_other; [apply Hobj; lia|lia|exact Hni].
        -- intros q Hq. rewrite set_slot_other; [|rewrite set_slot_length; lia|lia]. rewrite set_slot_other; [apply Hraw; lia|lia|lia].
      * split; [congruence|]. split; [|congruence]. intros _. left.
        destruct (Nat.ltb_spec i (count a)); [|lia]. destruct (Nat.ltb_spec j (count a)); [|lia].
        destruct (Nat.eqb_spec i j); [congruence|]. reflexivity.
    + repeat split; auto; try congruence.
  - (* IAssignCopy *)
    destruct (get a j) as [|d] eqn:Egj.
    { intros H; injection H as <- <- <-; repeat split; auto; try congruence.
      intros Hn _. apply Hn. rewrite (get_raw a j Hwf Egj). reflexivity. }
    apply get_obj in Egj. destruct Egj as [Hj Hvj].
    destruct (copy_assign c w v d) as [w1 [d'|]] eqn:Em; intros H; injection H as <- <- <-.
    + simpl. split; [|split; [rewrite set_slot_length; lia|]].
      * split; [simpl; rewrite set_slot_length; lia|]. split; simpl.
        -- intros q Hq. destruct (Nat.eq_dec q j) as [->|Hnj]; [rewrite set_slot_same; [eauto|lia]|].
           rewrite set_slot_other; [apply Hobj; lia|lia|exact Hnj].
        -- intros q Hq. rewrite set_slot_other; [apply Hraw; lia|lia|lia].
      * split; [congruence|]. split; [|congruence]. intros _. left. destruct (Nat.ltb_spec j (count a)); [|lia]. reflexivity.
    + repeat split; auto; try congruence.
  - (* IRemoveBack *)
    destruct (Nat.leb_spec k (count a)) as [Hk|Hk]; [|intros H; injection H as <- <- <-; repeat split; auto; congruence].
    destruct (destroy_range_spec k w (slots a) (count a - k)) as (w1 & l1 & E & L & R & O).
    + lia.
    + intros i Hi. apply Hobj. lia.
    + rewrite E. intros H; injection H as <- <- <-. simpl. split; [|split; [exact L|]].
      * split; [simpl; lia|]. split; simpl.
        -- intros q Hq. rewrite O; [apply Hobj; lia|lia].
        -- intros q Hq. destruct (Nat.lt_ge_cases q (count a)) as [Hl|Hg]; [apply R; lia|rewrite O; [apply Hraw; lia|lia]].
      * split; [congruence|]. split; [|congruence]. intros _. left. reflexivity.
Qed.

Lemma check_cons n cap ins r :
  check n cap (ins :: r) = match check n cap [ins] with Some m => check m cap r | None => None end.
Proof.
  destruct ins; simpl;
  repeat match goal with |- context [if ?b then _ else _] => destruct b end; reflexivity.
Qed.

Lemma check_mono cap cap' : (cap <= cap')%nat -> forall p n m, check n cap p = Some m -> check n cap' p = Some m.
Proof.
  intros Hc. induction p as [|ins r IH]; intros n m; simpl; [auto|].
  destruct ins; simpl;
  repeat match goal with
         | |- context [Nat.ltb ?x ?y] => destruct (Nat.ltb_spec x y)
         | |- context [Nat.leb ?x ?y] => destruct (Nat.leb_spec x y)
         | |- context [Nat.eqb ?x ?y] => destruct (Nat.eqb_spec x y)
         end; simpl; try discriminate; try (apply IH); try lia.
Qed.

(* array_basic, generic part: for EVERY program, category and failure schedule the array stays well formed
   (count consistent, every slot below count constructed, every slot above raw) and keeps its capacity; and a
   program that passes the static bounds check never touches a raw slot nor exceeds the capacity (never AStuck),
   ends with the checked count on success, and never leaves the count outside [min, max] of the counts on its path *)
Theorem run_wf c : forall p w a w' a' o, wf a -> run c w a p = (w', a', o) ->
  wf a' /\ length (slots a') = length (slots a).
Proof.
  induction p as [|ins r IH]; intros w a w' a' o Hwf; simpl.
  - intros H; injection H as <- <- <-. auto.
  - destruct (exec c w a ins) as [[w1 a1] o1] eqn:Ee.
    destruct (exec_wf _ _ _ _ _ _ _ Hwf Ee) as (Hwf1 & L1 & _).
    destruct o1; [|intros H; injection H as <- <- <-; auto|intros H; injection H as <- <- <-; auto].
    intros H. destruct (IH _ _ _ _ _ Hwf1 H) as (Hwf2 & L2). split; [exact Hwf2|congruence].
Qed.

Theorem run_checked c : forall p w a w' a' o m, wf a -> check (count a) (length (slots a)) p = Some m ->
  run c w a p = (w', a', o) -> o <> AStuck /\ (o = AOk -> count a' = m).
Proof.
  induction p as [|ins r IH]; intros w a w' a' o m Hwf Hck; simpl.
  - intros H; injection H as <- <- <-. simpl in Hck. injection Hck as <-. split; [discriminate|auto].
  - rewrite check_cons in Hck.
    destruct (exec c w a ins) as [[w1 a1] o1] eqn:Ee.
    destruct (exec_wf _ _ _ _ _ _ _ Hwf Ee) as (Hwf1 & L1 & Hcnt & Hok & Hns).
    destruct (check (count a) (length (slots a)) [ins]) as [m1|] eqn:E1; [|discriminate].
    assert (Hs : o1 <> AStuck) by (apply Hns; discriminate).
    destruct o1; [|intros H; injection H as <- <- <-; split; [discriminate|discriminate]|congruence].
    destruct (Hok eq_refl) as [E|E]; [|discriminate]. injection E as ->.
    intros H. rewrite <- L1 in Hck. exact (IH _ _ _ _ _ _ Hwf1 Hck H).
Qed.

(* programs without RemoveBack (positional insert): the count never decreases and never exceeds the final count *)
Definition no_remove (p : list instr) : Prop := Forall (fun i => match i with IRemoveBack _ => False | _ => True end) p.

Theorem run_insert_count c : forall p w a w' a' o m, wf a -> no_remove p ->
  check (count a) (length (slots a)) p = Some m -> run c w a p = (w', a', o) ->
  (count a <= count a' <= m)%nat.
Proof.
  induction p as [|ins r IH]; intros w a w' a' o m Hwf Hnr Hck; simpl.
  - intros H; injection H as <- <- <-. simpl in Hck. injection Hck as <-. lia.
  - inversion Hnr as [|x l Hx Hl]; subst. rewrite check_cons in Hck.
    destruct (exec c w a ins) as [[w1 a1] o1] eqn:Ee.
    destruct (exec_wf _ _ _ _ _ _ _ Hwf Ee) as (Hwf1 & L1 & Hcnt & Hok & Hns).
    destruct (check (count a) (length (slots a)) [ins]) as [m1|] eqn:E1; [|discriminate].
    assert (Hm1 : (count a <= m1)%nat).
    { destruct ins; simpl in E1; try contradiction;
      repeat match goal with H : context [if ?b then _ else _] |- _ => destruct b end; try discriminate; injection E1 as <-; lia. }
    assert (Hmm : forall q n k, no_remove q -> check n (length (slots a)) q = Some k -> (n <= k)%nat).
    { induction q as [|i q IHq]; intros n k Hq Hk; simpl in Hk; [injection Hk as <-; lia|].
      inversion Hq; subst. destruct i; try contradiction;
      repeat match goal with H : context [if ?b then _ else _] |- _ => destruct b end; try discriminate;
      apply IHq in Hk; auto; lia. }
    destruct o1.
    + destruct (Hok eq_refl) as [E|E]; [|discriminate]. injection E as ->.
      intros H. rewrite <- L1 in Hck. pose proof (IH _ _ _ _ _ _ Hwf1 Hl Hck H). lia.
    + intros H; injection H as <- <- <-. rewrite (Hcnt ltac:(discriminate)). pose proof (Hmm _ _ _ Hl Hck). lia.
    + intros H; injection H as <- <- <-. rewrite (Hcnt ltac:(discriminate)). pose proof (Hmm _ _ _ Hl Hck). lia.
Qed.

(* positional remove: only assignments before the final RemoveBack, so a failure leaves the count unchanged *)
Theorem run_assign_only_count c : forall p w a w' a' o, wf a ->
  Forall (fun i => match i with IAssignMove _ _ | IAssignCopy _ _ => True | _ => False end) p ->
  run c w a p = (w', a', o) -> count a' = count a.
Proof.
  induction p as [|ins r IH]; intros w a w' a' o Hwf Hp; simpl.
  - intros H; injection H as <- <- <-. reflexivity.
  - inversion Hp as [|x l Hx Hl]; subst.
    destruct (exec c w a ins) as [[w1 a1] o1] eqn:Ee.
    destruct (exec_wf _ _ _ _ _ _ _ Hwf Ee) as (Hwf1 & L1 & Hcnt & Hok & Hns).
    assert (Hc1 : count a1 = count a).
    { destruct o1; [|apply Hcnt; discriminate|apply Hcnt; discriminate].
      destruct ins; try contradiction; simpl in Ee.
      - destruct (get a i); [inversion Ee; subst; reflexivity|]. destruct (get a j); [inversion Ee; subst; reflexivity|].
        destruct (Nat.eqb i j); [inversion Ee; subst; reflexivity|].
        destruct (move_assign c w v v0) as [w2 [[d s]|]]; inversion Ee; subst; reflexivity.
      - destruct (get a j); [inversion Ee; subst; reflexivity|].
        destruct (copy_assign c w v v0) as [w2 [d|]]; inversion Ee; subst; reflexivity. }
    destruct o1; [|intros H; injection H as <- <- <-; exact Hc1|intros H; injection H as <- <- <-; exact Hc1].
    intros H. rewrite (IH _ _ _ _ _ Hwf1 Hl H). exact Hc1.
Qed.

Lemma mk_arr_wf vals cap : (length vals <= cap)%nat -> wf (mk_arr vals cap) /\ length (slots (mk_arr vals cap)) = cap.
Proof.
  intros H. unfold mk_arr, wf. simpl. rewrite app_length, map_length, repeat_length.
  split; [|lia]. split; [lia|]. split.
  - intros i Hi. rewrite app_nth1; [|rewrite map_length; exact Hi].
    exists (nth i vals 0%Z).
    rewrite (nth_indep _ Raw (Obj 0%Z)); [|rewrite map_length; exact Hi]. apply map_nth.
  - intros i Hi. rewrite app_nth2; rewrite map_length; [|exact Hi].
    destruct (Nat.lt_ge_cases (i - length vals) (cap - length vals)) as [L|G].
    + apply nth_repeat.
    + apply nth_overflow. rewrite repeat_length. exact G.
Qed.

(* ---- the two real programs pass the static bounds check, for ALL sizes (induction over the loops) *)
Lemma check_app cap : forall p q n, check n cap (p ++ q) =
  match check n cap p with Some m => check m cap q | None => None end.
Proof.
  induction p as [|ins r IH]; intros q n; [reflexivity|].
  change ((ins :: r) ++ q) with (ins :: (r ++ q)). rewrite (check_cons n cap ins (r ++ q)), (check_cons n cap ins r).
  destruct (check n cap [ins]) as [m|]; [apply IH|reflexivity].
Qed.

Lemma check_addbackmove_seq cap : forall k s n, (s + k <= n)%nat -> (n + k <= cap)%nat ->
  check n cap (map IAddBackMove (seq s k)) = Some (n + k)%nat.
Proof.
  induction k as [|k IH]; intros s n H1 H2; simpl; [f_equal; lia|].
  destruct (Nat.ltb_spec s n); [|lia]. destruct (Nat.ltb_spec n cap); [|lia]. simpl.
  rewrite IH; [f_equal; lia|lia|lia].
Qed.

Definition assign_ok (n : nat) (ins : instr) : Prop :=
  match ins with
  | IAssignMove i j => (i < n)%nat /\ (j < n)%nat /\ i <> j
  | IAssignCopy _ j => (j < n)%nat
  | _ => False
  end.

Lemma check_assign_list cap n : forall l, Forall (assign_ok n) l -> check n cap l = Some n.
Proof.
  induction l as [|ins r IH]; intros H; [reflexivity|]. inversion H as [|x y Hx Hy]; subst.
  destruct ins; simpl in Hx; try contradiction; simpl.
  - destruct Hx as (H1 & H2 & H3). destruct (Nat.ltb_spec i n); [|lia]. destruct (Nat.ltb_spec j n); [|lia].
    destruct (Nat.eqb_spec i j); [contradiction|]. simpl. apply IH. exact Hy.
  - destruct (Nat.ltb_spec j n); [|lia]. apply IH. exact Hy.
Qed.

Lemma check_addbackcopy cap : forall l n, (n + length l <= cap)%nat ->
  check n cap (map IAddBackCopy l) = Some (n + length l)%nat.
Proof.
  induction l as [|v l IH]; intros n H; simpl in *; [f_equal; lia|].
  destruct (Nat.ltb_spec n cap); [|lia]. rewrite IH; [f_equal; lia|lia].
Qed.

Lemma check_move_then_copy cap : forall (l : list (nat * Z)) n,
  (forall iv, In iv l -> (fst iv < n)%nat) -> (n + length l <= cap)%nat ->
  check n cap (flat_map (fun iv => [IAddBackMove (fst iv); IAssignCopy (snd iv) (fst iv)]) l) = Some (n + length l)%nat.
Proof.
  induction l as [|[i v] l IH]; intros n H1 H2; simpl in *; [f_equal; lia|].
  assert (Hi : (i < n)%nat) by (apply (H1 (i, v)); left; reflexivity).
  destruct (Nat.ltb_spec i n); [|lia]. destruct (Nat.ltb_spec n cap); [|lia]. simpl.
  destruct (Nat.ltb_spec i (S n)); [|lia].
  rewrite IH; [f_equal; lia| |lia].
  intros iv Hiv. specialize (H1 iv (or_intror Hiv)). lia.
Qed.

Lemma insert_prog_checked init index items : (index <= init)%nat ->
  check init (init + length items) (insert_prog init index items) = Some (init + length items)%nat.
Proof.
  intros Hx. unfold insert_prog. set (cnt := length items).
  destruct (Nat.eqb_spec cnt 0) as [E0|N0]; [simpl; f_equal; lia|].
  destruct (Nat.ltb_spec (index + cnt) init) as [LA|LB].
  - (* the new items fit below the old end: move the tail up, shift the middle, assign the range *)
    assert (H1 : check init (init + cnt) (map IAddBackMove (seq (init - cnt) cnt)) = Some (init + cnt)%nat)
      by (apply check_addbackmove_seq; lia).
    assert (H2 : check (init + cnt) (init + cnt)
              (map (fun i => IAssignMove (i - 1) (i + cnt - 1)) (rev (seq (S index) (init - cnt - index)))) = Some (init + cnt)%nat).
    { apply check_assign_list. apply Forall_forall. intros ins Hin. apply in_map_iff in Hin. destruct Hin as (i & <- & Hi).
      apply in_rev in Hi. apply in_seq in Hi. simpl. lia. }
    assert (H3 : check (init + cnt) (init + cnt)
              (map (fun iv : nat * Z => IAssignCopy (snd iv) (fst iv)) (combine (seq index cnt) items)) = Some (init + cnt)%nat).
    { apply check_assign_list. apply Forall_forall. intros ins Hin. apply in_map_iff in Hin.
      destruct Hin as ([i v] & <- & Hc). apply in_combine_l in Hc. apply in_seq in Hc. simpl. lia. }
    rewrite check_app, H1. cbv iota beta. rewrite check_app, H2. cbv iota beta. exact H3.
  - (* the new items reach the old end: append the surplus, then move each tail item up and overwrite it *)
    assert (Lk : length (skipn (init - index) items) = (cnt - (init - index))%nat) by (rewrite skipn_length; reflexivity).
    assert (Lc : length (combine (seq index (init - index)) items) = (init - index)%nat)
      by (rewrite combine_length, seq_length; fold cnt; lia).
    assert (H1 : check init (init + cnt) (map IAddBackCopy (skipn (init - index) items)) = Some (index + cnt)%nat).
    { rewrite check_addbackcopy; [f_equal; rewrite Lk; lia|rewrite Lk; lia]. }
    assert (H2 : check (index + cnt) (init + cnt)
              (flat_map (fun iv : nat * Z => [IAddBackMove (fst iv); IAssignCopy (snd iv) (fst iv)]) (combine (seq index (init - index)) items))
              = Some (init + cnt)%nat).
    { rewrite check_move_then_copy; [f_equal; rewrite Lc; lia| |rewrite Lc; lia].
      intros iv Hiv. destruct iv as [i v]. apply in_combine_l in Hiv. apply in_seq in Hiv. simpl. lia. }
    rewrite check_app, H1. cbv iota beta. exact H2.
Qed.

Lemma remove_prog_checked init index cnt : (index + cnt <= init)%nat ->
  check init init (remove_prog init index cnt) = Some (init - cnt)%nat.
Proof.
  intros Hx. unfold remove_prog. destruct (Nat.eqb_spec cnt 0) as [E0|N0]; [simpl; f_equal; lia|].
  rewrite check_app. rewrite check_assign_list.
  - simpl. destruct (Nat.leb_spec cnt init); [reflexivity|lia].
  - apply Forall_forall. intros ins Hin. apply in_map_iff in Hin. destruct Hin as (i & <- & Hi).
    apply in_seq in Hi. simpl. lia.
Qed.

Lemma insert_prog_no_remove init index items : no_remove (insert_prog init index items).
Proof.
  unfold insert_prog, no_remove. destruct (Nat.eqb (length items) 0); [constructor|].
  destruct (Nat.ltb (index + length items) init); rewrite ?Forall_app; repeat split;
  try (apply Forall_forall; intros x Hx; apply in_map_iff in Hx; destruct Hx as (y & <- & _); exact I).
  apply Forall_forall. intros x Hx. apply in_flat_map in Hx. destruct Hx as (y & _ & [<-|[<-|[]]]); exact I.
Qed.

(* array_basic (positional insert): for every category, every failure schedule, every array (any size) with
   enough capacity, every index and every inserted range (any length): InsertNogrow never touches a raw slot, and whether
   it completes or throws, the count is consistent -- every slot below count holds a constructed (live or moved-from)
   element, every slot at or above count is raw -- with  old count <= count <= old count + inserted. *)
Theorem array_insert_basic c w vals cap index items w' a' o :
  (index <= length vals)%nat -> (length vals + length items <= cap)%nat ->
  run c w (mk_arr vals cap) (insert_prog (length vals) index items) = (w', a', o) ->
  o <> AStuck /\ wf a' /\ length (slots a') = cap /\
  (length vals <= count a')%nat /\ (count a' <= length vals + length items)%nat /\
  (o = AOk -> count a' = (length vals + length items)%nat).
Proof.
  intros Hx Hc H.
  destruct (mk_arr_wf vals cap ltac:(lia)) as [Hwf Hl].
  assert (Hck : check (count (mk_arr vals cap)) (length (slots (mk_arr vals cap))) (insert_prog (length vals) index items)
                = Some (length vals + length items)%nat).
  { rewrite Hl. simpl. eapply check_mono; [|apply insert_prog_checked; assumption]. exact Hc. }
  destruct (run_wf _ _ _ _ _ _ _ Hwf H) as [Hwf' Hl'].
  destruct (run_checked _ _ _ _ _ _ _ _ Hwf Hck H) as [Hs Hok].
  pose proof (run_insert_count _ _ _ _ _ _ _ _ Hwf (insert_prog_no_remove _ _ _) Hck H) as Hb.
  simpl in Hb. split; [exact Hs|]. split; [exact Hwf'|]. split; [congruence|]. split; [lia|]. split; [lia|exact Hok].
Qed.

Lemma run_app c : forall p q w a, run c w a (p ++ q) =
  match run c w a p with (w1, a1, AOk) => run c w1 a1 q | r => r end.
Proof.
  induction p as [|ins r IH]; intros q w a; simpl; [reflexivity|].
  destruct (exec c w a ins) as [[w1 a1] o1]. destruct o1; [apply IH|reflexivity|reflexivity].
Qed.

(* array_basic (positional remove): as above; a failure leaves the count unchanged, success lowers it by cnt *)
Theorem array_remove_basic c w vals cap index cnt w' a' o :
  (index + cnt <= length vals)%nat -> (length vals <= cap)%nat ->
  run c w (mk_arr vals cap) (remove_prog (length vals) index cnt) = (w', a', o) ->
  o <> AStuck /\ wf a' /\ length (slots a') = cap /\
  (o = AOk -> count a' = (length vals - cnt)%nat) /\ (o = AExn -> count a' = length vals).
Proof.
  intros Hx Hcap H.
  destruct (mk_arr_wf vals cap Hcap) as [Hwf Hl].
  assert (Hck : check (count (mk_arr vals cap)) (length (slots (mk_arr vals cap))) (remove_prog (length vals) index cnt)
                = Some (length vals - cnt)%nat).
  { rewrite Hl. simpl. eapply check_mono; [|apply remove_prog_checked; assumption]. exact Hcap. }
  destruct (run_wf _ _ _ _ _ _ _ Hwf H) as [Hwf' Hl'].
  destruct (run_checked _ _ _ _ _ _ _ _ Hwf Hck H) as [Hs Hok].
  split; [exact Hs|]. split; [exact Hwf'|]. split; [congruence|]. split; [exact Hok|].
  intros ->. unfold remove_prog in H. destruct (Nat.eqb cnt 0); [simpl in H; inversion H|].
  rewrite run_app in H.
  destruct (run c w (mk_arr vals cap) (map (fun i => IAssignMove i (i - cnt)) (seq (index + cnt) (length vals - (index + cnt)))))
    as [[w1 a1] o1] eqn:E1.
  assert (Hc1 : count a1 = count (mk_arr vals cap)).
  { apply (run_assign_only_count c _ _ _ _ _ _ Hwf) in E1; [exact E1|].
    apply Forall_forall. intros x Hx0. apply in_map_iff in Hx0. destruct Hx0 as (y & <- & _). exact I. }
  destruct o1.
  - simpl in H. destruct (Nat.leb cnt (count a1)); [|inversion H].
    destruct (destroy_range w1 (slots a1) (count a1 - cnt) cnt) as [[w2 l2] [|]]; inversion H.
  - injection H as <- <- . exact Hc1.
  - inversion H.
Qed.
