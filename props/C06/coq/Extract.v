(* Extraction of the executable specs and wrapper models (ExtrOcamlBasic only). *)
From Coq Require Import ZArith List Extraction ExtrOcamlBasic.
From C06 Require Spec WrapOrdered WrapEq WrapErase IterLoop GenRefine GenEq GenNode GenCmp.
Separate Extraction
  Spec.lower_bound Spec.upper_bound Spec.insert_at Spec.erase_range Spec.ord_insert Spec.ord_insert_hint
  Spec.ord_find Spec.ord_count Spec.ord_erase_key Spec.ord_erase_range Spec.ord_merge Spec.ord_assign_at
  Spec.u_find Spec.u_insert Spec.u_filter_key Spec.u_count Spec.u_erase_key Spec.remove1 Spec.u_assign Spec.u_merge
  Spec.perm_eqb Spec.list_eqb Spec.lex_ltb Spec.cmp6
  WrapOrdered.set_insert_hint WrapOrdered.map_insert_hint WrapOrdered.map_insert
  WrapEq.mm_eq WrapEq.mm_pairs WrapEq.mm_findkey WrapEq.mm_insert WrapEq.mm_erase_key WrapEq.mm_erase_if WrapEq.mm_erase_pair
  WrapErase.us_erase_range WrapErase.mm_erase_range WrapErase.walk WrapErase.us_next WrapErase.mm_next
  IterLoop.us_erase_at IterLoop.mm_erase_at IterLoop.erase_loop
  GenRefine.gen_us_erase_range GenRefine.gen_mm_erase_range GenRefine.gen_set_insert_hint GenRefine.gen_map_insert_hint GenRefine.gen_map_insert
  GenEq.gen_uset_eq_run GenEq.gen_umap_eq_run GenEq.gen_ummap_eq_run
  GenNode.gen_set_insert_hint_node GenNode.gen_uset_insert_hint_node
  GenCmp.gen_cmp6_run GenCmp.gen_set_insert_node.
