// C18 implementation side, TU 3: the remaining vertex-count settings 9..14 (default memory manager); see c18_runner.h
#include "c18_runner.h"

int main()
{
	std::string line;
	while (std::getline(std::cin, line))
	{
		std::istringstream is(line);
		ull L, keep; is >> L >> keep;
		std::vector<std::vector<ColSpec>> ops; std::vector<ColSpec> extras; std::vector<ull> universe;
		bool bad = !parseOps(is, ops, extras, universe);
		std::string out;
		try
		{
			if (bad) out = "?";
#define CFG(l, k) else if (L == l && keep == k) out = runCase<l, k != 0>(ops, extras, universe);
			CFG(9, 1) CFG(10, 0) CFG(11, 1) CFG(12, 0) CFG(13, 1) CFG(14, 0)
			else out = "?config";
		}
		catch (const HarnessError& e) { out = std::string("HARNESS ") + e.what; }
		puts(out.c_str()); fflush(stdout);
	}
	return 0;
}
