(* C02 -- the full single-container alphabet: BTreeHist2's operations + Insert(begin, end) + multi-key Remove(key) *)
From Coq Require Import List ZArith Arith Lia Bool Sorted.
From C02 Require Import BTreeModel BTreeParams BTreeBase BTreeSearch BTreeIter BTreeAdd BTreeTop BTreeHist BTreeRemoveTop
  BTreeRangeTop BTreeHist2 BTreeMerge BTreeFast2 BTreeInsRange.
Import ListNotations.
Local Open Scope Z_scope.

Section Hist3.
Variables (maxCap stepRaw blockCount : nat) (linear multi : bool).
Hypothesis Hmc : (1 <= maxCap <= 255)%nat.
Notation twf := (twf maxCap).
Notation sorted := (sorted multi).

Inductive opf :=
| OBase (o : BTreeHist2.op)
| OInsertRange (ks : list Z)          (* Insert(begin, end) / Insert(initializer_list) *)
| ORemoveKeyAll (k : Z)               (* Remove(key) of a multi container: the whole equal range *)
| ORemoveIf (P : Z -> bool)           (* Remove(predicate) *)
| OCopy.                              (* copy construction / copy assignment (the container becomes its pvCopy) *)

Definition stepf (t : tree) (o : opf) : tree :=
  match o with
  | OBase o => BTreeHist2.step maxCap stepRaw blockCount linear multi t o
  | OInsertRange ks => insert_range maxCap stepRaw blockCount linear multi t ks
  | ORemoveKeyAll k => fst (remove_key_multi linear t k)
  | ORemoveIf P => remove_if P t
  | OCopy => copy_tree maxCap stepRaw blockCount t
  end.

Definition spec_stepf (l : list Z) (o : opf) : list Z :=
  match o with
  | OBase o => BTreeHist2.spec_step multi l o
  | OInsertRange ks => spec_insert_list multi l ks
  | ORemoveKeyAll k => if existsb (Z.eqb k) l then firstn (lb_index l k) l ++ skipn (ub_index l k) l else l
  | ORemoveIf P => filter (fun x => negb (P x)) l
  | OCopy => l
  end.

Lemma ss_filter (R : Z -> Z -> Prop) (f : Z -> bool) l : StronglySorted R l -> StronglySorted R (filter f l).
Proof.
  induction 1 as [|x l S IH F]; cbn [filter]; [constructor|]. destruct (f x); [|exact IH].
  constructor; [exact IH|]. rewrite Forall_forall in *. intros y Hy. apply filter_In in Hy. apply F. tauto.
Qed.

Lemma stepf_refines t o :
  twf t -> sorted (contents t) ->
  twf (stepf t o) /\ sorted (contents (stepf t o)) /\ contents (stepf t o) = spec_stepf (contents t) o /\
  cnt (stepf t o) = length (contents (stepf t o)).
Proof.
  intros W S. destruct o as [o|ks|k|P|]; cbn [stepf spec_stepf].
  - apply (BTreeHist2.step_refines maxCap stepRaw blockCount linear multi Hmc t o W S).
  - apply (insert_range_refines maxCap stepRaw blockCount linear multi Hmc t ks W S).
  - destruct (remove_key_multi_spec maxCap linear multi Hmc t k W S) as (W' & C' & _).
    assert (Eb : contains linear t k = existsb (Z.eqb k) (contents t)).
    { pose proof (contains_spec maxCap linear multi Hmc t k W S) as Cs. pose proof (existsb_In (contents t) k) as Ex.
      destruct (contains linear t k); destruct (existsb (Z.eqb k) (contents t)); auto; [symmetry; apply Ex | apply Cs]; tauto. }
    rewrite <- Eb. split; [exact W'|]. split; [|split; [exact C' | apply (count_is_length maxCap Hmc); exact W']].
    rewrite C'. destruct (contains linear t k); auto.
    apply (range_sorted maxCap multi Hmc); auto.
    apply ft_le_impl'. intros x Hx. apply Z.ltb_lt in Hx. apply negb_true_iff, Z.ltb_ge. lia.
  - destruct (remove_if_spec maxCap Hmc P t W) as (W' & C').
    split; [exact W'|]. split; [|split; [exact C' | apply (count_is_length maxCap Hmc); exact W']].
    rewrite C'. unfold BTreeHist.sorted in *. destruct multi; apply ss_filter; exact S.
  - destruct (copy_tree_spec maxCap stepRaw blockCount Hmc t W) as (W' & C').
    split; [exact W'|]. split; [rewrite C'; exact S|]. split; [exact C' | apply (count_is_length maxCap Hmc); exact W'].
Qed.

Theorem historyf_refines ops :
  let t := fold_left stepf ops empty_tree in
  twf t /\ sorted (contents t) /\ contents t = fold_left spec_stepf ops [] /\ cnt t = length (contents t).
Proof.
  assert (G : forall ops t l, twf t -> sorted (contents t) -> contents t = l -> cnt t = length (contents t) ->
    twf (fold_left stepf ops t) /\ sorted (contents (fold_left stepf ops t)) /\
    contents (fold_left stepf ops t) = fold_left spec_stepf ops l /\
    cnt (fold_left stepf ops t) = length (contents (fold_left stepf ops t))).
  { induction ops0 as [|o ops0 IH]; intros t l W S E C; simpl; [subst; auto|].
    destruct (stepf_refines t o W S) as (W' & S' & E' & C'). apply IH; auto. rewrite E', E. reflexivity. }
  apply G; auto.
  - unfold BTreeTop.twf, empty_tree. simpl. reflexivity.
  - unfold BTreeHist.sorted, contents, empty_tree. simpl. destruct multi; constructor.
Qed.

End Hist3.
