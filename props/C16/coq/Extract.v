(* Extraction of the GENERATED definitions (translator validation for C16). ExtrOcamlBasic only. *)
From Coq Require Import ZArith List Extraction ExtrOcamlBasic.
From MomoCommon Require Import GenPrelude.
From C16 Require Gen_Log2_64 Gen_Log2_32 Gen_SegSqrt Gen_SegCnst SegModel.
(* the generated table lookup uses Coq's List.nth; keep OCaml's own List module visible to lib/zutil.ml *)
Extraction Blacklist List String.
Separate Extraction
  Gen_Log2_64.Log2 Gen_Log2_32.Log2
  Gen_SegSqrt.GetSegItemIndexes Gen_SegSqrt.GetIndex Gen_SegSqrt.GetItemCount
  Gen_SegCnst.GetSegItemIndexes Gen_SegCnst.GetIndex Gen_SegCnst.GetItemCount
  SegModel.step SegModel.capacity SegModel.empty SegModel.len.
