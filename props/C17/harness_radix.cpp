// C17 implementation side, part 2: the REAL momo::internal::RadixSorter<R> for R = 1..16 on 8/16/32/64-bit codes and
// on pointers.  RADIX R W n v0 v1 ...   -> sorted values | group calls (offset:count with count > 2)
//               RADIXP R n i0 i1 ...    -> pointers &pool[i] sorted, printed as indexes
// The oracle (python: sorted(), and "every run of > 2 equal codes was handed to groupFunc exactly") is independent of Coq.
#include "private_access.h"
#include "momo/HashSorter.h"
using namespace momo;
typedef unsigned long long ull;

static int g_pool[1 << 16];
// the intended instantiations (checked at compile time): the code type really has the width of the element type
static_assert(std::is_same<decltype(internal::RadixSorterCodeGetter<uint8_t*>()((uint8_t*)nullptr)), uint8_t>::value, "8-bit code");
static_assert(std::is_same<decltype(internal::RadixSorterCodeGetter<uint16_t*>()((uint16_t*)nullptr)), uint16_t>::value, "16-bit code");
static_assert(std::is_same<decltype(internal::RadixSorterCodeGetter<uint32_t*>()((uint32_t*)nullptr)), uint32_t>::value, "32-bit code");
static_assert(std::is_same<decltype(internal::RadixSorterCodeGetter<uint64_t*>()((uint64_t*)nullptr)), uint64_t>::value, "64-bit code");
static_assert(std::is_same<decltype(internal::RadixSorterCodeGetter<int32_t*>()((int32_t*)nullptr)), uint32_t>::value, "signed 32-bit -> 32-bit code");
static_assert(std::is_same<decltype(internal::RadixSorterCodeGetter<int**>()((int**)nullptr)), uintptr_t>::value && sizeof(uintptr_t) == 8, "pointer code");
static_assert(internal::RadixSorter<1>::selectionSortMaxCount == 2 && internal::RadixSorter<3>::selectionSortMaxCount == 4 &&
	internal::RadixSorter<8>::selectionSortMaxCount == 32 && internal::RadixSorter<16>::selectionSortMaxCount == 512, "thresholds 2^(R/2+1)");

template<size_t R, typename T>
static void run_int(std::istream& is, size_t n)
{
	std::vector<T> v(n + 2, T(0x55));
	for (size_t i = 0; i < n; ++i) { ull x; is >> x; v[i + 1] = T(x); }
	T* b = v.data() + 1;
	typedef internal::RadixSorterCodeGetter<T*> CG;
	std::vector<std::pair<size_t, size_t>> groups;
	auto swapper = [] (T* a, T* c) { std::iter_swap(a, c); };
	auto groupFunc = [&groups, b] (T* p, size_t c) { if (c > 2) groups.emplace_back(size_t(p - b), c); };
	internal::RadixSorter<R>::Sort(b, n, CG(), swapper, groupFunc);
	std::vector<T> w(v.begin() + 1, v.begin() + 1 + n);   // second copy through the 2-argument overload
	bool guards = v[0] == T(0x55) && v[n + 1] == T(0x55);
	std::ostringstream os;
	for (size_t i = 0; i < n; ++i) os << ull(b[i]) << " ";
	os << "|";
	std::sort(groups.begin(), groups.end());
	for (auto& g : groups) os << " " << g.first << ":" << g.second;
	printf("%s%s\n", guards ? "" : "OOB ", os.str().c_str());
}

// RADIXI R W n v0 ... : SIGNED integers (intW_t, values given as signed decimals) through the 2-argument Sort
template<size_t R, typename T>
static void run_signed(std::istream& is, size_t n)
{
	static_assert(std::is_signed<T>::value && std::is_integral<T>::value, "signed element type");
	static_assert(std::is_signed<char>::value, "plain char is signed on this target");
	std::vector<T> v(n);
	for (size_t i = 0; i < n; ++i) { long long x; is >> x; v[i] = T(x); }
	internal::RadixSorter<R>::Sort(v.data(), n);
	std::ostringstream os;
	for (size_t i = 0; i < n; ++i) os << (long long)v[i] << " ";
	printf("%s|\n", os.str().c_str());
}

template<size_t R>
static void run_ptr(std::istream& is, size_t n)
{
	std::vector<int*> v(n);
	for (size_t i = 0; i < n; ++i) { ull x; is >> x; v[i] = g_pool + (x & 0xFFFF); }
	internal::RadixSorter<R>::Sort(v.data(), n);
	std::ostringstream os;
	for (size_t i = 0; i < n; ++i) os << (v[i] - g_pool) << " ";
	printf("%s|\n", os.str().c_str());
}

// RSORT R W g n (code id)* : RadixSorter<R> on W-bit codes of (code,id) items with a logging iterSwapper and, if g = 1, the
// group callback of HashSorter::pvSort (pvGroup for count > 2).  Output: final arrangement | swap trace
struct RItem { uint64_t code; long long id; };
template<size_t R, typename T>
static void run_rsort(std::istream& is, bool g, size_t n)
{
	std::vector<RItem> v(n);
	for (size_t i = 0; i < n; ++i) { ull c; long long id; is >> c >> id; v[i] = RItem{ uint64_t(T(c)), id }; }
	RItem* b = v.data();
	std::vector<long long> log;
	auto codeGetter = [] (RItem* it) { return T(it->code); };
	auto swapper = [b, &log] (RItem* x, RItem* y) { log.push_back((x - b) * 100000 + (y - b)); std::iter_swap(x, y); };
	auto eq = [] (const RItem& x, const RItem& y) { return x.id == y.id; };
	auto groupFunc = [g, &eq, &swapper] (RItem* p, size_t c) { if (g && c > 2) HashSorter::pvGroup(p, c, eq, swapper); };
	internal::RadixSorter<R>::Sort(b, n, codeGetter, swapper, groupFunc);
	std::ostringstream os;
	for (size_t i = 0; i < n; ++i) os << ull(b[i].code) << " " << b[i].id << " ";
	os << "| ";
	if (log.size() <= 48) { for (size_t i = 0; i < log.size(); ++i) os << (i ? "," : "") << log[i]; }
	else { long long d = 0; for (long long t : log) d = (d * 1000003 + t) % 1000000007LL; os << log.size() << ":" << d; }
	printf("%s\n", os.str().c_str());
}

template<size_t R>
static void run_r(const std::string& cmd, std::istream& is)
{
	if (cmd == "RADIXP") { size_t n; is >> n; run_ptr<R>(is, n); return; }
	if (cmd == "GCYC")
	{	// the real private cycle-leader overload pvRadixSort<Code>(begin, codeGetter, iterSwapper, shift, endIndexes) of RadixSorter<R>
		// on 64-bit codes; the bucket table is computed here (histogram + prefix sums): GCYC R shift n codes...
		size_t sh, n; is >> sh >> n; std::vector<uint64_t> v(n + 2, 0x5555555555555555ull);
		for (size_t i = 0; i < n; ++i) { ull x; is >> x; v[i + 1] = x; }
		uint64_t* b = v.data() + 1; const size_t RC = size_t(1) << R;
		std::array<size_t, (size_t(1) << R)> ends; ends.fill(0);
		for (size_t i = 0; i < n; ++i) ++ends[(b[i] >> sh) & (RC - 1)];
		for (size_t r = 1; r < RC; ++r) ends[r] += ends[r - 1];
		std::ostringstream os, og;
		auto codeGetter = [] (uint64_t* p) { return *p; };
		auto swapper = [b, &og] (uint64_t* x, uint64_t* y) { og << (x - b) << "-" << (y - b) << " "; std::iter_swap(x, y); };
		internal::RadixSorter<R>::template pvRadixSort<uint64_t>(b, codeGetter, swapper, sh, ends);
		for (size_t i = 0; i < n; ++i) os << ull(b[i]) << (i + 1 < n ? " " : "");
		std::string g = og.str(); if (!g.empty()) g.pop_back();
		bool guards = v[0] == 0x5555555555555555ull && v[n + 1] == 0x5555555555555555ull;
		printf("%s%s | %s\n", guards ? "" : "OOB ", os.str().c_str(), g.c_str());
		return;
	}
	if (cmd == "GRADIX")
	{	// the real private pvGetRadix<Code>(code, shift) of RadixSorter<R>: GRADIX R W code shift
		size_t w; ull code, sh; is >> w >> code >> sh;
		printf("%llu\n", ull(w == 8 ? internal::RadixSorter<R>::template pvGetRadix<uint8_t>(uint8_t(code), sh)
		                             : internal::RadixSorter<R>::template pvGetRadix<uint64_t>(uint64_t(code), sh)));
		return;
	}
	if (cmd == "RADIXI")
	{
		size_t w, n; is >> w >> n;
		switch (w) {
		case 8: run_signed<R, int8_t>(is, n); break;
		case 16: run_signed<R, int16_t>(is, n); break;
		case 32: run_signed<R, int32_t>(is, n); break;
		case 64: run_signed<R, int64_t>(is, n); break;
		case 7: run_signed<R, char>(is, n); break;        // plain char (signed on this target)
		case 1: { std::vector<char> raw(n); std::unique_ptr<bool[]> v(new bool[n + 1]);   // bool
			for (size_t i = 0; i < n; ++i) { long long x; is >> x; v[i] = (x != 0); }
			internal::RadixSorter<R>::Sort(v.get(), n);
			std::ostringstream os; for (size_t i = 0; i < n; ++i) os << int(v[i]) << " ";
			printf("%s|\n", os.str().c_str()); break; }
		default: puts("?"); }
		return;
	}
	if (cmd == "RSORT")
	{
		size_t w, g, n; is >> w >> g >> n;
		switch (w) {
		case 8: run_rsort<R, uint8_t>(is, g != 0, n); break;
		case 16: run_rsort<R, uint16_t>(is, g != 0, n); break;
		case 32: run_rsort<R, uint32_t>(is, g != 0, n); break;
		case 64: run_rsort<R, uint64_t>(is, g != 0, n); break;
		default: puts("?"); }
		return;
	}
	size_t w, n; is >> w >> n;
	switch (w) {
	case 8: run_int<R, uint8_t>(is, n); break;
	case 16: run_int<R, uint16_t>(is, n); break;
	case 32: run_int<R, uint32_t>(is, n); break;
	case 64: run_int<R, uint64_t>(is, n); break;
	default: puts("?"); }
}

int main()
{
	std::string line;
	while (std::getline(std::cin, line))
	{
		std::istringstream is0(line); std::string cmd0; is0 >> cmd0;
		if (cmd0 == "PCODE")
		{	// the pointer code getter: code of &g_pool[i] relative to the code of &g_pool[0], in bytes
			size_t i; is0 >> i; int* p0 = g_pool; int* p = g_pool + (i & 0xFFFF);
			uintptr_t c0 = internal::RadixSorterCodeGetter<int**>()(&p0), c = internal::RadixSorterCodeGetter<int**>()(&p);
			printf("%llu %d\n", ull(c - c0), int(c == reinterpret_cast<uintptr_t>(p))); continue;
		}
		if (cmd0 == "GBS" || cmd0 == "GES")
		{	// the real private HashSorter::pvBinarySearch / pvExponentialSearch on an array of comparer values (-1 / 0 / 1)
			size_t n; is0 >> n; std::vector<int> v(n + 2, 99);
			for (size_t i = 0; i < n; ++i) is0 >> v[i + 1];
			int* b = v.data() + 1; bool oob = false;
			auto comparer = [b, n, &oob] (int* p) { if (p < b || p >= b + n) oob = true; return *p; };
			auto r = (cmd0 == "GBS") ? HashSorter::pvBinarySearch(b, n, comparer) : HashSorter::pvExponentialSearch(b, n, comparer);
			printf("%s%lld %d\n", oob ? "OOB " : "", (long long)(r.iterator - b), int(r.found)); continue;
		}
		if (cmd0 == "GGRP")
		{	// the real private HashSorter::pvGroup on an array of item ids
			size_t n; is0 >> n; std::vector<long long> v(n + 2, -7);
			for (size_t i = 0; i < n; ++i) is0 >> v[i + 1];
			long long* b = v.data() + 1; std::ostringstream os;
			auto eq = [] (long long x, long long y) { return x == y; };
			auto swapper = [] (long long* x, long long* y) { std::iter_swap(x, y); };
			HashSorter::pvGroup(b, n, eq, swapper);
			for (size_t i = 0; i < n; ++i) os << b[i] << (i + 1 < n ? " " : "");
			printf("%s%s\n", (v[0] == -7 && v[n + 1] == -7) ? "" : "OOB ", os.str().c_str()); continue;
		}
		if (cmd0 == "GSEL")
		{	// the real private RadixSorter<8>::pvSelectionSort on an array of 64-bit codes; ALL groupFunc calls are logged
			size_t n; is0 >> n; std::vector<uint64_t> v(n + 2, 0x5555555555555555ull);
			for (size_t i = 0; i < n; ++i) { ull x; is0 >> x; v[i + 1] = x; }
			uint64_t* b = v.data() + 1; std::ostringstream os, og;
			auto codeGetter = [] (uint64_t* p) { return *p; };
			auto swapper = [] (uint64_t* x, uint64_t* y) { std::iter_swap(x, y); };
			auto groupFunc = [b, &og] (uint64_t* p, size_t c) { og << (p - b) << ":" << c << " "; };
			internal::RadixSorter<8>::pvSelectionSort<uint64_t>(b, n, codeGetter, swapper, groupFunc);
			for (size_t i = 0; i < n; ++i) os << ull(b[i]) << (i + 1 < n ? " " : "");
			std::string g = og.str(); if (!g.empty()) g.pop_back();
			bool guards = v[0] == 0x5555555555555555ull && v[n + 1] == 0x5555555555555555ull;
			printf("%s%s | %s\n", guards ? "" : "OOB ", os.str().c_str(), g.c_str()); continue;
		}
		if (cmd0 == "SCODE" || cmd0 == "UCODE")
		{	// the real default code getter on one value: SCODE W x (intW_t) / UCODE W x (uintW_t)
			int w; long long x; ull ux; ull code = 0;
			if (cmd0 == "SCODE") { is0 >> w >> x;
				if (w == 8) { int8_t v = int8_t(x); code = internal::RadixSorterCodeGetter<int8_t*>()(&v); }
				else if (w == 16) { int16_t v = int16_t(x); code = internal::RadixSorterCodeGetter<int16_t*>()(&v); }
				else if (w == 32) { int32_t v = int32_t(x); code = internal::RadixSorterCodeGetter<int32_t*>()(&v); }
				else { int64_t v = int64_t(x); code = internal::RadixSorterCodeGetter<int64_t*>()(&v); } }
			else { is0 >> w >> ux;
				if (w == 8) { uint8_t v = uint8_t(ux); code = internal::RadixSorterCodeGetter<uint8_t*>()(&v); }
				else if (w == 16) { uint16_t v = uint16_t(ux); code = internal::RadixSorterCodeGetter<uint16_t*>()(&v); }
				else if (w == 32) { uint32_t v = uint32_t(ux); code = internal::RadixSorterCodeGetter<uint32_t*>()(&v); }
				else { uint64_t v = uint64_t(ux); code = internal::RadixSorterCodeGetter<uint64_t*>()(&v); } }
			printf("%llu\n", code); continue;
		}
		std::istringstream is(line); std::string cmd; size_t r; is >> cmd >> r;
		switch (r) {
#define C(R) case R: run_r<R>(cmd, is); break;
		C(1) C(2) C(3) C(4) C(5) C(6) C(7) C(8) C(9) C(10) C(11) C(12) C(13) C(14) C(15) C(16)
		default: puts("?"); }
		fflush(stdout);
	}
	return 0;
}
