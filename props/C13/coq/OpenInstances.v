(* C13: instantiate the table-level theorems with the GENERATED encoders, probe steps and bucket bookkeeping
   (UpdateMaxProbe / GetMaxProbe / GetNextBucketIndex / AddCrt / Remove / pvSetEmpty of the bucket classes). *)
From Coq Require Import ZArith Bool List Lia.
From MomoCommon Require Import GenPrelude.
From C13 Require Gen_Open2N2 Gen_Open2N2_ops Gen_OpenN1 Gen_OpenN1_ops Gen_Open8 Open2N2_Proofs OpenN1_Proofs BucketOps.
From C13 Require Import ProbeSeq OpenTable.
From C13 Require HSAddRefine Gen_HSAdd Gen_BucketBase HSFindRefine Gen_HSFindIn.
Import ListNotations.
Local Open Scope Z_scope.

Definition Arg : Type := (Z * Z * Z * Z)%type.   (* the remaining size_t arguments of AddCrt / Remove: arbitrary *)

(* ------------------------------------------------------------------ Open2N2<maxCount>, maxCount = 1, 2, 3 *)
Definition o2_step mc n h := step n Gen_Open2N2.GetNextBucketIndex h BucketOps.O2.st BucketOps.O2.updP Arg (BucketOps.O2.addP mc) (BucketOps.O2.remP mc) BucketOps.O2.full.
Definition o2_add mc n h := add n Gen_Open2N2.GetNextBucketIndex h BucketOps.O2.st BucketOps.O2.updP Arg (BucketOps.O2.addP mc) BucketOps.O2.full.
Definition o2_find n h := find n Gen_Open2N2.GetNextBucketIndex h BucketOps.O2.st BucketOps.O2.dec.
Definition o2_empty mc : table BucketOps.O2.st := {| bk := fun _ => []; bd := fun _ => BucketOps.O2.empty mc |}.

Section O2.
Variable mc : Z. Hypothesis Hmc : 1 <= mc <= 3.
Lemma o2_add_spec a b : BucketOps.O2.good mc b -> 0 <= BucketOps.O2.cnt b < Z.of_nat (Z.to_nat mc) ->
  BucketOps.O2.good mc (BucketOps.O2.addP mc a b) /\ BucketOps.O2.dec (BucketOps.O2.addP mc a b) = BucketOps.O2.dec b /\
  BucketOps.O2.cnt (BucketOps.O2.addP mc a b) = BucketOps.O2.cnt b + 1.
Proof. intros Hg Hc. apply (BucketOps.O2.add_spec mc Hmc); [exact Hg|lia]. Qed.
Lemma o2_rem_spec a b b' : BucketOps.O2.good mc b -> 0 < BucketOps.O2.cnt b <= Z.of_nat (Z.to_nat mc) -> BucketOps.O2.remP mc a b = Some b' ->
  BucketOps.O2.good mc b' /\ BucketOps.O2.dec b' = BucketOps.O2.dec b /\ BucketOps.O2.cnt b' = BucketOps.O2.cnt b - 1.
Proof. intros Hg Hc. apply (BucketOps.O2.rem_spec mc Hmc); [exact Hg|lia]. Qed.
Lemma o2_full_spec b : BucketOps.O2.good mc b -> 0 <= BucketOps.O2.cnt b <= Z.of_nat (Z.to_nat mc) ->
  (BucketOps.O2.full b = true <-> BucketOps.O2.cnt b = Z.of_nat (Z.to_nat mc)).
Proof. intros Hg Hc. rewrite Z2Nat.id by lia. apply (BucketOps.O2.full_iff mc Hmc); [exact Hg|lia]. Qed.
End O2.

(* Open2N2: every reachable table finds every present key; "full" only when all buckets are full *)
Theorem open2n2_present_key_found mc n h ops b k :
  1 <= mc <= 3 -> 0 <= n <= 63 -> (forall k, 0 <= h k < 2 ^ n) ->
  let s := fold_left (o2_step mc n h) ops (o2_empty mc) in
  In k (bk _ s b) -> o2_find n h s k = true.
Proof.
  intros Hmc Hn Hh. unfold o2_step, o2_find, o2_empty.
  apply (present_key_found_all_histories n Hn Gen_Open2N2.GetNextBucketIndex (Z.to_nat mc) h BucketOps.O2.st
    (BucketOps.O2.good mc) BucketOps.O2.dec BucketOps.O2.updP (BucketOps.O2.upd_good mc n Hn) (BucketOps.O2.upd_covers mc n Hn)
    (BucketOps.O2.upd_keeps mc n Hn) Arg BucketOps.O2.cnt (BucketOps.O2.addP mc) (BucketOps.O2.remP mc) BucketOps.O2.full (o2_full_spec mc Hmc)
    (BucketOps.O2.upd_cnt mc n Hn) (o2_add_spec mc Hmc) (o2_rem_spec mc Hmc));
    apply (BucketOps.O2.empty_good mc).
Qed.

Theorem open2n2_counts_exact mc n h ops i :
  1 <= mc <= 3 -> 0 <= n <= 63 -> (forall k, 0 <= h k < 2 ^ n) ->
  let s := fold_left (o2_step mc n h) ops (o2_empty mc) in
  BucketOps.O2.cnt (bd _ s i) = Z.of_nat (length (bk _ s i)) /\ (length (bk _ s i) <= Z.to_nat mc)%nat.
Proof.
  intros Hmc Hn Hh. unfold o2_step, o2_empty.
  apply (count_exact_all_histories n Hn Gen_Open2N2.GetNextBucketIndex (Z.to_nat mc) h BucketOps.O2.st
    (BucketOps.O2.good mc) BucketOps.O2.dec BucketOps.O2.updP (BucketOps.O2.upd_good mc n Hn) (BucketOps.O2.upd_covers mc n Hn)
    (BucketOps.O2.upd_keeps mc n Hn) Arg BucketOps.O2.cnt (BucketOps.O2.addP mc) (BucketOps.O2.remP mc) BucketOps.O2.full (o2_full_spec mc Hmc)
    (BucketOps.O2.upd_cnt mc n Hn) (o2_add_spec mc Hmc) (o2_rem_spec mc Hmc));
    apply (BucketOps.O2.empty_good mc).
Qed.

Theorem open2n2_full_only_if_all_full mc n h ops k a :
  1 <= mc <= 3 -> 0 <= n <= 63 -> (forall k, 0 <= h k < 2 ^ n) ->
  let s := fold_left (o2_step mc n h) ops (o2_empty mc) in
  o2_add mc n h s k a = None ->
  forall b, 0 <= b < 2 ^ n -> (Z.to_nat mc <= length (bk _ s b))%nat.
Proof.
  intros Hmc Hn Hh. unfold o2_step, o2_add, o2_empty.
  apply (full_only_if_all_full_all_histories n Hn Gen_Open2N2.GetNextBucketIndex (open2n2_next_spec n Hn) (Z.to_nat mc) h Hh BucketOps.O2.st
    (BucketOps.O2.good mc) BucketOps.O2.dec BucketOps.O2.updP (BucketOps.O2.upd_good mc n Hn) (BucketOps.O2.upd_covers mc n Hn)
    (BucketOps.O2.upd_keeps mc n Hn) Arg BucketOps.O2.cnt (BucketOps.O2.addP mc) (BucketOps.O2.remP mc) BucketOps.O2.full (o2_full_spec mc Hmc)
    (BucketOps.O2.upd_cnt mc n Hn) (o2_add_spec mc Hmc) (o2_rem_spec mc Hmc));
    apply (BucketOps.O2.empty_good mc).
Qed.

(* ------------------------------------------------------------------ OpenN1<maxCount> / Open8 (maxCount = 7) *)
Definition updN (mc : Z) (s : Z -> Z) (p : Z) : Z -> Z :=
  match Gen_OpenN1.UpdateMaxProbe mc s p with Ok (_, s') => s' | _ => s end.
Definition n1_dec mc n := fun st => Gen_OpenN1.GetMaxProbe mc st n.
Definition n1_step rv mc n h := step n Gen_Open8.GetNextBucketIndex h (Z -> Z) (updN mc) Arg (BucketOps.N1.addP rv mc) (BucketOps.N1.remP rv mc) (Gen_OpenN1_ops.IsFull rv mc).
Definition n1_add rv mc n h := add n Gen_Open8.GetNextBucketIndex h (Z -> Z) (updN mc) Arg (BucketOps.N1.addP rv mc) (Gen_OpenN1_ops.IsFull rv mc).
Definition n1_find mc n h := find n Gen_Open8.GetNextBucketIndex h (Z -> Z) (n1_dec mc n).
Definition n1_empty mc : table (Z -> Z) := {| bk := fun _ => []; bd := fun _ => Gen_OpenN1_ops.pvSetEmpty mc (fun _ => 0) |}.

Section N1.
Variable rv : bool. Variable mc n : Z. Hypothesis Hmc : 1 <= mc <= 7. Hypothesis Hn : 0 <= n <= 63.
Lemma updN_all b p : BucketOps.N1.good rv mc b -> 0 <= p < 2 ^ n ->
  BucketOps.N1.good rv mc (updN mc b p) /\ p <= n1_dec mc n (updN mc b p) /\
  (forall q, q < 2 ^ n -> q <= n1_dec mc n b -> q <= n1_dec mc n (updN mc b p)) /\
  BucketOps.N1.cnt rv mc (updN mc b p) = BucketOps.N1.cnt rv mc b.
Proof.
  intros (He & H0) Hp. destruct (OpenN1_Proofs.update_spec mc b p n He Hn Hp) as (s' & Hr & Hi & Hge & Hold & Hoth).
  unfold updN. rewrite Hr. pose proof (BucketOps.N1.sp_range rv mc Hmc) as Hsp.
  assert (H00 : s' (BucketOps.N1.sp rv mc) = b (BucketOps.N1.sp rv mc)) by (apply Hoth; lia).
  split; [split; [exact Hi|rewrite H00; exact H0]|]. split; [exact Hge|]. split; [exact Hold|].
  unfold BucketOps.N1.cnt, Gen_OpenN1_ops.pvGetCount. rewrite (BucketOps.N1.sp_gen rv mc Hmc), H00. reflexivity.
Qed.
Lemma updN_good b p : BucketOps.N1.good rv mc b -> 0 <= p < 2 ^ n -> BucketOps.N1.good rv mc (updN mc b p).
Proof. intros Hb Hp. destruct (updN_all b p Hb Hp) as (H & _). exact H. Qed.
Lemma updN_covers b p : BucketOps.N1.good rv mc b -> 0 <= p < 2 ^ n -> p <= n1_dec mc n (updN mc b p).
Proof. intros Hb Hp. destruct (updN_all b p Hb Hp) as (_ & H & _). exact H. Qed.
Lemma updN_keeps b p q : BucketOps.N1.good rv mc b -> 0 <= p < 2 ^ n -> q < 2 ^ n ->
  q <= n1_dec mc n b -> q <= n1_dec mc n (updN mc b p).
Proof. intros Hb Hp Hq Hqb. destruct (updN_all b p Hb Hp) as (_ & _ & Hk & _). apply Hk; assumption. Qed.
Lemma updN_cnt b p : BucketOps.N1.good rv mc b -> 0 <= p < 2 ^ n -> BucketOps.N1.cnt rv mc (updN mc b p) = BucketOps.N1.cnt rv mc b.
Proof. intros Hb Hp. destruct (updN_all b p Hb Hp) as (_ & _ & _ & H). exact H. Qed.
Lemma n1_full_spec b : BucketOps.N1.good rv mc b -> 0 <= BucketOps.N1.cnt rv mc b <= Z.of_nat (Z.to_nat mc) ->
  (Gen_OpenN1_ops.IsFull rv mc b = true <-> BucketOps.N1.cnt rv mc b = Z.of_nat (Z.to_nat mc)).
Proof. intros Hg _. rewrite Z2Nat.id by lia. apply (BucketOps.N1.full_iff rv mc Hmc b Hg). Qed.
Lemma n1_add_spec a b : BucketOps.N1.good rv mc b -> 0 <= BucketOps.N1.cnt rv mc b < Z.of_nat (Z.to_nat mc) ->
  BucketOps.N1.good rv mc (BucketOps.N1.addP rv mc a b) /\ n1_dec mc n (BucketOps.N1.addP rv mc a b) = n1_dec mc n b /\
  BucketOps.N1.cnt rv mc (BucketOps.N1.addP rv mc a b) = BucketOps.N1.cnt rv mc b + 1.
Proof.
  intros Hg Hc. destruct (BucketOps.N1.add_spec rv mc Hmc a b Hg ltac:(lia)) as (H1 & H2 & H3).
  split; [exact H1|]. split; [apply H2|exact H3].
Qed.
Lemma n1_rem_spec a b b' : BucketOps.N1.good rv mc b -> 0 < BucketOps.N1.cnt rv mc b <= Z.of_nat (Z.to_nat mc) ->
  BucketOps.N1.remP rv mc a b = Some b' ->
  BucketOps.N1.good rv mc b' /\ n1_dec mc n b' = n1_dec mc n b /\ BucketOps.N1.cnt rv mc b' = BucketOps.N1.cnt rv mc b - 1.
Proof.
  intros Hg Hc Hr. destruct (BucketOps.N1.rem_spec rv mc Hmc a b b' Hg ltac:(lia) Hr) as (H1 & H2 & H3).
  split; [exact H1|]. split; [apply H2|exact H3].
Qed.
End N1.

Theorem open8_present_key_found rv mc n h ops b k :
  1 <= mc <= 7 -> 0 <= n <= 63 -> (forall k, 0 <= h k < 2 ^ n) ->
  let s := fold_left (n1_step rv mc n h) ops (n1_empty mc) in
  In k (bk _ s b) -> n1_find mc n h s k = true.
Proof.
  intros Hmc Hn Hh. unfold n1_step, n1_find, n1_empty.
  apply (present_key_found_all_histories n Hn Gen_Open8.GetNextBucketIndex (Z.to_nat mc) h (Z -> Z)
    (BucketOps.N1.good rv mc) (n1_dec mc n) (updN mc) (updN_good rv mc n Hmc Hn) (updN_covers rv mc n Hmc Hn) (updN_keeps rv mc n Hmc Hn)
    Arg (BucketOps.N1.cnt rv mc) (BucketOps.N1.addP rv mc) (BucketOps.N1.remP rv mc) (Gen_OpenN1_ops.IsFull rv mc) (n1_full_spec rv mc Hmc)
    (updN_cnt rv mc n Hmc Hn) (n1_add_spec rv mc n Hmc) (n1_rem_spec rv mc n Hmc));
    apply (BucketOps.N1.empty_good rv mc Hmc).
Qed.

Theorem open8_counts_exact rv mc n h ops i :
  1 <= mc <= 7 -> 0 <= n <= 63 -> (forall k, 0 <= h k < 2 ^ n) ->
  let s := fold_left (n1_step rv mc n h) ops (n1_empty mc) in
  BucketOps.N1.cnt rv mc (bd _ s i) = Z.of_nat (length (bk _ s i)) /\ (length (bk _ s i) <= Z.to_nat mc)%nat.
Proof.
  intros Hmc Hn Hh. unfold n1_step, n1_empty.
  apply (count_exact_all_histories n Hn Gen_Open8.GetNextBucketIndex (Z.to_nat mc) h (Z -> Z)
    (BucketOps.N1.good rv mc) (n1_dec mc n) (updN mc) (updN_good rv mc n Hmc Hn) (updN_covers rv mc n Hmc Hn) (updN_keeps rv mc n Hmc Hn)
    Arg (BucketOps.N1.cnt rv mc) (BucketOps.N1.addP rv mc) (BucketOps.N1.remP rv mc) (Gen_OpenN1_ops.IsFull rv mc) (n1_full_spec rv mc Hmc)
    (updN_cnt rv mc n Hmc Hn) (n1_add_spec rv mc n Hmc) (n1_rem_spec rv mc n Hmc));
    apply (BucketOps.N1.empty_good rv mc Hmc).
Qed.

Theorem open8_full_only_if_all_full rv mc n h ops k a :
  1 <= mc <= 7 -> 0 <= n <= 63 -> (forall k, 0 <= h k < 2 ^ n) ->
  let s := fold_left (n1_step rv mc n h) ops (n1_empty mc) in
  n1_add rv mc n h s k a = None ->
  forall b, 0 <= b < 2 ^ n -> (Z.to_nat mc <= length (bk _ s b))%nat.
Proof.
  intros Hmc Hn Hh. unfold n1_step, n1_add, n1_empty.
  apply (full_only_if_all_full_all_histories n Hn Gen_Open8.GetNextBucketIndex (open8_next_spec n Hn) (Z.to_nat mc) h Hh (Z -> Z)
    (BucketOps.N1.good rv mc) (n1_dec mc n) (updN mc) (updN_good rv mc n Hmc Hn) (updN_covers rv mc n Hmc Hn) (updN_keeps rv mc n Hmc Hn)
    Arg (BucketOps.N1.cnt rv mc) (BucketOps.N1.addP rv mc) (BucketOps.N1.remP rv mc) (Gen_OpenN1_ops.IsFull rv mc) (n1_full_spec rv mc Hmc)
    (updN_cnt rv mc n Hmc Hn) (n1_add_spec rv mc n Hmc) (n1_rem_spec rv mc n Hmc));
    apply (BucketOps.N1.empty_good rv mc Hmc).
Qed.

(* ------------------------------------------------------------------ HashSet::pvAddNogrow regenerated = the model's add *)
Definition mk_arg : Z -> Z -> Z -> Arg := fun hc l p => (hc, l, p, 0).
Definition o2_gen_add mc n hash := HSAddRefine.gen_add n Gen_Open2N2.GetNextBucketIndex BucketOps.O2.st BucketOps.O2.updP Arg
  (BucketOps.O2.addP mc) BucketOps.O2.full mk_arg hash.
Definition n1_gen_add rv mc n hash := HSAddRefine.gen_add n Gen_Open8.GetNextBucketIndex (Z -> Z) (updN mc) Arg
  (BucketOps.N1.addP rv mc) (Gen_OpenN1_ops.IsFull rv mc) mk_arg hash.

Theorem open2n2_generated_addnogrow mc n hash s mCount k : 0 <= n <= 63 ->
  o2_gen_add mc n hash s mCount k =
  match first_free n Gen_Open2N2.GetNextBucketIndex BucketOps.O2.st BucketOps.O2.full s (HSAddRefine.home n hash k) 0 (Z.to_nat (2 ^ n)) with
  | None => Exn
  | Some p => match o2_add mc n (HSAddRefine.home n hash) s k (mk_arg (hash k) n (Z.of_nat p)) with
              | Some s' => Ok (0, s', mCount) | None => Stuck end
  end.
Proof. intros Hn. apply (HSAddRefine.generated_addnogrow_is_table_add n Hn). Qed.

Theorem open8_generated_addnogrow rv mc n hash s mCount k : 0 <= n <= 63 ->
  n1_gen_add rv mc n hash s mCount k =
  match first_free n Gen_Open8.GetNextBucketIndex (Z -> Z) (Gen_OpenN1_ops.IsFull rv mc) s (HSAddRefine.home n hash k) 0 (Z.to_nat (2 ^ n)) with
  | None => Exn
  | Some p => match n1_add rv mc n (HSAddRefine.home n hash) s k (mk_arg (hash k) n (Z.of_nat p)) with
              | Some s' => Ok (0, s', mCount) | None => Stuck end
  end.
Proof. intros Hn. apply (HSAddRefine.generated_addnogrow_is_table_add n Hn). Qed.

(* and it throws "Hash table is full" (Exn) only when no bucket of a reachable table has room *)
Theorem open2n2_generated_addnogrow_full_only_if_all_full mc n hash ops mCount k :
  1 <= mc <= 3 -> 0 <= n <= 63 -> (forall k, 0 <= hash k) ->
  let h := HSAddRefine.home n hash in
  let s := fold_left (o2_step mc n h) ops (o2_empty mc) in
  o2_gen_add mc n hash s mCount k = Exn ->
  forall b, 0 <= b < 2 ^ n -> (Z.to_nat mc <= length (bk _ s b))%nat.
Proof.
  intros Hmc Hn Hh h s Hexn.
  assert (Hr : forall k, 0 <= h k < 2 ^ n) by (intros k'; apply (HSAddRefine.home_range n Hn); apply Hh).
  apply (open2n2_full_only_if_all_full mc n h ops k (mk_arg (hash k) n 0) Hmc Hn Hr).
  rewrite (open2n2_generated_addnogrow mc n hash s mCount k Hn) in Hexn.
  unfold o2_add, add. fold h. unfold OpenTable.N.
  fold h in Hexn.
  destruct (first_free n Gen_Open2N2.GetNextBucketIndex BucketOps.O2.st BucketOps.O2.full s (h k) 0 (Z.to_nat (2 ^ n))) as [p|] eqn:Hf; [|fold s; rewrite Hf; reflexivity].
  exfalso. unfold o2_add, add, OpenTable.N in Hexn. rewrite Hf in Hexn. discriminate.
Qed.

Theorem open8_generated_addnogrow_full_only_if_all_full rv mc n hash ops mCount k :
  1 <= mc <= 7 -> 0 <= n <= 63 -> (forall k, 0 <= hash k) ->
  let h := HSAddRefine.home n hash in
  let s := fold_left (n1_step rv mc n h) ops (n1_empty mc) in
  n1_gen_add rv mc n hash s mCount k = Exn ->
  forall b, 0 <= b < 2 ^ n -> (Z.to_nat mc <= length (bk _ s b))%nat.
Proof.
  intros Hmc Hn Hh h s Hexn.
  assert (Hr : forall k, 0 <= h k < 2 ^ n) by (intros k'; apply (HSAddRefine.home_range n Hn); apply Hh).
  apply (open8_full_only_if_all_full rv mc n h ops k (mk_arg (hash k) n 0) Hmc Hn Hr).
  rewrite (open8_generated_addnogrow rv mc n hash s mCount k Hn) in Hexn.
  unfold n1_add, add. fold h. unfold OpenTable.N.
  fold h in Hexn.
  destruct (first_free n Gen_Open8.GetNextBucketIndex (Z -> Z) (Gen_OpenN1_ops.IsFull rv mc) s (h k) 0 (Z.to_nat (2 ^ n))) as [p|] eqn:Hf; [|fold s; rewrite Hf; reflexivity].
  exfalso. unfold n1_add, add, OpenTable.N in Hexn. rewrite Hf in Hexn. discriminate.
Qed.

(* ------------------------------------------------------------------ HashSet::pvFind regenerated = the model's find *)
Definition o2_wasfull (b : BucketOps.O2.st) : bool := Gen_Open2N2_ops.WasFull (BucketOps.O2.ms b) (BucketOps.O2.sh b) (BucketOps.O2.hp b).
Definition o2_gen_find n hash := HSFindRefine.gen_find n Gen_Open2N2.GetNextBucketIndex BucketOps.O2.st BucketOps.O2.dec o2_wasfull hash.
Definition n1_gen_find mc n hash := HSFindRefine.gen_find n Gen_Open8.GetNextBucketIndex (Z -> Z) (n1_dec mc n) Gen_OpenN1_ops.WasFull hash.

Lemma o2_dec_range mc b : BucketOps.O2.good mc b -> 0 <= BucketOps.O2.dec b < 2 ^ 64 - 1.
Proof.
  intros (He & _). unfold BucketOps.O2.dec. fold (Open2N2_Proofs.decode (BucketOps.O2.ms b)).
  rewrite (Open2N2_Proofs.decode_val _ He). destruct He as (H0 & H1 & _ & H56).
  assert (0 <= BucketOps.O2.ms b 1 / 4) by (apply Z.div_pos; lia).
  assert (2 ^ (BucketOps.O2.ms b 1 / 4) <= 2 ^ 56) by (apply Z.pow_le_mono_r; lia).
  assert (0 < 2 ^ (BucketOps.O2.ms b 1 / 4)) by (apply Z.pow_pos_nonneg; lia).
  change (2 ^ 64) with (256 * 2 ^ 56). assert (0 < 2 ^ 56) by (apply Z.pow_pos_nonneg; lia). nia.
Qed.

Lemma n1_dec_range rv mc n b : 0 <= n <= 63 -> BucketOps.N1.good rv mc b -> 0 <= n1_dec mc n b < 2 ^ 64 - 1.
Proof.
  intros Hn (He & _). unfold n1_dec. fold (OpenN1_Proofs.bound mc b n).
  destruct (Z.eq_dec (b mc) 255) as [Hi|Hf].
  - rewrite (OpenN1_Proofs.bound_inf mc b n Hn Hi).
    assert (0 < 2 ^ n) by (apply Z.pow_pos_nonneg; lia).
    assert (2 ^ n <= 2 ^ 63) by (apply Z.pow_le_mono_r; lia).
    change (2 ^ 64) with (2 * 2 ^ 63). lia.
  - rewrite (OpenN1_Proofs.bound_fin mc b n He Hf). unfold OpenN1_Proofs.enc_inv in He.
    assert (0 <= b mc / 8 <= 31) by (Z.div_mod_to_equations; lia).
    pose proof (Z.mod_pos_bound (b mc) 8 ltac:(lia)).
    assert (0 < 2 ^ (b mc / 8)) by (apply Z.pow_pos_nonneg; lia).
    assert (2 ^ (b mc / 8) <= 2 ^ 31) by (apply Z.pow_le_mono_r; lia).
    change (2 ^ 64) with (2 ^ 33 * 2 ^ 31). assert (0 < 2 ^ 31) by (apply Z.pow_pos_nonneg; lia).
    change (2 ^ 33) with 8589934592. nia.
Qed.

Lemma o2_good_reachable mc n h ops i : 1 <= mc <= 3 -> 0 <= n <= 63 ->
  BucketOps.O2.good mc (bd _ (fold_left (o2_step mc n h) ops (o2_empty mc)) i).
Proof.
  intros Hmc Hn. unfold o2_step, o2_empty.
  apply (good_all_histories n Hn Gen_Open2N2.GetNextBucketIndex (Z.to_nat mc) h BucketOps.O2.st
    (BucketOps.O2.good mc) BucketOps.O2.dec BucketOps.O2.updP (BucketOps.O2.upd_good mc n Hn) (BucketOps.O2.upd_covers mc n Hn)
    (BucketOps.O2.upd_keeps mc n Hn) Arg BucketOps.O2.cnt (BucketOps.O2.addP mc) (BucketOps.O2.remP mc) BucketOps.O2.full (o2_full_spec mc Hmc)
    (BucketOps.O2.upd_cnt mc n Hn) (o2_add_spec mc Hmc) (o2_rem_spec mc Hmc));
    apply (BucketOps.O2.empty_good mc).
Qed.

Lemma n1_good_reachable rv mc n h ops i : 1 <= mc <= 7 -> 0 <= n <= 63 ->
  BucketOps.N1.good rv mc (bd _ (fold_left (n1_step rv mc n h) ops (n1_empty mc)) i).
Proof.
  intros Hmc Hn. unfold n1_step, n1_empty.
  apply (good_all_histories n Hn Gen_Open8.GetNextBucketIndex (Z.to_nat mc) h (Z -> Z)
    (BucketOps.N1.good rv mc) (n1_dec mc n) (updN mc) (updN_good rv mc n Hmc Hn) (updN_covers rv mc n Hmc Hn) (updN_keeps rv mc n Hmc Hn)
    Arg (BucketOps.N1.cnt rv mc) (BucketOps.N1.addP rv mc) (BucketOps.N1.remP rv mc) (Gen_OpenN1_ops.IsFull rv mc) (n1_full_spec rv mc Hmc)
    (updN_cnt rv mc n Hmc Hn) (n1_add_spec rv mc n Hmc) (n1_rem_spec rv mc n Hmc));
    apply (BucketOps.N1.empty_good rv mc Hmc).
Qed.

(* THE property, on the regenerated search loop: in every table reachable by insertions and removals, the regenerated
   HashSet::pvFind reports every present key (in a bucket that holds it), and reports a key that is nowhere as absent *)
Theorem open2n2_generated_find_finds_present mc n hash ops b k :
  1 <= mc <= 3 -> 0 <= n <= 63 -> (forall k, 0 <= hash k) ->
  let h := HSAddRefine.home n hash in
  let s := fold_left (o2_step mc n h) ops (o2_empty mc) in
  In k (bk _ s b) -> exists ic, o2_gen_find n hash s k = Ok (1, ic) /\ In k (bk _ s ic).
Proof.
  intros Hmc Hn Hh h s Hin.
  assert (Hr : forall k, 0 <= h k < 2 ^ n) by (intros k'; apply (HSAddRefine.home_range n Hn); apply Hh).
  apply (HSFindRefine.generated_find_finds n Gen_Open2N2.GetNextBucketIndex BucketOps.O2.st BucketOps.O2.dec o2_wasfull hash s k).
  - apply (o2_dec_range mc). apply (o2_good_reachable mc n h ops _ Hmc Hn).
  - intros b0. reflexivity.
  - exact (open2n2_present_key_found mc n h ops b k Hmc Hn Hr Hin).
Qed.

Theorem open2n2_generated_find_absent mc n hash ops k :
  1 <= mc <= 3 -> 0 <= n <= 63 ->
  let h := HSAddRefine.home n hash in
  let s := fold_left (o2_step mc n h) ops (o2_empty mc) in
  (forall b, ~ In k (bk _ s b)) -> o2_gen_find n hash s k = Ok (0, hash k).
Proof.
  intros Hmc Hn h s Hno.
  apply (HSFindRefine.generated_find_absent n Gen_Open2N2.GetNextBucketIndex BucketOps.O2.st BucketOps.O2.dec o2_wasfull hash s k).
  - apply (o2_dec_range mc). apply (o2_good_reachable mc n h ops _ Hmc Hn).
  - intros b0. reflexivity.
  - destruct (find n Gen_Open2N2.GetNextBucketIndex (HSFindRefine.home n hash) BucketOps.O2.st BucketOps.O2.dec s k) eqn:Hf; [|reflexivity].
    apply find_sound in Hf. destruct Hf as (b & Hb). destruct (Hno b Hb).
Qed.

Theorem open8_generated_find_finds_present rv mc n hash ops b k :
  1 <= mc <= 7 -> 0 <= n <= 63 -> (forall k, 0 <= hash k) ->
  let h := HSAddRefine.home n hash in
  let s := fold_left (n1_step rv mc n h) ops (n1_empty mc) in
  In k (bk _ s b) -> exists ic, n1_gen_find mc n hash s k = Ok (1, ic) /\ In k (bk _ s ic).
Proof.
  intros Hmc Hn Hh h s Hin.
  assert (Hr : forall k, 0 <= h k < 2 ^ n) by (intros k'; apply (HSAddRefine.home_range n Hn); apply Hh).
  apply (HSFindRefine.generated_find_finds n Gen_Open8.GetNextBucketIndex (Z -> Z) (n1_dec mc n) Gen_OpenN1_ops.WasFull hash s k).
  - apply (n1_dec_range rv mc n _ Hn). apply (n1_good_reachable rv mc n h ops _ Hmc Hn).
  - intros b0. reflexivity.
  - exact (open8_present_key_found rv mc n h ops b k Hmc Hn Hr Hin).
Qed.

Theorem open8_generated_find_absent rv mc n hash ops k :
  1 <= mc <= 7 -> 0 <= n <= 63 ->
  let h := HSAddRefine.home n hash in
  let s := fold_left (n1_step rv mc n h) ops (n1_empty mc) in
  (forall b, ~ In k (bk _ s b)) -> n1_gen_find mc n hash s k = Ok (0, hash k).
Proof.
  intros Hmc Hn h s Hno.
  apply (HSFindRefine.generated_find_absent n Gen_Open8.GetNextBucketIndex (Z -> Z) (n1_dec mc n) Gen_OpenN1_ops.WasFull hash s k).
  - apply (n1_dec_range rv mc n _ Hn). apply (n1_good_reachable rv mc n h ops _ Hmc Hn).
  - intros b0. reflexivity.
  - destruct (find n Gen_Open8.GetNextBucketIndex (HSFindRefine.home n hash) (Z -> Z) (n1_dec mc n) s k) eqn:Hf; [|reflexivity].
    apply find_sound in Hf. destruct Hf as (b & Hb). destruct (Hno b Hb).
Qed.

(* the regenerated search examines exactly home, probe 1, ..., probe GetMaxProbe(home): same verdict as the model on ANY table
   whose home bucket decodes to a representable bound (no reachability needed) *)
Theorem open2n2_generated_find_is_model n hash s k r ic :
  0 <= n <= 63 -> 0 <= BucketOps.O2.dec (bd _ s (HSFindRefine.home n hash k)) < 2 ^ 64 - 1 ->
  o2_gen_find n hash s k = Ok (r, ic) ->
  (r <> 0 <-> o2_find n (HSFindRefine.home n hash) s k = true) /\ (r <> 0 -> In k (bk _ s ic)).
Proof.
  intros Hn HD. apply (HSFindRefine.generated_find_is_table_find n Gen_Open2N2.GetNextBucketIndex BucketOps.O2.st BucketOps.O2.dec o2_wasfull hash s k r ic HD).
  intros b0. reflexivity.
Qed.

Theorem open8_generated_find_is_model mc n hash s k r ic :
  0 <= n <= 63 -> 0 <= n1_dec mc n (bd _ s (HSFindRefine.home n hash k)) < 2 ^ 64 - 1 ->
  n1_gen_find mc n hash s k = Ok (r, ic) ->
  (r <> 0 <-> n1_find mc n (HSFindRefine.home n hash) s k = true) /\ (r <> 0 -> In k (bk _ s ic)).
Proof.
  intros Hn HD. apply (HSFindRefine.generated_find_is_table_find n Gen_Open8.GetNextBucketIndex (Z -> Z) (n1_dec mc n) Gen_OpenN1_ops.WasFull hash s k r ic HD).
  intros b0. reflexivity.
Qed.

(* non-vacuity: a 4-bucket Open2N2<3> table, constant hash: twelve keys fill it, the thirteenth add fails,
   removals and re-insertions keep everything found *)
Example table_example :
  let a : Arg := (0, 2, 0, 0) in
  let h := fun _ : Z => 1 in
  let s := fold_left (o2_step 3 2 h) (map (fun k => OAdd Arg k a) [10; 11; 12; 13; 14; 15; 16; 17; 18; 19; 20; 21]) (o2_empty 3) in
  map (fun i => length (bk _ s i)) [0; 1; 2; 3] = [3; 3; 3; 3]%nat /\
  o2_add 3 2 h s 22 a = None /\
  o2_find 2 h s 21 = true /\
  let s2 := fold_left (o2_step 3 2 h) [ORemove Arg 1 10 (2, 0, 0, 0); OAdd Arg 30 a] s in
  o2_find 2 h s2 30 = true /\ o2_find 2 h s2 21 = true /\ o2_find 2 h s2 10 = false /\
  map (fun i => BucketOps.O2.cnt (bd _ s2 i)) [0; 1; 2; 3] = [3; 3; 3; 3].
Proof. vm_compute. repeat split. Qed.
