(* C11 -- executable model of momo::HashSet growth under failures (HashSet.h), self-contained (Stdlib only).

   The model mirrors what the code DOES:
     bucket = items in Bucket::GetBounds order (AddCrt appends at the end, Remove moves the LAST item into the
              hole), the sticky WasFull flag, the encoded max-probe state of the bucket as a HOME bucket
     table  = one HashSetBuckets generation: mLogCount + 2^mLogCount buckets
     hset   = the chain mBuckets -> mNextBuckets -> ... (NEWEST FIRST), mCount, mCapacity
   Failures are inputs of the operations (the environment's choices); the theorems quantify over all of them:
     hfail  : the hash functor throws inside pvFind (before any effect)
     afail  : creating the new item / Bucket::AddCrt throws (after the probe loop, before any effect)
     refuse : the memory manager refuses the new bucket array in Buckets::Create (pvAddGrow / Reserve)
     sch    : list bool, one entry popped per item migration in pvRelocateItems; true = this migration throws
              (recomputed hash throws, or Bucket::AddCrt cannot allocate); [] = no more failures
   Section parameters = everything that differs between bucket kinds / hash functions / key categories. *)
From Coq Require Import ZArith List Lia Bool.
Import ListNotations.
Local Open Scope Z_scope.

Fixpoint upd_nth {A} (n : nat) (x : A) (l : list A) : list A :=
  match l, n with
  | [], _ => []
  | _ :: r, O => x :: r
  | a :: r, S n' => a :: upd_nth n' x r
  end.

(* Bucket::Find: position (Bounds order) of the first item equal to k *)
Fixpoint bfind (k : Z) (l : list Z) : option nat :=
  match l with
  | [] => None
  | k' :: r => if Z.eqb k k' then Some O else match bfind k r with Some p => Some (S p) | None => None end
  end.

(* Bucket::Remove(iter): itemReplacer(items[count-1], *iter); --count *)
Definition bremove (pos : nat) (l : list Z) : list Z :=
  match rev l with
  | [] => []
  | z :: _ => let l' := removelast l in
              if Nat.eqb pos (length l') then l' else upd_nth pos z l'
  end.

Inductive out : Type :=
| RInserted | RAlready | RFull | RBadAlloc | RExn | RCheck
| RFound (b : bool) | RRemoved (b : bool) | RList (l : list Z) | RNum (z : Z) | RUnit.

Inductive op : Type :=
| OInsert (k : Z) (hfail afail refuse : bool) (sch : list bool)
| OFind (k : Z)
| ORemove (k : Z)
| OReserve (n : Z) (refuse : bool) (sch : list bool)
| OTraverse
| OCount.

Inductive mstat : Type := MOk | MStop | MTerm.   (* migration: completed | stopped by a swallowed failure | std::terminate *)

Section GrowModel.
  Variable B : Type.                 (* encoded max-probe state *)
  Variable b0 : B.                   (* after construction *)
  Variable decode : Z -> B -> Z.     (* Bucket::GetMaxProbe(logBucketCount) *)
  Variable upd_bound : B -> Z -> B.  (* Bucket::UpdateMaxProbe(probe) *)
  Variable h : Z -> Z.               (* the hash function: arbitrary *)
  Variable cap : Z.                  (* Bucket::maxCount *)
  Variable wf0 : bool.               (* Bucket::WasFull() of a fresh bucket *)
  Variable start : Z -> Z -> Z.      (* GetStartBucketIndex hashCode bucketCount *)
  Variable next : Z -> Z -> Z -> Z.  (* GetNextBucketIndex bucketIndex bucketCount probe *)
  Variable logStart : Z.             (* HashTraits::GetLogStartBucketCount *)
  Variable calcCapacity : Z -> Z.    (* HashTraits::CalcCapacity(bucketCount, maxCount) *)
  Variable shift : Z -> Z.           (* HashTraits::GetBucketCountShift(bucketCount, maxCount) *)
  Variable nothrowReloc : bool.      (* HashSet::areItemsNothrowRelocatable *)

  Record bucket : Type := mkB { items : list Z; wasFull : bool; bound : B }.
  Definition emptyB : bucket := mkB [] wf0 b0.
  Definition blen (b : bucket) : Z := Z.of_nat (length (items b)).
  Definition isFull (b : bucket) : bool := cap <=? blen b.

  Record table : Type := mkT { tlog : Z; tbs : list bucket }.
  Definition bcount (t : table) : Z := 2 ^ tlog t.
  Definition getb (t : table) (i : Z) : bucket := nth (Z.to_nat i) (tbs t) emptyB.
  Definition setb (t : table) (i : Z) (b : bucket) : table := mkT (tlog t) (upd_nth (Z.to_nat i) b (tbs t)).
  Definition newTable (log : Z) : table := mkT log (repeat emptyB (Z.to_nat (2 ^ log))).

  (* ---- HashSet::pvFind(indexCode, buckets, itemPred), HashSet.h:1062-1090 ----
     n counts the remaining iterations of `for (probe = 1; bucket->WasFull() && probe <= maxProbe; ++probe)`;
     note that WasFull is asked of the bucket visited LAST, not of the home bucket. *)
  Fixpoint probe_loop (n : nat) (t : table) (k : Z) (probe : nat) (idx : Z) (b : bucket) : option (Z * nat) :=
    match n with
    | O => None
    | S n' =>
      if wasFull b then
        let idx' := next idx (bcount t) (Z.of_nat probe) in
        let b' := getb t idx' in
        match bfind k (items b') with
        | Some pos => Some (idx', pos)
        | None => probe_loop n' t k (S probe) idx' b'
        end
      else None
    end.

  Definition tfind (t : table) (k : Z) : option (Z * nat) :=
    let i0 := start (h k) (bcount t) in
    let b := getb t i0 in
    match bfind k (items b) with
    | Some pos => Some (i0, pos)
    | None => probe_loop (Z.to_nat (decode (tlog t) (bound b))) t k 1 i0 b
    end.

  (* ---- HashSet::pvAddNogrow, HashSet.h:1119-1144 ----
     n = bucketCount - 1 - probe: `++probe; if (probe >= bucketCount) throw "Hash table is full"` *)
  Fixpoint add_loop (n : nat) (t : table) (probe : nat) (idx : Z) : option (Z * nat) :=
    if isFull (getb t idx) then
      match n with
      | O => None
      | S n' => add_loop n' t (S probe) (next idx (bcount t) (Z.of_nat (S probe)))
      end
    else Some (idx, probe).

  Definition tadd (t : table) (k : Z) : option table :=
    let i0 := start (h k) (bcount t) in
    match add_loop (Z.to_nat (bcount t - 1)) t 0 i0 with
    | None => None
    | Some (idx, probe) =>
      let b := getb t idx in
      let its := items b ++ [k] in
      let t1 := setb t idx (mkB its (wasFull b || (cap <=? Z.of_nat (length its))) (bound b)) in
      let hb := getb t1 i0 in
      Some (setb t1 i0 (mkB (items hb) (wasFull hb) (upd_bound (bound hb) (Z.of_nat probe))))
    end.

  Definition tremove (t : table) (idx : Z) (pos : nat) : table :=
    let b := getb t idx in setb t idx (mkB (bremove pos (items b)) (wasFull b) (bound b)).

  (* ---- the container ---- *)
  Record hset : Type := mkH { gens : list table; count : Z; capacity : Z }.
  Definition hinit : hset := mkH [] 0 0.

  (* HashSet::pvFind(key), 1038-1060: generations newest first; with areItemsNothrowRelocatable only the newest *)
  Fixpoint gfind (gs : list table) (k : Z) (gi : nat) : option (nat * Z * nat) :=
    match gs with
    | [] => None
    | t :: r => match tfind t k with
                | Some (idx, pos) => Some (gi, idx, pos)
                | None => if nothrowReloc then None else gfind r k (S gi)
                end
    end.
  Definition hfind (s : hset) (k : Z) : option (nat * Z * nat) :=
    if count s =? 0 then None else gfind (gens s) k 0.

  (* one traversal GetBegin() .. GetEnd() (pvInc / pvMove, 349-383): newest generation first, buckets 0..,
     inside a bucket from the last item to the first *)
  Definition ttraverse (t : table) : list Z := flat_map (fun b => rev (items b)) (tbs t).
  Definition traverse (s : hset) : list Z := if count s =? 0 then [] else flat_map ttraverse (gens s).

  (* ---- pvRelocateItems, 1251-1302: oldest generation first, buckets 0.., items last to first; each item is
          pvAddNogrow'ed to the newest table and then removed from its bucket; the first failure stops
          everything (swallowed by the catch in pvRelocateItems()). ---- *)
  Definition pop (sch : list bool) : bool * list bool :=
    match sch with [] => (false, []) | f :: r => (f, r) end.

  Fixpoint reloc_items (its : list Z) (nw : table) (sch : list bool) : list Z * table * list bool * mstat :=
    match its with
    | [] => ([], nw, sch, MOk)
    | k :: rest =>
      let (f, sch') := pop sch in
      if f && negb nothrowReloc then (its, nw, sch', MStop)
      else match tadd nw k with
           | None => (its, nw, sch', if nothrowReloc then MTerm else MStop)
           | Some nw' => reloc_items rest nw' sch'
           end
    end.

  Fixpoint reloc_buckets (bs : list bucket) (nw : table) (sch : list bool) : list bucket * table * list bool * mstat :=
    match bs with
    | [] => ([], nw, sch, MOk)
    | b :: rest =>
      match reloc_items (rev (items b)) nw sch with
      | (rem, nw1, sch1, st) =>
        let b' := mkB (rev rem) (wasFull b) (bound b) in
        match st with
        | MOk => match reloc_buckets rest nw1 sch1 with
                 | (rest', nw2, sch2, st2) => (b' :: rest', nw2, sch2, st2)
                 end
        | _ => (b' :: rest, nw1, sch1, st)
        end
      end
    end.

  Fixpoint reloc_gens (olds : list table) (nw : table) (sch : list bool) : list table * table * list bool * mstat :=
    match olds with
    | [] => ([], nw, sch, MOk)
    | g :: older =>
      match reloc_gens older nw sch with
      | (older', nw1, sch1, st1) =>
        match st1 with
        | MOk => match reloc_buckets (tbs g) nw1 sch1 with
                 | (bs', nw2, sch2, st2) =>
                   match st2 with
                   | MOk => ([], nw2, sch2, MOk)                 (* buckets->Destroy *)
                   | _ => ([mkT (tlog g) bs'], nw2, sch2, st2)
                   end
                 end
        | _ => (g :: older', nw1, sch1, st1)
        end
      end
    end.

  (* `if (mBuckets->GetNextBuckets() != nullptr) pvRelocateItems()`; None = std::terminate *)
  Definition relocate (gs : list table) (sch : list bool) : option (list table) :=
    match gs with
    | nw :: ((_ :: _) as olds) =>
      match reloc_gens olds nw sch with
      | (olds', nw', _, st) => match st with MTerm => None | _ => Some (nw' :: olds') end
      end
    | _ => Some gs
    end.

  (* pvGetNewLogBucketCount *)
  Definition newLog (gs : list table) : Z :=
    match gs with [] => logStart | t :: _ => tlog t + shift (bcount t) end.

  (* pvAddNogrow<true> on the newest table + the migration that pvAdd starts afterwards *)
  Definition add_head (s : hset) (t : table) (r : list table) (k : Z) (afail : bool) (ncap : Z) (sch : list bool)
    : option (hset * out) :=
    match tadd t k with
    | None => Some (s, RFull)
    | Some t' =>
      if afail then Some (s, RBadAlloc)
      else match relocate (t' :: r) sch with
           | None => None
           | Some gs => Some (mkH gs (count s + 1) ncap, RInserted)
           end
    end.

  (* pvAdd (after pvFind said "absent"), 1102-1117, with pvAddGrow 1146-1185 *)
  Definition hadd (s : hset) (k : Z) (afail refuse : bool) (sch : list bool) : option (hset * out) :=
    if count s <? capacity s then
      match gens s with
      | [] => Some (s, RCheck)                       (* unreachable: capacity = 0 without buckets *)
      | t :: r => add_head s t r k afail (capacity s) sch
      end
    else
      let nl := newLog (gens s) in
      let ncap := calcCapacity (2 ^ nl) in
      if ncap <=? count s then Some (s, RCheck)      (* MOMO_CHECK(newCapacity > mCount) *)
      else if refuse then
        match gens s with
        | [] => Some (s, RBadAlloc)                  (* no table to fall back to *)
        | t :: r => add_head s t r k afail (capacity s) sch      (* overloadIfCannotGrow *)
        end
      else add_head s (newTable nl) (gens s) k afail ncap sch.

  (* Reserve, 709-732: ++newLogBucketCount until the capacity suffices *)
  Fixpoint reserve_log (fuel : nat) (nl n : Z) : option Z :=
    if n <=? calcCapacity (2 ^ nl) then Some nl
    else match fuel with O => None | S f => reserve_log f (nl + 1) n end.

  Definition hreserve (s : hset) (n : Z) (refuse : bool) (sch : list bool) : option (hset * out) :=
    if n <=? capacity s then Some (s, RUnit)
    else match reserve_log 64 (newLog (gens s)) n with
         | None => Some (s, RCheck)
         | Some nl =>
           if refuse then Some (s, RBadAlloc)
           else match relocate (newTable nl :: gens s) sch with
                | None => None
                | Some gs => Some (mkH gs (count s) (calcCapacity (2 ^ nl)), RUnit)
                end
         end.

  Definition upd_gen (gs : list table) (gi : nat) (f : table -> table) : list table :=
    match nth_error gs gi with Some t => upd_nth gi (f t) gs | None => gs end.

  (* one public operation; None = the process called std::terminate *)
  Definition step (s : hset) (o : op) : option (hset * out) :=
    match o with
    | OInsert k hfail afail refuse sch =>
      if hfail then Some (s, RExn) else
      match hfind s k with
      | Some _ => Some (s, RAlready)
      | None => hadd s k afail refuse sch
      end
    | OFind k => Some (s, RFound (match hfind s k with Some _ => true | None => false end))
    | ORemove k =>
      match hfind s k with
      | Some (gi, idx, pos) =>
        Some (mkH (upd_gen (gens s) gi (fun t => tremove t idx pos)) (count s - 1) (capacity s), RRemoved true)
      | None => Some (s, RRemoved false)
      end
    | OReserve n refuse sch => hreserve s n refuse sch
    | OTraverse => Some (s, RList (traverse s))
    | OCount => Some (s, RNum (count s))
    end.

  Fixpoint run (s : hset) (os : list op) : option (hset * list out) :=
    match os with
    | [] => Some (s, [])
    | o :: r => match step s o with
                | None => None
                | Some (s1, x) => match run s1 r with None => None | Some (s2, xs) => Some (s2, x :: xs) end
                end
    end.

  (* observations used by the correspondence stage *)
  Definition shape (s : hset) : list (Z * list (list Z * bool)) :=
    map (fun t => (tlog t, map (fun b => (items b, wasFull b)) (tbs t))) (gens s).

End GrowModel.

(* ---- concrete bucket kinds (instantiation used for extraction and for the non-vacuity examples) ---- *)
Definition start_mask (hc bc : Z) : Z := hc mod bc.                         (* hashCode & (bucketCount - 1) *)
Definition next_linear (i bc p : Z) : Z := (i + 1) mod bc.                  (* BucketBase: (i + 1) & (bc - 1) *)
Definition next_tri (i bc p : Z) : Z := (i + p) mod bc.                     (* Open2N2/Open8: (i + probe) & (bc - 1) *)

(* HashBucketBase::CalcCapacity / GetBucketCountShift (LimP4, LimP, One ...) *)
Definition cc_base (mc bc : Z) : Z :=
  if mc =? 1 then bc * 5 / 8 else if mc =? 2 then bc + bc / 2 else bc * 2.
Definition sh_base (mc bc : Z) : Z :=
  if mc =? 1 then 1 else if mc =? 2 then (if bc <? 65536 then 2 else 1) else (if bc <? 1048576 then 2 else 1).
(* HashBucketOpen2N2 / HashBucketOpen8: floor(bc*mc/12*11), floor(bc*7/14*13) *)
Definition cc_open (mc bc : Z) : Z := if mc =? 7 then bc * mc * 13 / 14 else bc * mc * 11 / 12.
Definition sh_open (mc bc : Z) : Z := 1.

(* key -> hash, the distributions of harness/kit.h `spread` (64-bit size_t) *)
Definition spread (dist k : Z) : Z :=
  let x := k mod 2 ^ 64 in
  if dist =? 0 then x
  else if dist =? 1 then 42
  else if dist =? 2 then x mod 16
  else if dist =? 3 then (x * 2 ^ 56) mod 2 ^ 64
  else if dist =? 4 then (x * 11400714819323198485) mod 2 ^ 64
  else x mod 7.

Record config : Type := mkCfg {
  c_probe : Z;      (* 0 = linear (LimP4, LimP, One), 1 = triangular (Open2N2, Open8) *)
  c_policy : Z;     (* 0 = HashBucketBase policy, 1 = open policy *)
  c_cap : Z; c_wf0 : bool; c_logStart : Z; c_dist : Z; c_nothrow : bool }.

(* exact max-probe bound: B = Z, decode = id, UpdateMaxProbe = max (the real encoders over-approximate; C13) *)
Definition cfg_step (c : config) :=
  step Z 0 (fun _ b => b) Z.max (spread (c_dist c)) (c_cap c) (c_wf0 c) start_mask
       (if c_probe c =? 0 then next_linear else next_tri) (c_logStart c)
       (if c_policy c =? 0 then cc_base (c_cap c) else cc_open (c_cap c))
       (if c_policy c =? 0 then sh_base (c_cap c) else sh_open (c_cap c)) (c_nothrow c).
Definition cfg_init : hset Z := hinit Z.
Definition cfg_shape (s : hset Z) := shape Z s.
Definition cfg_find (c : config) (s : hset Z) (k : Z) : bool :=
  match hfind Z 0 (fun _ b => b) (spread (c_dist c)) (c_wf0 c) start_mask
              (if c_probe c =? 0 then next_linear else next_tri) (c_nothrow c) s k with
  | Some _ => true | None => false end.
