(* Extraction of the executable models of C07 (ExtrOcamlBasic only, no Extract Constant). *)
From Coq Require Import ZArith List Extraction ExtrOcamlBasic.
From C07 Require TableSpec MultiHash IndexModel Gen_Segments SelectionModel TableOps ProjectModel GroupModel ProtoRun SelectModel SelEditModel.
Extraction Blacklist String.
Separate Extraction
  TableSpec.step TableSpec.empty_table TableSpec.select TableSpec.find_by_key TableSpec.project
  TableSpec.sorted_projection TableSpec.lower_bound_count TableSpec.upper_bound_count TableSpec.natlist_eqb
  TableOps.t_insert TableOps.t_update_row TableOps.t_update_col TableOps.t_remove TableOps.t_filter TableOps.t_clear TableSpec.evalp
  ProjectModel.project_loop GroupModel.group_runs GroupModel.group_model
  SelectionModel.ub_bisect SelectionModel.lower_pred SelectionModel.upper_pred
  Gen_Segments.GetItemCount Gen_Segments.GetSegItemIndexes
  MultiHash.pv_add MultiHash.accept_remove MultiHash.filter_group
  IndexModel.empty_istate IndexModel.add_raw IndexModel.remove_raw IndexModel.update_raw IndexModel.update_col
  IndexModel.filter_raws IndexModel.add_unique_index IndexModel.add_multi_index IndexModel.find_unique
  IndexModel.find_multi IndexModel.has_col
  ProtoRun.gen_add_raw ProtoRun.gen_remove_raw ProtoRun.gen_update_raw ProtoRun.gen_update_col
  ProtoRun.gen_fit_unique ProtoRun.gen_fit_multi SelectModel.pv_select
  SelEditModel.sel_reverse SelEditModel.sel_add SelEditModel.sel_insert SelEditModel.sel_insert_range SelEditModel.sel_remove
  SelEditModel.sel_remove_pred SelEditModel.sel_set SelEditModel.sel_add_range SelEditModel.sel_assign.
