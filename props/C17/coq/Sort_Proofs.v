(* C17: proofs about the sort model SorterSort.v (all for sw = swap). *)
From Coq Require Import ZArith Bool List Lia Permutation.
From MomoCommon Require Import GenPrelude.
From C17 Require Import SorterSearch SorterSort.
Import ListNotations.
Local Open Scope Z_scope.

(* ---------------- lists: set_nth / swap ---------------- *)
Lemma length_set_nth l n x : length (set_nth l n x) = length l.
Proof. revert n. induction l as [|h t IH]; intros [|n]; simpl; auto. Qed.

Lemma nth_set_nth_eq l n x d : (n < length l)%nat -> nth n (set_nth l n x) d = x.
Proof. revert n. induction l as [|h t IH]; intros [|n] H; simpl in *; try lia; auto. apply IH. lia. Qed.

Lemma nth_set_nth_neq l n k x d : k <> n -> nth k (set_nth l n x) d = nth k l d.
Proof.
  revert n k. induction l as [|h t IH]; intros [|n] [|k] H; simpl; auto; try congruence.
  all: try (apply IH; congruence).
Qed.

Lemma perm_set_head t j x d : (j < length t)%nat -> Permutation (nth j t d :: set_nth t j x) (x :: t).
Proof.
  revert j. induction t as [|a t IH]; intros [|j] H; simpl in *; try lia.
  - apply perm_swap.
  - eapply perm_trans; [apply perm_swap|]. eapply perm_trans; [apply perm_skip, IH; lia|]. apply perm_swap.
Qed.

Lemma perm_swap_nat l i j d : (i < length l)%nat -> (j < length l)%nat ->
  Permutation (set_nth (set_nth l i (nth j l d)) j (nth i l d)) l.
Proof.
  revert i j. induction l as [|h t IH]; intros [|i] [|j] Hi Hj; simpl in *; try lia.
  - apply Permutation_refl.
  - apply perm_set_head. lia.
  - apply perm_set_head. lia.
  - apply perm_skip. apply IH; lia.
Qed.

Lemma alen_swap l i j : alen (swap l i j) = alen l.
Proof. unfold alen, swap. rewrite !length_set_nth. reflexivity. Qed.

Lemma perm_swap_Z l i j : 0 <= i < alen l -> 0 <= j < alen l -> Permutation (swap l i j) l.
Proof. unfold alen, swap, get. intros Hi Hj. apply perm_swap_nat; lia. Qed.

Lemma get_swap l i j k : 0 <= i < alen l -> 0 <= j < alen l -> 0 <= k ->
  get (swap l i j) k = if k =? j then get l i else if k =? i then get l j else get l k.
Proof.
  unfold alen, swap, get. intros Hi Hj Hk.
  destruct (Z.eqb_spec k j) as [->|Nj].
  - apply nth_set_nth_eq. rewrite length_set_nth. lia.
  - rewrite nth_set_nth_neq by lia. destruct (Z.eqb_spec k i) as [->|Ni].
    + apply nth_set_nth_eq. lia.
    + apply nth_set_nth_neq. lia.
Qed.

(* l' results from l by rearranging positions [lo,hi) only *)
Definition relR (lo hi : Z) (l l' : arr) : Prop :=
  Permutation l l' /\ alen l' = alen l /\
  (forall k, 0 <= k -> k < lo \/ hi <= k -> get l' k = get l k) /\
  (forall P : elem -> Prop, (forall k, lo <= k < hi -> P (get l k)) -> forall k, lo <= k < hi -> P (get l' k)).

Lemma relR_refl lo hi l : relR lo hi l l.
Proof. repeat split; auto. Qed.

Lemma relR_trans lo hi l1 l2 l3 : relR lo hi l1 l2 -> relR lo hi l2 l3 -> relR lo hi l1 l3.
Proof.
  intros (P1 & L1 & F1 & R1) (P2 & L2 & F2 & R2). split; [eapply perm_trans; eauto|]. split; [lia|]. split.
  - intros k Hk Ho. rewrite F2, F1; auto.
  - intros P HP. apply R2. apply R1. exact HP.
Qed.

Lemma relR_swap lo hi l i j : 0 <= lo -> hi <= alen l -> lo <= i < hi -> lo <= j < hi -> relR lo hi l (swap l i j).
Proof.
  intros Hlo Hhi Hi Hj. split; [apply Permutation_sym, perm_swap_Z; lia|]. split; [apply alen_swap|]. split.
  - intros k Hk Ho. rewrite get_swap by lia.
    destruct (Z.eqb_spec k j); [lia|]. destruct (Z.eqb_spec k i); [lia|]. reflexivity.
  - intros P HP k Hk. rewrite get_swap by lia.
    destruct (Z.eqb_spec k j); [apply HP; lia|]. destruct (Z.eqb_spec k i); apply HP; lia.
Qed.

Lemma relR_widen lo hi lo' hi' l l' : lo' <= lo -> hi <= hi' -> 0 <= lo' -> relR lo hi l l' -> relR lo' hi' l l'.
Proof.
  intros A B C (P1 & L1 & F1 & R1). split; [exact P1|]. split; [exact L1|]. split.
  - intros k Hk Ho. apply F1; lia.
  - intros P HP k Hk. destruct (Z_lt_le_dec k lo); [rewrite F1 by lia; apply HP; lia|].
    destruct (Z_lt_le_dec k hi); [|rewrite F1 by lia; apply HP; lia].
    apply R1; [|lia]. intros k' Hk'. apply HP. lia.
Qed.

Section SortProofs.
  Variable sw : arr -> Z -> Z -> arr.
  Hypothesis Hsw : forall l i j, sw l i j = swap l i j.
  Variable eqf : Z -> Z -> bool.
  Hypothesis eqf_refl : forall a, eqf a a = true.
  Hypothesis eqf_sym : forall a b, eqf a b = true -> eqf b a = true.
  Hypothesis eqf_trans : forall a b c, eqf a b = true -> eqf b c = true -> eqf a c = true.

  Definition EQ (l : arr) (a b : Z) : Prop := eqf (itm l a) (itm l b) = true.

  Lemma swp_ok l i j : 0 <= i < alen l -> 0 <= j < alen l -> swp sw l i j = Ok (swap l i j).
  Proof.
    intros Hi Hj. unfold swp, inr.
    destruct (Z.leb_spec 0 i); [|lia]. destruct (Z.ltb_spec i (alen l)); [|lia].
    destruct (Z.leb_spec 0 j); [|lia]. destruct (Z.ltb_spec j (alen l)); [|lia]. simpl. rewrite Hsw. reflexivity.
  Qed.

  Lemma EQ_refl l a : EQ l a a. Proof. apply eqf_refl. Qed.
  Lemma EQ_sym l a b : EQ l a b -> EQ l b a. Proof. apply eqf_sym. Qed.
  Lemma EQ_trans l a b c : EQ l a b -> EQ l b c -> EQ l a c. Proof. apply eqf_trans. Qed.

  (* ================= pvGroup ================= *)
  Section Group.
    Variable lo hi : Z.      (* the sub-array [lo,hi) = [q, q+cnt) *)
    Hypothesis Hlo : 0 <= lo.

    (* equal items contiguous in [lo, min(I,hi)) *)
    Definition G1 (l : arr) (I : Z) : Prop :=
      forall a m c, lo <= a -> a < m -> m < c -> c < I -> c < hi -> EQ l a c -> EQ l a m.
    (* every class of the prefix other than the class of l[I-1] has no member at or after I *)
    Definition G2 (l : arr) (I : Z) : Prop :=
      forall a b, lo <= a -> a < I -> I <= b -> b < hi -> ~ EQ l a (I - 1) -> ~ EQ l a b.

    Lemma G_step_same l I : lo < I -> I < hi -> G1 l I -> G2 l I -> EQ l (I - 1) I -> G1 l (I + 1) /\ G2 l (I + 1).
    Proof.
      intros HI HIh g1 g2 E. split.
      - intros a m c Ha Ham Hmc HcI Hch Eac. destruct (Z.eq_dec c I) as [->|]; [|apply (g1 a m c); auto; lia].
        assert (Ea : EQ l a (I - 1)) by (eapply EQ_trans; [exact Eac|apply EQ_sym; exact E]).
        destruct (Z.eq_dec m (I - 1)) as [->|]; [exact Ea|]. apply (g1 a m (I - 1)); auto; lia.
      - intros a b Ha HaI HIb Hbh N. replace (I + 1 - 1) with I in N by lia.
        destruct (Z.eq_dec a I) as [->|]; [exfalso; apply N, EQ_refl|].
        apply (g2 a b); try lia. intros X. apply N. eapply EQ_trans; eauto.
    Qed.

    Lemma grp_inner_spec : forall n q i j l, q = lo -> lo < q + i -> q + i < q + j -> q + j + Z.of_nat n = hi -> hi <= alen l ->
      G1 l (q + i) -> G2 l (q + i) -> (forall b, q + i <= b < q + j -> ~ EQ l (q + i - 1) b) ->
      exists i' l', grp_inner sw eqf n q i j l = Ok (i', l') /\ relR lo hi l l' /\ q + i <= q + i' <= hi /\
        G1 l' (q + i') /\ G2 l' (q + i') /\ (forall b, q + i' <= b < hi -> ~ EQ l' (q + i' - 1) b).
    Proof.
      induction n as [|n IH]; intros q i j l Hq Hi Hij Hn Hhi g1 g2 N3.
      - simpl. exists i, l. split; [reflexivity|]. split; [apply relR_refl|]. split; [lia|]. split; [exact g1|]. split; [exact g2|].
        intros b Hb. apply N3. lia.
      - rewrite Nat2Z.inj_succ in Hn. cbn [grp_inner].
        replace (q + (i - 1)) with (q + i - 1) by lia.
        destruct (eqf (itm l (q + i - 1)) (itm l (q + j))) eqn:Ee.
        + rewrite swp_ok by lia. cbn [bind].
          set (l1 := swap l (q + i) (q + j)).
          assert (Gs : forall k, 0 <= k -> get l1 k = if k =? q + j then get l (q + i) else if k =? q + i then get l (q + j) else get l k).
          { intros k Hk. unfold l1. apply get_swap; lia. }
          assert (Hrel : relR lo hi l l1) by (apply relR_swap; lia).
          assert (Ei : forall k, EQ l1 k k -> True) by auto.
          (* items of l1 *)
          assert (I1 : forall k, 0 <= k -> k <> q + i -> k <> q + j -> itm l1 k = itm l k).
          { intros k Hk A B. unfold itm. rewrite Gs by lia. destruct (Z.eqb_spec k (q + j)); [lia|]. destruct (Z.eqb_spec k (q + i)); [lia|reflexivity]. }
          assert (I2 : itm l1 (q + i) = itm l (q + j)).
          { unfold itm. rewrite Gs by lia. destruct (Z.eqb_spec (q + i) (q + j)); [lia|]. rewrite Z.eqb_refl. reflexivity. }
          assert (I3 : itm l1 (q + j) = itm l (q + i)).
          { unfold itm. rewrite Gs by lia. rewrite Z.eqb_refl. reflexivity. }
          destruct (IH q (i + 1) (j + 1) l1) as (i' & l' & E' & R' & Hi' & g1' & g2' & N'); try lia.
          { unfold l1. rewrite alen_swap. lia. }
          { (* G1 l1 (q+i+1) *)
            replace (q + (i + 1)) with (q + i + 1) by lia.
            intros a m c Ha Ham Hmc HcI Hch Eac. unfold EQ in *.
            destruct (Z.eq_dec c (q + i)) as [->|Nc].
            - rewrite I2 in Eac. rewrite (I1 a) in Eac by lia. rewrite (I1 a), (I1 m) by lia.
              assert (Ea : eqf (itm l a) (itm l (q + i - 1)) = true) by (eapply eqf_trans; [exact Eac|apply eqf_sym; exact Ee]).
              destruct (Z.eq_dec m (q + i - 1)) as [->|]; [exact Ea|]. apply (g1 a m (q + i - 1)); auto; lia.
            - rewrite (I1 a), (I1 c) in Eac by lia. rewrite (I1 a), (I1 m) by lia. apply (g1 a m c); auto; lia. }
          { (* G2 l1 (q+i+1) *)
            replace (q + (i + 1)) with (q + i + 1) by lia. unfold G2. replace (q + i + 1 - 1) with (q + i) by lia.
            intros a b Ha HaI HIb Hbh N. unfold EQ in *. rewrite I2 in N.
            destruct (Z.eq_dec a (q + i)) as [->|Na]; [exfalso; apply N; rewrite I2; apply eqf_refl|].
            rewrite (I1 a) in N by lia. rewrite (I1 a) by lia.
            assert (N0 : ~ eqf (itm l a) (itm l (q + i - 1)) = true).
            { intros X. apply N. eapply eqf_trans; [exact X|exact Ee]. }
            destruct (Z.eq_dec b (q + j)) as [->|Nb]; [rewrite I3; apply (g2 a (q + i)); auto; lia|].
            rewrite (I1 b) by lia. apply (g2 a b); auto; lia. }
          { (* N3 for l1 *)
            replace (q + (i + 1)) with (q + i + 1) by lia. replace (q + i + 1 - 1) with (q + i) by lia.
            intros b Hb. unfold EQ. rewrite I2.
            destruct (Z.eq_dec b (q + j)) as [->|Nb].
            - rewrite I3. intros X. apply (N3 (q + i)); [lia|]. unfold EQ.
              eapply eqf_trans; [exact Ee|exact X].
            - rewrite (I1 b) by lia. intros X. apply (N3 b); [lia|]. unfold EQ. eapply eqf_trans; [exact Ee|exact X]. }
          exists i', l'. split; [exact E'|]. split; [eapply relR_trans; eauto|]. split; [lia|]. auto.
        + destruct (IH q i (j + 1) l) as (i' & l' & E' & R' & Hi' & g1' & g2' & N'); try lia; auto.
          { intros b Hb. destruct (Z.eq_dec b (q + j)) as [->|]; [unfold EQ; rewrite Ee; discriminate|apply N3; lia]. }
          exists i', l'. tauto.
    Qed.

    Lemma grp_outer_eq f q cnt i l : grp_outer sw eqf (S f) q cnt i l =
      if i <? cnt then
        if eqf (itm l (q + (i - 1))) (itm l (q + i)) then grp_outer sw eqf f q cnt (i + 1) l
        else r <- grp_inner sw eqf (Z.to_nat (cnt - (i + 1))) q i (i + 1) l ;; grp_outer sw eqf f q cnt (fst r + 1) (snd r)
      else Ok l.
    Proof. reflexivity. Qed.

    Lemma grp_outer_spec : forall f q cnt i l, q = lo -> q + cnt = hi -> hi <= alen l -> 1 <= i -> i <= cnt + 1 ->
      cnt + 1 - i <= Z.of_nat f -> G1 l (q + i) -> G2 l (q + i) ->
      exists l', grp_outer sw eqf (S f) q cnt i l = Ok l' /\ relR lo hi l l' /\ G1 l' hi.
    Proof.
      induction f as [|f IH]; intros q cnt i l Hq Hc Hhi Hi Hic Hf g1 g2; rewrite grp_outer_eq.
      - destruct (Z.ltb_spec i cnt); [simpl in Hf; lia|]. exists l. split; [reflexivity|]. split; [apply relR_refl|].
        intros a m c Ha Ham Hmc HcI Hch. apply (g1 a m c); auto; lia.
      - rewrite Nat2Z.inj_succ in Hf. destruct (Z.ltb_spec i cnt) as [Hlt|Hge].
        2:{ exists l. split; [reflexivity|]. split; [apply relR_refl|].
            intros a m c Ha Ham Hmc HcI Hch. apply (g1 a m c); auto; lia. }
        replace (q + (i - 1)) with (q + i - 1) by lia.
        destruct (eqf (itm l (q + i - 1)) (itm l (q + i))) eqn:Ee.
        + destruct (G_step_same l (q + i)) as [g1' g2']; try lia; auto.
          replace (q + i + 1) with (q + (i + 1)) in g1', g2' by lia.
          apply IH; auto; lia.
        + destruct (grp_inner_spec (Z.to_nat (cnt - (i + 1))) q i (i + 1) l) as (i' & l1 & E1 & R1 & Hi' & g1' & g2' & N'); try lia; auto.
          { intros b Hb. replace b with (q + i) by lia. unfold EQ. rewrite Ee. discriminate. }
          rewrite E1. cbn [bind fst snd].
          destruct (IH q cnt (i' + 1) l1) as (l' & E' & R' & G'); try lia; auto.
          { destruct R1 as (_ & L & _). lia. }
          { (* G1 l1 (q + i' + 1) *)
            replace (q + (i' + 1)) with (q + i' + 1) by lia.
            intros a m c Ha Ham Hmc HcI Hch Eac. destruct (Z.eq_dec c (q + i')) as [->|]; [|apply (g1' a m c); auto; lia].
            exfalso. destruct (eqf (itm l1 a) (itm l1 (q + i' - 1))) eqn:Ea.
            - apply (N' (q + i')); [lia|]. eapply EQ_trans; [apply EQ_sym; exact Ea|exact Eac].
            - apply (g2' a (q + i')); try lia; [|exact Eac]. unfold EQ. rewrite Ea. discriminate. }
          { (* G2 l1 (q + i' + 1) *)
            replace (q + (i' + 1)) with (q + i' + 1) by lia. unfold G2. replace (q + i' + 1 - 1) with (q + i') by lia.
            intros a b Ha HaI HIb Hbh N. destruct (Z.eq_dec a (q + i')) as [->|]; [exfalso; apply N, EQ_refl|].
            destruct (eqf (itm l1 a) (itm l1 (q + i' - 1))) eqn:Ea.
            - intros X. apply (N' b); [lia|]. eapply EQ_trans; [apply EQ_sym; exact Ea|exact X].
            - apply (g2' a b); try lia. unfold EQ. rewrite Ea. discriminate. }
          exists l'. split; [exact E'|]. split; [eapply relR_trans; eauto|exact G'].
    Qed.
  End Group.

  (* equal items are contiguous in [lo,hi) *)
  Definition contigL (l : arr) (lo hi : Z) : Prop :=
    forall a m c, lo <= a -> a < m -> m < c -> c < hi -> EQ l a c -> EQ l a m.

  (* pvGroup on [q, q+cnt): total, only rearranges that range, and afterwards equal items are contiguous in it *)
  Theorem pvGroup_spec l q cnt : 0 <= q -> 0 <= cnt -> q + cnt <= alen l ->
    exists l', pvGroup sw eqf l q cnt = Ok l' /\ relR q (q + cnt) l l' /\ contigL l' q (q + cnt).
  Proof.
    intros Hq Hc Hl. unfold pvGroup.
    destruct (grp_outer_spec q (q + cnt) Hq (Z.to_nat cnt) q cnt 1 l) as (l' & E & Rl & G); try lia.
    - intros a m c Ha Ham Hmc HcI Hch. lia.
    - intros a b Ha HaI HIb Hbh N. exfalso. apply N. replace a with (q + 1 - 1) by lia. apply EQ_refl.
    - exists l'. split; [exact E|]. split; [exact Rl|].
      intros a m c Ha Ham Hmc Hch. apply (G a m c); auto.
  Qed.

  (* ================= pvSelectionSort ================= *)
  Definition sortedR (l : arr) (lo hi : Z) : Prop := forall a b, lo <= a -> a <= b -> b < hi -> code l a <= code l b.
  (* inside a run of equal codes of [lo,hi), equal items are contiguous *)
  Definition groupedR (l : arr) (lo hi : Z) : Prop :=
    forall a m c, lo <= a -> a < m -> m < c -> c < hi -> code l a = code l c -> EQ l a c -> EQ l a m.

  Lemma code_swap l i j k : 0 <= i < alen l -> 0 <= j < alen l -> 0 <= k ->
    code (swap l i j) k = if k =? j then code l i else if k =? i then code l j else code l k.
  Proof. intros. unfold code. rewrite get_swap by lia. destruct (k =? j); [|destruct (k =? i)]; reflexivity. Qed.

  Lemma relR_codes_const lo hi l l' v : 0 <= lo -> relR lo hi l l' -> (forall k, lo <= k < hi -> code l k = v) ->
    forall k, 0 <= k -> code l' k = code l k.
  Proof.
    intros Hlo (_ & _ & F & Rg) Hv k Hk. destruct (Z_lt_le_dec k lo); [unfold code; rewrite F by lia; reflexivity|].
    destruct (Z_lt_le_dec k hi); [|unfold code; rewrite F by lia; reflexivity].
    rewrite (Hv k) by lia. apply (Rg (fun e => fst e = v)); [|lia]. intros k' Hk'. apply Hv. lia.
  Qed.

  Section Selection.
    Variable grp : arr -> Z -> Z -> outcome arr.
    Variable wantG : Prop.     (* True for HashSorter's grouping callback, False for RadixSorter's empty one *)
    Variable p cnt : Z.
    Hypothesis Hp : 0 <= p.

    Lemma min_loop_spec l i : forall n k best, i + 1 <= best -> best < k -> k + Z.of_nat n = cnt ->
      (forall x, i + 1 <= x < k -> code l (p + best) <= code l (p + x)) ->
      i + 1 <= min_loop n l p k best < cnt /\ (forall x, i + 1 <= x < cnt -> code l (p + min_loop n l p k best) <= code l (p + x)).
    Proof.
      induction n as [|n IH]; intros k best Hb Hbk Hn Hmin.
      - simpl in *. split; [lia|]. intros x Hx. apply Hmin. lia.
      - rewrite Nat2Z.inj_succ in Hn. cbn [min_loop]. apply IH; try lia.
        + destruct (Z.ltb_spec (code l (p + k)) (code l (p + best))); lia.
        + destruct (Z.ltb_spec (code l (p + k)) (code l (p + best))); lia.
        + intros x Hx. destruct (Z.ltb_spec (code l (p + k)) (code l (p + best))) as [Hlt|Hge].
          * destruct (Z.eq_dec x k) as [->|]; [lia|]. specialize (Hmin x ltac:(lia)). lia.
          * destruct (Z.eq_dec x k) as [->|]; [lia|]. apply Hmin. lia.
    Qed.

    Lemma sel_loop_spec : forall n i l, 0 <= i -> i + Z.of_nat n = cnt - 1 -> p + cnt <= alen l ->
      sortedR l p (p + i) -> (forall a b, 0 <= a < i -> i <= b < cnt -> code l (p + a) <= code l (p + b)) ->
      exists l', sel_loop sw n p cnt i l = Ok l' /\ relR p (p + cnt) l l' /\ sortedR l' p (p + cnt).
    Proof.
      induction n as [|n IH]; intros i l Hi Hn Hl Hs Hle.
      - simpl in *. exists l. split; [reflexivity|]. split; [apply relR_refl|].
        intros a b Ha Hab Hb. destruct (Z.eq_dec b (p + i)) as [->|].
        + destruct (Z.eq_dec a (p + i)) as [->|]; [lia|].
          specialize (Hle (a - p) i ltac:(lia) ltac:(lia)). replace (p + (a - p)) with a in Hle by lia. exact Hle.
        + apply Hs; lia.
      - rewrite Nat2Z.inj_succ in Hn. cbn [sel_loop]. unfold min_index.
        destruct (min_loop_spec l i (Z.to_nat (cnt - (i + 2))) (i + 2) (i + 1)) as [Hm Hmin]; try lia.
        { intros x Hx. replace x with (i + 1) by lia. lia. }
        set (m := min_loop (Z.to_nat (cnt - (i + 2))) l p (i + 2) (i + 1)) in *.
        destruct (Z.ltb_spec (code l (p + m)) (code l (p + i))) as [Hlt|Hge].
        + rewrite swp_ok by lia. cbn [bind]. set (l1 := swap l (p + i) (p + m)).
          assert (C1 : forall k, 0 <= k -> code l1 k = if k =? p + m then code l (p + i) else if k =? p + i then code l (p + m) else code l k).
          { intros k Hk. unfold l1. apply code_swap; lia. }
          destruct (IH (i + 1) l1) as (l' & E' & R' & S'); try lia.
          { unfold l1. rewrite alen_swap. lia. }
          { intros a b Ha Hab Hb. rewrite (C1 a), (C1 b) by lia.
            destruct (Z.eqb_spec a (p + m)); [lia|]. destruct (Z.eqb_spec b (p + m)); [lia|].
            destruct (Z.eqb_spec b (p + i)) as [->|].
            - destruct (Z.eqb_spec a (p + i)); [lia|].
              specialize (Hle (a - p) m ltac:(lia) ltac:(lia)). replace (p + (a - p)) with a in Hle by lia. exact Hle.
            - destruct (Z.eqb_spec a (p + i)); [lia|]. apply Hs; lia. }
          { intros a b Ha Hb. rewrite (C1 (p + a)), (C1 (p + b)) by lia.
            destruct (Z.eqb_spec (p + a) (p + m)); [lia|].
            destruct (Z.eqb_spec (p + a) (p + i)) as [Ea|Na].
            - destruct (Z.eqb_spec (p + b) (p + m)); [lia|]. destruct (Z.eqb_spec (p + b) (p + i)); [lia|].
              apply Hmin. lia.
            - destruct (Z.eqb_spec (p + b) (p + m)); [apply Hle; lia|]. destruct (Z.eqb_spec (p + b) (p + i)); [lia|].
              apply Hle; lia. }
          exists l'. split; [exact E'|]. split; [|exact S'].
          eapply relR_trans; [|exact R']. apply relR_swap; lia.
        + cbn [bind]. apply IH; try lia.
          { intros a b Ha Hab Hb. destruct (Z.eq_dec b (p + i)) as [->|]; [|apply Hs; lia].
            destruct (Z.eq_dec a (p + i)) as [->|]; [lia|].
            specialize (Hle (a - p) i ltac:(lia) ltac:(lia)). replace (p + (a - p)) with a in Hle by lia. exact Hle. }
          { intros a b Ha Hb. destruct (Z.eq_dec a i) as [->|]; [|apply Hle; lia].
            specialize (Hmin b ltac:(lia)). lia. }
    Qed.

    (* contract of the group callback: called on a range of equal codes it succeeds, only rearranges that range, and
       leaves equal items contiguous in it (HashSorter's callback: pvGroup for count > 2, nothing to do for count <= 2) *)
    Hypothesis Hgrp : forall l q c, 0 <= q -> 0 <= c -> q + c <= alen l ->
      exists l', grp l q c = Ok l' /\ relR q (q + c) l l' /\ (wantG -> contigL l' q (q + c)).

    Lemma run_loop_spec : forall n i prev l, 0 <= prev -> prev < i -> i + Z.of_nat n = cnt -> p + cnt <= alen l ->
      sortedR l p (p + cnt) -> (forall k, prev <= k < i -> code l (p + k) = code l (p + prev)) ->
      (prev = 0 \/ code l (p + prev - 1) < code l (p + prev)) -> (wantG -> groupedR l p (p + prev)) ->
      exists l', run_loop grp n p cnt i prev l = Ok l' /\ relR p (p + cnt) l l' /\ sortedR l' p (p + cnt) /\ (wantG -> groupedR l' p (p + cnt)).
    Proof.
      assert (Step : forall l prev e, 0 <= prev -> prev < e -> e <= cnt -> p + cnt <= alen l -> sortedR l p (p + cnt) ->
        (forall k, prev <= k < e -> code l (p + k) = code l (p + prev)) ->
        (prev = 0 \/ code l (p + prev - 1) < code l (p + prev)) -> (wantG -> groupedR l p (p + prev)) ->
        exists l', grp l (p + prev) (e - prev) = Ok l' /\ relR p (p + cnt) l l' /\ (forall k, 0 <= k -> code l' k = code l k) /\
          (wantG -> groupedR l' p (p + e))).
      { intros l prev e Hpv Hpe Hec Hl Hs Hrun Hb Hg.
        destruct (Hgrp l (p + prev) (e - prev)) as (l' & E & Rr & Cg); try lia.
        replace (p + prev + (e - prev)) with (p + e) in Rr, Cg by lia.
        assert (Cc : forall k, 0 <= k -> code l' k = code l k).
        { apply (relR_codes_const (p + prev) (p + e) l l' (code l (p + prev))); [lia|exact Rr|].
          intros k Hk. replace k with (p + (k - p)) by lia. apply Hrun. lia. }
        exists l'. split; [exact E|]. split; [eapply relR_widen; [| | |exact Rr]; lia|]. split; [exact Cc|].
        intros WG a m c Ha Ham Hmc Hc Hcode Eac. rewrite !Cc in Hcode by lia. specialize (Hg WG). specialize (Cg WG).
        destruct Rr as (_ & _ & F & _).
        destruct (Z_lt_le_dec c (p + prev)) as [Lc|Gc].
        - unfold EQ, itm in *. rewrite (F a), (F c) in Eac by lia. rewrite (F a), (F m) by lia. apply (Hg a m c); auto.
        - assert (p + prev <= a).
          { destruct (Z_lt_le_dec a (p + prev)); [|lia]. exfalso. destruct Hb as [->|Hb]; [lia|].
            pose proof (Hs a (p + prev - 1) ltac:(lia) ltac:(lia) ltac:(lia)).
            pose proof (Hs (p + prev) c ltac:(lia) ltac:(lia) ltac:(lia)). lia. }
          apply (Cg a m c); auto; lia. }
      induction n as [|n IH]; intros i prev l Hpv Hpi Hn Hl Hs Hrun Hb Hg.
      - simpl in Hn. cbn [run_loop]. destruct (Step l prev cnt) as (l' & E & Rr & Cc & Gg); try lia; auto.
        { intros k Hk. apply Hrun. lia. }
        exists l'. split; [exact E|]. split; [exact Rr|]. split; [|exact Gg].
        intros a b Ha Hab Hbb. rewrite !Cc by lia. apply Hs; lia.
      - rewrite Nat2Z.inj_succ in Hn. cbn [run_loop].
        destruct (Z.eqb_spec (code l (p + i)) (code l (p + prev))) as [He|Hne]; cbn [negb].
        + apply IH; try lia; auto. intros k Hk. destruct (Z.eq_dec k i) as [->|]; [exact He|apply Hrun; lia].
        + destruct (Step l prev i) as (l1 & E & Rr & Cc & Gg); try lia; auto.
          rewrite E. cbn [bind].
          destruct (IH (i + 1) i l1) as (l' & E' & R' & S' & G'); try lia; auto.
          { destruct Rr as (_ & L & _). lia. }
          { intros a b Ha Hab Hbb. rewrite !Cc by lia. apply Hs; lia. }
          { intros k Hk. replace k with i by lia. reflexivity. }
          { right. rewrite !Cc by lia. pose proof (Hrun (i - 1) ltac:(lia)). replace (p + (i - 1)) with (p + i - 1) in H by lia.
            pose proof (Hs (p + i - 1) (p + i) ltac:(lia) ltac:(lia) ltac:(lia)). lia. }
          exists l'. split; [exact E'|]. split; [eapply relR_trans; eauto|]. auto.
    Qed.

    (* pvSelectionSort on [p, p+cnt): total; a permutation of that range only; codes non-decreasing; and (given the
       group callback contract) equal items contiguous inside every run of equal codes *)
    Theorem pvSelectionSort_spec l : 0 < cnt -> p + cnt <= alen l ->
      exists l', pvSelectionSort sw grp l p cnt = Ok l' /\ relR p (p + cnt) l l' /\ sortedR l' p (p + cnt) /\ (wantG -> groupedR l' p (p + cnt)).
    Proof.
      intros Hc Hl. unfold pvSelectionSort. destruct (Z.ltb_spec 0 cnt); [|lia].
      destruct (sel_loop_spec (Z.to_nat (cnt - 1)) 0 l) as (l1 & E1 & R1 & S1); try lia.
      all: try (intros a b Ha Hab Hb; lia). all: try (intros a b Ha; lia).
      rewrite E1. cbn [bind]. pose proof R1 as (_ & L1 & _).
      destruct (run_loop_spec (Z.to_nat (cnt - 1)) 1 0 l1) as (l' & E' & R' & S' & G'); try lia; auto.
      all: try (intros k Hk; replace k with 0 by lia; reflexivity).
      all: try (intros _ a m c Ha Ham Hmc Hcc; lia).
      exists l'. split; [exact E'|]. split; [eapply relR_trans; eauto|]. auto.
    Qed.
  End Selection.

  (* HashSorter's group callback fulfils the contract *)
  Lemma hs_group_contract l q c : 0 <= q -> 0 <= c -> q + c <= alen l ->
    exists l', hs_group sw eqf l q c = Ok l' /\ relR q (q + c) l l' /\ contigL l' q (q + c).
  Proof.
    intros Hq Hc Hl. unfold hs_group. destruct (Z.ltb_spec 2 c).
    - apply pvGroup_spec; assumption.
    - exists l. split; [reflexivity|]. split; [apply relR_refl|]. intros a m c' Ha Ham Hmc Hc'. lia.
  Qed.

  (* ================= the whole pvSort / pvRadixSort: PARTIAL correctness of "permutation" =================
     Whenever the model returns Ok (the tie shows it does, with the real swap trace, on every tested input), the result
     is a permutation of the input of the same length: every mutation is an in-range iterSwapper call. *)
  Definition PP (l l' : arr) : Prop := Permutation l l' /\ alen l' = alen l.
  Lemma PP_refl l : PP l l. Proof. split; auto. Qed.
  Lemma PP_trans a b c : PP a b -> PP b c -> PP a c.
  Proof. intros [P1 L1] [P2 L2]. split; [eapply perm_trans; eauto|lia]. Qed.
  Lemma swp_PP l i j l' : swp sw l i j = Ok l' -> PP l l'.
  Proof.
    unfold swp, inr. intros H. destruct ((0 <=? i) && (i <? alen l) && ((0 <=? j) && (j <? alen l))) eqn:B; [|discriminate].
    inversion H; subst l'. rewrite Hsw. apply andb_true_iff in B. destruct B as [B1 B2].
    apply andb_true_iff in B1. apply andb_true_iff in B2. destruct B1 as [A1 A2]. destruct B2 as [A3 A4].
    apply Z.leb_le in A1. apply Z.ltb_lt in A2. apply Z.leb_le in A3. apply Z.ltb_lt in A4.
    split; [apply Permutation_sym, perm_swap_Z; lia|apply alen_swap].
  Qed.

  Section Partial.
    Variable R : Z.
    Variable grp : arr -> Z -> Z -> outcome arr.
    Hypothesis grp_PP : forall l q c l', grp l q c = Ok l' -> PP l l'.

    Lemma sel_loop_PP : forall n p cnt i l l', sel_loop sw n p cnt i l = Ok l' -> PP l l'.
    Proof.
      induction n as [|n IH]; intros p cnt i l l' H; cbn [sel_loop] in H.
      - inversion H. apply PP_refl.
      - destruct (code l (p + min_index l p cnt i) <? code l (p + i)).
        + destruct (swp sw l (p + i) (p + min_index l p cnt i)) eqn:E; try discriminate. cbn [bind] in H.
          eapply PP_trans; [eapply swp_PP; eauto|eapply IH; eauto].
        + cbn [bind] in H. eapply IH; eauto.
    Qed.
    Lemma run_loop_PP : forall n p cnt i prev l l', run_loop grp n p cnt i prev l = Ok l' -> PP l l'.
    Proof.
      induction n as [|n IH]; intros p cnt i prev l l' H; cbn [run_loop] in H.
      - eapply grp_PP; eauto.
      - destruct (negb (code l (p + i) =? code l (p + prev))).
        + destruct (grp l (p + prev) (i - prev)) eqn:E; try discriminate. cbn [bind] in H.
          eapply PP_trans; [eapply grp_PP; eauto|eapply IH; eauto].
        + eapply IH; eauto.
    Qed.
    Lemma selection_PP l p cnt l' : pvSelectionSort sw grp l p cnt = Ok l' -> PP l l'.
    Proof.
      unfold pvSelectionSort. destruct (0 <? cnt); [|discriminate].
      destruct (sel_loop sw (Z.to_nat (cnt - 1)) p cnt 0 l) eqn:E; try discriminate. cbn [bind].
      intros H. eapply PP_trans; [eapply sel_loop_PP; eauto|eapply run_loop_PP; eauto].
    Qed.
    Lemma perm_loop_PP : forall f l p shift r ei bi l', perm_loop sw R f l p shift r ei bi = Ok l' -> PP l l'.
    Proof.
      induction f as [|f IH]; intros l p shift r ei bi l' H; cbn [perm_loop] in H; [discriminate|].
      destruct (r <? radixCount R); [|inversion H; apply PP_refl].
      destruct (bi r <? ei r); [|eapply IH; eauto].
      destruct (negb (getRadix R (code l (p + bi r)) shift =? r)).
      - destruct (swp sw l (p + bi r) (p + bi (getRadix R (code l (p + bi r)) shift))) eqn:E; try discriminate. cbn [bind] in H.
        eapply PP_trans; [eapply swp_PP; eauto|eapply IH; eauto].
      - cbn [bind] in H. eapply IH; eauto.
    Qed.
    Lemma buckets_PP k : (forall l b c l', k l b c = Ok l' -> PP l l') ->
      forall n ei r bi l l', buckets k ei n r bi l = Ok l' -> PP l l'.
    Proof.
      intros Hk. induction n as [|n IH]; intros ei r bi l l' H; cbn [buckets] in H.
      - inversion H. apply PP_refl.
      - destruct (k l bi (ei r - bi)) eqn:E; try discriminate. cbn [bind] in H.
        eapply PP_trans; [eapply Hk; eauto|eapply IH; eauto].
    Qed.

    Lemma sort_radix_PP : forall f,
      (forall l p cnt shift l', sort_f sw R grp f l p cnt shift = Ok l' -> PP l l') /\
      (forall l p cnt shift l', radix_f sw R grp f l p cnt shift = Ok l' -> PP l l').
    Proof.
      induction f as [|f [IHs IHr]]; split; intros l p cnt shift l' H; try (cbn in H; discriminate).
      - cbn [sort_f] in H. destruct (cnt <? 2); [inversion H; apply PP_refl|].
        destruct (cnt =? 2).
        { destruct (code l (p + 1) <? code l p); [eapply swp_PP; eauto|inversion H; apply PP_refl]. }
        destruct (cnt <=? selMax R); [eapply selection_PP; eauto|eapply IHr; eauto].
      - cbn [radix_f] in H.
        destruct (cnt_loop R (Z.to_nat (cnt - 1)) l p shift 1 (code l p) (getRadix R (code l p) shift)
                    (upd (fun _ => 0) (getRadix R (code l p) shift) 1) true true) as [[ei sc] sr].
        destruct sc; [eapply grp_PP; eauto|].
        destruct sr.
        { destruct (0 <? shift); [eapply IHr; eauto|discriminate]. }
        cbv zeta in H.
        match type of H with (bind ?X _ = _) => destruct X eqn:E; try discriminate end. cbn [bind] in H.
        eapply PP_trans; [eapply perm_loop_PP; eauto|].
        destruct (0 <? shift).
        + eapply (buckets_PP (fun l0 b c => sort_f sw R grp f l0 (p + b) c (if R <? shift then shift - R else 0))); [|eauto].
          intros l0 b c l0' H0. eapply IHs; eauto.
        + eapply (buckets_PP (fun l0 b c => grp l0 (p + b) c)); [|eauto].
          intros l0 b c l0' H0. eapply grp_PP; eauto.
    Qed.
  End Partial.

  Lemma grp_outer_PP : forall f q cnt i l l', grp_outer sw eqf f q cnt i l = Ok l' -> PP l l'.
  Proof.
    assert (Inner : forall n q i j l i' l', grp_inner sw eqf n q i j l = Ok (i', l') -> PP l l').
    { induction n as [|n IH]; intros q i j l i' l' H; cbn [grp_inner] in H.
      - inversion H. apply PP_refl.
      - destruct (eqf (itm l (q + (i - 1))) (itm l (q + j))).
        + destruct (swp sw l (q + i) (q + j)) eqn:E; try discriminate. cbn [bind] in H.
          eapply PP_trans; [eapply swp_PP; eauto|eapply IH; eauto].
        + eapply IH; eauto. }
    induction f as [|f IH]; intros q cnt i l l' H; cbn [grp_outer] in H; [discriminate|].
    destruct (i <? cnt); [|inversion H; apply PP_refl].
    destruct (eqf (itm l (q + (i - 1))) (itm l (q + i))); [eapply IH; eauto|].
    destruct (grp_inner sw eqf (Z.to_nat (cnt - (i + 1))) q i (i + 1) l) as [[i' l1]| | |] eqn:E; try discriminate.
    cbn [bind fst snd] in H. eapply PP_trans; [eapply Inner; eauto|eapply IH; eauto].
  Qed.

  Lemma group_PP (g : bool) l q c l' : (if g then hs_group sw eqf else no_group) l q c = Ok l' -> PP l l'.
  Proof.
    destruct g; [|intros H; inversion H; apply PP_refl].
    unfold hs_group, pvGroup. destruct (2 <? c); [apply grp_outer_PP|intros H; inversion H; apply PP_refl].
  Qed.

  (* RadixSorter<R>::Sort on W-bit codes (g: with HashSorter's group callback or without), any R, any W, any input:
     if the model run completes it returns a permutation of the input *)
  Theorem RadixSortG_perm_partial R g W l l' : RadixSortG sw eqf R g W l = Ok l' -> Permutation l l' /\ alen l' = alen l.
  Proof.
    unfold RadixSortG, RadixSort. intros H.
    eapply (proj1 (sort_radix_PP R _ (group_PP g) _)); eauto.
  Qed.

End SortProofs.
