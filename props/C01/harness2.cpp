// C01 harness TU 2: the old chained buckets (LimP, LimP1, Lim4, UnlimP, One)
#include "c01_harness.h"
using namespace momo;
typedef HashBucketLimP<> LP8; typedef HashBucketLimP<4> LP4; typedef HashBucketLimP<3> LP3;
typedef HashBucketLimP1<> LQ4; typedef HashBucketLimP1<2> LQ2; typedef HashBucketLimP1<1> LQ1;
typedef HashBucketLim4<> LF; typedef HashBucketUnlimP<> UP; typedef HashBucketOne<> ON;
static const Reg regs[] = {
	C01_SET("S.LP8.c.q", LP8, 8, 8, 0, false, false),
	C01_SET("S.LP8.b.f", LP8, 8, 4, 0, true, false),
	C01_MAP("M.LP4.a.q", LP4, 4, 4, 0, false, false),
	C01_SET("S.LP3.d.p", LP3, 24, 8, 0, false, true),
	C01_SET("S.LQ4.b.q", LQ4, 8, 4, 0, false, false),
	C01_SET("S.LQ2.c.f", LQ2, 8, 8, 0, true, false),
	C01_MAP("M.LQ1.a.q", LQ1, 4, 4, 0, false, false),
	C01_SET("S.LF.b.q", LF, 8, 4, 0, false, false),
	C01_MAP("M.LF.n.p", LF, 8, 4, 1, false, true),
	C01_SET("S.UP.b.q", UP, 8, 4, 0, false, false),
	C01_MAP("M.UP.d.f", UP, 24, 8, 0, true, false),
	C01_SET("S.ON.b.q", ON, 8, 4, 0, false, false),
	C01_SET("S.ON.c.f", ON, 8, 8, 0, true, false),
	C01_MAP("M.ON.a.p", ON, 4, 4, 0, false, true),
};
static void leaf(const std::vector<std::string>& w) { puts("?leaf"); }
int main() { return c01_main(regs, sizeof(regs) / sizeof(regs[0]), &leaf); }
