// COPIED from props/C13 (C11 uses the bucket-operation proofs of C13 for its IsFull tie)
// instantiation TU for cxx2coq (C13): open-addressing max-probe encoders
#include "momo/HashSet.h"
#include "momo/details/HashBucketOpen2N2.h"
#include "momo/details/HashBucketOpenN1.h"
#include "momo/details/HashBucketOpen8.h"
namespace momo { namespace internal {
template class BucketOpen2N2<HashSetItemTraits<uint64_t, MemManagerDefault>, 3, true>;
template class BucketOpen2N2<HashSetItemTraits<uint64_t, MemManagerDefault>, 1, true>;
template class BucketOpen2N2<HashSetItemTraits<uint64_t, MemManagerDefault>, 2, true>;
template class BucketOpen2N2<HashSetItemTraits<uint64_t, MemManagerDefault>, 3, false>;
template class BucketOpenN1<HashSetItemTraits<uint64_t, MemManagerDefault>, 3, true>;
template class BucketOpen8<HashSetItemTraits<uint64_t, MemManagerDefault>>;
}}
