(* C02 -- basic facts: list helpers, interleave/zipcat/tailpart, the shape invariant, before ++ after = flatten *)
From Coq Require Import List ZArith Arith Lia Bool.
From C02 Require Import BTreeModel.
Import ListNotations.

(* ---------- generic list facts ---------- *)
Lemma nth_error_split {A} (l : list A) i x :
  nth_error l i = Some x -> l = firstn i l ++ x :: skipn (S i) l /\ length (firstn i l) = i.
Proof.
  revert l; induction i; intros [|a l] H; simpl in *; try discriminate.
  - inversion H; auto.
  - destruct (IHi _ H) as [E L]. split; [f_equal; exact E | f_equal; exact L].
Qed.

Lemma nth_error_lt {A} (l : list A) i x : nth_error l i = Some x -> i < length l.
Proof. intros H. apply nth_error_Some. congruence. Qed.

Lemma nth_error_ex {A} (l : list A) i : i < length l -> exists x, nth_error l i = Some x.
Proof. intros H. destruct (nth_error l i) eqn:E; eauto. apply nth_error_None in E. lia. Qed.

Lemma nth_error_nth' {A} (l : list A) i x d : nth_error l i = Some x -> nth i l d = x.
Proof. revert l; induction i; intros [|a l] H; simpl in *; try discriminate; [congruence | auto]. Qed.

Lemma nth_error_map' {A B} (f : A -> B) l i : nth_error (map f l) i = option_map f (nth_error l i).
Proof. revert l; induction i; intros [|a l]; simpl; auto. Qed.

Lemma Forall_nth_error {A} (P : A -> Prop) l i x : Forall P l -> nth_error l i = Some x -> P x.
Proof. intros F H. rewrite Forall_forall in F. apply F. eapply nth_error_In; eauto. Qed.

Lemma insert_at_length {A} i (x : A) l : length (insert_at i x l) = S (length l).
Proof.
  unfold insert_at. rewrite app_length. cbn [length]. rewrite firstn_length, skipn_length. lia.
Qed.

Lemma replace_at_length {A} i (x : A) l : i < length l -> length (replace_at i x l) = length l.
Proof.
  intros H. unfold replace_at. rewrite app_length. cbn [length]. rewrite firstn_length, skipn_length. lia.
Qed.

Lemma replace_at_nth_error {A} i (x : A) l : i < length l -> nth_error (replace_at i x l) i = Some x.
Proof.
  intros H. unfold replace_at. rewrite nth_error_app2; rewrite firstn_length_le by lia; [|lia].
  rewrite Nat.sub_diag. reflexivity.
Qed.

Lemma Forall_firstn {A} (P : A -> Prop) n l : Forall P l -> Forall P (firstn n l).
Proof. revert l; induction n; intros [|a l] F; simpl; auto. inversion F; subst. constructor; auto. Qed.
Lemma Forall_skipn {A} (P : A -> Prop) n l : Forall P l -> Forall P (skipn n l).
Proof. revert l; induction n; intros [|a l] F; simpl; auto. inversion F; subst. auto. Qed.

Lemma Forall_replace_at {A} (P : A -> Prop) i x l : Forall P l -> P x -> Forall P (replace_at i x l).
Proof.
  intros F Hx. unfold replace_at. apply Forall_app. split.
  - apply Forall_firstn; auto.
  - constructor; auto. apply Forall_skipn; auto.
Qed.

Lemma firstn_map' {A B} (f : A -> B) n l : firstn n (map f l) = map f (firstn n l).
Proof. revert l; induction n; intros [|a l]; simpl; auto. f_equal; auto. Qed.
Lemma skipn_map' {A B} (f : A -> B) n l : skipn n (map f l) = map f (skipn n l).
Proof. revert l; induction n; intros [|a l]; simpl; auto. Qed.

(* ---------- interleave ---------- *)
Lemma interleave_app A ka B kb :
  length A = length ka -> interleave (A ++ B) (ka ++ kb) = zipcat A ka ++ interleave B kb.
Proof.
  revert ka; induction A as [|a A IH]; intros [|k ka] H; simpl in *; try discriminate; auto.
  rewrite IH by lia. rewrite <- app_assoc. reflexivity.
Qed.

Lemma interleave_cons f B kb : interleave (f :: B) kb = f ++ tailpart B kb.
Proof. destruct kb; simpl; auto. rewrite app_nil_r. reflexivity. Qed.

Lemma zipcat_app A ka B kb :
  length A = length ka -> zipcat (A ++ B) (ka ++ kb) = zipcat A ka ++ zipcat B kb.
Proof.
  revert ka; induction A as [|a A IH]; intros [|k ka] H; simpl in *; try discriminate; auto.
  rewrite IH by lia. rewrite <- app_assoc. reflexivity.
Qed.

(* cutting an internal node's contents at item s *)
Lemma interleave_cut cs ks s :
  length cs = S (length ks) -> s < length ks ->
  interleave cs ks = interleave (firstn (S s) cs) (firstn s ks) ++ nth s ks 0%Z :: interleave (skipn (S s) cs) (skipn (S s) ks).
Proof.
  revert cs ks; induction s; intros cs ks L H.
  - destruct cs as [|c [|c' cs]]; destruct ks as [|k ks]; simpl in *; try lia. reflexivity.
  - destruct cs as [|c cs]; destruct ks as [|k ks]; simpl in L, H; try lia.
    change (firstn (S (S s)) (c :: cs)) with (c :: firstn (S s) cs).
    change (firstn (S s) (k :: ks)) with (k :: firstn s ks).
    change (skipn (S (S s)) (c :: cs)) with (skipn (S s) cs).
    change (skipn (S (S s)) (k :: ks)) with (skipn (S s) ks).
    change (nth (S s) (k :: ks) 0%Z) with (nth s ks 0%Z).
    cbn [interleave]. rewrite (IHs cs ks) by lia. rewrite <- app_assoc. reflexivity.
Qed.

Section Base.
Variables (maxCap stepRaw blockCount : nat) (linear multi : bool).

(* ---------- the shape invariant: uniform depth d, |children| = |items| + 1, count <= capacity <= maxCapacity;
   empty nodes are allowed (lazy rebalancing) ---------- *)
Fixpoint shape (d : nat) (n : node) : Prop :=
  n_count n <= n_cap n /\ 0 < n_cap n <= maxCap /\
  match d with
  | 0 => n_children n = []
  | S d' => length (n_children n) = S (n_count n) /\ Forall (shape d') (n_children n) /\ n_cap n = maxCap
  end.

Lemma shape_height d n : shape d n -> height n = d.
Proof.
  revert n; induction d; intros [cap ks cs] (H1 & H2 & H3); simpl in *.
  - subst. reflexivity.
  - destruct H3 as (L & F & _). destruct cs as [|c cs]; simpl in *; [lia|].
    inversion F; subst. f_equal. apply IHd. assumption.
Qed.

Lemma shape_leaf d n : shape d n -> is_leaf n = true -> d = 0.
Proof.
  destruct d; auto. intros (_ & _ & L & _) H. unfold is_leaf in H. destruct (n_children n); simpl in *; [lia | discriminate].
Qed.

Lemma shape_internal d n : shape d n -> is_leaf n = false -> exists d', d = S d'.
Proof.
  destruct d; eauto. intros (_ & _ & L) H. unfold is_leaf in H. rewrite L in H. discriminate.
Qed.

Lemma shape_0_leaf n : shape 0 n -> is_leaf n = true.
Proof. intros (_ & _ & L). unfold is_leaf. rewrite L. reflexivity. Qed.

Lemma shape_S_internal d n : shape (S d) n -> is_leaf n = false.
Proof. intros (_ & _ & L & _). unfold is_leaf. destruct (n_children n); simpl in *; [lia | reflexivity]. Qed.

Lemma shape_child d n c ch : shape (S d) n -> nth_error (n_children n) c = Some ch -> shape d ch.
Proof. intros (_ & _ & _ & F & _) H. eapply Forall_nth_error; eauto. Qed.

Lemma shape_child_ex d n c : shape (S d) n -> c <= n_count n -> exists ch, nth_error (n_children n) c = Some ch /\ shape d ch.
Proof.
  intros S Hc. pose proof S as (_ & _ & L & F & Cpx).
  destruct (nth_error_ex (n_children n) c) as [ch E]; [lia|]. exists ch; split; auto. eapply shape_child; eauto.
Qed.

(* ---------- flatten around child c ---------- *)
Lemma flatten_unfold n : flatten n = interleave (map flatten (n_children n)) (n_items n).
Proof. destruct n; reflexivity. Qed.

Lemma flatten_leaf n : is_leaf n = true -> flatten n = n_items n.
Proof. destruct n as [cap ks cs]. unfold is_leaf. simpl. destruct cs; [reflexivity | discriminate]. Qed.

Lemma flatten_split n c ch :
  length (n_children n) = S (n_count n) -> nth_error (n_children n) c = Some ch ->
  flatten n = pre n c ++ flatten ch ++ post n c.
Proof.
  intros L E. rewrite flatten_unfold. unfold pre, post.
  destruct (nth_error_split _ _ _ E) as [Ecs Lc].
  assert (Hc : c <= n_count n) by (apply nth_error_lt in E; lia).
  rewrite Ecs at 1. rewrite map_app. simpl map.
  rewrite <- (firstn_skipn c (n_items n)) at 1.
  rewrite interleave_app.
  - rewrite interleave_cons. rewrite firstn_map', skipn_map'. reflexivity.
  - rewrite map_length, Lc, firstn_length_le; auto.
Qed.

(* ---------- valid positions ---------- *)
Fixpoint valid (d : nat) (p : list nat) (n : node) (j : nat) {struct p} : Prop :=
  match p with
  | [] => j <= n_count n
  | c :: p' => match d, nth_error (n_children n) c with
               | S d', Some ch => valid d' p' ch j
               | _, _ => False
               end
  end.

Lemma valid_cons d c p n j :
  valid d (c :: p) n j -> exists d' ch, d = S d' /\ nth_error (n_children n) c = Some ch /\ valid d' p ch j.
Proof.
  simpl. destruct d as [|d']; [intros []|].
  destruct (nth_error (n_children n) c) as [ch|]; [|intros []]. eauto.
Qed.

Lemma before_after d p n j : shape d n -> valid d p n j -> before p n j ++ after p n j = flatten n.
Proof.
  revert d n; induction p as [|c p IH]; intros d n S V; [simpl in *| cbn [before after]].
  - destruct (is_leaf n) eqn:Lf.
    + rewrite firstn_skipn. symmetry. apply flatten_leaf; auto.
    + destruct (shape_internal _ _ S Lf) as [d' ->].
      destruct (shape_child_ex _ _ j S V) as (ch & E & _).
      pose proof S as (_ & _ & L & _).
      rewrite (flatten_split n j ch L E). rewrite <- app_assoc. f_equal. f_equal.
      apply nth_error_nth'. rewrite nth_error_map', E. reflexivity.
  - destruct (valid_cons _ _ _ _ _ V) as (d' & ch & -> & E & V'). rewrite E.
    pose proof S as (_ & _ & L & _).
    rewrite (flatten_split n c ch L E). rewrite <- !app_assoc. f_equal. rewrite app_assoc. f_equal.
    eapply IH; eauto. eapply shape_child; eauto.
Qed.

End Base.

