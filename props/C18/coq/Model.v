(* C18 -- executable model of momo::DataColumnList (DataColumn.h): pvAdd / pvFillAddends / pvAddEdges /
   Graph::AddEdges / Graph::FillAddends / pvAddColumns / pvGetOffset / Contains.
   The vertex derivation GetVertices and the rounding Ceil are NOT written here: they are the cxx2coq
   translations (Gen_Vertices.v, Gen_Ceil.v) regenerated from /repo on every run.
   The model follows the statement order of the C++ (what is read when, what is written when). *)
From Coq Require Import ZArith Bool List Lia.
From MomoCommon Require Import GenPrelude.
From C18 Require Gen_Vertices Gen_Ceil Gen_List.
Import ListNotations.
Local Open Scope Z_scope.

(* a column to be added: ColumnInfo::GetCode, ItemTraits::GetSize<Item>, ItemTraits::GetAlignment<Item> *)
Record col := mkcol { c_code : Z; c_size : Z; c_align : Z; c_mut : bool }.   (* c_mut = ColumnTraits::IsMutable(column) *)
(* ColumnRecord: code + mOffset (size/alignment are ghost fields, the C++ record only has the type_info) *)
Record crec := mkrec { r_code : Z; r_off : Z; r_size : Z; r_align : Z; r_mut : bool }.

Definition addends_t := Z -> Z.               (* std::array<size_t, vertexCount> *)
Definition graph := Z -> list (Z * Z).        (* mEdges[v]: linked list of (edge->vertex, edge->value), head first *)

Record state := mkst {
  codeParam : Z; addends : addends_t; totalSize : Z; alignment : Z;
  codeSet : list Z;            (* mColumnCodeSet, abstractly *)
  columns : list crec;         (* mColumns, in order of addition *)
  mutCount : Z;                (* mMutableOffsets.GetCount() *)
  mutBytes : Z -> Z }.         (* mMutableOffsets items (uint8_t), 0 beyond mutCount *)

(* UIntMath<uint8_t>::GetBit / SetBit on a byte array (Utility.h) *)
Definition GetBit (data : Z -> Z) (bitIndex : Z) : bool :=
  negb (Z.eqb (Z.land (data (bitIndex / 8)) (wrapU 8 (Z.shiftl 1 (wrapU 8 (bitIndex mod 8))))) 0).
Definition SetBit (data : Z -> Z) (bitIndex : Z) : Z -> Z :=
  upd data (bitIndex / 8) (wrapU 8 (Z.lor (data (bitIndex / 8)) (wrapU 8 (Z.shiftl 1 (wrapU 8 (bitIndex mod 8)))))).
(* Array<uint8_t>::SetCount(count, uint8_t{0}): new items are zero, items beyond the new count are gone *)
Definition set_count (old n : Z) (b : Z -> Z) : Z -> Z :=
  fun i => if Z.ltb i n && Z.ltb i old then b i else 0.

Definition g_empty : graph := fun _ => [].
(* Graph::pvAddEdge: the new edge becomes the head of mEdges[vertex1] *)
Definition add_edge (g : graph) (v1 v2 val : Z) : graph :=
  fun v => if Z.eqb v v1 then (v2, val) :: g v1 else g v.
(* Graph::AddEdges *)
Definition add_edges (g : graph) (v1 v2 val : Z) : graph := add_edge (add_edge g v1 v2 val) v2 v1 val.
Definition has_edge (g : graph) (v : Z) : bool := match g v with [] => false | _ => true end.

(* Graph::FillAddends(addends, vertex): `addend` is read once, before the loop *)
Section FillLoop.
  Variable rec : addends_t -> Z -> option (bool * addends_t).
  Fixpoint fill_loop (addend : Z) (es : list (Z * Z)) (a : addends_t) : option (bool * addends_t) :=
    match es with
    | [] => Some (true, a)
    | (v2, val) :: es' =>
      if Z.eqb (a v2) 0 then
        let a1 := upd a v2 (wrapU 64 (val - addend)) in
        match rec a1 v2 with
        | None => None
        | Some (false, a2) => Some (false, a2)
        | Some (true, a2) => fill_loop addend es' a2
        end
      else if negb (Z.eqb (wrapU 64 (addend + a v2)) val) then Some (false, a)
      else fill_loop addend es' a
    end.
End FillLoop.

Fixpoint fill (fuel : nat) (g : graph) (a : addends_t) (v : Z) : option (bool * addends_t) :=
  match fuel with
  | O => None
  | S f => fill_loop (fill f g) (a v) (g v) a
  end.

(* the loop `for (v = 0; v < vertexCount; ++v)` of the static pvFillAddends *)
Fixpoint fill_all (fuel : nat) (g : graph) (vs : list Z) (a : addends_t) : option (bool * addends_t) :=
  match vs with
  | [] => Some (true, a)
  | v :: vs' =>
    if negb (has_edge g v) || negb (Z.eqb (a v) 0) then fill_all fuel g vs' a
    else match fill fuel g (upd a v (2 ^ 63)) v with
         | None => None
         | Some (false, a2) => Some (false, a2)
         | Some (true, a2) => fill_all fuel g vs' a2
         end
  end.

Fixpoint zrange (n : nat) (start : Z) : list Z := match n with O => [] | S n' => start :: zrange n' (start + 1) end.

Section WithL.
  Variable L : Z.          (* ColumnTraits::logVertexCount, 4 <= L < 16 *)
  Variable keep : bool.    (* Settings::keepRowNumber *)

  (* the constants are the ones of the source (cxx2coq "emit_consts"), not copies *)
  Definition vertexCount : Z := Gen_List.vertexCount L.               (* DataColumnList::vertexCount *)
  Definition maxColumnCount : Z := Gen_Vertices.maxColumnCount L.     (* DataColumnTraits::maxColumnCount *)
  Definition maxCodeParam : Z := Gen_Vertices.maxCodeParam.           (* DataColumnTraits::maxCodeParam *)
  Definition vertices : list Z := zrange (Z.to_nat vertexCount) 0.      (* 0, 1, .., vertexCount-1 *)
  Definition dfs_fuel : nat := S (Z.to_nat vertexCount).
  Definition rowNumberSize : Z := if keep then 8 else 0.

  Definition init : state := mkst 0 (fun _ => 0) rowNumberSize 1 [] [] 0 (fun _ => 0).

  Definition GetVertices := Gen_Vertices.GetVertices L.

  (* the non-static pvFillAddends: edges of the columns already in the list, with their existing offsets *)
  Fixpoint old_edges (cp : Z) (g : graph) (cs : list crec) : graph :=
    match cs with
    | [] => g
    | r :: cs' => let '(v1, v2) := GetVertices (r_code r) cp in old_edges cp (add_edges g v1 v2 (r_off r)) cs'
    end.

  (* pvAddEdges<void, Item, Items...>: offset assignment of the new columns; returns the records in order *)
  Fixpoint new_edges (cp : Z) (g : graph) (offset maxAl : Z) (cs : list col) : graph * Z * Z * list crec :=
    match cs with
    | [] => (g, offset, maxAl, [])
    | c :: cs' =>
      let offset1 := Gen_Ceil.Ceil offset (c_align c) in
      let '(v1, v2) := GetVertices (c_code c) cp in
      let g1 := add_edges g v1 v2 offset1 in
      let offset2 := wrapU 64 (offset1 + c_size c) in
      let maxAl1 := Z.max maxAl (c_align c) in            (* std::minmax(maxAlignment, alignment).second *)
      let '(g2, off, al, rs) := new_edges cp g1 offset2 maxAl1 cs' in
      (g2, off, al, mkrec (c_code c) offset1 (c_size c) (c_align c) (c_mut c) :: rs)
    end.

  (* one iteration of the `while (true)` of pvAdd *)
  Definition try_param (st : state) (cp : Z) (cs : list col) : option (bool * addends_t * Z * Z * list crec) :=
    let g := old_edges cp g_empty (columns st) in
    let '(g1, off, al, rs) := new_edges cp g (totalSize st) (alignment st) cs in
    match fill_all dfs_fuel g1 vertices (fun _ => 0) with
    | None => None
    | Some (b, a) => Some (b, a, off, al, rs)
    end.

  Inductive search_result :=
  | Found (cp : Z) (a : addends_t) (off al : Z) (rs : list crec)
  | CannotAdd          (* throw std::runtime_error("Cannot add columns") *)
  | SearchFuel.

  Fixpoint search (n : nat) (st : state) (cp : Z) (cs : list col) : search_result :=
    match n with
    | O => SearchFuel
    | S n' =>
      match try_param st cp cs with
      | None => SearchFuel
      | Some (true, a, off, al, rs) => Found cp a off al rs
      | Some (false, _, _, _, _) =>
        let cp1 := wrapU 64 (cp + 1) in
        if Z.gtb cp1 maxCodeParam then CannotAdd else search n' st cp1 cs
      end
    end.

  (* pvGetOffset; None = MOMO_ASSERT(addend1 != 0 && addend2 != 0) fails *)
  Definition lookup (cp : Z) (a : addends_t) (code : Z) : option Z :=
    let '(v1, v2) := GetVertices code cp in
    let a1 := a v1 in let a2 := a v2 in
    if negb (Z.eqb a1 0) && negb (Z.eqb a2 0) then Some (wrapU 64 (a1 + a2)) else None.

  (* the cxx2coq translation of the real pvGetOffset (Gen_List.v); lookup_refines (Inv.v): it IS `lookup` *)
  Definition lookup_gen (cp : Z) (a : addends_t) (code : Z) : option Z :=
    match Gen_List.pvGetOffset GetVertices cp a 0 0 code with Ok o => Some o | _ => None end.

  (* pvAddColumns: the offset stored in the ColumnRecord is the one LOOKED UP through the new addends *)
  Fixpoint add_columns (cp : Z) (a : addends_t) (rs : list crec) : option (list crec) :=
    match rs with
    | [] => Some []
    | r :: rs' =>
      match lookup cp a (r_code r) with
      | None => None
      | Some off => match add_columns cp a rs' with
                    | None => None
                    | Some l => Some (mkrec (r_code r) off (r_size r) (r_align r) (r_mut r) :: l)
                    end
      end
    end.

  Definition mem (x : Z) (l : list Z) : bool := existsb (Z.eqb x) l.
  Fixpoint set_insert (l : list Z) (xs : list Z) : list Z :=
    match xs with [] => l | x :: xs' => set_insert (if mem x l then l else x :: l) xs' end.

  (* where an allocation inside pvAdd throws (std::bad_alloc from the memory manager) *)
  Inductive alloc_fail :=
  | NoFail
  | FailReserve            (* mColumns.Reserve / mFuncRecords.Reserve: nothing written yet *)
  | FailSetCount           (* mMutableOffsets.SetCount throws: the array is as before *)
  | FailInsert (j : nat).  (* mColumnCodeSet.Insert(begin, end) throws after j keys: the catch block removes all new keys *)

  Inductive add_result :=
  | Added (st : state)
  | TooMany            (* throw std::logic_error("Too many columns") -- before anything else *)
  | Refused            (* throw std::runtime_error("Cannot add columns") -- nothing written yet *)
  | AllocFailed (st : state)   (* bad_alloc propagated; st = what is left behind *)
  | OutOfFuel          (* excluded by the theorems *)
  | AssertFails.       (* MOMO_ASSERT in pvGetOffset -- excluded by the theorems *)

  Definition set_remove (l : list Z) (xs : list Z) : list Z := filter (fun c => negb (mem c xs)) l.

  (* pvAddColumns' SetBit for the mutable columns, in order *)
  Fixpoint set_mutables (b : Z -> Z) (rs : list crec) : Z -> Z :=
    match rs with [] => b | r :: rs' => set_mutables (if r_mut r then SetBit b (r_off r) else b) rs' end.

  (* pvAdd, with the place where an allocation fails *)
  Definition add_f (fs : alloc_fail) (st : state) (cs : list col) : add_result :=
    if Z.gtb (wrapU 64 (Z.of_nat (length cs) + Z.of_nat (length (columns st)))) maxColumnCount then TooMany else
    match search 257 st (codeParam st) cs with
    | SearchFuel => OutOfFuel
    | CannotAdd => Refused
    | Found cp a off al rs =>
      match fs with
      | FailReserve | FailSetCount => AllocFailed st
      | _ =>
        let n := wrapU 64 (wrapU 64 (off + 7) / 8) in
        let mb := set_count (mutCount st) n (mutBytes st) in
        match fs with
        | FailInsert j =>
          let cset1 := set_insert (codeSet st) (firstn j (map c_code cs)) in
          AllocFailed (mkst (codeParam st) (addends st) (totalSize st) (alignment st)
                            (set_remove cset1 (map c_code cs)) (columns st) n mb)
        | _ =>
          let cset := set_insert (codeSet st) (map c_code cs) in
          match add_columns cp a rs with
          | None => AssertFails
          | Some rs' => Added (mkst cp a off al cset (columns st ++ rs') n (set_mutables mb rs'))
          end
        end
      end
    end.

  Definition add := add_f NoFail.

  (* the state after the call, as the caller observes it *)
  Definition after (st : state) (r : add_result) : state :=
    match r with Added st' => st' | AllocFailed st' => st' | _ => st end.

  (* IsMutable(offset) *)
  Definition is_mutable (st : state) (offset : Z) : bool := GetBit (mutBytes st) offset.

  (* GetOffset<extraCheck> without the extra check = pvGetOffset on the members *)
  Definition get_offset (st : state) (code : Z) : option Z := lookup (codeParam st) (addends st) code.

  (* Contains(columnInfo, &resOffset) *)
  Definition contains (st : state) (code : Z) : option Z :=
    let '(v1, v2) := GetVertices code (codeParam st) in
    let a1 := addends st v1 in let a2 := addends st v2 in
    if Z.eqb a1 0 || Z.eqb a2 0 then None
    else if negb (mem code (codeSet st)) then None
    else Some (wrapU 64 (a1 + a2)).

  (* a history: each Add comes with the place where an allocation fails (NoFail = none) *)
  Definition run_f (ops : list (alloc_fail * list col)) : state :=
    fold_left (fun st op => after st (add_f (fst op) st (snd op))) ops init.
  (* the cxx2coq translation of the real Contains (Gen_List.v) on the members of st; resOffset = the pointer argument
     (0 = nullptr); result (answer, value written through resOffset or 0).  contains_refines (Inv.v): it IS `contains` *)
  Definition contains_gen (st : state) (resOffset code : Z) : bool * Z :=
    Gen_List.Contains GetVertices (fun c => mem c (codeSet st)) (codeParam st) (addends st) (totalSize st) (alignment st) resOffset code.

  Definition run (ops : list (list col)) : state := fold_left (fun st cs => after st (add st cs)) ops init.
End WithL.
