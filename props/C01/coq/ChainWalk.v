(* C01 -- HashSet::pvFind(key): the walk over the chain of bucket generations, REGENERATED from HashSet.h (Gen_HSFind.pvFindKey, config
   copied from props/C12; the per-generation search pvFind(indexCode, buckets, pred) and Buckets::GetNextBuckets are primitives there).
   Generation j of the chain (newest = 0) has the handle j + 1, 0 = nullptr.  For ANY per-generation results `fr j` (0 = null iterator) the
   generated walk returns the first non-null one (mCount = 0: null without searching; areItemsNothrowRelocatable: only the newest generation),
   and with fr j = the encoded result of the hand model's tfind on generation j this is the hand model's gfind / hfind. *)
From Coq Require Import ZArith List Lia Bool.
From MomoCommon Require Import GenPrelude.
From C01 Require Import HashModel.
From C01 Require Gen_HSFind.
Import ListNotations.
Local Open Scope Z_scope.

Fixpoint first_nz (fr : nat -> Z) (j m : nat) : Z :=
  match m with O => 0 | S m' => if fr j =? 0 then first_nz fr (S j) m' else fr j end.

Definition res1 {A C} (o : outcome (A * C)) : outcome A :=
  match o with Ok (r, _) => Ok r | Stuck => Stuck | Fuel => Fuel | Exn => Exn end.

Section Walk.
  Variable fr : nat -> Z.          (* result of pvFind(indexCode, generation j, pred) *)
  Variable n : nat.                (* number of generations in the chain *)
  Variable hash_of : Z -> Z.
  Notation find_in := (fun (_ b _ : Z) => fr (Z.to_nat (b - 1))).
  Notation next_of := (fun b : Z => if b <? Z.of_nat n then b + 1 else 0).

  Lemma walk_loop : forall m fuel j ic pred bi, (j + m = n)%nat -> (1 <= m <= fuel)%nat ->
    res1 (Gen_HSFind.pvFindKey_loop0 false find_in next_of fuel ic pred bi (Z.of_nat j + 1)) = Ok (first_nz fr j m).
  Proof.
    induction m; intros fuel j ic pred bi Hj Hm; [lia|]. destruct fuel as [|f]; [lia|].
    rewrite Gen_HSFind.pvFindKey_loop0_eq. cbv zeta. replace (Z.to_nat (Z.of_nat j + 1 - 1)) with j by lia.
    cbn [first_nz]. rewrite orb_false_r. destruct (Z.eqb_spec (fr j) 0) as [E|E]; cbn [negb]; [|reflexivity].
    destruct (Z.ltb_spec (Z.of_nat j + 1) (Z.of_nat n)) as [L|L].
    - destruct (Z.eqb_spec (Z.of_nat j + 1 + 1) 0); [lia|]. destruct m; [lia|].
      replace (Z.of_nat j + 1 + 1) with (Z.of_nat (S j) + 1) by lia. apply IHm; lia.
    - cbn [Z.eqb]. assert (m = 0)%nat by lia. subst m. cbn [res1 first_nz]. rewrite E. reflexivity.
  Qed.

  (* several generations, items not nothrow-relocatable: the first generation with a hit *)
  Theorem walk_first_hit mCount key ht pred : (1 <= n <= Gen_HSFind.fuel_of_pvFindKey)%nat ->
    Gen_HSFind.pvFindKey false hash_of find_in next_of mCount 1 key ht pred = Ok (if mCount =? 0 then 0 else first_nz fr 0 n).
  Proof.
    intros Hn. unfold Gen_HSFind.pvFindKey. cbv zeta. destruct (Z.eqb_spec mCount 0); cbn [negb]; [reflexivity|].
    pose proof (walk_loop n Gen_HSFind.fuel_of_pvFindKey 0 (hash_of key) pred 0 ltac:(lia) Hn) as W. change (Z.of_nat 0 + 1) with 1 in W.
    destruct (Gen_HSFind.pvFindKey_loop0 _ _ _ _ _ _ _ _) as [[r b]| | |]; cbn [res1] in W; try discriminate. injection W as W. rewrite W. reflexivity.
  Qed.

  (* areItemsNothrowRelocatable: relocation is complete before any search, only the newest generation is searched *)
  Theorem walk_relocatable mCount key ht pred :
    Gen_HSFind.pvFindKey true hash_of find_in next_of mCount 1 key ht pred = Ok (if mCount =? 0 then 0 else fr 0).
  Proof.
    unfold Gen_HSFind.pvFindKey. cbv zeta. destruct (Z.eqb_spec mCount 0); cbn [negb]; [reflexivity|].
    change Gen_HSFind.fuel_of_pvFindKey with (S 69). rewrite Gen_HSFind.pvFindKey_loop0_eq. cbv zeta. rewrite orb_true_r. reflexivity.
  Qed.
End Walk.

(* the hand model's gfind is this walk over the hand model's per-generation tfind *)
Section Hand.
  Variable B : Type.
  Variable tf : table B -> option (Z * nat * Z).      (* tfind of the instance, key fixed *)
  Variable d : table B.
  Definition enc_pos (r : option (Z * nat * Z)) : Z := match r with None => 0 | Some (i, p, _) => 1 + i * 8 + Z.of_nat p end.
  Fixpoint gfind_of (gs : list (table B)) (gi : nat) : option (nat * Z * nat * Z) :=
    match gs with [] => None | t :: r => match tf t with Some (idx, pos, v) => Some (gi, idx, pos, v) | None => gfind_of r (S gi) end end.

  Lemma first_nz_gfind : forall gs gi j0 fr, (forall i, (i < length gs)%nat -> fr (j0 + i)%nat = enc_pos (tf (nth i gs d))) ->
    (forall t idx pos v, In t gs -> tf t = Some (idx, pos, v) -> 0 <= idx) ->
    first_nz fr j0 (length gs) = match gfind_of gs gi with Some (_, i, p, v) => enc_pos (Some (i, p, v)) | None => 0 end.
  Proof.
    induction gs as [|t r IH]; intros gi j0 fr Hfr Hpos; [reflexivity|]. cbn [length first_nz gfind_of].
    pose proof (Hfr 0%nat ltac:(simpl; lia)) as H0. rewrite Nat.add_0_r in H0. cbn [nth] in H0. rewrite H0.
    destruct (tf t) as [[[idx pos] v]|] eqn:E.
    - pose proof (Hpos t idx pos v (or_introl eq_refl) E). cbn [enc_pos]. destruct (Z.eqb_spec (1 + idx * 8 + Z.of_nat pos) 0); [lia|reflexivity].
    - cbn [enc_pos Z.eqb]. apply IH.
      + intros i Hi. replace (S j0 + i)%nat with (j0 + S i)%nat by lia. rewrite Hfr by (simpl; lia). reflexivity.
      + intros t' idx pos v Ht. apply Hpos. right. exact Ht.
  Qed.
End Hand.

Theorem walk_is_gfind (B : Type) (b0 : B) decode h wf0 start next (gs : list (table B)) k hash_of mCount ht pred :
  (1 <= length gs <= Gen_HSFind.fuel_of_pvFindKey)%nat ->
  (forall t idx pos v, In t gs -> tfind B b0 decode h wf0 start next t k = Some (idx, pos, v) -> 0 <= idx) ->
  Gen_HSFind.pvFindKey false hash_of
    (fun _ b _ => enc_pos (tfind B b0 decode h wf0 start next (nth (Z.to_nat (b - 1)) gs (mkT B 0 [])) k))
    (fun b => if b <? Z.of_nat (length gs) then b + 1 else 0) mCount 1 k ht pred
  = Ok (if mCount =? 0 then 0 else match gfind B b0 decode h wf0 start next gs k 0 with Some (_, i, p, v) => enc_pos (Some (i, p, v)) | None => 0 end).
Proof.
  intros Hn Hpos.
  rewrite (walk_first_hit (fun j => enc_pos (tfind B b0 decode h wf0 start next (nth j gs (mkT B 0 [])) k)) (length gs) hash_of mCount k ht pred Hn).
  destruct (mCount =? 0); [reflexivity|]. f_equal.
  rewrite (first_nz_gfind B (fun t => tfind B b0 decode h wf0 start next t k) (mkT B 0 []) gs 0%nat 0%nat _ (fun i _ => eq_refl) Hpos).
  assert (G : forall gs' gi, gfind_of B (fun t => tfind B b0 decode h wf0 start next t k) gs' gi = gfind B b0 decode h wf0 start next gs' k gi).
  { induction gs' as [|t r IH]; intros gi; [reflexivity|]. cbn [gfind_of gfind]. destruct (tfind B b0 decode h wf0 start next t k) as [[[i p] v]|]; auto. }
  rewrite G. reflexivity.
Qed.
