(* COPIED from props/C13/coq (only change: the library name); C11 uses these bucket-operation facts for GenFull.v *)
(* C13: the OpenN1 / Open8 max-probe encoder (3-bit mantissa, 5-bit exponent, 255 = "infinite"),
   proved against the generated definitions for every maxCount. *)
From Coq Require Import ZArith Bool List Lia.
From MomoCommon Require Import GenPrelude.
From C11 Require Import Gen_OpenN1 ShiftLoop.
Import ListNotations.
Local Open Scope Z_scope.

Section N1.
Variable maxCount : Z.

Definition enc_inv (s : Z -> Z) : Prop := 0 <= s maxCount < 256.
Definition bound (s : Z -> Z) (L : Z) : Z := GetMaxProbe maxCount s L.

Lemma loop_is_shr fuel x y : pvUpdateMaxProbe_loop0 fuel x y = shr_loop 7 fuel x y.
Proof.
  revert x y; induction fuel as [|fuel IH]; intros x y; [reflexivity|].
  rewrite pvUpdateMaxProbe_loop0_eq, shr_loop_eq. destruct (Z.geb x 7); [apply IH|reflexivity].
Qed.

Lemma fuel_eq : fuel_of_pvUpdateMaxProbe = S 64.
Proof. reflexivity. Qed.

Definition zrange (n : nat) : list Z := map Z.of_nat (seq 0 n).
Lemma in_zrange n x : 0 <= x < Z.of_nat n -> In x (zrange n).
Proof.
  intros H. unfold zrange. apply in_map_iff. exists (Z.to_nat x). split; [lia|].
  apply in_seq. lia.
Qed.

Definition sweep_lor : bool :=
  forallb (fun b => forallb (fun k =>
     Z.eqb (Z.lor b (Z.shiftl k 3)) (b + 8 * k)) (zrange 32)) (zrange 8).
Lemma sweep_lor_ok : sweep_lor = true. Proof. vm_compute. reflexivity. Qed.
Lemma lor_pack b k : 0 <= b < 8 -> 0 <= k <= 31 -> Z.lor b (Z.shiftl k 3) = b + 8 * k.
Proof.
  intros Hb Hk. pose proof sweep_lor_ok as H. unfold sweep_lor in H.
  rewrite forallb_forall in H. specialize (H b (in_zrange 8 b ltac:(lia))).
  rewrite forallb_forall in H. specialize (H k (in_zrange 32 k ltac:(lia))).
  apply Z.eqb_eq in H. exact H.
Qed.

Lemma decode_val x : 0 <= x < 256 -> pvGetMaxProbe x = (x mod 8) * 2 ^ (x / 8).
Proof.
  intros Hx. unfold pvGetMaxProbe.
  change 7 with (Z.ones 3). rewrite Z.land_ones by lia. change (2 ^ 3) with 8.
  rewrite Z.shiftr_div_pow2 by lia. change (2 ^ 3) with 8.
  assert (0 <= x / 8 <= 31) by (Z.div_mod_to_equations; lia).
  rewrite Z.shiftl_mul_pow2 by lia.
  pose proof (Z.mod_pos_bound x 8 ltac:(lia)).
  assert (0 < 2 ^ (x / 8)) by (apply Z.pow_pos_nonneg; lia).
  assert (2 ^ (x / 8) <= 2 ^ 31) by (apply Z.pow_le_mono_r; lia).
  apply wrapU_small. change (2 ^ 64) with (2 ^ 33 * 2 ^ 31). nia.
Qed.

Lemma bound_inf s L : 0 <= L <= 63 -> s maxCount = 255 -> bound s L = 2 ^ L - 1.
Proof.
  intros HL H. unfold bound, GetMaxProbe. rewrite H. cbn [Z.eqb infProbeExp Pos.eqb].
  rewrite Z.shiftl_mul_pow2, Z.mul_1_l by lia.
  assert (0 < 2 ^ L) by (apply Z.pow_pos_nonneg; lia).
  assert (2 ^ L <= 2 ^ 63) by (apply Z.pow_le_mono_r; lia).
  rewrite (wrapU_small 64 (2 ^ L)) by lia. apply wrapU_small. lia.
Qed.

Lemma bound_fin s L : enc_inv s -> s maxCount <> 255 ->
  bound s L = (s maxCount mod 8) * 2 ^ (s maxCount / 8).
Proof.
  intros Hinv H. unfold bound, GetMaxProbe. unfold infProbeExp.
  destruct (Z.eqb_spec (s maxCount) 255); [contradiction|]. apply decode_val; exact Hinv.
Qed.

(* slow path *)
Lemma pvUpdateMaxProbe_spec s probe L :
  0 <= L <= 63 -> 0 < probe < 2 ^ L ->
  exists s', pvUpdateMaxProbe maxCount s probe = Ok (tt, s') /\ enc_inv s' /\
             probe <= bound s' L /\ (forall i, i <> maxCount -> s' i = s i).
Proof.
  intros HL Hp.
  assert (HpL : 2 ^ L <= 2 ^ 63) by (apply Z.pow_le_mono_r; lia).
  unfold pvUpdateMaxProbe.
  rewrite (wrapU_small 64 (probe - 1)) by lia.
  rewrite loop_is_shr, fuel_eq.
  destruct (shr_loop_spec 7 ltac:(lia) 64 (probe - 1) 0) as (k & Hk & Hr & Hlt & Hmin);
    [ change (Z.of_nat 64) with 64; lia | lia | change (Z.of_nat 64) with 64; lia | ].
  rewrite Hr. cbn [Z.add]. change (Z.of_nat 64) with 64 in Hk.
  set (m := (probe - 1) / 2 ^ k) in *.
  assert (Hm0 : 0 <= m) by (apply Z.div_pos; [lia|apply Z.pow_pos_nonneg; lia]).
  eexists. split; [reflexivity|].
  match goal with |- enc_inv ?f /\ _ => set (s' := f) end.
  assert (Hoth : forall i, i <> maxCount -> s' i = s i) by (intros i Hi; unfold s'; apply upd_other; exact Hi).
  destruct (Z.leb_spec k 31) as [Hk31|Hk31].
  - assert (Hb : s' maxCount = m + 1 + 8 * k).
    { unfold s'. rewrite upd_same.
      assert (Hsh : Z.shiftl k 3 = 8 * k) by (rewrite Z.shiftl_mul_pow2 by lia; change (2 ^ 3) with 8; lia).
      rewrite (wrapU_small 64 (m + 1)) by lia.
      rewrite (wrapU_small 8 (m + 1)) by (change (2 ^ 8) with 256; lia).
      rewrite (wrapU_small 64 (Z.shiftl k 3)) by (rewrite Hsh; lia).
      rewrite (wrapU_small 8 (Z.shiftl k 3)) by (rewrite Hsh; change (2 ^ 8) with 256; lia).
      rewrite lor_pack by lia. apply wrapU_small. change (2 ^ 8) with 256. lia. }
    assert (Hinv' : enc_inv s') by (unfold enc_inv; rewrite Hb; lia).
    split; [exact Hinv'|]. split; [|exact Hoth].
    destruct (Z.eq_dec (s' maxCount) 255) as [Hinf|Hfin].
    + rewrite bound_inf by assumption. lia.
    + rewrite bound_fin by assumption. rewrite Hb.
      replace (m + 1 + 8 * k) with ((m + 1) + k * 8) by lia.
      rewrite Z.mod_add, Z.div_add by lia. rewrite Z.mod_small, Z.div_small by lia.
      rewrite Z.add_0_l. unfold m. pose proof (round_up_gt (probe - 1) k ltac:(lia) ltac:(lia)). lia.
  - assert (Hb : s' maxCount = 255) by (unfold s'; rewrite upd_same; reflexivity).
    assert (Hinv' : enc_inv s') by (unfold enc_inv; rewrite Hb; lia).
    split; [exact Hinv'|]. split; [|exact Hoth]. rewrite bound_inf by assumption. lia.
Qed.

(* full update: every probe below the bucket count *)
Theorem update_spec s probe L :
  enc_inv s -> 0 <= L <= 63 -> 0 <= probe < 2 ^ L ->
  exists s', UpdateMaxProbe maxCount s probe = Ok (tt, s') /\ enc_inv s' /\
             probe <= bound s' L /\
             (forall q, q < 2 ^ L -> q <= bound s L -> q <= bound s' L) /\
             (forall i, i <> maxCount -> s' i = s i).
Proof.
  intros Hinv HL Hp. unfold UpdateMaxProbe.
  assert (H2L : 0 < 2 ^ L) by (apply Z.pow_pos_nonneg; lia).
  destruct (Z.eqb_spec probe 0) as [->|Hne].
  { exists s. split; [reflexivity|]. split; [assumption|]. split; [|split; [auto|auto]].
    destruct (Z.eq_dec (s maxCount) 255).
    - rewrite bound_inf by assumption. lia.
    - rewrite bound_fin by assumption. pose proof (Z.mod_pos_bound (s maxCount) 8 ltac:(lia)).
      apply Z.mul_nonneg_nonneg; [lia|apply Z.pow_nonneg; lia]. }
  unfold infProbeExp.
  destruct (Z.eqb_spec (s maxCount) 255) as [Hinf|Hfin]; cbn [orb].
  { exists s. split; [reflexivity|]. split; [assumption|]. split; [|split; [auto|auto]].
    rewrite bound_inf by assumption. lia. }
  destruct (Z.leb_spec probe (pvGetMaxProbe (s maxCount))) as [Hle|Hgt].
  { exists s. split; [reflexivity|]. split; [assumption|]. split; [|split; [auto|auto]].
    rewrite bound_fin by assumption. rewrite <- decode_val by exact Hinv. exact Hle. }
  destruct (pvUpdateMaxProbe_spec s probe L HL ltac:(lia)) as (s' & Hr & Hinv' & Hge & Hoth).
  rewrite Hr. exists s'. split; [reflexivity|]. split; [assumption|]. split; [assumption|]. split; [|assumption].
  intros q Hq Hqb. rewrite bound_fin in Hqb by assumption. rewrite <- decode_val in Hqb by exact Hinv. lia.
Qed.

Fixpoint updates (s : Z -> Z) (ps : list Z) : outcome (Z -> Z) :=
  match ps with
  | [] => Ok s
  | p :: ps => match UpdateMaxProbe maxCount s p with
               | Ok (_, s') => updates s' ps
               | Stuck => Stuck | Fuel => Fuel | Exn => Exn
               end
  end.

Theorem updates_cover s ps L :
  enc_inv s -> 0 <= L <= 63 -> Forall (fun p => 0 <= p < 2 ^ L) ps ->
  exists s', updates s ps = Ok s' /\ enc_inv s' /\
             (forall q, q < 2 ^ L -> q <= bound s L -> q <= bound s' L) /\
             Forall (fun p => p <= bound s' L) ps /\
             (forall i, i <> maxCount -> s' i = s i).
Proof.
  intros Hinv HL. revert s Hinv. induction ps as [|p ps IH]; intros s Hinv Hall.
  - exists s. split; [reflexivity|]. split; [assumption|]. split; [auto|]. split; [constructor|auto].
  - inversion Hall as [|? ? Hp Hps]; subst.
    destruct (update_spec s p L Hinv HL Hp) as (s1 & Hr & Hinv1 & Hge & Hold & Hoth).
    destruct (IH s1 Hinv1 Hps) as (s2 & Hr2 & Hinv2 & Hold2 & Hall2 & Hoth2).
    exists s2. cbn [updates]. rewrite Hr. split; [assumption|]. split; [assumption|].
    split; [intros q Hq Hqb; apply Hold2; [assumption|apply Hold; assumption]|].
    split; [constructor; [apply Hold2; [lia|assumption]|assumption]|].
    intros i Hi. rewrite Hoth2, Hoth by assumption. reflexivity.
Qed.
End N1.

Example n1_example : exists s, updates 7 (fun _ => 0) [3; 1000; 77; 2 ^ 40 + 5] = Ok s /\ bound 7 s 50 = 2 ^ 50 - 1.
Proof. eexists. split; [vm_compute; reflexivity|]. vm_compute. reflexivity. Qed.
Example n1_example2 : exists s, updates 3 (fun _ => 0) [3; 1000; 77] = Ok s /\ bound 3 s 50 = 1024.
Proof. eexists. split; [vm_compute; reflexivity|]. vm_compute. reflexivity. Qed.
