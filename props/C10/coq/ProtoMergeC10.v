(* C10 -- reading the DUMPED statement trees of the merge hand-over loops (Gen_MergeProto.v, produced by props/C10/c10_proto.py
   from the clang AST on every run) and tying them to the hand model.
   Two layers: (1) a structural recogniser extracts the facts the hand model depends on from the dumped tree of pvMergeTo
   (what the creator does, which key is looked up, which flag is tested, what happens on refusal); the generalised step
   `gstep` gives those facts a meaning and is proved equal to Merge.hstep for the facts found in the source, while each
   deviating fact is refuted by a witness; (2) the remaining trees (pvExtract of both containers, pvMergeToLinear) are
   proved equal to the trees the hand model was written from (closed terms, reflexivity). *)
From Coq Require Import String List ZArith Bool Lia Permutation.
From C10 Require Import ProtoSyntaxC10 Machine Merge MergeProofs.
From C10 Require Gen_MergeProto.
Import ListNotations.
Set Default Timeout 120.   (* robustness: no tactic may run away on a regenerated term *)
Local Open Scope string_scope.

Definition is_var (e : pexpr) (s : string) : bool := match e with EVar x => String.eqb x s | _ => false end.
Definition is_call0 (e : pexpr) (m : string) : bool := match e with ECall ENone x [] => String.eqb x m | _ => false end.

(* `iter = pvExtract(iter, newItem)` : the creator takes the item OUT of the source while it builds it in the destination *)
Definition creator_is_extract (cb : list pstmt) : bool :=
  match cb with
  | [SExpr (EBin op a (ECall ENone m [x; y]))] =>
      String.eqb op "=" && is_var a "iter" && String.eqb m "pvExtract" && is_var x "iter" && is_var y "newItem"
  | _ => false
  end.

(* `!dstSet.InsertCrt(GetKey( *iter), itemCreator).inserted` *)
Definition cond_is_not_inserted (c : pexpr) : bool * bool :=
  match c with
  | EUn n (EMember (ECall (EVar d) m [ECall ENone g [EUn s it]; cr]) f) =>
      (String.eqb n "!" && String.eqb d "dstSet" && String.eqb m "InsertCrt" && is_var cr "itemCreator" && String.eqb f "inserted",
       String.eqb g "GetKey" && String.eqb s "*" && is_var it "iter")
  | _ => (false, false)
  end.

Definition is_incr_iter (b : list pstmt) : bool :=
  match b with [SExpr (EUn op it)] => String.eqb op "++" && is_var it "iter" | _ => false end.

Record loop_facts := LF { creator_extracts : bool;      (* the creator relocates the source item and removes it from the source *)
                          tests_not_inserted : bool;    (* the loop asks the destination's InsertCrt whether it inserted *)
                          key_of_current : bool;        (* ... for the key of the current source item *)
                          advances_on_refusal : bool;   (* a refused item is skipped with ++iter ... *)
                          nothing_else : bool }.        (* ... and that is all the loop body does *)

Definition canonical : loop_facts := LF true true true true true.

(* cond_ok recognises the loop condition (`!!iter` for hash sets, `iter != GetEnd()` for trees) *)
Definition recognise_merge_loop (cond_ok : pexpr -> bool) (p : list pstmt) : option loop_facts :=
  match p with
  | [SDecl it b; SWhile c [SLambda cr cb; SIf ic th el]] =>
      if String.eqb it "iter" && is_call0 b "GetBegin" && cond_ok c && String.eqb cr "itemCreator" then
        let (t1, t2) := cond_is_not_inserted ic in
        Some (LF (creator_is_extract cb) t1 t2 (is_incr_iter th) (match el with [] => true | _ => false end))
      else None
  | _ => None
  end.

Definition hash_cond (c : pexpr) : bool :=
  match c with EUn a (EUn b it) => String.eqb a "!" && String.eqb b "!" && is_var it "iter" | _ => false end.
Definition tree_cond (c : pexpr) : bool :=
  match c with EBin op it e => String.eqb op "!=" && is_var it "iter" && is_call0 e "GetEnd" | _ => false end.

Theorem hash_merge_loop_facts : recognise_merge_loop hash_cond Gen_MergeProto.hash_pvMergeTo = Some canonical.
Proof. vm_compute. reflexivity. Qed.

Theorem tree_merge_loop_facts : recognise_merge_loop tree_cond Gen_MergeProto.tree_pvMergeTo = Some canonical.
Proof. vm_compute. reflexivity. Qed.

(* the two containers run the SAME loop body (same-code) *)
Theorem hash_tree_same_loop_body :
  match Gen_MergeProto.hash_pvMergeTo, Gen_MergeProto.tree_pvMergeTo with
  | [_; SWhile _ b1], [_; SWhile _ b2] => b1 = b2
  | _, _ => False
  end.
Proof. vm_compute. reflexivity. Qed.

(* ---------------------------------------------------------------- what the facts MEAN: the loop step as a function of the facts *)
Local Open Scope Z_scope.
Definition gstep (f : loop_facts) (c : cat) (multi : bool) (st : mstate) : mstate :=
  match s_stat st with
  | Running =>
    match s_idx st with
    | O => match s_todo st with
           | [] => MS (s_done st) (s_cur st) O [] (s_dst st) (s_w st) Finished
           | b :: t => MS (s_done st ++ [s_cur st]) b (length b) t (s_dst st) (s_w st) Running
           end
    | S i =>
      let b := s_cur st in
      let x := nth i b 0 in
      match step_func (s_w st) with
      | None => set_fail st (fail_func (s_w st))
      | Some w1 =>
        if negb multi && has_key (s_dst st) (key x) then
          (* refused *)
          MS (s_done st) b (if advances_on_refusal f then i else S i) (s_todo st) (s_dst st) w1 Running
        else
          match step_alloc w1 with
          | None => set_fail st (fail_alloc w1)
          | Some w2 =>
            if creator_extracts f then
              match extract_reloc c w2 x (repl_of b i) with
              | (w3, None) => set_fail st w3
              | (w3, Some e) => MS (s_done st) (bucket_remove b i) i (s_todo st) (s_dst st ++ [e]) w3 Running
              end
            else
              (* a creator that merely constructs from the source item leaves it in the source *)
              match copy_ctor c w2 x with
              | (w3, None) => set_fail st w3
              | (w3, Some e) => MS (s_done st) b i (s_todo st) (s_dst st ++ [e]) w3 Running
              end
          end
      end
    end
  | _ => st
  end.

(* with the facts found in the source, the step is exactly the hand model's step *)
Theorem gstep_canonical_is_hstep c multi st : gstep canonical c multi st = hstep c multi st.
Proof. reflexivity. Qed.

(* a creator that does not extract duplicates the item: conservation is refuted *)
Theorem gstep_non_extracting_creator_duplicates :
  let st := Nat.iter 3 (gstep (LF false true true true true) NTM false) (hinit [[100]] [] (W [] [] [] [])) in
  s_dst st = [100] /\ src_items st = [100] /\ ~ Permutation (src_items st ++ s_dst st) ([100] ++ []).
Proof.
  vm_compute. split; [reflexivity|]. split; [reflexivity|]. intros P. apply Permutation_length in P. discriminate P.
Qed.

(* a loop that does not advance on refusal never gets past a refused item *)
Theorem gstep_not_advancing_makes_no_progress :
  let f := LF true true true false true in
  let st0 := gstep f NTM false (hinit [[100]] [150] (W [] [] [] [])) in      (* the iterator stands on item 100, whose key the destination holds *)
  gstep f NTM false st0 = st0 /\ s_stat st0 = Running /\ s_idx st0 = 1%nat.
Proof. vm_compute. auto. Qed.
Local Close Scope Z_scope.

(* ---------------------------------------------------------------- pvExtract: the trees the hand model was written from *)
(* HashSet::pvExtract: the replacer relocates the removed item to extItem when it IS the bucket's last item
   (Merge.extract_reloc with None), otherwise ReplaceRelocate(memManager, srcItem = the last item, dstItem = the removed item,
   extItem) (Merge.extract_reloc with Some last: Machine.replace_relocate c w last removed) *)
Definition expected_hash_pvExtract : list pstmt :=
  [SLambda "itemReplacer"
     [SDecl "memManager" (ECall ENone "GetMemManager" []);
      SIf (EBin "==" (ECall ENone "addressof" [EVar "srcItem"]) (ECall ENone "addressof" [EVar "dstItem"]))
          [SExpr (ECall ENone "Relocate" [EUn "&" (EVar "memManager"); EVar "srcItem"; EVar "extItem"])]
          [SExpr (ECall ENone "ReplaceRelocate" [EVar "memManager"; EVar "srcItem"; EVar "dstItem"; EVar "extItem"])]];
   SReturn (ECall ENone "pvRemove" [EVar "iter"; EVar "itemReplacer"])].

Theorem hash_pvExtract_is_the_modelled_tree : Gen_MergeProto.hash_pvExtract = expected_hash_pvExtract.
Proof. reflexivity. Qed.

(* TreeSet::pvExtract: leaf -> Relocate(item, extItem); internal -> ReplaceRelocate(memManager, srcItem = predecessor, dstItem, extItem) *)
Definition expected_tree_pvExtract : list pstmt :=
  [SLambda "itemRemover" [SExpr (ECall ENone "Relocate" [EUn "&" (ECall ENone "GetMemManager" []); EVar "item"; EVar "extItem"])];
   SLambda "itemReplacer" [SExpr (ECall ENone "ReplaceRelocate" [ECall ENone "GetMemManager" []; EVar "srcItem"; EVar "dstItem"; EVar "extItem"])];
   SReturn (ECall ENone "pvRemove" [EVar "iter"; EVar "itemRemover"; EVar "itemReplacer"])].

Theorem tree_pvExtract_is_the_modelled_tree : Gen_MergeProto.tree_pvExtract = expected_tree_pvExtract.
Proof. reflexivity. Qed.

(* TreeSet::pvMergeToLinear (Merge.lstep): advance dstIter while pvIsOrdered(dstIter, iter); insert before dstIter when multiKey or
   pvIsGreater(dstIter, key) -- the creator extracts, dstIter = next(pvAdd(dstIter, creator)) --, else skip both iterators *)
Definition expected_tree_pvMergeToLinear : list pstmt :=
  [SDecl "iter" (ECall ENone "GetBegin" []);
   SDecl "dstIter" (ECall (EVar "dstTreeSet") "GetBegin" []);
   SWhile (EBin "!=" (EVar "iter") (ECall ENone "GetEnd" []))
     [SWhile (EBin "&&" (EBin "!=" (EVar "dstIter") (ECall (EVar "dstTreeSet") "GetEnd" []))
                        (ECall ENone "pvIsOrdered" [EVar "dstIter"; EVar "iter"]))
        [SExpr (EUn "++" (EVar "dstIter"))];
      SIf (EBin "||" (EVar "multiKey") (ECall (EVar "dstTreeSet") "pvIsGreater" [EVar "dstIter"; ECall ENone "GetKey" [EUn "*" (EVar "iter")]]))
        [SLambda "itemCreator" [SExpr (EBin "=" (EVar "iter") (ECall ENone "pvExtract" [EVar "iter"; EVar "newItem"]))];
         SExpr (EBin "=" (EVar "dstIter") (ECall ENone "next" [ECall (EVar "dstTreeSet") "pvAdd" [EVar "dstIter"; EVar "itemCreator"]]))]
        [SExpr (EUn "++" (EVar "iter")); SExpr (EUn "++" (EVar "dstIter"))]]].

Theorem tree_pvMergeToLinear_is_the_modelled_tree : Gen_MergeProto.tree_pvMergeToLinear = expected_tree_pvMergeToLinear.
Proof. reflexivity. Qed.
