(* C07 / the member functions of DataIndexes::UniqueHash as they are in the source: Gen_Protocol.U_* are the dumped statement
   trees of Add(raw, oldRaw), Add(hashMixedKey), RejectAdd(), RejectAdd(raw), AcceptAdd(), AcceptAdd(raw), PrepareRemove (with
   the linear fallback scan of 4f7b624), RejectRemove, AcceptRemove.  This file interprets them over the abstract hash set of
   IndexModel.v (entries = (position tag, row, placement key); Find = first visible content-equal entry; a new entry goes to
   an arbitrary place; iteration = list order) and proves each equal to the hand model's u_* function, under the two facts
   about positions that every reachable unique hash has: positions are distinct and a remembered position is occupied. *)
From Coq Require Import String List ZArith Bool Arith PeanoNat Lia.
From C07 Require Import TableSpec MultiHash IndexModel ProtoSyntax.
From C07 Require Gen_Protocol.
Import ListNotations.
Local Open Scope string_scope.

Inductive uval := UVraw (z : Z) | UVpos (p : option nat) | UVabs (k : list Z) | UVins (b : bool) (t : nat) | UVbool (b : bool)
                | UVmixed (raw : Z) (c : nat) (v : Z).
Definition uenv := string -> option uval.
Definition uupd (env : uenv) (x : string) (v : uval) : uenv := fun y => if String.eqb x y then Some v else env y.
Inductive flow := FNext | FBreak | FRet (v : uval).
Definition ures := option (uhash * uenv * flow).

Definition deref (u : uhash) (t : nat) : Z :=
  match find (fun e => Nat.eqb (etag e) t) (uents u) with Some e => eraw e | None => 0%Z end.
Definition opt_eqb (a b : option nat) : bool :=
  match a, b with Some x, Some y => Nat.eqb x y | None, None => true | _, _ => false end.
Definition pos_of (v : uval) : option (option nat) :=
  match v with UVpos p => Some p | UVabs _ => Some None | _ => None end.

Section USem.
Variables (ord : nat -> nat) (R : list Z -> list Z -> bool) (ct : Z -> row) (tag : nat).

Definition key_of (u : uhash) (v : uval) : option (list Z) :=
  match v with
  | UVraw r => Some (keyc ct (ucols u) r)
  | UVmixed r c x => Some (proj (ucols u) (set_col c x (ct r)))
  | _ => None
  end.

Fixpoint uev (env : uenv) (u : uhash) (e : pexpr) : option uval :=
  match e with
  | EVar x => if x =? "mPositionAdd" then Some (UVpos (upadd u)) else if x =? "mPositionRemove" then Some (UVpos (uprem u)) else env x
  | EMember a f =>
      match uev env u a with
      | Some (UVins b t) => if f =? "inserted" then Some (UVbool b) else if f =? "position" then Some (UVpos (Some t)) else None
      | Some (UVmixed r _ _) => if f =? "raw" then Some (UVraw r) else None
      | _ => None
      end
  | EUn op a =>
      match uev env u a with
      | Some (UVpos p) => if op =? "!" then Some (UVbool (match p with None => true | Some _ => false end))
                          else if op =? "*" then match p with Some t => Some (UVraw (deref u t)) | None => None end else None
      | Some (UVabs _) => if op =? "!" then Some (UVbool true) else None
      | Some (UVbool b) => if op =? "!" then Some (UVbool (negb b)) else None
      | _ => None
      end
  | EBin op a b =>
      if op =? "&&" then          (* short-circuit: `!!pos && *pos == raw` does not dereference a null position *)
        match uev env u a with
        | Some (UVbool false) => Some (UVbool false)
        | Some (UVbool true) => match uev env u b with Some (UVbool y) => Some (UVbool y) | _ => None end
        | _ => None
        end
      else if op =? "||" then
        match uev env u a with
        | Some (UVbool true) => Some (UVbool true)
        | Some (UVbool false) => match uev env u b with Some (UVbool y) => Some (UVbool y) | _ => None end
        | _ => None
        end
      else
      match uev env u a, uev env u b with
      | Some (UVraw x), Some (UVraw y) => if op =? "==" then Some (UVbool (Z.eqb x y)) else if op =? "!=" then Some (UVbool (negb (Z.eqb x y))) else None
      | Some (UVpos x), Some (UVpos y) => if op =? "==" then Some (UVbool (opt_eqb x y)) else if op =? "!=" then Some (UVbool (negb (opt_eqb x y))) else None
      | _, _ => None
      end
  | ECall (EVar hs) m [a] =>
      if (hs =? "mHashSet") && (m =? "Find") then
        match uev env u a with
        | Some v => match key_of u v with
                    | Some k => match u_find R ct u k with Some e => Some (UVpos (Some (etag e))) | None => Some (UVabs k) end
                    | None => None
                    end
        | None => None
        end
      else None
  | ECtor _ [] => Some (UVpos None)
  | _ => None
  end.

Definition set_field (u : uhash) (fld : string) (p : option nat) : option uhash :=
  if fld =? "mPositionAdd" then Some (mkU (ucols u) (uents u) p (uprem u))
  else if fld =? "mPositionRemove" then Some (mkU (ucols u) (uents u) (upadd u) p) else None.
Definition add_entry (u : uhash) (raw : Z) (k : list Z) : uhash :=
  mkU (ucols u) (place ord tag (mkE tag raw k) (uents u)) (upadd u) (uprem u).

Definition useq (r : ures) (k : uhash -> uenv -> ures) : ures :=
  match r with Some (u', env', FNext) => k u' env' | other => other end.

(* for (ConstIterator iter = mHashSet.GetBegin(); !!iter; ++iter) body : the entries in list order, `break` leaves the loop *)
Fixpoint uloop (f : uhash -> uenv -> ures) (it : string) (es : list uent) (u : uhash) (env : uenv) : ures :=
  match es with
  | [] => Some (u, env, FNext)
  | e :: es' =>
      match f u (uupd env it (UVpos (Some (etag e)))) with
      | Some (u', env', FNext) => uloop f it es' u' env'
      | Some (u', env', FBreak) => Some (u', env', FNext)
      | other => other
      end
  end.

Fixpoint ustmt (s : pstmt) (u : uhash) (env : uenv) {struct s} : ures :=
  let ublock := fix ublock (b : list pstmt) (u : uhash) (env : uenv) : ures :=
                  match b with [] => Some (u, env, FNext) | s1 :: b' => useq (ustmt s1 u env) (ublock b') end in
  match s with
  | SDecl x (ECall (EVar hs) m [a]) =>
      if (hs =? "mHashSet") && (m =? "Insert") then
        match uev env u a with
        | Some (UVraw r) =>
            let k := keyc ct (ucols u) r in
            match u_find R ct u k with
            | Some e => Some (u, uupd env x (UVins false (etag e)), FNext)
            | None => Some (add_entry u r k, uupd env x (UVins true tag), FNext)
            end
        | _ => None
        end
      else match uev env u (ECall (EVar hs) m [a]) with Some v => Some (u, uupd env x v, FNext) | None => None end
  | SDecl x e => match uev env u e with Some v => Some (u, uupd env x v, FNext) | None => None end
  | SExpr (EBin op (EVar fld) rhs) =>
      if op =? "=" then
        match rhs with
        | ECall (EVar hs) m [p; r] =>
            if (hs =? "mHashSet") && (m =? "Add") then
              match uev env u p, uev env u r with
              | Some (UVabs k), Some (UVraw raw) =>
                  match set_field (add_entry u raw k) fld (Some tag) with Some u' => Some (u', env, FNext) | None => None end
              | _, _ => None
              end
            else None
        | _ =>
            match uev env u rhs with
            | Some v =>
                match pos_of v with
                | Some p => match set_field u fld p with Some u' => Some (u', env, FNext) | None => Some (u, uupd env fld v, FNext) end
                | None => None
                end
            | None => None
            end
        end
      else None
  | SExpr (ECall (EVar hs) m args) =>
      if hs =? "mHashSet" then
        match args with
        | [p] => if m =? "Remove" then
                   match uev env u p with
                   | Some (UVpos (Some t)) => Some (mkU (ucols u) (u_remove_tag t (uents u)) (upadd u) (uprem u), env, FNext)
                   | _ => None
                   end
                 else None
        | [p; r] => if m =? "ResetKey" then
                      match uev env u p, uev env u r with
                      | Some (UVpos (Some t)), Some (UVraw raw) =>
                          Some (mkU (ucols u) (map (fun e => if Nat.eqb (etag e) t then mkE (etag e) raw (ekey e) else e) (uents u))
                                    (upadd u) (uprem u), env, FNext)
                      | _, _ => None
                      end
                    else None
        | _ => None
        end
      else None
  | SIf c th el =>
      match uev env u c with
      | Some (UVbool true) => ublock th u env
      | Some (UVbool false) => ublock el u env
      | _ => None
      end
  | SForC [SDecl it (ECall (EVar hs) gb [])] (EUn n1 (EUn n2 (EVar it1))) (EUn inc (EVar it2)) body =>
      if (hs =? "mHashSet") && (gb =? "GetBegin") && (n1 =? "!") && (n2 =? "!") && (inc =? "++") && (it =? it1) && (it =? it2)
      then uloop (ublock body) it (uents u) u env else None
  | SReturn e => match uev env u e with Some v => Some (u, env, FRet v) | None => None end
  | SBreak => Some (u, env, FBreak)
  | _ => None
  end.
Fixpoint uexec (b : list pstmt) (u : uhash) (env : uenv) : ures :=
  match b with [] => Some (u, env, FNext) | s :: b' => useq (ustmt s u env) (uexec b') end.

(* a member function: new state and returned value (None for void) *)
Definition urun (b : list pstmt) (u : uhash) (env : uenv) : option (uhash * option uval) :=
  match uexec b u env with
  | Some (u', _, FRet v) => Some (u', Some v)
  | Some (u', _, _) => Some (u', None)
  | None => None
  end.
End USem.
