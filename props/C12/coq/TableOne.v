(* C12, L1 model of the relocation glue for BucketOne (1-slot buckets, 64-bit hash state, linear probing; pvFind walks on
   while WasFull(), GetMaxProbe = bucketCount - 1) over the GENERATED IsFull / WasFull / AddCrt / Remove / GetHashCodePart /
   GetStartBucketIndex / GetNextBucketIndex.  Hand parts: the probe loop of pvAddNogrow and the loop of pvRelocateItems.
   Tied by `tone` cases against the real HashSet<.., HashBucketOne<>>. *)
From Coq Require Import ZArith Bool List Lia.
From MomoCommon Require Import GenPrelude.
From C12 Require Import Gen_Base Gen_One.
Import ListNotations.
Local Open Scope Z_scope.

Record obucket := mkO { ost : Z; oky : Z }.       (* mHashState, the key in mItemBuffer *)
Definition otable := Z -> obucket.
Definition otupd (t : otable) (i : Z) (b : obucket) : otable := fun j => if Z.eqb j i then b else t j.
Definition oempty_table : otable := fun _ => mkO 0 0.

Fixpoint oprobe_loop (fuel : nat) (t : otable) (bc idx probe : Z) {struct fuel} : outcome (Z * Z) :=
  match fuel with
  | O => Fuel
  | S f =>
    if Gen_One.IsFull (ost (t idx)) then
      let probe := wrapU 64 (probe + 1) in
      if probe >=? bc then Exn
      else oprobe_loop f t bc (Gen_Base.GetNextBucketIndex idx bc) probe
    else Ok (idx, probe)
  end.

Definition oadd_nogrow (t : otable) (L code key : Z) : outcome otable :=
  let bc := wrapU 64 (Z.shiftl 1 L) in
  let start := Gen_Base.GetStartBucketIndex code bc in
  match oprobe_loop (S (Z.to_nat bc)) t bc start 0 with
  | Ok (idx, _) =>
    match Gen_One.AddCrt (ost (t idx)) code with
    | Ok (_, st') => Ok (otupd t idx (mkO st' key))
    | Stuck => Stuck | Fuel => Fuel | Exn => Exn
    end
  | Stuck => Stuck | Fuel => Fuel | Exn => Exn
  end.

Definition oremove_at (t : otable) (b : Z) : outcome otable :=
  match Gen_One.Remove (ost (t b)) 5 5 with
  | Ok (_, st') => Ok (otupd t b (mkO st' (oky (t b))))
  | Stuck => Stuck | Fuel => Fuel | Exn => Exn
  end.

(* ---- HashSet::pvFind over the GENERATED BucketOne::Find / WasFull / BucketBase::GetNextBucketIndex / GetMaxProbe ----
   the generated Find returns &mItemBuffer (= 1 here) or the null pointer 0 *)
Definition obucket_find (b : obucket) (key h : Z) : Z := Gen_One.Find (ost b) (fun _ => oky b =? key) h 1.

Fixpoint ofind_loop (fuel : nat) (t : otable) (bc idx probe maxProbe key h : Z) {struct fuel} : outcome (option Z) :=
  match fuel with
  | O => Fuel
  | S f =>
    if Gen_One.WasFull (ost (t idx)) && (probe <=? maxProbe) then
      let idx' := Gen_Base.GetNextBucketIndex idx bc in
      if obucket_find (t idx') key h =? 0 then ofind_loop f t bc idx' (wrapU 64 (probe + 1)) maxProbe key h
      else Ok (Some idx')
    else Ok None
  end.

Definition ofind (t : otable) (L key h : Z) : outcome (option Z) :=
  let bc := wrapU 64 (Z.shiftl 1 L) in
  let start := Gen_Base.GetStartBucketIndex h bc in
  if obucket_find (t start) key h =? 0 then ofind_loop (S (Z.to_nat (Gen_Base.GetMaxProbe L))) t bc start 1 (Gen_Base.GetMaxProbe L) key h
  else Ok (Some start).

Section OneReloc.
Variable hash : Z -> Z.

Definition orelocate_item (told tnew : otable) (newL i : Z) : outcome (otable * otable) :=
  let key := oky (told i) in
  match Gen_One.GetHashCodePart (ost (told i)) (hash key) 5 5 with
  | Ok code =>
    match oadd_nogrow tnew newL code key with
    | Ok tnew' => match oremove_at told i with
                  | Ok told' => Ok (told', tnew')
                  | Stuck => Stuck | Fuel => Fuel | Exn => Exn
                  end
    | Stuck => Stuck | Fuel => Fuel | Exn => Exn
    end
  | Stuck => Stuck | Fuel => Fuel | Exn => Exn
  end.

Fixpoint omigrate_from (n : nat) (told tnew : otable) (newL i : Z) {struct n} : outcome (otable * otable) :=
  match n with
  | O => Ok (told, tnew)
  | S m =>
    if Gen_One.IsFull (ost (told i)) then
      match orelocate_item told tnew newL i with
      | Ok (told', tnew') => omigrate_from m told' tnew' newL (i + 1)
      | Stuck => Stuck | Fuel => Fuel | Exn => Exn
      end
    else omigrate_from m told tnew newL (i + 1)
  end.

Definition omigrate (told : otable) (L newL : Z) : outcome (otable * otable) :=
  omigrate_from (Z.to_nat (2 ^ L)) told oempty_table newL 0.

Fixpoint oinsert_all (t : otable) (L : Z) (keys : list Z) : outcome otable :=
  match keys with
  | [] => Ok t
  | k :: r => match oadd_nogrow t L (hash k) k with Ok t' => oinsert_all t' L r | Stuck => Stuck | Fuel => Fuel | Exn => Exn end
  end.
End OneReloc.

Fixpoint olocate_from (n : nat) (t : otable) (i key : Z) : option Z :=
  match n with
  | O => None
  | S m => if Gen_One.IsFull (ost (t i)) && (oky (t i) =? key) then Some i else olocate_from m t (i + 1) key
  end.

Fixpoint ogrow_chain (hash : Z -> Z) (t : otable) (L : Z) (Ls : list Z) : outcome (otable * Z) :=
  match Ls with
  | [] => Ok (t, L)
  | newL :: r => match omigrate hash t L newL with
                 | Ok (_, tnew) => ogrow_chain hash tnew newL r
                 | Stuck => Stuck | Fuel => Fuel | Exn => Exn
                 end
  end.
