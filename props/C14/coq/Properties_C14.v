(* Property C14 -- theorems only.  Each is closed by `exact <lemma>` and followed by Print Assumptions.
   Models: PropagationModel.v (MemManagerStd / MemManagerProxy / stdish wrapper decisions + the std rule table),
   Model.v (pointer-level ownership model: crew handle, MovedFrom state, manager carried by every block).
   The extracted model is run against the real containers on every ./check (T-cor). *)
From Coq Require Import ZArith List Bool.
From MomoCommon Require Import GenPrelude.
From C14 Require Import PropagationModel Model Proofs Bodies BodiesProofs Crew GenProofs GenProofs2 GenProofs3 GenProofs4 GenProofs5 GenProofs6 GenProofs7 GenProofs8.
From C14 Require Gen_TreeSet Gen_HashSet Gen_HashMultiMap Gen_DataTable Gen_SetCrew Gen_CrewContract.
From C14 Require Gen_SetCrew2 Gen_SetCrewInl Gen_TreeSet2 Gen_HashSet2 Gen_DataTable2 Gen_MemPool Gen_MemPoolData Gen_MergeToFacts.
From C14 Require Gen_TreeSet3 Gen_HashSet3 Gen_TableCrew Gen_DataTable3 Gen_HashMultiMap2 Gen_AssignShapes Gen_StdishDecisions.
From C14 Require Gen_PvAssignTable Gen_CtorCatch Gen_ArrayData.
From C14 Require Pack Gen_ValueCrew Gen_HashMap3 Gen_HashMultiMap3 Gen_ArrayDataIC.
Import ListNotations.
Local Open Scope Z_scope.

(* ---- (1) propagation -------------------------------------------------------------------------------------------- *)
(* For every stateful allocator type (all 8 POCCA/POCMA/POCS combinations, nothrow-move-assignable or not), every
   wrapper operation (copy/move assignment, swap, X(X&&,a), X(const X&,a), X(X&&), X(const X&)) and every pair of
   allocator identities (equal or unequal) for which the operation is defined by the standard: the allocator the target
   ends up with, the allocator the source ends up with, and whether the elements are transferred one by one, as
   decided by the stdish wrapper code, equal the std rule table. *)
Theorem C14_propagation_table :
  forall tr op s t, is_empty tr = false -> std_defined tr op s t = true ->
    code_target_alloc tr op s t = std_target_alloc tr op s t /\
    code_source_alloc tr op s t = std_source_alloc tr op s t /\
    code_elementwise tr op s t = std_elementwise tr op s t.
Proof. exact propagation_table_stateful. Qed.
Print Assumptions C14_propagation_table.

(* empty allocator types (std::allocator): nothing is ever transferred element-wise and swap's assertion holds *)
Theorem C14_propagation_table_empty_allocator :
  forall tr op s t, is_empty tr = true ->
    code_elementwise tr op s t = false /\ w_swap_assert_holds tr s t = true.
Proof. exact propagation_table_empty. Qed.
Print Assumptions C14_propagation_table_empty_allocator.

(* MemManagerProxy::Assign over MemManagerStd<A>: whichever of the three pvAssign overloads (move / copy / swap) or
   the destroy-and-reconstruct fallback is selected, the destination manager ends up with the source's identity
   (this is what Array::Data::operator= and hence stdish::vector rely on). *)
Theorem C14_manager_assign_takes_source :
  forall tr src dst, is_empty tr = false -> snd (proxy_assign tr false src dst) = src.
Proof. exact proxy_assign_dst. Qed.
Print Assumptions C14_manager_assign_takes_source.

(* stdish move assignment on two live wrappers (set/map/unordered_set/unordered_map/unordered_multimap), any traits,
   any contents: it succeeds (every deallocation goes through the manager that allocated the block), the target has
   exactly the source's former elements, the source is empty, the target's allocator is the one in the table; on the
   steal path the target IS the former source object graph and the source is MovedFrom; on the element-wise path the
   source keeps its own allocator; and no event outside {alloc, dealloc, move, destroy, multimap key copy} occurs. *)
Theorem C14_stdish_move_assign :
  forall wk tr dcr dbody ditems scr sbody sitems w,
    cc_wf (Owned dcr dbody ditems) -> cc_wf (Owned scr sbody sitems) ->
    exists d s' w', w_move_assign wk tr (Owned dcr dbody ditems) (Owned scr sbody sitems) w = Ok (d, s') w' /\
      is_owned d /\ cc_wf d /\ cc_wf s' /\
      items_of d = sitems /\ items_of s' = [] /\
      (is_empty tr = false -> mgr_of d = Some (code_target_alloc tr OpMoveAssign (cmgr scr) (cmgr dcr))) /\
      (code_elementwise tr OpMoveAssign (cmgr scr) (cmgr dcr) = false -> d = Owned scr sbody sitems /\ s' = MovedFrom) /\
      (code_elementwise tr OpMoveAssign (cmgr scr) (cmgr dcr) = true -> mgr_of s' = Some (cmgr scr)) /\
      (forall P, move_class P -> keycopy_ok wk P -> extends P w w').
Proof. exact w_move_assign_spec. Qed.
Print Assumptions C14_stdish_move_assign.

(* X(X&&, alloc) / pvCreateMap / pvCreateSet / pvCreateMultiMap *)
Theorem C14_stdish_move_construct_with_allocator :
  forall wk tr scr sbody sitems al w,
    cc_wf (Owned scr sbody sitems) ->
    exists n s' w', w_create wk tr (Owned scr sbody sitems) al w = Ok (n, s') w' /\
      is_owned n /\ cc_wf n /\ cc_wf s' /\ items_of n = sitems /\ items_of s' = [] /\
      (w_steal tr (cmgr scr) al = true -> n = Owned scr sbody sitems /\ s' = MovedFrom /\ w' = w) /\
      (w_steal tr (cmgr scr) al = false -> mgr_of n = Some al /\ mgr_of s' = Some (cmgr scr)) /\
      (forall P, move_class P -> keycopy_ok wk P -> extends P w w').
Proof. exact w_create_spec. Qed.
Print Assumptions C14_stdish_move_construct_with_allocator.

(* stdish copy assignment: target allocator per the table, equal contents, and every block of the new contents is
   freshly allocated (id >= the world's counter before the call: shares nothing with any existing container). *)
Theorem C14_stdish_copy_assign :
  forall wk tr dcr dbody ditems scr sbody sitems w,
    cc_wf (Owned dcr dbody ditems) -> cc_wf (Owned scr sbody sitems) ->
    exists d w', w_copy_assign wk tr (Owned dcr dbody ditems) (Owned scr sbody sitems) w = Ok d w' /\
      is_owned d /\ cc_wf d /\ items_of d = sitems /\
      (is_empty tr = false -> mgr_of d = Some (code_target_alloc tr OpCopyAssign (cmgr scr) (cmgr dcr))) /\
      Forall (fun b => next w <= fst b) (blocks_of d).
Proof. exact w_copy_assign_spec. Qed.
Print Assumptions C14_stdish_copy_assign.

(* stdish::vector move assignment (Array::Data::operator= + MemManagerProxy::Assign + pvCreateArray) *)
Theorem C14_vector_move_assign :
  forall tr ic dst src w,
    is_empty tr = false -> arr_wf dst -> arr_wf src ->
    exists d s' w', v_move_assign tr ic dst src w = Ok (d, s') w' /\
      amgr d = code_target_alloc tr OpMoveAssign (amgr src) (amgr dst) /\
      aitems d = aitems src /\ aitems s' = [] /\ arr_wf d /\ arr_wf s' /\
      (code_elementwise tr OpMoveAssign (amgr src) (amgr dst) = false -> ablock d = ablock src) /\
      (forall P, move_class P -> extends P w w').
Proof. exact v_move_assign_spec. Qed.
Print Assumptions C14_vector_move_assign.

(* ---- (2) the moved-from state -------------------------------------------------------------------------------------- *)
(* native HashSet/HashMap, TreeSet/TreeMap (Clear as of fix a0dc6a6), HashMultiMap: in the MovedFrom state destroy,
   Clear, Swap (either side), self move assignment and move assignment never touch the crew; copy assignment from a
   live container yields a live, well-formed container with the source's contents and manager on which insertion
   works again. *)
Theorem C14_moved_from_ops_total_native :
  forall k w,
    cc_destroy k MovedFrom w = Ok tt w /\
    cc_clear k MovedFrom w = Ok MovedFrom w /\
    (forall c, cc_swap MovedFrom c = (c, MovedFrom) /\ cc_swap c MovedFrom = (MovedFrom, c)) /\
    cc_self_move_assign k MovedFrom w = Ok MovedFrom w /\
    (forall src, cc_move_assign k MovedFrom src w = Ok (src, MovedFrom) w) /\
    (forall src, is_owned src -> cc_wf src ->
       exists c' w', cc_copy_assign k MovedFrom src w = Ok c' w' /\ is_owned c' /\ cc_wf c' /\
                     items_of c' = items_of src /\ mgr_of c' = mgr_of src /\
                     forall multi v w2, exists c2 w3, cc_insert k multi c' v w2 = Ok c2 w3 /\ is_owned c2 /\ mgr_of c2 = mgr_of src).
Proof. exact moved_from_ops_total_native. Qed.
Print Assumptions C14_moved_from_ops_total_native.

(* stdish wrappers, full strength, with the two KNOWN FINDINGS as explicit hypotheses:
     not_D12 tr  :=  POCS = true                      (else swap's assertion evaluates get_allocator())
     not_D13 tr  :=  (is_empty || POCMA) /\ (is_empty || POCCA)   (else operator= needs this->get_allocator()) *)
Theorem C14_moved_from_ops_total_stdish :
  forall wk tr w fcr fbody fitems,
    cc_wf (Owned fcr fbody fitems) -> not_D12 tr -> not_D13 tr ->
    let f := Owned fcr fbody fitems in
    cc_destroy (nested wk) MovedFrom w = Ok tt w /\
    cc_clear (nested wk) MovedFrom w = Ok MovedFrom w /\
    w_swap tr MovedFrom f w = Ok (f, MovedFrom) w /\
    w_swap tr f MovedFrom w = Ok (MovedFrom, f) w /\
    w_swap tr MovedFrom MovedFrom w = Ok (MovedFrom, MovedFrom) w /\
    w_move_assign wk tr MovedFrom f w = Ok (f, MovedFrom) w /\
    (exists c' w', w_copy_assign wk tr MovedFrom f w = Ok c' w' /\ is_owned c' /\ cc_wf c' /\
                   items_of c' = fitems /\ mgr_of c' = Some (cmgr fcr) /\
                   forall multi v w2, exists c2 w3, cc_insert (nested wk) multi c' v w2 = Ok c2 w3 /\ is_owned c2).
Proof. exact moved_from_ops_total_stdish. Qed.
Print Assumptions C14_moved_from_ops_total_stdish.

(* the excluded situations really fail in the model -- for EVERY allocator type outside the hypotheses *)
Theorem C14_D12_refuted :
  forall tr c w, pocs tr = false ->
    w_swap tr MovedFrom c w = NullCrew /\ (is_owned c -> w_swap tr c MovedFrom w = NullCrew).
Proof. exact D12_refuted. Qed.
Print Assumptions C14_D12_refuted.

Theorem C14_D13_refuted :
  forall wk tr c w,
    (w_propagate_move tr = false -> w_move_assign wk tr MovedFrom c w = NullCrew) /\
    (w_propagate_copy tr = false -> w_copy_assign wk tr MovedFrom c w = NullCrew).
Proof. exact D13_refuted. Qed.
Print Assumptions C14_D13_refuted.

(* vm_compute witnesses: std::allocator (POCS = false) for D12, kit::StdAlloc<.,false,false,false> for D13; and the
   hypotheses of the full-strength theorem are satisfiable *)
Theorem C14_D12_witness : w_swap (mkTraits false true false true true) MovedFrom some_set w0 = NullCrew.
Proof. exact D12_witness_std_allocator. Qed.
Print Assumptions C14_D12_witness.
Theorem C14_D13_witness : w_move_assign WUMap (mkTraits false false false true false) MovedFrom some_set w0 = NullCrew.
Proof. exact D13_witness_stateful_nonpropagating. Qed.
Print Assumptions C14_D13_witness.
Theorem C14_hypotheses_satisfiable :
  not_D12 (mkTraits true true true true false) /\ not_D13 (mkTraits true true true true false) /\ cc_wf some_set.
Proof. exact not_D12_D13_witness. Qed.
Print Assumptions C14_hypotheses_satisfiable.

(* ---- (3) moves --------------------------------------------------------------------------------------------------- *)
(* native move construction / move assignment: the target is exactly the former source object graph, the source is
   MovedFrom, nothing is copied and no element is even moved; the old target is released through its own manager. *)
(* the FIRST conjunct is definitional (cc_move_ctor src := (src, MovedFrom), Model.v; content: C14_cc_move_ctor_refines_generated
   + the direct run + the tie); the second (move assignment: events, old target released through its own manager) is not. *)
Theorem C14_move_leaves_source_empty_native :
  (forall src, cc_move_ctor src = (src, MovedFrom)) /\
  (forall k dst src w, cc_wf dst ->
     exists w', cc_move_assign k dst src w = Ok (src, MovedFrom) w' /\ extends no_copy w w' /\
                extends (fun e => negb (ev_move e)) w w').
Proof. exact move_leaves_source_empty_native. Qed.
Print Assumptions C14_move_leaves_source_empty_native.

(* stdish move assignment never copy-constructs an element; only unordered_multimap may copy (const) keys *)
Theorem C14_move_no_copy_stdish :
  forall wk tr dcr dbody ditems scr sbody sitems w,
    cc_wf (Owned dcr dbody ditems) -> cc_wf (Owned scr sbody sitems) ->
    exists d s' w', w_move_assign wk tr (Owned dcr dbody ditems) (Owned scr sbody sitems) w = Ok (d, s') w' /\
      extends no_elem_copy w w' /\ (wk <> WUMulti -> extends no_copy w w').
Proof. exact move_no_copy_stdish. Qed.
Print Assumptions C14_move_no_copy_stdish.

(* the element-wise path moves the elements (at least one EMove when the source is not empty) *)
Theorem C14_elementwise_moves :
  forall k dcr scr sbody sitems w,
    cc_wf (Owned dcr [] []) -> cc_wf (Owned scr sbody sitems) -> sitems <> [] ->
    exists n s' w', cc_merge_from k (Owned dcr [] []) (Owned scr sbody sitems) w = Ok (n, s') w' /\
      exists d, trace w' = d ++ trace w /\ existsb ev_move d = true.
Proof. exact elementwise_moves. Qed.
Print Assumptions C14_elementwise_moves.

(* Array / ArrayIntCap / vector storage: move construction and move assignment transfer storage and manager, leave
   the source empty without storage (immediately reusable), release the old storage through the OLD manager and
   copy nothing (items in the internal buffer are relocated by moves). *)
Theorem C14_array_move_assign :
  forall assign dst src w,
    assign_takes_source assign -> arr_wf dst -> arr_wf src ->
    exists d s' w', arr_move_assign assign dst src w = Ok (d, s') w' /\
      amgr d = amgr src /\ aitems d = aitems src /\ ablock d = ablock src /\ arr_wf d /\
      aitems s' = [] /\ ablock s' = None /\ arr_wf s' /\
      (forall P, move_class P -> extends P w w').
Proof. exact arr_move_assign_spec. Qed.
Print Assumptions C14_array_move_assign.

Theorem C14_array_reusable_after_move :
  forall ic a v w,
    exists a' w', arr_insert ic a v w = (a', w') /\ aitems a' = aitems a ++ [v] /\ amgr a' = amgr a /\
      extends (fun e => allocs_through (amgr a) e || ev_move e || negb (ev_copy e) && negb (ev_mem e)) w w'.
Proof. exact arr_reusable. Qed.
Print Assumptions C14_array_reusable_after_move.

(* ---- (4) swap, self assignment ----------------------------------------------------------------------------------- *)
(* DEFINITIONAL: cc_swap is defined as (b, a) in Model.v -- this restates the model; the content is in the refinement to the
   generated Swap (C14_cc_swap_refines_generated), the direct run of the generated Swap against the real objects (stage
   corr:generated-vs-code) and the tie of the model against the real containers. *)
Theorem C14_swap_exact_native : forall a b, cc_swap a b = (b, a).
Proof. exact swap_exact_native. Qed.
Print Assumptions C14_swap_exact_native.

(* stdish swap of two live wrappers under the std precondition: exact exchange (contents, crews, allocators) and no
   event whatsoever *)
Theorem C14_swap_exact_stdish :
  forall tr a b w x y,
    mgr_of a = Some x -> mgr_of b = Some y -> w_swap_assert_holds tr x y = true ->
    w_swap tr a b w = Ok (b, a) w.
Proof. exact w_swap_exact. Qed.
Print Assumptions C14_swap_exact_stdish.

(* Array::Swap (three Data moves through MemManagerProxy::Assign): storage, contents and managers exchanged exactly,
   nothing copied *)
Theorem C14_swap_exact_array :
  forall assign a b w,
    assign_takes_source assign -> arr_wf a -> arr_wf b ->
    exists a' b' w', arr_swap assign a b w = Ok (a', b') w' /\
      amgr a' = amgr b /\ aitems a' = aitems b /\ ablock a' = ablock b /\
      amgr b' = amgr a /\ aitems b' = aitems a /\ ablock b' = ablock a /\ arr_wf a' /\ arr_wf b' /\
      (forall P, move_class P -> extends P w w').
Proof. exact arr_swap_exact. Qed.
Print Assumptions C14_swap_exact_array.

(* x = std::move(x) (HashSet/TreeSet/HashMultiMap idiom X(std::move(x)).Swap(x)) is the identity in every state,
   including MovedFrom, with no event *)
(* follows by unfolding cc_self_move_assign (definitional for the model); the real containers are checked by the tie *)
Theorem C14_self_assign_identity : forall k c w, cc_self_move_assign k c w = Ok c w.
Proof. exact self_move_assign_identity. Qed.
Print Assumptions C14_self_assign_identity.

(* ---- (5) copies --------------------------------------------------------------------------------------------------- *)
(* X(const X&, MemManager): equal contents, the requested manager, and no block id is reachable from both; destroying
   the copy deallocates none of the source's blocks. *)
Theorem C14_copy_independent :
  forall k cr body items m w,
    below w (blocks_of (Owned cr body items)) ->
    exists c' w', cc_copy_ctor_mm k (Owned cr body items) m w = Ok c' w' /\
      items_of c' = items /\ mgr_of c' = Some m /\ is_owned c' /\ cc_wf c' /\
      (forall b b0, In b (blocks_of c') -> In b0 (blocks_of (Owned cr body items)) -> fst b <> fst b0) /\
      (forall w2, exists w3, cc_destroy k c' w2 = Ok tt w3 /\
         exists d, trace w3 = d ++ trace w2 /\
           forall mg id, In (EDealloc mg id) d -> ~ In id (map fst (blocks_of (Owned cr body items)))).
Proof. exact copy_independent. Qed.
Print Assumptions C14_copy_independent.

(* Array(const Array&, MemManager) / vector(const vector&, alloc): equal contents, requested manager, storage of the
   copy is a fresh block (never the source's), only allocation and copy events *)
Theorem C14_copy_independent_array :
  forall ic src m w,
    (match ablock src with Some b => fst b < next w | None => True end) ->
    exists c w', arr_copy_ctor_mm ic src m w = (c, w') /\ aitems c = aitems src /\ amgr c = m /\ arr_wf c /\
      (forall b b0, ablock c = Some b -> ablock src = Some b0 -> fst b <> fst b0) /\
      (forall P, (forall x y, P (EAlloc x y) = true) -> (forall v, P (ECopy v) = true) -> extends P w w').
Proof. exact arr_copy_independent. Qed.
Print Assumptions C14_copy_independent_array.

(* non-vacuity of the manager check: a deallocation through another manager IS an error in the model *)
Theorem C14_wrong_manager_detected : forall m m' id w, m <> m' -> dealloc m (id, m') w = WrongMgr.
Proof. exact dealloc_wrong_manager. Qed.
Print Assumptions C14_wrong_manager_detected.

(* ---- (6) the boundary of the claim about moved-from objects (round 2) --------------------------------------------- *)
(* GUARANTEED: C14_moved_from_ops_total_native / _stdish above -- destroy, clear, swap, assignment INTO, usable again.
   NOT guaranteed (and really failing, for every allocator type, every kind): using a moved-from container as the
   SOURCE of a stdish move / copy assignment or of X(X&&, alloc), copy-constructing from it, initializer-list
   assignment into it, insertion, lookup -- each dereferences the null crew. *)
Theorem C14_moved_from_not_a_source :
  forall wk tr k multi c v vs al w,
    w_move_assign wk tr c MovedFrom w = NullCrew /\
    w_copy_assign wk tr c MovedFrom w = NullCrew /\
    w_create wk tr MovedFrom al w = NullCrew /\
    cc_copy_ctor k MovedFrom w = NullCrew /\
    cc_copy_ctor_mm k MovedFrom al w = NullCrew /\
    cc_copy_assign k c MovedFrom w = NullCrew /\
    w_assign_ilist wk multi MovedFrom vs w = NullCrew /\
    cc_insert k multi MovedFrom v w = NullCrew /\
    cc_find MovedFrom v w = NullCrew.
Proof. exact moved_from_not_a_source. Qed.
Print Assumptions C14_moved_from_not_a_source.

(* native containers may even be moved FROM again (the crews are just exchanged) *)
Theorem C14_moved_from_native_move_source :
  forall k dst w, cc_wf dst -> exists w', cc_move_assign k dst MovedFrom w = Ok (MovedFrom, MovedFrom) w'.
Proof. exact moved_from_native_move_source. Qed.
Print Assumptions C14_moved_from_native_move_source.

(* vm_compute witnesses, std::allocator-like traits: what is not guaranteed fails, what is guaranteed works *)
Theorem C14_moved_from_boundary_witnesses :
  w_move_assign WSet std_alloc_traits some_set MovedFrom w0 = NullCrew /\
  cc_copy_ctor KTree MovedFrom w0 = NullCrew /\
  w_assign_ilist WSet false MovedFrom [1; 2] w0 = NullCrew /\
  cc_insert KTree false MovedFrom 5 w0 = NullCrew /\
  cc_find MovedFrom 5 w0 = NullCrew /\
  w_move_assign WSet std_alloc_traits MovedFrom some_set w0 = Ok (some_set, MovedFrom) w0 /\
  (exists c w, w_assign_ilist WSet false some_set [1; 2] w0 = Ok c w /\ items_of c = [1; 2]).
Proof. exact boundary_witnesses. Qed.
Print Assumptions C14_moved_from_boundary_witnesses.

(* ---- (7) structured bodies: the unusual states as model states (round 2) -------------------------------------------- *)
(* Copy is DEEP for every kind of body: chain of bucket arrays (any number of generations), tree with node params and
   nodes of any depth, multimap with value arrays and value-less keys, DataTable with rows and a freeRaws list.  Every
   bucket array / node / node-params block / value array / raw / crew block of the copy is allocated by this call
   through the requested manager; no block is shared with the source; the items are the same; a hash table is rebuilt
   as at most one generation; a tree keeps its exact shape; every key (value-less ones included) is copied; the node
   pools of the copy point to the copy's own crew. *)
Theorem C14_copy_is_deep_structured :
  forall k cr b m w,
    Forall (fun x => fst x < next w) (s_blocks (SOwned cr b)) ->
    exists cr' b' w',
      s_copy k (SOwned cr b) m w = Ok (SOwned cr' b') w' /\
      cmgr cr' = m /\ sb_items b' = sb_items b /\
      fresh_for m (next w) (next w') (s_blocks (SOwned cr' b')) /\
      (forall x y, In x (s_blocks (SOwned cr' b')) -> In y (s_blocks (SOwned cr b)) -> fst x <> fst y) /\
      (length (gen_counts b') <= 1)%nat /\
      (sb_items b <> [] -> tree_shape b' = tree_shape b) /\
      key_shape b' = key_shape b /\ valueless b' = valueless b /\
      pools_okb (SOwned cr' b') = true /\
      items_of (abs (SOwned cr' b')) = items_of (abs (SOwned cr b)).
Proof. exact s_copy_deep. Qed.
Print Assumptions C14_copy_is_deep_structured.

(* Move steals the whole graph (generations, nodes, pools, value arrays, rows, freeRaws) and agrees with the abstract
   model; swap exchanges the crews together with everything that points into them. *)
(* the first conjunct restates the definition of s_move_ctor (Bodies.v); the others (agreement with the abstract model, pools,
   generation counts, shapes) follow from it *)
Theorem C14_move_steals_graph :
  forall src,
    s_move_ctor src = (src, SMovedFrom) /\
    (abs (fst (s_move_ctor src)), abs (snd (s_move_ctor src))) = cc_move_ctor (abs src) /\
    pools_okb (fst (s_move_ctor src)) = pools_okb src /\
    gen_counts (s_body (fst (s_move_ctor src))) = gen_counts (s_body src) /\
    tree_shape (s_body (fst (s_move_ctor src))) = tree_shape (s_body src) /\
    key_shape (s_body (fst (s_move_ctor src))) = key_shape (s_body src).
Proof. exact s_move_steals_graph. Qed.
Print Assumptions C14_move_steals_graph.

(* the first conjunct restates the definition of s_swap (Bodies.v) *)
Theorem C14_swap_exchanges_crews_with_pools :
  forall a b,
    s_swap a b = (b, a) /\
    (abs (fst (s_swap a b)), abs (snd (s_swap a b))) = cc_swap (abs a) (abs b) /\
    (pools_okb a = true -> pools_okb b = true ->
     pools_okb (fst (s_swap a b)) = true /\ pools_okb (snd (s_swap a b)) = true).
Proof. exact s_swap_exact. Qed.
Print Assumptions C14_swap_exchanges_crews_with_pools.

(* c7fda03: TreeSet::MergeTo into an empty set with an equal manager (= Swap) keeps every node pool with the crew that
   holds its manager; exchanging only root and node params (the earlier code) does not, whenever the crews differ. *)
Theorem C14_merge_to_empty_keeps_pools :
  forall src dst,
    pools_okb src = true -> pools_okb dst = true ->
    pools_okb (fst (s_merge_to_empty src dst)) = true /\ pools_okb (snd (s_merge_to_empty src dst)) = true /\
    s_items (snd (s_merge_to_empty src dst)) = s_items src /\ s_items (fst (s_merge_to_empty src dst)) = s_items dst.
Proof. exact merge_to_empty_keeps_pools. Qed.
Print Assumptions C14_merge_to_empty_keeps_pools.

Theorem C14_merge_to_empty_old_refuted :
  forall scr pb ns dcr db,
    crew_id scr <> crew_id dcr ->
    pools_okb (SOwned scr (STree (Some (pb, crew_id scr)) ns)) = true /\
    pools_okb (snd (s_merge_to_empty_old (SOwned scr (STree (Some (pb, crew_id scr)) ns)) (SOwned dcr db))) = false.
Proof. exact merge_to_empty_old_refuted. Qed.
Print Assumptions C14_merge_to_empty_old_refuted.

(* destroying a structured container returns every block of its graph through its own manager *)
Theorem C14_destroy_structured :
  forall cr b w, wf_blocks (cmgr cr) (s_blocks (SOwned cr b)) -> exists w', s_destroy (SOwned cr b) w = Ok tt w'.
Proof. exact s_destroy_ok. Qed.
Print Assumptions C14_destroy_structured.

(* ---- (8) DataTable (round 2; defects found by this check, fixed as c9f565a and fc18ee9) ---------------------------- *)
(* DataTable::Swap (hence both assignments): each table's raw pool keeps using the manager stored in the crew the table
   holds ... *)
Theorem C14_table_swap_keeps_pool :
  forall a b, tbl_ok a = true -> tbl_ok b = true ->
    tbl_ok (fst (tbl_swap a b)) = true /\ tbl_ok (snd (tbl_swap a b)) = true.
Proof. exact table_swap_keeps_pool. Qed.
Print Assumptions C14_table_swap_keeps_pool.

(* ... which the pre-fc18ee9 MemPool::Data::Swap (no exchange for managers that compare equal) violated for any two
   tables with different crews: both pools end up on the OTHER table's crew *)
Theorem C14_table_swap_old_refuted :
  forall ca cb, ca <> cb ->
    tbl_ok (ca, ca) = true /\ tbl_ok (cb, cb) = true /\
    tbl_ok (fst (tbl_swap_old true (ca, ca) (cb, cb))) = false /\
    tbl_ok (snd (tbl_swap_old true (ca, ca) (cb, cb))) = false.
Proof. exact table_swap_old_refuted. Qed.
Print Assumptions C14_table_swap_old_refuted.

(* DataTable::Clear on a moved-from table: a no-op now (c9f565a), a null-crew dereference before *)
Theorem C14_table_clear_moved_from :
  forall w, cc_clear KTable MovedFrom w = Ok MovedFrom w /\ cc_clear_table_old MovedFrom w = NullCrew.
Proof. exact table_clear_moved_from. Qed.
Print Assumptions C14_table_clear_moved_from.

(* ---- (9) round 3: element-wise structure, merges into non-empty sets, DataTable indexes -------------------------------- *)
(* The target of an element-wise move (unequal non-propagating allocators) is a FRESH structure built by inserting the
   source's items in traversal order: same items, every block allocated by this operation through the TARGET's manager,
   at most one bucket array, no value-less key, and for a tree exactly the given fresh shape (which the tie takes from
   an independently built real tree: ascending insertion of the same items). *)
Theorem C14_elementwise_target_structure :
  forall m cid sh b w b' w',
    (forall p nodes, b = STree p nodes -> shape_total sh = length (flat_map nitems nodes)) ->
    s_elementwise_body m cid sh b w = (b', w') ->
    sb_items b' = sb_items b /\
    fresh_for m (next w) (next w') (sb_blocks b') /\
    (length (gen_counts b') <= 1)%nat /\
    valueless b' = O /\
    (forall p nodes, b = STree p nodes -> sb_items b <> [] -> tree_shape b' = sh) /\
    (forall pb cref ns, b' = STree (Some (pb, cref)) ns -> cref = cid).
Proof. exact s_elementwise_spec. Qed.
Print Assumptions C14_elementwise_target_structure.

(* TreeSet::MergeTo into a non-empty set with an EQUAL manager (fast path: trees joined, NodeParams::MergeFrom relinks the
   source's pool buffers into the target's pools -- the list surgery itself is property C09): afterwards every buffer
   belongs to exactly one NodeParams, the target's; every node of the joined tree lives in a buffer the target owns and
   can be returned through the target's manager; the source owns no buffer and no node, so it may be destroyed before or
   after the target. *)
Theorem C14_merge_fast_pool_ownership :
  forall dst src,
    cmgr (m_crew src) = cmgr (m_crew dst) ->
    wf_blocks (cmgr (m_crew dst)) (m_bufs dst) -> wf_blocks (cmgr (m_crew src)) (m_bufs src) ->
    nodes_in_own_bufs dst = true -> nodes_in_own_bufs src = true ->
    NoDup (map fst (m_bufs dst ++ m_bufs src)) ->
    let (dst', src') := merge_fast dst src in
    nodes_in_own_bufs dst' = true /\
    m_bufs src' = [] /\ m_nodes src' = [] /\
    m_bufs dst' ++ m_bufs src' = m_bufs dst ++ m_bufs src /\
    NoDup (map fst (m_bufs dst')) /\
    wf_blocks (cmgr (m_crew dst')) (m_bufs dst') /\
    m_items dst' = m_items dst ++ m_items src /\
    m_crew dst' = m_crew dst /\ m_crew src' = m_crew src.
Proof. exact merge_fast_ownership. Qed.
Print Assumptions C14_merge_fast_pool_ownership.

(* why the code tests IsEqual before taking the fast path *)
Theorem C14_merge_fast_needs_equal_managers :
  forall dst src b,
    cmgr (m_crew src) <> cmgr (m_crew dst) -> In b (m_bufs src) -> snd b = cmgr (m_crew src) ->
    ~ wf_blocks (cmgr (m_crew dst)) (m_bufs (fst (merge_fast dst src))).
Proof. exact merge_fast_needs_equal_managers. Qed.
Print Assumptions C14_merge_fast_needs_equal_managers.

(* MergeTo with UNEQUAL managers (element-wise): the target allocates through its own manager, the source keeps its
   buffers for its own manager, items are moved and never copied *)
Theorem C14_merge_elementwise_ownership :
  forall dst src w,
    nodes_in_own_bufs dst = true ->
    wf_blocks (cmgr (m_crew dst)) (m_bufs dst) ->
    let '(dst', src', w') := merge_elementwise dst src w in
    nodes_in_own_bufs dst' = true /\ wf_blocks (cmgr (m_crew dst')) (m_bufs dst') /\
    m_bufs src' = m_bufs src /\ m_items src' = [] /\ m_items dst' = m_items dst ++ m_items src /\
    (forall P, move_class P -> extends P w w').
Proof. exact merge_elementwise_ownership. Qed.
Print Assumptions C14_merge_elementwise_ownership.

(* DataTable with indexes: a copy re-creates every index with the same kind (unique / multi), one entry per copied row,
   storage fresh through the copy's manager (nothing of the source's index storage is shared) *)
Theorem C14_table_copy_rebuilds_indexes :
  forall m cid t w t' w',
    s_copy_table m cid t w = (t', w') ->
    sb_items (t_body t') = sb_items (t_body t) /\
    map fst (idx_shape t') = map fst (idx_shape t) /\
    Forall (fun p => snd p = table_rows (t_body t)) (idx_shape t') /\
    fresh_for m (next w) (next w') (sb_blocks (t_body t') ++ idx_blocks t').
Proof. exact s_copy_table_spec. Qed.
Print Assumptions C14_table_copy_rebuilds_indexes.

(* ---- (10) round 4: the crew holds (traits, manager, version); pointer crew and inline crew ------------------------------ *)
(* SetCrew::Swap exchanges the container traits in BOTH representations: the pointer crew exchanges the Data pointers
   (traits, manager and version travel together), the inline crew (empty manager type, no versions) exchanges the traits
   objects themselves. *)
Theorem C14_swap_exchanges_traits :
  (forall a b, pcrew_swap a b = (b, a)) /\
  (forall ba da bb db, let (a', b') := pcrew_swap (PData ba da) (PData bb db) in
     pcrew_traits a' = Some (cd_traits db) /\ pcrew_traits b' = Some (cd_traits da) /\
     a' = PData bb db /\ b' = PData ba da) /\
  (forall a b, let (a', b') := icrew_swap a b in ic_traits a' = ic_traits b /\ ic_traits b' = ic_traits a).
Proof. exact swap_exchanges_traits. Qed.
Print Assumptions C14_swap_exchanges_traits.

(* inline-crew sets (HashSet / TreeSet with checkVersion = false and a stateless manager): after move assignment, copy
   assignment and swap the target holds the SOURCE's traits and items and finds every one of its keys *)
Theorem C14_inline_assign_takes_source_traits :
  forall rebuild dst src, coherent src = true ->
    ic_traits (is_crew (fst (iset_move_assign dst src))) = ic_traits (is_crew src) /\
    is_items (fst (iset_move_assign dst src)) = is_items src /\
    ic_traits (is_crew (iset_copy_assign rebuild dst src)) = ic_traits (is_crew src) /\
    is_items (iset_copy_assign rebuild dst src) = is_items src /\
    ic_traits (is_crew (fst (iset_swap dst src))) = ic_traits (is_crew src) /\
    (forall v, In v (is_items src) -> iset_find (fst (iset_move_assign dst src)) v = true /\
                                      iset_find (iset_copy_assign rebuild dst src) v = true /\
                                      iset_find (fst (iset_swap dst src)) v = true).
Proof. exact inline_assign_takes_source_traits. Qed.
Print Assumptions C14_inline_assign_takes_source_traits.

Theorem C14_inline_ops_keep_coherence :
  forall rebuild a b, coherent a = true -> coherent b = true ->
    coherent (fst (iset_move_ctor a)) = true /\ coherent (snd (iset_move_ctor a)) = true /\
    coherent (fst (iset_swap a b)) = true /\ coherent (snd (iset_swap a b)) = true /\
    coherent (fst (iset_move_assign a b)) = true /\ coherent (snd (iset_move_assign a b)) = true /\
    coherent (iset_copy_assign rebuild a b) = true /\ coherent (iset_copy_ctor rebuild a) = true.
Proof. exact inline_ops_keep_coherence. Qed.
Print Assumptions C14_inline_ops_keep_coherence.

(* the second-wave seeded shape (`if (std::is_empty<MemManager>::value) return;` in the inline crew's Swap): the traits are
   never exchanged, so for any two sets with different traits swap / move assignment leave the target with the source's
   body under its own old traits: incoherent, its keys cannot be found *)
Theorem C14_inline_swap_seeded_refuted :
  forall dst src v, ic_traits (is_crew dst) <> ic_traits (is_crew src) -> coherent src = true -> In v (is_items src) ->
    let sw := icrew_swap_seeded true in
    ic_traits (is_crew (fst (iset_swap_with sw dst src))) = ic_traits (is_crew dst) /\
    coherent (fst (iset_swap_with sw dst src)) = false /\
    coherent (fst (iset_move_assign_with sw dst src)) = false /\
    iset_find (fst (iset_move_assign_with sw dst src)) v = false.
Proof. exact inline_swap_seeded_refuted. Qed.
Print Assumptions C14_inline_swap_seeded_refuted.

Theorem C14_inline_swap_seeded_witness :
  let a := mkIS (mkIC 1) 1 [3%nat] [10; 20; 30] in
  let b := mkIS (mkIC 2) 2 [2%nat] [40; 50] in
  iset_find (fst (iset_move_assign b a)) 20 = true /\ ic_traits (is_crew (fst (iset_move_assign b a))) = 1 /\
  iset_find (fst (iset_move_assign_with (icrew_swap_seeded true) b a)) 20 = false /\
  ic_traits (is_crew (fst (iset_move_assign_with (icrew_swap_seeded true) b a))) = 2 /\
  icrew_swap_seeded false (mkIC 1) (mkIC 2) = (mkIC 2, mkIC 1).
Proof. exact inline_swap_seeded_witness. Qed.
Print Assumptions C14_inline_swap_seeded_witness.

(* ---- (11) round 6: theorems about GENERATED code (cxx2coq, regenerated from /repo's headers on every run) ---------------- *)
(* The crew accessors the containers call begin with MOMO_ASSERT(!null) -- read off the clang AST -- and pvIsNull is the
   null test of the data pointer: this is the callee contract under which calls into the crew were translated. *)
Theorem C14_gen_crew_contract :
  (forall f, In f ptr_accessors_used -> In f Gen_CrewContract.SetCrewPtr_asserting) /\
  Gen_CrewContract.SetCrewPtr_plain = setcrew_plain_members /\
  (forall f, In f valuecrew_accessors_used -> In f Gen_CrewContract.ValueCrew_asserting) /\
  Gen_CrewContract.ValueCrew_plain = crew_plain_members /\
  (forall f, In f tablecrew_accessors_used -> In f Gen_CrewContract.Crew_asserting) /\
  Gen_CrewContract.Crew_plain = crew_plain_members /\
  Gen_CrewContract.SetCrewInline_asserting = [] /\
  (forall mData, Gen_SetCrew.pvIsNull mData = Z.eqb mData 0).
Proof. exact crew_contract. Qed.
Print Assumptions C14_gen_crew_contract.

(* FRAME on the generated TreeSet::Clear / TreeSet::pvDestroy() / HashSet::Clear(shrink) / HashMultiMap::Clear /
   DataTable::Clear: in the moved-from state (crew null, storage pointers null) each returns normally, for every value of
   the other fields and arguments, without reaching any crew access, and leaves the fields unchanged. *)
Theorem C14_gen_moved_from_frame :
  forall nb cnt cap shrink,
    Gen_TreeSet.Clear true cnt 0 0 = GenPrelude.Ok (tt, cnt, 0, 0) /\
    Gen_TreeSet.pvDestroy true cnt 0 0 = GenPrelude.Ok tt /\
    Gen_HashSet.Clear true nb cnt cap 0 shrink = GenPrelude.Ok (tt, cnt, cap, 0) /\
    Gen_HashMultiMap.Clear true cnt = GenPrelude.Ok (tt, cnt) /\
    Gen_DataTable.Clear true = GenPrelude.Ok tt.
Proof. exact gen_moved_from_frame. Qed.
Print Assumptions C14_gen_moved_from_frame.

(* generated TreeSet::Clear with a live crew: never stuck, root and node params end null, count 0 unless it returned
   early on an already storage-less tree; the destructor body never sticks either *)
Theorem C14_gen_tree_clear_owned :
  forall cnt root params,
    exists cnt', Gen_TreeSet.Clear false cnt root params = GenPrelude.Ok (tt, cnt', 0, 0) /\
                 (cnt' = 0 \/ (root = 0 /\ params = 0 /\ cnt' = cnt)) /\
    Gen_TreeSet.pvDestroy false cnt root params = GenPrelude.Ok tt.
Proof. exact gen_tree_clear_owned. Qed.
Print Assumptions C14_gen_tree_clear_owned.

(* generated HashSet::Clear(shrink) with a live crew *)
Theorem C14_gen_hash_clear_owned :
  forall nb cnt cap bk shrink,
    exists cnt' cap' bk', Gen_HashSet.Clear false nb cnt cap bk shrink = GenPrelude.Ok (tt, cnt', cap', bk') /\
      (bk = 0 -> cnt' = cnt /\ cap' = cap /\ bk' = 0) /\
      (bk <> 0 -> cnt' = 0 /\ (shrink = true -> cap' = 0 /\ bk' = 0) /\ (shrink = false -> cap' = cap /\ bk' = bk)).
Proof. exact gen_hash_clear_owned. Qed.
Print Assumptions C14_gen_hash_clear_owned.

(* non-vacuity of the obligations: with storage present the crew IS needed *)
Theorem C14_gen_needs_crew_when_owning :
  forall cnt root params, (root <> 0 \/ params <> 0) ->
    Gen_TreeSet.Clear true cnt root params = GenPrelude.Stuck /\ Gen_TreeSet.pvDestroy true cnt root params = GenPrelude.Stuck.
Proof. exact gen_tree_needs_crew_when_owning. Qed.
Print Assumptions C14_gen_needs_crew_when_owning.

Theorem C14_gen_hash_needs_crew_when_owning :
  forall nb cnt cap bk shrink, bk <> 0 -> Gen_HashSet.Clear true nb cnt cap bk shrink = GenPrelude.Stuck.
Proof. exact gen_hash_needs_crew_when_owning. Qed.
Print Assumptions C14_gen_hash_needs_crew_when_owning.

Theorem C14_gen_multi_table_clear :
  (forall cnt, Gen_HashMultiMap.Clear true cnt = GenPrelude.Ok (tt, cnt) /\ Gen_HashMultiMap.Clear false cnt = GenPrelude.Ok (tt, 0)) /\
  (Gen_DataTable.Clear true = GenPrelude.Ok tt /\ Gen_DataTable.Clear false = GenPrelude.Ok tt).
Proof. exact gen_multi_table_clear. Qed.
Print Assumptions C14_gen_multi_table_clear.

(* REFINEMENT: the hand model's cc_clear (Model.v) succeeds exactly when the generated Clear of the same kind does not get
   stuck on the abstracted fields (crew null <-> MovedFrom, storage pointer null <-> no body block), and leaves no items *)
Theorem C14_clear_refines_generated :
  forall c w, cc_wf c ->
    is_ok (cc_clear KTree c w) = gen_ok (Gen_TreeSet.Clear (crew_null_of c) (count_of c) (storage_of c) (storage_of c)) /\
    is_ok (cc_clear KHash c w) = gen_ok (Gen_HashSet.Clear (crew_null_of c) 0 (count_of c) (count_of c) (storage_of c) true) /\
    is_ok (cc_clear KMulti c w) = gen_ok (Gen_HashMultiMap.Clear (crew_null_of c) (count_of c)) /\
    is_ok (cc_clear KTable c w) = gen_ok (Gen_DataTable.Clear (crew_null_of c)) /\
    (forall k c' w', cc_clear k c w = Ok c' w' -> items_of c' = []).
Proof. exact clear_refines_generated. Qed.
Print Assumptions C14_clear_refines_generated.

(* ---- (12) round 7: the GENERATED two-object functions (the second object's fields are extra parameters) -------------------- *)
(* SetCrew<...,true>::Swap exchanges the data pointers; SetCrew(SetCrew&&) takes the source's pointer and leaves the source
   null, whatever the new object's storage held *)
Theorem C14_gen_ptr_crew_swap_move :
  (forall a b, Gen_SetCrew2.Swap a b = (b, a)) /\
  (forall junk src, Gen_SetCrew2.MoveCtor junk src = (src, 0)) /\
  (forall junk src, Gen_SetCrew.pvIsNull (snd (Gen_SetCrew2.MoveCtor junk src)) = true).
Proof. exact gen_ptr_crew_swap_move. Qed.
Print Assumptions C14_gen_ptr_crew_swap_move.

(* SetCrew<...,false>::Swap exchanges the traits objects (the second-wave seed put an early return in front of it) *)
Theorem C14_gen_inline_crew_swap : forall t1 t2, Gen_SetCrewInl.Swap t1 t2 = (t2, t1).
Proof. exact gen_inline_crew_swap. Qed.
Print Assumptions C14_gen_inline_crew_swap.

(* the hand-written crew model (Crew.v) refines the generated functions *)
Theorem C14_crew_model_refines_generated :
  (forall a b, (ptr_of (fst (pcrew_swap a b)), ptr_of (snd (pcrew_swap a b))) = Gen_SetCrew2.Swap (ptr_of a) (ptr_of b)) /\
  (forall junk s, (ptr_of (fst (pcrew_move_ctor s)), ptr_of (snd (pcrew_move_ctor s))) = Gen_SetCrew2.MoveCtor junk (ptr_of s)) /\
  (forall a b, (ic_traits (fst (icrew_swap a b)), ic_traits (snd (icrew_swap a b))) = Gen_SetCrewInl.Swap (ic_traits a) (ic_traits b)).
Proof. exact crew_model_refines_generated. Qed.
Print Assumptions C14_crew_model_refines_generated.

(* TreeSet::Swap, HashSet::Swap, DataTable::Swap: every field of each object is the other's old one -- crew included, no field
   left behind *)
Theorem C14_gen_container_swaps :
  (forall c n r p c' n' r' p', Gen_TreeSet2.Swap c n r p c' n' r' p' = (c', n', r', p', c, n, r, p)) /\
  (forall c n k b c' n' k' b', Gen_HashSet2.Swap c n k b c' n' k' b' = (c', n', k', b', c, n, k, b)) /\
  (forall c r p i c' r' p' i', Gen_DataTable2.Swap c r p i c' r' p' i' = (c', r', p', i', c, r, p, i)).
Proof. exact gen_container_swaps. Qed.
Print Assumptions C14_gen_container_swaps.

Theorem C14_cc_swap_refines_generated :
  forall a b,
    let '(a', b') := cc_swap a b in
    Gen_TreeSet2.Swap (crew_ptr a) (count2 a) (storage2 a) (storage2 a) (crew_ptr b) (count2 b) (storage2 b) (storage2 b)
      = (crew_ptr a', count2 a', storage2 a', storage2 a', crew_ptr b', count2 b', storage2 b', storage2 b') /\
    Gen_HashSet2.Swap (crew_ptr a) (count2 a) (count2 a) (storage2 a) (crew_ptr b) (count2 b) (count2 b) (storage2 b)
      = (crew_ptr a', count2 a', count2 a', storage2 a', crew_ptr b', count2 b', count2 b', storage2 b').
Proof. exact cc_swap_refines_generated. Qed.
Print Assumptions C14_cc_swap_refines_generated.

(* fc18ee9: MemPool::Data::Swap always exchanges the managers together with the allocation counts; MemPool::Swap exchanges
   params, Data, buffer list and cache *)
Theorem C14_gen_mempool_swaps :
  (forall m a m' a', Gen_MemPoolData.Swap m a m' a' = (m', a', m, a)) /\
  (forall p d f cc_ ch p' d' f' cc' ch', Gen_MemPool.Swap p d f cc_ ch p' d' f' cc' ch' = (p', d', f', cc', ch', p, d, f, cc_, ch)).
Proof. exact gen_mempool_swaps. Qed.
Print Assumptions C14_gen_mempool_swaps.

(* ... hence DataTable::Swap composed of the generated functions is tbl_swap: each table's raw pool keeps using the manager
   stored in the crew the table holds *)
Theorem C14_table_swap_refines_generated :
  forall a b, table_swap_composed a b = tbl_swap a b /\
    (tbl_ok a = true -> tbl_ok b = true ->
     tbl_ok (fst (table_swap_composed a b)) = true /\ tbl_ok (snd (table_swap_composed a b)) = true).
Proof. exact table_swap_refines_generated. Qed.
Print Assumptions C14_table_swap_refines_generated.

(* c7fda03: the empty-destination branch of TreeSet::MergeTo is `Swap(dst); IncVersion; IncVersion; return`, so crew and node
   params of the two sets are exchanged together *)
Theorem C14_mergeto_empty_destination_is_swap :
  Gen_MergeToFacts.mergeto_empty_dst_branch = mergeto_expected_branch /\
  (forall c n r p c' n' r' p',
     let '(sc, sn, sr, sp, dc, dn, dr, dp) := Gen_TreeSet2.Swap c n r p c' n' r' p' in
     (dc, dp) = (c, p) /\ (sc, sp) = (c', p')).
Proof. exact mergeto_empty_destination_is_swap. Qed.
Print Assumptions C14_mergeto_empty_destination_is_swap.

(* ---- (13) round 8: generated move construction end to end, move assignment composed, stdish decision rules ------------------- *)
(* TreeSet / HashSet / DataTable move constructors (the initialiser mCrew(std::move(x.mCrew)) runs the crew's own generated move
   constructor): the new object gets every field of the source, the source keeps a null crew and null / zero storage fields *)
Theorem C14_gen_move_ctors :
  (forall c n r p c' n' r' p', Gen_TreeSet3.MoveCtor c n r p c' n' r' p' = (c', n', r', p', 0, 0, 0, 0)) /\
  (forall c n k b c' n' k' b', Gen_HashSet3.MoveCtor c n k b c' n' k' b' = (c', n', k', b', 0, 0, 0, 0)) /\
  (forall mv c r p i c' r' p' i', Gen_DataTable3.MoveCtor mv c r p i c' r' p' i' = (c', r', p', i', 0, mv r', mv p', mv i')) /\
  (forall a b, Gen_TableCrew.Swap a b = (b, a)) /\ (forall junk s, Gen_TableCrew.MoveCtor junk s = (s, 0)).
Proof. exact gen_move_ctors. Qed.
Print Assumptions C14_gen_move_ctors.

(* "moved-from then Clear" (a0dc6a6, c9f565a) over generated code only: generated move constructor, then generated Clear /
   destructor body on the source's fields with crew_null computed by the generated null test -- always returns normally *)
Theorem C14_gen_moved_from_then_clear :
  (forall c n r p c' n' r' p',
     let '(_, _, _, _, sc, sn, sr, sp) := Gen_TreeSet3.MoveCtor c n r p c' n' r' p' in
     Gen_TreeSet.Clear (Gen_SetCrew.pvIsNull sc) sn sr sp = GenPrelude.Ok (tt, sn, sr, sp) /\
     Gen_TreeSet.pvDestroy (Gen_SetCrew.pvIsNull sc) sn sr sp = GenPrelude.Ok tt) /\
  (forall nb c n k b c' n' k' b' shrink,
     let '(_, _, _, _, sc, sn, sk, sb) := Gen_HashSet3.MoveCtor c n k b c' n' k' b' in
     Gen_HashSet.Clear (Gen_SetCrew.pvIsNull sc) nb sn sk sb shrink = GenPrelude.Ok (tt, sn, sk, sb)) /\
  (forall mv c r p i c' r' p' i',
     let '(_, _, _, _, sc, _, _, _) := Gen_DataTable3.MoveCtor mv c r p i c' r' p' i' in
     Gen_DataTable.Clear (Gen_TableCrew.IsNull sc 0) = GenPrelude.Ok tt).
Proof. exact gen_moved_from_then_clear. Qed.
Print Assumptions C14_gen_moved_from_then_clear.

(* the move / copy assignment operators of TreeSet, HashSet, HashMultiMap, DataTable are `X(std::move(x)).Swap( *this); return
   *this;` resp. `if (this != &x) X(x).Swap( *this); return *this;` (AST facts) *)
Theorem C14_gen_assign_shapes :
  Gen_AssignShapes.tree_move_assign_shape = move_assign_expected /\ Gen_AssignShapes.hash_move_assign_shape = move_assign_expected /\
  Gen_AssignShapes.multi_move_assign_shape = move_assign_expected /\ Gen_AssignShapes.table_move_assign_shape = move_assign_expected /\
  Gen_AssignShapes.tree_copy_assign_shape = copy_assign_expected /\ Gen_AssignShapes.hash_copy_assign_shape = copy_assign_expected /\
  Gen_AssignShapes.multi_copy_assign_shape = copy_assign_expected /\ Gen_AssignShapes.table_copy_assign_shape = copy_assign_expected.
Proof. exact gen_assign_shapes. Qed.
Print Assumptions C14_gen_assign_shapes.

(* move assignment composed of the generated move constructor, Swap and destructor body: *this gets exactly the source's
   fields, the source is moved-from, the old contents go through the old crew, and x.Clear() afterwards is a no-op *)
Theorem C14_gen_tree_move_assign :
  forall tc tn tr tp sc sn sr sp,
    let '(destroyed, this', src') := tree_move_assign (tc, tn, tr, tp) (sc, sn, sr, sp) in
    this' = (sc, sn, sr, sp) /\ src' = (0, 0, 0, 0) /\
    ((tc <> 0 \/ (tr = 0 /\ tp = 0)) -> destroyed = GenPrelude.Ok tt) /\
    (let '(c, n, r, p) := src' in Gen_TreeSet.Clear (Gen_SetCrew.pvIsNull c) n r p = GenPrelude.Ok (tt, n, r, p)).
Proof. exact gen_tree_move_assign. Qed.
Print Assumptions C14_gen_tree_move_assign.

Theorem C14_cc_move_ctor_refines_generated :
  forall src junk1 junk2 junk3 junk4,
    let '(d, s') := cc_move_ctor src in
    Gen_TreeSet3.MoveCtor junk1 junk2 junk3 junk4 (crew_ptr src) (count2 src) (storage2 src) (storage2 src)
      = (crew_ptr d, count2 d, storage2 d, storage2 d, crew_ptr s', count2 s', storage2 s', storage2 s').
Proof. exact cc_move_ctor_refines_generated. Qed.
Print Assumptions C14_cc_move_ctor_refines_generated.

Theorem C14_gen_multi_swap :
  forall h n v h' n' v', Gen_HashMultiMap2.Swap h n v h' n' v' = (h', n', v', h, n, v).
Proof. exact gen_multi_swap. Qed.
Print Assumptions C14_gen_multi_swap.

(* stdish decision rules generated from the six wrappers (operator=(X&&), operator=(const X&), swap, pvCreateX): they are the
   decision functions of PropagationModel.v ... *)
Theorem C14_gen_stdish_rules_are_the_model :
  (forall tr, Gen_StdishDecisions.um_move_propagate tr = w_propagate_move tr) /\
  (forall tr, Gen_StdishDecisions.um_copy_propagate tr = w_propagate_copy tr) /\
  (forall tr a b, Gen_StdishDecisions.um_swap_assert tr (alloc_eq tr a b) = w_swap_assert_holds tr a b) /\
  (forall tr, negb (Gen_StdishDecisions.um_swap_assert tr false) = w_swap_evaluates_allocators tr).
Proof. exact stdish_rules_are_the_model. Qed.
Print Assumptions C14_gen_stdish_rules_are_the_model.

(* ... and equal the allocator-requirements table of the standard for every stateful allocator type and every pair of ids
   (the other five wrappers share the rules of unordered_map: stdish_rules_same_code in GenProofs3.v, by reflexivity) *)
Theorem C14_gen_stdish_rules_follow_std_table :
  forall tr s t, is_empty tr = false ->
    gen_target_alloc_move tr s t = std_target_alloc tr OpMoveAssign s t /\
    gen_elementwise_move tr s t = std_elementwise tr OpMoveAssign s t /\
    gen_target_alloc_copy tr s t = std_target_alloc tr OpCopyAssign s t /\
    (forall eq, Gen_StdishDecisions.um_swap_assert tr eq = (pocs tr || eq)) /\
    (Gen_StdishDecisions.um_swap_assert tr (Z.eqb s t) = std_defined tr OpSwap s t).
Proof. exact gen_stdish_rules_follow_std_table. Qed.
Print Assumptions C14_gen_stdish_rules_follow_std_table.

(* the two known findings, stated on the generated rules *)
Theorem C14_gen_D12_refuted :
  forall tr c w, pocs tr = false ->
    (Gen_StdishDecisions.um_swap_assert tr true <> Gen_StdishDecisions.um_swap_assert tr false) /\
    w_swap tr MovedFrom c w = NullCrew.
Proof. exact gen_D12_refuted. Qed.
Print Assumptions C14_gen_D12_refuted.

Theorem C14_gen_D13_refuted :
  forall wk tr c w,
    (Gen_StdishDecisions.um_move_alloc_from_right (Gen_StdishDecisions.um_move_propagate tr) = false ->
       w_move_assign wk tr MovedFrom c w = NullCrew) /\
    (Gen_StdishDecisions.um_copy_alloc_from_right (Gen_StdishDecisions.um_copy_propagate tr) = false ->
       w_copy_assign wk tr MovedFrom c w = NullCrew).
Proof. exact gen_D13_refuted. Qed.
Print Assumptions C14_gen_D13_refuted.

(* ---- (14) round 9 ------------------------------------------------------------------------------------------------------ *)
(* MemManagerStd<A>::operator=(MemManagerStd&&): for each of the 16 (POCCA, POCMA, POCS, nothrow-move-assignable) allocator types
   the pvAssign overload chosen by the compiler (read off the clang AST) is the one PropagationModel.mms_pvAssign predicts, and
   operator= is disabled exactly where the model says so *)
Theorem C14_pvassign_overload_choice :
  map fst Gen_PvAssignTable.pvassign_table = all16 /\
  Forall (fun row => let '(ca, ma, sw, nm, k) := row in
            mms_pvAssign (mkTraits ca ma sw nm false) = k /\
            (mms_assign_enabled (mkTraits ca ma sw nm false) = false <-> k = ADisabled))
         Gen_PvAssignTable.pvassign_table.
Proof. exact pvassign_overload_choice. Qed.
Print Assumptions C14_pvassign_overload_choice.

(* a failed copy construction destroys nothing twice: the catch blocks of the (delegating) copying constructors null what they
   destroyed, and the generated destructor bodies are no-ops on nulled storage pointers *)
Theorem C14_failed_copy_no_double_destroy :
  Gen_CtorCatch.hash_copy_ctor_catch = hash_catch_expected /\ Gen_CtorCatch.hash_copy_ctor_delegates = true /\
  Gen_CtorCatch.tree_copy_ctor_catch = tree_catch_expected /\ Gen_CtorCatch.tree_copy_ctor_delegates = true /\
  Gen_CtorCatch.multi_copy_ctor_catch = multi_catch_expected /\ Gen_CtorCatch.multi_copy_ctor_delegates = false /\
  Gen_CtorCatch.table_fill_outer_catch = table_catch_expected /\ Gen_CtorCatch.table_copy_ctor_delegates = true /\
  (forall crew_null cnt cap, Gen_HashSet.pvDestroy crew_null cnt cap 0 = GenPrelude.Ok tt) /\
  (forall crew_null cnt, Gen_TreeSet.pvDestroy crew_null cnt 0 0 = GenPrelude.Ok tt).
Proof. exact failed_copy_no_double_destroy. Qed.
Print Assumptions C14_failed_copy_no_double_destroy.

(* generated HashSet::pvDestroy(Buckets*, bool) and pvDestroy() *)
Theorem C14_gen_hash_destroy :
  (forall crew_null cnt cap bk flag, Gen_HashSet.pvDestroyB crew_null cnt cap bk 0 flag = GenPrelude.Ok tt) /\
  (forall cnt cap bk b flag, Gen_HashSet.pvDestroyB false cnt cap bk b flag = GenPrelude.Ok tt) /\
  (forall cnt cap bk b flag, b <> 0 -> Gen_HashSet.pvDestroyB true cnt cap bk b flag = GenPrelude.Stuck) /\
  (forall cnt cap bk, Gen_HashSet.pvDestroy false cnt cap bk = GenPrelude.Ok tt) /\
  (forall cnt cap bk, bk <> 0 -> Gen_HashSet.pvDestroy true cnt cap bk = GenPrelude.Stuck).
Proof. exact gen_hash_destroy. Qed.
Print Assumptions C14_gen_hash_destroy.

(* ---- (15) round 10: Array::Data generated end to end ---------------------------------------------------------------------- *)
(* operator=(Data&&): for distinct objects the old storage (if any) is returned through the OLD manager of *this, only then *this
   takes the source's manager, items, count and capacity, and the source keeps no storage; for the same object nothing happens
   (mgr / data_mgr = the manager base sub-objects, freed_via = ghost: the manager the storage was returned through) *)
Theorem C14_gen_array_move_assign :
  forall m i n c dm di dn dc fv,
    Gen_ArrayData.MoveAssign false m i n c dm di dn dc fv = (dm, di, dn, dc, 0, 0, 0, if Z.gtb c 0 then m else fv) /\
    Gen_ArrayData.MoveAssign true m i n c dm di dn dc fv = (m, i, n, c, di, dn, dc, fv).
Proof. exact gen_array_move_assign. Qed.
Print Assumptions C14_gen_array_move_assign.

Theorem C14_gen_array_move_ctor :
  forall m i n c dm di dn dc fv, Gen_ArrayData.MoveCtor m i n c dm di dn dc fv = (dm, di, dn, dc, 0, 0, 0).
Proof. exact gen_array_move_ctor. Qed.
Print Assumptions C14_gen_array_move_ctor.

Theorem C14_gen_array_clear :
  forall m i n c dm di dn dc fv, Gen_ArrayData.Clear m i n c dm di dn dc fv = (0, 0, 0, if Z.gtb c 0 then m else fv).
Proof. exact gen_array_clear. Qed.
Print Assumptions C14_gen_array_clear.

(* Array::Swap = std::swap of the Data members = generated move constructor + two generated move assignments: managers and
   storage are exchanged exactly and NOTHING is deallocated *)
Theorem C14_gen_array_swap :
  forall am ai an ac bm bi bn bc fv,
    array_swap_composed (am, ai, an, ac) (bm, bi, bn, bc) fv = ((bm, bi, bn, bc), (am, ai, an, ac), fv).
Proof. exact gen_array_swap. Qed.
Print Assumptions C14_gen_array_swap.

(* the hand model's arr_move_assign agrees with the generated operator= on the manager, the storage and the manager the old
   block is released through *)
Theorem C14_arr_model_refines_generated :
  forall assign dst src w, assign_takes_source assign -> arr_wf dst -> arr_wf src ->
    exists d s' w', arr_move_assign assign dst src w = Ok (d, s') w' /\
      let '(gm, _, _, gc, _, _, gsc, gfv) :=
        Gen_ArrayData.MoveAssign false (amgr dst) (capz dst) 0 (capz dst) (amgr src) (capz src) 0 (capz src) (-1) in
      amgr d = gm /\ capz d = gc /\ capz s' = gsc /\
      (gfv = if Z.gtb (capz dst) 0 then amgr dst else -1).
Proof. exact arr_model_refines_generated. Qed.
Print Assumptions C14_arr_model_refines_generated.

(* ------------------------------------------------------------------------------------------------------------------ *)
(* Round 10: HashMultiMap(HashMultiMap&&) generated end to end -- HashMultiMap -> HashMap -> HashSet -> SetCrew and ValueCrew
   (the HashSet member object travels as one packed value, Pack.v contains the packing only) *)
Theorem C14_gen_valuecrew :
  (forall a b, Gen_ValueCrew.Swap a b = (b, a)) /\
  (forall junk s, Gen_ValueCrew.MoveCtor junk s = (s, 0)) /\
  (forall d other, Gen_ValueCrew.IsNull d other = Z.eqb d 0).
Proof. exact gen_valuecrew. Qed.
Print Assumptions C14_gen_valuecrew.

(* the target takes the hash map, the value count and the value crew; the source keeps nothing *)
Theorem C14_gen_multi_move_ctor :
  forall junk jn jc h n v,
    Gen_HashMultiMap3.MoveCtor junk jn jc h n v =
      (h, n, v, fst (fst moved_from_multi), snd (fst moved_from_multi), snd moved_from_multi).
Proof. exact gen_multi_move_ctor. Qed.
Print Assumptions C14_gen_multi_move_ctor.

Theorem C14_gen_multi_moved_from_then_clear :
  forall junk jn jc h n v,
    let '(_, _, _, _, sn, sv) := Gen_HashMultiMap3.MoveCtor junk jn jc h n v in
    Gen_HashMultiMap.Clear (Gen_ValueCrew.IsNull sv 0) sn = GenPrelude.Ok (tt, sn).
Proof. exact gen_multi_moved_from_then_clear. Qed.
Print Assumptions C14_gen_multi_moved_from_then_clear.

(* operator=(HashMultiMap&&) composed of the generated move constructor and the generated Swap *)
Theorem C14_gen_multi_move_assign :
  forall this src,
    let '(tmp, this', src') := multi_move_assign this src in
    this' = src /\ src' = moved_from_multi /\ tmp = this.
Proof. exact gen_multi_move_assign. Qed.
Print Assumptions C14_gen_multi_move_assign.

(* copy assignment = copy (any result: the copy constructor's successful path is not generated), then the generated Swap *)
Theorem C14_gen_copy_assign_compositions :
  (forall cc cn cr cp tc tn tr tp,
     let '(mc, mn, mr, mp, tc', tn', tr', tp') := Gen_TreeSet2.Swap cc cn cr cp tc tn tr tp in
     (tc', tn', tr', tp') = (cc, cn, cr, cp) /\ (mc, mn, mr, mp) = (tc, tn, tr, tp) /\
     ((tc <> 0 \/ (tr = 0 /\ tp = 0)) -> Gen_TreeSet.pvDestroy (Gen_SetCrew.pvIsNull mc) mn mr mp = GenPrelude.Ok tt)) /\
  (forall cc cn ck cb tc tn tk tb,
     let '(mc, mn, mk, mb, tc', tn', tk', tb') := Gen_HashSet2.Swap cc cn ck cb tc tn tk tb in
     (tc', tn', tk', tb') = (cc, cn, ck, cb) /\ (mc, mn, mk, mb) = (tc, tn, tk, tb)) /\
  (forall cc cr cp ci tc tr tp ti,
     let '(mc, mr, mp, mi, tc', tr', tp', ti') := Gen_DataTable2.Swap cc cr cp ci tc tr tp ti in
     (tc', tr', tp', ti') = (cc, cr, cp, ci) /\ (mc, mr, mp, mi) = (tc, tr, tp, ti)) /\
  (forall ch cn cv th tn tv,
     let '(mh, mn, mv, th', tn', tv') := Gen_HashMultiMap2.Swap ch cn cv th tn tv in
     (th', tn', tv') = (ch, cn, cv) /\ (mh, mn, mv) = (th, tn, tv)).
Proof. exact gen_copy_assign_compositions. Qed.
Print Assumptions C14_gen_copy_assign_compositions.

(* ------------------------------------------------------------------------------------------------------------------ *)
(* Review-fix round.  (a) the decision rules of ALL SIX stdish wrappers (unordered_map, unordered_set, unordered_multimap, map,
   set, vector), extracted from the headers, are the same functions -- so the um_* theorems above speak for every wrapper *)
Theorem C14_stdish_rules_same_code :
  (forall tr, Gen_StdishDecisions.us_move_propagate tr = Gen_StdishDecisions.um_move_propagate tr /\
              Gen_StdishDecisions.umm_move_propagate tr = Gen_StdishDecisions.um_move_propagate tr /\
              Gen_StdishDecisions.m_move_propagate tr = Gen_StdishDecisions.um_move_propagate tr /\
              Gen_StdishDecisions.s_move_propagate tr = Gen_StdishDecisions.um_move_propagate tr /\
              Gen_StdishDecisions.v_move_propagate tr = Gen_StdishDecisions.um_move_propagate tr) /\
  (forall tr, Gen_StdishDecisions.us_copy_propagate tr = Gen_StdishDecisions.um_copy_propagate tr /\
              Gen_StdishDecisions.umm_copy_propagate tr = Gen_StdishDecisions.um_copy_propagate tr /\
              Gen_StdishDecisions.m_copy_propagate tr = Gen_StdishDecisions.um_copy_propagate tr /\
              Gen_StdishDecisions.s_copy_propagate tr = Gen_StdishDecisions.um_copy_propagate tr /\
              Gen_StdishDecisions.v_copy_propagate tr = Gen_StdishDecisions.um_copy_propagate tr) /\
  (forall tr eq, Gen_StdishDecisions.us_swap_assert tr eq = Gen_StdishDecisions.um_swap_assert tr eq /\
              Gen_StdishDecisions.umm_swap_assert tr eq = Gen_StdishDecisions.um_swap_assert tr eq /\
              Gen_StdishDecisions.m_swap_assert tr eq = Gen_StdishDecisions.um_swap_assert tr eq /\
              Gen_StdishDecisions.s_swap_assert tr eq = Gen_StdishDecisions.um_swap_assert tr eq /\
              Gen_StdishDecisions.v_swap_assert tr eq = Gen_StdishDecisions.um_swap_assert tr eq) /\
  (forall p, Gen_StdishDecisions.us_move_alloc_from_right p = p /\ Gen_StdishDecisions.umm_move_alloc_from_right p = p /\
             Gen_StdishDecisions.m_move_alloc_from_right p = p /\ Gen_StdishDecisions.s_move_alloc_from_right p = p /\
             Gen_StdishDecisions.v_move_alloc_from_right p = p /\ Gen_StdishDecisions.um_move_alloc_from_right p = p /\
             Gen_StdishDecisions.us_copy_alloc_from_right p = p /\ Gen_StdishDecisions.umm_copy_alloc_from_right p = p /\
             Gen_StdishDecisions.m_copy_alloc_from_right p = p /\ Gen_StdishDecisions.s_copy_alloc_from_right p = p /\
             Gen_StdishDecisions.v_copy_alloc_from_right p = p /\ Gen_StdishDecisions.um_copy_alloc_from_right p = p) /\
  (Gen_StdishDecisions.um_steal_when_equal = true /\ Gen_StdishDecisions.us_steal_when_equal = true /\
   Gen_StdishDecisions.umm_steal_when_equal = true /\ Gen_StdishDecisions.m_steal_when_equal = true /\
   Gen_StdishDecisions.s_steal_when_equal = true /\ Gen_StdishDecisions.v_steal_when_equal = true) /\
  (Gen_StdishDecisions.um_move_self_guard = true /\ Gen_StdishDecisions.um_copy_self_guard = true /\
   Gen_StdishDecisions.s_move_self_guard = true /\ Gen_StdishDecisions.s_copy_self_guard = true /\
   Gen_StdishDecisions.v_move_self_guard = true /\ Gen_StdishDecisions.v_copy_self_guard = true).

Proof. exact stdish_rules_same_code. Qed.
Print Assumptions C14_stdish_rules_same_code.

(* (b) C14_clear_refines_generated compares only "does not get stuck" at one instantiation; this one compares the FIELDS:
   whenever the hand model's cc_clear returns c', the generated Clear on the abstracted fields of c returns the abstracted
   fields of c' (count, storage pointers), for every bucket-chain flag and capacity.  (DataTable::Clear is translated with
   every effect skipped -- fields: {} -- so for it only "does not get stuck" has content.) *)
Theorem C14_clear_refines_generated_fields :
  forall c w c' w', cc_wf c ->
    (cc_clear KTree c w = Ok c' w' ->
       Gen_TreeSet.Clear (crew_null_of c) (count_of c) (storage_of c) (storage_of c) = GenPrelude.Ok (tt, count_of c', storage_of c', storage_of c')) /\
    (cc_clear KHash c w = Ok c' w' -> forall nb cap, exists cap',
       Gen_HashSet.Clear (crew_null_of c) nb (count_of c) cap (storage_of c) true = GenPrelude.Ok (tt, count_of c', cap', storage_of c')) /\
    (cc_clear KMulti c w = Ok c' w' ->
       Gen_HashMultiMap.Clear (crew_null_of c) (count_of c) = GenPrelude.Ok (tt, count_of c')).
Proof. exact clear_refines_generated_fields. Qed.
Print Assumptions C14_clear_refines_generated_fields.

(* ------------------------------------------------------------------------------------------------------------------ *)
(* Last round: the internal-capacity instantiation of Array::Data (ArrayIntCap<4, int>) generated as Gen_ArrayDataIC.
   ia / da = the addresses of the two objects' internal buffers (read-only ghost fields for `&mInternalItems`);
   ItemTraits::Relocate / Destroy (element effects) are skipped by the translation. *)
(* the source holds a heap block: manager, block, count, capacity go to the target; the source falls back to its own internal
   buffer; the target's old heap block (capacity > internalCapacity) is released through the target's OLD manager *)
Theorem C14_gen_arrayic_move_assign_external :
  forall m i n c dm di dn dc fv ia da, di <> da ->
    Gen_ArrayDataIC.MoveAssign false m i n c dm di dn dc fv ia da =
      (dm, di, dn, dc, da, 0, if Z.gtb (if Z.eqb i ia then 4 else c) 4 then m else fv).
Proof. exact gen_arrayic_move_assign_external. Qed.
Print Assumptions C14_gen_arrayic_move_assign_external.

(* the source uses its internal buffer: no pointer is taken, the target uses its OWN internal buffer *)
Theorem C14_gen_arrayic_move_assign_internal :
  forall m i n c dm dn dc fv ia da,
    Gen_ArrayDataIC.MoveAssign false m i n c dm da dn dc fv ia da =
      (dm, ia, dn, c, da, 0, if Z.gtb (if Z.eqb i ia then 4 else c) 4 then m else fv).
Proof. exact gen_arrayic_move_assign_internal. Qed.
Print Assumptions C14_gen_arrayic_move_assign_internal.

Theorem C14_gen_arrayic_move_ctor_clear :
  (forall jm ji jn jc dm di dn dc fv ia da, di <> da ->
     Gen_ArrayDataIC.MoveCtor jm ji jn jc dm di dn dc fv ia da = (dm, di, dn, dc, da, 0)) /\
  (forall jm ji jn jc dm dn dc fv ia da,
     Gen_ArrayDataIC.MoveCtor jm ji jn jc dm da dn dc fv ia da = (dm, ia, dn, jc, da, 0)) /\
  (forall m i n c dm di dn dc fv ia da,
     Gen_ArrayDataIC.Clear m i n c dm di dn dc fv ia da = (ia, 0, if Z.gtb (if Z.eqb i ia then 4 else c) 4 then m else fv)).
Proof. exact gen_arrayic_move_ctor_clear. Qed.
Print Assumptions C14_gen_arrayic_move_ctor_clear.

(* REFINEMENT to the internalCapacity = 0 instantiation (Gen_ArrayData, C14_gen_array_move_assign): under the abstraction
   "internal buffer = no block, capacity 0" the two generated operator=(Data&&) agree on everything *)
Theorem C14_arrayic_refines_array0 :
  forall so m i n c dm di dn dc fv ia da,
    ic_inv i c ia -> ic_inv di dc da -> (di <> da -> di <> ia) ->
    let '(m', i', n', c', di', dn', fv') := Gen_ArrayDataIC.MoveAssign so m i n c dm di dn dc fv ia da in
    let '(gm, gi, gn, gc, gdi, gdn, gdc, gfv) :=
      Gen_ArrayData.MoveAssign so m (absI i ia) n (absC i c ia) dm (absI di da) dn (absC di dc da) fv in
    m' = gm /\ absI i' ia = gi /\ n' = gn /\ absC i' c' ia = gc /\ absI di' da = gdi /\ dn' = gdn /\ fv' = gfv.
Proof. exact arrayic_refines_array0. Qed.
Print Assumptions C14_arrayic_refines_array0.

(* the invariant is satisfiable (heap block of capacity 9; internal buffer) and the internal case is not vacuous *)
Theorem C14_arrayic_refinement_nonvacuous :
  ic_inv 100 9 7 /\ ic_inv 7 0 7 /\
  Gen_ArrayDataIC.MoveAssign false 1 100 3 9 2 8 2 0 (-1) 7 8 = (2, 7, 2, 9, 8, 0, 1).
Proof. exact arrayic_refinement_nonvacuous. Qed.
Print Assumptions C14_arrayic_refinement_nonvacuous.

(* ------------------------------------------------------------------------------------------------------------------ *)
(* Final round: the CONSISTENCY INVARIANT "null crew => no storage" of the crew-based sets.  It is the premise of
   C14_gen_tree_move_assign / C14_gen_copy_assign_compositions and excludes the Stuck outcome of the generated Clear /
   pvDestroy; here it is established and shown to be preserved by every generated operation that writes these fields.
   tree_cons crew root params := crew = 0 -> root = 0 /\ params = 0;   hash_cons crew buckets := crew = 0 -> buckets = 0. *)
Theorem C14_cons_established :
  (forall c r p, c <> 0 -> tree_cons c r p) /\ (forall c b, c <> 0 -> hash_cons c b).
Proof. exact cons_established. Qed.
Print Assumptions C14_cons_established.

(* under the invariant the generated pvDestroy / Clear never return Stuck, and Clear preserves the invariant *)
Theorem C14_cons_clear_total_tree :
  forall c n r p, tree_cons c r p ->
    Gen_TreeSet.pvDestroy (Gen_SetCrew.pvIsNull c) n r p = GenPrelude.Ok tt /\
    exists n' r' p', Gen_TreeSet.Clear (Gen_SetCrew.pvIsNull c) n r p = GenPrelude.Ok (tt, n', r', p') /\ tree_cons c r' p'.
Proof. exact cons_clear_total_tree. Qed.
Print Assumptions C14_cons_clear_total_tree.

Theorem C14_cons_clear_total_hash :
  forall c nb n k b shrink, hash_cons c b ->
    Gen_HashSet.pvDestroy (Gen_SetCrew.pvIsNull c) n k b = GenPrelude.Ok tt /\
    exists n' k' b', Gen_HashSet.Clear (Gen_SetCrew.pvIsNull c) nb n k b shrink = GenPrelude.Ok (tt, n', k', b') /\ hash_cons c b'.
Proof. exact cons_clear_total_hash. Qed.
Print Assumptions C14_cons_clear_total_hash.

(* preserved by the generated move constructors (new object and source) and Swaps (both objects) *)
Theorem C14_cons_preserved_move_swap :
  (forall jc jn jr jp sc sn sr sp, tree_cons sc sr sp ->
     let '(tc', _, tr', tp', sc', _, sr', sp') := Gen_TreeSet3.MoveCtor jc jn jr jp sc sn sr sp in
     tree_cons tc' tr' tp' /\ tree_cons sc' sr' sp') /\
  (forall jc jn jk jb sc sn sk sb, hash_cons sc sb ->
     let '(tc', _, _, tb', sc', _, _, sb') := Gen_HashSet3.MoveCtor jc jn jk jb sc sn sk sb in
     hash_cons tc' tb' /\ hash_cons sc' sb') /\
  (forall ac an ar ap bc bn br bp, tree_cons ac ar ap -> tree_cons bc br bp ->
     let '(ac', _, ar', ap', bc', _, br', bp') := Gen_TreeSet2.Swap ac an ar ap bc bn br bp in
     tree_cons ac' ar' ap' /\ tree_cons bc' br' bp') /\
  (forall ac an ak ab bc bn bk bb, hash_cons ac ab -> hash_cons bc bb ->
     let '(ac', _, _, ab', bc', _, _, bb') := Gen_HashSet2.Swap ac an ak ab bc bn bk bb in
     hash_cons ac' ab' /\ hash_cons bc' bb').
Proof. exact cons_preserved_move_swap. Qed.
Print Assumptions C14_cons_preserved_move_swap.

(* the premise of C14_gen_tree_move_assign discharged: on consistent objects the composed move assignment never gets stuck
   destroying the old target, and both objects are consistent afterwards *)
Theorem C14_cons_move_assign_tree :
  forall tc tn tr tp sc sn sr sp, tree_cons tc tr tp -> tree_cons sc sr sp ->
    let '(destroyed, this', src') := tree_move_assign (tc, tn, tr, tp) (sc, sn, sr, sp) in
    destroyed = GenPrelude.Ok tt /\
    (let '(c, _, r, p) := this' in tree_cons c r p) /\ (let '(c, _, r, p) := src' in tree_cons c r p).
Proof. exact cons_move_assign_tree. Qed.
Print Assumptions C14_cons_move_assign_tree.

(* non-vacuity: the invariant holds for the moved-from state, fails for "null crew with a root", and there Clear IS stuck *)
Theorem C14_cons_nonvacuous :
  tree_cons 0 0 0 /\ hash_cons 0 0 /\ ~ tree_cons 0 1 0 /\ ~ hash_cons 0 1 /\
  Gen_TreeSet.Clear (Gen_SetCrew.pvIsNull 0) 5 1 0 = GenPrelude.Stuck.
Proof. exact cons_nonvacuous. Qed.
Print Assumptions C14_cons_nonvacuous.
