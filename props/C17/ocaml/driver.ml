(* C17 model driver: one case per line, one result line per case (same format as harness.cpp).
   MS a b | SC a | CMP a b                         generated leaves
   FH|F|B v n H0 I0 ... H(n-1) I(n-1) QH QI        pvFindHash / Find / GetBounds (v = p|h, ignored by the model)
   S v n H0 I0 ...                                  IsSorted
   CHK v n <in pairs> <out pairs>                   verified checker: permutation + model IsSorted on the output
   The array is handed to the extracted model as closures hash/item/eqf; the closures LOG every call, which
   gives the model's read trace (item handle of index i is i itself, the query item is handle -2). *)
open Zutil
open GenPrelude

let log : int list ref = ref []
let nlog = ref 0
let push t = log := t :: !log; incr nlog

let trace_str () =
  let l = Stdlib.List.rev !log in
  if !nlog <= 48 then Stdlib.String.concat "," (Stdlib.List.map string_of_int l)
  else begin
    let d = Stdlib.List.fold_left (fun d t -> (d * 1000003 + t) mod 1000000007) 0 l in
    Printf.sprintf "%d:%d" !nlog d
  end

let outcome_str f = function
  | Ok r -> f r | Stuck -> "Stuck" | Fuel -> "Fuel" | Exn -> "Exn"

let rec take n l = if n = 0 then ([], l) else match l with x :: t -> let (a, b) = take (n - 1) t in (x :: a, b) | [] -> failwith "short"

let parse_pairs n ws =
  let (ps, rest) = take (2 * n) ws in
  let a = Array.of_list ps in
  let hs = Array.init n (fun i -> z_of_string a.(2 * i)) in
  let ids = Array.init n (fun i -> a.(2 * i + 1)) in
  (hs, ids, rest)

let zero = z_of_int 0

let () = iter_lines (fun line ->
  try
  match words line with
  | ["MS"; a; b] -> print_endline (string_of_z (Gen_Leaves.pvMultShift (z_of_string a) (z_of_string b)))
  | ["SC"; a] -> print_endline (string_of_z (Gen_Leaves.pvGetStepCount (z_of_string a)))
  | ["BIGM"; n; pos; mode] ->
    (* same formula-defined array as harness.cpp BIGM; nothing is materialised: hash/item are computed per access *)
    let n = int_of_string n and pos = int_of_string pos and mode = int_of_string mode in
    let quad = mode >= 10 in let mode = mode mod 10 in
    let m64 = Z.pred (Z.shift_left Z.one 64) in
    let step = if quad then Z.div (Z.div m64 (Z.of_int n)) (Z.of_int n) else Z.div m64 (Z.of_int n) in
    let idof i = i / 2 in
    let hashof i = let id = idof i in let hid = id - (if id mod 3 = 1 then 1 else 0) in
      if quad then Z.mul (Z.mul (Z.of_int (hid * 2)) (Z.of_int (hid * 2))) step else Z.mul (Z.of_int (hid * 2)) step in
    let qh = if mode = 2 then Z.succ (hashof pos) else hashof pos in
    let qid = if mode = 1 then (-1) else if mode = 2 then (-3) else idof pos in
    log := []; nlog := 0;
    let hash zi = let i = int_of_z zi in push (4 * (i + 2)); z_of_zarith (hashof i) in
    let item zi = zi in
    let ido a = if a = -2 then qid else idof a in
    let eqf za zb = let a = int_of_z za and b = int_of_z zb in push (4 * (a + 2) + 1); push (4 * (b + 2) + 2); ido a = ido b in
    let cnt = z_of_int n and qx = z_of_int (-2) and qhz = z_of_zarith qh in
    let f = Instance.coq_Find cnt hash item eqf qhz qx in
    let b = Instance.coq_GetBounds cnt hash item eqf qhz qx in
    (match f, b with
     | Ok (k, fd), Ok (bb, be) -> Printf.printf "%s %d %s %s | %s\n" (string_of_z k) (if fd then 1 else 0) (string_of_z bb) (string_of_z be) (trace_str ())
     | _ -> print_endline "Stuck/Fuel")
  | "GCYC" :: r :: sh :: n :: ws ->
    (* the GENERATED counting pass (bucket table) followed by the GENERATED cycle-leader permutation, radix size r, shift sh,
       on n 64-bit codes: final codes | swap log *)
    let r = int_of_string r and n = int_of_string n in
    let a = Array.of_list (Stdlib.List.map z_of_string ws) in
    let items zi = let i = int_of_z zi in if i >= 0 && i < n then a.(i) else z_of_int 0 in
    let zf _ = z_of_int 0 in
    let rz = z_of_int r and rc = z_of_int (1 lsl r) and fuel = nat_of_int (n + (1 lsl r) + 5) in
    (match Gen_RadixCount.pvRadixSort_count rz rc fuel zf items true true (z_of_int 0) (z_of_int n) (z_of_string sh) with
     | Ok (((_, ei), _), _) ->
       (match Gen_RadixCycle.pvRadixSort_cycle rz rc fuel ei zf items zf zf (z_of_int 0) (z_of_int 0) (z_of_string sh) with
        | Ok (((((_, _), items'), swa), swb), swn) ->
          let body = Stdlib.String.concat " " (Stdlib.List.init n (fun i -> string_of_z (items' (z_of_int i)))) in
          let g = Stdlib.String.concat " " (Stdlib.List.init (int_of_z swn) (fun j -> string_of_z (swa (z_of_int j)) ^ "-" ^ string_of_z (swb (z_of_int j)))) in
          Printf.printf "%s | %s\n" body g
        | Stuck -> print_endline "Stuck" | Fuel -> print_endline "Fuel" | Exn -> print_endline "Exn")
     | Stuck -> print_endline "Stuck(count)" | Fuel -> print_endline "Fuel(count)" | Exn -> print_endline "Exn")
  | "GS" :: v :: n :: ws ->
    (* the GENERATED pvIsSorted *)
    let coarse = (v = "P" || v = "H") in
    let n = int_of_string n in
    let (hs, ids, _) = parse_pairs n ws in
    let hash zi = let i = int_of_z zi in if i >= 0 && i < n then hs.(i) else z_of_int 0 in
    let item zi = zi in
    let cls s = if coarse then string_of_int (int_of_string s / 2) else s in
    let eqf za zb = let a = int_of_z za and b = int_of_z zb in cls ids.(a) = cls ids.(b) in
    print_endline (outcome_str (fun b -> if b then "1" else "0") (Gen_IsSorted.pvIsSorted eqf (nat_of_int (n + 3)) item hash (z_of_int 0) (z_of_int n)))
  | (("GBS" | "GES") as cmd) :: n :: ws ->
    (* the GENERATED pvBinarySearch / pvExponentialSearch loops on an array of comparer values; an exponential-search exit that
       continues with a binary search runs the GENERATED binary search on the shifted comparer *)
    let n = int_of_string n in
    let a = Array.of_list (Stdlib.List.map z_of_string ws) in
    let c zi = let i = int_of_z zi in if i >= 0 && i < n then a.(i) else z_of_int 99 in
    let fuel = nat_of_int 70 in
    let z0 = z_of_int 0 in
    let gen_bs lft cnt =      (* pvBinarySearch(Next(begin, lft), cnt, comparer): result re-based to begin *)
      let cs zi = c (z_of_int (lft + int_of_z zi)) in
      match Gen_Searches.pvBinarySearch_loop0 cs fuel z0 z0 (z_of_int cnt) with
      | Ok (Some _, (l, r)) -> Printf.sprintf "%d 1" (lft + (int_of_z l + int_of_z r) / 2)
      | Ok (None, (l, _)) -> Printf.sprintf "%d 0" (lft + int_of_z l)
      | _ -> "Stuck/Fuel" in
    if cmd = "GBS" then print_endline (gen_bs 0 n)
    else (match Gen_Searches.pvExponentialSearch_loop0 c fuel z0 (z_of_int n) z0 z0 with
      | Ok (Some code, (i, lft)) ->
        if int_of_z code = 1 then Printf.printf "%d 1\n" (int_of_z i) else print_endline (gen_bs (int_of_z lft) (int_of_z i - int_of_z lft))
      | Ok (None, (_, lft)) -> print_endline (gen_bs (int_of_z lft) (n - int_of_z lft))
      | _ -> print_endline "Stuck/Fuel")
  | "GGRP" :: n :: ws ->
    (* the GENERATED pvGroup on an array of item ids (equalFunc = same id): final arrangement *)
    let n = int_of_string n in
    let a = Array.of_list (Stdlib.List.map z_of_string ws) in
    let items zi = let i = int_of_z zi in if i >= 0 && i < n then a.(i) else z_of_int (-1) in
    let eqf x y = (string_of_z x = string_of_z y) in
    (match Gen_Group.pvGroup eqf (nat_of_int (n + 3)) items (z_of_int 0) (z_of_int n) with
     | Ok (_, items') -> print_endline (Stdlib.String.concat " " (Stdlib.List.init n (fun i -> string_of_z (items' (z_of_int i)))))
     | Stuck -> print_endline "Stuck" | Fuel -> print_endline "Fuel" | Exn -> print_endline "Exn")
  | "GSEL" :: n :: ws ->
    (* the GENERATED pvSelectionSort on an array of codes: final item codes | groupFunc calls pos:count *)
    let n = int_of_string n in
    let a = Array.of_list (Stdlib.List.map z_of_string ws) in
    let items zi = let i = int_of_z zi in if i >= 0 && i < n then a.(i) else z_of_int 0 in
    let zf _ = z_of_int 0 in
    (match Gen_SelSort.pvSelectionSort zf items zf zf (z_of_int 0) (z_of_int 0) (z_of_int n) with
     | Ok (((((_, _), items'), gpos), gcnt), gnum) ->
       let body = Stdlib.String.concat " " (Stdlib.List.init n (fun i -> string_of_z (items' (z_of_int i)))) in
       let g = Stdlib.String.concat " " (Stdlib.List.init (int_of_z gnum) (fun j -> string_of_z (gpos (z_of_int j)) ^ ":" ^ string_of_z (gcnt (z_of_int j)))) in
       Printf.printf "%s | %s\n" body g
     | Stuck -> print_endline "Stuck" | Fuel -> print_endline "Fuel" | Exn -> print_endline "Exn")
  | ["SCODE"; w; x] -> print_endline (string_of_z (Radix_Gen_Proofs.gen_code_signed (z_of_string w) (z_of_string x)))     (* GENERATED getters *)
  | ["UCODE"; w; x] -> print_endline (string_of_z (Radix_Gen_Proofs.gen_code_unsigned (z_of_string w) (z_of_string x)))
  | ["GRADIX"; r; w; c; sh] ->
    let f = if w = "8" then Gen_Radix.pvGetRadix_u8 else Gen_Radix.pvGetRadix_u64 in
    print_endline (string_of_z (f (z_of_string r) (z_of_string c) (z_of_string sh)))
  | ["CMP"; a; b] -> print_endline (string_of_z (Gen_Leaves.pvCompare (z_of_string a) (z_of_string b)))
  | (("FH" | "F" | "B" | "S") as cmd) :: v :: n :: ws ->
    let coarse = (v = "P" || v = "H") in
    let n = int_of_string n in
    let (hs, ids, rest) = parse_pairs n ws in
    let (qh, qi) = match rest with [a; b] -> (z_of_string a, b) | _ -> (zero, "") in
    log := []; nlog := 0;
    let hash zi = let i = int_of_z zi in push (4 * (i + 2)); hs.(i) in
    let item zi = zi in
    let idof a = if a = -2 then qi else ids.(a) in
    let cls s = if coarse then string_of_int (int_of_string s / 2) else s in
    let eqf za zb = let a = int_of_z za and b = int_of_z zb in
      push (4 * (a + 2) + 1); push (4 * (b + 2) + 2); cls (idof a) = cls (idof b) in
    let cnt = z_of_int n in
    let qx = z_of_int (-2) in
    let res = match cmd with
      | "FH" -> outcome_str (fun (k, b) -> Printf.sprintf "%s %d" (string_of_z k) (if b then 1 else 0)) (Instance.coq_FindHash cnt hash qh)
      | "F" -> outcome_str (fun (k, b) -> Printf.sprintf "%s %d" (string_of_z k) (if b then 1 else 0)) (Instance.coq_Find cnt hash item eqf qh qx)
      | "B" -> outcome_str (fun (b, e) -> Printf.sprintf "%s %s" (string_of_z b) (string_of_z e)) (Instance.coq_GetBounds cnt hash item eqf qh qx)
      | _ -> outcome_str (fun b -> if b then "1" else "0") (Instance.coq_IsSorted cnt hash item eqf) in
    Printf.printf "%s | %s\n" res (trace_str ())
  | "CHK" :: _v :: n :: ws ->
    let n = int_of_string n in
    let (hs1, ids1, rest) = parse_pairs n ws in
    let (hs2, ids2, _) = parse_pairs n rest in
    let mk hs ids = Array.to_list (Array.init n (fun i -> (hs.(i), z_of_string ids.(i)))) in
    (* the verified checker Instance.check_sort_output (C17_sort_output_checker_sound_partial) *)
    let ok = Instance.check_sort_output (mk hs1 ids1) (mk hs2 ids2) in
    Printf.printf "%d %d\n" (if ok then 1 else 0) (if ok then 1 else 0)
  | (("HSORT" | "RSORT") as cmd) :: rest ->
    (* HSORT v n pairs  = RadixSortG R=8 grouping W=64 ;  RSORT R W g n pairs *)
    let (r, w, g, n, ws, coarse) = match cmd, rest with
      | "HSORT", v :: n :: ws -> (8, 64, true, int_of_string n, ws, (v = "P" || v = "H"))
      | _, r :: w :: g :: n :: ws -> (int_of_string r, int_of_string w, g <> "0", int_of_string n, ws, false)
      | _ -> failwith "bad" in
    let (hs, ids, _) = parse_pairs n ws in
    let l = Array.to_list (Array.init n (fun i -> (hs.(i), z_of_string ids.(i)))) in
    log := []; nlog := 0;
    let sw l i j = push (int_of_z i * 100000 + int_of_z j); SorterSort.swap l i j in
    let eqf a b = if coarse then (int_of_z a / 2 = int_of_z b / 2) else (string_of_z a = string_of_z b) in
    let res = SorterSort.coq_RadixSortG sw eqf (z_of_int r) g (z_of_int w) l in
    (match res with
     | Ok l' ->
       let body = Stdlib.String.concat "" (Stdlib.List.map (fun (c, x) -> string_of_z c ^ " " ^ string_of_z x ^ " ") l') in
       Printf.printf "%s| %s\n" body (trace_str ())
     | Stuck -> print_endline "Stuck" | Fuel -> print_endline "Fuel" | Exn -> print_endline "Exn")
  | _ -> print_endline "?"
  with e -> print_endline ("EXC " ^ Printexc.to_string e))
