// instantiation TU for cxx2coq (C03, copied from props/C18/inst_list.cpp): DataColumnList::pvCreateRaw
#include "momo/DataColumn.h"
namespace momo {
typedef DataColumnList<> CL0;
inline size_t c18_use(CL0& cl, const DataColumn<int>& c, MemManagerDefault& mm, void* raw, const void* src)
{
	size_t r = cl.GetOffset(c) + cl.GetTotalSize() + cl.GetAlignment() + cl.GetCount();
	size_t off = 0;
	r += cl.Contains(CL0::ColumnInfo(c), &off) ? off : 0;
	r += cl.IsMutable(0) ? 1 : 0;
	cl.CreateRaw(mm, raw); cl.ImportRaw(mm, cl, src, raw); cl.DestroyRaw(&mm, raw);
	return r;
}
}
