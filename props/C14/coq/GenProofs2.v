(* C14 round 7 -- theorems about the GENERATED two-object functions (cxx2coq "swap_calls" / "object_fields" / "ctor_inits":
   the second object's fields are the extra parameters <param>_<field>):
     Gen_SetCrew2     SetCrew<...,true>::Swap(SetCrew&), SetCrew(SetCrew&&)            (mData | crew_mData)
     Gen_SetCrewInl   SetCrew<...,false>::Swap(SetCrew&)                               (traits | crew_traits)
     Gen_TreeSet2     TreeSet<int>::Swap(TreeSet&)        (mCrew mCount mRootNode mNodeParams | treeSet_...)
     Gen_HashSet2     HashSet<int>::Swap(HashSet&)        (mCrew mCount mCapacity mBuckets | hashSet_...)
     Gen_DataTable2   DataTable<...>::Swap(DataTable&)    (mCrew mRaws mRawMemPool mIndexes | table_...)
     Gen_MemPool      MemPool<...>::Swap(MemPool&)        (params mData mFreeBufferHead mCachedCount mCacheHead | memPool_...)
     Gen_MemPoolData  MemPool<...>::Data::Swap(Data&)     (mgr allocCount | data_mgr data_allocCount)   -- the fc18ee9 function
     Gen_MergeToFacts callees of the `dstCount == 0` branch of TreeSet::MergeTo (clang AST)    -- the c7fda03 branch *)
From Coq Require Import ZArith Bool List String Lia.
From MomoCommon Require Import GenPrelude.
From C14 Require Import PropagationModel Model Proofs Bodies BodiesProofs Crew.
From C14 Require Gen_SetCrew Gen_SetCrew2 Gen_SetCrewInl Gen_TreeSet2 Gen_HashSet2 Gen_DataTable2 Gen_MemPool Gen_MemPoolData Gen_MergeToFacts.
Import ListNotations.
Local Open Scope Z_scope.

(* ---------------------------------------------------------------- crews *)
(* pointer crew: Swap exchanges the data pointers; the move constructor takes the source's pointer and leaves the source
   null (pvIsNull), whatever the new object's storage held before *)
Theorem gen_ptr_crew_swap_move :
  (forall a b, Gen_SetCrew2.Swap a b = (b, a)) /\
  (forall junk src, Gen_SetCrew2.MoveCtor junk src = (src, 0)) /\
  (forall junk src, Gen_SetCrew.pvIsNull (snd (Gen_SetCrew2.MoveCtor junk src)) = true).
Proof. repeat split. Qed.

(* inline crew: Swap exchanges the traits objects *)
Theorem gen_inline_crew_swap : forall t1 t2, Gen_SetCrewInl.Swap t1 t2 = (t2, t1).
Proof. reflexivity. Qed.

(* refinement to Crew.v *)
Definition ptr_of (c : pcrew) : Z := match c with PNull => 0 | PData blk _ => fst blk end.
Theorem crew_model_refines_generated :
  (forall a b, (ptr_of (fst (pcrew_swap a b)), ptr_of (snd (pcrew_swap a b))) = Gen_SetCrew2.Swap (ptr_of a) (ptr_of b)) /\
  (forall junk s, (ptr_of (fst (pcrew_move_ctor s)), ptr_of (snd (pcrew_move_ctor s))) = Gen_SetCrew2.MoveCtor junk (ptr_of s)) /\
  (forall a b, (ic_traits (fst (icrew_swap a b)), ic_traits (snd (icrew_swap a b))) = Gen_SetCrewInl.Swap (ic_traits a) (ic_traits b)).
Proof. repeat split. Qed.

(* ---------------------------------------------------------------- containers: no field is left behind *)
Theorem gen_container_swaps :
  (forall c n r p c' n' r' p', Gen_TreeSet2.Swap c n r p c' n' r' p' = (c', n', r', p', c, n, r, p)) /\
  (forall c n k b c' n' k' b', Gen_HashSet2.Swap c n k b c' n' k' b' = (c', n', k', b', c, n, k, b)) /\
  (forall c r p i c' r' p' i', Gen_DataTable2.Swap c r p i c' r' p' i' = (c', r', p', i', c, r, p, i)).
Proof. repeat split. Qed.

(* refinement: the hand model's cc_swap on the abstracted fields (crew pointer, count, storage) *)
Definition crew_ptr (c : cc) : Z := match c with Owned cr _ _ => crew_id cr | MovedFrom => 0 end.
Definition storage2 (c : cc) : Z := match c with Owned _ (_ :: _) _ => 1 | _ => 0 end.
Definition count2 (c : cc) : Z := Z.of_nat (List.length (items_of c)).
Theorem cc_swap_refines_generated :
  forall a b,
    let '(a', b') := cc_swap a b in
    Gen_TreeSet2.Swap (crew_ptr a) (count2 a) (storage2 a) (storage2 a) (crew_ptr b) (count2 b) (storage2 b) (storage2 b)
      = (crew_ptr a', count2 a', storage2 a', storage2 a', crew_ptr b', count2 b', storage2 b', storage2 b') /\
    Gen_HashSet2.Swap (crew_ptr a) (count2 a) (count2 a) (storage2 a) (crew_ptr b) (count2 b) (count2 b) (storage2 b)
      = (crew_ptr a', count2 a', count2 a', storage2 a', crew_ptr b', count2 b', count2 b', storage2 b').
Proof. intros a b. cbv beta iota zeta delta [cc_swap Gen_TreeSet2.Swap Gen_HashSet2.Swap]. split; reflexivity. Qed.

(* ---------------------------------------------------------------- MemPool (fc18ee9) *)
(* MemPool::Data::Swap ALWAYS exchanges the managers (whatever IsEqual would say) together with the allocation counts;
   MemPool::Swap exchanges params, Data, buffer list and cache.  (The generated Swap does not even mention IsEqual: the
   section variable mgr_equal offered to the translation stays unused; with the pre-fc18ee9 body it becomes a parameter and
   the statement below no longer type-checks.) *)
Theorem gen_mempool_swaps :
  (forall m a m' a', Gen_MemPoolData.Swap m a m' a' = (m', a', m, a)) /\
  (forall p d f cc_ ch p' d' f' cc' ch', Gen_MemPool.Swap p d f cc_ ch p' d' f' cc' ch' = (p', d', f', cc', ch', p, d, f, cc_, ch)).
Proof. repeat split. Qed.

(* composed: DataTable::Swap exchanges mCrew and mRawMemPool; MemPool::Swap exchanges mData; Data::Swap exchanges the manager.
   On the pair (crew the table holds, crew whose manager its raw pool uses) this is exactly tbl_swap of BodiesProofs.v --
   each table's pool keeps using the manager stored in the crew the table holds. *)
Definition table_swap_composed (a b : tbl) : tbl * tbl :=
  let '(ca, _, _, _, cb, _, _, _) := Gen_DataTable2.Swap (fst a) 0 0 0 (fst b) 0 0 0 in
  let '(ma, _, mb, _) := Gen_MemPoolData.Swap (snd a) 0 (snd b) 0 in
  ((ca, ma), (cb, mb)).
Theorem table_swap_refines_generated :
  forall a b, table_swap_composed a b = tbl_swap a b /\
    (tbl_ok a = true -> tbl_ok b = true ->
     tbl_ok (fst (table_swap_composed a b)) = true /\ tbl_ok (snd (table_swap_composed a b)) = true).
Proof.
  intros [ca ma] [cb mb]. split; [reflexivity|]. intros A B. split; assumption.
Qed.

(* ---------------------------------------------------------------- TreeSet::MergeTo, empty destination (c7fda03) *)
(* the branch is `Swap(dst); IncVersion; IncVersion; return` -- so it inherits gen_container_swaps: crew, count, root and node
   params of the two sets are exchanged TOGETHER (a node pool stays with the crew that holds its manager) *)
Definition mergeto_expected_branch : list string := ["Swap"; "IncVersion"; "IncVersion"; "return"]%string.
Theorem mergeto_empty_destination_is_swap :
  Gen_MergeToFacts.mergeto_empty_dst_branch = mergeto_expected_branch /\
  (forall c n r p c' n' r' p',
     let '(sc, sn, sr, sp, dc, dn, dr, dp) := Gen_TreeSet2.Swap c n r p c' n' r' p' in
     (dc, dp) = (c, p) /\ (sc, sp) = (c', p')).
Proof. split; [reflexivity|]. intros. cbv beta iota zeta delta [Gen_TreeSet2.Swap]. split; reflexivity. Qed.
