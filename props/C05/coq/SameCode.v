(* C05 -- ArrayShifter<SegmentedArray<T>> is the SAME code as ArrayShifter<Array<T>>: the two instantiations of the template, translated
   separately by cxx2coq (Gen_ShiftLoopsSeg.v from the SegmentedArray instantiation, Gen_ShiftLoops.v from the Array instantiation), are
   convertible -- so every theorem about the generated loops holds for SegmentedArray::Insert / Remove as well. *)
From Coq Require Import ZArith.
From MomoCommon Require Import GenPrelude.
From C05 Require Gen_ShiftLoops Gen_ShiftLoopsSeg ShiftLoopProofs.
Local Open Scope Z_scope.

Lemma shift_same_code :
  Gen_ShiftLoopsSeg.ShiftRemove = Gen_ShiftLoops.ShiftRemove /\ Gen_ShiftLoopsSeg.ShiftInsert = Gen_ShiftLoops.ShiftInsert.
Proof. split; reflexivity. Qed.

(* hence, e.g., the insert theorem for the SegmentedArray instantiation *)
Theorem seg_shift_insert_spec (items : Z -> Z) cnt cap_ index count it :
  0 <= index -> index <= cnt -> 0 <= count -> cnt + count <= cap_ -> cap_ < ShiftLoopProofs.U64 ->
  (it < index \/ cnt + count <= it) ->
  exists items', Gen_ShiftLoopsSeg.ShiftInsert items cnt cap_ index count it = Ok (tt, items', cnt + count) /\
    (forall j, j < index -> items' j = items j) /\
    (forall j, index <= j < index + count -> items' j = items it) /\
    (forall j, index + count <= j < cnt + count -> items' j = items (j - count)) /\
    (forall j, cnt + count <= j -> items' j = items j).
Proof. destruct shift_same_code as (_ & ->). exact (ShiftLoopProofs.shift_insert_spec items cnt cap_ index count it). Qed.

Theorem seg_shift_remove_spec (items : Z -> Z) cnt cap_ index count :
  0 <= index -> 0 <= count -> index + count <= cnt -> cnt <= cap_ -> cap_ < ShiftLoopProofs.U64 ->
  exists items', Gen_ShiftLoopsSeg.ShiftRemove items cnt cap_ index count = Ok (tt, items', cnt - count) /\
    (forall j, j < index -> items' j = items j) /\
    (forall j, index <= j < cnt - count -> items' j = items (j + count)) /\
    (forall j, cnt <= j -> items' j = items j).
Proof. destruct shift_same_code as (-> & _). exact (ShiftLoopProofs.shift_remove_spec items cnt cap_ index count). Qed.
