// C13 implementation side: the REAL encoders / probe step, same case format as ocaml/driver.ml
#include "private_access.h"
#include "momo/HashSet.h"
#include "momo/details/HashBucketOpen2N2.h"
#include "momo/details/HashBucketOpenN1.h"
#include "momo/details/HashBucketOpen8.h"
using namespace momo;
typedef HashSetItemTraits<uint64_t, MemManagerDefault> IT;
template<size_t M> using O2 = internal::BucketOpen2N2<IT, M, true>;
template<size_t M> using N1 = internal::BucketOpenN1<IT, M, true>;
typedef internal::BucketOpen8<IT> O8;
typedef unsigned long long ull;

template<class B> struct Raw {   // storage that is never destroyed (the destructor asserts count == 0)
	alignas(B) unsigned char buf[sizeof(B)];
	B* b;
	Raw() { b = new (buf) B(); }
};

template<size_t M> static void runN1(uint8_t x, size_t L, const std::vector<size_t>& ps)
{
	Raw<N1<M>> r; r.b->mData[M] = x;
	for (size_t p : ps) r.b->UpdateMaxProbe(p);
	printf("%u %llu\n", unsigned(r.b->mData[M]), ull(r.b->GetMaxProbe(L)));
}
static void runO8(uint8_t x, size_t L, const std::vector<size_t>& ps)
{
	Raw<O8> r; r.b->mData[7] = x;
	for (size_t p : ps) r.b->UpdateMaxProbe(p);
	printf("%u %llu\n", unsigned(r.b->mData[7]), ull(r.b->GetMaxProbe(L)));
}

// table level: a real HashSet with open-addressing buckets and a scripted hash (key -> hash code table)
struct TblHash { const std::map<uint64_t, uint64_t>* t; size_t operator()(uint64_t k) const { auto it = t->find(k); return it == t->end() ? size_t(k) : size_t(it->second); } };
static const std::map<uint64_t, uint64_t>* gTab = nullptr;
// fast-hash traits (isFastNothrowHashable stays true => HashBucketOpen8 really selects BucketOpen8) with a scripted hash
struct FastTraits8 : public momo::HashTraits<uint64_t, momo::HashBucketOpen8>
{
	size_t GetHashCode(const uint64_t& k) const { auto it = gTab->find(k); return it == gTab->end() ? size_t(k) : size_t(it->second); }
};
struct SlowTraits2 : public momo::HashTraitsStd<uint64_t, TblHash, std::equal_to<uint64_t>, momo::HashBucketOpen2N2<3>>
{
	SlowTraits2() : momo::HashTraitsStd<uint64_t, TblHash, std::equal_to<uint64_t>, momo::HashBucketOpen2N2<3>>(size_t(1), TblHash{ gTab }) {}
};
// full-load variants: capacity = every slot, so insertions must probe up to the very last bucket
struct FastTraits8Full : public FastTraits8 { size_t CalcCapacity(size_t bucketCount, size_t bucketMaxItemCount) const noexcept { return bucketCount * bucketMaxItemCount; } };
struct SlowTraits2Full : public SlowTraits2 { size_t CalcCapacity(size_t bucketCount, size_t bucketMaxItemCount) const noexcept { return bucketCount * bucketMaxItemCount; } };
template<class HT, size_t expectMax> static void runTbl(size_t n, const std::vector<std::pair<uint64_t, uint64_t>>& kh)
{
	typedef momo::HashSet<uint64_t, HT> HS;
	std::map<uint64_t, uint64_t> tab; for (auto& p : kh) tab[p.first] = p.second;
	gTab = &tab;
	static_assert(HS::Bucket::maxCount == expectMax, "unexpected bucket type selected");
	HS hs{ HT() };
	// choose a reservation that yields exactly 2^n buckets (no growth during the inserts)
	size_t want = size_t(1) << n; bool ok = false;
	for (size_t r = 1; r <= want * 8 && !ok; ++r) { HS probe{ HT() }; probe.Reserve(r); if (probe.GetBucketCount() == want) { hs.Reserve(r); ok = true; } if (probe.GetBucketCount() > want) break; }
	if (!ok || hs.GetBucketCount() != want || kh.size() > hs.GetCapacity()) { puts("skip"); return; }
	bool full = false;
	try { for (auto& p : kh) hs.Insert(p.first); }
	catch (const std::runtime_error&) { full = true; }
	if (hs.GetBucketCount() != want || hs.mBuckets->GetNextBuckets() != nullptr) { puts("skip"); return; }
	std::string out; size_t i = 0;
	auto& params = hs.mBuckets->GetBucketParams();
	for (auto& b : *hs.mBuckets)
	{
		std::vector<uint64_t> items; for (auto& it : b.GetBounds(params)) items.push_back(it);
		std::sort(items.begin(), items.end());
		size_t bound = b.GetMaxProbe(n);
		if (!items.empty() || bound != 0)
		{
			out += std::to_string(i) + ":[";
			for (size_t j = 0; j < items.size(); ++j) out += (j ? "," : "") + std::to_string(items[j]);
			out += "]:" + std::to_string(bound) + ";";
		}
		++i;
	}
	bool all = true; for (auto& p : kh) all = all && (full || hs.ContainsKey(p.first));
	printf("%s found=%s full=%s\n", out.c_str(), all ? "true" : "false", full ? "true" : "false");
}

int main()
{
	std::string line;
	while (std::getline(std::cin, line))
	{
		std::istringstream is(line); std::string cmd; is >> cmd;
		if (cmd == "o2")
		{
			ull s0, s1; is >> s0 >> s1; std::vector<size_t> ps; ull p; while (is >> p) ps.push_back(size_t(p));
			Raw<O2<3>> r; r.b->mState[0] = uint8_t(s0); r.b->mState[1] = uint8_t(s1);
			for (size_t q : ps) r.b->UpdateMaxProbe(q);
			printf("%u %u %llu %llu\n", unsigned(r.b->mState[0]), unsigned(r.b->mState[1]), ull(r.b->GetMaxProbe(0)), ull(r.b->pvGetCount()));
		}
		else if (cmd == "n1")
		{
			ull m, x, L; is >> m >> x >> L; std::vector<size_t> ps; ull p; while (is >> p) ps.push_back(size_t(p));
			switch (m) {
			case 1: runN1<1>(uint8_t(x), L, ps); break; case 2: runN1<2>(uint8_t(x), L, ps); break;
			case 3: runN1<3>(uint8_t(x), L, ps); break; case 4: runN1<4>(uint8_t(x), L, ps); break;
			case 5: runN1<5>(uint8_t(x), L, ps); break; case 6: runN1<6>(uint8_t(x), L, ps); break;
			case 7: runO8(uint8_t(x), L, ps); break;
			default: puts("?"); }
		}
		else if (cmd == "nx")
		{
			std::string kind; ull i, bc, p; is >> kind >> i >> bc >> p;
			size_t r = (kind == "o2") ? O2<3>::GetNextBucketIndex(i, 0, bc, p) : O8::GetNextBucketIndex(i, 0, bc, p);
			printf("%llu\n", ull(r));
		}
		else if (cmd == "tblm")
		{
			std::string kind; ull n, capIgnored; is >> kind >> n >> capIgnored; std::vector<std::pair<uint64_t, uint64_t>> kh; std::string tok;
			while (is >> tok) { auto c = tok.find(':'); kh.push_back({ std::stoull(tok.substr(0, c)), std::stoull(tok.substr(c + 1)) }); }
			if (kind == "o2") runTbl<SlowTraits2, 3>(n, kh); else if (kind == "o8") runTbl<FastTraits8, 7>(n, kh);
			else if (kind == "o2f") runTbl<SlowTraits2Full, 3>(n, kh); else runTbl<FastTraits8Full, 7>(n, kh);
		}
		else if (cmd == "sweep")
		{	// property predicate on the real encoders for every probe in [lo, hi): a fresh bucket and an accumulating bucket
			std::string kind; ull lo, hi; is >> kind >> lo >> hi; ull bad = 0; size_t L = 40;
			if (kind == "o2") { Raw<O2<3>> acc; size_t mx = 0;
				for (ull q = lo; q < hi && !bad; ++q) { Raw<O2<3>> r; r.b->UpdateMaxProbe(size_t(q)); if (r.b->GetMaxProbe(0) < q) bad = q;
					size_t pr = size_t((q * 2654435761ull) % (hi ? hi : 1)); acc.b->UpdateMaxProbe(pr); if (pr > mx) mx = pr; if (acc.b->GetMaxProbe(0) < mx) bad = q; } }
			else if (kind == "n1") { Raw<N1<3>> acc; size_t mx = 0;
				for (ull q = lo; q < hi && !bad; ++q) { Raw<N1<3>> r; r.b->UpdateMaxProbe(size_t(q)); if (r.b->GetMaxProbe(L) < q) bad = q;
					size_t pr = size_t((q * 2654435761ull) % (hi ? hi : 1)); acc.b->UpdateMaxProbe(pr); if (pr > mx) mx = pr; if (acc.b->GetMaxProbe(L) < mx) bad = q; } }
			else { Raw<O8> acc; size_t mx = 0;
				for (ull q = lo; q < hi && !bad; ++q) { Raw<O8> r; r.b->UpdateMaxProbe(size_t(q)); if (r.b->GetMaxProbe(L) < q) bad = q;
					size_t pr = size_t((q * 2654435761ull) % (hi ? hi : 1)); acc.b->UpdateMaxProbe(pr); if (pr > mx) mx = pr; if (acc.b->GetMaxProbe(L) < mx) bad = q; } }
			if (bad) printf("BAD %llu\n", bad); else puts("ok");
		}
		else if (cmd == "cov")
		{	// number of distinct buckets visited by the real probe sequence within 2^n probes
			std::string kind; ull n, start; is >> kind >> n >> start;
			size_t bc = size_t(1) << n; std::vector<bool> seen(bc, false); size_t idx = size_t(start), cnt = 0;
			for (size_t p = 0; p < bc; ++p)
			{
				if (p > 0) idx = (kind == "o2") ? O2<3>::GetNextBucketIndex(idx, 0, bc, p) : O8::GetNextBucketIndex(idx, 0, bc, p);
				if (idx < bc && !seen[idx]) { seen[idx] = true; ++cnt; }
			}
			printf("%llu\n", ull(cnt));
		}
		else puts("?");
	}
	return 0;
}
