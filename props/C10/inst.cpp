// instantiation TU for cxx2coq (C10): the extracted-item holder state machine and the TreeSet::MergeTo dispatch
#include "momo/HashSet.h"
#include "momo/TreeSet.h"
namespace momo { namespace internal {
typedef HashSetItemTraits<uint64_t, MemManagerDefault> C10IT;
typedef SetExtractedItem<C10IT, HashSetSettings> C10EI;
template class SetExtractedItem<C10IT, HashSetSettings>;
struct C10Creator { void operator()(uint64_t*) const {} };
struct C10Remover { void operator()(uint64_t&) const {} };
// one use of every member template so that clang instantiates the bodies
inline void c10_use(C10EI& e) { C10Creator c; C10Remover r; e.Create(c); e.Remove(r); }
// the holder of TreeSet (same class template, other item traits / settings): claimed to share the proofs -> same-code lemma
typedef TreeSetItemTraits<uint64_t, MemManagerDefault> C10TT;
typedef SetExtractedItem<C10TT, TreeSetSettings> C10ET;
template class SetExtractedItem<C10TT, TreeSetSettings>;
inline void c10_use2(C10ET& e) { C10Creator c; C10Remover r; e.Create(c); e.Remove(r); }
}}
namespace momo { template class TreeSet<uint64_t>; template class HashSet<uint64_t>; }
