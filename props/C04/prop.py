"""C04 - strongly exception-safe operations leave the container unchanged on failure.
proof : Coq theorems over the L2 resource machine (coq/Effects.v + mechanism files), all counts, all schedules
tie   : micro-correspondence - the real momo mechanisms on kit elements vs the extracted model, identical event traces
oracle: the real containers, every operation documented as strongly safe, every failure point by replay of the prefix"""
import os, re, hashlib

PARTS = {1: ['array', 'array_ic4', 'segarray', 'array_triv'],
         2: ['hset_limp4', 'hset_open8', 'hset_limp', 'hset_limp4_nv', 'hset_limp4_p4'],
         3: ['hmap_limp4', 'hmap_limp4_xc'],
         6: ['hmap_open8'],
         8: ['hmmap', 'hmmap_k3'],
         4: ['tset_n4', 'tset_n4i', 'tset_n32', 'tset_n4_nv', 'tset_n4_p4'],
         5: ['tmap_n4', 'tmap_n4_xc'],
         7: ['tmap_n32'],
         9: ['hset_openn1_1', 'hset_openn1_3', 'hset_openn1_7', 'hset_open8r', 'hmap_open8r']}
NOPS = {'hset_limp4_p4': 40, 'tset_n4_p4': 44, 'array_triv': 30, 'hset_limp4_nv': 40, 'tset_n4_nv': 44, 'hmmap_k3': 40, 'hmap_open8r': 38, 'hset_openn1_1': 38, 'hset_openn1_3': 38, 'hset_openn1_7': 40, 'hset_open8r': 40, 'hmap_limp4_xc': 38, 'tmap_n4_xc': 42, 'array': 28, 'array_ic4': 28, 'segarray': 40, 'hset_limp4': 40, 'hset_open8': 40, 'hset_limp': 40, 'hmap_limp4': 38,
        'hmap_open8': 38, 'hmmap': 30, 'tset_n4': 44, 'tset_n4i': 44, 'tset_n32': 70, 'tmap_n4': 42, 'tmap_n32': 70}
# no known findings on the current tree.  (Until b307610 the *_xc configurations - momo's DEFAULT extraCheckMode = assertion - aborted
# when a functor threw inside the post-insertion self check pvExtraCheck; now they are plain positive tests: the operation completes.)
KNOWN_KEYS = []


GEN = ['gen_openn1_add.json', 'gen_open2n2_add.json', 'gen_limp4_add.json', 'gen_arrreset.json', 'gen_xcheck_h.json', 'gen_xcheck_t.json']


def gen_cases(ctx):
    """translator validation: byte states of the real BucketOpenN1<3, both orientations> / BucketOpen2N2<3, true>, functor throwing or not"""
    r = ctx.rng; out = []
    reps = 8 if ctx.quick() else 60
    for rev in (0, 1):
        for count in range(0, 3):
            for _ in range(reps):
                by = [r.below(248) for _ in range(4)]
                for i in range(count, 3):
                    by[(2 - i) if rev else i] = 248
                by[0 if rev else 2] = 248 + count
                by[3] = r.below(256)
                for f in (0, 1):
                    out.append('genn1 - 0 0 add %d %d 0 0 0 %s %d' % (f, r.below(2 ** 64), ' '.join(map(str, by)), rev))
                    for idx in range(count):
                        out.append('genn1 - 0 0 rem %d 0 %d 0 0 %s %d' % (f, idx, ' '.join(map(str, by)), rev))
        for _ in range(reps // 2):
            by = [r.below(248) for _ in range(3)] + [r.below(256)]
            for f in (0, 1):
                for idx in range(3):
                    out.append('genn1 - 0 0 rem %d 0 %d 0 0 %s %d' % (f, idx, ' '.join(map(str, by)), rev))
    for count in range(0, 4):
        for _ in range(reps):
            st0 = r.below(256); st1 = (r.below(64) << 2) | count
            sh = [r.below(256) for _ in range(3)]; hp = [r.below(256) for _ in range(3)]
            tail = '%d %d %s %s' % (st0, st1, ' '.join(map(str, sh)), ' '.join(map(str, hp)))
            for f in (0, 1):
                if count < 3:
                    out.append('geno2 - 0 0 add %d %d 0 %d %d %s' % (f, r.below(2 ** 64), r.below(40), r.below(300), tail))
                for idx in range(3 - count, 3):
                    out.append('geno2 - 0 0 rem %d 0 %d 0 0 %s' % (f, idx, tail))
    # generated BucketLimP4<4>::AddCrt: null pointer (memPoolIndex 2 or 4), grow (count == memPoolIndex 1..3), in place (count < memPoolIndex);
    # f: 0 nothing fails, 1 the memory manager under the pools throws bad_alloc, 2 the item creator throws
    for (nn, count, mpi) in [(0, 0, 2), (0, 0, 4), (1, 1, 1), (1, 2, 2), (1, 3, 3), (1, 1, 2), (1, 1, 3), (1, 2, 3), (1, 1, 4), (1, 2, 4), (1, 3, 4)]:
        for _ in range(max(2, reps // 2)):
            by = [r.below(128) if i < count else 128 + r.below(128) for i in range(4)] + [128 + r.below(128), 128 + r.below(128)]
            for f in (0, 1, 2):
              for hcnt in (4,):   # hashCount: 4 in this build (no pointer bits are stolen); the theorems hold for 4..8
                out.append('genp4 - 0 %d add %d %d %d %d %d %d %s' % (hcnt, f, r.below(2 ** 64), mpi, r.below(40), r.below(300), nn, ' '.join(map(str, by))))
    # generated Array<.., ArraySettings<4>>::Data::Reset / pvReset: external array (cap0 > 4), new capacity internal (<= 4: pvReset, the creator
    # writes w items of value v over the union word that holds mCapacity) or external; f: 0 nothing fails, 1 the creator throws after its
    # writes, 2 the allocation throws
    for _ in range(reps * 2):
        cap0 = 5 + r.below(40); cnt0 = r.below(cap0 + 1)
        for capacity in (r.below(5), 5 + r.below(60)):
            count = r.below(capacity + 1); w = r.below(count + 1); v = r.below(2 ** 63)
            for f in (0, 1, 2):
                out.append('genrst - 0 0 rst %d %d %d %d %d %d %d' % (f, cap0, cnt0, capacity, count, w, v))
    # generated HashSet / TreeSet ::pvExtraCheck against the real private member: functor throwing or not, consistent or not (honest answer false)
    for kind in 'ht':
        for f in (0, 1):
            for mode in (0, 1):
                out.append('genxc - 0 0 %s %d %d' % (kind, f, mode))
    return out


def regen_facts(ctx):
    """AST facts (astfacts04.py): the catch blocks of the delegating copy / initializer-list constructors (806b9fe), DataTable::pvFill (91ea186) and
    the row loop of HashMultiMap's copy constructor (84c9298) -> coq/Gen_C04Facts.v; coq/FactsTie.v states the theorems at these values"""
    import importlib.util
    out = os.path.join(ctx.cdir, 'Gen_C04Facts.v')
    try:
        sp = importlib.util.spec_from_file_location('astfacts04', os.path.join(ctx.pdir, 'astfacts04.py'))
        mod = importlib.util.module_from_spec(sp); sp.loader.exec_module(mod)
        txt = mod.facts_text(os.path.join(ctx.pdir, 'inst_facts.cpp'), ctx.repo, ctx.root)
        if not os.path.exists(out) or open(out).read() != txt:
            open(out, 'w').write(txt)
        ctx.tie_obligations.append({'name': 'AST facts Gen_C04Facts (catch blocks of the copying constructors, pvFill, HashMultiMap row loop)', 'ok': True,
                                    'sha256': hashlib.sha256(txt.encode()).hexdigest()[:16]})
    except Exception as e:
        if os.path.exists(out):
            os.remove(out)      # a stale fact file must not keep the proofs green
        ctx.tie_obligations.append({'name': 'AST facts Gen_C04Facts', 'ok': False, 'error': str(e)[:400]})
        ctx.stage('regen-facts', False, str(e)[:400])


def micro_cases(ctx):
    cases = gen_cases(ctx)
    N = 6 if ctx.quick() else 10
    for c in 'NCT':
        for n in range(0, N + 1):
            for k in [-1] + list(range(0, 2 * n + 5)):
                cases.append('relcreate %s %d %d' % (c, n, k))
                cases.append('relrange %s %d %d' % (c, n, k))
                cases.append('arrgrow %s %d %d %d' % (c, n, k, n + 1 + (n + k) % 4))
                cases.append('arraddback %s %d %d' % (c, n, k))
                if n >= 1:
                    cases.append('copyctor %s %d %d' % (c, n, k))
                if n <= 4:                             # SetCount(count, item): shrink / in place / with growth
                    for (cap, newc) in ((n + 2, max(0, n - 1)), (n + 2, n + 2), (n, n + 2), (n + 1, n + 3)):
                        cases.append('setcnt %s %d %d %d %d' % (c, n, k, cap, newc))
                if n <= 4:
                    cases.append('intshrink %s %d %d' % (c, n, k))
        for n, npos in ((2, 3), (4, 5)):          # real TreeSet<TreeNode<4,2>> inserts into a full root leaf: grow / split
            for pos in range(npos):
                for k in range(-1, 12):
                    cases.append('treeins %s %d %d %d' % (c, n, k, pos))
        if c == 'N':                               # real continuous Node::Remove with a remover that may throw (shift-back)
            for n in range(1, 5):
                for index in range(n):
                    for k in (-1, 0, 1):
                        cases.append('noderemove N %d %d %d' % (n, k, index))
        for k in range(-1, 6):                     # real HashSet<LimP4>::Insert into a set without buckets (pvAddGrow, !hasBuckets)
            cases.append('hashfirst %s 1 %d' % (c, k))
        for kind, cap in (('n1', 4), ('n1r', 4), ('o2', 3)):   # real BucketOpenN1<4> (both orientations) / BucketOpen2N2<3> ::AddCrt
            for n in range(0, cap):                # incl. the bucket holding maxCount - 1 items (count byte = last short hash)
                for k in (-1, 0, 1):
                    cases.append('openadd %s %d %d %s' % (c, n, k, kind))
        for n in range(1, 4):                      # real BucketLimP4::AddCrt into a block with a free slot
            for k in (-1, 0, 1):
                cases.append('bucketadd %s %d %d' % (c, n, k))
        for k in range(-1, 5):
            cases.append('copyexec %s 1 %d' % (c, k))
            cases.append('moveexec %s 1 %d' % (c, k))
            for cv in 'NCT':
                cases.append('kvreloc %s 1 %d %s' % (c, k, cv))
                cases.append('kvreplace %s 1 %d %s' % (c, k, cv))
                cases.append('kvreprel %s 1 %d %s' % (c, k, cv))
            for mv in 'mc':
                cases.append('kvcreate %s 1 %d %s' % (c, k, mv))
    return cases


def oracle_cases(ctx, scale):
    """(part, case line).  quick: ~200 histories with sampled failure points; thorough: complete enumeration"""
    r = ctx.rng
    out = []
    mode = 'q' if ctx.quick() and scale == 1 else 't'
    per = 4 * scale if ctx.quick() else 24
    for part, cfgs in PARTS.items():
        for cfg in cfgs:
            cats = 'NCTXY' if cfg in ('hmap_limp4', 'hmap_open8', 'hmmap', 'hmmap_k3', 'tmap_n4', 'tmap_n32') else ('R' if cfg == 'array_triv' else 'NCT')
            for c in cats:
                for i in range(per):
                    nops = NOPS[cfg] if (i % 3 or cfg.startswith('h') or cfg.startswith('t')) else max(6, NOPS[cfg] // 2)
                    out.append((part, '%s %s %s %d %d' % (cfg, c, mode, r.below(10 ** 9), nops)))
    return out


def run_part(ctx, exe, lines):
    """run the case lines through one harness; a case that aborts the process is reported and the rest restarted"""
    res = {}
    todo = list(lines)
    while todo:
        path = os.path.join(ctx.build, 'oracle_%s.cases' % os.path.basename(exe))
        open(path, 'w').write('\n'.join(todo) + '\n')
        rc, outl, err = ctx.run_lines([exe], path, timeout=1500)
        for c, o in zip(todo, outl):
            res[c] = o
        done = len(outl)
        if done >= len(todo):
            break
        if not (done > 0 and outl[-1].startswith('VIOL abort')):
            # died while running todo[done] without our handler (ASan report, segfault, timeout)
            res[todo[done]] = 'VIOL harness died rc=%s: %s' % (rc, (err or '')[-400:].replace('\n', ' | '))
            done += 1
        todo = todo[done:]
    return res


def classify(cfg, line):
    for key, pred in KNOWN_KEYS:
        if pred(cfg, line):
            return key
    return None


DIST = {}; OPS = {}; MICRO = {}
DISTNAME = {0: 'IDENT', 1: 'CONST', 2: 'LOWBITS', 3: 'HIGHBITS', 4: 'MULT', 5: 'MOD7'}
OPNAME = {0: 'add/insert(const&)', 1: 'add/insert(&&)', 2: 'remove(key)/RemoveBack', 3: 'extract', 4: 'reserve', 5: 'shrink', 6: 'SetCount(n)',
          7: 'SetCount(n,item)', 8: 'copy-construct', 9: 'copy-assign', 10: 'aux-insert', 11: 'clear', 12: 'operator[]', 13: 'RemoveKey',
          14: 'AddVar/InsertVar', 15: 'extract+Insert(ExtractedItem&&)', 16: 'ctor(count,item)', 17: 'ctor(begin,end)', 18: 'ctor(initializer_list)',
          19: 'Add(position,item)', 20: 'Remove(position)', 21: 'Add(keyIter,value)', 22: 'RemoveValues'}


def oracle(ctx, exes, cases):
    tot = {'histories': 0, 'ops': 0, 'points': 0, 'thrown': 0, 'nontrivial_ops': 0, 'swallowed': 0, 'resource_changed': 0}
    per_cfg = {}
    bad = []
    by_part = {}
    for part, line in cases:
        by_part.setdefault(part, []).append(line)
    for part, lines in sorted(by_part.items()):
        exe = exes.get('h%d' % part)
        if not exe:
            continue
        res = run_part(ctx, exe, lines)
        for line in lines:
            out = res.get(line, '<missing>')
            cfg = line.split()[0]
            tot['histories'] += 1
            m = re.match(r'ok ops=(\d+) points=(\d+) thrown=(\d+) nontrivial=(\d+) swallowed=(\d+) reschg=(\d+)', out)
            if m:
                o, p, t, n, s, rc_ = map(int, m.groups())
                m2 = re.search(r'fk=(\d+)/(\d+)/(\d+) maxcount=(\d+) dist=(\d+) opk=(\S*)', out)
                if m2:
                    dd = DIST.setdefault(cfg, {'exceptions_alloc': 0, 'exceptions_copy': 0, 'exceptions_functor': 0, 'max_count_at_failure': 0,
                                                'swallowed_failures': 0, 'hash_distributions': {}, 'categories': {}})
                    dd['exceptions_alloc'] += int(m2.group(1)); dd['exceptions_copy'] += int(m2.group(2)); dd['exceptions_functor'] += int(m2.group(3))
                    dd['max_count_at_failure'] = max(dd['max_count_at_failure'], int(m2.group(4))); dd['swallowed_failures'] += s
                    dn = DISTNAME.get(int(m2.group(5)), '?'); dd['hash_distributions'][dn] = dd['hash_distributions'].get(dn, 0) + 1
                    cat = line.split()[1]; dd['categories'][cat] = dd['categories'].get(cat, 0) + 1
                    for tok in m2.group(6).split(','):
                        if tok:
                            k, a, b = tok.split(':'); nm = OPNAME.get(int(k), k)
                            e = OPS.setdefault(nm, [0, 0]); e[0] += int(a); e[1] += int(b)
                tot['ops'] += o; tot['points'] += p; tot['thrown'] += t; tot['nontrivial_ops'] += n; tot['swallowed'] += s
                tot['resource_changed'] += rc_
                d = per_cfg.setdefault(cfg + '/' + line.split()[1], [0, 0, 0]); d[0] += 1; d[1] += p; d[2] += n
                ctx.evaluations += p
                if n > 0:
                    ctx.nontrivial.add(line)
            else:
                bad.append((part, line, out, classify(cfg, out)))
    return tot, per_cfg, bad


def _stamp(ctx, src, flags):
    """hash of everything a harness build depends on: its source, kit.h / private_access.h, every momo header, the flags, the tier"""
    import hashlib, glob
    h = hashlib.sha256()
    files = [os.path.join(ctx.pdir, src)] + sorted(glob.glob(os.path.join(ctx.root, 'harness', '*.h'))) + \
        sorted(glob.glob(os.path.join(ctx.repo, 'include', 'momo', '**', '*.h'), recursive=True))
    for f in files:
        h.update(f.encode()); h.update(open(f, 'rb').read())
    h.update(repr((list(flags), ctx.tier)).encode())
    return h.hexdigest()


def build(ctx):
    """build micro + the five oracle parts in parallel; an executable is reused only if the hash of ALL its inputs is unchanged"""
    dbg = ['-g0'] if ctx.quick() else []   # (-O0 was measured: compile 19 s -> 10 s per heavy part, but the oracle then RUNS 4x longer on every run: net loss)
    # heaviest translation units first (8 compile at a time): the two that wait must not be the long ones
    order = sorted(PARTS, key=lambda p: -len(PARTS[p]))
    jobs = [('harness.cpp', 'h%d' % p, ['-DPART=%d' % p] + dbg) for p in order[:3]] + [('micro.cpp', 'micro', dbg)] + \
           [('harness.cpp', 'h%d' % p, ['-DPART=%d' % p] + dbg) for p in order[3:]]
    exes = {}; todo = []
    for (src, exe, flags) in jobs:
        out = os.path.join(ctx.build, exe + ('' if ctx.quick() else '.san'))
        st = _stamp(ctx, src, flags)
        sf = out + '.stamp'
        if os.path.exists(out) and os.path.exists(sf) and open(sf).read() == st and os.environ.get('VERIF_NOCACHE') != '1':
            exes[exe] = out
        else:
            if os.path.exists(sf): os.remove(sf)
            todo.append((src, exe, flags, st, sf))
    if todo:
        built = ctx.cxx_many([(s, e, f) for (s, e, f, _, _) in todo])
        for (s, e, f, st, sf) in todo:
            exes[e] = built.get(e)
            if exes[e]:
                open(sf, 'w').write(st)
    micro = exes.pop('micro')
    if micro is None:
        ctx.stage('build-micro', False, getattr(ctx, 'last_cxx_error', ''))
    missing = [k for k, v in exes.items() if v is None]
    if missing:
        ctx.stage('build-harness', False, 'parts %s do not build: %s' % (missing, getattr(ctx, 'last_cxx_error', '')))
    return micro, exes


def replay(ctx, rp):
    micro, exes = build(ctx)
    if rp.get('kind') == 'micro':
        if not (micro and ctx.extract()):
            print('cannot build micro harness / model'); return 2
        mism, _ = ctx.correspond('replay', [rp['case']], [micro], [ctx.model_exe], stage=False)
        print('case:', rp['case'])
        if mism:
            print('impl :', mism[0][2]); print('model:', mism[0][3])
            print('VIOLATION property=C04 replay=%s' % ctx.replay); return 1
        print('traces agree'); return 0
    case = rp.get('case')
    if not case:
        print('replay has no concrete case (no-failing-input-found): broken stages were', list(rp.get('broken', {}).keys())); return 1
    exe = exes.get('h%d' % rp.get('part', 0))
    if not exe:
        print('harness does not build'); return 2
    res = run_part(ctx, exe, [case])
    out = res.get(case, '<missing>')
    print('case:', case, '\nimplementation:', out)
    if not out.startswith('ok '):
        print('VIOLATION property=C04 replay=%s' % ctx.replay); return 1
    print('property holds on this case'); return 0


def run(ctx):
    ctx.trusted += ['tools/cxx2coq.py + clang 14 JSON AST for the generated part (validated on every run against the real functions)',
                    'hand-written L2 resource machine (coq/Effects.v) and mechanism models; validated on every run by micro-correspondence '
                    '(identical event traces and final cell states against the real momo code on kit elements)',
                    'extraction: ExtrOcamlBasic only (no Extract Constant), OCaml 4.13.1',
                    'g++ 12 -std=c++17, harness/kit.h instrumentation, harness reaches private members via #define private public']
    ctx.assumptions += ['elements obey the kit protocol: a failing copy / throwing move leaves its source and destination untouched; destructors do not throw',
                        'a type with a throwing MOVE constructor is used with an ObjectRelocator that declares it not nothrow-relocatable '
                        '(momo on GCC/Clang treats every type declaring a move constructor as nothrow relocatable; a throwing move inside such a relocation is std::terminate, outside the property)',
                        'maps are exercised with extraCheckMode = nothing (with the default assertion mode pvExtraCheck swallows a functor exception and asserts; reported)',
                        'documented exceptions honoured: Array/SegmentedArray Insert/Remove, multi-item Insert, predicate Remove, Merge*, Key&& argument, map Remove value (items 4/5)']
    # T-gen: BucketOpenN1 / BucketOpen2N2 ::AddCrt and ::Remove, BucketLimP4::AddCrt / pvAdd0 / pvAdd, Array::Data::Reset / pvReset are regenerated from
    # /repo's headers (functor / constructor of a guard / RelocateCreate = steps that may throw; catch-and-rethrow handlers translated)
    ctx.regen(GEN)
    regen_facts(ctx)
    # the C++ builds (9 translation units, in parallel) run concurrently with the Coq build
    import threading
    box = {}
    th = threading.Thread(target=lambda: box.update(r=build(ctx)))
    th.start()
    ctx.prove()
    th.join()
    micro, exes = box.get('r', (None, {}))
    have_model = ctx.stages.get('prove', {}).get('ok') and ctx.extract()
    if have_model and micro:
        cases = micro_cases(ctx)
        for c_ in cases:
            MICRO[c_.split()[0]] = MICRO.get(c_.split()[0], 0) + 1
        mism, _ = ctx.correspond('micro', cases, [micro], [ctx.model_exe])
        ctx.tie_obligations.append({'name': 'event traces + final cells of the model == real momo mechanisms on %d (mechanism, category, count, k) cases' % len(cases),
                                    'ok': not mism})
        ngen = len([c for c in cases if c.startswith('gen')])
        ngen = len([c for c in cases if c.startswith('genn1') or c.startswith('geno2')])
        ctx.tie_obligations.append({'name': 'generated Gallina (AddCrt / Remove of BucketOpenN1, BucketOpen2N2, throwing and non-throwing functor) == real buckets, every byte, on %d cases' % ngen,
                                    'ok': not [m for m in mism if m[1].startswith('genn1') or m[1].startswith('geno2')]})
        np4 = len([c for c in cases if c.startswith('genp4')])
        ctx.tie_obligations.append({'name': 'generated Gallina (BucketLimP4::AddCrt / pvAdd0 / pvAdd; nothing fails / pool allocation throws / creator throws) == real bucket: completed flag, '
                                            'every byte, state bits, pointer changed, blocks handed out by the pools, on %d cases' % np4,
                                    'ok': not [m for m in mism if m[1].startswith('genp4')]})
        nrst = len([c for c in cases if c.startswith('genrst')])
        ctx.tie_obligations.append({'name': 'generated Gallina (Array::Data::Reset / pvReset with internal capacity 4; creator overwrites the union word and throws / allocation throws) == real '
                                            'Data::Reset: completed flag, mItems, count, reported capacity, live blocks, on %d cases' % nrst,
                                    'ok': not [m for m in mism if m[1].startswith('genrst')]})
        nxc = len([c for c in cases if c.startswith('genxc')])
        ctx.tie_obligations.append({'name': 'generated Gallina (HashSet / TreeSet ::pvExtraCheck; functor throwing or not, container consistent or not) == the real private member, on %d cases' % nxc,
                                    'ok': not [m for m in mism if m[1].startswith('genxc')]})
        for (i, c, a, b) in mism[:3]:
            ctx.violation('model and implementation traces disagree', {'kind': 'micro', 'case': c, 'impl': a, 'model': b,
                          'cmd': 'echo "%s" | build/C04/micro' % c}, found_input=True)
        ctx.coverage['micro_cases'] = len(cases)
    # oracle on the real containers (always); bigger generator when a stage broke (= search stage)
    broke = any(not s['ok'] for s in ctx.stages.values())
    if broke:
        ctx.log('a stage broke: searching the real containers with the complete failure-point enumeration')
    cases = oracle_cases(ctx, 3 if broke else 1)
    tot, per_cfg, bad = oracle(ctx, exes, cases)
    unknown = [b for b in bad if b[3] is None]
    ctx.stage('oracle', not unknown, unknown[0][2] if unknown else '')
    seen = set()
    for (part, line, out, key) in bad:
        tag = key or out[:60]
        if tag in seen and key:
            continue
        seen.add(tag)
        if len([1 for t in seen]) > 6:
            break
        ctx.violation(out, {'part': part, 'case': line, 'impl_output': out, 'cmd': 'echo "%s" | build/C04/h%d' % (line, part)},
                      found_input=True, key=key)
    ctx.coverage['oracle'] = tot
    ctx.coverage['input_distribution'] = {
        'per_config_and_category': {k: {'histories': v[0], 'failure_points': v[1], 'ops_with_growth': v[2]} for k, v in sorted(per_cfg.items())},
        'per_config_measured': DIST,
        'per_operation': {k: {'instances': v[0], 'exceptions_checked': v[1]} for k, v in sorted(OPS.items())},
        'micro_cases_per_mechanism': MICRO}
    for p, line in cases[::max(1, len(cases) // 6)][:6]:
        ctx.add_sample(line)
    return ctx.finish(rule=RULE)


RULE = ('micro cases = every (mechanism, element category N/C/T, count 0..6 (10 thorough), failure index k incl. none); oracle cases = random '
        'histories (config x category x seed) of operations documented as strongly exception-safe, for every op instance the failure points '
        'k of each kind (allocation / copy-or-throwing-move / functor) by replay of the prefix - quick: k in {0,1,mid,random,last}, thorough: all k; '
        'evaluations = failure points executed; distinct = distinct history line; non-trivial = history containing at least one op instance '
        'that allocates and performs >= 2 copies/moves/functor calls (growth, rehash, node split/merge, copy construction)')
