// instantiation TU for cxx2coq (C04): Array<.., ArraySettings<4>>::Data::Reset / pvReset -- the item creator writes into the internal
// buffer, which shares a union with mCapacity; the catch handler restores the capacity before rethrowing (commit f340ccf)
#include "momo/Array.h"
namespace momo {
typedef Array<uint64_t, MemManagerDefault, ArrayItemTraits<uint64_t, MemManagerDefault>, ArraySettings<4>> C04Arr;
inline void c04_use_arr(C04Arr& a) { a.Reserve(100); a.SetCount(3); a.Shrink(); }
}
