(* C02 -- Remove(begin, end) / pvRemoveRange: border truncations, the common parent, the saved position *)
From Coq Require Import List ZArith Arith Lia Bool.
From C02 Require Import BTreeModel BTreeBase SplitSeg BTreeSearch BTreeIter BTreeAdd BTreeRemove BTreeCtx BTreeRemove2 BTreeTrack BTreeRemove3.
Import ListNotations.

Section Range.
Variable maxCap : nat.
Hypothesis Hpos : 0 < maxCap.
Notation shape := (shape maxCap).

(* ---------- the left border: everything up to (not including) position (q, k) survives ---------- *)
Lemma left_edit_spec q : forall d n k,
  shape d n -> valid d q n k ->
  shape d (left_edit q k n) /\ flatten (left_edit q k n) = before q n k.
Proof.
  induction q as [|c q IH]; intros d n k Sh V.
  - cbn [left_edit before valid] in *. unfold trunc_right. destruct (is_leaf n) eqn:Lf.
    + pose proof (shape_leaf _ _ _ Sh Lf). subst d. pose proof Sh as (A1 & A2 & A3). rewrite A3, firstn_nil. split.
      * cbn [BTreeBase.shape]. unfold n_count in *. cbn [n_items n_cap n_children]. rewrite firstn_length. repeat split; auto; lia.
      * reflexivity.
    + destruct (shape_internal _ _ _ Sh Lf) as [dd ->]. pose proof Sh as (H1 & H2 & L & F & Cp).
      destruct (shape_child_ex _ _ _ k Sh V) as (ch & Ech & _). split.
      * cbn [BTreeBase.shape]. unfold n_count in *. cbn [n_items n_cap n_children]. rewrite !firstn_length.
        split; [lia|]. split; [lia|]. split; [lia|]. split; [apply Forall_firstn; exact F | exact Cp].
      * cbn [flatten]. rewrite <- firstn_map'.
        assert (E : firstn (S k) (map flatten (n_children n)) = firstn k (map flatten (n_children n)) ++ [flatten ch]).
        { destruct (nth_error_split _ _ _ Ech) as [Ecs Lc]. rewrite Ecs at 1. rewrite map_app. cbn [map].
          replace (S k) with (k + 1) by lia. rewrite (firstn_app_exact k 1) by (rewrite map_length; exact Lc).
          cbn [firstn]. rewrite firstn_map'. reflexivity. }
        rewrite E. rewrite <- (app_nil_r (firstn k (n_items n))).
        rewrite interleave_app by (rewrite !firstn_length, map_length; unfold n_count in *; lia).
        cbn [interleave]. rewrite (nth_flat n k ch Ech). reflexivity.
  - destruct (valid_cons _ _ _ _ _ V) as (d' & ch & -> & Ec & V'). pose proof Sh as (H1 & H2 & L & F & Cp).
    pose proof (shape_child _ _ _ _ _ Sh Ec) as Sch. destruct (IH d' ch k Sch V') as [Se Fe].
    cbn [left_edit before]. rewrite Ec.
    assert (Hc : c <= n_count n) by (apply nth_error_lt in Ec; lia).
    assert (Lc : length (firstn c (n_children n)) = c) by (apply firstn_length_le; lia).
    split.
    + cbn [BTreeBase.shape]. unfold n_count in *. cbn [n_items n_cap n_children]. rewrite app_length, Lc, firstn_length_le by lia.
      cbn [length]. split; [lia|]. split; [lia|]. split; [lia|]. split; [|exact Cp].
      apply Forall_app. split; [apply Forall_firstn; exact F | constructor; auto].
    + cbn [flatten]. rewrite map_app. cbn [map]. rewrite <- (app_nil_r (firstn c (n_items n))).
      rewrite interleave_app by (rewrite map_length, Lc, firstn_length_le; unfold n_count in *; lia).
      cbn [interleave]. rewrite Fe. unfold pre. rewrite firstn_map'. reflexivity.
Qed.

(* ---------- the right border: everything after position (q, i) survives ---------- *)
Lemma right_edit_spec q : forall d n i,
  shape d n -> valid d q n i -> has_item q n i ->
  shape d (right_edit q (S i) n) /\ flatten (right_edit q (S i) n) = tl (after q n i).
Proof.
  induction q as [|c q IH]; intros d n i Sh V H.
  - cbn [right_edit after valid has_item] in *. unfold trunc_left.
    destruct (nth_error_ex (n_items n) i H) as [x Ex]. destruct (is_leaf n) eqn:Lf.
    + pose proof (shape_leaf _ _ _ Sh Lf). subst d. pose proof Sh as (A1 & A2 & A3). rewrite A3, skipn_nil. split.
      * cbn [BTreeBase.shape]. unfold n_count in *. cbn [n_items n_cap n_children]. rewrite skipn_length. repeat split; auto; lia.
      * rewrite (skipn_head' _ _ _ Ex). reflexivity.
    + destruct (shape_internal _ _ _ Sh Lf) as [dd ->]. pose proof Sh as (H1 & H2 & L & F & Cp). split.
      * cbn [BTreeBase.shape]. unfold n_count in *. cbn [n_items n_cap n_children]. rewrite !skipn_length.
        split; [lia|]. split; [lia|]. split; [lia|]. split; [apply Forall_skipn; exact F | exact Cp].
      * cbn [flatten]. unfold post. rewrite (skipn_head' _ _ _ Ex). cbn [tailpart tl]. rewrite skipn_map'. reflexivity.
  - destruct (valid_cons _ _ _ _ _ V) as (d' & ch & -> & Ec & V'). pose proof Sh as (H1 & H2 & L & F & Cp).
    cbn [has_item] in H. rewrite Ec in H.
    pose proof (shape_child _ _ _ _ _ Sh Ec) as Sch. destruct (IH d' ch i Sch V' H) as [Se Fe].
    destruct (after_item maxCap d' q ch i Sch V' H) as (x & tl0 & _ & Ea).
    cbn [right_edit after]. rewrite Ec.
    assert (Hc : c <= n_count n) by (apply nth_error_lt in Ec; lia).
    split.
    + cbn [BTreeBase.shape]. unfold n_count in *. cbn [n_items n_cap n_children length]. rewrite !skipn_length.
      split; [lia|]. split; [lia|]. split; [lia|]. split; [|exact Cp].
      constructor; [exact Se | apply Forall_skipn; exact F].
    + cbn [flatten map]. rewrite interleave_cons, Fe, Ea. cbn [tl app]. unfold post. rewrite skipn_map'. reflexivity.
Qed.

(* ---------- paths: contexts and leaf_pos through a prefix ---------- *)
Lemma ctxb_app q : forall n nd q', node_at q n = Some nd -> ctxb (q ++ q') n = ctxb q n ++ ctxb q' nd.
Proof.
  induction q as [|c q IH]; intros n nd q' E; simpl in *.
  - inversion E; reflexivity.
  - destruct (nth_error (n_children n) c) as [ch|]; [|discriminate]. rewrite (IH ch nd q' E), <- app_assoc. reflexivity.
Qed.

Lemma leaf_pos_app cp : forall d r com rest j,
  valid d cp r 0 -> node_at cp r = Some com ->
  leaf_pos d (cp ++ rest) r j = (cp ++ fst (leaf_pos (d - length cp) rest com j), snd (leaf_pos (d - length cp) rest com j)).
Proof.
  induction cp as [|c cp IH]; intros d r com rest j V E.
  - simpl in *. inversion E; subst. rewrite Nat.sub_0_r. destruct (leaf_pos d rest com j); reflexivity.
  - destruct (valid_cons _ _ _ _ _ V) as (d' & ch & -> & Ec & V'). cbn [node_at] in E. rewrite Ec in E.
    cbn [app leaf_pos]. rewrite Ec. cbn [Nat.pred length Nat.sub]. rewrite (IH d' ch com rest j V' E).
    destruct (leaf_pos (d' - length cp) rest com j). reflexivity.
Qed.

(* the items before the gap in front of child k (internal node) / item k (leaf) of the node at q *)
Definition gapb (q : list nat) (n : node) (k : nat) : list Z :=
  ctxb q n ++ match node_at q n with
              | Some nd => if is_leaf nd then firstn k (n_items nd) else pre nd k
              | None => []
              end.

Lemma path_snoc q : forall d n c, shape d n -> valid d (q ++ [c]) n 0 ->
  valid d q n c /\ exists nd ch, node_at q n = Some nd /\ is_leaf nd = false /\ nth_error (n_children nd) c = Some ch.
Proof.
  induction q as [|c0 q IH]; intros d n c Sh V.
  - cbn [app] in V. destruct (valid_cons _ _ _ _ _ V) as (d' & ch & -> & Ec & _).
    split; [cbn [valid]; apply nth_error_lt in Ec; destruct Sh as (_ & _ & L & _); lia|].
    exists n, ch. repeat split; auto. eapply shape_S_internal; eauto.
  - cbn [app] in V. destruct (valid_cons _ _ _ _ _ V) as (d' & ch0 & -> & Ec & V').
    destruct (IH d' ch0 c (shape_child _ _ _ _ _ Sh Ec) V') as (Vq & nd & ch & En & Lf & Ech).
    split; [cbn [valid]; rewrite Ec; exact Vq|]. exists nd, ch. cbn [node_at]. rewrite Ec. auto.
Qed.

Lemma gapb_snoc q d n c : shape d n -> valid d (q ++ [c]) n 0 -> gapb (q ++ [c]) n 0 = gapb q n c.
Proof.
  intros Sh V. destruct (path_snoc q d n c Sh V) as (_ & nd & ch & En & Lf & Ech).
  unfold gapb. rewrite (ctxb_app q n nd [c] En), node_at_app, En. cbn [node_at ctxb]. rewrite Ech, Lf.
  destruct (is_leaf ch); [cbn [firstn] | unfold pre; cbn [firstn zipcat]]; rewrite !app_nil_r; reflexivity.
Qed.

(* `while (itemIndex1 == 0) { pvToParent(node1, itemIndex1); if (node1 == comNode) break; }` keeps the gap *)
Lemma climb0_spec : forall rq d n idx,
  shape d n -> valid d (rev rq) n idx -> rq <> [] ->
  valid d (rev (fst (climb0 rq idx))) n (snd (climb0 rq idx)) /\
  gapb (rev (fst (climb0 rq idx))) n (snd (climb0 rq idx)) = gapb (rev rq) n idx /\
  (fst (climb0 rq idx) <> [] -> 0 < snd (climb0 rq idx)) /\
  (exists ext, rev rq = rev (fst (climb0 rq idx)) ++ ext /\
               (fst (climb0 rq idx) = [] -> exists ext', ext = snd (climb0 rq idx) :: ext')).
Proof.
  induction rq as [|c rq IH]; intros d n idx Sh V Hne; [congruence|].
  destruct idx as [|idx'].
  - cbn [climb0]. cbn [rev] in V.
    assert (V0 : valid d (rev rq ++ [c]) n 0) by exact V.
    destruct (path_snoc (rev rq) d n c Sh V0) as (Vq & nd & ch & En & Lf & Ech).
    destruct rq as [|c' rq'].
    + cbn [fst snd rev app] in *. split; [exact Vq|]. split; [symmetry; apply (gapb_snoc [] d n c Sh V0)|].
      split; [congruence|]. exists [c]. split; [reflexivity|]. intros _. exists []. reflexivity.
    + destruct (IH d n c Sh Vq ltac:(discriminate)) as (A & B & C & ext & E1 & E2).
      split; [exact A|]. split; [rewrite B; symmetry; apply (gapb_snoc _ d n c Sh V0)|]. split; [exact C|].
      exists (ext ++ [c]). cbn [rev]. split; [rewrite E1 at 1; rewrite app_assoc; reflexivity|].
      intros H0. destruct (E2 H0) as [ext' ->]. exists (ext' ++ [c]). reflexivity.
  - cbn [climb0 fst snd]. split; [exact V|]. split; [reflexivity|]. split; [intros _; lia|].
    exists []. split; [rewrite app_nil_r; reflexivity|]. intros H0. congruence.
Qed.

(* ---------- the left side seen from the common parent ---------- *)
Definition ci_of (rest : list nat) (i : nat) : nat := match rest with [] => i | c :: _ => c end.

Lemma leaf_pos_head rest : forall d n i, shape (S d) n -> valid (S d) rest n i ->
  exists t, fst (leaf_pos (S d) rest n i) = ci_of rest i :: t.
Proof.
  intros d n i Sh V. destruct rest as [|c rest]; cbn [leaf_pos ci_of].
  - rewrite (shape_S_internal _ _ _ Sh). cbn [valid] in V.
    destruct (shape_child_ex _ _ _ i Sh V) as (ch & E & _). rewrite E. destruct (rightmost (Nat.pred (S d)) ch) as [l0 n0]. exists l0. reflexivity.
  - destruct (valid_cons _ _ _ _ _ V) as (d' & ch & Ed & Ec & V'). rewrite Ec. destruct (leaf_pos (Nat.pred (S d)) rest ch i) as [l0 n0]. exists l0. reflexivity.
Qed.

Lemma left_side dc com rest1 i1 :
  shape (S dc) com -> valid (S dc) rest1 com i1 ->
  let q := fst (leaf_pos (S dc) rest1 com i1) in let i := snd (leaf_pos (S dc) rest1 com i1) in
  let rq1 := fst (climb0 (rev q) i) in let k1 := snd (climb0 (rev q) i) in
  let q1 := rev rq1 in let ci1 := ci_of rest1 i1 in
  ci1 <= n_count com /\
  match q1 with
  | [] => k1 = ci1 /\ before rest1 com i1 = pre com ci1
  | c0 :: t =>
      c0 = ci1 /\ 0 < k1 /\
      exists ch nd1, nth_error (n_children com) ci1 = Some ch /\ valid dc t ch (k1 - 1) /\
        node_at q1 com = Some nd1 /\ k1 - 1 < n_count nd1 /\
        before rest1 com i1 = pre com ci1 ++ before t ch (k1 - 1) ++ [nth (k1 - 1) (n_items nd1) 0%Z]
  end.
Proof.
  intros Sh V. cbv zeta.
  pose proof (leaf_pos_spec maxCap Hpos (S dc) rest1 com i1 Sh V) as LP.
  destruct (leaf_pos_head rest1 dc com i1 Sh V) as [tq Eq].
  destruct (leaf_pos (S dc) rest1 com i1) as [q i] eqn:Elp. cbn [fst snd] in *. destruct LP as (Vq & Lq & Bq & _).
  subst q.
  (* the descended position is in a leaf: its before is the gap *)
  destruct (node_at_valid maxCap Hpos _ _ com i Sh Vq) as (lf & Elf & Slf & Hi & _).
  rewrite Lq, Nat.sub_diag in Slf. pose proof (shape_0_leaf _ _ Slf) as Lflf.
  assert (G0 : gapb (ci_of rest1 i1 :: tq) com i = before rest1 com i1).
  { rewrite <- Bq. destruct (ctx_pos _ _ com i lf Vq Elf) as [Bp _]. rewrite Bp. unfold gapb. rewrite Elf, Lflf.
    cbn [before]. rewrite Lflf. reflexivity. }
  assert (Vq' : valid (S dc) (rev (rev (ci_of rest1 i1 :: tq))) com i) by (rewrite rev_involutive; exact Vq).
  assert (Hne : rev (ci_of rest1 i1 :: tq) <> []) by (intros H; apply (f_equal (@rev nat)) in H; rewrite rev_involutive in H; discriminate).
  destruct (climb0_spec (rev (ci_of rest1 i1 :: tq)) (S dc) com i Sh Vq' Hne) as (V1 & G1 & P1 & ext & E1 & E2).
  rewrite rev_involutive in G1, E1.
  set (rq1 := fst (climb0 (rev (ci_of rest1 i1 :: tq)) i)) in *.
  set (k1 := snd (climb0 (rev (ci_of rest1 i1 :: tq)) i)) in *.
  assert (Hci : ci_of rest1 i1 <= n_count com).
  { cbn [valid] in Vq. destruct (nth_error (n_children com) (ci_of rest1 i1)) eqn:E; [|destruct Vq].
    apply nth_error_lt in E. destruct Sh as (_ & _ & L & _). lia. }
  split; [exact Hci|].
  destruct (rev rq1) as [|c0 t] eqn:Er.
  - assert (Hr : rq1 = []) by (apply (f_equal (@rev nat)) in Er; rewrite rev_involutive in Er; exact Er).
    destruct (E2 Hr) as [ext' Ee]. cbn [app] in E1. rewrite Ee in E1. injection E1 as Ek _.
    split; [symmetry; exact Ek|]. rewrite <- G0, <- G1. unfold gapb. cbn [ctxb node_at app].
    rewrite (shape_S_internal _ _ _ Sh). rewrite <- Ek. reflexivity.
  - assert (Hr : rq1 <> []) by (intros H; rewrite H in Er; discriminate).
    cbn [app] in E1. injection E1 as Ec0 Et. split; [symmetry; exact Ec0|]. split; [apply P1; exact Hr|].
    pose proof (P1 Hr) as Hk.
    destruct (valid_cons _ _ _ _ _ V1) as (d' & ch & Ed & Ech & Vt). inversion Ed; subst d'. rewrite <- Ec0 in *.
    destruct (node_at_valid maxCap Hpos _ _ com k1 Sh V1) as (nd1 & End1 & Snd1 & Hk1 & _).
    exists ch, nd1. split; [exact Ech|].
    assert (Vt' : valid dc t ch (k1 - 1)).
    { apply (valid_of_node t dc ch nd1); [eapply (valid_0 maxCap Hpos); eauto | | lia].
      cbn [node_at] in End1. rewrite Ech in End1. exact End1. }
    split; [exact Vt'|]. split; [exact End1|]. split; [lia|].
    rewrite <- G0, <- G1. unfold gapb. rewrite End1.
    assert (V1' : valid (S dc) (ci_of rest1 i1 :: t) com (k1 - 1)) by (cbn [valid]; rewrite Ech; exact Vt').
    destruct (ctx_pos _ _ com (k1 - 1) nd1 V1' End1) as [Bp _].
    assert (Bl : before (ci_of rest1 i1 :: t) com (k1 - 1) = pre com (ci_of rest1 i1) ++ before t ch (k1 - 1)) by (cbn [before]; rewrite Ech; reflexivity).
    assert (Gn : (if is_leaf nd1 then firstn k1 (n_items nd1) else pre nd1 k1) = before [] nd1 (k1 - 1) ++ [nth (k1 - 1) (n_items nd1) 0%Z]).
    { cbn [before]. destruct (is_leaf nd1) eqn:Lf1.
      - replace k1 with (S (k1 - 1)) at 1 by lia. apply firstn_S_nth. unfold n_count in Hk1. lia.
      - destruct (shape_internal _ _ _ Snd1 Lf1) as [dd Edd]. rewrite Edd in Snd1. pose proof Snd1 as (_ & _ & L1 & _).
        destruct (shape_child_ex _ _ _ (k1 - 1) Snd1 ltac:(lia)) as (chk & Ek & _).
        replace k1 with (S (k1 - 1)) at 1 by lia. rewrite (pre_snoc nd1 (k1 - 1) chk L1 Ek ltac:(lia)), (nth_flat nd1 _ chk Ek), <- app_assoc.
        reflexivity. }
    rewrite Gn. rewrite app_assoc, <- Bp, Bl, <- app_assoc. reflexivity.
Qed.

(* ---------- the right side seen from the common parent ---------- *)
Definition ci2_of (rest2 : list nat) (i2 : nat) : nat := match rest2 with [] => S i2 | c2 :: _ => c2 end.
Definition rchild_of (com : node) (rest2 : list nat) (i2 : nat) : option node :=
  match rest2 with
  | [] => nth_error (n_children com) (S i2)
  | c2 :: q2 => match nth_error (n_children com) c2 with Some ch => Some (right_edit q2 (S i2) ch) | None => None end
  end.

Lemma right_side dc com rest2 i2 :
  shape (S dc) com -> valid (S dc) rest2 com i2 -> has_item rest2 com i2 ->
  exists rc, rchild_of com rest2 i2 = Some rc /\ shape dc rc /\ ci2_of rest2 i2 <= n_count com /\
    tl (after rest2 com i2) =
      flatten rc ++ tailpart (skipn (S (ci2_of rest2 i2)) (map flatten (n_children com))) (skipn (ci2_of rest2 i2) (n_items com)).
Proof.
  intros Sh V H. pose proof Sh as (H1 & H2 & L & F & Cp). destruct rest2 as [|c2 q2]; cbn [ci2_of rchild_of].
  - cbn [valid has_item after] in *. rewrite (shape_S_internal _ _ _ Sh).
    destruct (shape_child_ex _ _ _ (S i2) Sh H) as (rc & Er & Sr). exists rc. split; [exact Er|]. split; [exact Sr|]. split; [lia|].
    destruct (nth_error_ex (n_items com) i2 H) as [x Ex]. unfold post. rewrite (skipn_head' _ _ _ Ex). cbn [tailpart tl].
    rewrite skipn_map', (skipn_head' _ _ _ Er). cbn [map]. rewrite interleave_cons, skipn_map'. reflexivity.
  - destruct (valid_cons _ _ _ _ _ V) as (d' & ch & Ed & Ec & V'). inversion Ed; subst d'.
    cbn [has_item] in H. rewrite Ec in H. rewrite Ec.
    pose proof (shape_child _ _ _ _ _ Sh Ec) as Sch.
    destruct (right_edit_spec q2 dc ch i2 Sch V' H) as [Se Fe].
    destruct (after_item maxCap dc q2 ch i2 Sch V' H) as (x & tl0 & _ & Ea).
    exists (right_edit q2 (S i2) ch). split; [reflexivity|]. split; [exact Se|].
    split; [apply nth_error_lt in Ec; lia|].
    cbn [after]. rewrite Ec, Fe, Ea. cbn [tl app]. unfold post. rewrite skipn_map'. reflexivity.
Qed.

Lemma assemble_flatten cap ks1 cs1 ks cs rc a b :
  a <= length cs1 -> a <= length ks1 ->
  flatten (Node cap (firstn a ks1 ++ skipn b ks) (firstn a cs1 ++ rc :: skipn (S b) cs)) =
    zipcat (firstn a (map flatten cs1)) (firstn a ks1) ++
    flatten rc ++ tailpart (skipn (S b) (map flatten cs)) (skipn b ks).
Proof.
  intros Ha Hb. cbn [flatten]. rewrite map_app. cbn [map].
  rewrite interleave_app by (rewrite map_length, !firstn_length_le; lia).
  rewrite interleave_cons, firstn_map', skipn_map'. reflexivity.
Qed.

(* ---------- the longest common prefix ---------- *)
Lemma cprefix_spec a : forall b cp ra rb, cprefix a b = (cp, ra, rb) ->
  a = cp ++ ra /\ b = cp ++ rb /\ match ra, rb with x :: _, y :: _ => x <> y | _, _ => True end.
Proof.
  induction a as [|x a IH]; intros b cp ra rb E.
  - cbn [cprefix] in E. inversion E; subst. repeat split; auto.
  - destruct b as [|y b]; cbn [cprefix] in E; [inversion E; subst; repeat split; auto|].
    destruct (x =? y) eqn:Exy.
    + apply Nat.eqb_eq in Exy. subst y. destruct (cprefix a b) as [[c0 ra0] rb0] eqn:E0. inversion E; subst.
      destruct (IH b c0 ra rb E0) as (A & B & C). rewrite A at 1. rewrite B at 1. repeat split; auto.
    + apply Nat.eqb_neq in Exy. inversion E; subst. repeat split; auto.
Qed.

(* ---------- the edit of the common parent ---------- *)
Definition com_edit (com : node) (ci1 : nat) (q1 : list nat) (k1 : nat) (x : Z) (ci2' : nat) (rc : node) : node :=
  let has_left := match q1 with [] => false | _ => true end in
  let ci1' := if has_left then S ci1 else ci1 in
  let items1 := if has_left then replace_at ci1 x (n_items com) else n_items com in
  let children1 :=
    if has_left then
      match nth_error (n_children com) ci1 with
      | Some ch => replace_at ci1 (left_edit (tl q1) (k1 - 1) ch) (n_children com)
      | None => n_children com
      end
    else n_children com in
  Node (n_cap com) (firstn ci1' items1 ++ skipn ci2' (n_items com))
       (firstn ci1' children1 ++ rc :: skipn (S ci2') (n_children com)).

Lemma com_edit_spec dc com rest1 i1 rest2 i2 :
  shape (S dc) com ->
  valid (S dc) rest1 com i1 -> has_item rest1 com i1 ->
  valid (S dc) rest2 com i2 -> has_item rest2 com i2 ->
  length (before rest1 com i1) <= length (before rest2 com i2) ->
  match rest1, rest2 with x :: _, y :: _ => x <> y | _, _ => True end ->
  let q := fst (leaf_pos (S dc) rest1 com i1) in let i := snd (leaf_pos (S dc) rest1 com i1) in
  let q1 := rev (fst (climb0 (rev q) i)) in let k1 := snd (climb0 (rev q) i) in
  let ci1 := ci_of rest1 i1 in
  let x := match node_at q1 com with Some nd => nth (k1 - 1) (n_items nd) 0%Z | None => 0%Z end in
  let ci1' := match q1 with [] => ci1 | _ => S ci1 end in
  exists rc, rchild_of com rest2 i2 = Some rc /\ shape dc rc /\
    let com' := com_edit com ci1 q1 k1 x (ci2_of rest2 i2) rc in
    shape (S dc) com' /\
    flatten com' = before rest1 com i1 ++ tl (after rest2 com i2) /\
    nth_error (n_children com') ci1' = Some rc /\ pre com' ci1' = before rest1 com i1.
Proof.
  intros Sh V1 H1 V2 H2 Hord Hdiff. cbv zeta.
  pose proof (left_side dc com rest1 i1 Sh V1) as LS. cbv zeta in LS. destruct LS as [Hci LS].
  destruct (right_side dc com rest2 i2 Sh V2 H2) as (rc & Er & Sr & Hc2 & ET).
  exists rc. split; [exact Er|]. split; [exact Sr|].
  pose proof Sh as (A1 & A2 & L & F & Cp).
  set (q1 := rev (fst (climb0 (rev (fst (leaf_pos (S dc) rest1 com i1))) (snd (leaf_pos (S dc) rest1 com i1))))) in *.
  set (k1 := snd (climb0 (rev (fst (leaf_pos (S dc) rest1 com i1))) (snd (leaf_pos (S dc) rest1 com i1)))) in *.
  set (ci1 := ci_of rest1 i1) in *. set (ci2' := ci2_of rest2 i2) in *.
  (* the length of what lies before prevEnd *)
  assert (P2 : match rest2 with
               | [] => i2 < n_count com /\ ci2' = S i2 /\ exists chi, nth_error (n_children com) i2 = Some chi /\
                         length (before rest2 com i2) = length (pre com i2) + length (flatten chi)
               | c2 :: q2 => ci2' = c2 /\ exists ch2, nth_error (n_children com) c2 = Some ch2 /\
                         length (before rest2 com i2) < length (pre com c2) + length (flatten ch2)
               end).
  { destruct rest2 as [|c2 q2].
    - cbn [has_item valid] in *. destruct (shape_child_ex _ _ _ i2 Sh V2) as (chi & Ei & _).
      split; [exact H2|]. split; [reflexivity|]. exists chi. split; [exact Ei|].
      cbn [before]. rewrite (shape_S_internal _ _ _ Sh), (nth_flat com i2 chi Ei), app_length. reflexivity.
    - destruct (valid_cons _ _ _ _ _ V2) as (d' & ch2 & Ed & Ec & V'). inversion Ed; subst d'.
      cbn [has_item] in H2. rewrite Ec in H2. split; [reflexivity|]. exists ch2. split; [exact Ec|].
      cbn [before]. rewrite Ec, app_length.
      pose proof (before_lt maxCap dc q2 ch2 i2 (shape_child _ _ _ _ _ Sh Ec) V' H2). lia. }
  assert (Mono : forall c c' ch, nth_error (n_children com) c = Some ch -> c < c' -> c' <= n_count com ->
                   length (pre com c) + length (flatten ch) + 1 <= length (pre com c')).
  { intros c c' ch E Hlt Hle. exact (pre_mono maxCap dc com c c' ch Sh E Hlt Hle). }
  unfold com_edit. destruct q1 as [|c0 t] eqn:Eq1.
  - (* the whole left branch is inside the range: nothing to truncate on the left *)
    destruct LS as [Ek Bc]. cbn [tl].
    assert (Ho : ci1 <= ci2').
    { destruct (le_lt_dec ci1 ci2') as [|Hgt]; [assumption|]. exfalso. rewrite Bc in Hord.
      destruct rest2 as [|c2 q2].
      - destruct P2 as (Hi2 & E2' & chi & Ei & Lb). rewrite Lb in Hord.
        pose proof (Mono i2 ci1 chi Ei ltac:(lia) Hci). lia.
      - destruct P2 as (E2' & ch2 & Ec & Lb). pose proof (Mono c2 ci1 ch2 Ec ltac:(lia) Hci). lia. }
    assert (Lcf : length (firstn ci1 (n_children com)) = ci1) by (apply firstn_length_le; lia).
    assert (Lkf : length (firstn ci1 (n_items com)) = ci1) by (apply firstn_length_le; unfold n_count in *; lia).
    split; [|split; [|split]].
    + cbn [BTreeBase.shape]. unfold n_count in *. cbn [n_items n_cap n_children]. rewrite !app_length, Lcf, Lkf. cbn [length].
      rewrite !skipn_length. split; [lia|]. split; [lia|]. split; [lia|]. split; [|exact Cp].
      apply Forall_app. split; [apply Forall_firstn; exact F|]. constructor; [exact Sr | apply Forall_skipn; exact F].
    + rewrite assemble_flatten by (unfold n_count in *; lia). rewrite ET, Bc. unfold pre. reflexivity.
    + cbn [n_children]. rewrite nth_error_app2 by lia. rewrite Lcf, Nat.sub_diag. reflexivity.
    + rewrite Bc, pre_Node. unfold pre. rewrite map_app, !firstn_app_le by (rewrite ?map_length; lia).
      rewrite <- firstn_map', !firstn_firstn, !Nat.min_id. reflexivity.
  - (* the left border is truncated, its last surviving item moves up into the common parent *)
    destruct LS as (Ec0 & Hk & ch & nd1 & Ech & Vt & End1 & Hk1 & Bc). subst c0. rewrite End1.
    set (x := nth (k1 - 1) (n_items nd1) 0%Z) in *. rewrite Ech. cbn [tl].
    destruct (left_edit_spec t dc ch (k1 - 1) (shape_child _ _ _ _ _ Sh Ech) Vt) as [Sle Fle].
    set (le := left_edit t (k1 - 1) ch) in *.
    assert (Ho : S ci1 <= ci2').
    { destruct (le_lt_dec (S ci1) ci2') as [|Hgt]; [assumption|]. exfalso.
      assert (Bl : length (pre com ci1) + 1 <= length (before rest1 com i1)) by (rewrite Bc, !app_length; simpl; lia).
      destruct rest2 as [|c2 q2].
      - destruct P2 as (Hi2 & E2' & chi & Ei & Lb). rewrite Lb in Hord.
        destruct (Nat.eq_dec i2 ci1) as [Heq|Hne]; [lia|].
        pose proof (Mono i2 ci1 chi Ei ltac:(lia) Hci). lia.
      - destruct P2 as (E2' & ch2 & Ec & Lb).
        destruct (Nat.eq_dec c2 ci1) as [Heq|Hne].
        + (* same child index: only possible when begin is an item of the common parent itself *)
          destruct rest1 as [|c1 r1']; [|unfold ci1, ci_of in Heq; simpl in Hdiff; congruence].
          unfold ci1, ci_of in *. rewrite Heq in Ec, Lb, Hord. rewrite Ech in Ec. injection Ec as Ech2. rewrite <- Ech2 in Lb.
          assert (El : length (before [] com i1) = length (pre com i1) + length (flatten ch)).
          { cbn [before]. rewrite (shape_S_internal _ _ _ Sh), (nth_flat com i1 ch Ech), app_length. reflexivity. }
          rewrite El in Hord. lia.
        + pose proof (Mono c2 ci1 ch2 Ec ltac:(lia) Hci). lia. }
    assert (Hci' : ci1 < n_count com) by lia.
    destruct (remove_node_some maxCap Hpos dc com ci1 ch le x Sh Hci' Ech Sle) as (S2n & _ & _ & P2n).
    set (ks1 := replace_at ci1 x (n_items com)) in *. set (cs1 := replace_at ci1 le (n_children com)) in *.
    assert (Lks1 : length ks1 = n_count com) by (unfold ks1, n_count; apply replace_at_length; exact Hci').
    assert (Lcs1 : length cs1 = S (n_count com)) by (unfold cs1; rewrite replace_at_length; lia).
    assert (Fcs1 : Forall (shape dc) cs1) by (apply Forall_replace_at; auto).
    assert (Lcf : length (firstn (S ci1) cs1) = S ci1) by (apply firstn_length_le; lia).
    assert (Lkf : length (firstn (S ci1) ks1) = S ci1) by (apply firstn_length_le; lia).
    assert (LEFT : zipcat (firstn (S ci1) (map flatten cs1)) (firstn (S ci1) ks1) = before rest1 com i1).
    { rewrite Bc, <- Fle. rewrite <- P2n. reflexivity. }
    split; [|split; [|split]].
    + cbn [BTreeBase.shape]. unfold n_count in *. cbn [n_items n_cap n_children]. rewrite !app_length, Lcf, Lkf. cbn [length].
      rewrite !skipn_length. split; [lia|]. split; [lia|]. split; [lia|]. split; [|exact Cp].
      apply Forall_app. split; [apply Forall_firstn; exact Fcs1|]. constructor; [exact Sr | apply Forall_skipn; exact F].
    + rewrite assemble_flatten by lia. rewrite ET, LEFT. reflexivity.
    + cbn [n_children]. rewrite nth_error_app2 by lia. rewrite Lcf, Nat.sub_diag. reflexivity.
    + rewrite <- LEFT, pre_Node. unfold pre. rewrite map_app, !firstn_app_le by (rewrite ?map_length; lia).
      rewrite <- firstn_map', !firstn_firstn, !Nat.min_id. reflexivity.
Qed.

(* ---------- positions through a prefix ---------- *)
Lemma valid_split cp : forall d r rest j, shape d r -> valid d (cp ++ rest) r j ->
  exists com, node_at cp r = Some com /\ valid d cp r 0 /\ valid (d - length cp) rest com j /\
              shape (d - length cp) com /\ length cp <= d.
Proof.
  induction cp as [|c cp IH]; intros d r rest j Sh V.
  - exists r. cbn [app node_at valid length] in *. rewrite Nat.sub_0_r. repeat split; auto; lia.
  - cbn [app] in V. destruct (valid_cons _ _ _ _ _ V) as (d' & ch & -> & Ec & V').
    destruct (IH d' ch rest j (shape_child _ _ _ _ _ Sh Ec) V') as (com & En & V0 & Vr & Sc & Lc).
    exists com. cbn [node_at valid length Nat.sub]. rewrite Ec. repeat split; auto. lia.
Qed.

Lemma has_item_app cp : forall r com rest j, node_at cp r = Some com -> has_item (cp ++ rest) r j -> has_item rest com j.
Proof.
  induction cp as [|c cp IH]; intros r com rest j E H; simpl in *.
  - inversion E; subst; exact H.
  - destruct (nth_error (n_children r) c); [eauto | contradiction].
Qed.

Lemma after_app cp : forall d r com rest j, valid d cp r 0 -> node_at cp r = Some com ->
  after (cp ++ rest) r j = after rest com j ++ ctxa cp r.
Proof.
  induction cp as [|c cp IH]; intros d r com rest j V E.
  - simpl in *. inversion E; subst. rewrite app_nil_r. reflexivity.
  - destruct (valid_cons _ _ _ _ _ V) as (d' & ch & -> & Ec & V'). cbn [node_at] in E. rewrite Ec in E.
    cbn [app after ctxa]. rewrite Ec, (IH d' ch com rest j V' E), <- app_assoc. reflexivity.
Qed.

Lemma skipn_app_len {A} (a b : list A) : skipn (length a) (a ++ b) = b.
Proof. rewrite skipn_app, skipn_all, Nat.sub_diag. reflexivity. Qed.

(* ---------- pvRemoveRange + the two pvRebalance(.., false) + pvMakeIterator ---------- *)
Theorem remove_range_root_spec d r p1 i1 p2 i2 :
  shape d r -> valid d p1 r i1 -> has_item p1 r i1 -> valid d p2 r i2 -> has_item p2 r i2 ->
  length (before p1 r i1) <= length (before p2 r i2) ->
  ~ (p1 = p2 /\ exists nd, node_at p1 r = Some nd /\ is_leaf nd = true) ->
  rem_ok maxCap (before p1 r i1) (tl (after p2 r i2)) (remove_range_root r (p1, i1) (p2, i2)).
Proof.
  intros Sh V1 H1 V2 H2 Hord Hns. unfold remove_range_root.
  destruct (cprefix p1 p2) as [[cp rest1] rest2] eqn:Ecp.
  destruct (cprefix_spec p1 p2 cp rest1 rest2 Ecp) as (Ep1 & Ep2 & Hdiff). subst p1 p2.
  destruct (valid_split cp d r rest1 i1 Sh V1) as (com & Ecom & Vcp & Vr1 & Scom & Lcp).
  destruct (valid_split cp d r rest2 i2 Sh V2) as (com2 & Ecom2 & _ & Vr2 & _ & _).
  rewrite Ecom in Ecom2. inversion Ecom2; subst com2. clear Ecom2. rewrite Ecom.
  pose proof (has_item_app cp r com rest1 i1 Ecom H1) as Hr1. pose proof (has_item_app cp r com rest2 i2 Ecom H2) as Hr2.
  (* the common parent is an internal node *)
  destruct (d - length cp) as [|dc] eqn:Edc.
  { exfalso. apply Hns. pose proof (shape_0_leaf _ _ Scom) as Lf.
    assert (R1 : rest1 = []) by (destruct rest1; [reflexivity | cbn [valid] in Vr1; destruct Vr1]).
    assert (R2 : rest2 = []) by (destruct rest2; [reflexivity | cbn [valid] in Vr2; destruct Vr2]).
    subst. split; [reflexivity|]. exists com. rewrite app_nil_r. auto. }
  destruct (pos_app cp d r com rest1 i1 Vcp Ecom ltac:(rewrite Edc; exact Vr1)) as [_ B1].
  destruct (pos_app cp d r com rest2 i2 Vcp Ecom ltac:(rewrite Edc; exact Vr2)) as [_ B2].
  pose proof (after_app cp d r com rest2 i2 Vcp Ecom) as A2.
  assert (Hord' : length (before rest1 com i1) <= length (before rest2 com i2)).
  { rewrite B1, B2, !app_length in Hord. lia. }
  pose proof (com_edit_spec dc com rest1 i1 rest2 i2 Scom Vr1 Hr1 Vr2 Hr2 Hord' Hdiff) as CE. cbv zeta in CE.
  (* the model's descent and climb are the ones of the common parent *)
  rewrite (shape_height maxCap _ _ Sh).
  rewrite (leaf_pos_app cp d r com rest1 i1 Vcp Ecom), Edc.
  destruct (leaf_pos (S dc) rest1 com i1) as [q i] eqn:Elp. cbn [fst snd] in *.
  rewrite skipn_app_len.
  destruct (climb0 (rev q) i) as [rq1 k1] eqn:Ecl. cbn [fst snd] in *.
  rewrite node_at_app, Ecom.
  destruct CE as (rc & Er & Sr & Sc' & Fc' & Ec' & Pc').
  set (x := match node_at (rev rq1) com with Some nd => nth (k1 - 1) (n_items nd) 0%Z | None => 0%Z end) in *.
  set (ci1' := match rev rq1 with [] => ci_of rest1 i1 | _ :: _ => S (ci_of rest1 i1) end) in *.
  assert (Epair : (let '(ci2', rchild) :=
                     match rest2 with
                     | [] => (S i2, nth_error (n_children com) (S i2))
                     | c2 :: q2 => (c2, match nth_error (n_children com) c2 with Some ch => Some (right_edit q2 (S i2) ch) | None => None end)
                     end in (ci2', rchild)) = (ci2_of rest2 i2, Some rc)).
  { rewrite <- Er. destruct rest2; reflexivity. }
  destruct (match rest2 with
            | [] => (S i2, nth_error (n_children com) (S i2))
            | c2 :: q2 => (c2, match nth_error (n_children com) c2 with Some ch => Some (right_edit q2 (S i2) ch) | None => None end)
            end) as [ci2m rchm]. inversion Epair; subst ci2m rchm. clear Epair.
  change (match rest1 with [] => i1 | c :: _ => c end) with (ci_of rest1 i1).
  set (com' := com_edit com (ci_of rest1 i1) (rev rq1) k1 x (ci2_of rest2 i2) rc) in *.
  (* the edited tree *)
  assert (Scom' : shape (d - length cp) com') by (rewrite Edc; exact Sc').
  destruct (update_ctx maxCap Hpos cp d r com' Sh Vcp Scom') as (S1 & N1 & Bx1 & Ax1 & Vx1).
  assert (F1 : flatten (update_at cp (fun _ => com') r) = before (cp ++ rest1) r i1 ++ tl (after (cp ++ rest2) r i2)).
  { rewrite (flatten_ctx maxCap cp d _ com' S1 Vx1 N1), Bx1, Ax1, Fc', B1, A2.
    destruct (after_item maxCap (S dc) rest2 com i2 Scom Vr2 Hr2) as (y & tl0 & _ & Ea). rewrite Ea. cbn [tl app].
    rewrite <- !app_assoc. reflexivity. }
  pose proof (shape_height maxCap _ _ Sr) as Hrc.
  destruct (leftmost_spec maxCap Hpos dc rc Sr) as (Vlm & Llm & Blm).
  assert (Vloc : valid (d - length cp) (ci1' :: leftmost dc rc) com' 0).
  { rewrite Edc. cbn [valid]. rewrite Ec'. exact Vlm. }
  destruct (pos_app cp d _ com' (ci1' :: leftmost dc rc) 0 Vx1 N1 Vloc) as [Vsp Bsp].
  assert (Bsp' : before (cp ++ ci1' :: leftmost dc rc) (update_at cp (fun _ => com') r) 0 = before (cp ++ rest1) r i1).
  { rewrite Bsp, Bx1, B1. cbn [before]. rewrite Ec', Blm, app_nil_r, Pc'. reflexivity. }
  assert (Lsp : length (cp ++ ci1' :: leftmost dc rc) = d) by (rewrite app_length; cbn [length]; rewrite Llm; lia).
  rewrite Hrc.
  (* the model term, written with com_edit *)
  match goal with |- rem_ok _ _ _ (let '(r3, sp3) := ?R in _) =>
    assert (ER : exists d' r3 sp3, R = (r3, sp3) /\ shape d' r3 /\
                   flatten r3 = before (cp ++ rest1) r i1 ++ tl (after (cp ++ rest2) r i2) /\
                   valid d' sp3 r3 0 /\ length sp3 = d' /\ before sp3 r3 0 = before (cp ++ rest1) r i1)
  end.
  { unfold com', com_edit in *. destruct (rev rq1) as [|c0 t] eqn:Erq.
    - destruct (rebalance_track maxCap Hpos d _ (cp ++ ci1' :: leftmost dc rc) (cp ++ ci1' :: leftmost dc rc) 0 false S1 Vsp Lsp)
        as (d' & A & B & C & D & E).
      destruct (rebalance _ _ _ false) as [r3 sp3]. cbn [fst snd] in *. exists d', r3, sp3. repeat split; auto; congruence.
    - destruct (rebalance_track maxCap Hpos d _ (cp ++ c0 :: t) (cp ++ ci1' :: leftmost dc rc) 0 false S1 Vsp Lsp)
        as (d' & A & B & C & D & E).
      destruct (rebalance _ (cp ++ c0 :: t) _ false) as [r2 sp2]. cbn [fst snd] in *.
      destruct (rebalance_track maxCap Hpos d' r2 sp2 sp2 0 false A C D) as (d'' & A' & B' & C' & D' & E').
      destruct (rebalance r2 sp2 sp2 false) as [r3 sp3]. cbn [fst snd] in *. exists d'', r3, sp3. repeat split; auto; congruence. }
  destruct ER as (d' & r3 & sp3 & ER & S3 & F3 & V3 & L3 & B3). 
  unfold com', com_edit in ER. unfold com', com_edit. rewrite ER.
  destruct (move_if_spec maxCap Hpos d' r3 sp3 0 S3 V3 L3) as (V4 & H4 & B4).
  exists d'. cbn [fst snd]. split; [exact S3|]. split; [exact F3|]. split; [exact V4|]. split; [exact H4|]. congruence.
Qed.

End Range.
