// C02 implementation side: the REAL momo::TreeSet / TreeMap, driven by op scripts (same format as ocaml/driver.ml).
// One case per input line:   <cfg> <maxCap> <step> <blockCount> <lin> <multi> op op op ...
// One output line per case: one token per op (see run()).  A token starting with '!' is a violation found by the
// harness's own oracle (a stable sorted-vector twin), independent of the Coq model.
#include <cstdarg>
#include "private_access.h"
#include "momo/TreeSet.h"
#include "momo/TreeMap.h"
using namespace momo;

static std::map<std::string, long> STAT, STATMAX;   // measured input distribution, printed to stderr at exit
static void stat(const std::string& k, long n = 1) { STAT[k] += n; }
static void statmax(const std::string& k, long v) { long& r = STATMAX[k]; if (v > r) r = v; }

struct CountMM   // stateless (empty) counting memory manager: every byte the tree takes must come back
{
	static long liveBlocks, liveBytes;
	explicit CountMM() noexcept {}
	CountMM(CountMM&&) = default;
	CountMM(const CountMM&) = default;
	~CountMM() = default;
	CountMM& operator=(const CountMM&) = delete;
	void* Allocate(size_t size) { void* p = std::malloc(size); if (p == nullptr) throw std::bad_alloc(); ++liveBlocks; liveBytes += long(size); return p; }
	void Deallocate(void* p, size_t size) noexcept { --liveBlocks; liveBytes -= long(size); std::memset(p, 0xDD, size); __asm__ __volatile__("" : : "r"(p) : "memory"); std::free(p); }   // poison: a stale read is not silently 'still valid'
	static CountMM make(int) { return CountMM(); }
};
long CountMM::liveBlocks = 0; long CountMM::liveBytes = 0;

static long wrongMM = 0;
template<bool sameId>
struct StatMM   // stateful memory manager with IsEqual: the two containers' managers compare equal (sameId) or unequal.
{               // Every block remembers the id of the manager it came from; freeing it through an unequal manager is a violation.
	int id;
	explicit StatMM(int i = 0) noexcept : id(i) {}
	StatMM(StatMM&& o) noexcept : id(o.id) {}
	StatMM(const StatMM& o) noexcept : id(o.id) {}
	~StatMM() = default;
	StatMM& operator=(StatMM&& o) noexcept { id = o.id; return *this; }
	StatMM& operator=(const StatMM&) = delete;
	void* Allocate(size_t size) { char* p = static_cast<char*>(std::malloc(size + 16)); if (p == nullptr) throw std::bad_alloc(); *reinterpret_cast<long*>(p) = id; ++CountMM::liveBlocks; CountMM::liveBytes += long(size); return p + 16; }
	void Deallocate(void* q, size_t size) noexcept { char* p = static_cast<char*>(q) - 16; if (*reinterpret_cast<long*>(p) != id) ++wrongMM; --CountMM::liveBlocks; CountMM::liveBytes -= long(size); std::memset(p, 0xDD, size + 16); __asm__ __volatile__("" : : "r"(p) : "memory"); std::free(p); }
	bool IsEqual(const StatMM& o) const noexcept { return id == o.id; }
	static StatMM make(int side) { return StatMM(sameId ? 7 : 1 + side); }
};

// ---- key kinds -------------------------------------------------------------------------------------------
struct IntK {   // trivially relocatable
	typedef int Key; static const bool hasSerial = false;
	static const bool triv = true, nothrowReloc = true, nothrowSwap = true;
	static Key make(long k, long) { return int(k); }
	static long val(const Key& k) { return k; }
	static long ser(const Key&) { return -1; }
};
struct StrK {   // std::string: nothrow-movable, not trivially relocatable.  Even keys stay inside the small-string buffer
	            // (libstdc++: the object points into itself, so a bitwise relocation is observable), odd keys live on the heap.
	typedef std::string Key; static const bool hasSerial = false;
	static const bool triv = false, nothrowReloc = true, nothrowSwap = true;
	static Key make(long k, long) { char b[64]; std::snprintf(b, sizeof b, (k % 2 == 0) ? "k%012ld" : "k%012ld-padding-beyond-sso", k); return std::string(b); }
	static long val(const Key& k) { return std::atol(k.c_str() + 1); }
	static long ser(const Key&) { return -1; }
};
static long selfMoves = 0;
static long heapLive = 0;
// three heap-owning item classes; what differs is ONLY which special members exist, i.e. the relocation category momo derives:
#define HEAP_BODY(T) \
	long* p; long serial; \
	explicit T(long k, long s) : p(new long(k)), serial(s) { ++heapLive; } \
	T(const T& o) : p(new long(*o.p)), serial(o.serial) { ++heapLive; } \
	T& operator=(const T& o) { if (this == &o) ++selfMoves; *p = *o.p; serial = o.serial; return *this; } \
	~T() { delete p; p = nullptr; --heapLive; } \
	friend bool operator<(const T& a, const T& b) { return *a.p < *b.p; }
struct HeapKey {   // copy-only (no move constructor), copy may throw, no nothrow swap: NOT nothrow-relocatable and NOT nothrow-shiftable
	HEAP_BODY(HeapKey)   // -> copy-relocated with rollback paths, and the library silently selects the indexed node layout whatever TreeNode asks for
};
struct MoveKey {   // copy + move constructor not marked noexcept: momo (GCC/Clang rule MOMO_IS_NOTHROW_RELOCATABLE_APPENDIX) treats it as nothrow-relocatable
	HEAP_BODY(MoveKey)
	MoveKey(MoveKey&& o) noexcept(false) : p(new long(*o.p)), serial(o.serial) { ++heapLive; }
	MoveKey& operator=(MoveKey&& o) noexcept(false) { if (this == &o) ++selfMoves; *p = *o.p; serial = o.serial; return *this; }
};
struct SwapKey {   // copy-only as HeapKey, but a nothrow ADL swap: not nothrow-relocatable yet nothrow-shiftable (continuous layout, items shifted by swapping)
	HEAP_BODY(SwapKey)
	friend void swap(SwapKey& a, SwapKey& b) noexcept { if (&a == &b) ++selfMoves; std::swap(a.p, b.p); std::swap(a.serial, b.serial); }
};
template<class T, bool reloc, bool swp> struct HeapKind {
	typedef T Key; static const bool hasSerial = true;
	static const bool triv = false, nothrowReloc = reloc, nothrowSwap = swp;
	static Key make(long k, long s) { return T(k, s); }
	static long val(const Key& k) { return *k.p; }
	static long ser(const Key& k) { return k.serial; }
};
typedef HeapKind<HeapKey, false, false> HeapK;
typedef HeapKind<MoveKey, true, false> MoveK;
typedef HeapKind<SwapKey, false, true> SwapK;
// ---- value kinds (maps) ----------------------------------------------------------------------------------
struct NoV   { typedef long Val; static const bool isMap = false, shiftable = true; static Val make(long s) { return s; } static long ser(const Val& v) { return v; } };
struct LongV { typedef long Val; static const bool isMap = true, shiftable = true; static Val make(long s) { return s; } static long ser(const Val& v) { return v; } };
struct StrV  { typedef std::string Val; static const bool isMap = true, shiftable = true; static Val make(long s) { return std::to_string(s); } static long ser(const Val& v) { return std::atol(v.c_str()); } };
struct HeapV { typedef HeapKey Val; static const bool isMap = true, shiftable = false; static Val make(long s) { return HeapKey(s, s); } static long ser(const Val& v) { return (*v.p == v.serial) ? v.serial : -7; } };

template<bool ver> struct SetS : TreeSetSettings { static const bool checkVersion = ver; };
template<bool ver> struct MapS : TreeMapSettings { static const bool checkVersion = ver; };
template<class Key> struct SLess { int tag; explicit SLess(int t = 0) : tag(t) {} bool operator()(const Key& a, const Key& b) const { return a < b; } };   // non-empty comparator
template<class T> struct CrewUsesPtr;
template<class A, class B, bool k, bool p> struct CrewUsesPtr<momo::internal::SetCrew<A, B, k, p>> { static const bool value = p; };

typedef std::vector<std::pair<long, long>> Twin;   // (key, serial), always sorted, stable

struct TreeStats { long nodes = 0, internals = 0, height = 0, emptyLeaf = 0, emptyInt = 0, fullInt = 0, fullLeafMax = 0; };

//  KK key kind, VK value kind (NoV = set), ver = Settings::checkVersion, MM memory manager, trk traits kind
//  (0 TreeTraits, 1 TreeTraitsStd with a stateful comparator, 2 TreeTraitsStd<std::less>), layout = the node layout
//  that must REALLY be instantiated ('C' continuous / 'I' indexed) - checked by static_assert below.
template<int ID, class KK, class VK, bool multi, size_t maxCap, size_t step, class Pool, bool cont, bool lin, bool ver, class MM, int trk, char layout>
struct Cfg
{
	typedef typename KK::Key Key;
	typedef typename VK::Val Val;
	static const bool isMap = VK::isMap;
	typedef TreeNode<maxCap, step, Pool, cont> TNode;
	typedef typename std::conditional<trk == 0, TreeTraits<Key, multi, TNode, lin>,
		typename std::conditional<trk == 1, TreeTraitsStd<Key, SLess<Key>, multi, TNode>, TreeTraitsStd<Key, std::less<Key>, multi, TNode>>::type>::type Traits;
	typedef TreeSet<Key, Traits, MM, TreeSetItemTraits<Key, MM>, SetS<ver>> Set;
	typedef TreeMap<Key, Val, Traits, MM, TreeMapKeyValueTraits<Key, Val, MM>, MapS<ver>> Map;
	typedef typename std::conditional<isMap, Map, Set>::type C;
	typedef typename C::ConstIterator It;
	static const bool hasSerial = isMap || KK::hasSerial;
	// a container of ANOTHER type with the same items (template MergeTo<Set>)
	typedef TreeTraits<Key, multi, TreeNode<(maxCap % 5) + 2, 1, MemPoolParams<1>, !cont>, !lin> AltTraits;
	typedef typename std::conditional<isMap, TreeMap<Key, Val, AltTraits, MM, TreeMapKeyValueTraits<Key, Val, MM>, MapS<ver>>,
		TreeSet<Key, AltTraits, MM, TreeSetItemTraits<Key, MM>, SetS<ver>>>::type Alt;

	// ---- the INTENDED classes are really instantiated ------------------------------------------------------
	typedef typename Set::Node SNode;
	typedef momo::internal::ObjectManager<Key, MM> KeyMgr;
	static_assert(KeyMgr::isTriviallyRelocatable == KK::triv, "key category: trivially relocatable");
	static_assert(KeyMgr::isNothrowRelocatable == KK::nothrowReloc, "key category: nothrow relocatable");
	static_assert(KeyMgr::isNothrowSwappable == KK::nothrowSwap, "key category: nothrow swappable");
	static_assert(KeyMgr::isNothrowShiftable == (KK::nothrowReloc || KK::nothrowSwap), "key category: shiftable");
	static const bool itemShiftable = (KK::nothrowReloc || KK::nothrowSwap) && VK::shiftable;
	static const bool realCont = cont && itemShiftable;
	static_assert((layout == 'C') == realCont && (layout == 'C' || layout == 'I'), "declared node layout is not the instantiated one");
	template<class CC> struct NodeOf { typedef typename CC::Node type; };
	static const bool setCont = SNode::isContinuous;
	static_assert(Traits::multiKey == multi && Traits::useLinearSearch == lin, "traits");
	static_assert(SNode::maxCapacity == maxCap && SNode::capacityStep == (step > 0 ? step : maxCap), "node parameters");
	static_assert(TNode::MemPoolParams::blockCount == Pool::blockCount && TNode::MemPoolParams::cachedFreeBlockCount == Pool::cachedFreeBlockCount, "pool parameters");
	static_assert(C::Settings::checkVersion == ver, "settings");
	static const bool emptyMM = std::is_empty<MM>::value;
	static const bool ptrCrew = CrewUsesPtr<typename Set::Crew>::value;
	static_assert(ptrCrew == (ver || !emptyMM), "crew kind (inline crew needs checkVersion=false, an empty memory manager and nothrow-movable traits)");
	static_assert(std::is_empty<Traits>::value == (trk == 0), "traits emptiness (a non-empty traits object disables the MergeTo shortcuts)");
	static bool realLayoutCont()
	{
		if constexpr (isMap) return std::remove_pointer<decltype(std::declval<Map&>().mTreeSet.mRootNode)>::type::isContinuous;
		else return SNode::isContinuous;
	}

	static Traits mkTraits(int side) { if constexpr (trk == 1) return Traits(SLess<Key>(side + 1)); else return Traits(); }
	static long keyOf(It it) { if constexpr (isMap) return KK::val(it->key); else return KK::val(*it); }
	static long serOf(It it) { if constexpr (isMap) return VK::ser(it->value); else return KK::ser(*it); }
	static auto& setOf(C& c) { if constexpr (isMap) return c.mTreeSet; else return c; }
	static bool ordered(long a, long b) { return multi ? !(b < a) : a < b; }

	struct Side { C c; Twin tw; int no; explicit Side(int side) : c(mkTraits(side), MM::make(side)), no(side) {} };
	Side sd[2] = { Side(0), Side(1) };
	long serial = 1;
	std::string out;
	char buf[128];
	std::string pfx = "c" + std::to_string(ID) + ".";

	static size_t idx(C& c, It it) { size_t n = 0; for (It i = c.GetBegin(); !(i == it); ++i) { ++n; if (n > 10000000) break; } return n; }
	static It at(C& c, size_t h) { It i = c.GetBegin(); for (size_t n = 0; n < h; ++n) ++i; return i; }
	static size_t ix(long a, size_t n) { if (a < 0) { size_t m = size_t(-a); return n - std::min(n, m); } return size_t(a) % n; }   // negative: from the end (-1 = last valid)
	void tok(const char* fmt, ...) { va_list ap; va_start(ap, fmt); std::vsnprintf(buf, sizeof buf, fmt, ap); va_end(ap); out += buf; }
	void bad(const char* what) { out += " !"; out += what; }

	template<class N> void shape(N* n)
	{
		tok("%c%u/%u", n->IsLeaf() ? 'L' : 'N', unsigned(n->GetCount()), unsigned(n->GetCapacity()));
		if (!n->IsLeaf()) for (size_t i = 0; i <= n->GetCount(); ++i) { out += '.'; shape(n->GetChild(i)); }
	}
	// the structural invariant, checked on the real nodes (parent links included)
	template<class N> bool checkNode(N* n, N* parent, size_t depth, size_t& leafDepth)
	{
		if (n->GetParent() != parent) return false;
		if (n->GetCount() > n->GetCapacity() || n->GetCapacity() > maxCap) return false;
		if constexpr (!N::isContinuous)
		{	// indexed layout: the table must stay a permutation of the slot numbers 0..maxCapacity-1
			bool seen[256] = { false };
			for (size_t i = 0; i < N::maxCapacity; ++i)
			{
				size_t v = n->mCounter.indexes[i];
				if (v >= N::maxCapacity || seen[v]) return false;
				seen[v] = true;
			}
		}
		if (n->IsLeaf()) { if (leafDepth == size_t(-1)) leafDepth = depth; return leafDepth == depth; }
		for (size_t i = 0; i <= n->GetCount(); ++i)
			if (!checkNode(n->GetChild(i), n, depth + 1, leafDepth)) return false;
		return true;
	}
	template<class N> void walk(N* n, long depth, bool isRoot, TreeStats& ts)
	{
		++ts.nodes; if (depth + 1 > ts.height) ts.height = depth + 1;
		if (n->IsLeaf()) { if (n->GetCount() == 0 && !isRoot) ++ts.emptyLeaf; if (n->GetCount() == maxCap) ++ts.fullLeafMax; return; }
		++ts.internals; if (n->GetCount() == 0) ++ts.emptyInt; if (n->GetCount() == maxCap) ++ts.fullInt;
		for (size_t i = 0; i <= n->GetCount(); ++i) walk(n->GetChild(i), depth + 1, false, ts);
	}
	TreeStats statsOf(C& c) { TreeStats ts; auto& st = setOf(c); if (st.mRootNode != nullptr) walk(st.mRootNode, 0, true, ts); return ts; }
	TreeStats last[2];
	void events(Side& s, bool insertOp = false)   // threshold events that REALLY happened (measured on the real tree after every mutating op)
	{
		TreeStats b = last[s.no], a = statsOf(s.c); last[s.no] = a;
		if (a.nodes - a.internals > b.nodes - b.internals && b.nodes > 0) stat(pfx + "leafSplit");
		if (a.internals > b.internals && b.internals > 0) stat(pfx + "internalNodesAdded", a.internals - b.internals);
		// an insertion adds internal nodes only by splitting FULL internal nodes (maxCapacity items, maxCapacity+1 children) and by growing a new root
		if (insertOp && a.internals > b.internals && b.internals > 0 && a.internals - b.internals - (a.height > b.height ? 1 : 0) > 0)
			stat(pfx + "fullInternalNodeSplit", a.internals - b.internals - (a.height > b.height ? 1 : 0));
		if (a.height > b.height && b.height > 0) stat(pfx + "rootGrow", a.height - b.height);
		if (a.height < b.height && a.height > 0) stat(pfx + "rootCollapse", b.height - a.height);
		if (a.nodes < b.nodes && a.nodes > 0) stat(pfx + "nodesFreedByMerge", b.nodes - a.nodes);
		if (a.emptyLeaf > 0) stat(pfx + "opsLeavingEmptyLeaf");
		if (a.emptyInt > 0) stat(pfx + "opsLeavingEmptyInternal");
		if (a.fullInt > 0) stat(pfx + "opsWithFullInternalNode");
		if (a.fullLeafMax > 0) stat(pfx + "opsWithLeafAtMaxCapacityFull");
		statmax(pfx + "maxHeight", a.height); statmax(pfx + "maxCount", long(s.c.GetCount())); statmax(pfx + "maxNodes", a.nodes);
	}

	void fullCheck(Side& s, bool print)
	{
		C& c = s.c; Twin& tw = s.tw;
		if (print) tok("T%u:", unsigned(c.GetCount()));
		if (c.GetCount() != tw.size()) bad("COUNT");
		size_t n = 0; bool ok = true;
		for (It i = c.GetBegin(); !(i == c.GetEnd()); ++i, ++n)
		{
			if (n > tw.size() + 2) break;
			if (print) tok(n ? ",%ld" : "%ld", keyOf(i));
			if (n >= tw.size() || keyOf(i) != tw[n].first || (hasSerial && serOf(i) != tw[n].second)) ok = false;
		}
		if (n != tw.size()) ok = false;
		if (!ok) bad("FORWARD");
		if (print) out += '|';
		ok = true; n = 0;
		if (c.GetCount() > 0 || !(c.GetBegin() == c.GetEnd()))
		{
			It i = c.GetEnd();
			while (!(i == c.GetBegin()))
			{
				--i; ++n;
				if (n > tw.size() + 2) break;
				if (print) tok(n > 1 ? ",%ld" : "%ld", keyOf(i));
				if (n > tw.size() || keyOf(i) != tw[tw.size() - n].first || (hasSerial && serOf(i) != tw[tw.size() - n].second)) ok = false;
			}
		}
		if (n != tw.size()) ok = false;
		if (!ok) bad("BACKWARD");
		auto& st = setOf(c);
		if (st.mRootNode != nullptr) { size_t ld = size_t(-1); if (!checkNode(st.mRootNode, decltype(st.mRootNode)(nullptr), 0, ld)) bad("STRUCT"); }
		if (c.IsEmpty() != tw.empty()) bad("ISEMPTY");
	}

	static size_t twLb(const Twin& tw, long k) { return size_t(std::lower_bound(tw.begin(), tw.end(), k, [] (const std::pair<long, long>& e, long x) { return e.first < x; }) - tw.begin()); }
	static size_t twUb(const Twin& tw, long k) { return size_t(std::upper_bound(tw.begin(), tw.end(), k, [] (long x, const std::pair<long, long>& e) { return x < e.first; }) - tw.begin()); }

	// every public insertion entry point in turn (chosen by the serial number, invisible in the output)
	std::pair<It, bool> ins(C& c, long k, long s, Twin& tw)
	{
		int var = int(s % 5);
		if constexpr (isMap)
		{
			if constexpr (!multi) if (var == 4)
			{	// operator[]: inserts, or assigns the value of the present key
				size_t before = c.GetCount();
				c[KK::make(k, s)] = VK::make(s);
				bool inserted = c.GetCount() != before;
				if (!inserted) { size_t lb = twLb(tw, k); if (lb < tw.size() && tw[lb].first == k) tw[lb].second = s; }
				stat("insert.map.operator[]");
				return { It(c.Find(KK::make(k, s))), inserted };
			}
			Key key = KK::make(k, s); Val val = VK::make(s);
			switch (var)
			{
			case 0: case 4: { stat("insert.map.Insert(Key&&,Value&&)"); auto r = c.Insert(std::move(key), std::move(val)); return { It(r.position), r.inserted }; }
			case 1: { stat("insert.map.Insert(const Key&,const Value&)"); auto r = c.Insert(key, val); return { It(r.position), r.inserted }; }
			case 2: { stat("insert.map.InsertVar(Key&&,args)"); auto r = c.InsertVar(std::move(key), std::move(val)); return { It(r.position), r.inserted }; }
			default: { stat("insert.map.InsertCrt(const Key&,creator)"); auto r = c.InsertCrt(key, [&val] (Val* p) { ::new(static_cast<void*>(p)) Val(std::move(val)); }); return { It(r.position), r.inserted }; }
			}
		}
		else
		{
			Key item = KK::make(k, s);
			switch (var)
			{
			case 0: case 4: { stat("insert.set.Insert(Item&&)"); auto r = c.Insert(std::move(item)); return { r.position, r.inserted }; }
			case 1: { stat("insert.set.Insert(const Item&)"); auto r = c.Insert(item); return { r.position, r.inserted }; }
			case 2: { stat("insert.set.InsertVar(key,args)"); Key key2 = KK::make(k, s); auto r = c.InsertVar(key2, std::move(item)); return { r.position, r.inserted }; }
			default: { stat("insert.set.InsertCrt(key,creator)"); Key key2 = KK::make(k, s); auto r = c.InsertCrt(key2, [&item] (Key* p) { ::new(static_cast<void*>(p)) Key(std::move(item)); }); return { r.position, r.inserted }; }
			}
		}
	}
	It add(C& c, It hint, long k, long s)
	{
		int var = int(s % 4);
		if constexpr (isMap)
		{
			Key key = KK::make(k, s); Val val = VK::make(s);
			switch (var)
			{
			case 0: stat("add.map.Add(it,Key&&,Value&&)"); return It(c.Add(hint, std::move(key), std::move(val)));
			case 1: stat("add.map.Add(it,const Key&,const Value&)"); return It(c.Add(hint, key, val));
			case 2: stat("add.map.AddVar(it,Key&&,args)"); return It(c.AddVar(hint, std::move(key), std::move(val)));
			default: stat("add.map.AddCrt(it,const Key&,creator)"); return It(c.AddCrt(hint, key, [&val] (Val* p) { ::new(static_cast<void*>(p)) Val(std::move(val)); }));
			}
		}
		else
		{
			Key item = KK::make(k, s);
			switch (var)
			{
			case 0: stat("add.set.Add(it,Item&&)"); return c.Add(hint, std::move(item));
			case 1: stat("add.set.Add(it,const Item&)"); return c.Add(hint, item);
			case 2: stat("add.set.AddVar(it,args)"); return c.AddVar(hint, std::move(item));
			default: stat("add.set.AddCrt(it,creator)"); return c.AddCrt(hint, [&item] (Key* p) { ::new(static_cast<void*>(p)) Key(std::move(item)); });
			}
		}
	}
	typedef decltype(std::declval<C&>().Extract(std::declval<It>())) Ext;
	template<class E> static void rekeyAny(E& ext, long k, long s) { if constexpr (isMap) ext.GetKey() = KK::make(k, s); else ext.GetItem() = KK::make(k, s); }

	void doInsert(Side& s, long k, const char* tag)
	{
		size_t lb = twLb(s.tw, k), ub = twUb(s.tw, k);
		bool expIns = multi || lb == ub; size_t expIdx = expIns ? ub : lb;
		long ser = serial++;
		long keptSer = (!expIns && lb < s.tw.size()) ? s.tw[lb].second : -1;
		auto r = ins(s.c, k, ser, s.tw);
		size_t i = idx(s.c, r.first);
		tok("%s%u/%d", tag, unsigned(i), int(r.second));
		if (expIns) s.tw.insert(s.tw.begin() + ub, { k, ser });
		long expSer = expIns ? ser : s.tw[lb].second; (void)keptSer;
		if (i != expIdx || r.second != expIns || keyOf(r.first) != k || (hasSerial && serOf(r.first) != expSer)) bad("INSERT");
	}

	// ---- node script: the REAL Node object driven directly; after every op the raw state is dumped byte for byte:
	//      count / memPoolIndex / capacity / leaf ; the whole index table ; every raw item slot ('_' = no live item) ; the child array
	std::string nodeRun(std::istringstream& is)
	{
		if constexpr (isMap) return "?nonode";
		else
		{
			typedef typename Set::NodeParams NParams;
			std::string layoutTok; is >> layoutTok;
			if ((layoutTok == "C") != SNode::isContinuous) return "?layout";
			MM mm = MM::make(0);
			NParams* params = new NParams(mm);
			SNode* node = nullptr; long nextChild = 1000;
			auto base = [&] () -> Key* {
				if constexpr (SNode::isContinuous) return node->GetItemPtr(0);
				else return node->GetItemPtr(0) - node->mCounter.indexes[0];
			};
			auto live = [&] (size_t slot) -> bool {
				if constexpr (SNode::isContinuous) return slot < node->GetCount();
				else { for (size_t i = 0; i < node->GetCount(); ++i) if (node->mCounter.indexes[i] == slot) return true; return false; }
			};
			auto destroyNode = [&] () {
				if (node == nullptr) return;
				for (size_t i = 0; i < node->GetCount(); ++i) node->GetItemPtr(i)->~Key();
				node->Destroy(*params); node = nullptr;
			};
			auto dump = [&] () {
				tok("%u/%u/%u/%d;", unsigned(node->GetCount()), unsigned(node->mMemPoolIndex), unsigned(node->GetCapacity()), int(node->IsLeaf()));
				if constexpr (SNode::isContinuous) out += '-';
				else for (size_t i = 0; i < maxCap; ++i) tok(i ? ",%u" : "%u", unsigned(node->mCounter.indexes[i]));
				out += ';';
				Key* b = base();
				for (size_t sl = 0; sl < node->GetCapacity(); ++sl) { if (sl) out += ','; if (live(sl)) tok("%ld", KK::val(b[sl])); else out += '_'; }
				out += ';';
				if (node->IsLeaf()) out += '-';
				else for (size_t i = 0; i <= node->GetCount(); ++i) tok(i ? ",%ld" : "%ld", long(reinterpret_cast<uintptr_t>(node->GetChild(i))));
				if constexpr (!SNode::isContinuous) for (size_t i = 0; i < node->GetCount(); ++i) if (node->mCounter.indexes[i] >= node->GetCapacity()) bad("SLOT");
			};
			std::string op;
			while (is >> op)
			{
				if (!out.empty()) out += ' ';
				long a1 = 0, a2 = 0; std::sscanf(op.c_str() + 1, "%ld:%ld", &a1, &a2);
				stat(std::string("nodeop.") + op[0] + (SNode::isContinuous ? ".continuous" : ".indexed"));
				switch (op[0])
				{
				case 'L': case 'T': {
					destroyNode();
					size_t c0 = std::min<size_t>(size_t(a1), maxCap); bool leaf = op[0] == 'L';
					node = SNode::Create(*params, leaf, c0);
					for (size_t i = 0; i < c0; ++i) ::new(static_cast<void*>(node->GetItemPtr(i))) Key(KK::make(1000 + long(i), 0));
					if (!leaf) for (size_t i = 0; i <= c0; ++i) node->SetChild(i, reinterpret_cast<SNode*>(uintptr_t(i + 1)));
					nextChild = 1000;
					dump(); break; }
				case 'A': {
					if (node == nullptr) { out += '?'; break; }
					size_t index = size_t(a1), count = node->GetCount();
					if (!(count < node->GetCapacity() && index <= count)) { out += 'S'; stat("nodeop.acceptStuck"); break; }   // the MOMO_ASSERTs of AcceptBackItem
					::new(static_cast<void*>(node->GetItemPtr(count))) Key(KK::make(a2, 0));   // itemCreator(node->GetItemPtr(count))
					node->AcceptBackItem(*params, index);
					if (!node->IsLeaf()) node->SetChild(index + 1, reinterpret_cast<SNode*>(uintptr_t(nextChild)));
					++nextChild;
					dump(); break; }
				case 'R': {
					if (node == nullptr) { out += '?'; break; }
					size_t index = size_t(a1);
					if (!(index < node->GetCount())) { out += 'S'; stat("nodeop.removeStuck"); break; }
					node->Remove(*params, index, [] (Key& item) { item.~Key(); });
					dump(); break; }
				default: out += "?op";
				}
			}
			destroyNode();
			delete params;
			return out;
		}
	}

	std::string run(std::istringstream& is)
	{
		std::string op;
		stat(pfx + "cases");
		{	// a node script?
			std::streampos p0 = is.tellg(); std::string first;
			if ((is >> first) && first == "N") { stat(pfx + "nodeScripts"); return nodeRun(is); }
			is.clear(); is.seekg(p0);
		}
		while (is >> op)
		{
			if (!out.empty()) out += ' ';
			size_t o = 0; int side = 0;
			if (op[0] == 'b') { side = 1; o = 1; }
			Side& s = sd[side]; C& c = s.c; Twin& tw = s.tw;
			char k0 = op[o]; const char* arg = op.c_str() + o + 1;
			long a1 = 0, a2 = 0, a3 = 0; int na = std::sscanf(arg, "%ld:%ld:%ld", &a1, &a2, &a3); (void)na;
			stat(pfx + "ops"); stat(std::string("op.") + k0);
			switch (k0)
			{
			case 'i': doInsert(s, a1, "I"); break;
			case 'f': {   // bulk Insert of a1 keys a2, a2+a3, a2+2*a3, ... (big trees: no per-item iterator index)
				size_t before = c.GetCount();
				for (long j = 0; j < a1; ++j)
				{
					long k = a2 + j * a3, ser = serial++;
					size_t lb = twLb(tw, k), ub = twUb(tw, k);
					bool expIns = multi || lb == ub;
					auto r = ins(c, k, ser, tw);
					if (expIns) tw.insert(tw.begin() + ub, { k, ser });
					if (r.second != expIns || keyOf(r.first) != k) { bad("FILL"); break; }
					events(s, true);
				}
				tok("F%u", unsigned(c.GetCount() - before));
				break; }
			case 'a': {
				size_t h = a1 < 0 ? ix(a1, tw.size() + 1) : std::min<size_t>(size_t(a1), tw.size()); long k = a2;
				bool right = (h == 0 || ordered(tw[h - 1].first, k)) && (h == tw.size() || ordered(k, tw[h].first));
				if (h == tw.size()) stat("add.hint==end"); if (h == 0) stat("add.hint==begin");
				if (!right) { stat("add.wrongHint->Insert"); doInsert(s, k, "A"); break; }
				long ser = serial++;
				It r = add(c, at(c, h), k, ser);
				size_t i = idx(c, r);
				tok("A%u/1", unsigned(i));
				tw.insert(tw.begin() + h, { k, ser });
				if (i != h || keyOf(r) != k || (hasSerial && serOf(r) != ser)) bad("ADD");
				break; }
			case 'q': {
				long k = a1; Key key = KK::make(k, 0);
				size_t lb, ub, fi, kc; bool ct;
				if constexpr (std::is_same<Key, int>::value && trk == 0)
				{
					if (k % 2 == 0)
					{	// heterogeneous lookup (KeyArg = long)
						stat("query.KeyArg");
						lb = idx(c, It(c.GetLowerBound(k))); ub = idx(c, It(c.GetUpperBound(k))); fi = idx(c, It(c.Find(k)));
						kc = c.GetKeyCount(k); ct = c.ContainsKey(k);
						goto queried;
					}
				}
				lb = idx(c, It(c.GetLowerBound(key))); ub = idx(c, It(c.GetUpperBound(key)));
				fi = idx(c, It(c.Find(key)));
				kc = c.GetKeyCount(key); ct = c.ContainsKey(key);
			queried:
				tok("Q%u,%u,%u,%u,%d", unsigned(lb), unsigned(ub), unsigned(fi), unsigned(kc), int(ct));
				size_t elb = twLb(tw, k), eub = twUb(tw, k);
				if (lb != elb || ub != eub || kc != eub - elb || ct != (eub > elb) || fi != (eub > elb ? elb : tw.size())) bad("QUERY");
				if (eub > elb) stat("query.present"); else stat("query.absent");
				break; }
			case 't': fullCheck(s, true); break;
			case 's': {
				out += 'S'; auto& st = setOf(c);
				if (st.mRootNode == nullptr) out += '-'; else shape(st.mRootNode);
				break; }
			case 'r': {
				if (tw.empty()) { out += "R-"; break; }
				size_t h = ix(a1, tw.size());
				if (h + 1 == tw.size()) stat("remove.last"); if (h == 0) stat("remove.first");
				It r = It(c.Remove(at(c, h)));
				size_t i = idx(c, r);
				tok("R%u", unsigned(i));
				tw.erase(tw.begin() + h);
				if (i != h || (h < tw.size() && keyOf(r) != tw[h].first) || (h == tw.size() && !(r == c.GetEnd()))) bad("REMOVE");
				break; }
			case 'k': {
				long k = a1; size_t n = c.Remove(KK::make(k, 0));
				tok("K%u", unsigned(n));
				size_t elb = twLb(tw, k), eub = twUb(tw, k);
				tw.erase(tw.begin() + elb, tw.begin() + eub);
				if (n != eub - elb) bad("REMOVEKEY");
				stat(n == 0 ? "removeKey.absent" : (n == 1 ? "removeKey.one" : "removeKey.many"));
				break; }
			case 'g': {
				if (tw.empty()) { out += "G-"; break; }
				size_t h1 = ix(a1, tw.size() + 1), h2 = ix(a2, tw.size() + 1);
				if (h1 > h2) std::swap(h1, h2);
				stat(h1 == h2 ? "removeRange.empty" : ((h1 == 0 && h2 == tw.size()) ? "removeRange.all" : (h2 == tw.size() ? "removeRange.toEnd" : (h1 == 0 ? "removeRange.fromBegin" : "removeRange.inner"))));
				It r = It(c.Remove(at(c, h1), at(c, h2)));
				size_t i = idx(c, r);
				tok("G%u", unsigned(i));
				tw.erase(tw.begin() + h1, tw.begin() + h2);
				if (i != h1) bad("REMOVERANGE");
				break; }
			case 'p': {
				long m = std::max<long>(a1, 1), r = a2; size_t n;
				if constexpr (isMap) n = c.Remove([m, r] (const Key& key, const Val&) { return KK::val(key) % m == r; });
				else n = c.Remove([m, r] (const Key& key) { return KK::val(key) % m == r; });
				tok("P%u", unsigned(n));
				size_t before = tw.size();
				stat(n == 0 ? "removeIf.none" : (n == before ? "removeIf.all" : "removeIf.some"));
				tw.erase(std::remove_if(tw.begin(), tw.end(), [m, r] (const std::pair<long, long>& e) { return e.first % m == r; }), tw.end());
				if (n != before - tw.size()) bad("REMOVEIF");
				break; }
			case 'n': {   // Insert(begin, end) over the comma separated keys (the sorted-input fast path when they come ordered)
				std::vector<long> ks; { const char* p = arg; while (*p) { char* e; long v = std::strtol(p, &e, 10); if (e == p) break; ks.push_back(v); p = (*e == ',') ? e + 1 : e; } }
				size_t n; bool il = (serial % 2 == 0) && ks.size() >= 1 && ks.size() <= 3;   // short runs every other time through Insert(std::initializer_list)
				stat(il ? "insertRange.initializer_list" : "insertRange.iterators");
				if constexpr (isMap)
				{
					typedef std::pair<Key, Val> P; std::vector<P> v; for (long k : ks) { long sr = serial++; v.emplace_back(KK::make(k, sr), VK::make(sr)); }
					if (!il) n = c.Insert(v.begin(), v.end());
					else if (v.size() == 1) n = c.Insert({ v[0] });
					else if (v.size() == 2) n = c.Insert({ v[0], v[1] });
					else n = c.Insert({ v[0], v[1], v[2] });
				}
				else
				{
					std::vector<Key> v; for (long k : ks) v.push_back(KK::make(k, serial++));
					if (!il) n = c.Insert(v.begin(), v.end());
					else if (v.size() == 1) n = c.Insert({ v[0] });
					else if (v.size() == 2) n = c.Insert({ v[0], v[1] });
					else n = c.Insert({ v[0], v[1], v[2] });
				}
				tok("N%u", unsigned(n));
				size_t exp = 0; long sr0 = serial - long(ks.size());
				for (size_t q = 0; q < ks.size(); ++q)
				{
					size_t lb = twLb(tw, ks[q]), ub = twUb(tw, ks[q]);
					if (multi || lb == ub) { tw.insert(tw.begin() + ub, { ks[q], sr0 + long(q) }); ++exp; }
				}
				if (n != exp) bad("INSERTRANGE");
				break; }
			case 'c': c.Clear(); tw.clear(); out += 'C'; break;
			case 'z': {   // destroy this container while the other one lives on, then start a new one in its place
				c.~C(); ::new(static_cast<void*>(&c)) C(mkTraits(side), MM::make(side)); tw.clear(); out += 'Z'; break; }
			case 'x': {   // Extract at index a1, optionally re-key (a2 >= 0), Insert the extracted item back
				if (tw.empty()) { out += "X-"; break; }
				size_t h = ix(a1, tw.size());
				auto ext = c.Extract(at(c, h));
				std::pair<long, long> e = tw[h]; tw.erase(tw.begin() + h);
				if (na >= 2 && a2 >= 0) { e.first = a2; rekeyAny(ext, a2, e.second); }
				size_t lb = twLb(tw, e.first), ub = twUb(tw, e.first);
				bool expIns = multi || lb == ub;
				auto r = c.Insert(std::move(ext));
				It pos = It(r.position); size_t i = idx(c, pos);
				tok("X%u/%d", unsigned(i), int(r.inserted));
				if (expIns) tw.insert(tw.begin() + ub, e);
				if (i != (expIns ? ub : lb) || r.inserted != expIns || keyOf(pos) != e.first || (hasSerial && expIns && serOf(pos) != e.second)) bad("EXTRACT");
				if (!expIns) stat("extract.reinsertRefused(item destroyed with the ExtractedItem)");
				break; }
			case 'X': {   // Remove(iter, extractedItem&), then Add(returned iterator, ExtractedItem&&): back to the same place
				if (tw.empty()) { out += "X-"; break; }
				size_t h = ix(a1, tw.size());
				Ext ext;
				It r1 = It(c.Remove(at(c, h), ext));
				if (idx(c, r1) != h || ext.IsEmpty()) bad("REMOVEEXT");
				It r2 = It(c.Add(r1, std::move(ext)));
				size_t i = idx(c, r2);
				tok("X%u/1", unsigned(i));
				if (i != h || keyOf(r2) != tw[h].first || (hasSerial && serOf(r2) != tw[h].second) || !ext.IsEmpty()) bad("ADDEXT");
				break; }
			case 'd': {   // Extract and let the ExtractedItem die with the item inside
				if (tw.empty()) { out += "D-"; break; }
				size_t h = ix(a1, tw.size());
				{ auto ext = c.Extract(at(c, h)); if (ext.IsEmpty()) bad("EXTRACTEMPTY"); }
				tw.erase(tw.begin() + h); out += 'D';
				break; }
			case 'e': {   // ResetKey at index a1 to key a2 when that keeps the order
				if (tw.empty()) { out += "E-"; break; }
				size_t h = ix(a1, tw.size()); long k = a2;
				bool okk = (h == 0 || ordered(tw[h - 1].first, k)) && (h + 1 == tw.size() || ordered(k, tw[h + 1].first));
				if (!okk) { out += "E0"; break; }
				c.ResetKey(at(c, h), KK::make(k, tw[h].second));
				tw[h].first = k; out += "E1";
				break; }
			case 'y': {   // copy construct (every other time with an explicit memory manager), then move-assign back
				if (serial % 2) { C c2(c); c = std::move(c2); } else { C c2(c, MM::make(side)); c = std::move(c2); }
				out += 'Y'; break; }
			case 'Y': {   // copy assign into a fresh container, swap
				C c2(mkTraits(side), MM::make(side)); c2 = c; c.Swap(c2); out += 'Y'; break; }
			case 'm': {   // move construct and move back
				C c2(std::move(c)); if (c.GetCount() != 0) bad("MOVEDFROM"); c = std::move(c2); out += 'M'; break; }
			case 'w': sd[0].c.Swap(sd[1].c); sd[0].tw.swap(sd[1].tw); std::swap(last[0], last[1]); out += 'W'; break;
			case 'j': if constexpr (ID % 3 != 0) { out += 'J'; break; } else {   // (every third configuration, to keep the build time down)
				// MergeTo a container of ANOTHER type (template MergeTo<Set>) and MergeFrom it back: same contents, same serial order
				Alt alt(AltTraits(), MM::make(side));
				c.MergeTo(alt);
				if (c.GetCount() != 0 || alt.GetCount() != tw.size()) bad("MERGEALT");
				c.MergeFrom(alt);
				if (alt.GetCount() != 0) bad("MERGEALTBACK");
				out += 'J'; fullCheck(s, false);
				break; }
			case 'u': case 'v': {   // u: side.MergeFrom(other)   v: other.MergeTo(side)  -- both move other's items into side
				Side& d = s; Side& src = sd[1 - side];
				{	// which path the real code is going to take (conditions re-evaluated here for the statistics only)
					size_t cn = src.tw.size(), dn = d.tw.size();
					bool eqMM = momo::internal::MemManagerProxy<MM>::IsEqual(src.c.GetMemManager(), d.c.GetMemManager());
					const char* path;
					if (trk != 0) path = "nonEmptyTraits->generic";
					else if (cn == 0) path = "emptySource";
					else if (eqMM && dn == 0) path = "swapShortcut";
					else if (eqMM && ordered(d.tw.back().first, src.tw.front().first)) path = "fast(dst<src)";
					else if (eqMM && src.tw.back().first < d.tw.front().first) path = "fast(src<dst)";
					else { size_t lg = 0; while ((size_t(2) << lg) <= cn + dn) ++lg; path = (cn * lg < cn + dn) ? (eqMM ? "generic" : "unequalMM->generic") : (eqMM ? "linear" : "unequalMM->linear"); }
					stat(std::string("merge.") + path);
				}
				if (k0 == 'u') d.c.MergeFrom(src.c); else src.c.MergeTo(d.c);
				Twin rest;
				for (auto& e : src.tw)
				{
					size_t lb = twLb(d.tw, e.first), ub = twUb(d.tw, e.first);
					if (multi || lb == ub) d.tw.insert(d.tw.begin() + ub, e); else rest.push_back(e);
				}
				src.tw.swap(rest);
				tok("U%u,%u", unsigned(d.c.GetCount()), unsigned(src.c.GetCount()));
				fullCheck(d, false);
				fullCheck(src, false);
				events(src);
				break; }
			default: out += '?';
			}
			if (k0 != 't' && k0 != 's' && k0 != 'q') { fullCheckLight(s); events(s, k0 == 'i' || k0 == 'a' || k0 == 'f'); }
		}
		return out;
	}

	unsigned opCount = 0;
	void fullCheckLight(Side& s)
	{
		if (s.c.GetCount() != s.tw.size()) bad("COUNT");
		if ((++opCount % 7) == 0) fullCheck(s, false);
	}
};

template<class CF> static std::string runCase(std::istringstream& is)
{
	std::string out;
	long b0 = CountMM::liveBlocks, h0 = heapLive, w0 = wrongMM, m0 = selfMoves;
	{
		CF* r = new CF();
		out = r->run(is);
		r->fullCheck(r->sd[0], false); r->fullCheck(r->sd[1], false);
		out = r->out;
		delete r;
	}
	if (CountMM::liveBlocks != b0 || heapLive != h0) out += " !LEAK";
	if (wrongMM != w0) out += " !WRONGMM";
	if (selfMoves != m0) out += " !SELFMOVE";
	return out;
}
template<class CF> static std::string facts()
{
	char b[256];
	std::snprintf(b, sizeof b, "@layout=%c crew=%s keyTriv=%d keyNothrowReloc=%d keyNothrowSwap=%d itemShiftable=%d lin=%d multi=%d checkVersion=%d emptyMM=%d emptyTraits=%d map=%d",
		CF::realLayoutCont() ? 'C' : 'I', CF::ptrCrew ? "ptr" : "inline", int(CF::KeyMgr::isTriviallyRelocatable), int(CF::KeyMgr::isNothrowRelocatable),
		int(CF::KeyMgr::isNothrowSwappable), int(CF::itemShiftable), int(CF::Traits::useLinearSearch), int(CF::Traits::multiKey), int(CF::C::Settings::checkVersion),
		int(CF::emptyMM), int(std::is_empty<typename CF::Traits>::value), int(CF::isMap));
	return b;
}

typedef MemPoolParams<1> P1; typedef MemPoolParams<8> P8; typedef MemPoolParams<1, 0> P1N; typedef MemPoolParams<8, 0> P8N;
typedef MemPoolParams<2> P2; typedef MemPoolParams<127> P127;
typedef StatMM<true> MMeq; typedef StatMM<false> MMne;

#ifndef CFGSET
#define CFGSET 0
#endif

//   id  key    value  multi maxCap step pool cont(asked) lin  checkVersion memory-manager traits layout(real)
#define CONFIGS_0(X) \
	X(0,  IntK,  NoV,   false, 1,   0,   P8,  true,  true,  true,  CountMM, 0, 'C') \
	X(1,  IntK,  LongV, true,  1,   1,   P1,  false, false, true,  CountMM, 0, 'I') \
	X(2,  StrK,  NoV,   true,  2,   0,   P1,  true,  false, true,  CountMM, 0, 'C') \
	X(3,  IntK,  LongV, false, 2,   1,   P8,  false, true,  true,  CountMM, 0, 'I') \
	X(4,  HeapK, NoV,   true,  2,   2,   P8,  true,  false, true,  CountMM, 0, 'I') \
	X(5,  IntK,  NoV,   true,  3,   1,   P8,  true,  true,  true,  CountMM, 0, 'C')
#define CONFIGS_1(X) \
	X(6,  StrK,  LongV, false, 3,   2,   P1,  false, false, true,  CountMM, 0, 'I') \
	X(7,  IntK,  NoV,   false, 3,   100, P8,  true,  false, true,  CountMM, 0, 'C') \
	X(8,  IntK,  LongV, true,  4,   0,   P8,  false, true,  true,  CountMM, 0, 'I') \
	X(9,  HeapK, NoV,   false, 4,   1,   P1N, true,  false, true,  CountMM, 0, 'I') \
	X(10, IntK,  NoV,   false, 4,   2,   P8,  true,  true,  true,  CountMM, 0, 'C') \
	X(11, StrK,  NoV,   true,  4,   100, P1,  true,  true,  true,  CountMM, 0, 'C')
#define CONFIGS_2(X) \
	X(12, IntK,  NoV,   false, 5,   1,   P8,  true,  false, true,  CountMM, 0, 'C') \
	X(13, IntK,  LongV, true,  5,   2,   P1,  true,  true,  true,  CountMM, 0, 'C') \
	X(14, HeapK, LongV, true,  5,   0,   P8N, false, false, true,  CountMM, 0, 'I') \
	X(15, IntK,  NoV,   false, 5,   100, P1N, false, true,  true,  CountMM, 0, 'I') \
	X(16, IntK,  NoV,   false, 8,   1,   P8,  true,  true,  true,  CountMM, 0, 'C') \
	X(17, IntK,  NoV,   true,  8,   2,   P1,  true,  false, true,  CountMM, 0, 'C')
#define CONFIGS_3(X) \
	X(18, StrK,  LongV, false, 8,   0,   P1,  false, true,  true,  CountMM, 0, 'I') \
	X(19, IntK,  LongV, true,  8,   100, P8,  true,  false, true,  CountMM, 0, 'C') \
	X(20, IntK,  NoV,   false, 32,  4,   P8,  true,  true,  true,  CountMM, 0, 'C') \
	X(21, IntK,  LongV, true,  32,  1,   P1,  false, false, true,  CountMM, 0, 'I') \
	X(22, MoveK, NoV,   false, 32,  2,   P8,  true,  false, true,  CountMM, 0, 'C') \
	X(23, IntK,  NoV,   true,  32,  0,   P1,  true,  true,  true,  CountMM, 0, 'C')
#define CONFIGS_4(X) \
	X(24, IntK,  NoV,   false, 255, 100, P1,  true,  true,  true,  CountMM, 0, 'C') \
	X(25, IntK,  LongV, true,  255, 1,   P8,  false, false, true,  CountMM, 0, 'I') \
	X(26, IntK,  NoV,   false, 255, 0,   P1N, true,  false, true,  CountMM, 0, 'C') \
	X(27, StrK,  NoV,   true,  255, 2,   P8,  true,  true,  true,  CountMM, 0, 'C') \
	X(28, IntK,  NoV,   true,  3,   0,   P8,  true,  false, true,  CountMM, 0, 'C') \
	X(29, IntK,  LongV, true,  4,   1,   P8,  true,  false, true,  CountMM, 0, 'C')
#define CONFIGS_5(X) \
	X(30, IntK,  NoV,   false, 2,   100, P1N, true,  true,  true,  CountMM, 0, 'C') \
	X(31, HeapK, LongV, false, 1,   2,   P8,  false, false, true,  CountMM, 0, 'I') \
	X(32, IntK,  NoV,   false, 32,  4,   P8,  true,  true,  false, CountMM, 0, 'C') \
	X(33, IntK,  LongV, true,  4,   2,   P8,  true,  false, false, CountMM, 0, 'C') \
	X(34, SwapK, NoV,   true,  3,   1,   P8,  true,  false, true,  CountMM, 0, 'C') \
	X(35, SwapK, LongV, false, 8,   2,   P1,  true,  false, false, CountMM, 0, 'C')
#define CONFIGS_6(X) \
	X(36, IntK,  HeapV, true,  4,   1,   P8,  true,  true,  true,  CountMM, 0, 'I') \
	X(37, StrK,  StrV,  false, 5,   2,   P8,  true,  false, false, CountMM, 0, 'C') \
	X(38, IntK,  NoV,   false, 4,   2,   P8,  true,  true,  true,  MMne,    0, 'C') \
	X(39, IntK,  LongV, true,  2,   1,   P1,  true,  false, false, MMne,    0, 'C') \
	X(40, IntK,  NoV,   true,  4,   1,   P8,  true,  false, true,  CountMM, 1, 'C') \
	X(41, StrK,  NoV,   false, 3,   0,   P1,  true,  false, false, CountMM, 2, 'C')
#define CONFIGS_7(X) \
	X(42, IntK,  NoV,   false, 254, 127, P127, true, true,  true,  CountMM, 0, 'C') \
	X(43, IntK,  NoV,   true,  255, 255, P2,  true,  false, false, CountMM, 0, 'C') \
	X(44, IntK,  StrV,  false, 255, 254, P1,  false, true,  true,  CountMM, 0, 'I') \
	X(45, IntK,  NoV,   false, 16,  2,   P8,  true,  true,  false, MMeq,    0, 'C') \
	X(46, StrK,  LongV, true,  64,  8,   P1,  true,  false, true,  MMeq,    0, 'C') \
	X(47, HeapK, NoV,   false, 255, 1,   P1,  true,  false, true,  CountMM, 0, 'I')
// (32.. were added in the audit round: inline crew (checkVersion=false), swap-shifted items, non-trivial map values, stateful memory
// managers (equal / unequal), non-empty and std traits, boundary node/pool parameters, library defaults, full 255-entry index table)

#define CAT_(a, b) a##b
#define CAT(a, b) CAT_(a, b)
#define CONFIGS CAT(CONFIGS_, CFGSET)

// library defaults really are what configurations 20/32 (TreeNode<>), 45 (TreeNode<16>) and 46 (TreeNode<64>) spell out
static_assert(std::is_same<TreeNodeDefault, TreeNode<32, 4, MemPoolParams<8>, true>>::value, "TreeNodeDefault");
static_assert(std::is_same<TreeNode<16>, TreeNode<16, 2, MemPoolParams<8>, true>>::value && std::is_same<TreeNode<64>, TreeNode<64, 8, MemPoolParams<1>, true>>::value, "TreeNode defaults");
static_assert(TreeTraits<int>::useLinearSearch && !TreeTraits<std::string>::useLinearSearch && !TreeTraits<int>::multiKey, "TreeTraits defaults");
static_assert(std::is_same<TreeMultiMap<int, long>, TreeMap<int, long, TreeTraits<int, true>>>::value, "TreeMultiMap");

int main()
{
	std::string line;
	while (std::getline(std::cin, line))
	{
		std::istringstream is(line);
		int id; long mc, st, bc, lin, multi;
		if (!(is >> id >> mc >> st >> bc >> lin >> multi)) { puts("?"); continue; }
		std::string out = "?cfg";
		bool wantFacts = line.find('@') != std::string::npos;
		switch (id)
		{
#define X(ID, KK, VK, MULTI, MC, ST, POOL, CONT, LIN, VER, MM, TRK, LAYOUT) \
		case ID: { typedef Cfg<ID, KK, VK, MULTI, MC, ST, POOL, CONT, LIN, VER, MM, TRK, LAYOUT> CF; \
			if (mc != MC || st != ST || bc != long(POOL::blockCount) || lin != int(LIN) || multi != int(MULTI)) out = "?params"; \
			else if (wantFacts) out = facts<CF>(); \
			else out = runCase<CF>(is); break; }
		CONFIGS(X)
#undef X
		default: break;
		}
		puts(out.c_str());
		fflush(stdout);   // one line per case must reach the pipe before a later case can crash
	}
	for (auto& e : STAT) std::fprintf(stderr, "#STAT %s\t%ld\n", e.first.c_str(), e.second);
	for (auto& e : STATMAX) std::fprintf(stderr, "#STATMAX %s\t%ld\n", e.first.c_str(), e.second);
	return 0;
}
