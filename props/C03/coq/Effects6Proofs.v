(* C03 -- proofs for Effects6.v *)
From Coq Require Import ZArith Bool List Lia.
From C03 Require Import Effects EffectsProofs Effects2 Effects2Proofs Pointwise Effects6.
Import ListNotations.
Local Open Scope Z_scope.

(* ================================================================== (a) pools with a cache *)
Section CachedPoolProofs.
Variables mgr bufsz : Z.
Variable bc cachemax : nat.

Lemma pool_flush_wf p : pool_wf p -> pool_wf (pool_flush p).
Proof. unfold pool_wf, pool_flush. simpl. intros H blk Hin. apply H. exact Hin. Qed.

Lemma pool_deallocate_wf p blk : pool_wf p -> In (fst blk) (p_bufs p) -> pool_wf (pool_deallocate cachemax p blk).
Proof.
  unfold pool_wf, pool_deallocate. intros H Hb b Hin. destruct (Nat.ltb (length (p_cache p)) cachemax); simpl in *.
  - destruct Hin as [E|Hin]; [subst; exact Hb|apply H; exact Hin].
  - destruct Hin as [E|Hin]; [subst; exact Hb|apply H; exact Hin].
Qed.

(* MergeFrom as it is (source cache flushed): afterwards the source holds no cached block, no free block and no buffer; every
   buffer the source owned - hence every block in it - belongs to the destination; both pools stay well-formed *)
Theorem merge_from_source_emptied dst src :
  pool_wf dst -> pool_wf src ->
  let '(dst', src') := pool_merge_from true dst src in
  p_cache src' = [] /\ p_free src' = [] /\ p_bufs src' = [] /\
  (forall b, In b (p_bufs src) -> In b (p_bufs dst')) /\ (forall b, In b (p_bufs dst) -> In b (p_bufs dst')) /\
  (forall blk, In blk (p_cache src ++ p_free src) -> In blk (p_free dst')) /\
  pool_wf dst' /\ pool_wf src'.
Proof.
  intros Hd Hs. unfold pool_merge_from, pool_flush. simpl.
  split; [reflexivity|]. split; [reflexivity|]. split; [reflexivity|].
  split; [intros b Hin; apply in_or_app; left; exact Hin|].
  split; [intros b Hin; apply in_or_app; right; exact Hin|].
  split; [intros blk Hin; apply in_or_app; left; exact Hin|].
  split.
  - intros blk Hin. simpl in Hin. apply in_app_or in Hin. destruct Hin as [Hin|Hin].
    + apply in_or_app. right. apply Hd. apply in_or_app. left. exact Hin.
    + apply in_app_or in Hin. destruct Hin as [Hin|Hin].
      * apply in_or_app. left. apply Hs. exact Hin.
      * apply in_or_app. right. apply Hd. apply in_or_app. right. exact Hin.
  - intros blk Hin. destruct Hin.
Qed.

(* the seeded shape (the destination's cache is flushed instead): the source keeps cached blocks of buffers it no longer owns *)
Theorem merge_from_wrong_flush_refuted :
  exists dst src, pool_wf dst /\ pool_wf src /\ ~ pool_wf (snd (pool_merge_from false dst src)).
Proof.
  exists (mkP [7] [] [(7, 1%nat)]), (mkP [5] [(5, 0%nat)] [(5, 1%nat)]). split; [|split].
  - intros blk [E|[]]. subst. left. reflexivity.
  - intros blk [E|[E|[]]]; subst; left; reflexivity.
  - intros H. specialize (H (5, 0%nat) (or_introl eq_refl)). destruct H.
Qed.

(* a well-formed pool only hands out blocks of buffers it owns, and stays well-formed *)
Lemma pool_allocate_wf p s :
  pool_wf p ->
  match pool_allocate mgr bufsz bc p s with
  | (((p', blk), Val _), _) => pool_wf p' /\ In (fst blk) (p_bufs p')
  | (((p', _), _), _) => pool_wf p'
  end.
Proof.
  intros H. unfold pool_allocate. destruct (p_cache p) as [|blk c'] eqn:Ec.
  - destruct (p_free p) as [|blk f'] eqn:Ef.
    + destruct (p_alloc mgr bufsz s) as [[b| |] s1]; try exact H.
      split; [|left; reflexivity]. intros blk Hin. simpl in Hin. apply in_map_iff in Hin. destruct Hin as (i & E & _). subst blk. left. reflexivity.
    + split.
      * intros b Hin. simpl in *. apply H. rewrite Ec, Ef. simpl. right. exact Hin.
      * simpl. apply H. rewrite Ec, Ef. left. reflexivity.
  - split.
    + intros b Hin. simpl in *. apply H. rewrite Ec. simpl. right. exact Hin.
    + simpl. apply H. rewrite Ec. left. reflexivity.
Qed.

End CachedPoolProofs.

(* the whole scenario of the seeded change, executed: with the wrong flush the refilled source reads a block of a buffer that
   died with the destination (Stuck: use after free); as it is, the same scenario ends clean *)
Theorem merge_refill_use_after_free_refuted :
  exists (a : nat) (sch : list bool),
    is_stuck (merge_refill_scn 1 114 2 16 false a (init_state (-1) 0 sch)) = true /\
    (let '(o, s') := merge_refill_scn 1 114 2 16 true a (init_state (-1) 0 sch) in
     is_stuck (o, s') = false /\ blocks s' = []).
Proof. exists 3%nat, []. split; [vm_compute; reflexivity|vm_compute; split; reflexivity]. Qed.

(* ================================================================== shared: sets of block ids in the pointwise view *)
From Coq Require Import Permutation.

Definition memz (x : Z) (l : list Z) : bool := existsb (fun y => Z.eqb y x) l.

Lemma memz_spec x l : reflect (In x l) (memz x l).
Proof.
  apply iff_reflect. unfold memz. rewrite existsb_exists. split.
  - intros H. exists x. split; [exact H|apply Z.eqb_refl].
  - intros (y & Hin & E). apply Z.eqb_eq in E. subst y. exact Hin.
Qed.

Lemma memz_iff x l l' : (In x l <-> In x l') -> memz x l = memz x l'.
Proof. intros H. destruct (memz_spec x l), (memz_spec x l'); try reflexivity; tauto. Qed.

Lemma nd_app_l {A} (l l' : list A) : NoDup (l ++ l') -> NoDup l.
Proof.
  induction l as [|a l IH]; intros N; [constructor|]. inversion N as [|x xs Hx Hxs]; subst. constructor.
  - intros Hin. apply Hx. apply in_or_app. left. exact Hin.
  - apply IH. exact Hxs.
Qed.
Lemma nd_app_r {A} (l l' : list A) : NoDup (l ++ l') -> NoDup l'.
Proof. induction l as [|a l IH]; intros N; [exact N|]. inversion N; subst. apply IH. assumption. Qed.
Lemma nd_app_disj {A} (l l' : list A) x : NoDup (l ++ l') -> In x l -> In x l' -> False.
Proof.
  induction l as [|a l IH]; intros N H1 H2; [destruct H1|]. inversion N as [|y ys Hy Hys]; subst. destruct H1 as [E|H1].
  - subst a. apply Hy. apply in_or_app. right. exact H2.
  - apply (IH Hys H1 H2).
Qed.

Section FreeList.
Variables mgr sz : Z.
Variable dealloc_all : list Z -> M unit.
Hypothesis dealloc_nil : dealloc_all [] = ret tt.
Hypothesis dealloc_cons : forall r l, dealloc_all (r :: l) = (p_dealloc mgr r sz ;;; dealloc_all l).

(* returning a set of blocks, in any position of the view, one after the other *)
Lemma dealloc_all_post2 f : forall l s (g : bview) nb,
  st2 s f g nb -> NoDup l -> (forall x, In x l -> g x = Some (mgr, sz)) ->
  post (dealloc_all l) s (fun _ s' => st2 s' f (fun x => if memz x l then None else g x) nb) (fun _ => False).
Proof.
  induction l as [|r l IH]; intros s g nb H N Hg.
  - rewrite dealloc_nil. apply post_ret. exact H.
  - rewrite dealloc_cons. apply post_bind. inversion N as [|a b Hr Hl]; subst.
    eapply post_conseq; [apply (p_dealloc_post2 mgr r sz s f g nb H (Hg r (or_introl eq_refl)))| |auto].
    intros u s1 H1.
    eapply post_conseq; [apply (IH s1 _ nb H1 Hl)| |auto].
    + intros x Hin. cbv beta. destruct (Z.eqb_spec r x) as [E|E]; [subst x; contradiction|]. apply Hg. right. exact Hin.
    + intros u2 s2 H2. eapply st2_ext; [intros l0; reflexivity| |exact H2].
      intros x. cbv beta. simpl. destruct (Z.eqb r x), (memz x l); reflexivity.
Qed.
End FreeList.

(* ================================================================== (b) DataTable crew and the free-raw stack *)
Section DataCrewProofs.
Variables mgr rsz crewsz : Z.
Variable f : loc -> bool.
Variable g0 : bview.
Variable nb0 : Z.
Hypothesis Hg0 : forall b, nb0 <= b -> g0 b = None.

Definition all_raws (t : dtab) : list Z := d_rows t ++ d_held t ++ d_free t.
Definition dview (t : dtab) : bview :=
  fun x => if memz x (all_raws t) then Some (mgr, rsz) else if Z.eqb (d_crew t) x then Some (mgr, crewsz) else g0 x.

(* the table owns its crew and every raw - stored, held by a row object, or waiting on the free-raw stack - exactly once *)
Definition dt_inv (t : dtab) (s : rstate) (nb : Z) : Prop :=
  st2 s f (dview t) nb /\ NoDup (d_crew t :: all_raws t) /\ Forall (fun x => nb0 <= x < nb) (d_crew t :: all_raws t) /\ nb0 <= nb.

Lemma dt_inv_perm t t' s nb :
  d_crew t' = d_crew t -> Permutation (all_raws t) (all_raws t') -> dt_inv t s nb -> dt_inv t' s nb.
Proof.
  intros Ec P (H & N & G & Hn). split; [|split; [|split; [|exact Hn]]].
  - eapply st2_ext; [intros l; reflexivity| |exact H]. intros x. unfold dview. rewrite Ec.
    rewrite (memz_iff x (all_raws t) (all_raws t')); [reflexivity|].
    split; intros Hin; [apply (Permutation_in _ P Hin)|apply (Permutation_in _ (Permutation_sym P) Hin)].
  - rewrite Ec. eapply Permutation_NoDup; [|exact N]. constructor. exact P.
  - rewrite Ec. eapply Permutation_Forall; [|exact G]. constructor. exact P.
Qed.

Lemma free_raws_post2 l s g nb :
  st2 s f g nb -> NoDup l -> (forall x, In x l -> g x = Some (mgr, rsz)) ->
  post (free_raws mgr rsz l) s (fun _ s' => st2 s' f (fun x => if memz x l then None else g x) nb) (fun _ => False).
Proof. apply (dealloc_all_post2 mgr rsz (free_raws mgr rsz) eq_refl (fun r l0 => eq_refl) f l s g nb). Qed.

Lemma dt_step_spec op t s nb :
  dt_inv t s nb ->
  match dt_step mgr rsz op t s with
  | ((_, Stuck), _) => False
  | ((t', _), s') => exists nb', nb <= nb' /\ dt_inv t' s' nb'
  end.
Proof.
  intros I. pose proof I as (H & N & G & Hn). destruct op; simpl.
  - (* NewRow *)
    pose proof (p_alloc_post2 mgr rsz s _ _ nb H) as A. unfold post in A.
    destruct (p_alloc mgr rsz s) as [[r| |] s1]; [| |contradiction].
    2:{ exists nb. split; [lia|]. split; [exact A|]. split; [exact N|split; [exact G|exact Hn]]. }
    destruct A as [Er H1]. subst r. exists (nb + 1). split; [lia|].
    set (t' := {| d_crew := d_crew t; d_rows := d_rows t; d_held := nb :: d_held t; d_free := d_free t |}).
    assert (P : Permutation (nb :: all_raws t) (all_raws t')) by (unfold all_raws, t'; simpl; apply Permutation_middle).
    assert (Hfresh : ~ In nb (d_crew t :: all_raws t)) by (intros Hin; rewrite Forall_forall in G; specialize (G nb Hin); lia).
    split; [|split; [|split; [|lia]]].
    + eapply st2_ext; [intros l; reflexivity| |exact H1]. intros x. cbv beta. unfold dview.
      rewrite (memz_iff x (all_raws t') (nb :: all_raws t)).
      2:{ split; intros Hin; [apply (Permutation_in _ (Permutation_sym P) Hin)|apply (Permutation_in _ P Hin)]. }
      simpl. destruct (Z.eqb nb x); reflexivity.
    + eapply (Permutation_NoDup (perm_skip (d_crew t) P)).
      apply NoDup_cons_iff in N. destruct N as [Nc Na]. constructor.
      * intros [E|Hin]; [apply Hfresh; left; symmetry; exact E|exact (Nc Hin)].
      * constructor; [intros Hin; apply Hfresh; right; exact Hin|exact Na].
    + eapply (Permutation_Forall (perm_skip (d_crew t) P)).
      inversion G as [|a b Gc Ga]; subst. constructor; [lia|]. constructor; [lia|].
      eapply Forall_impl; [|exact Ga]. intros a Ha. simpl in Ha. lia.
  - (* Add *)
    destruct (d_held t) as [|r h] eqn:Eh; [exists nb; split; [lia|exact I]|].
    exists nb. split; [lia|]. eapply (dt_inv_perm t); [reflexivity| |exact I].
    unfold all_raws. cbn [d_rows d_held d_free]. rewrite Eh. simpl. apply Permutation_sym. apply Permutation_middle.
  - (* Extract *)
    destruct (d_rows t) as [|r rs] eqn:Er; [exists nb; split; [lia|exact I]|].
    exists nb. split; [lia|]. eapply (dt_inv_perm t); [reflexivity| |exact I].
    unfold all_raws. cbn [d_rows d_held d_free]. rewrite Er. simpl. apply Permutation_middle.
  - (* ~Row *)
    destruct (d_held t) as [|r h] eqn:Eh; [exists nb; split; [lia|exact I]|].
    exists nb. split; [lia|]. eapply (dt_inv_perm t); [reflexivity| |exact I].
    unfold all_raws. cbn [d_rows d_held d_free]. rewrite Eh. apply Permutation_app_head. simpl. apply Permutation_middle.
  - (* pvDeallocateFreeRaws *)
    assert (Nf : NoDup (d_free t)).
    { apply NoDup_cons_iff in N. destruct N as [_ Na]. unfold all_raws in Na. apply nd_app_r in Na. apply nd_app_r in Na. exact Na. }
    assert (Gf : forall x, In x (d_free t) -> dview t x = Some (mgr, rsz)).
    { intros x Hin. unfold dview. destruct (memz_spec x (all_raws t)) as [_|Hn']; [reflexivity|].
      exfalso. apply Hn'. unfold all_raws. apply in_or_app. right. apply in_or_app. right. exact Hin. }
    pose proof (free_raws_post2 (d_free t) s _ nb H Nf Gf) as P. unfold post in P.
    destruct (free_raws mgr rsz (d_free t) s) as [[u| |] s1]; try contradiction.
    exists nb. split; [lia|].
    set (t' := {| d_crew := d_crew t; d_rows := d_rows t; d_held := d_held t; d_free := [] |}).
    assert (Hsub : forall x, In x (all_raws t') -> In x (all_raws t)).
    { intros x Hin. unfold all_raws, t' in *. simpl in Hin. rewrite app_nil_r in Hin. apply in_app_or in Hin.
      apply in_or_app. destruct Hin as [Hin|Hin]; [left; exact Hin|right; apply in_or_app; left; exact Hin]. }
    split; [|split; [|split; [|exact Hn]]].
    + eapply st2_ext; [intros l; reflexivity| |exact P]. intros x. cbv beta. unfold dview.
      destruct (memz_spec x (d_free t)) as [Hin|Hnin].
      * assert (Hx : In x (d_crew t :: all_raws t)) by (right; unfold all_raws; apply in_or_app; right; apply in_or_app; right; exact Hin).
        rewrite Forall_forall in G. specialize (G x Hx).
        destruct (memz_spec x (all_raws t')) as [Hin'|_].
        -- exfalso. unfold all_raws, t' in Hin'. simpl in Hin'. rewrite app_nil_r in Hin'.
           apply NoDup_cons_iff in N. destruct N as [_ Na]. unfold all_raws in Na.
           rewrite app_assoc in Na. apply (nd_app_disj _ _ x Na Hin' Hin).
        -- change (d_crew t') with (d_crew t). destruct (Z.eqb_spec (d_crew t) x) as [E|E].
           ++ exfalso. apply NoDup_cons_iff in N. destruct N as [Nc _]. apply Nc. rewrite E.
              unfold all_raws. apply in_or_app. right. apply in_or_app. right. exact Hin.
           ++ symmetry. apply Hg0. lia.
      * rewrite (memz_iff x (all_raws t') (all_raws t)); [reflexivity|]. split; [apply Hsub|].
        intros Hin. unfold all_raws, t' in *. simpl. rewrite app_nil_r. apply in_app_or in Hin. destruct Hin as [Hin|Hin]; [apply in_or_app; left; exact Hin|].
        apply in_app_or in Hin. destruct Hin as [Hin|Hin]; [apply in_or_app; right; exact Hin|contradiction].
    + apply NoDup_cons_iff in N. destruct N as [Nc Na]. constructor; [intros Hin; apply Nc; apply Hsub; exact Hin|].
      unfold all_raws, t'. simpl. rewrite app_nil_r. unfold all_raws in Na. rewrite app_assoc in Na. apply (nd_app_l _ _ Na).
    + inversion G as [|a b Gc Ga]; subst. constructor; [exact Gc|]. rewrite Forall_forall in *. intros x Hin. apply Ga. apply Hsub. exact Hin.
Qed.

Lemma dt_run_spec : forall ops t s nb,
  dt_inv t s nb ->
  match dt_run mgr rsz ops t s with
  | ((_, Stuck), _) => False
  | ((t', _), s') => exists nb', dt_inv t' s' nb'
  end.
Proof.
  induction ops as [|op ops IH]; intros t s nb I; simpl.
  - exists nb. exact I.
  - pose proof (dt_step_spec op t s nb I) as S.
    destruct (dt_step mgr rsz op t s) as [[t' o] s1].
    destruct o; try contradiction; destruct S as (nb1 & _ & I1); apply (IH t' s1 nb1 I1).
Qed.

(* the rows still held die, ~DataTable reclaims the free-raw stack, frees the stored raws and its crew: each raw exactly once *)
Lemma dt_destroy_post t s nb :
  dt_inv t s nb -> post (dt_destroy mgr rsz crewsz t) s (fun _ s' => st2 s' f g0 nb) (fun _ => False).
Proof.
  intros (H & N & G & Hn). unfold dt_destroy.
  apply NoDup_cons_iff in N. destruct N as [Nc Na]. unfold all_raws in Na, Nc.
  assert (Nhf : NoDup (d_held t ++ d_free t)) by (apply (nd_app_r _ _ Na)).
  assert (Nr : NoDup (d_rows t)) by (apply (nd_app_l _ _ Na)).
  assert (Gall : forall x, In x (all_raws t) -> nb0 <= x < nb) by (intros x Hin; rewrite Forall_forall in G; apply G; right; exact Hin).
  apply post_bind.
  eapply post_conseq; [apply (free_raws_post2 (d_held t ++ d_free t) s _ nb H Nhf)| |auto].
  { intros x Hin. unfold dview. destruct (memz_spec x (all_raws t)) as [_|Hn']; [reflexivity|].
    exfalso. apply Hn'. unfold all_raws. apply in_or_app. right. exact Hin. }
  intros u1 s1 H1. apply post_bind.
  eapply post_conseq; [apply (free_raws_post2 (d_rows t) s1 _ nb H1 Nr)| |auto].
  { intros x Hin. cbv beta. destruct (memz_spec x (d_held t ++ d_free t)) as [Hin2|_].
    - exfalso. apply (nd_app_disj _ _ x Na Hin Hin2).
    - unfold dview. destruct (memz_spec x (all_raws t)) as [_|Hn']; [reflexivity|].
      exfalso. apply Hn'. unfold all_raws. apply in_or_app. left. exact Hin. }
  intros u2 s2 H2.
  eapply post_conseq; [apply (p_dealloc_post2 mgr (d_crew t) crewsz s2 _ _ nb H2)| |auto].
  { cbv beta. destruct (memz_spec (d_crew t) (d_rows t)) as [Hin|_]; [exfalso; apply Nc; apply in_or_app; left; exact Hin|].
    destruct (memz_spec (d_crew t) (d_held t ++ d_free t)) as [Hin|_]; [exfalso; apply Nc; apply in_or_app; right; exact Hin|].
    unfold dview. destruct (memz_spec (d_crew t) (all_raws t)) as [Hin|_]; [exfalso; apply Nc; exact Hin|].
    rewrite Z.eqb_refl. reflexivity. }
  intros u3 s3 H3. eapply st2_ext; [intros l; reflexivity| |exact H3].
  intros x. cbv beta.
  destruct (Z.eqb_spec (d_crew t) x) as [E|E].
  - subst x. symmetry. apply Hg0. rewrite Forall_forall in G. specialize (G (d_crew t) (or_introl eq_refl)). lia.
  - destruct (memz_spec x (d_rows t)) as [Hin|Hn1].
    + symmetry. apply Hg0. specialize (Gall x). assert (In x (all_raws t)) by (unfold all_raws; apply in_or_app; left; exact Hin). specialize (Gall H0). lia.
    + destruct (memz_spec x (d_held t ++ d_free t)) as [Hin|Hn2].
      * symmetry. apply Hg0. assert (In x (all_raws t)) by (unfold all_raws; apply in_or_app; right; exact Hin). specialize (Gall x H0). lia.
      * unfold dview. destruct (memz_spec x (all_raws t)) as [Hin|_].
        -- exfalso. unfold all_raws in Hin. apply in_app_or in Hin. destruct Hin; [apply Hn1; assumption|apply Hn2; assumption].
        -- destruct (Z.eqb_spec (d_crew t) x); [congruence|reflexivity].
Qed.

End DataCrewProofs.

(* DataTable crew lifecycle, single-threaded resource view: the crew, then ANY history of NewRow / Add / Extract / ~Row /
   pvDeallocateFreeRaws, every schedule; then the rows still held die and the table is destroyed: never Stuck - a raw disposed by
   a row object is reclaimed exactly once, by the owning table - and the world ends as it started.  (The lock-free push/pop
   interleavings of the free-raw stack are C19's.) *)
Theorem dt_history_post mgr rsz crewsz ops s f g0 :
  st2 s f g0 (nextb s) -> (forall b, nextb s <= b -> g0 b = None) ->
  post (dt_history mgr rsz crewsz ops) s (fun _ s' => st2 s' f g0 (nextb s')) (fun s' => st2 s' f g0 (nextb s')).
Proof.
  intros H Hg0. unfold dt_history, post. set (nb := nextb s) in *.
  pose proof (p_alloc_post2 mgr crewsz s f g0 nb H) as A. unfold post in A.
  destruct (p_alloc mgr crewsz s) as [[crew| |] s0]; [| |contradiction].
  2:{ destruct A as (X & Y & Zc). split; [exact X|split; [exact Y|reflexivity]]. }
  destruct A as [Ec H0]. subst crew.
  assert (I0 : dt_inv mgr rsz crewsz f g0 nb (mkD nb [] [] []) s0 (nb + 1)).
  { split; [|split; [constructor; [intros []|constructor]|split; [constructor; [simpl; lia|constructor]|lia]]].
    eapply st2_ext; [intros l; reflexivity| |exact H0]. intros x. reflexivity. }
  pose proof (dt_run_spec mgr rsz crewsz f g0 nb Hg0 ops _ s0 (nb + 1) I0) as R.
  destruct (dt_run mgr rsz ops (mkD nb [] [] []) s0) as [[t o] s1].
  assert (Fin : forall nb1, dt_inv mgr rsz crewsz f g0 nb t s1 nb1 ->
            match dt_destroy mgr rsz crewsz t s1 with (Stuck, _) => False | (_, s2) => st2 s2 f g0 (nextb s2) end).
  { intros nb1 I1. pose proof (dt_destroy_post mgr rsz crewsz f g0 nb Hg0 t s1 nb1 I1) as P. unfold post in P.
    destruct (dt_destroy mgr rsz crewsz t s1) as [[u| |] s2]; try contradiction.
    destruct P as (X & Y & Zc). split; [exact X|split; [exact Y|reflexivity]]. }
  destruct o; try contradiction; destruct R as [nb1 I1]; specialize (Fin nb1 I1);
    destruct (dt_destroy mgr rsz crewsz t s1) as [[u| |] s2]; try contradiction; exact Fin.
Qed.

Theorem dt_history_any_schedule mgr rsz crewsz ops sch :
  post (dt_history mgr rsz crewsz ops) (init_state (-1) 0 sch)
       (fun _ s' => blocks s' = []) (fun s' => blocks s' = []).
Proof.
  assert (W : st2 (init_state (-1) 0 sch) (fun l => occ (init_cells (-1) 0 l)) (fun _ => None) (nextb (init_state (-1) 0 sch))).
  { split; [intros l; reflexivity|split; [intros b; reflexivity|reflexivity]]. }
  eapply post_conseq; [apply (dt_history_post mgr rsz crewsz ops _ _ _ W (fun b _ => eq_refl))| |].
  - intros u s' (_ & B & _). apply bview_empty. exact B.
  - intros s' (_ & B & _). apply bview_empty. exact B.
Qed.

(* a row object that frees its raw itself (instead of pushing it on the crew's stack) and the owner reclaiming it again: refuted *)
Theorem dt_double_reclaim_refuted :
  exists sch, is_stuck ((p_alloc 1 24 ;;; r <- p_alloc 1 40 ;; p_dealloc 1 r 40 ;;; free_raws 1 40 [r]) (init_state (-1) 0 sch)) = true.
Proof. exists []. vm_compute. reflexivity. Qed.

(* ================================================================== (c) migration between unequal allocators *)
Definition cellsof (l : list Z) (x : loc) : bool := existsb (fun b => loc_eqb x (b, 0)) l.

Lemma cellsof_other l x : (forall b, In b l -> b <> fst x) -> cellsof l x = false.
Proof.
  induction l as [|b l IH]; intros H; [reflexivity|]. simpl.
  destruct (loc_eqb_spec x (b, 0)) as [E|E]; [exfalso; apply (H b (or_introl eq_refl)); subst x; reflexivity|].
  simpl. apply IH. intros b' Hin. apply H. right. exact Hin.
Qed.

Section MigrationProofs.
Variables mgrA mgrB nsz : Z.

(* node blocks with one element each, owned through allocator mgrX, anywhere in the view: released one by one *)
Lemma drop_nodes_post2 mgrX : forall l s (f' : loc -> bool) (g' : bview) nb,
  st2 s (fun x => cellsof l x || f' x) (fun x => if memz x l then Some (mgrX, nsz) else g' x) nb ->
  NoDup l -> (forall b, In b l -> f' (b, 0) = false) ->
  post (drop_nodes nsz mgrX l) s (fun _ s' => st2 s' f' (fun x => if memz x l then None else g' x) nb) (fun _ => False).
Proof.
  induction l as [|b l IH]; intros s f' g' nb H N Hf; simpl.
  - apply post_ret. exact H.
  - inversion N as [|a c Hb Hl]; subst. apply post_bind.
    eapply post_conseq; [apply (p_destroy_post2 (b, 0) s _ _ nb H)| |auto].
    { cbv beta. simpl. rewrite loc_eqb_refl. reflexivity. }
    intros u1 s1 H1. apply post_bind.
    eapply post_conseq; [apply (p_dealloc_post2 mgrX b nsz s1 _ _ nb H1)| |auto].
    { cbv beta. simpl. rewrite Z.eqb_refl. reflexivity. }
    intros u2 s2 H2.
    eapply post_conseq; [apply (IH s2 f' (fun x => if Z.eqb b x then None else g' x) nb)| |auto].
    + eapply st2_ext; [| |exact H2].
      * intros x. cbv beta. simpl. destruct (loc_eqb_spec x (b, 0)) as [E|E]; simpl; [|reflexivity].
        subst x. rewrite (cellsof_other l (b, 0)) by (intros b' Hin E'; simpl in E'; subst b'; exact (Hb Hin)).
        simpl. symmetry. apply Hf. left. reflexivity.
      * intros x. cbv beta. simpl. destruct (Z.eqb_spec b x) as [E|E]; simpl; [|reflexivity].
        subst x. destruct (memz_spec b l); [contradiction|reflexivity].
    + exact Hl.
    + intros b' Hin. apply Hf. right. exact Hin.
    + intros u3 s3 H3. eapply st2_ext; [intros x; reflexivity| |exact H3].
      intros x. cbv beta. simpl. destruct (Z.eqb b x), (memz x l); reflexivity.
Qed.

Variable f0 : loc -> bool.
Variable g0 : bview.
Variable nb0 : Z.
Variable srcs : list Z.
Hypothesis Hcl : forall l, nb0 <= fst l -> f0 l = false.
Hypothesis Hg0 : forall b, nb0 <= b -> g0 b = None.
Hypothesis Hsrc_lt : forall b, In b srcs -> b < nb0.
Hypothesis Hsrc_nd : NoDup srcs.
Hypothesis Hsrc_f0 : forall b, In b srcs -> f0 (b, 0) = false.

(* the world: the source container's nodes (one element each, from allocator A) plus untouched rest *)
Definition wf_cells (l : loc) : bool := cellsof srcs l || f0 l.
Definition wg (x : Z) : option (Z * Z) := if memz x srcs then Some (mgrA, nsz) else g0 x.

Definition mig_inv (acc : list Z) (s : rstate) (nb : Z) : Prop :=
  st2 s (fun l => cellsof acc l || wf_cells l) (fun x => if memz x acc then Some (mgrB, nsz) else wg x) nb /\
  NoDup acc /\ Forall (fun x => nb0 <= x < nb) acc /\ nb0 <= nb.

Lemma migrate_loop_spec : forall rest acc s nb,
  (forall b, In b rest -> In b srcs) -> mig_inv acc s nb ->
  match migrate_loop mgrB nsz rest acc s with
  | ((_, Stuck), _) => False
  | ((acc', _), s') => exists nb', mig_inv acc' s' nb'
  end.
Proof.
  induction rest as [|sb rest IH]; intros acc s nb Hsub I; simpl.
  - exists nb. exact I.
  - pose proof I as (H & N & G & Hn).
    pose proof (p_alloc_post2 mgrB nsz s _ _ nb H) as A. unfold post in A.
    destruct (p_alloc mgrB nsz s) as [[b| |] s1]; [| |contradiction].
    2:{ exists nb. split; [exact A|]. split; [exact N|split; [exact G|exact Hn]]. }
    destruct A as [Eb H1]. subst b.
    assert (Hsb : In sb srcs) by (apply Hsub; left; reflexivity).
    assert (Es : cellsof acc (sb, 0) || wf_cells (sb, 0) = true).
    { unfold wf_cells. assert (cellsof srcs (sb, 0) = true); [|rewrite H0; rewrite orb_true_r; reflexivity].
      unfold cellsof. apply existsb_exists. exists sb. split; [exact Hsb|apply loc_eqb_refl]. }
    assert (Ed : cellsof acc (nb, 0) || wf_cells (nb, 0) = false).
    { unfold wf_cells. rewrite (Hcl (nb, 0)) by (simpl; lia). rewrite orb_false_r.
      rewrite (cellsof_other srcs (nb, 0)) by (intros b' Hin E; simpl in E; specialize (Hsrc_lt b' Hin); lia).
      rewrite orb_false_r. apply cellsof_other. intros b' Hin E. simpl in E. rewrite Forall_forall in G. specialize (G b' Hin). lia. }
    pose proof (p_move_nt_post2 (nb, 0) (sb, 0) s1 _ _ (nb + 1) H1 Es Ed) as P. unfold post in P.
    destruct (p_move_nt (nb, 0) (sb, 0) s1) as [[u| |] s2]; try contradiction.
    apply (IH (nb :: acc) s2 (nb + 1)); [intros b' Hin; apply Hsub; right; exact Hin|].
    split; [|split; [|split; [|lia]]].
    + eapply st2_ext; [| |exact P].
      * intros l. cbv beta. simpl. apply orb_assoc.
      * intros x. cbv beta. simpl. destruct (Z.eqb nb x); reflexivity.
    + constructor; [|exact N]. intros Hin. rewrite Forall_forall in G. specialize (G nb Hin). lia.
    + constructor; [lia|]. eapply Forall_impl; [|exact G]. intros a Ha. simpl in Ha. lia.
Qed.

(* what is left when both containers are gone: the rest of the world, the source's nodes returned *)
Definition wg_end (x : Z) : option (Z * Z) := if memz x srcs then None else g0 x.

Theorem migrate_then_destroy_post s nb :
  st2 s wf_cells wg nb -> nb0 <= nb ->
  post (migrate_then_destroy mgrA mgrB nsz srcs) s
       (fun _ s' => exists nb', st2 s' f0 wg_end nb') (fun s' => exists nb', st2 s' f0 wg_end nb').
Proof.
  intros H Hn. unfold migrate_then_destroy, migrate, post.
  assert (I0 : mig_inv [] s nb) by (split; [exact H|split; [constructor|split; [constructor|exact Hn]]]).
  pose proof (migrate_loop_spec srcs [] s nb (fun b Hin => Hin) I0) as L.
  destruct (migrate_loop mgrB nsz srcs [] s) as [[tgt o] s1].
  assert (Htgt : forall nb1, mig_inv tgt s1 nb1 -> forall x, memz x tgt = true -> memz x srcs = false /\ g0 x = None /\ nb0 <= x).
  { intros nb1 (_ & _ & G & _) x Hm. destruct (memz_spec x tgt) as [Hin|]; [|discriminate].
    rewrite Forall_forall in G. specialize (G x Hin). split; [|split; [apply Hg0; lia|lia]].
    destruct (memz_spec x srcs) as [Hin2|]; [specialize (Hsrc_lt x Hin2); lia|reflexivity]. }
  (* the source's nodes through allocator A *)
  assert (DropSrc : forall s2 nb2 (f' : loc -> bool) (g' : bview),
            st2 s2 (fun x => cellsof srcs x || f' x) (fun x => if memz x srcs then Some (mgrA, nsz) else g' x) nb2 ->
            (forall b, In b srcs -> f' (b, 0) = false) ->
            post (drop_nodes nsz mgrA srcs) s2 (fun _ s' => st2 s' f' (fun x => if memz x srcs then None else g' x) nb2) (fun _ => False)).
  { intros s2 nb2 f' g' H2 Hf'. apply (drop_nodes_post2 mgrA srcs s2 f' g' nb2 H2 Hsrc_nd Hf'). }
  destruct o as [u| |]; [| |contradiction]; destruct L as [nb1 I1]; pose proof I1 as (H1 & N1 & G1 & Hn1).
  - (* migrated: the source is cleared through A, later the target dies through B *)
    assert (P : post (drop_nodes nsz mgrA srcs) s1
                  (fun _ s' => st2 s' (fun x => cellsof tgt x || f0 x) (fun x => if memz x srcs then None else if memz x tgt then Some (mgrB, nsz) else g0 x) nb1)
                  (fun _ => False)).
    { apply (DropSrc s1 nb1 (fun x => cellsof tgt x || f0 x) (fun x => if memz x tgt then Some (mgrB, nsz) else g0 x)).
      - eapply st2_ext; [| |exact H1].
        + intros l. unfold wf_cells. destruct (cellsof tgt l), (cellsof srcs l), (f0 l); reflexivity.
        + intros x. cbv beta. unfold wg. destruct (memz x tgt) eqn:Et.
          * destruct (Htgt nb1 I1 x Et) as (E1 & _ & _). rewrite E1. reflexivity.
          * reflexivity.
      - intros b Hin. rewrite (Hsrc_f0 b Hin), orb_false_r. apply cellsof_other. intros b' Hin' E. simpl in E. subst b'.
        rewrite Forall_forall in G1. specialize (G1 b Hin'). specialize (Hsrc_lt b Hin). lia. }
    unfold post in P. destruct (drop_nodes nsz mgrA srcs s1) as [[u1| |] s2]; try contradiction.
    assert (Q : post (drop_nodes nsz mgrB tgt) s2 (fun _ s' => st2 s' f0 (fun x => if memz x tgt then None else wg_end x) nb1) (fun _ => False)).
    { apply (drop_nodes_post2 mgrB tgt s2 f0 wg_end nb1); [|exact N1|].
      - eapply st2_ext; [intros l; reflexivity| |exact P]. intros x. cbv beta. unfold wg_end.
        destruct (memz x tgt) eqn:Et; [destruct (Htgt nb1 I1 x Et) as (E1 & _ & _); rewrite E1; reflexivity|reflexivity].
      - intros b Hin. apply Hcl. simpl. rewrite Forall_forall in G1. specialize (G1 b Hin). lia. }
    unfold post in Q. destruct (drop_nodes nsz mgrB tgt s2) as [[u2| |] s3]; try contradiction.
    exists nb1. eapply st2_ext; [intros l; reflexivity| |exact Q]. intros x. cbv beta.
    destruct (memz x tgt) eqn:Et; [|reflexivity]. destruct (Htgt nb1 I1 x Et) as (E1 & E2 & _). unfold wg_end. rewrite E1, E2. reflexivity.
  - (* an allocation through B failed: the partial target goes back through B, the source destroys its elements itself *)
    assert (Q : post (drop_nodes nsz mgrB tgt) s1 (fun _ s' => st2 s' wf_cells (fun x => if memz x tgt then None else wg x) nb1) (fun _ => False)).
    { apply (drop_nodes_post2 mgrB tgt s1 wf_cells wg nb1 H1 N1).
      intros b Hin. unfold wf_cells. rewrite (Hcl (b, 0)) by (simpl; rewrite Forall_forall in G1; specialize (G1 b Hin); lia).
      rewrite orb_false_r. apply cellsof_other. intros b' Hin' E. simpl in E. subst b'.
      rewrite Forall_forall in G1. specialize (G1 b Hin). specialize (Hsrc_lt b Hin'). lia. }
    unfold catch_rethrow, throw. unfold post in Q. destruct (drop_nodes nsz mgrB tgt s1) as [[u2| |] s2]; try contradiction.
    assert (P : post (drop_nodes nsz mgrA srcs) s2 (fun _ s' => st2 s' f0 wg_end nb1) (fun _ => False)).
    { eapply post_conseq; [apply (DropSrc s2 nb1 f0 g0)| |auto].
      - eapply st2_ext; [intros l; reflexivity| |exact Q]. intros x. cbv beta. unfold wg.
        destruct (memz x tgt) eqn:Et; [|reflexivity]. destruct (Htgt nb1 I1 x Et) as (E1 & E2 & _). rewrite E1, E2. reflexivity.
      - exact Hsrc_f0.
      - intros u s' H'. exact H'. }
    unfold post in P. destruct (drop_nodes nsz mgrA srcs s2) as [[u3| |] s3]; try contradiction.
    exists nb1. exact P.
Qed.

End MigrationProofs.

(* returning the source's nodes through the TARGET's allocator is refuted (wrong manager: Stuck) *)
Theorem migrate_wrong_allocator_refuted :
  is_stuck (migrate_wrong_allocator 2 16 [1; 0]
              (mkR (fun l => if Z.eqb (snd l) 0 && (Z.eqb (fst l) 0 || Z.eqb (fst l) 1) then Live 5 else Raw)
                   [(1, (1, 16)); (0, (1, 16))] [] 2 [])) = true.
Proof. vm_compute. reflexivity. Qed.

(* ================================================================== (c') contiguous migration (stdish::vector) *)
Section BlockMigrationProofs.
Variables mgrA mgrB isz : Z.

Lemma move_all_post2 sb tb : forall n i s f g nb,
  st2 s f g nb -> (forall k, 0 <= k < Z.of_nat n -> f (sb, i + k) = true /\ f (tb, i + k) = false) -> sb <> tb ->
  post (move_all sb tb i n) s (fun _ s' => st2 s' (fun l => inrng tb i n l || f l) g nb) (fun _ => False).
Proof.
  induction n as [|n IH]; intros i s f g nb H Hr Hne; simpl.
  - apply post_ret. eapply st2_ext; [| |exact H]; [intros l; rewrite inrng_0; reflexivity|intros; reflexivity].
  - destruct (Hr 0) as [Hs0 Hd0]; [lia|]. rewrite Z.add_0_r in Hs0, Hd0. apply post_bind.
    eapply post_conseq; [apply (p_move_nt_post2 (tb, i) (sb, i) s f g nb H Hs0 Hd0)| |auto].
    intros u1 s1 H1.
    eapply post_conseq; [apply (IH (i + 1) s1 _ g nb H1)| |auto].
    + intros k Hk. destruct (Hr (1 + k)) as [Hs Hd]; [lia|].
      replace (i + 1 + k) with (i + (1 + k)) by lia. cbv beta. rewrite Hs, Hd. rewrite orb_true_r. split; [reflexivity|].
      destruct (loc_eqb_spec (tb, i + (1 + k)) (tb, i)) as [E|]; [exfalso; assert (i + (1 + k) = i) by congruence; lia|reflexivity].
    + exact Hne.
    + intros u2 s2 H2. eapply st2_ext; [|intros; reflexivity|exact H2]. intros l. cbv beta. rewrite inrng_S.
      destruct (loc_eqb l (tb, i)), (inrng tb (i + 1) n l), (f l); reflexivity.
Qed.

(* vector migration between unequal allocators followed by both destructors, every schedule: the target's storage comes from and
   goes back through B, the source's through A, every element (source and target) is destroyed exactly once *)
Theorem migrate_block_then_destroy_post sb n s f g nb :
  st2 s f g nb -> g sb = Some (mgrA, Z.of_nat n * isz) -> sb < nb -> g nb = None ->
  (forall k, 0 <= k < Z.of_nat n -> f (sb, 0 + k) = true) -> (forall l, fst l = nb -> f l = false) ->
  post (migrate_block_then_destroy mgrA mgrB isz sb n) s
       (fun _ s' => exists nb', st2 s' (fun l => negb (inrng sb 0 n l) && f l) (fun x => if Z.eqb sb x then None else g x) nb')
       (fun s' => exists nb', st2 s' (fun l => negb (inrng sb 0 n l) && f l) (fun x => if Z.eqb sb x then None else g x) nb').
Proof.
  intros H Hg Hlt Hgn Hsrc Hcl. unfold migrate_block_then_destroy, migrate_block, post.
  assert (DropSrc : forall s1 nb1 (g1 : bview), st2 s1 f g1 nb1 -> g1 sb = Some (mgrA, Z.of_nat n * isz) ->
            post (om_destroy_n sb 0 n ;;; p_dealloc mgrA sb (Z.of_nat n * isz)) s1
                 (fun _ s' => st2 s' (fun l => negb (inrng sb 0 n l) && f l) (fun x => if Z.eqb sb x then None else g1 x) nb1) (fun _ => False)).
  { intros s1 nb1 g1 H1 Hg1. apply post_bind.
    eapply post_conseq; [apply (om_destroy_n_post2 sb n 0 s1 f g1 nb1 H1 Hsrc)| |auto].
    intros u s2 H2. apply (p_dealloc_post2 mgrA sb (Z.of_nat n * isz) s2 _ g1 nb1 H2 Hg1). }
  pose proof (p_alloc_post2 mgrB (Z.of_nat n * isz) s f g nb H) as A.
  unfold bind at 1. unfold post in A.
  destruct (p_alloc mgrB (Z.of_nat n * isz) s) as [[tb| |] s1]; [| |contradiction].
  2:{ pose proof (DropSrc s1 nb g A Hg) as P. unfold post in P.
      destruct ((om_destroy_n sb 0 n;;; p_dealloc mgrA sb (Z.of_nat n * isz)) s1) as [[u| |] s2]; try contradiction. exists nb. exact P. }
  destruct A as [Et H1]. subst tb.
  set (g1 := fun x => if Z.eqb nb x then Some (mgrB, Z.of_nat n * isz) else g x) in *.
  assert (Hne : sb <> nb) by lia.
  assert (M1 : post (move_all sb nb 0 n ;;; om_destroy_n sb 0 n ;;; ret nb) s1
                 (fun tb s' => tb = nb /\ st2 s' (fun l => negb (inrng sb 0 n l) && (inrng nb 0 n l || f l)) g1 (nb + 1)) (fun _ => False)).
  { apply post_bind.
    eapply post_conseq; [apply (move_all_post2 sb nb n 0 s1 f g1 (nb + 1) H1)| |auto].
    - intros k Hk. split; [apply Hsrc; exact Hk|apply Hcl; reflexivity].
    - exact Hne.
    - intros u1 s2 H2. apply post_bind.
      eapply post_conseq; [apply (om_destroy_n_post2 sb n 0 s2 _ g1 (nb + 1) H2)| |auto].
      + intros k Hk. cbv beta. rewrite (Hsrc k Hk). apply orb_true_r.
      + intros u2 s3 H3. apply post_ret. split; [reflexivity|exact H3]. }
  unfold post in M1.
  destruct ((move_all sb nb 0 n;;; om_destroy_n sb 0 n;;; ret nb) s1) as [[tb| |] s2]; try contradiction.
  destruct M1 as [Et H2]. subst tb.
  assert (Q : post (om_destroy_n nb 0 n ;;; p_dealloc mgrB nb (Z.of_nat n * isz) ;;; p_dealloc mgrA sb (Z.of_nat n * isz)) s2
                (fun _ s' => st2 s' (fun l => negb (inrng sb 0 n l) && f l) (fun x => if Z.eqb sb x then None else g x) (nb + 1)) (fun _ => False)).
  { apply post_bind.
    eapply post_conseq; [apply (om_destroy_n_post2 nb n 0 s2 _ g1 (nb + 1) H2)| |auto].
    - intros k Hk. cbv beta. rewrite (inrng_other_region sb 0 n (nb, 0 + k)) by (simpl; lia).
      rewrite (inrng_in nb 0 n k Hk). reflexivity.
    - intros u1 s3 H3. apply post_bind.
      eapply post_conseq; [apply (p_dealloc_post2 mgrB nb (Z.of_nat n * isz) s3 _ g1 (nb + 1) H3)| |auto].
      + unfold g1. rewrite Z.eqb_refl. reflexivity.
      + intros u2 s4 H4.
        eapply post_conseq; [apply (p_dealloc_post2 mgrA sb (Z.of_nat n * isz) s4 _ _ (nb + 1) H4)| |auto].
        * cbv beta. unfold g1. destruct (Z.eqb_spec nb sb); [lia|]. exact Hg.
        * intros u3 s5 H5. eapply st2_ext; [| |exact H5].
          -- intros l. cbv beta. destruct (inrng_spec nb 0 n l) as [[E _]|]; simpl.
             ++ rewrite (Hcl l E). destruct (inrng sb 0 n l); reflexivity.
             ++ reflexivity.
          -- intros x. cbv beta. unfold g1. destruct (Z.eqb_spec sb x) as [E|E]; [reflexivity|].
             destruct (Z.eqb_spec nb x) as [E2|E2]; [subst x; symmetry; exact Hgn|reflexivity]. }
  unfold post in Q.
  destruct ((om_destroy_n nb 0 n;;; p_dealloc mgrB nb (Z.of_nat n * isz);;; p_dealloc mgrA sb (Z.of_nat n * isz)) s2) as [[u| |] s3];
    try contradiction. exists (nb + 1). exact Q.
Qed.

End BlockMigrationProofs.
