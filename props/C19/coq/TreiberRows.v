(* C19 -- the Row OBJECT layer (momo::internal::DataRow: move constructor, Swap, move assignment = move-construct a
   temporary + Swap + destroy the temporary, ptExtractRaw, the destructor's `mRaw == nullptr` guard) on top of the
   free-list machine.  The base machine ASSUMES that only a live detached buffer is ever handed to a destructor and
   only once (DBegin requires status Detached); here that becomes a THEOREM about the Row class: every detached buffer
   is held by exactly one constructed Row object, such an object always points to its table's list head, and therefore
   destroying any Row object on any idle thread is always enabled (never a null `mFreeRaws`, never a second push).
   ptExtractRaw is the cxx2coq translation of the real member (Gen_DataRow.v, regenerated on every run). *)
From Coq Require Import List Arith Bool PeanoNat ZArith Lia.
From C19 Require Import Treiber TreiberInv TreiberThms Gen_DataRow.
From C19 Require Gen_DataRowOps.
Import ListNotations.
Local Arguments step : simpl never.

Record rowobj := mkObj { o_live : bool; o_raw : option row; o_fl : bool }.
Definition no_obj := mkObj false None false.

Record lstate := mkL { lbase : state; objs : nat -> rowobj }.
Definition linit : lstate := mkL init (fun _ => no_obj).

Inductive llabel :=
| LB (l : label)                               (* a base step that neither creates nor consumes a Row object *)
| LNew (o : nat) (r : row) (g : option row)    (* NewRow: pvAllocateRaw's Allocate + pvMakeRow *)
| LExtract (o : nat) (r : row)                 (* Extract: pvExtractRaw + pvMakeRow *)
| LMoveCtor (o' o : nat)                       (* DataRow(DataRow&&) *)
| LSwap (o1 o2 : nat)                          (* Swap *)
| LAdd (o : nat)                               (* TryAdd / TryInsert / TryUpdate accepted: RowProxy::ExtractRaw, raw goes into the table *)
| LDestroy (t : tid) (o : nat).                (* ~DataRow: guard, DestroyRaw, then the push protocol of thread t *)

(* pointers as the generated code sees them: 0 = nullptr *)
Definition enc (a : option row) : Z := match a with None => 0%Z | Some r => Z.of_nat (S r) end.
Definition dec (z : Z) : option row := if Z.eqb z 0 then None else Some (Nat.pred (Z.to_nat z)).
Lemma dec_enc a : dec (enc a) = a.
Proof.
  destruct a; unfold dec, enc; [|reflexivity].
  destruct (Z.eqb_spec (Z.of_nat (S r)) 0); [lia|]. rewrite Nat2Z.id. reflexivity.
Qed.

(* RowProxy::ExtractRaw, executed by the GENERATED ptExtractRaw on the encoded members *)
Lemma dec0 : dec 0%Z = None.
Proof. reflexivity. Qed.

Definition extract_raw (ob : rowobj) : option row * rowobj :=
  let '(raw, mRaw') := ptExtractRaw (enc (o_raw ob)) (if o_fl ob then 1%Z else 0%Z) 1%Z (fun _ => 0%Z) 5%Z in
  (dec raw, mkObj (o_live ob) (dec mRaw') (o_fl ob)).

Local Arguments extract_raw : simpl never.

Lemma extract_raw_spec ob : extract_raw ob = (o_raw ob, mkObj (o_live ob) None (o_fl ob)).
Proof. unfold extract_raw, ptExtractRaw. rewrite dec_enc. reflexivity. Qed.

(* DataRow::Swap and DataRow(DataRow&&), executed by the GENERATED functions (Gen_DataRowOps.v) on the encoded members
   (column list pointer: 1 = the table's, never inspected by the model) *)
Definition flz (b : bool) : Z := if b then 1%Z else 0%Z.
Definition zfl (z : Z) : bool := negb (Z.eqb z 0).
Definition swap_objs (a b : rowobj) : rowobj * rowobj :=
  let '(_, raw, fl, _, rraw, rfl) :=
    Gen_DataRowOps.Swap 1%Z (enc (o_raw a)) (flz (o_fl a)) 1%Z (enc (o_raw b)) (flz (o_fl b)) in
  (mkObj (o_live a) (dec raw) (zfl fl), mkObj (o_live b) (dec rraw) (zfl rfl)).
Definition movector_objs (src : rowobj) : rowobj * rowobj :=
  let '(_, raw, fl, rraw, rfl) :=
    Gen_DataRowOps.MoveCtor 0%Z 0%Z 0%Z 1%Z (enc (o_raw src)) (flz (o_fl src)) in
  (mkObj true (dec raw) (zfl fl), mkObj (o_live src) (dec rraw) (zfl rfl)).

Lemma zfl_flz b : zfl (flz b) = b.
Proof. destruct b; reflexivity. Qed.

(* the generated Swap exchanges ALL members, in particular the list pointer together with the buffer (wave-2 seed a) *)
Lemma swap_objs_spec a b : o_live a = true -> o_live b = true -> swap_objs a b = (b, a).
Proof.
  intros La Lb. unfold swap_objs, Gen_DataRowOps.Swap. rewrite !dec_enc, !zfl_flz.
  destruct a, b; simpl in *; subst; reflexivity.
Qed.

(* the generated move constructor takes all members and nulls the source's buffer AND list pointer (M11, N3) *)
Lemma movector_objs_spec src :
  o_live src = true -> movector_objs src = (mkObj true (o_raw src) (o_fl src), mkObj true None false).
Proof.
  intros L. unfold movector_objs, Gen_DataRowOps.MoveCtor. rewrite dec_enc, zfl_flz, L. reflexivity.
Qed.
Lemma obj_eta x : o_live x = true -> mkObj true (o_raw x) (o_fl x) = x.
Proof. destruct x; simpl; intros ->; reflexivity. Qed.
Local Arguments swap_objs : simpl never.
Local Arguments movector_objs : simpl never.

Definition object_free (l : label) : bool :=
  match l with OAlloc _ _ | OExtract _ | OAdd _ | DBegin _ _ => false | _ => true end.

Definition stepl (ls : lstate) (ll : llabel) : option lstate :=
  let s := lbase ls in let ob := objs ls in
  match ll with
  | LB l => if object_free l
            then match step s l with Some s' => Some (mkL s' ob) | None => None end
            else None
  | LNew o r g =>
      if o_live (ob o) then None
      else match step s (OAlloc r g) with
           | Some s' => Some (mkL s' (upd ob o (mkObj true (Some r) true)))
           | None => None
           end
  | LExtract o r =>
      if o_live (ob o) then None
      else match step s (OExtract r) with
           | Some s' => Some (mkL s' (upd ob o (mkObj true (Some r) true)))
           | None => None
           end
  | LMoveCtor o' o =>
      if o_live (ob o) && negb (o_live (ob o')) && negb (Nat.eqb o' o)
      then let '(nw, old) := movector_objs (ob o) in Some (mkL s (upd (upd ob o' nw) o old))
      else None
  | LSwap o1 o2 =>
      if o_live (ob o1) && o_live (ob o2)
      then let '(a, b) := swap_objs (ob o1) (ob o2) in Some (mkL s (upd (upd ob o1 a) o2 b))
      else None
  | LAdd o =>
      if o_live (ob o)
      then match extract_raw (ob o) with
           | (Some r, ob') => match step s (OAdd r) with
                              | Some s' => Some (mkL s' (upd ob o ob'))
                              | None => None
                              end
           | (None, _) => None
           end
      else None
  | LDestroy t o =>
      if o_live (ob o)
      then match o_raw (ob o) with
           | None => Some (mkL s (upd ob o no_obj))                 (* if (mRaw == nullptr) return; *)
           | Some r => if o_fl (ob o)
                       then match step s (DBegin t r) with
                            | Some s' => Some (mkL s' (upd ob o no_obj))
                            | None => None
                            end
                       else None                                     (* *mFreeRaws with mFreeRaws == nullptr *)
           end
      else None
  end.

Fixpoint runl (ls : lstate) (l : list llabel) : option lstate :=
  match l with
  | [] => Some ls
  | a :: l' => match stepl ls a with Some ls' => runl ls' l' | None => None end
  end.

Definition reachable_l (ls : lstate) : Prop := exists l, runl linit l = Some ls.

(* the base labels a layered label stands for *)
Definition lproj1 (ls : lstate) (ll : llabel) : list label :=
  match ll with
  | LB l => [l]
  | LNew _ r g => [OAlloc r g]
  | LExtract _ r => [OExtract r]
  | LAdd o => match o_raw (objs ls o) with Some r => [OAdd r] | None => [] end
  | LDestroy t o => match o_raw (objs ls o) with Some r => [DBegin t r] | None => [] end
  | _ => []
  end.

Lemma stepl_refines ls ll ls' : stepl ls ll = Some ls' -> run (lbase ls) (lproj1 ls ll) = Some (lbase ls').
Proof.
  unfold stepl, lproj1. destruct ll; simpl.
  - destruct (object_free l); try discriminate. destruct (step (lbase ls) l); try discriminate.
    intros H; inversion H; subst; reflexivity.
  - destruct (o_live (objs ls o)); try discriminate. destruct (step (lbase ls) (OAlloc r g)); try discriminate.
    intros H; inversion H; subst; reflexivity.
  - destruct (o_live (objs ls o)); try discriminate. destruct (step (lbase ls) (OExtract r)); try discriminate.
    intros H; inversion H; subst; reflexivity.
  - destruct (_ && _); try discriminate. try match goal with |- context [movector_objs ?x] => destruct (movector_objs x) end. intros H; inversion H; subst; reflexivity.
  - destruct (_ && _); try discriminate. try match goal with |- context [swap_objs ?x ?y] => destruct (swap_objs x y) end. intros H; inversion H; subst; reflexivity.
  - destruct (o_live (objs ls o)); try discriminate. rewrite ?extract_raw_spec, ?dec_enc, ?dec0.
    destruct (o_raw (objs ls o)); try discriminate. simpl. destruct (step (lbase ls) (OAdd r)); try discriminate.
    intros H; inversion H; subst; reflexivity.
  - destruct (o_live (objs ls o)); try discriminate. destruct (o_raw (objs ls o)).
    + destruct (o_fl (objs ls o)); try discriminate. simpl. destruct (step (lbase ls) (DBegin t r)); try discriminate.
      intros H; inversion H; subst; reflexivity.
    + intros H; inversion H; subst; reflexivity.
Qed.

Record linv (ls : lstate) : Prop := mkLinv {
  l_base : inv (lbase ls);
  l_held : forall o r, o_live (objs ls o) = true -> o_raw (objs ls o) = Some r ->
             status (lbase ls) r = Detached /\ o_fl (objs ls o) = true;
  l_uniq : forall o1 o2 r, o_live (objs ls o1) = true -> o_live (objs ls o2) = true ->
             o_raw (objs ls o1) = Some r -> o_raw (objs ls o2) = Some r -> o1 = o2;
  l_owner : forall r, status (lbase ls) r = Detached ->
             exists o, o_live (objs ls o) = true /\ o_raw (objs ls o) = Some r;
  l_dead : forall o, o_live (objs ls o) = false -> o_raw (objs ls o) = None }.

Lemma linv_init : linv linit.
Proof. constructor; simpl; try discriminate; auto. apply inv_init. Qed.

Ltac step_cases Hs :=
  unfold step in Hs;
  repeat match type of Hs with
  | match ?x with _ => _ end = _ => let E := fresh "E" in destruct x eqn:E; try discriminate
  | (if ?x then _ else _) = _ => let E := fresh "E" in destruct x eqn:E; try discriminate
  end; inversion Hs; subst; clear Hs; simpl in *.

(* FRAME: a base step that is not one of the four object-related labels creates and destroys no Detached buffer *)
Lemma object_free_keeps_detached s l s' r :
  inv s -> object_free l = true -> step s l = Some s' -> (status s' r = Detached <-> status s r = Detached).
Proof.
  intros I F Hs.
  assert (A1 : forall t r0 h, dpcs s t = Linked r0 h -> status s r0 = Pending).
  { intros t r0 h Hd. apply (i_held s I t). rewrite Hd. reflexivity. }
  assert (A2 : forall r0 n, own s = ONext r0 n -> status s r0 = Listed).
  { intros r0 n Ho. apply (i_listed s I). pose proof (i_own s I) as O. rewrite Ho in O. destruct O as [d [-> _]].
    apply in_or_app; right; left; reflexivity. }
  destruct l; try discriminate; step_cases Hs; try reflexivity;
    (destruct (Nat.eq_dec r r0); [subst; rewrite upd_eq|rewrite upd_neq by auto; reflexivity]).
  - rewrite (A1 _ _ _ E). split; discriminate.
  - rewrite (A2 _ _ eq_refl). split; discriminate.
  - rewrite E0. split; discriminate.
Qed.

Lemma status_after_alloc s r g s' r0 : step s (OAlloc r g) = Some s' ->
  status s r = Free /\ status s' r = Detached /\ (r0 <> r -> status s' r0 = status s r0).
Proof. intros Hs. step_cases Hs. rewrite upd_eq. repeat split; auto. intros; apply upd_neq; auto. Qed.
Lemma status_after_extract s r s' r0 : step s (OExtract r) = Some s' ->
  status s r = InTable /\ status s' r = Detached /\ (r0 <> r -> status s' r0 = status s r0).
Proof. intros Hs. step_cases Hs. rewrite upd_eq. repeat split; auto. intros; apply upd_neq; auto. Qed.
Lemma status_after_add s r s' r0 : step s (OAdd r) = Some s' ->
  status s r = Detached /\ status s' r = InTable /\ (r0 <> r -> status s' r0 = status s r0).
Proof. intros Hs. step_cases Hs. rewrite upd_eq. repeat split; auto. intros; apply upd_neq; auto. Qed.
Lemma status_after_begin s t r s' r0 : step s (DBegin t r) = Some s' ->
  status s r = Detached /\ status s' r = Pending /\ (r0 <> r -> status s' r0 = status s r0).
Proof. intros Hs. step_cases Hs. rewrite upd_eq. repeat split; auto. intros; apply upd_neq; auto. Qed.

Ltac ob_cases := upd_tac.

Ltac uniq_fin U :=
  simpl in *; try discriminate; auto; try congruence;
  try solve [exfalso; match goal with N : ?a <> ?b |- _ =>
               apply N; solve [eapply U; eauto | symmetry; eapply U; eauto] end];
  eauto.

(* creating an object for a buffer that has just become Detached *)
Lemma linv_create s ob o r s' :
  linv (mkL s ob) -> o_live (ob o) = false -> inv s' ->
  status s r <> Detached -> status s' r = Detached -> (forall r0, r0 <> r -> status s' r0 = status s r0) ->
  linv (mkL s' (upd ob o (mkObj true (Some r) true))).
Proof.
  intros [B H U O D] Lo I' Nd Sd Fr; simpl in *. constructor; simpl; auto.
  - intros o0 r0 Hl Hr. ob_cases; simpl in *.
    + inversion Hr; subst; auto.
    + destruct (H _ _ Hl Hr). split; auto. destruct (Nat.eq_dec r0 r); [subst; congruence|]. rewrite Fr; auto.
  - intros o1 o2 r0 L1 L2 R1 R2. ob_cases; simpl in *; auto;
      try (match goal with R : Some _ = Some _ |- _ => inversion R; subst; clear R end);
      try (match goal with La : o_live (ob ?oo) = true, Ra : o_raw (ob ?oo) = Some ?rr |- _ => destruct (H _ _ La Ra); congruence end);
      eauto.
  - intros r0 Hs. destruct (Nat.eq_dec r0 r); [subst|].
    + exists o. rewrite upd_eq. auto.
    + rewrite Fr in Hs by auto. destruct (O _ Hs) as [o0 [L R]]. exists o0.
      assert (o0 <> o) by (intro; subst; congruence). rewrite upd_neq; auto.
  - intros o0 Hl. ob_cases; simpl in *; [discriminate|auto].
Qed.

(* an object gives its buffer away (to the table, or to the push protocol) *)
Lemma linv_release s ob o r s' ob' :
  linv (mkL s ob) -> o_live (ob o) = true -> o_raw (ob o) = Some r -> inv s' ->
  o_raw ob' = None ->
  status s' r <> Detached -> (forall r0, r0 <> r -> status s' r0 = status s r0) ->
  linv (mkL s' (upd ob o ob')).
Proof.
  intros [B H U O D] Lo Ro I' Rn Nd Fr; simpl in *. constructor; simpl; auto.
  - intros o0 r0 Hl Hr. ob_cases; [congruence|].
    destruct (H _ _ Hl Hr). split; auto.
    assert (r0 <> r) by (intro; subst; apply N; eapply U; eauto). rewrite Fr; auto.
  - intros o1 o2 r0 L1 L2 R1 R2. ob_cases; try congruence. eauto.
  - intros r0 Hs. destruct (Nat.eq_dec r0 r); [subst; contradiction|].
    rewrite Fr in Hs by auto. destruct (O _ Hs) as [o0 [L R]]. exists o0.
    assert (o0 <> o) by (intro; subst; congruence). rewrite upd_neq; auto.
  - intros o0 Hl. ob_cases; auto.
Qed.

Theorem linv_step ls ll ls' : linv ls -> stepl ls ll = Some ls' -> linv ls'.
Proof.
  intros L Hs. destruct ls as [s ob]. pose proof L as [B H U O D]. simpl in *.
  unfold stepl in Hs; simpl in Hs. destruct ll.
  - (* LB *)
    destruct (object_free l) eqn:F; try discriminate. destruct (step s l) as [s'|] eqn:E; try discriminate.
    inversion Hs; subst; clear Hs.
    constructor; simpl; auto.
    + eapply inv_step; eauto.
    + intros o r Hl Hr. destruct (H _ _ Hl Hr). split; auto. eapply object_free_keeps_detached; eauto.
    + intros r Hd. apply O. eapply (object_free_keeps_detached s l s'); eauto.
  - (* LNew *)
    destruct (o_live (ob o)) eqn:Lo; try discriminate. destruct (step s (OAlloc r g)) as [s'|] eqn:E; try discriminate.
    inversion Hs; subst; clear Hs. destruct (status_after_alloc _ _ _ _ r E) as [A1 [A2 _]].
    eapply linv_create; eauto; [eapply inv_step; eauto|congruence|].
    intros r0 N. destruct (status_after_alloc _ _ _ _ r0 E) as [_ [_ A3]]. auto.
  - (* LExtract *)
    destruct (o_live (ob o)) eqn:Lo; try discriminate. destruct (step s (OExtract r)) as [s'|] eqn:E; try discriminate.
    inversion Hs; subst; clear Hs. destruct (status_after_extract _ _ _ r E) as [A1 [A2 _]].
    eapply linv_create; eauto; [eapply inv_step; eauto|congruence|].
    intros r0 N. destruct (status_after_extract _ _ _ r0 E) as [_ [_ A3]]. auto.
  - (* LMoveCtor *)
    destruct (o_live (ob o) && negb (o_live (ob o')) && negb (Nat.eqb o' o)) eqn:C; try discriminate.
    apply andb_true_iff in C. destruct C as [C C3]. apply andb_true_iff in C. destruct C as [C1 C2].
    rewrite ?(movector_objs_spec _ C1) in Hs. rewrite ?dec_enc, ?zfl_flz, ?dec0 in Hs. change (zfl 0%Z) with false in Hs. rewrite ?C1 in Hs.
    inversion Hs; subst; clear Hs.
    apply negb_true_iff in C2. apply negb_true_iff in C3. apply Nat.eqb_neq in C3.
    pose proof (D _ C2) as Dn.
    constructor; simpl; auto.
    + intros o0 r Hl Hr. ob_cases; simpl in *; try discriminate; eauto.
    + intros o1 o2 r L1 L2 R1 R2. ob_cases; uniq_fin U.
    + intros r Hd. destruct (O _ Hd) as [o0 [L0 R0]].
      destruct (Nat.eq_dec o0 o); [subst|].
      * exists o'. rewrite upd_neq by auto. rewrite upd_eq. auto.
      * exists o0. rewrite upd_neq by auto. assert (o0 <> o') by (intro; subst; congruence). rewrite upd_neq; auto.
    + intros o0 Hl. ob_cases; simpl in *; try discriminate; auto.
  - (* LSwap *)
    destruct (o_live (ob o1) && o_live (ob o2)) eqn:C; try discriminate.
    apply andb_true_iff in C. destruct C as [C1 C2].
    rewrite ?(swap_objs_spec _ _ C1 C2) in Hs. rewrite ?dec_enc, ?zfl_flz in Hs. rewrite ?C1, ?C2 in Hs.
    rewrite ?(obj_eta _ C1), ?(obj_eta _ C2) in Hs. inversion Hs; subst; clear Hs.
    constructor; simpl; auto.
    + intros o r Hl Hr. ob_cases; eauto.
    + intros oa obb r L1 L2 R1 R2. ob_cases; uniq_fin U.
    + intros r Hd. destruct (O _ Hd) as [o0 [L0 R0]].
      destruct (Nat.eq_dec o0 o1); [subst|destruct (Nat.eq_dec o0 o2); [subst|]].
      * exists o2. rewrite upd_eq. auto.
      * destruct (Nat.eq_dec o1 o2); [subst; exists o2; rewrite upd_eq; auto|].
        exists o1. rewrite upd_neq by auto. rewrite upd_eq. auto.
      * exists o0. rewrite !upd_neq; auto.
    + intros o Hl. ob_cases; auto; congruence.
  - (* LAdd *)
    destruct (o_live (ob o)) eqn:Lo; try discriminate. rewrite ?extract_raw_spec, ?dec_enc, ?dec0 in Hs.
    destruct (o_raw (ob o)) as [r|] eqn:Ro; try discriminate.
    destruct (step s (OAdd r)) as [s'|] eqn:E; try discriminate. inversion Hs; subst; clear Hs.
    destruct (status_after_add _ _ _ r E) as [A1 [A2 _]].
    eapply linv_release; eauto; [eapply inv_step; eauto|congruence|].
    intros r0 N. destruct (status_after_add _ _ _ r0 E) as [_ [_ A3]]. auto.
  - (* LDestroy *)
    destruct (o_live (ob o)) eqn:Lo; try discriminate. destruct (o_raw (ob o)) as [r|] eqn:Ro.
    + destruct (o_fl (ob o)); try discriminate. destruct (step s (DBegin t r)) as [s'|] eqn:E; try discriminate.
      inversion Hs; subst; clear Hs. destruct (status_after_begin _ _ _ _ r E) as [A1 [A2 _]].
      eapply linv_release; eauto; [eapply inv_step; eauto|congruence|].
      intros r0 N. destruct (status_after_begin _ _ _ _ r0 E) as [_ [_ A3]]. auto.
    + inversion Hs; subst; clear Hs. constructor; simpl; auto.
      * intros o0 r Hl Hr. ob_cases; simpl in *; try discriminate; eauto.
      * intros oa obb r L1 L2 R1 R2. ob_cases; simpl in *; try discriminate; eauto.
      * intros r Hd. destruct (O _ Hd) as [o0 [L0 R0]]. exists o0.
        assert (o0 <> o) by (intro; subst; congruence). rewrite upd_neq; auto.
      * intros o0 Hl. ob_cases; simpl; auto.
Qed.

Lemma linv_run l : forall ls ls', linv ls -> runl ls l = Some ls' -> linv ls'.
Proof.
  induction l; simpl; intros ls ls' L H; [inversion H; subst; auto|].
  destruct (stepl ls a) eqn:E; try discriminate. eapply IHl; [|eauto]. eapply linv_step; eauto.
Qed.

Theorem linv_reachable ls : reachable_l ls -> linv ls.
Proof. intros [l H]. eapply linv_run; [apply linv_init|eauto]. Qed.

(* every layered run is a run of the base machine *)
Fixpoint lproj (ls : lstate) (l : list llabel) : list label :=
  match l with
  | [] => []
  | a :: l' => lproj1 ls a ++ match stepl ls a with Some ls' => lproj ls' l' | None => [] end
  end.

Theorem rows_layer_refines l : forall ls ls', runl ls l = Some ls' -> run (lbase ls) (lproj ls l) = Some (lbase ls').
Proof.
  induction l; simpl; intros ls ls' H; [inversion H; auto|].
  destruct (stepl ls a) as [ls1|] eqn:E; try discriminate.
  rewrite (run_app _ _ _ _ (stepl_refines _ _ _ E)). eauto.
Qed.

Theorem rows_layer_reachable ls : reachable_l ls -> reachable (lbase ls).
Proof. intros [l H]. exists (lproj linit l). apply (rows_layer_refines _ _ _ H). Qed.

(* THE precondition of the base machine, discharged: any constructed Row object can be destroyed on any idle thread --
   its list pointer is not null, and its buffer is a live detached one nobody else holds (no second push) *)
Theorem destroy_always_enabled ls t o :
  reachable_l ls -> o_live (objs ls o) = true -> dpcs (lbase ls) t = Idle ->
  exists ls', stepl ls (LDestroy t o) = Some ls' /\ o_live (objs ls' o) = false /\
    match o_raw (objs ls o) with
    | None => lbase ls' = lbase ls
    | Some r => dpcs (lbase ls') t = Start r /\ status (lbase ls') r = Pending /\
                (forall o', o' <> o -> o_raw (objs ls' o') <> Some r)
    end.
Proof.
  intros R Lo Ti. pose proof (linv_reachable _ R) as L. unfold stepl. rewrite Lo.
  destruct (o_raw (objs ls o)) as [r|] eqn:Ro.
  - destruct (l_held _ L _ _ Lo Ro) as [Sd Fl]. rewrite Fl. unfold step. rewrite Ti, Sd.
    eexists; split; [reflexivity|]. simpl. rewrite !upd_eq. repeat split; auto.
    intros o' N. rewrite upd_neq by auto. intro Hr.
    destruct (o_live (objs ls o')) eqn:Lo'.
    + apply N. eapply (l_uniq _ L); eauto.
    + rewrite (l_dead _ L _ Lo') in Hr. discriminate.
  - eexists; split; [reflexivity|]. simpl. rewrite upd_eq. auto.
Qed.

Theorem detached_buffer_has_exactly_one_holder ls r :
  reachable_l ls -> status (lbase ls) r = Detached ->
  exists o, o_live (objs ls o) = true /\ o_raw (objs ls o) = Some r /\ o_fl (objs ls o) = true /\
    forall o', o_raw (objs ls o') = Some r -> o' = o.
Proof.
  intros R Sd. pose proof (linv_reachable _ R) as L.
  destruct (l_owner _ L _ Sd) as [o [Lo Ro]]. exists o. destruct (l_held _ L _ _ Lo Ro). repeat split; auto.
  intros o' Ro'. destruct (o_live (objs ls o')) eqn:Lo'.
  - eapply (l_uniq _ L); eauto.
  - rewrite (l_dead _ L _ Lo') in Ro'. discriminate.
Qed.

(* FRAME, stated for the whole class: no operation on Row objects (move construction, swap, hence move assignment,
   destruction of an empty object) changes the free-list machine at all *)
Theorem row_object_ops_frame ls ll ls' :
  stepl ls ll = Some ls' ->
  match ll with
  | LMoveCtor _ _ | LSwap _ _ => lbase ls' = lbase ls
  | LDestroy _ o => o_raw (objs ls o) = None -> lbase ls' = lbase ls
  | _ => True
  end.
Proof.
  unfold stepl. destruct ll; auto.
  - destruct (_ && _); try discriminate. try match goal with |- context [movector_objs ?x] => destruct (movector_objs x) end. intros H; inversion H; reflexivity.
  - destruct (_ && _); try discriminate. try match goal with |- context [swap_objs ?x ?y] => destruct (swap_objs x y) end. intros H; inversion H; reflexivity.
  - intros H E. rewrite E in H. destruct (o_live (objs ls o)); try discriminate. inversion H; reflexivity.
Qed.

(* ---- move assignment `a = std::move(b)` is DataRow(std::move(b)).Swap(a) followed by the temporary's destructor *)
Definition move_assign (tmp a b : nat) (t : tid) : list llabel := [LMoveCtor tmp b; LSwap tmp a; LDestroy t tmp].

Example ex_move_assign_over_live_row :
  exists ls, runl linit ([LNew 0 0 None; LNew 1 1 None] ++ move_assign 9 0 1 5) = Some ls /\
    o_raw (objs ls 0) = Some 1 /\ o_fl (objs ls 0) = true /\ o_raw (objs ls 1) = None /\ o_live (objs ls 9) = false /\
    dpcs (lbase ls) 5 = Start 0 /\ status (lbase ls) 0 = Pending /\ status (lbase ls) 1 = Detached.
Proof. eexists; split; [vm_compute; reflexivity|]. vm_compute. repeat split. Qed.

(* ---- WHY Swap must swap the list pointer (wave-2 seed a) and WHY the move constructor must null the source *)
Definition stepl_swap_keeps_fl (ls : lstate) (ll : llabel) : option lstate :=
  match ll with
  | LSwap o1 o2 =>
      let ob := objs ls in
      if o_live (ob o1) && o_live (ob o2)
      then Some (mkL (lbase ls) (upd (upd ob o1 (mkObj true (o_raw (ob o2)) (o_fl (ob o1)))) o2 (mkObj true (o_raw (ob o1)) (o_fl (ob o2)))))
      else None
  | _ => stepl ls ll
  end.
Definition stepl_movector_keeps_raw (ls : lstate) (ll : llabel) : option lstate :=
  match ll with
  | LMoveCtor o' o =>
      let ob := objs ls in
      if o_live (ob o) && negb (o_live (ob o')) && negb (Nat.eqb o' o)
      then Some (mkL (lbase ls) (upd (upd ob o' (mkObj true (o_raw (ob o)) (o_fl (ob o)))) o (mkObj true (o_raw (ob o)) false)))
      else None
  | _ => stepl ls ll
  end.
Fixpoint run_with (f : lstate -> llabel -> option lstate) (ls : lstate) (l : list llabel) : option lstate :=
  match l with
  | [] => Some ls
  | a :: l' => match f ls a with Some ls' => run_with f ls' l' | None => None end
  end.

(* a Row is taken out of a slot (move construction) and another row is later move-assigned into the slot: with the
   variant Swap the slot holds a buffer but a NULL list pointer, and its destructor cannot run *)
Theorem swap_without_list_pointer_refuted :
  exists ls, run_with stepl_swap_keeps_fl linit ([LNew 0 0 None; LNew 1 1 None; LMoveCtor 2 0; LMoveCtor 9 1; LSwap 9 0]) = Some ls /\
    o_live (objs ls 0) = true /\ o_raw (objs ls 0) = Some 1 /\ o_fl (objs ls 0) = false /\
    stepl_swap_keeps_fl ls (LDestroy 5 0) = None /\ ~ linv ls.
Proof.
  eexists; split; [vm_compute; reflexivity|]. repeat split; try (vm_compute; reflexivity).
  intros L. destruct (l_held _ L 0 1) as [_ F]; vm_compute; auto. vm_compute in F. discriminate.
Qed.

Theorem movector_keeping_raw_refuted :
  exists ls, run_with stepl_movector_keeps_raw linit [LNew 0 0 None; LMoveCtor 1 0] = Some ls /\
    o_raw (objs ls 0) = Some 0 /\ o_raw (objs ls 1) = Some 0 /\ o_live (objs ls 0) = true /\ o_live (objs ls 1) = true /\ ~ linv ls.
Proof.
  eexists; split; [vm_compute; reflexivity|]. repeat split; try (vm_compute; reflexivity).
  intros L. assert (X : 0 = 1) by (eapply (l_uniq _ L) with (r := 0); vm_compute; reflexivity). discriminate.
Qed.
