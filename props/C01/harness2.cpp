// C01 harness TU 2: the old chained buckets (LimP, LimP1, Lim4, UnlimP, One)
#include "c01_harness.h"
using namespace momo;
typedef HashBucketLimP<> LP8; typedef HashBucketLimP<4> LP4; typedef HashBucketLimP<3> LP3;
typedef HashBucketLimP1<> LQ4; typedef HashBucketLimP1<2> LQ2; typedef HashBucketLimP1<1> LQ1;
typedef HashBucketLim4<> LF; typedef HashBucketUnlimP<> UP; typedef HashBucketOne<> ON;
static const Reg regs[] = {
	C01_SET("S.LP8.c.q", LP8, 8, 8, 0, false, false),
	C01_SET("S.LP8.b.f", LP8, 8, 4, 0, true, false),
	C01_MAP("M.LP4.a.q", LP4, 4, 4, 0, false, false),
	C01_SET("S.LP3.d.p", LP3, 24, 8, 0, false, true),
	C01_SET("S.LQ4.b.q", LQ4, 8, 4, 0, false, false),
	C01_SET("S.LQ2.c.f", LQ2, 8, 8, 0, true, false),
	C01_MAP("M.LQ1.a.q", LQ1, 4, 4, 0, false, false),
	C01_SET("S.LF.b.q", LF, 8, 4, 0, false, false),
	C01_MAP("M.LF.n.p", LF, 8, 4, 1, false, true),
	C01_SET("S.UP.b.q", UP, 8, 4, 0, false, false),
	C01_MAP("M.UP.d.f", UP, 24, 8, 0, true, false),
	C01_SET("S.ON.b.q", ON, 8, 4, 0, false, false),
	C01_SET("S.ON.c.f", ON, 8, 8, 0, true, false),
	C01_MAP("M.ON.a.p", ON, 4, 4, 0, false, true),
};
// kf <which> <args>: the per-kind leaves translated into Gen_LimP1t / Gen_Lim4 / Gen_LimP (translator validation)
typedef internal::HashSetBucketItemTraits<HashSetItemTraits<uint64_t, MemManagerDefault>> BIT;
typedef internal::BucketLimP1<BIT, 4, MemPoolParams<>> KLimP1;
typedef internal::BucketLim4<BIT, 2, 32> KLim4;
typedef internal::BucketLimP<BIT, 8, MemPoolParams<>, true> KLimP;
template<class T> static T* raw_new() { alignas(T) static unsigned char buf[sizeof(T)]; return new (buf) T(); }	// static storage, never destroyed (no leak for ASan)
static void leaf(const std::vector<std::string>& w)
{
	if (w.size() < 2) { puts("?leaf"); return; }
	size_t which = std::stoull(w[0]);
	if (which == 0)
	{	// LimP1 state byte -> count, pool index, IsFull, WasFull
		KLimP1* b = raw_new<KLimP1>(); b->mState = uint8_t(std::stoull(w[1]));
		printf("%llu %llu %d %d\n", ull(b->pvGetCount()), ull(b->pvGetMemPoolIndex()), int(b->IsFull()), int(b->WasFull()));
	}
	else if (which == 1) printf("%llu\n", ull(KLimP1::pvGetMemPoolIndex(size_t(std::stoull(w[1])))));
	else if (which == 2)
	{	// Lim4 state word (0 = stateNull, 1 = stateNullWasFull, otherwise literal) -> WasFull
		KLim4* b = raw_new<KLim4>(); size_t v = std::stoull(w[1]);
		b->mPtrState = (v == 0) ? KLim4::stateNull : (v == 1) ? KLim4::stateNullWasFull : uint32_t(v);
		printf("%d\n", int(b->WasFull()));
	}
	else if (which == 3 && w.size() == 4)
	{	// Lim4 pvSet(ptr, memPoolIndex, count) -> state word, pool index read back
		KLim4* b = raw_new<KLim4>();
		b->pvSet(uint32_t(std::stoull(w[1])), size_t(std::stoull(w[2])), size_t(std::stoull(w[3])));
		printf("%llu %llu\n", ull(b->mPtrState), ull(b->pvGetMemPoolIndex()));
	}
	else if (which == 4)
	{	// LimP pointer-state word (0 = null, 1 = null-was-full, otherwise literal) -> WasFull
		KLimP* b = raw_new<KLimP>(); size_t v = std::stoull(w[1]);
		b->mPtrState = (v == 0) ? KLimP::stateNull : (v == 1) ? KLimP::stateNullWasFull : uintptr_t(v);
		printf("%d\n", int(b->WasFull()));
	}
	else if (which == 6)
	{	// BucketOne<uint64_t item>: AddCrt(hashCode), Remove, Clear -> state word, IsFull, WasFull after each
		typedef internal::BucketOne<BIT, 1> KOne;
		KOne* b = raw_new<KOne>(); MemManagerDefault mm; KOne::Params params(mm);
		size_t hc = std::stoull(w[1]);
		auto it = b->AddCrt(params, [] (uint64_t* p) { *p = 7; }, hc, 0, 0);
		printf("%llu %d %d ", ull(b->mHashState), int(b->IsFull()), int(b->WasFull()));
		b->Remove(params, it, [] (uint64_t&, uint64_t&) {});
		printf("%llu %d %d ", ull(b->mHashState), int(b->IsFull()), int(b->WasFull()));
		b->Clear(params);
		printf("%llu %d %d\n", ull(b->mHashState), int(b->IsFull()), int(b->WasFull()));
	}
	else if (which == 5) printf("%llu\n", ull(KLimP::pvGetMemPoolIndex(size_t(std::stoull(w[1])))));
	else puts("?leaf");
}
int main() { return c01_main(regs, sizeof(regs) / sizeof(regs[0]), &leaf); }
