(* C04 -- the hand model's constructors instantiated AT THE FACTS READ OFF THE CURRENT HEADERS (Gen_C04Facts.v, regenerated each run).
   806b9fe / 91ea186: a copying constructor that DELEGATES to another constructor has its destructor run after its own catch block; the catch
   block calls the destroy function, so it must afterwards put the object into the state in which a second destroy does nothing (null the
   pointer / Clear the array).  84c9298: the row loop of HashMultiMap's copy constructor builds a temporary ValueArray; when mHashMap.Insert
   throws, the handler must Clear it (its destructor does not free a non-empty array).
   The flags of the resource-machine models (Ctor.set_copy_ctor's `fixed`, mm_copy_row's `clears`) are COMPUTED from the generated statement
   lists; the theorems run the models on every failure schedule of a 3-item source (allocation, each copy, the insertion, none). *)
From Coq Require Import List Arith Bool String Lia.
From C04 Require Import Effects ObjMgr ArrayData Ctor GenPrimsC04.
From C04 Require Gen_C04Facts.
Import ListNotations.
Local Open Scope string_scope.

Definition n_pvDestroy : string := "pvDestroy".
Definition n_pvDestroyRaws : string := "pvDestroyRaws".
Definition n_valueArray : string := "valueArray".
Definition multimap_row_expected : list cstmt := [SDecl "valueArray" "ctor"; STry].
Definition multimap_try_expected : list cstmt := [SCallOn "mHashMap" "Insert"].

Definition is_reset (s : cstmt) : bool :=
  match s with SNull _ => true | SCallOn _ f => String.eqb f "Clear" | _ => false end.
Definition is_rethrow (s : cstmt) : bool := match s with SRethrow => true | _ => false end.

(* catch (...) { <destroy>(); <reset>...; throw; } : the first statement is the destroy call, a reset follows, the block ends by rethrowing *)
Definition catch_resets (destroy : string) (c : list cstmt) : bool :=
  match c with
  | SCall d :: rest => String.eqb d destroy && existsb is_reset (removelast rest) && is_rethrow (last rest SReturn)
  | _ => false
  end.
(* catch (...) { obj.Clear(); throw; } *)
Definition catch_clears (obj : string) (c : list cstmt) : bool :=
  match c with
  | [SCallOn o f; SRethrow] => String.eqb o obj && String.eqb f "Clear"
  | _ => false
  end.

Local Close Scope string_scope.

(* every failure schedule of: allocate, copy 3 items (first `true` = the step that fails) *)
Definition ctor_schedules : list (list bool) :=
  [[true]; [false; true]; [false; false; true]; [false; false; false; true]; [false; false; false; false]].

(* outcome of the delegating copy constructor on the demo heap (block 0 = the 3 source items): never Stuck; on success the new block holds the
   copies; on failure no block but the source is alive, the source items are live, and the object's pointer is null *)
Definition ctor_run_ok (fixed : bool) (sch : list bool) : bool :=
  match set_copy_ctor fixed (fun j => (0, j)) 3 (ctor_demo sch) with
  | (Ok _, s') => alive (hp s') 0 && alive (hp s') 1 &&
                  match mem (hp s') (1, 2) with Live v => v =? 12 | _ => false end
  | (Exn, s') => alive (hp s') 0 && negb (alive (hp s') 1) && negb (alive (hp s') 2) &&
                 match mem (hp s') (0, 0), mem (hp s') (0, 1), mem (hp s') (0, 2) with Live 10, Live 11, Live 12 => true | _, _, _ => false end
  | (Stuck, _) => false
  end.
Definition ctor_all_ok (fixed : bool) : bool := forallb (ctor_run_ok fixed) ctor_schedules.

Lemma ctor_all_ok_fixed : ctor_all_ok true = true.
Proof. vm_compute. reflexivity. Qed.
Lemma ctor_all_ok_prefix_refuted : ctor_all_ok false = false.
Proof. vm_compute. reflexivity. Qed.

Local Open Scope string_scope.
Lemma hashset_ctors_at_generated :
  Gen_C04Facts.hashset_copy_delegates = true /\ Gen_C04Facts.hashset_ilist_delegates = true /\
  ctor_all_ok (catch_resets "pvDestroy" Gen_C04Facts.hashset_copy_catch) = true /\
  ctor_all_ok (catch_resets "pvDestroy" Gen_C04Facts.hashset_ilist_catch) = true.
Proof. repeat split; vm_compute; reflexivity. Qed.
Lemma treeset_ctors_at_generated :
  Gen_C04Facts.treeset_copy_delegates = true /\ Gen_C04Facts.treeset_ilist_delegates = true /\
  ctor_all_ok (catch_resets "pvDestroy" Gen_C04Facts.treeset_copy_catch) = true /\
  ctor_all_ok (catch_resets "pvDestroy" Gen_C04Facts.treeset_ilist_catch) = true.
Proof. repeat split; vm_compute; reflexivity. Qed.
(* DataTable copying constructors -> pvFill: catch (...) { pvDestroyRaws(); mRaws.Clear(); throw; } -- same shape, the rows array plays mBuckets *)
Lemma datatable_fill_at_generated :
  ctor_all_ok (catch_resets "pvDestroyRaws" Gen_C04Facts.datatable_fill_catch) = true.
Proof. vm_compute. reflexivity. Qed.
Local Close Scope string_scope.

(* ---- HashMultiMap copy constructor, one row (84c9298) ------------------------------------------------------------------------------
   ValueArray valueArray(copy of the source row's values);  try { mHashMap.Insert(key, std::move(valueArray)); }
   catch (...) { valueArray.Clear(); throw; }      ~ValueArray() frees nothing (it asserts that the array is empty).
   The insertion is one fallible allocation (the map's entry); on success the map owns the array. *)
Definition mm_copy_row (clears : bool) (src : nat -> loc) (n : nat) : M unit :=
  nb <- array_copy_ctor src n ;;
  try_catch (e <- alloc 1 ;; ret tt)
            ((if clears then destroy_from (fun j => (nb, j)) 0 n ;; dealloc nb else ret tt) ;; throw).

Definition row_schedules : list (list bool) :=
  [[true]; [false; true]; [false; false; true]; [false; false; false; true]; [false; false; false; false; true]; [false; false; false; false; false]].
Definition row_run_ok (clears : bool) (sch : list bool) : bool :=
  match mm_copy_row clears (fun j => (0, j)) 3 (ctor_demo sch) with
  | (Ok _, s') => alive (hp s') 0 && alive (hp s') 1 && alive (hp s') 2
  | (Exn, s') => alive (hp s') 0 && negb (alive (hp s') 1) && negb (alive (hp s') 2) &&
                 match mem (hp s') (0, 0), mem (hp s') (0, 1), mem (hp s') (0, 2) with Live 10, Live 11, Live 12 => true | _, _, _ => false end
  | (Stuck, _) => false
  end.
Definition row_all_ok (clears : bool) : bool := forallb (row_run_ok clears) row_schedules.

Lemma row_all_ok_clearing : row_all_ok true = true.
Proof. vm_compute. reflexivity. Qed.
Lemma row_all_ok_not_clearing_refuted : row_all_ok false = false.
Proof. vm_compute. reflexivity. Qed.

Local Open Scope string_scope.
Lemma multimap_row_at_generated :
  Gen_C04Facts.multimap_copy_row = [SDecl "valueArray" "ctor"; STry] /\
  Gen_C04Facts.multimap_copy_try = [SCallOn "mHashMap" "Insert"] /\
  row_all_ok (catch_clears "valueArray" Gen_C04Facts.multimap_copy_catch) = true.
Proof. repeat split; vm_compute; reflexivity. Qed.
