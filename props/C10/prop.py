"""C10 - bulk operations stay valid on failure; merge/extract never copy or lose items.
proof : Coq theorems (all failure schedules) about an executable L2 model of ObjectManager relocation mechanisms,
        the extracted-item holder, extract / Insert(ExtractedItem&&), the merge loops (HashSet::pvMergeTo,
        TreeSet::pvMergeTo / pvMergeToLinear) and the ArrayShifter loops.
tie   : micro-correspondence - the extracted model and the real momo code (kit elements, value-level event log)
        are run on the same cases for every failure index; behaviours (status, contents, event traces) must agree.
oracle: the property predicates evaluated on the real code's outputs (tie harness) and a fault-enumeration
        harness over many container kinds (oracle.cpp), independent of the Coq model."""
import os, re, collections

CATS = ['NTM', 'SMH', 'THM', 'CPY']
MOVABLE = {'NTM', 'SMH', 'THM'}


# ----------------------------------------------------------------------------------------------- generators
def fmt(l):
    return ','.join(str(x) for x in l) if l else '-'


def gen_tie_cases(ctx, scale):
    r = ctx.rng
    cases = []
    # ObjectManager mechanisms: every category x operation x failure index
    for c in CATS:
        for op in ('reloc', 'replace', 'reprel'):
            for k in (-1, 0, 1, 2, 3):
                cases.append('om %s %s %d %d %d' % (c, op, k, r.range(1, 90), r.range(100, 190)))
    # ArrayShifter: exhaustive small grid (boundaries: index = 0, count-1, count; index+cnt </=/> count; cnt = 0)
    for c in CATS:
        for n in range(0, 5 if scale == 1 else 7):
            for idx in range(0, n + 1):
                for cnt in range(0, 4):
                    cases.append('sh %s ins %d %d %d' % (c, n, idx, cnt))
                    if idx + cnt <= n:
                        cases.append('sh %s rem %d %d %d' % (c, n, idx, cnt))
    # extract + Insert(ExtractedItem&&): every position of a bucket of 1..3 items, key present / absent in dst
    for c in CATS:
        for kind in ('func', 'copy', 'alloc'):
            for n in range(1, 4):
                for idx in range(n):
                    b0 = [(8 * j) * 100 + r.range(1, 99) for j in range(n)]
                    for present in (0, 1):
                        dst = [(8 * j + 1) * 100 + r.range(1, 99) for j in range(r.range(0, 3))]
                        if present:
                            dst.append((b0[idx] // 100) * 100 + 99 - (b0[idx] % 100) % 50)
                        cases.append('xi %s %s %d %s %s' % (c, kind, idx, fmt(dst), fmt(b0)))
    # the GENERATED holder state machine against a real SetExtractedItem: random op sequences that respect the MOMO_CHECKs
    for i in range(40 * scale):
        c = CATS[i % 4]; full = False; ops = []
        for _ in range(r.range(1, 12)):
            t = r.below(6)
            if t == 0: ops.append('e')
            elif t == 1: ops.append('x'); full = False
            elif not full:
                if r.chance(1, 3): ops.append('C%d' % r.range(1, 99))
                else: ops.append('c%d' % r.range(1, 99)); full = True
            else:
                if r.chance(1, 3): ops.append('R')
                else: ops.append('r'); full = False
        cases.append('eh %s %s' % (c, ' '.join(ops)))
    # direct runs of other GENERATED functions against the real code: pvExtraCheck of HashSet / TreeSet (normal and throwing
    # functor, consistent and corrupted container; n >= 2 so that the check always calls a functor) and TreeSet::Swap
    for i, c in enumerate(CATS):
        for ht in ('h', 't'):
            for n in (2, 3, 6):
                for pos in sorted({0, n // 2, n - 1}):
                    for throws in (0, 1):
                        for corrupt in ((0, 1) if ht == 'h' else (0, 1, 2)):
                            cases.append('ec %s %s %d %d %d %d' % (c, ht, throws, corrupt, n, pos))
        for (n1, n2) in ((0, 1), (1, 0), (3, 5), (40, 2), (7, 70)):
            cases.append('sw %s %d %d' % (c, n1, n2))
    # Add(pos, ExtractedItem&&) at every position of a bucket (key absent in the destination)
    for c in CATS:
        for kind in ('copy', 'alloc'):
            for n in range(1, 4):
                for idx in range(n):
                    b0 = [(8 * j) * 100 + r.range(1, 99) for j in range(n)]
                    dst = [(8 * j + 1) * 100 + r.range(1, 99) for j in range(r.range(0, 3))]
                    cases.append('xa %s %s %d %s %s' % (c, kind, idx, fmt(dst), fmt(b0)))
    # stdish set insert(hint, node&&): valid hint / wrong hint / key already present
    for i in range(48 * scale):
        c = CATS[i % 4]
        kind = ('func', 'copy', 'alloc')[(i // 4) % 3]
        dkeys = sorted(set(r.range(0, 30) for _ in range(r.range(1, 8))))
        dst = [k * 100 + r.range(50, 99) for k in dkeys]
        skeys = sorted(set(r.range(0, 30) for _ in range(r.range(1, 5))))
        src = [k * 100 + r.range(1, 49) for k in skeys]
        idx = r.below(len(src)); k = src[idx] // 100
        present = k in dkeys
        ub = sum(1 for d in dkeys if d < k)          # position of the first destination key >= k
        hintpos = ub if r.chance(1, 2) else r.range(0, len(dst))
        hint_ok = (not present) and hintpos == ub
        cases.append('hs %s %s %d %d %d %s %s' % (c, kind, hintpos, 1 if hint_ok else 0, idx, fmt(dst), fmt(src)))
    # multi-element Insert(range) and Remove(pred) of a HashSet: arguments / layouts with present and absent keys, duplicates
    for i in range(32 * scale):
        c = CATS[i % 4]
        kind = ('func', 'copy')[(i // 4) % 2]
        dst = list({k: k * 100 + r.range(50, 99) for k in (r.range(0, 20) for _ in range(r.range(0, 6)))}.values())
        args = [r.range(0, 20) * 100 + r.range(1, 49) for _ in range(r.range(0, 8))]
        cases.append('ir %s %s %s %s' % (c, kind, fmt(dst), fmt(args)))
    for i in range(32 * scale):
        c = CATS[i % 4]
        kind = ('func', 'copy')[(i // 4) % 2]
        bks = []
        for b in range(8):
            n = r.range(0, 3) if r.chance(1, 2) else 0
            bks.append([(b + 8 * j) * 100 + r.range(1, 49) for j in range(n)])
        cases.append('rp %s %s %d %s' % (c, kind, r.range(1, 3), ' '.join(fmt(b) for b in bks)))
    # maps: MapKeyValueTraits mechanisms for every (key category, value category) x operation x failure index
    for kc in CATS:
        for vc in CATS:
            for op in ('reloc', 'replace', 'reprel'):
                for k in (-1, 0, 1, 2, 3, 4, 5):
                    cases.append('pm %s %s %s %d %d %d %d %d' % (kc, vc, op, k, r.range(1, 90), r.range(100, 190), r.range(200, 290), r.range(300, 390)))
    # maps: Extract + Insert(ExtractedPair&&) at every position of a bucket of 1..3 pairs
    for (kc, vc) in [(c, c) for c in CATS] + [('CPY', 'NTM'), ('THM', 'NTM'), ('SMH', 'NTM')]:
        for kind in ('func', 'copy', 'alloc'):
            for n in range(1, 4):
                for idx in range(n):
                    b0 = [((8 * j) * 100 + r.range(1, 49), 7000 + r.range(0, 99)) for j in range(n)]
                    for present in (0, 1):
                        dst = [((8 * j + 1) * 100 + r.range(1, 49), 8000 + r.range(0, 99)) for j in range(r.range(0, 2))]
                        if present:
                            dst.append(((b0[idx][0] // 100) * 100 + 77, 8500))
                        fp = lambda l: ','.join('%d:%d' % p for p in l) if l else '-'
                        cases.append('px %s %s %s %d %s %s' % (kc, vc, kind, idx, fp(dst), fp(b0)))
    # hash source merges: random bucket layouts (8 buckets, key = bucket + 8*j), destinations sharing some keys
    def layout(maxper, total):
        bks = []; left = total
        for b in range(8):
            n = min(left, r.range(0, maxper)) if r.chance(1, 2) else 0
            left -= n
            bks.append([(b + 8 * j) * 100 + r.range(1, 49) for j in range(n)])
        return bks
    for i in range(60 * scale):
        c = CATS[i % 4]
        kind = ('func', 'copy', 'alloc')[(i // 4) % 3]
        dk = ('h', 'h', 't', 'm')[(i // 12) % 4]
        bks = layout(r.range(1, 3), r.range(1, 9))
        items = [x for b in bks for x in b]
        dst = []
        for x in items:
            if r.chance(2, 5):
                dst.append((x // 100) * 100 + 50 + r.range(0, 49))      # same key, different item: refused (unique)
        used = set(x // 100 for x in items)
        for _ in range(r.range(0, 4)):
            k = r.range(0, 40)
            if k not in used and k not in [d // 100 for d in dst]:
                dst.append(k * 100 + r.range(50, 99))
        if dk != 'm':
            dst = list({d // 100: d for d in dst}.values())
        cases.append('hm %s %s %s %s %s' % (c, kind, dk, fmt(dst), ' '.join(fmt(b) for b in bks)))
    # aimed: a bucket where refusals precede extractions (ReplaceRelocate), the last bucket item refused, empty source
    for c in CATS:
        for kind in ('func', 'copy'):
            cases.append('hm %s %s h %s %s' % (c, kind, fmt([1650]), fmt([1, 801, 1601])))   # last refused
            cases.append('hm %s %s h %s %s' % (c, kind, fmt([50]), fmt([1, 801, 1601])))
            cases.append('hm %s %s h %s %s' % (c, kind, fmt([850, 1650]), fmt([1, 801, 1601])))
            cases.append('hm %s %s h %s %s' % (c, kind, fmt([850]), fmt([1, 801, 1601])))
            cases.append('hm %s %s h - -' % (c, kind))
            cases.append('hm %s %s h %s %s - - %s' % (c, kind, fmt([350]), fmt([1, 801]), fmt([301, 1101, 1901])))
    # tree sources (single leaf) into hash / tree unique / tree multi; TreeSet::MergeTo(TreeSet&) dispatch (lm)
    for i in range(40 * scale):
        c = CATS[i % 4]
        kind = ('func', 'copy', 'alloc')[(i // 4) % 3]
        dk = ('h', 't', 'm')[(i // 12) % 3]
        deep = (i % 5 == 4)            # multi-leaf trees (height 2-3: more than 32 items per tree), coarse comparison
        kr, nmax = (400, 80) if deep else (30, 7)
        keys = sorted(set(r.range(0, kr) for _ in range(r.range(40 if deep else 0, nmax))))
        src = [k * 100 + r.range(1, 49) for k in keys]
        if dk == 'm' and src and r.chance(1, 2):
            src.append((src[0] // 100) * 100 + 49)
        dkeys = sorted(set(r.range(0, kr) for _ in range(r.range(40 if deep else 0, nmax))))
        dst = [k * 100 + r.range(50, 99) for k in dkeys]
        cases.append('tm %s %s %s %s %s' % (c, kind, dk, fmt(dst), fmt(src)))
    for i in range(40 * scale):
        c = CATS[i % 4]
        kind = ('copy', 'alloc')[(i // 4) % 2]
        multi = (i // 8) % 2
        deep = (i % 5 == 4)
        ns = r.choice([0, 1, 1, 2, 3, 4, 6, 8]); nd = r.choice([0, 1, 2, 4, 8, 12])
        if deep:
            ns = r.range(35, 80); nd = r.range(35, 80)
        keys = sorted(set(r.range(0, 400 if deep else 40) for _ in range(ns)))
        src = [k * 100 + r.range(1, 49) for k in keys]
        dkeys = sorted(set(r.range(0, 400 if deep else 40) for _ in range(nd)))
        dst = [k * 100 + r.range(50, 99) for k in dkeys]
        if multi and src and r.chance(1, 2):
            src.append((src[-1] // 100) * 100 + 49)
        cases.append('lm %s %s %d %s %s' % (c, kind, multi, fmt(dst), fmt(src)))
    # TreeSet::MergeTo(TreeSet&) with EQUAL managers: swap, pvMergeFast in both directions, touching key ranges (the
    # ordering tests), interleaved ranges (loops); sizes up to a few hundred items so that the trees have different heights
    for i in range(48 * scale):
        c = CATS[i % 4]
        kind = ('alloc', 'copy')[(i // 4) % 2]
        multi = (i // 8) % 2
        shape = ('src<dst', 'dst<src', 'touch-src-dst', 'touch-dst-src', 'interleaved', 'dst-empty')[(i // 16) % 6 if i >= 16 else i % 6]
        big = r.chance(1, 3)
        ns = r.range(1, 400 if big else 12); nd = r.range(1, 400 if big and r.chance(1, 2) else 12)
        if shape == 'interleaved':
            ns = min(ns, 10); nd = min(nd, 10)
        lo = [k * 100 + r.range(1, 49) for k in range(0, 2 * ns, 2)]
        hi_base = 2 * ns + 10
        if shape in ('touch-src-dst', 'touch-dst-src'):
            hi_base = 2 * ns - 2                      # the largest low key == the smallest high key
        hi = [(hi_base + 2 * k) * 100 + r.range(50, 99) for k in range(nd)]
        if shape in ('src<dst', 'touch-src-dst'):
            src, dst = lo, hi
        elif shape in ('dst<src', 'touch-dst-src'):
            src, dst = [x - x % 100 + r.range(1, 49) for x in hi], [x - x % 100 + r.range(50, 99) for x in lo]
        elif shape == 'interleaved':
            src = lo; dst = [(2 * k + 1) * 100 + r.range(50, 99) for k in range(nd)] + ([lo[0] - lo[0] % 100 + 99] if r.chance(1, 2) else [])
        else:
            src, dst = lo, []
        if multi and src and r.chance(1, 2):
            src = src + [src[-1] - src[-1] % 100 + 49]
        cases.append('fm %s %s %d %s %s' % (c, kind, multi, fmt(dst), fmt(src)))
    return cases


# ----------------------------------------------------------------------------------------------- comparison
def behaviours(line):
    return line.split(' || ')


def agree(case, impl, model):
    """exact agreement, except (a) allocation failures: the model has one fallible allocation step per inserted item,
    the real containers allocate only at some insertions, and (b) comparison failures of tree destinations: the model
    has one fallible find step per source item, an empty tree compares nothing -> there the observed behaviours
    must be a subsequence of the model's with the same final behaviour"""
    if impl == model:
        return True
    w = case.split()
    if w[0] in ('tm', 'lm', 'fm') and w[1] == 'CPY' and w[2] == 'copy':
        # copy-only items in multi-node trees: momo swallows an exception thrown while REBALANCING the source after an
        # extraction (an optimisation that may be skipped), so an injected copy failure can leave the whole merge
        # successful -> every observed behaviour must be one of the model's behaviours, same final behaviour
        bi, bm = behaviours(impl), behaviours(model)
        return bool(bi) and bool(bm) and bi[-1] == bm[-1] and set(bi) <= set(bm)
    if w[0] == 'px' and w[3] == 'alloc':
        w = [w[0]] + w[2:]
    if w[0] == 'hs' and w[2] in ('alloc', 'func'):
        w = ['hm', w[1], 'alloc', 'x']        # hinted node insert into a tree: allocation / comparison steps happen only sometimes
    if len(w) > 3 and w[0] in ('hm', 'tm', 'lm', 'fm', 'xi', 'xa', 'px') and (w[2] == 'alloc' or (w[2] == 'func' and w[3] in ('t', 'm') and w[0] != 'xi')):
        bi, bm = behaviours(impl), behaviours(model)
        if not bi or not bm or bi[-1] != bm[-1]:
            return False
        j = 0
        for b in bi:
            while j < len(bm) and bm[j] != b:
                j += 1
            if j == len(bm):
                return False
            j += 1
        return True
    return False


# ----------------------------------------------------------------------------------------------- oracle on tie outputs
def ms(l):
    return collections.Counter(l)


def parse_items(s):
    return [] if s == '-' else [int(x) for x in s.replace('|', ',').split(',') if x not in ('-', '')]


def tie_oracle(ctx, case, out):
    """the property itself on the real code's output line (independent of the Coq model)"""
    w = case.split()
    bad = []
    if 'LEAK' in out or 'UNUSABLE' in out or 'INVALID-TREE' in out or 'BAD-' in out or 'HARNESS-EXCEPTION' in out or 'TOO-MANY' in out or out.strip() in ('?', ''):
        bad.append('leak / unusable container / harness problem: ' + out[:200])
        return bad
    if w[0] in ('hm', 'tm', 'lm', 'fm', 'xi', 'xa', 'hs'):
        cat = w[1]
        if w[0] == 'hm':
            dst0 = parse_items(w[4]); src0 = [x for b in w[5:] for x in parse_items(b)]; multi = (w[3] == 'm')
        elif w[0] in ('tm', 'lm', 'fm'):
            dst0 = parse_items(w[4]); src0 = parse_items(w[5]); multi = (w[3] in ('m', '1'))
        elif w[0] == 'hs':
            dst0 = parse_items(w[6]); src0 = parse_items(w[7]); multi = False
        else:
            dst0 = parse_items(w[4]); src0 = parse_items(w[5]); multi = False
        init = ms(src0 + dst0)
        dkeys0 = set(d // 100 for d in dst0)
        nb = 0
        for b in behaviours(out):
            nb += 1
            m = re.search(r'src=(\S+) dst=(\S+)', b)
            if not m:
                bad.append('unparsable behaviour ' + b[:120]); continue
            src = parse_items(m.group(1)); dst = parse_items(m.group(2))
            hold = []
            mh = re.search(r'holder=(\S+)', b)
            if mh and mh.group(1) != 'none':
                hold = [int(mh.group(1))]
            if ms(src + dst + hold) != init:
                bad.append('items not conserved: src %s + dst %s + holder %s != initial %s' % (src, dst, hold, sorted(init.elements())))
            if not multi and len(set(d // 100 for d in dst)) != len(dst):
                bad.append('duplicate key in a unique-key destination: %s' % dst)
            if not multi:
                for x in src0:
                    if x // 100 in dkeys0 and x not in src + hold:
                        bad.append('item %d refused by the destination left the source' % x)
            if 'copies=SOME' in b:
                bad.append('movable category %s was copied during merge' % cat)
            if cat in MOVABLE and re.search(r'(^|[ ;])C(A)? \d', b.split('dst=')[1] if 'dst=' in b else ''):
                bad.append('movable category %s: copy event in the trace' % cat)
            if b.startswith('S') and w[0] not in ('xi', 'xa', 'hs'):
                # completed merge: what remains in the source was refused
                for x in src:
                    if multi or x // 100 not in set(d // 100 for d in dst):
                        bad.append('completed merge left item %d in the source although the destination accepts it' % x)
        if nb > 1:
            ctx.nontrivial.add(case)
    elif w[0] == 'ir':
        dst0 = parse_items(w[3]); args = parse_items(w[4])
        bs = behaviours(out)
        for b in bs:
            m = re.search(r'dst=(\S+)', b)
            dst = parse_items(m.group(1)) if m else None
            if dst is None or 'ARGS-MODIFIED' in b:
                bad.append('unparsable / arguments modified: ' + b[:120]); continue
            if ms(dst) - ms(dst0 + args):
                bad.append('container is not a subset of original + inserted: %s' % dst)
            if ms(dst0) - ms(dst):
                bad.append('an original item disappeared: %s' % dst)
            if len(set(d // 100 for d in dst)) != len(dst):
                bad.append('duplicate keys after multi-element insert: %s' % dst)
            if b.startswith('S') and set(a // 100 for a in args) - set(d // 100 for d in dst):
                bad.append('completed insert misses an argument key')
        if len(bs) > 1:
            ctx.nontrivial.add(case)
    elif w[0] == 'rp':
        mod = int(w[3]); src0 = [x for b in w[4:] for x in parse_items(b)]
        bs = behaviours(out)
        for b in bs:
            m = re.search(r'src=(\S+)', b)
            if not m:
                bad.append('unparsable behaviour ' + b[:120]); continue
            src = parse_items(m.group(1))
            if ms(src) - ms(src0):
                bad.append('container is not a subset of the original after Remove(pred): %s' % src)
            if any((x // 100) % mod != 0 for x in (ms(src0) - ms(src)).elements()):
                bad.append('Remove(pred) removed an item the predicate rejects')
            if b.startswith('S') and any((x // 100) % mod == 0 for x in src):
                bad.append('completed Remove(pred) left a matching item')
            if w[1] in MOVABLE and re.search(r'(^|[ ;])C(A)? \d', b.split('src=')[1]):
                bad.append('Remove(pred) copied a movable element')
        if len(bs) > 1:
            ctx.nontrivial.add(case)
    elif w[0] == 'px':
        pp = lambda t: [] if t in ('-', 'none') else [tuple(int(x) for x in q.split(':')) for q in t.split(',')]
        both_copy_only = (w[1] == 'CPY' and w[2] == 'CPY')
        init = ms(pp(w[5]) + pp(w[6]))
        bs = behaviours(out)
        for b in bs:
            m = re.search(r'src=(\S+) dst=(\S+) holder=(\S+)', b)
            if not m:
                bad.append('unparsable behaviour ' + b[:120]); continue
            allp = pp(m.group(1)) + pp(m.group(2)) + pp(m.group(3))
            if ms(allp) != init:
                lenient = (both_copy_only and not b.startswith('S') and ms(k for k, _ in allp) == ms(k for k, _ in init.elements())
                           and all(v in set(v0 for _, v0 in init.elements()) for _, v in allp))
                if lenient:
                    d = ctx.coverage.setdefault('documented_limitation_hits_tie', {'key': DOC_KEY, 'behaviours': 0, 'first_case': case})
                    d['behaviours'] += 1
                else:
                    bad.append('key/value pairs not conserved: %s != initial %s' % (sorted(allp), sorted(init.elements())))
            dk = [k // 100 for k, _ in pp(m.group(2))]
            if len(set(dk)) != len(dk):
                bad.append('duplicate key in destination map')
            if w[1] in MOVABLE and w[2] in MOVABLE and re.search(r'(^|[ ;])C(A)? \d', b.split('holder=')[1]):
                bad.append('movable key/value copied during extract / re-insert')
        if len(bs) > 1:
            ctx.nontrivial.add(case)
    elif w[0] == 'pm':
        if w[1] in MOVABLE and w[2] in MOVABLE and re.search(r'(^|[ ;])C(A)? \d', out):
            bad.append('pair mechanism copied movable objects: ' + out)
        if w[4] != '-1':
            ctx.nontrivial.add(case)
    elif w[0] == 'sh':
        n, idx, cnt = int(w[3]), int(w[4]), int(w[5])
        bs = behaviours(out)
        for b in bs:
            m = re.search(r'count=(\d+) items=(\S+)', b)
            if not m:
                bad.append('unparsable behaviour ' + b[:120]); continue
            count = int(m.group(1)); items = [] if m.group(2) == '-' else m.group(2).split(',')
            if len(items) != count or 'raw' in items:
                bad.append('array count %d inconsistent with readable slots %s' % (count, items))
            if w[2] == 'ins':
                okc = (count == n + cnt) if b.startswith('S') else (n <= count <= n + cnt)
            else:
                okc = (count == n - cnt) if b.startswith('S') else (count == n)
            if not okc:
                bad.append('array count %d out of range after %s (n=%d cnt=%d): %s' % (count, w[2], n, cnt, b[:80]))
            if b.startswith('S'):
                vals = [int(x) for x in items]
                exp = list(range(100, 100 + n))
                exp = exp[:idx] + list(range(200, 200 + cnt)) + exp[idx:] if w[2] == 'ins' else exp[:idx] + exp[idx + cnt:]
                if vals != exp:
                    bad.append('array contents %s != expected %s' % (vals, exp))
            if w[1] in MOVABLE and w[2] == 'rem' and re.search(r'(^|[ ;])C(A)? \d', b):
                bad.append('positional remove copied a movable element')
        if len(bs) > 1:
            ctx.nontrivial.add(case)
    elif w[0] == 'eh':
        if 'LEAK' in out or 'STUCK' in out:
            bad.append('holder op sequence: ' + out)
        if 'E:' in out:
            ctx.nontrivial.add(case)
    elif w[0] == 'om':
        if w[1] in MOVABLE and re.search(r'(^|[ ;])C(A)? \d', out):
            bad.append('relocation mechanism copied a movable element: ' + out)
        if w[3] != '-1':
            ctx.nontrivial.add(case)
    return bad


# ----------------------------------------------------------------------------------------------- big oracle (oracle.cpp)
def gen_oracle_cases(ctx, scale):
    r = ctx.rng
    cases = []
    scen = ORACLE_SCENARIOS
    for s in scen:
        for c in CATS:
            for rep in range(2 * scale if scale > 1 else 1):
                cases.append('%s %s %d' % (s, c, r.range(1, 10 ** 6)))
    return cases


ORACLE_SCENARIOS = []       # filled when oracle.cpp is present (see run)


def run_oracle(ctx, exe, cases):
    path = os.path.join(ctx.build, 'oracle.cases')
    open(path, 'w').write('\n'.join(cases) + '\n')
    rc, lines, err = ctx.run_lines([exe], path, timeout=1500)
    bad = []
    if rc != 0:
        crashed = cases[len(lines)] if len(lines) < len(cases) else '(unknown)'
        bad.append((crashed, err[-400:], 'the real code crashed / aborted (exit %d) on oracle case %s: %s' % (rc, crashed, err.strip()[-300:])))
    hist = collections.Counter()
    for c, out in zip(cases, lines):
        ctx.evaluations += 1
        m = re.match(r'(OK|BAD) points=(\d+) documented=(\d+) pending=(\d+) ev=(\S+)', out)
        if not m:
            bad.append((c, out, 'unparsable oracle output')); continue
        if int(m.group(2)) > 0:
            ctx.nontrivial.add(c)
        hist[c.split()[0]] += int(m.group(2))
        if int(m.group(3)) > 0:
            documented_limitation(ctx, c, int(m.group(3)), os.path.basename(exe))
        dist = ctx.coverage.setdefault('input_distribution', {})
        sc, cat = c.split()[0], c.split()[1]
        d = dist.setdefault('oracle_cases_per_scenario', {}); d[sc] = d.get(sc, 0) + 1
        d = dist.setdefault('oracle_cases_per_category', {}); d[cat] = d.get(cat, 0) + 1
        d = dist.setdefault('oracle_failure_points_per_category', {}); d[cat] = d.get(cat, 0) + int(m.group(2))
        if m.group(5) != '-':
            d = dist.setdefault('oracle_measured_events', {})
            for kv in m.group(5).split(','):
                kk, vv = kv.rsplit(':', 1); d[kk] = d.get(kk, 0) + int(vv)
        if m.group(1) == 'BAD':
            bad.append((c, out, out[:300]))
    if len(lines) < len(cases) and rc == 0:
        bad.append(('(oracle harness)', '', 'oracle harness printed %d of %d lines' % (len(lines), len(cases))))
    tot = ctx.coverage.setdefault('oracle_failure_points', {})
    for kk, vv in hist.items():
        tot[kk] = tot.get(kk, 0) + vv
    return bad


def check_types(ctx, exes):
    """the classes the oracle configurations really instantiate must be the intended ones"""
    seen = {}; bad = []
    for name in ORACLES:
        for c in ORACLE_CATS:
            exe = exes.get('%s_%s' % (name, c))
            if exe is None:
                continue
            rc, lines, _ = ctx.run_lines([exe, '--types'], os.devnull)
            for l in lines:
                seen.setdefault(c, []).append(l)
            txt = '\n'.join(lines)
            if name == 'oracle':
                catline = [l for l in lines if l.startswith('cat ')]
                if not catline or EXPECTED_CAT[c] not in catline[0]:
                    bad.append('%s: element category traits are not the intended ones: %s' % (c, catline))
            for key, sub in EXPECTED_TYPES.items():
                ls = [l for l in lines if l.startswith(key)]
                if ls and sub not in ls[0]:
                    bad.append('%s %s: expected %r in %r' % (c, key, sub, ls[0][:200]))
    missing = [k for k in EXPECTED_TYPES if not any(l.startswith(k) for ls in seen.values() for l in ls)]
    if missing:
        bad.append('no --types line for ' + ', '.join(missing))
    ctx.coverage['instantiated_types'] = {c: ls for c, ls in seen.items() if c == 'NTM'}
    ctx.stage('config-types', not bad, '; '.join(bad[:5]))


DOC_KEY = 'map-copyonly-pair-remove-value-changed'


def documented_limitation(ctx, case, n, exen):
    """HashMap.h:351-354 item 5 / TreeMap: key AND value both not nothrow-anyway-assignable -> a failed removal may change
    the removed pair's value (MapUtility.h pvReplaceUnsafe).  Documented by momo, contradicts C10's conservation for
    that configuration.  Reported as KNOWN-FINDING when known_findings.txt lists the key, else as a logged limitation."""
    d = ctx.coverage.setdefault('documented_limitation_hits', {'key': DOC_KEY, 'failure_points': 0, 'first_case': case})
    d['failure_points'] += n
    if any(k['kind'] == 'known' and k['property'] == ctx.id and k['key'] == DOC_KEY for k in ctx.known_findings()):
        ctx.violation('documented map limitation', {'case': case, 'cmd': 'echo "%s" | build/C10/%s' % (case, exen)}, key=DOC_KEY)
    elif d['failure_points'] == n:
        ctx.log('DOCUMENTED-LIMITATION (not a violation): copy-only key+value map, failed removal changed the removed pair\'s value: ' + case)


# ----------------------------------------------------------------------------------------------- entry points
ORACLES = ('oracle', 'oracle_std')
ORACLE_CATS = ['TRIV'] + CATS          # the oracle additionally runs trivially relocatable items (memcpy relocation)
if os.environ.get('VERIF_C10_CATS'):   # mutant re-runs on a loaded machine: restrict the oracle builds to some categories (default: all five)
    ORACLE_CATS = [c for c in ORACLE_CATS if c in os.environ['VERIF_C10_CATS'].split(',')]

# what the configurations must REALLY instantiate (substring of the demangled type printed by `<oracle> --types`)
EXPECTED_TYPES = {
    'bucket hs_open8': 'BucketOpen2N2<',        # HashBucketOpen8 with a custom (slow) hash functor falls back to Open2N2<3>
    'bucket hs_default': 'BucketLimP4<', 'bucket limp': 'BucketLimP<', 'bucket unlimp': 'BucketUnlimP<', 'bucket open2n2': 'BucketOpen2N2<',
    'bucket openn1': 'BucketOpenN1<', 'bucket limp1': 'BucketLimP1<', 'bucket lim4': 'BucketLim4<', 'bucket one': 'BucketOne<',
    'bucket fasthash ': 'unsigned long, kit::MM> >, 4ul, momo::MemPoolParams<32ul, 16ul>, false>',     # fast-hash variant of LimP4
    'bucket fasthash_open8': 'BucketOpen8<', 'node ts_small ': ', 4ul, 2ul, momo::MemPoolParams<2ul, 16ul>, ',
    'node ts_smallidx': ', 5ul, 1ul, momo::MemPoolParams<1ul, 16ul>, false>', 'crew hs_inline': 'is_inline=1', 'crew tsd_inline': 'is_inline=1',
    'crew hs_noversion': 'kit::MM, false, true>', 'crew hs_kitmm': 'kit::MM, true, true>', 'traits tsd_empty=1': 'ts_functor_empty=0',
    'array_int': 'internalCapacity=4', 'std_uset bucket': 'BucketLimP4<', 'std_map default nested': 'extraCheck=1',
}
EXPECTED_CAT = {'TRIV': 'trivially_relocatable=1 nothrow_relocatable=1', 'NTM': 'trivially_relocatable=0 nothrow_relocatable=1 nothrow_anyway_assignable=1',
                'SMH': 'trivially_relocatable=0 nothrow_relocatable=1', 'THM': 'trivially_relocatable=0 nothrow_relocatable=1 nothrow_anyway_assignable=1',
                'CPY': 'trivially_relocatable=0 nothrow_relocatable=0 nothrow_anyway_assignable=0'}


def oseed(ctx, scenario, rep):
    """scenario seed derived from (VERIF_SEED, scenario, repetition) by SHA-256: vlib's SplitMix64 streams of neighbouring
    VERIF_SEED values are the same stream shifted by one draw, which would make the oracle cases nearly seed-independent"""
    import hashlib
    return int(hashlib.sha256(('%d:%s:%d' % (ctx.seed, scenario, rep)).encode()).hexdigest()[:8], 16) % 10 ** 6 + 1


def build_all(ctx):
    """tie harness + the two oracle sources, each compiled once per element category (keeps every TU small)"""
    fast = ['-O0', '-g0'] if ctx.quick() else []       # quick tier: compile time dominates (heavy templates), run time is ~1 s
    jobs = [('harness.cpp', 'harness', fast)]
    for name in ORACLES:
        if os.path.exists(os.path.join(ctx.pdir, name + '.cpp')):
            for c in ORACLE_CATS:
                jobs.append((name + '.cpp', '%s_%s' % (name, c), fast + ['-DC10_CAT=kit::' + c]))
    return cached_cxx_many(ctx, jobs)


def cached_cxx_many(ctx, jobs):
    """ctx.cxx_many with an up-to-date shortcut: an executable is reused when the SHA-256 of everything it is built
    from (its source, the C10 / kit headers, every header under <repo>/include, the flags, the tier) is unchanged"""
    import hashlib, glob
    h = hashlib.sha256()
    files = sorted(glob.glob(os.path.join(ctx.repo, 'include', '**', '*.h'), recursive=True)) + \
        sorted(glob.glob(os.path.join(ctx.pdir, '*.h'))) + sorted(glob.glob(os.path.join(ctx.root, 'harness', '*.h')))
    for f in files:
        h.update(f.encode()); h.update(open(f, 'rb').read())
    base = h.hexdigest()
    res = {}; todo = []
    for (src, exe, flags) in jobs:
        key = hashlib.sha256((base + open(os.path.join(ctx.pdir, src)).read() + ' '.join(flags) + ctx.tier).encode()).hexdigest()
        out = os.path.join(ctx.build, exe + ('.san' if ctx.tier == 'thorough' else ''))
        stamp = out + '.sha'
        if os.path.exists(out) and os.path.exists(stamp) and open(stamp).read() == key and os.environ.get('VERIF_NOCACHE') != '1':
            res[exe] = out
        else:
            todo.append((src, exe, flags, key, stamp))
    if todo:
        built = ctx.cxx_many([(s, e, f) for (s, e, f, _, _) in todo])
        for (s, e, f, key, stamp) in todo:
            res[e] = built.get(e)
            if built.get(e):
                open(stamp, 'w').write(key)
            elif os.path.exists(stamp):
                os.remove(stamp)
    ctx.coverage['cxx_rebuilt'] = [e for (_, e, _, _, _) in todo]
    return res


def regen_proto(ctx):
    """deep-embedding dump of the merge hand-over loops (c10_proto.py) from the CURRENT headers; a failure deletes the stale file"""
    out = os.path.join(ctx.cdir, 'Gen_MergeProto.v')
    try:
        import importlib.util, hashlib
        spec = importlib.util.spec_from_file_location('c10_proto', os.path.join(ctx.pdir, 'c10_proto.py'))
        mod = importlib.util.module_from_spec(spec); spec.loader.exec_module(mod)
        txt = mod.translate(os.path.join(ctx.pdir, 'inst.cpp'), ctx.repo)
        if not os.path.exists(out) or open(out).read() != txt:
            open(out, 'w').write(txt)
        ctx.tie_obligations.append({'name': 'dump Gen_MergeProto (pvMergeTo / pvExtract / pvMergeToLinear statement trees)', 'ok': True,
                                    'sha256': hashlib.sha256(txt.encode()).hexdigest()[:16]})
        ctx.stage('regen-proto', True)
    except Exception as e:
        if os.path.exists(out):
            os.remove(out)
        ctx.tie_obligations.append({'name': 'dump Gen_MergeProto', 'ok': False, 'error': str(e)[:300]})
        ctx.stage('regen-proto', False, str(e)[:500])


def run(ctx):
    scale = 1 if ctx.quick() else 4
    ctx.trusted += ['extraction: ExtrOcamlBasic only (no Extract Constant), OCaml 4.13.1, zarith for decimal I/O only',
                    'g++ 12 -std=c++17; harness reaches private members via #define private public; harness/kit.h instrumentation',
                    'ocaml/driver.ml: parsing, schedule construction ("the j-th step of kind X fails"), printing; for the ec / sw direct runs the interpretation of the generated functions\' primitives',
                    'translation chain of the 25 theorems about generated output (unverified): clang 14 JSON AST, tools/cxx2coq.py + gen_*.json configs, props/C10/c10_proto.py; '
                    'run against the real code: Gen_Holder.*, Gen_ExtraCheckH/T.pvExtraCheck, Gen_TreeSwap.Swap; NOT run separately: Gen_StdInsert/U/N, Gen_MergeTo (tied via lemmas to hand models that are run), Gen_MergeProto (syntactic comparison with hand-typed trees / a 5-boolean recogniser)']
    ctx.assumptions += [
        'default MOMO_IS_NOTHROW_RELOCATABLE_APPENDIX: a type with a move constructor is relocated inside noexcept functions; '
        'its move constructor is assumed not to throw while relocating (a throw is std::terminate by momo policy) - category THM',
        'the four element categories NTM/SMH/THM/CPY (trait values checked by static_assert in c10_common.h); trivially relocatable items move by memcpy and are not modelled',
        'tree sources: the leaf/internal shape of each extraction is an oracle (theorems hold for every oracle); trace-level tie only for single-leaf trees',
        'destination internals (growth, rebalancing) are abstracted to one fallible find step and one fallible allocation step per insertion; their own safety is C04/C11',
        'ExtraCheckMode::nothing in most harness containers (before b307610 the debug-only extra check turned a throwing functor into an assertion failure; pvExtraCheck itself is generated and run directly, mode ec)']
    ctx.regen(['gen_holder.json', 'gen_holder_tree.json', 'gen_stdinsert.json', 'gen_stdinsert_u.json', 'gen_stdinsert_n.json', 'gen_mergeto.json', 'gen_treeswap.json', 'gen_extracheck_t.json', 'gen_extracheck_h.json'])
    regen_proto(ctx)
    ctx.prove()
    exes = build_all(ctx)
    harness = exes.get('harness')
    if harness is None:
        ctx.stage('build-harness', False, getattr(ctx, 'last_cxx_error', ''))
        return ctx.finish(rule=RULE)
    broken = any(not s['ok'] for s in ctx.stages.values())
    cases = gen_tie_cases(ctx, scale)
    path = os.path.join(ctx.build, 'tie.cases')
    open(path, 'w').write('\n'.join(cases) + '\n')
    rc, impl, err = ctx.run_lines([harness], path)
    if rc != 0 or len(impl) != len(cases):
        ctx.stage('run-harness', False, 'exit %d, %d of %d lines: %s' % (rc, len(impl), len(cases), err[-600:]))
        if len(impl) < len(cases):
            ctx.violation('the real code crashed on a tie case', {'case': cases[len(impl)] if len(impl) < len(cases) else '?', 'stderr': err[-600:],
                          'cmd': 'echo "<case>" | build/C10/harness'}, found_input=True)
    have_model = ctx.stages.get('prove', {}).get('ok') and ctx.extract()
    if have_model and len(impl) == len(cases):
        rc2, model, err2 = ctx.run_lines([ctx.model_exe], path)
        mism = []
        for i, c in enumerate(cases):
            a = impl[i]; b = model[i] if i < len(model) else '<missing>'
            if not agree(c, a, b):
                mism.append((i, c, a, b))
        ctx.evaluations += len(cases)
        ctx.traces_validated += len(cases) - len(mism)
        ok = not mism and rc2 == 0
        ctx.stage('corr:micro-correspondence', ok, ('model driver exit %d %s' % (rc2, err2[-300:]) if rc2 else '') +
                  ('first disagreement: case %r impl=%r model=%r (%d total)' % (mism[0][1], mism[0][2][:400], mism[0][3][:400], len(mism)) if mism else ''))
        ctx.tie_obligations.append({'name': 'extracted model == real momo code (status, contents, value-level event traces) on %d cases x every failure index' % len(cases), 'ok': ok})
        for (i, c, a, b) in mism[:3]:
            ctx.violation('model and implementation disagree', {'case': c, 'impl': a, 'model': b, 'cmd': 'echo "%s" | build/C10/harness' % c}, found_input=True)
    # ---- the property predicates on the real code (always)
    bad = []
    for c, out in zip(cases, impl):
        for why in tie_oracle(ctx, c, out):
            bad.append((c, out, why))
    ctx.stage('oracle:tie-outputs', not bad, bad[0][2] if bad else '')
    for (c, out, why) in bad[:3]:
        ctx.violation(why, {'case': c, 'impl_output': out[:1500], 'cmd': 'echo "%s" | build/C10/harness' % c}, found_input=True)
    check_types(ctx, exes)
    # ---- fault enumeration over many container kinds (always; more seeds when a stage broke = the search stage)
    broken = any(not st['ok'] for st in ctx.stages.values())
    reps = (2 if ctx.quick() else 10) * (4 if broken else 1)
    for name in ORACLES:
        if not os.path.exists(os.path.join(ctx.pdir, name + '.cpp')):
            continue
        obad = []; nocases = 0
        for c in ORACLE_CATS:
            exe = exes.get('%s_%s' % (name, c))
            if exe is None:
                ctx.stage('build-%s_%s' % (name, c), False, getattr(ctx, 'last_cxx_error', '')); continue
            rcx, scen, _ = ctx.run_lines([exe, '--list'], os.devnull)
            ocases = ['%s %d' % (sc, oseed(ctx, sc, rep)) for sc in scen for rep in range(reps)]
            nocases += len(ocases)
            for (cs, out, why) in run_oracle(ctx, exe, ocases):
                obad.append((cs, out, why, '%s_%s' % (name, c)))
            for cs in ocases[:1]:
                ctx.add_sample(cs)
        ctx.stage('oracle:' + name, not obad, obad[0][2] if obad else '')
        ctx.coverage.setdefault('oracle_cases', {})[name] = nocases
        for (cs, out, why, exen) in obad[:3]:
            ctx.violation(why, {'case': cs, 'impl_output': out[:1500], 'cmd': 'echo "%s" | build/C10/%s' % (cs, exen)}, found_input=True)
    for c in cases[::max(1, len(cases) // 5)][:5]:
        ctx.add_sample(c)
    dist = ctx.coverage.setdefault('input_distribution', {})
    dist['tie_cases_per_mode_and_category'] = dict(collections.Counter(c.split()[0] + ':' + c.split()[1] for c in cases))
    dist['tie_failure_kind'] = dict(collections.Counter(c.split()[0] + ':' + (c.split()[3] if c.split()[0] in ('px',) else c.split()[2]) for c in cases
                                                        if c.split()[0] in ('hm', 'tm', 'lm', 'fm', 'xi', 'xa', 'hs', 'px', 'ir', 'rp')))
    dist['tie_observed_behaviours_per_mode'] = dict(collections.Counter())
    for c, out in zip(cases, impl):
        dist['tie_observed_behaviours_per_mode'][c.split()[0]] = dist['tie_observed_behaviours_per_mode'].get(c.split()[0], 0) + len(behaviours(out))
    dist['tie_deep_tree_cases(>=35 items per side)'] = sum(1 for c in cases if c.split()[0] in ('tm', 'lm', 'fm') and max(len(c.split()[4].split(',')), len(c.split()[5].split(','))) >= 35)
    return ctx.finish(rule=RULE)


def replay(ctx, rp):
    case = rp.get('case')
    if not case:
        print('replay has no concrete case (no-failing-input-found): broken stages were', list(rp.get('broken', {}).keys())); return 1
    exes = build_all(ctx)
    cmd = rp.get('cmd', '')
    m = re.search(r'build/C10/(\w+)', cmd)
    name = m.group(1) if m else 'harness'
    exe = exes.get(name)
    if exe is None:
        print('harness does not build'); return 2
    path = os.path.join(ctx.build, 'replay.cases'); open(path, 'w').write(case + '\n')
    rc, lines, err = ctx.run_lines([exe], path)
    out = lines[0] if lines else err
    print('case:', case, '\nimplementation:', out)
    if name == 'harness':
        bad = tie_oracle(ctx, case, out) if lines else ['crash']
        if not bad and rp.get('model') is not None and ctx.extract():
            rc2, ml, _ = ctx.run_lines([ctx.model_exe], path)
            if ml and not agree(case, out, ml[0]):
                bad = ['model and implementation disagree: model=' + ml[0]]
    else:
        bad = [] if out.startswith('OK') else [out]
    if bad:
        print('\n'.join(bad[:5])); print('VIOLATION property=C10 replay=%s' % ctx.replay); return 1
    print('property holds on this case'); return 0


RULE = ('tie cases: every category (NTM,SMH,THM,CPY) x ObjectManager mechanism x failure index; exhaustive ArrayShifter grid '
        '(n<=4(6), every index, cnt<=3); extract+Insert(ExtractedItem) at every position of buckets of 1..3 items (Open8 bucket capacity for 8-byte items); random hash-bucket '
        'layouts / single-leaf trees merged into hash, unique-tree, multi-tree destinations; each case is repeated for EVERY failure '
        'index of its kind (func/copy/alloc) until the injection no longer fires. oracle cases: scenario x category x seed, each '
        'enumerating every failure point of every kind inside the bulk operation. distinct = distinct case line; non-trivial = at '
        'least one injected failure fired inside the operation (a partially applied state was inspected)')
