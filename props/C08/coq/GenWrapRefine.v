(* C08 -- stdish::unordered_multimap::operator== and erase(first,last), REGENERATED from unordered_multimap.h by cxx2coq
   (Gen_WrapEq.v, Gen_WrapErase.v; the same configurations as C06's), proved equal to the hand model of WrapperModel.v when
   their primitives are interpreted over two model containers.  The defects repaired by 7146119, 4339d66 and 8a385f6 lived
   in exactly these two functions: reverting any of them changes the generated text and breaks the lemmas below. *)
From Coq Require Import ZArith List Lia Bool.
From MomoCommon Require Import GenPrelude.
From C08 Require Import GenWrapPrims.
From C08 Require Gen_WrapEq Gen_WrapErase.
From C08 Require Import ArrayBucketModel MultiMapModel WrapperModel.
Import ListNotations.
Local Open Scope Z_scope.

(* ================================================================ operator== *)
Section EqInterp.
Variables l r : mm.
Variable B : Z.        (* key objects (id, tag) are encoded as id * B + tag *)
Let el := fst l.  Let er := fst r.

(* abstract values: 0 = left container, 1 = right container, 4k+2 = the key reference of key id k in left,
   4k+3 = the key reference (iterator) of key id k in right, -1 = the null key iterator *)
Definition ref_l (e : entry) : Z := 4 * ekey e + 2.
Definition ref_r (e : entry) : Z := 4 * ekey e + 3.
Definition entry_of (z : Z) : option entry :=
  if z <? 2 then None
  else if z mod 4 =? 2 then find ((z - 2) / 4) el
  else if z mod 4 =? 3 then find ((z - 3) / 4) er
  else None.
Definition i_count (z : Z) : Z :=
  if z =? 0 then snd l else if z =? 1 then snd r else match entry_of z with Some e => elen e | None => 0 end.
Definition i_key (z : Z) : Z := match entry_of z with Some e => ekey e * B + etag e | None => -1 end.
Definition i_find (h keyv : Z) : Z :=
  if h =? 1 then match find (keyv / B) er with Some e => ref_r e | None => -1 end else -1.
Definition i_is_null (z : Z) : bool := z <? 0.
Definition i_is_perm (a _b c : Z) : bool :=
  match entry_of a, entry_of c with Some e1, Some e2 => is_perm (evals e1) (evals e2) | _, _ => false end.
Fixpoint fold_first (f : Z -> option bool) (zs : list Z) : option bool :=
  match zs with [] => None | z :: t => match f z with Some b => Some b | None => fold_first f t end end.
Definition i_range_fold (h : Z) (f : Z -> option bool) : option bool :=
  if h =? 0 then fold_first f (map ref_l el) else None.

Definition gen_eq : bool :=
  Gen_WrapEq.op_eq i_count i_find i_key i_is_null i_is_perm (fun z => z) (fun z => z) i_range_fold 0 1.

Hypothesis HB : forall e, In e el \/ In e er -> 0 <= etag e < B /\ 0 <= ekey e.
Hypothesis NL : NoDup (keys el).
Hypothesis NR : NoDup (keys er).

Lemma entry_of_ref_l e : In e el -> entry_of (ref_l e) = Some e.
Proof.
  intros I. unfold entry_of, ref_l. destruct (HB e (or_introl I)) as [_ K].
  assert ((4 * ekey e + 2) mod 4 = 2) as M1 by (replace (4 * ekey e + 2) with (2 + ekey e * 4) by lia; rewrite Z_mod_plus_full; reflexivity).
  assert ((4 * ekey e + 2 - 2) / 4 = ekey e) as D1 by (replace (4 * ekey e + 2 - 2) with (ekey e * 4) by lia; apply Z.div_mul; lia).
  destruct (Z.ltb_spec (4 * ekey e + 2) 2); [lia|]. rewrite M1, Z.eqb_refl, D1. apply in_find; auto.
Qed.

Lemma entry_of_ref_r e : In e er -> entry_of (ref_r e) = Some e.
Proof.
  intros I. unfold entry_of, ref_r. destruct (HB e (or_intror I)) as [_ K].
  assert ((4 * ekey e + 3) mod 4 = 3) as M1 by (replace (4 * ekey e + 3) with (3 + ekey e * 4) by lia; rewrite Z_mod_plus_full; reflexivity).
  assert ((4 * ekey e + 3 - 3) / 4 = ekey e) as D1 by (replace (4 * ekey e + 3 - 3) with (ekey e * 4) by lia; apply Z.div_mul; lia).
  destruct (Z.ltb_spec (4 * ekey e + 3) 2); [lia|]. rewrite M1. change (3 =? 2) with false. cbv iota. rewrite Z.eqb_refl, D1.
  apply in_find; auto.
Qed.

(* the per-key test of operator== in the hand model *)
Definition body (e : entry) : bool :=
  if (length (evals e) =? 0)%nat then true
  else match find (ekey e) er with
       | None => false
       | Some e' =>
           if negb (etag e =? etag e') then false
           else if negb (length (evals e) =? length (evals e'))%nat then false
           else is_perm (evals e) (evals e')
       end.

(* the lambda that the generated operator== passes to the range-for over left's key bounds *)
Definition G (ref : Z) : option bool :=
  if Z.eqb (i_count ref) 0 then None
  else let rk := i_find 1 (i_key ref) in
       if i_is_null rk then Some false
       else if negb (Z.eqb (i_key ref) (i_key rk)) then Some false
       else if negb (Z.eqb (i_count ref) (i_count rk)) then Some false
       else if negb (i_is_perm ref ref rk) then Some false
       else None.

Lemma nat_Z_eqb (a b : nat) : (Z.of_nat a =? Z.of_nat b) = (a =? b)%nat.
Proof. destruct (Z.eqb_spec (Z.of_nat a) (Z.of_nat b)); destruct (Nat.eqb_spec a b); auto; lia. Qed.

Lemma G_entry e : In e el -> G (ref_l e) = if body e then None else Some false.
Proof.
  intros I. destruct (HB e (or_introl I)) as [T K]. unfold G, body.
  assert (i_count (ref_l e) = elen e) as C1.
  { unfold i_count. rewrite entry_of_ref_l by auto. unfold ref_l.
    destruct (Z.eqb_spec (4 * ekey e + 2) 0); [lia|]. destruct (Z.eqb_spec (4 * ekey e + 2) 1); [lia|]. reflexivity. }
  assert (i_key (ref_l e) = ekey e * B + etag e) as K1 by (unfold i_key; rewrite entry_of_ref_l by auto; reflexivity).
  rewrite C1, K1. unfold elen at 1. change 0 with (Z.of_nat 0) at 1. rewrite nat_Z_eqb.
  destruct (Nat.eqb_spec (length (evals e)) 0); [reflexivity|].
  unfold i_find. change (1 =? 1) with true. cbv iota.
  assert ((ekey e * B + etag e) / B = ekey e) as ->.
  { rewrite Z.div_add_l by lia. rewrite Z.div_small by lia. lia. }
  destruct (find (ekey e) er) as [e'|] eqn:F; [|reflexivity].
  pose proof (find_in _ _ _ F) as I'. pose proof (find_key _ _ _ F) as EK.
  destruct (HB e' (or_intror I')) as [T' K'].
  unfold i_is_null, ref_r at 1. destruct (Z.ltb_spec (4 * ekey e' + 3) 0); [lia|].
  assert (i_key (ref_r e') = ekey e' * B + etag e') as -> by (unfold i_key; rewrite entry_of_ref_r by auto; reflexivity).
  assert ((ekey e * B + etag e =? ekey e' * B + etag e') = (etag e =? etag e')) as ->.
  { rewrite EK. destruct (Z.eqb_spec (etag e) (etag e')); destruct (Z.eqb_spec (ekey e * B + etag e) (ekey e * B + etag e')); auto; lia. }
  destruct (negb (etag e =? etag e')); [reflexivity|].
  assert (i_count (ref_r e') = elen e') as ->.
  { unfold i_count. rewrite entry_of_ref_r by auto. unfold ref_r.
    destruct (Z.eqb_spec (4 * ekey e' + 3) 0); [lia|]. destruct (Z.eqb_spec (4 * ekey e' + 3) 1); [lia|]. reflexivity. }
  unfold elen. rewrite nat_Z_eqb.
  destruct (negb (length (evals e) =? length (evals e'))%nat); [reflexivity|].
  unfold i_is_perm. rewrite entry_of_ref_l, entry_of_ref_r by auto.
  destruct (is_perm (evals e) (evals e')); reflexivity.
Qed.

Lemma fold_G sub : incl sub el -> fold_first G (map ref_l sub) = if forallb body sub then None else Some false.
Proof.
  induction sub as [|e t IH]; intros IN; [reflexivity|]. simpl.
  rewrite G_entry by (apply IN; left; auto). destruct (body e); simpl; [|reflexivity].
  apply IH. intros x I; apply IN; right; auto.
Qed.

(* the generated operator== IS the hand model's w_eq *)
Theorem gen_wrap_eq_refines : gen_eq = w_eq l r.
Proof.
  unfold gen_eq, Gen_WrapEq.op_eq, w_eq, it_id, get_count.
  change (i_count 0) with (snd l). change (i_count 1) with (snd r).
  destruct (negb (snd l =? snd r)); [reflexivity|].
  change (i_range_fold 0) with (fun f => fold_first f (map ref_l el)). cbv beta.
  change (fold_first _ (map ref_l el)) with (fold_first G (map ref_l el)).
  rewrite fold_G by apply incl_refl. fold el. fold er. fold body.
  destruct (forallb body el); reflexivity.
Qed.
End EqInterp.

(* ================================================================ erase(first, last): theorems about the generated code,
   for EVERY interpretation of its primitives (iterator equality, begin/end/next, key iterator and count of a position,
   MakeIterator, RemoveKey, Remove, clear) *)
Section EraseSpec.
Variables (it_eqb it_neqb : Z -> Z -> bool) (it_end it_begin : Z) (it_next : Z -> Z) (ev_clear : Z -> Z)
          (key_of key_count : Z -> Z) (mm_make : Z -> Z -> Z) (remove_key remove_value : Z -> Z).
Let gen_erase_range := Gen_WrapErase.erase_range it_eqb it_neqb it_end it_begin it_next ev_clear key_of key_count mm_make remove_key remove_value.
Let gen_erase_where := Gen_WrapErase.erase_where key_of key_count mm_make remove_key remove_value.

(* empty range: nothing happens *)
Theorem gen_erase_range_empty st first last : it_eqb first last = true ->
  gen_erase_range st first last = Ok (first, st).
Proof. intros H. unfold gen_erase_range, Gen_WrapErase.erase_range, it_id. rewrite H. reflexivity. Qed.

(* one element: erase(first) -- RemoveKey when it is the key's only value, else Remove(iter) *)
Theorem gen_erase_range_single st first last : it_eqb first last = false -> it_neqb first it_end = true ->
  it_eqb (it_next first) last = true ->
  gen_erase_range st first last = Ok (gen_erase_where st first, st) /\
  gen_erase_where st first = if key_count (key_of first) =? 1 then mm_make (remove_key (key_of first)) 0 else remove_value first.
Proof.
  intros H1 H2 H3. unfold gen_erase_range, gen_erase_where, Gen_WrapErase.erase_range, Gen_WrapErase.erase_where, it_id.
  rewrite H1, H2, H3. split; reflexivity.
Qed.

(* 8a385f6, part 2: the equal_range of a key -- [MakeIterator(key,0), MakeIterator(key,count)) -- removes THAT KEY and never
   clears the container, even when first == begin() and last == end() (the range of the first key when its successor is end) *)
Theorem gen_erase_range_whole_key_never_clears st first last :
  it_eqb first last = false -> it_neqb first it_end = true -> it_eqb (it_next first) last = false ->
  it_eqb first (mm_make (key_of first) 0) = true ->
  it_eqb last (mm_make (key_of first) (key_count (key_of first))) = true ->
  gen_erase_range st first last = Ok (mm_make (remove_key (key_of first)) 0, st).
Proof.
  intros H1 H2 H3 H4 H5. unfold gen_erase_range, Gen_WrapErase.erase_range, it_id. rewrite H1, H2, H3, H4, H5. reflexivity.
Qed.

(* 8a385f6, part 1: a longer range that does NOT start at the first value of its key never removes a key: it is either the
   whole container (clear) or std::invalid_argument *)
Theorem gen_erase_range_mid_key_start st first last :
  it_eqb first last = false -> it_neqb first it_end = true -> it_eqb (it_next first) last = false ->
  it_eqb first (mm_make (key_of first) 0) = false ->
  gen_erase_range st first last =
  if it_eqb first it_begin && it_eqb last it_end then Ok (it_end, ev_clear st) else Exn.
Proof.
  intros H1 H2 H3 H4. unfold gen_erase_range, Gen_WrapErase.erase_range, it_id. rewrite H1, H2, H3, H4. simpl andb. reflexivity.
Qed.

End EraseSpec.

Lemma gen_erase_range_single_and_empty :
  forall (it_eqb it_neqb : Z -> Z -> bool) (it_end it_begin : Z) (it_next ev_clear key_of key_count : Z -> Z)
         (mm_make : Z -> Z -> Z) (remove_key remove_value : Z -> Z) (st first last : Z),
  (it_eqb first last = true ->
   Gen_WrapErase.erase_range it_eqb it_neqb it_end it_begin it_next ev_clear key_of key_count mm_make remove_key remove_value st first last = Ok (first, st)) /\
  (it_eqb first last = false -> it_neqb first it_end = true -> it_eqb (it_next first) last = true ->
   Gen_WrapErase.erase_range it_eqb it_neqb it_end it_begin it_next ev_clear key_of key_count mm_make remove_key remove_value st first last
   = Ok (if key_count (key_of first) =? 1 then mm_make (remove_key (key_of first)) 0 else remove_value first, st)).
Proof.
  intros. split.
  - apply gen_erase_range_empty.
  - intros H1 H2 H3.
    destruct (gen_erase_range_single it_eqb it_neqb it_end it_begin it_next ev_clear key_of key_count mm_make remove_key remove_value st first last H1 H2 H3) as [A B].
    rewrite A, B. reflexivity.
Qed.

(* ================================================================ erase(first, last): generated = hand model *)
(* interpretation of the primitives over a model container: iterators are positions of begin()..end(); a key iterator is the
   key id (>= 0); the iterators RETURNED by RemoveKey / Remove are negative markers (even: which key was removed; odd: which
   position), so that the effect the generated code chose can be read off its result *)
Fixpoint offset (es : list entry) (k : Z) : Z :=
  match es with [] => 0 | e :: r => if ekey e =? k then 0 else elen e + offset r k end.

Section EraseInterp.
Variable M : Z.
Variable m : mm.
Let es := fst m.
Let n : Z := Z.of_nat (length (pairs m)).

Definition e_key_of (p : Z) : Z := match locate es (Z.to_nat p) with Some (k, _) => k | None => -1 end.
Definition e_key_count (k : Z) : Z := Z.of_nat (w_count m k).
Definition e_mm_make (h j : Z) : Z := if h <? 0 then h else offset es h + j.
Definition e_remove_key (k : Z) : Z := - (2 * k) - 2.
Definition e_remove_value (p : Z) : Z := - (2 * p) - 1.

Definition gen_erase (a b : nat) :=
  Gen_WrapErase.erase_range Z.eqb (fun x y => negb (x =? y)) n 0 (fun p => p + 1) (fun _ => 1)
    e_key_of e_key_count e_mm_make e_remove_key e_remove_value 0 (Z.of_nat a) (Z.of_nat b).

(* reading the effect off the generated result *)
Definition apply_gen_result (res : outcome (Z * Z)) : erase_result :=
  match res with
  | Ok (it, st) =>
      if st =? 1 then ErOk (w_clear M m)
      else if it <? 0 then
        if Z.even it then ErOk (step1 M m (ORemoveKey ((- it - 2) / 2)))
        else match locate es (Z.to_nat ((- it - 1) / 2)) with
             | Some (k, i) => ErOk (step1 M m (ORemove k i))
             | None => ErThrow
             end
      else ErOk m
  | _ => ErThrow
  end.

Hypothesis ND : NoDup (keys es).
Hypothesis KP : forall e, In e es -> 0 <= ekey e.

Lemma locate_some : forall (l : list entry) a, (a < length (all_pairs l))%nat -> exists k i, locate l a = Some (k, i).
Proof.
  induction l as [|e r IH]; intros a H; [simpl in H; lia|].
  rewrite all_pairs_cons, app_length, length_pairs_of in H. simpl.
  destruct (Nat.ltb_spec a (length (evals e))); [eauto|]. apply IH. lia.
Qed.

Lemma locate_key_in : forall (l : list entry) a k i, locate l a = Some (k, i) -> In k (keys l).
Proof.
  induction l as [|e r IH]; simpl; intros a k i H; [discriminate|].
  destruct (a <? length (evals e))%nat; [inversion H; auto|]. right. eapply IH; eauto.
Qed.

Lemma locate_offset : forall (l : list entry) a k i, NoDup (keys l) -> locate l a = Some (k, i) ->
  offset l k + Z.of_nat i = Z.of_nat a.
Proof.
  induction l as [|e r IH]; simpl; intros a k i N H; [discriminate|]. inversion N; subst.
  destruct (Nat.ltb_spec a (length (evals e))).
  - inversion H; subst. rewrite Z.eqb_refl. lia.
  - pose proof (locate_key_in _ _ _ _ H) as I.
    destruct (Z.eqb_spec (ekey e) k) as [E|NE]; [subst; contradiction|].
    rewrite <- Z.add_assoc, (IH _ _ _ H3 H). unfold elen. lia.
Qed.

Lemma locate_key_nonneg a k i : locate es a = Some (k, i) -> 0 <= k.
Proof.
  intros H. pose proof (locate_key_in _ _ _ _ H) as I. unfold keys in I. apply in_map_iff in I.
  destruct I as (e & <- & I). auto.
Qed.

Lemma decode_rk k : 0 <= k -> apply_gen_result (Ok (e_remove_key k, 0)) = ErOk (step1 M m (ORemoveKey k)).
Proof.
  intros K0. unfold apply_gen_result, e_remove_key. change (0 =? 1) with false. cbv iota.
  destruct (Z.ltb_spec (- (2 * k) - 2) 0); [|lia].
  assert (Z.even (- (2 * k) - 2) = true) as ->.
  { replace (- (2 * k) - 2) with (2 * (- k - 1)) by lia. rewrite Z.even_mul. reflexivity. }
  assert ((- (- (2 * k) - 2) - 2) / 2 = k) as ->; [|reflexivity].
  replace (- (- (2 * k) - 2) - 2) with (k * 2) by lia. apply Z.div_mul; lia.
Qed.

Lemma decode_rv a k i : locate es a = Some (k, i) ->
  apply_gen_result (Ok (e_remove_value (Z.of_nat a), 0)) = ErOk (step1 M m (ORemove k i)).
Proof.
  intros LOC. unfold apply_gen_result, e_remove_value. change (0 =? 1) with false. cbv iota.
  destruct (Z.ltb_spec (- (2 * Z.of_nat a) - 1) 0); [|lia].
  assert (Z.even (- (2 * Z.of_nat a) - 1) = false) as ->.
  { replace (- (2 * Z.of_nat a) - 1) with (1 + 2 * (- Z.of_nat a - 1)) by lia. rewrite Z.even_add_mul_2. reflexivity. }
  assert ((- (- (2 * Z.of_nat a) - 1) - 1) / 2 = Z.of_nat a) as ->.
  { replace (- (- (2 * Z.of_nat a) - 1) - 1) with (Z.of_nat a * 2) by lia. apply Z.div_mul; lia. }
  rewrite Nat2Z.id, LOC. reflexivity.
Qed.

Lemma decode_clear it : apply_gen_result (Ok (it, 1)) = ErOk (w_clear M m).
Proof. reflexivity. Qed.

Lemma decode_noop a : apply_gen_result (Ok (Z.of_nat a, 0)) = ErOk m.
Proof. unfold apply_gen_result. change (0 =? 1) with false. cbv iota. destruct (Z.ltb_spec (Z.of_nat a) 0); [lia|reflexivity]. Qed.

Theorem gen_erase_range_refines a b : (a <= b <= length (pairs m))%nat ->
  apply_gen_result (gen_erase a b) = w_erase_range M m a b.
Proof.
  intros Hab. unfold gen_erase, Gen_WrapErase.erase_range, Gen_WrapErase.erase_where, w_erase_range, it_id.
  fold n. rewrite (nat_Z_eqb a b).
  destruct (Nat.eqb_spec a b) as [->|NE]; [apply decode_noop|].
  assert ((Z.of_nat a =? n) = (a =? length (pairs m))%nat) as EN by (unfold n; apply nat_Z_eqb).
  rewrite EN.
  assert (forall x : nat, ((Z.of_nat a =? 0) && (Z.of_nat x =? n)) = ((a =? 0)%nat && (x =? length (pairs m))%nat)) as CLR.
  { intros x. unfold n. rewrite <- (nat_Z_eqb x), <- (nat_Z_eqb a 0). reflexivity. }
  destruct (Nat.eqb_spec a (length (pairs m))) as [EA|NA]; cbv [negb]; cbv iota; [lia|].
  destruct (Nat.ltb_spec a (length (pairs m))) as [LT|GE]; [|lia].
  destruct (locate_some es a LT) as (k & i & LOC). fold es. rewrite LOC.
  assert (e_key_of (Z.of_nat a) = k) as KO by (unfold e_key_of; rewrite Nat2Z.id, LOC; reflexivity).
  pose proof (locate_key_nonneg _ _ _ LOC) as K0.
  pose proof (locate_offset es a k i ND LOC) as OFF.
  replace (Z.of_nat a + 1) with (Z.of_nat (S a)) by lia. rewrite (nat_Z_eqb (S a) b).
  assert (e_mm_make (e_remove_key k) 0 = e_remove_key k) as MK.
  { unfold e_mm_make, e_remove_key. destruct (Z.ltb_spec (- (2 * k) - 2) 0); [reflexivity|lia]. }
  destruct (Nat.eqb_spec (S a) b) as [EB|NB].
  - (* single element *)
    rewrite KO. unfold w_erase_at, e_key_count. change 1 with (Z.of_nat 1). rewrite nat_Z_eqb.
    destruct (Nat.eqb_spec (w_count m k) 1).
    + rewrite MK. apply decode_rk; auto.
    + apply decode_rv; auto.
  - rewrite KO. unfold e_mm_make at 1 2. destruct (Z.ltb_spec k 0); [lia|].
    assert ((Z.of_nat a =? offset es k + 0) = (i =? 0)%nat) as E1.
    { destruct (Z.eqb_spec (Z.of_nat a) (offset es k + 0)); destruct (Nat.eqb_spec i 0); auto; lia. }
    rewrite E1. destruct (Nat.eqb_spec i 0) as [I0|I0]; cbn [andb].
    + assert ((Z.of_nat b =? offset es k + e_key_count k) = (b =? a + w_count m k)%nat) as E2.
      { unfold e_key_count. destruct (Z.eqb_spec (Z.of_nat b) (offset es k + Z.of_nat (w_count m k)));
          destruct (Nat.eqb_spec b (a + w_count m k)); auto; lia. }
      rewrite E2. destruct (Nat.eqb_spec b (a + w_count m k)).
      * rewrite MK. apply decode_rk; auto.
      * rewrite (CLR b). destruct ((a =? 0)%nat && (b =? length (pairs m))%nat); [apply decode_clear|reflexivity].
    + rewrite (CLR b). destruct ((a =? 0)%nat && (b =? length (pairs m))%nat); [apply decode_clear|reflexivity].
Qed.
End EraseInterp.
