// instantiation TU for the C15 static pass (version table).  One class per clang run (-DINST_<CLASS>): the class is
// explicitly instantiated and every public member TEMPLATE that is an entry point is used once so that its body exists.
#include <vector>
#include <utility>
#if defined(INST_HASHSET)
#include "momo/HashSet.h"
#include "momo/TreeSet.h"
template class momo::HashSet<int>;
void use2(momo::HashSet<int>& s, momo::TreeSet<int>& d) { s.MergeTo(d); }
void use(momo::HashSet<int>& s, momo::HashSet<int>& d)
{
	std::vector<int> v;
	s.Insert(v.begin(), v.end());
	s.InsertVar(1, 1);
	s.AddVar(s.Find(1), 1);
	s.Remove([] (const int&) { return true; });
	s.ResetKey(s.Find(1), 1);
	s.MergeTo(d); s.MergeFrom(d);
}
#elif defined(INST_TREESET)
#include "momo/TreeSet.h"
#include "momo/HashSet.h"
template class momo::TreeSet<int>;
void use2(momo::TreeSet<int>& s, momo::HashSet<int>& d) { s.MergeTo(d); }
void use(momo::TreeSet<int>& s, momo::TreeSet<int>& d)
{
	std::vector<int> v;
	s.Insert(v.begin(), v.end());
	s.InsertVar(1, 1);
	s.AddVar(s.Find(1), 1);
	s.Remove([] (const int&) { return true; });
	s.ResetKey(s.Find(1), 1);
	s.MergeTo(d); s.MergeFrom(d);
}
#elif defined(INST_HASHMAP)
#include "momo/HashMap.h"
template class momo::HashMap<int, int>;
void use(momo::HashMap<int, int>& s, momo::HashMap<int, int>& d)
{
	std::vector<std::pair<int, int>> v;
	s.Insert(v.begin(), v.end());
	s.InsertVar(1, 1);
	s.AddVar(s.Find(1), 1, 1);
	s.Remove([] (const int&, const int&) { return true; });
	s.ResetKey(s.Find(1), 1);
	s.MergeTo(d); s.MergeFrom(d);
	s[1] = 2;
	int k = 1;
	auto vc = [] (int* p) { *p = 1; };
	s.InsertCrt(k, vc); s.InsertCrt(2, vc);
	s.AddCrt(s.Find(1), k, vc); s.AddCrt(s.Find(1), 2, vc);
	s.AddCrt(s.Find(1), [] (int* pk, int* pv) { *pk = 1; *pv = 1; });
	s.Insert({ std::pair<int, int>(1, 1) });
}
#elif defined(INST_TREEMAP)
#include "momo/TreeMap.h"
template class momo::TreeMap<int, int>;
void use(momo::TreeMap<int, int>& s, momo::TreeMap<int, int>& d)
{
	std::vector<std::pair<int, int>> v;
	s.Insert(v.begin(), v.end());
	s.InsertVar(1, 1);
	s.AddVar(s.Find(1), 1, 1);
	s.Remove([] (const int&, const int&) { return true; });
	s.ResetKey(s.Find(1), 1);
	s.MergeTo(d); s.MergeFrom(d);
	s[1] = 2;
	int k = 1;
	auto vc = [] (int* p) { *p = 1; };
	s.InsertCrt(k, vc); s.InsertCrt(2, vc);
	s.AddCrt(s.Find(1), k, vc); s.AddCrt(s.Find(1), 2, vc);
	s.AddCrt(s.Find(1), [] (int* pk, int* pv) { *pk = 1; *pv = 1; });
	s.Insert({ std::pair<int, int>(1, 1) });
}
#elif defined(INST_HASHMULTIMAP)
#include "momo/HashMultiMap.h"
template class momo::HashMultiMap<int, int>;
void use(momo::HashMultiMap<int, int>& s)
{
	std::vector<std::pair<int, int>> v;
	s.Add(v.begin(), v.end());
	s.AddVar(1, 1);
	s.AddVar(s.Find(1), 1);
	s.AddKeyCrt(s.Find(1), [] (int* p) { *p = 1; });
	s.Remove([] (const int&, const int&) { return true; });
	s.ResetKey(s.Find(1), 1);
	int k = 1;
	auto vc = [] (int* p) { *p = 1; };
	s.AddCrt(k, vc); s.AddCrt(2, vc);
	s.Add({ std::pair<int, int>(1, 1) });
}
#elif defined(INST_DATATABLE)
#include "momo/DataTable.h"
// implicit instantiation only (not every member of DataTable is valid for every column list): the members used below get bodies
static const momo::DataColumn<int> c1("c1");
static const momo::DataColumn<int> c2("c2");
typedef momo::DataColumnList<momo::DataColumnTraits<>, momo::MemManagerDefault, momo::DataItemTraits<momo::MemManagerDefault>, momo::DataSettings<true>> DCL;
typedef momo::DataTable<DCL> DT;
void use(DT& t, DT& o)
{
	t.AddUniqueHashIndex(c1); t.AddMultiHashIndex(c2); t.RemoveUniqueHashIndexes(); t.RemoveMultiHashIndexes();
	t.AddRow(c1 = 1, c2 = 2); t.TryAddRow(c1 = 1); t.InsertRow(0, c1 = 1); t.TryInsertRow(0, c1 = 1);
	t.Add(t.NewRow(c1 = 1)); t.TryAdd(t.NewRow()); t.Insert(0, t.NewRow()); t.TryInsert(0, t.NewRow());
	t.Update(size_t(0), t.NewRow()); t.TryUpdate(size_t(0), t.NewRow());
	t.Update(t[0], c1, 5); t.TryUpdate(t[0], c1, 5);
	{ const int five = 5; t.Update(t[0], c1, five); t.TryUpdate(t[0], c1, five); }
	auto s = t.Select(c1 == 1);
	s.Sort(c1); s.Group(c1); (void)s.GetLowerBound(c1 == 1); (void)s.GetUpperBound(c1 == 1);
	{ auto e = t.SelectEmpty(); e.Add(s.GetBegin(), s.GetEnd()); }
	t.Assign(s.GetBegin(), s.GetEnd()); t.Remove(s.GetBegin(), s.GetEnd());
	t.Remove([] (DT::ConstRowReference) { return true; });
	t.Remove(t[0]); t.Remove(size_t(0)); { auto r = t.Extract(t[0]); } { auto r = t.Extract(size_t(0)); }
	t.Clear(); t.Reserve(5); t.Swap(o); (void)t.GetMemManager();
	(void)t.NewRow(t[0]);
}
#endif
