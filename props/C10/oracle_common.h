// C10 oracle – fault enumeration over bulk operations of the real containers (independent of the Coq model).
// A scenario builds its containers afresh, runs ONE bulk operation with the k-th step of a kind
// (allocation / copy / functor) failing, for every k until the injection no longer fires, and evaluates the
// property predicates after success or failure.  Output per case: "OK points=<n>" or "BAD points=<n> <what>".
#pragma once
#include "c10_common.h"
namespace c10 {

struct Rnd
{
	uint64_t s; explicit Rnd(uint64_t seed) : s(seed * 0x9E3779B97F4A7C15ull + 12345) {}
	uint64_t next() { s += 0x9E3779B97F4A7C15ull; uint64_t z = s; z = (z ^ (z >> 30)) * 0xBF58476D1CE4E5B9ull; z = (z ^ (z >> 27)) * 0x94D049BB133111EBull; return z ^ (z >> 31); }
	int range(int a, int b) { return a + int(next() % uint64_t(b - a + 1)); }
	bool chance(int n, int d) { return int(next() % uint64_t(d)) < n; }
};

typedef std::map<int64_t, int> MSet;     // multiset of Value()
inline void add(MSet& m, int64_t v) { ++m[v]; }
inline bool subset(const MSet& a, const MSet& b) { for (auto& p : a) { auto it = b.find(p.first); if (it == b.end() || it->second < p.second) return false; } return true; }
inline MSet plus(MSet a, const MSet& b) { for (auto& p : b) a[p.first] += p.second; return a; }
inline std::string show(const MSet& m) { std::string s; int n = 0; for (auto& p : m) for (int i = 0; i < p.second; ++i) { if (n++ > 40) return s + "..."; s += std::to_string(p.first) + ","; } return s.empty() ? "-" : s; }
template<typename Cont> inline MSet values(const Cont& c) { MSet m; for (const auto& e : c) add(m, e.Value()); return m; }
template<typename Cont> inline MSet pair_values(const Cont& c) { MSet m; for (auto ref : c) add(m, ref.key.Value() * 100000 + ref.value.Value()); return m; }
inline std::string diffstr(const MSet& now, const MSet& init)
{
	std::string lost, extra;
	for (auto& p : init) { auto it = now.find(p.first); int c = it == now.end() ? 0 : it->second; for (int i = c; i < p.second; ++i) lost += std::to_string(p.first) + ","; }
	for (auto& p : now) { auto it = init.find(p.first); int c = it == init.end() ? 0 : it->second; for (int i = c; i < p.second; ++i) extra += std::to_string(p.first) + ","; }
	return "LOST={" + lost + "} DUPLICATED/EXTRA={" + extra + "}";
}
// Documented limitation of maps whose key AND value are both not nothrow-anyway-assignable (HashMap.h:351-354 item 5,
// MapUtility.h pvReplaceUnsafe): a failed removal / extraction may leave the removed pair with the replacing pair's
// value.  pairs are encoded key*100000+value.  true = `now` differs from `init` only in that way: same keys, every
// value is one of the initial values.
inline bool only_values_changed(const MSet& now, const MSet& init)
{
	MSet kn, ki; std::set<int64_t> vi;
	for (auto& p : now) kn[p.first / 100000] += p.second;
	for (auto& p : init) { ki[p.first / 100000] += p.second; vi.insert(p.first % 100000); }
	if (kn != ki) return false;
	for (auto& p : now) if (!vi.count(p.first % 100000)) return false;
	return true;
}
inline bool dup_keys(const MSet& m) { std::set<int64_t> ks; for (auto& p : m) { if (p.second > 1) return true; if (!ks.insert(keyof(p.first)).second) return true; } return false; }

struct Report
{
	long points = 0; long documented = 0; long pending = 0; std::string bad;
	std::map<std::string, long> events;      // measured structural events (growth, tree height, fast path, ...) for the evidence
	void ev(const std::string& name, long n = 1) { events[name] += n; }
	void fail(const std::string& s) { if (bad.size() < 600) bad += (bad.empty() ? "" : " | ") + s; }
	std::string str() const
	{
		std::string e; for (auto& p : events) e += (e.empty() ? "" : ",") + p.first + ":" + std::to_string(p.second);
		return (bad.empty() ? "OK points=" : "BAD points=") + std::to_string(points) + " documented=" + std::to_string(documented) + " pending=" + std::to_string(pending)
			+ " ev=" + (e.empty() ? "-" : e) + (bad.empty() ? "" : " " + bad);
	}
};

// measured shape of a container (private access): number of hash buckets over all generations / height of a tree; 0 if not applicable
template<typename S> inline auto bucket_count(const S& s, int) -> decltype((void)s.mBuckets, size_t()) { size_t n = 0; for (auto* b = s.mBuckets; b != nullptr; b = b->GetNextBuckets()) n += b->GetCount(); return n; }
template<typename S> inline size_t bucket_count(const S&, long) { return 0; }
template<typename S> inline auto tree_height(const S& s, int) -> decltype((void)s.mRootNode, size_t()) { size_t h = 0; for (auto* n = s.mRootNode; n != nullptr; n = n->IsLeaf() ? nullptr : n->GetChild(0)) ++h; return h; }
template<typename S> inline size_t tree_height(const S&, long) { return 0; }
// iteration order of a tree is the key order (strict for unique keys): the premise of the linear-merge theorems, which the Coq side
// proves to be an invariant of every step (C10_merge_linear_keeps_both_sorted); "" when fine or not a tree
template<typename S> inline auto tree_order_error(const S& s, bool multi, int) -> decltype((void)s.mRootNode, std::string())
{
	bool first = true; int64_t prev = 0;
	for (const auto& e : s)
	{
		int64_t k = keyof(e.Value());
		if (!first && (multi ? k < prev : k <= prev)) return "key " + std::to_string(k) + " follows key " + std::to_string(prev);
		prev = k; first = false;
	}
	return "";
}
template<typename S> inline std::string tree_order_error(const S&, bool, long) { return ""; }

struct Counters { uint64_t copy, copy_assign; };
inline Counters snap() { return Counters{ kit::W().n_copy, kit::W().n_copy_assign }; }

// body(kind, k, rep) must: build, arm via arm_kind(kind,k) right before the operation, run it inside try/catch,
// call `done(kind)` right after (returns whether the injection fired and disarms), check, and let everything destruct.
inline bool done(int kind) { bool f = fired(kind); kit::W().disarm(); return f; }

template<typename Body>
inline void enumerate_all(Report& rep, const char* what, Body body, bool with_func = true)
{
	for (int kind = 0; kind < 3; ++kind)
	{
		if (kind == K_FUNC && !with_func) continue;
		for (long k = 0; k < 3000; ++k)
		{
			bool f = false;
			try { f = body(kind, k); }
			catch (const std::exception& e) { rep.fail(std::string(what) + ": exception escaped the scenario: " + e.what()); kit::W().disarm(); }
			kit::W().disarm();
			std::string sum = kit::summary();
			if (sum != "0 0 0")
			{
				rep.fail(std::string(what) + " kind=" + std::to_string(kind) + " k=" + std::to_string(k) + ": after destruction live blocks/objects/errors = " + sum
					+ (kit::W().errors.empty() ? "" : " first error: " + kit::W().errors[0]));
				kit::W().errors.clear(); kit::W().blocks.clear(); kit::W().objs.clear();
			}
			if (!f) break;
			++rep.points;
			if (k == 2999) rep.fail(std::string(what) + ": too many failure points");
		}
	}
}

#define C10_CATCH_INJECTED(okvar) \
	catch (const std::bad_alloc&) { okvar = false; } /* momo rethrows bad_alloc by value (HashSet::pvAddGrow): the dynamic type is lost */ catch (const kit::InjectedCopy&) { okvar = false; } catch (const kit::InjectedFunc&) { okvar = false; }

} // namespace c10
