(* C07 / the GENERATED call sequences of DataIndexes (Gen_Protocol.v, interpreted by ProtoSem.v) are the hand model. *)
From Coq Require Import String List ZArith Bool Arith PeanoNat Lia.
From C07 Require Import TableSpec TableProofs MultiHash MultiHashProofs IndexModel IndexProofs AtomicProofs ProtoSyntax ProtoSem.
From C07 Require Gen_Protocol.
Import ListNotations.
Local Open Scope string_scope.

Lemma gu_phase_spec (f : uhash -> nat -> uhash * Z) (bad : Z -> bool) (applies : uhash -> bool) (fl : option nat)
      (body : uhash -> nat -> nat -> uhash * ctl * nat) :
  (forall u t step, body u t step =
     if negb (applies u) then (u, CCont, step)
     else if hits fl step then (u, CThrow, S step)
     else let '(u', r) := f u t in (u', (if bad r then CRefuse r else CGo), S step)) ->
  forall hs j step tag, gu_phase body hs j step tag = u_phase f bad applies fl hs j step tag.
Proof.
  intros Hb. induction hs as [|u hs IH]; intros j step tag; [reflexivity|].
  cbn [gu_phase u_phase]. rewrite Hb. destruct (negb (applies u)).
  - rewrite IH. reflexivity.
  - destruct (hits fl step); [reflexivity|]. destruct (f u (tag + j)) as [u' r]. destruct (bad r); [reflexivity|].
    rewrite IH. reflexivity.
Qed.

Lemma gm_phase_spec (f : mhash -> nat -> mhash) (applies : mhash -> bool) (fl : option nat)
      (body : mhash -> nat -> nat -> mhash * ctl * nat) :
  (forall m t step, body m t step =
     if negb (applies m) then (m, CCont, step)
     else if hits fl step then (m, CThrow, S step)
     else (f m t, CGo, S step)) ->
  forall ms j step tag, gm_phase body ms j step tag = m_phase f applies fl ms j step tag.
Proof.
  intros Hb. induction ms as [|m ms IH]; intros j step tag; [reflexivity|].
  cbn [gm_phase m_phase]. rewrite Hb. destruct (negb (applies m)).
  - rewrite IH. reflexivity.
  - destruct (hits fl step); [reflexivity|]. rewrite IH. reflexivity.
Qed.

Ltac norm := cbv -[u_add u_add_mixed u_prepare_remove u_reject_add u_reject_add_raw u_reject_remove u_accept_add u_accept_add_raw
                   u_accept_remove m_add m_add_mixed m_prepare_remove m_reject_add m_reject_remove m_accept_add m_accept_remove
                   hits has_col Z.eqb negb andb getc ucols mcols]; cbn [andb].

Ltac simp_maps :=
  repeat match goal with
  | |- context [simple_u ?a ?b ?c ?d ?hv ?body ?env] =>
      let g := eval cbv -[u_add u_add_mixed u_prepare_remove u_reject_add u_reject_add_raw u_reject_remove u_accept_add
                          u_accept_add_raw u_accept_remove hits has_col Z.eqb negb andb getc ucols mcols]
               in (fun u => simple_u a b c d hv body env u) in
      change (simple_u a b c d hv body env) with g
  | |- context [simple_m ?a ?b ?c ?d ?hv ?body ?env] =>
      let g := eval cbv -[m_add m_add_mixed m_prepare_remove m_reject_add m_reject_remove m_accept_add m_accept_remove
                          hits has_col Z.eqb negb andb getc ucols mcols]
               in (fun m => simple_m a b c d hv body env m) in
      change (simple_m a b c d hv body env) with g
  end.

Section Gen.
Variables (fixu fixm : bool) (ord : nat -> nat) (R : list Z -> list Z -> bool) (ct : Z -> row).

(* DataIndexes::AddRaw as it is in the source = IndexModel.add_raw *)
Theorem generated_AddRaw fl s raw :
  run_tree fixu fixm ord R ct Gen_Protocol.AddRaw (upd empty_env "raw" (IRaw raw)) fl s = Some (add_raw ord R ct fl s raw, false).
Proof.
  unfold run_tree. remember (parse_std Gen_Protocol.AddRaw) as pp eqn:E. vm_compute in E. subst pp.
  unfold run_std, add_raw. cbn [p_uv p_mv p_rejU p_rejM p_tryU p_tryM p_accU p_accM p_assign].
  rewrite (gu_phase_spec (fun u t => u_add ord R ct u raw None t) (fun r => negb (Z.eqb r raw)) (fun _ => true) fl).
  2:{ intros u t step. norm. destruct (hits fl step); [reflexivity|]. destruct (u_add ord R ct u raw None t) as [u' r].
      norm. destruct (Z.eqb r raw); reflexivity. }
  simp_maps.
  destruct (u_phase _ _ _ fl (uhs s) 0 0 (ntag s)) as [[us1 [o|]] st1]; [reflexivity|].
  rewrite (gm_phase_spec (fun m t => m_add ord R ct m raw t) (fun _ => true) fl).
  2:{ intros m t step. norm. destruct (hits fl step); reflexivity. }
  destruct (m_phase _ _ fl (mhs s) 0 st1 _) as [[ms1 [o|]] st2]; reflexivity.
Qed.

(* DataIndexes::UpdateRaw(oldRaw, newRaw) = IndexModel.update_raw *)
Theorem generated_UpdateRaw2 fl s old new :
  run_tree fixu fixm ord R ct Gen_Protocol.UpdateRaw2 (upd (upd empty_env "oldRaw" (IRaw old)) "newRaw" (IRaw new)) fl s
  = Some (update_raw fixu fixm ord R ct fl s old new, false).
Proof.
  unfold run_tree. remember (parse_std Gen_Protocol.UpdateRaw2) as pp eqn:E. vm_compute in E. subst pp.
  unfold run_std, update_raw. cbn [p_uv p_mv p_rejU p_rejM p_tryU p_tryM p_accU p_accM p_assign].
  rewrite (gu_phase_spec (fun u t => let '(u', r) := u_add ord R ct u new (Some old) t in
                                    (if Z.eqb r new then u_prepare_remove fixu R ct u' old else u', r))
                         (fun r => negb (Z.eqb r new) && negb (Z.eqb r old)) (fun _ => true) fl).
  2:{ intros u t step. norm. destruct (hits fl step); [reflexivity|]. destruct (u_add ord R ct u new (Some old) t) as [u' r].
      norm. destruct (Z.eqb r new); destruct (Z.eqb r old); reflexivity. }
  simp_maps.
  destruct (u_phase _ _ _ fl (uhs s) 0 0 (ntag s)) as [[us1 [o|]] st1]; [reflexivity|].
  rewrite (gm_phase_spec (fun m t => m_prepare_remove fixm R ct (m_add ord R ct m new t) old) (fun _ => true) fl).
  2:{ intros m t step. norm. destruct (hits fl step); reflexivity. }
  destruct (m_phase _ _ fl (mhs s) 0 st1 _) as [[ms1 [o|]] st2]; reflexivity.
Qed.

(* DataIndexes::UpdateRaw(raw, offset, item, assigner) = IndexModel.update_col (second component: the assigner ran) *)
Definition col_env (raw : Z) (c : nat) (v : Z) : ienv :=
  upd (upd (upd empty_env "raw" (IRaw raw)) "offset" (IOff c)) "hashMixedKey" (IMixed raw c v).
Definition col_std : list pstmt :=
  match Gen_Protocol.UpdateRawCol with _ :: lam :: _ :: rest => lam :: rest | _ => [] end.

Lemma col_unfold fl s raw c v :
  run_col_tree fixu fixm ord R ct Gen_Protocol.UpdateRawCol raw c v fl s =
  if Z.eqb v (getc (ct raw) c) then Some (s, Accepted, true)
  else run_tree fixu fixm ord R ct col_std (col_env raw c v) fl s.
Proof. reflexivity. Qed.

Theorem generated_UpdateRawCol fl s raw c v :
  run_col_tree fixu fixm ord R ct Gen_Protocol.UpdateRawCol raw c v fl s =
  Some (fst (update_col fixu fixm ord R ct fl s raw c v),
        match snd (fst (update_col fixu fixm ord R ct fl s raw c v)) with Accepted => true | _ => false end).
Proof.
  rewrite col_unfold. unfold update_col. destruct (Z.eqb v (getc (ct raw) c)); [reflexivity|].
  unfold run_tree. remember (parse_std col_std) as pp eqn:E. vm_compute in E. subst pp.
  unfold run_std. cbn [p_uv p_mv p_rejU p_rejM p_tryU p_tryM p_accU p_accM p_assign].
  rewrite (gu_phase_spec (fun u t => let '(u', r) := u_add_mixed ord R ct u raw c v t in
                                    (if Z.eqb r raw then u_prepare_remove fixu R ct u' raw else u', r))
                         (fun r => negb (Z.eqb r raw)) (fun u => has_col (ucols u) c) fl).
  2:{ intros u t step. norm. destruct (negb (has_col (ucols u) c)); [reflexivity|]. destruct (hits fl step); [reflexivity|].
      destruct (u_add_mixed ord R ct u raw c v t) as [u' r]. norm. destruct (Z.eqb r raw); reflexivity. }
  simp_maps.
  match goal with |- context [u_phase ?f ?b ?a fl (uhs s) 0 0 (ntag s)] =>
    pose proof (u_phase_not_accepted f b a fl (uhs s) 0 0 (ntag s)) as Hna;
    destruct (u_phase f b a fl (uhs s) 0 0 (ntag s)) as [[us1 [o|]] st1] end;
    [destruct o; try reflexivity; exfalso; apply Hna; reflexivity|]. clear Hna.
  rewrite (gm_phase_spec (fun m t => m_prepare_remove fixm R ct (m_add_mixed ord R ct m raw c v t) raw) (fun m => has_col (mcols m) c) fl).
  2:{ intros m t step. norm. destruct (negb (has_col (mcols m) c)); [reflexivity|]. destruct (hits fl step); reflexivity. }
  match goal with |- context [m_phase ?f ?a fl (mhs s) 0 st1 ?tg] =>
    pose proof (m_phase_verdict f a fl (mhs s) 0 st1 tg) as Hmv;
    destruct (m_phase f a fl (mhs s) 0 st1 tg) as [[ms1 [o|]] st2] end;
    [destruct Hmv as [Hmv|Hmv]; simpl in Hmv; [discriminate|]; injection Hmv as ->; reflexivity|]. clear Hmv.
  cbn [andb]. destruct (hits fl st2); reflexivity.
Qed.

(* DataIndexes::RemoveRaw = IndexModel.remove_raw *)
Theorem generated_RemoveRaw fl s raw :
  run_remove_tree fixu fixm ord R ct Gen_Protocol.RemoveRaw (upd empty_env "raw" (IRaw raw)) fl s
  = Some (remove_raw fixu fixm R ct fl s raw).
Proof.
  unfold run_remove_tree, Gen_Protocol.RemoveRaw, remove_raw.
  cbn [String.eqb Ascii.eqb Bool.eqb andb]. simp_maps. destruct fl; reflexivity.
Qed.

(* "on refusal or exception every index is as before", stated for the call sequences that are in DataIndexes.h today:
   whatever the generated AddRaw / UpdateRaw trees compute when they do not accept, the index state is rolled back
   (unique hashes identical, multi hashes equal up to the order inside the unsorted tail) and the assigner did not run *)
Theorem generated_sequences_atomic fl s :
  wf s ->
  (forall raw s' o b, Forall (row_absent_m raw) (mhs s) ->
     run_tree fixu fixm ord R ct Gen_Protocol.AddRaw (upd empty_env "raw" (IRaw raw)) fl s = Some (s', o, b) ->
     o <> Accepted -> rolled_back s s' /\ b = false) /\
  (forall old new s' o b, Forall (row_absent_u new) (uhs s) -> Forall (row_absent_m new) (mhs s) ->
     run_tree fixu fixm ord R ct Gen_Protocol.UpdateRaw2 (upd (upd empty_env "oldRaw" (IRaw old)) "newRaw" (IRaw new)) fl s
       = Some (s', o, b) ->
     o <> Accepted -> rolled_back s s' /\ b = false) /\
  (forall raw c v s' o b,
     run_col_tree fixu fixm ord R ct Gen_Protocol.UpdateRawCol raw c v fl s = Some (s', o, b) ->
     o <> Accepted -> rolled_back s s' /\ b = false).
Proof.
  intros Hwf. split; [|split].
  - intros raw s' o b Ha E Ho. rewrite generated_AddRaw in E. injection E as E <-.
    pose proof (two_phase_atomic_add ord R ct fl s raw Hwf Ha) as H. rewrite E in H.
    destruct H as [[H _]|[_ H]]; [contradiction|]. split; [exact H|reflexivity].
  - intros old new s' o b Hu Hm E Ho. rewrite generated_UpdateRaw2 in E. injection E as E <-.
    pose proof (two_phase_atomic_update fixu fixm ord R ct fl s old new Hwf Hu Hm) as H. rewrite E in H.
    destruct H as [[H _]|[_ H]]; [contradiction|]. split; [exact H|reflexivity].
  - intros raw c v s' o b E Ho. rewrite generated_UpdateRawCol in E.
    pose proof (two_phase_atomic_update_column fixu fixm ord R ct fl s raw c v Hwf) as H.
    destruct (update_col fixu fixm ord R ct fl s raw c v) as [[s1 o1] ct1]. cbn [fst snd] in E. injection E as <- <- <-.
    destruct H as [[H _]|[_ [H _]]]; [contradiction|]. split; [exact H|]. destruct o1; try reflexivity. contradiction.
Qed.
End Gen.
