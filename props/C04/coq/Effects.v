(* C04 -- the L2 "resource machine": an error+state monad over object cells, heap blocks, registers
   (C++ locals / data members that are mutated in place) and a failure schedule.

   cell    : Raw (no object) | Live v (constructed object holding v) | Moved v (alive, moved-from)
   heap    : mem (cell of every location = (block, index)), live blocks with their sizes, registers
   st      : heap + failure schedule (list bool, consumed left to right at every FALLIBLE primitive:
             allocation, copy construction, throwing move, user functor) + event trace
   outcome : Ok a | Exn (a C++ exception is propagating) | Stuck (a primitive was applied in the wrong
             cell state = undefined behaviour: construct over a live object, destroy/read of a raw one,
             access outside a live block, deallocation of a block that still holds objects)

   Nothing here knows about "strong guarantee": primitives are single steps; mechanisms are written in
   ObjMgr.v / KeyValue.v / ArrayData.v / Tree.v statement by statement and the guarantee is PROVED. *)
From Coq Require Import List Arith Lia Bool PeanoNat.
Import ListNotations.

Definition loc := (nat * nat)%type.
Definition loc_eqb (a b : loc) : bool := (fst a =? fst b) && (snd a =? snd b).

Lemma loc_eqb_eq : forall a b, loc_eqb a b = true <-> a = b.
Proof.
  intros [a1 a2] [b1 b2]; unfold loc_eqb; simpl. rewrite andb_true_iff, !Nat.eqb_eq.
  split; [intros [-> ->]; reflexivity | intros H; inversion H; auto].
Qed.
Lemma loc_eqb_refl : forall a, loc_eqb a a = true.
Proof. intros; apply loc_eqb_eq; reflexivity. Qed.
Lemma loc_eqb_neq : forall a b, a <> b -> loc_eqb a b = false.
Proof. intros a b H; destruct (loc_eqb a b) eqn:E; auto. apply loc_eqb_eq in E; contradiction. Qed.
Lemma loc_eq_dec : forall a b : loc, {a = b} + {a <> b}.
Proof. decide equality; apply Nat.eq_dec. Qed.

Inductive cell := Raw | Live (v : nat) | Moved (v : nat).
Inductive cat := NTM | CPY | THM.   (* nothrow-move | copy-only (moving copies, may throw) | throwing move *)

Inductive ev :=
| EvA (b n : nat)          (* allocation of block b with n cells *)
| EvD (b : nat)            (* deallocation *)
| EvC (s d : loc)          (* copy construction d <- s *)
| EvM (s d : loc)          (* move construction d <- s *)
| EvX (l : loc)            (* destruction *)
| EvF.                     (* injected failure *)

Record heap := mkH { mem : loc -> cell; alive : nat -> bool; bsize : nat -> nat; next : nat; regs : nat -> nat }.
Record st := mkS { hp : heap; sched : list bool; trace : list ev }.

Inductive res (A : Type) := Ok (a : A) | Exn | Stuck.
Arguments Ok {A} a. Arguments Exn {A}. Arguments Stuck {A}.
Definition M (A : Type) := st -> res A * st.

Definition ret {A} (a : A) : M A := fun s => (Ok a, s).
Definition bind {A B} (m : M A) (k : A -> M B) : M B :=
  fun s => match m s with (Ok a, s') => k a s' | (Exn, s') => (Exn, s') | (Stuck, s') => (Stuck, s') end.
Definition throw {A} : M A := fun s => (Exn, s).
Definition stuck {A} : M A := fun s => (Stuck, s).
(* try { m } catch (...) { h }   -- h normally ends in `throw` *)
Definition try_catch {A} (m : M A) (h : M A) : M A :=
  fun s => match m s with (Exn, s') => h s' | r => r end.

Notation "x <- m ;; k" := (bind m (fun x => k)) (at level 61, m at next level, right associativity).
Notation "m ;; k" := (bind m (fun _ => k)) (at level 61, right associativity).

Definition updm (m : loc -> cell) (l : loc) (c : cell) : loc -> cell := fun l' => if loc_eqb l' l then c else m l'.
Definition updn {A} (r : nat -> A) (k : nat) (v : A) : nat -> A := fun k' => if k' =? k then v else r k'.

Definition hset (h : heap) (l : loc) (c : cell) := mkH (updm (mem h) l c) (alive h) (bsize h) (next h) (regs h).
Definition hsetr (h : heap) (r v : nat) := mkH (mem h) (alive h) (bsize h) (next h) (updn (regs h) r v).

Definition valid (h : heap) (l : loc) : bool := alive h (fst l) && (snd l <? bsize h (fst l)).

(* ---- primitives ---------------------------------------------------------------------------------- *)
Definition getc (l : loc) : M cell := fun s => if valid (hp s) l then (Ok (mem (hp s) l), s) else (Stuck, s).
Definition putc (l : loc) (c : cell) : M unit :=
  fun s => if valid (hp s) l then (Ok tt, mkS (hset (hp s) l c) (sched s) (trace s)) else (Stuck, s).
Definition emit (e : ev) : M unit := fun s => (Ok tt, mkS (hp s) (sched s) (e :: trace s)).
Definition getr (r : nat) : M nat := fun s => (Ok (regs (hp s) r), s).
Definition setr (r v : nat) : M unit := fun s => (Ok tt, mkS (hsetr (hp s) r v) (sched s) (trace s)).
(* a fallible step: consult the schedule (true = this step throws); an exhausted schedule never fails *)
Definition fallible : M unit :=
  fun s => match sched s with
           | true :: r => (Exn, mkS (hp s) r (EvF :: trace s))
           | false :: r => (Ok tt, mkS (hp s) r (trace s))
           | [] => (Ok tt, s)
           end.

Definition copy_construct (sl dl : loc) : M unit :=
  c <- getc sl ;; d <- getc dl ;;
  match c, d with
  | Live v, Raw => fallible ;; putc dl (Live v) ;; emit (EvC sl dl)
  | _, _ => stuck
  end.

Definition move_construct (c : cat) (sl dl : loc) : M unit :=
  match c with
  | CPY => copy_construct sl dl
  | _ =>
    x <- getc sl ;; d <- getc dl ;;
    match x, d with
    | Live v, Raw =>
      (match c with THM => fallible | _ => ret tt end) ;;
      putc dl (Live v) ;; putc sl (Moved v) ;; emit (EvM sl dl)
    | _, _ => stuck
    end
  end.

Definition destroy (l : loc) : M unit :=
  c <- getc l ;;
  match c with Raw => stuck | _ => putc l Raw ;; emit (EvX l) end.

(* ObjectRelocator::Relocate (non-trivial objects): move-construct, then destroy the source *)
Definition relocate1 (c : cat) (sl dl : loc) : M unit := move_construct c sl dl ;; destroy sl.

Definition is_raw (c : cell) : bool := match c with Raw => true | _ => false end.
Definition all_raw (h : heap) (b : nat) : bool := forallb (fun i => is_raw (mem h (b, i))) (seq 0 (bsize h b)).

Definition alloc (n : nat) : M nat :=
  fallible ;;
  fun s => let h := hp s in let b := next h in
    (Ok b, mkS (mkH (fun l => if fst l =? b then Raw else mem h l) (updn (alive h) b true) (updn (bsize h) b n)
                    (S b) (regs h)) (sched s) (EvA b n :: trace s)).

Definition dealloc (b : nat) : M unit :=
  fun s => let h := hp s in
    if alive h b && all_raw h b
    then (Ok tt, mkS (mkH (mem h) (updn (alive h) b false) (bsize h) (next h) (regs h)) (sched s) (EvD b :: trace s))
    else (Stuck, s).

(* ---- outcome specifications ("weakest precondition" style) ---------------------------------------- *)
(* wp m s Q E: running m from s is never Stuck, a normal result satisfies Q, an exceptional exit satisfies E *)
Definition wp {A} (m : M A) (s : st) (Q : A -> st -> Prop) (E : st -> Prop) : Prop :=
  match m s with (Ok a, s') => Q a s' | (Exn, s') => E s' | (Stuck, _) => False end.

Lemma wp_ret : forall A (a : A) s (Q : A -> st -> Prop) (E : st -> Prop), Q a s -> wp (ret a) s Q E.
Proof. intros; exact H. Qed.
Lemma wp_throw : forall A s (Q : A -> st -> Prop) (E : st -> Prop), E s -> wp (@throw A) s Q E.
Proof. intros; exact H. Qed.
Lemma wp_bind : forall A B (m : M A) (k : A -> M B) s (Q : B -> st -> Prop) (E : st -> Prop),
  wp m s (fun a s' => wp (k a) s' Q E) E -> wp (bind m k) s Q E.
Proof. unfold wp, bind; intros. destruct (m s) as [[a| |] s']; auto. Qed.
Lemma wp_try : forall A (m h : M A) s (Q : A -> st -> Prop) (E : st -> Prop),
  wp m s Q (fun s' => wp h s' Q E) -> wp (try_catch m h) s Q E.
Proof. unfold wp, try_catch; intros. destruct (m s) as [[a| |] s']; auto. Qed.
Lemma wp_mono : forall A (m : M A) s (Q Q' : A -> st -> Prop) (E E' : st -> Prop),
  wp m s Q E -> (forall a s', Q a s' -> Q' a s') -> (forall s', E s' -> E' s') -> wp m s Q' E'.
Proof. unfold wp; intros. destruct (m s) as [[a| |] s']; auto. Qed.

(* pointwise equality of heaps (chains of updates never need functional extensionality) *)
Record heq (h h' : heap) : Prop := mkHeq
  { hq_mem : forall l, mem h' l = mem h l; hq_alive : forall b, alive h' b = alive h b;
    hq_bsize : forall b, bsize h' b = bsize h b; hq_next : next h' = next h;
    hq_regs : forall r, regs h' r = regs h r }.
Lemma heq_refl : forall h, heq h h.
Proof. intros; split; reflexivity. Qed.
Lemma heq_of_eq : forall h h', h' = h -> heq h h'.
Proof. intros; subst; apply heq_refl. Qed.
Lemma heq_sym : forall a b, heq a b -> heq b a.
Proof. intros a b []; split; intros; symmetry; auto. Qed.
Lemma heq_trans : forall a b c, heq a b -> heq b c -> heq a c.
Proof. intros a b c [] []; split; intros; etransitivity; eauto. Qed.
Lemma heq_valid : forall a b l, heq a b -> valid b l = valid a l.
Proof. intros a b l []; unfold valid. rewrite hq_alive0, hq_bsize0. reflexivity. Qed.
Lemma heq_hset : forall a b l c, heq a b -> heq (hset a l c) (hset b l c).
Proof. intros a b l c []; split; simpl; auto. intros l'; unfold updm. destruct (loc_eqb l' l); auto. Qed.
Lemma heq_hsetr : forall a b r v, heq a b -> heq (hsetr a r v) (hsetr b r v).
Proof. intros a b r v []; split; simpl; auto. intros r'; unfold updn. destruct (r' =? r); auto. Qed.
#[export] Hint Resolve heq_refl : core.

Lemma valid_hset : forall h l c l', valid (hset h l c) l' = valid h l'.
Proof. reflexivity. Qed.
Lemma valid_hsetr : forall h r v l', valid (hsetr h r v) l' = valid h l'.
Proof. reflexivity. Qed.
Lemma mem_hset_same : forall h l c, mem (hset h l c) l = c.
Proof. intros; simpl; unfold updm. rewrite loc_eqb_refl. reflexivity. Qed.
Lemma mem_hset_other : forall h l c l', l' <> l -> mem (hset h l c) l' = mem h l'.
Proof. intros; simpl; unfold updm. rewrite loc_eqb_neq; auto. Qed.
Lemma mem_hsetr : forall h r v l, mem (hsetr h r v) l = mem h l.
Proof. reflexivity. Qed.
Lemma regs_hset : forall h l c r, regs (hset h l c) r = regs h r.
Proof. reflexivity. Qed.
Lemma regs_hsetr_same : forall h r v, regs (hsetr h r v) r = v.
Proof. intros; simpl; unfold updn. rewrite Nat.eqb_refl. reflexivity. Qed.
Lemma regs_hsetr_other : forall h r v r', r' <> r -> regs (hsetr h r v) r' = regs h r'.
Proof. intros; simpl; unfold updn. destruct (r' =? r) eqn:E; auto. apply Nat.eqb_eq in E; contradiction. Qed.

(* rules for the primitives; the continuation learns the new heap up to pointwise equality *)
Lemma wp_getc : forall l s (Q : cell -> st -> Prop) (E : st -> Prop), valid (hp s) l = true -> Q (mem (hp s) l) s -> wp (getc l) s Q E.
Proof. unfold wp, getc; intros. rewrite H. exact H0. Qed.
Lemma wp_putc : forall l c s (Q : unit -> st -> Prop) (E : st -> Prop), valid (hp s) l = true ->
  (forall s', heq (hset (hp s) l c) (hp s') -> Q tt s') -> wp (putc l c) s Q E.
Proof. unfold wp, putc; intros. rewrite H. apply H0. simpl; auto. Qed.
Lemma wp_emit : forall e s (Q : unit -> st -> Prop) (E : st -> Prop), (forall s', heq (hp s) (hp s') -> Q tt s') -> wp (emit e) s Q E.
Proof. unfold wp, emit; intros. apply H. simpl; auto. Qed.
Lemma wp_getr : forall r s (Q : nat -> st -> Prop) (E : st -> Prop), Q (regs (hp s) r) s -> wp (getr r) s Q E.
Proof. intros; exact H. Qed.
Lemma wp_setr : forall r v s (Q : unit -> st -> Prop) (E : st -> Prop),
  (forall s', heq (hsetr (hp s) r v) (hp s') -> Q tt s') -> wp (setr r v) s Q E.
Proof. unfold wp, setr; intros. apply H. simpl; auto. Qed.
Lemma wp_fallible : forall s (Q : unit -> st -> Prop) (E : st -> Prop),
  (forall s', heq (hp s) (hp s') -> E s') -> (forall s', heq (hp s) (hp s') -> Q tt s') -> wp fallible s Q E.
Proof.
  unfold wp, fallible; intros. destruct (sched s) as [|[|] r].
  - apply H0; auto. - apply H; simpl; auto. - apply H0; simpl; auto.
Qed.
Lemma wp_stuck_absurd : forall A s (Q : A -> st -> Prop) (E : st -> Prop), False -> wp (@stuck A) s Q E.
Proof. intros; contradiction. Qed.

(* copy construction: either fails with the heap untouched, or dl := Live v *)
Lemma wp_copy_construct : forall sl dl v s (Q : unit -> st -> Prop) (E : st -> Prop),
  valid (hp s) sl = true -> valid (hp s) dl = true ->
  mem (hp s) sl = Live v -> mem (hp s) dl = Raw ->
  (forall s', heq (hp s) (hp s') -> E s') ->
  (forall s', heq (hset (hp s) dl (Live v)) (hp s') -> Q tt s') ->
  wp (copy_construct sl dl) s Q E.
Proof.
  intros. unfold copy_construct.
  apply wp_bind, wp_getc; auto. apply wp_bind, wp_getc; auto. rewrite H1, H2.
  apply wp_bind, wp_fallible; auto. intros s1 H5.
  apply wp_bind, wp_putc. { rewrite (heq_valid _ _ _ H5); auto. } intros s2 H6.
  apply wp_emit. intros s3 H7. apply H4.
  eapply heq_trans; [|exact H7]. eapply heq_trans; [|exact H6]. apply heq_hset; auto.
Qed.

Definition src_after (c : cat) (v : nat) : cell := match c with CPY => Live v | _ => Moved v end.

Lemma wp_move_construct : forall c sl dl v s (Q : unit -> st -> Prop) (E : st -> Prop),
  valid (hp s) sl = true -> valid (hp s) dl = true -> sl <> dl ->
  mem (hp s) sl = Live v -> mem (hp s) dl = Raw ->
  (c <> NTM -> forall s', heq (hp s) (hp s') -> E s') ->
  (forall s', heq (hset (hset (hp s) dl (Live v)) sl (src_after c v)) (hp s') -> Q tt s') ->
  wp (move_construct c sl dl) s Q E.
Proof.
  intros c sl dl v s Q E Hvs Hvd Hne Hs Hd HE HQ.
  destruct c.
  - (* NTM *) unfold move_construct.
    apply wp_bind, wp_getc; auto. apply wp_bind, wp_getc; auto. rewrite Hs, Hd.
    apply wp_bind, wp_ret.
    apply wp_bind, wp_putc; auto. intros s2 H2.
    apply wp_bind, wp_putc. { rewrite (heq_valid _ _ _ H2), valid_hset; auto. } intros s3 H3.
    apply wp_emit. intros s4 H4. apply HQ.
    eapply heq_trans; [|exact H4]. eapply heq_trans; [|exact H3]. apply heq_hset; auto.
  - (* CPY *) unfold move_construct. eapply wp_copy_construct; eauto.
    + apply HE; discriminate.
    + intros s' H'. apply HQ. eapply heq_trans; [|exact H'].
      split; simpl; auto. intros l; unfold updm.
      destruct (loc_eqb l sl) eqn:E1; auto. apply loc_eqb_eq in E1; subst l.
      rewrite loc_eqb_neq; auto.
  - (* THM *) unfold move_construct.
    apply wp_bind, wp_getc; auto. apply wp_bind, wp_getc; auto. rewrite Hs, Hd.
    apply wp_bind, wp_fallible. { apply HE; discriminate. } intros s1 H1.
    apply wp_bind, wp_putc. { rewrite (heq_valid _ _ _ H1); auto. } intros s2 H2.
    apply wp_bind, wp_putc. { rewrite (heq_valid _ _ _ H2), valid_hset, (heq_valid _ _ _ H1); auto. } intros s3 H3.
    apply wp_emit. intros s4 H4. apply HQ.
    eapply heq_trans; [|exact H4]. eapply heq_trans; [|exact H3]. apply heq_hset.
    eapply heq_trans; [|exact H2]. apply heq_hset; auto.
Qed.

Lemma wp_destroy : forall l s (Q : unit -> st -> Prop) (E : st -> Prop),
  valid (hp s) l = true -> mem (hp s) l <> Raw ->
  (forall s', heq (hset (hp s) l Raw) (hp s') -> Q tt s') ->
  wp (destroy l) s Q E.
Proof.
  intros. unfold destroy. apply wp_bind, wp_getc; auto.
  destruct (mem (hp s) l) eqn:Em; try contradiction.
  - apply wp_bind, wp_putc; auto. intros s2 H2. apply wp_emit. intros s3 H3. apply H1. eapply heq_trans; eauto.
  - apply wp_bind, wp_putc; auto. intros s2 H2. apply wp_emit. intros s3 H3. apply H1. eapply heq_trans; eauto.
Qed.

(* relocation of one object: all-or-nothing *)
Lemma wp_relocate1 : forall c sl dl v s (Q : unit -> st -> Prop) (E : st -> Prop),
  valid (hp s) sl = true -> valid (hp s) dl = true -> sl <> dl ->
  mem (hp s) sl = Live v -> mem (hp s) dl = Raw ->
  (c <> NTM -> forall s', heq (hp s) (hp s') -> E s') ->
  (forall s', heq (hset (hset (hp s) dl (Live v)) sl Raw) (hp s') -> Q tt s') ->
  wp (relocate1 c sl dl) s Q E.
Proof.
  intros c sl dl v s Q E Hvs Hvd Hne Hs Hd HE HQ. unfold relocate1.
  apply wp_bind. eapply wp_move_construct; eauto. intros s1 H1.
  apply wp_destroy.
  - rewrite (heq_valid _ _ _ H1); auto.
  - rewrite (hq_mem _ _ H1), mem_hset_same. destruct c; discriminate.
  - intros s2 H2. apply HQ. eapply heq_trans; [|exact H2].
    eapply heq_trans; [|apply heq_hset; exact H1].
    split; simpl; auto. intros l; unfold updm. destruct (loc_eqb l sl); auto.
Qed.

(* allocation / deallocation *)
Definition halloc (h : heap) (n : nat) : heap :=
  mkH (fun l => if fst l =? next h then Raw else mem h l) (updn (alive h) (next h) true) (updn (bsize h) (next h) n)
      (S (next h)) (regs h).
Definition hfree (h : heap) (b : nat) : heap := mkH (mem h) (updn (alive h) b false) (bsize h) (next h) (regs h).

Lemma heq_halloc : forall a b n, heq a b -> heq (halloc a n) (halloc b n).
Proof.
  intros a b n []; split; simpl; auto; intros; rewrite ?hq_next0; unfold updn;
    try (destruct (_ =? _); auto).
Qed.
Lemma heq_hfree : forall a b x, heq a b -> heq (hfree a x) (hfree b x).
Proof. intros a b x []; split; simpl; auto. intros; unfold updn. destruct (_ =? _); auto. Qed.

Lemma wp_alloc : forall n s (Q : nat -> st -> Prop) (E : st -> Prop),
  (forall s', heq (hp s) (hp s') -> E s') ->
  (forall s', heq (halloc (hp s) n) (hp s') -> Q (next (hp s)) s') ->
  wp (alloc n) s Q E.
Proof.
  intros. unfold alloc. apply wp_bind, wp_fallible; auto. intros s1 H1.
  assert (G : forall s', heq (halloc (hp s) n) (hp s') -> Q (next (hp s1)) s') by (rewrite (hq_next _ _ H1); exact H0).
  unfold wp; simpl. apply G. simpl. exact (heq_halloc _ _ n H1).
Qed.

Lemma all_raw_intro : forall h b, (forall i, i < bsize h b -> mem h (b, i) = Raw) -> all_raw h b = true.
Proof.
  intros. unfold all_raw. apply forallb_forall. intros i Hi. apply in_seq in Hi. rewrite H; auto. lia.
Qed.

Lemma wp_dealloc : forall b s (Q : unit -> st -> Prop) (E : st -> Prop),
  alive (hp s) b = true -> (forall i, i < bsize (hp s) b -> mem (hp s) (b, i) = Raw) ->
  (forall s', heq (hfree (hp s) b) (hp s') -> Q tt s') ->
  wp (dealloc b) s Q E.
Proof.
  intros. unfold wp, dealloc. rewrite H, all_raw_intro; auto. simpl. apply H1. simpl. apply heq_refl.
Qed.

(* the explicit reading of wp, used to state the final theorems in the customary form *)
Lemma wp_elim_exn : forall A (m : M A) s (Q : A -> st -> Prop) (E : st -> Prop) s', wp m s Q E -> m s = (Exn, s') -> E s'.
Proof. unfold wp; intros. rewrite H0 in H. exact H. Qed.
Lemma wp_elim_ok : forall A (m : M A) s (Q : A -> st -> Prop) (E : st -> Prop) a s', wp m s Q E -> m s = (Ok a, s') -> Q a s'.
Proof. unfold wp; intros. rewrite H0 in H. exact H. Qed.
Lemma wp_elim_stuck : forall A (m : M A) s (Q : A -> st -> Prop) (E : st -> Prop) s', wp m s Q E -> m s <> (Stuck, s').
Proof. unfold wp; intros. intro H0. rewrite H0 in H. exact H. Qed.
