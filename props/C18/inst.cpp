// instantiation TU for cxx2coq (C18): vertex derivation of the CHM perfect hash + Ceil
#include "momo/DataColumn.h"
namespace momo {
template class DataColumnTraits<DataStructDefault<>, 8>;
template class DataColumnTraits<DataStructDefault<>, 5>;
namespace internal { template class UIntMath<size_t>; }
}
