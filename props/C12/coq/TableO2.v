(* C12, L1 model of the relocation glue over the GENERATED leaves (hand-written; tied by running it against the real
   HashSet: `tbl` cases).  HashSet.h:
     pvAddNogrow (1115-1144): start = GetStartBucketIndex(code, 2^L); probe loop while IsFull; AddCrt(code, L, probe);
                              startBucket.UpdateMaxProbe(probe)
     pvRelocateItems (1268-1300): for every bucket i, for every element from the lowest occupied slot:
                              code = GetHashCodePart(fullGetter, iter, i, oldL, newL); Remove(iter, replacer = pvAddNogrow(new, code)) *)
From Coq Require Import ZArith Bool List Lia.
From MomoCommon Require Import GenPrelude.
From C12 Require Import Gen_Base Gen_O2 Gen_O2MP.
Import ListNotations.
Local Open Scope Z_scope.

(* one BucketOpen2N2<.,3,true>: mState, mHashData.shortHashes, mHashData.hashProbes, and the key stored in each slot *)
Record bucket := mkB { bst : Z -> Z; bsh : Z -> Z; bhp : Z -> Z; bky : Z -> Z }.
Definition table := Z -> bucket.
Definition tupd (t : table) (i : Z) (b : bucket) : table := fun j => if Z.eqb j i then b else t j.

(* BucketOpen2N2() = pvSetEmpty (GENERATED) on zeroed storage; hashProbes are not initialised by the code: 255 is a placeholder *)
Definition empty_bucket : bucket :=
  let '(st, sh) := Gen_O2.pvSetEmpty (fun _ => 0) (fun _ => 0) (fun _ => 255) in mkB st sh (fun _ => 255) (fun _ => 0).
Definition empty_table : table := fun _ => empty_bucket.

Definition cnt (b : bucket) : Z := Gen_O2.pvGetCount (bst b) (bsh b) (bhp b).

(* the probe loop of pvAddNogrow *)
Fixpoint probe_loop (fuel : nat) (t : table) (bc idx probe : Z) {struct fuel} : outcome (Z * Z) :=
  match fuel with
  | O => Fuel
  | S f =>
    if Gen_O2.IsFull (bst (t idx)) (bsh (t idx)) (bhp (t idx)) then
      let probe := wrapU 64 (probe + 1) in
      if probe >=? bc then Exn      (* throw std::runtime_error("Hash table is full") *)
      else probe_loop f t bc (Gen_O2.GetNextBucketIndex idx bc probe) probe
    else Ok (idx, probe)
  end.

Definition add_nogrow (t : table) (L code key : Z) : outcome table :=
  let bc := wrapU 64 (Z.shiftl 1 L) in
  let start := Gen_Base.GetStartBucketIndex code bc in
  match probe_loop (S (Z.to_nat bc)) t bc start 0 with
  | Ok (idx, probe) =>
    let b := t idx in
    match Gen_O2.AddCrt (bst b) (bsh b) (bhp b) code L probe 0 with
    | Ok (_, st', sh', hp') =>
      let t1 := tupd t idx (mkB st' sh' hp' (upd (bky b) (2 - cnt b) key)) in
      let sb := t1 start in
      match Gen_O2MP.UpdateMaxProbe (bst sb) probe with
      | Ok (_, st'') => Ok (tupd t1 start (mkB st'' (bsh sb) (bhp sb) (bky sb)))
      | Stuck => Stuck | Fuel => Fuel | Exn => Exn
      end
    | Stuck => Stuck | Fuel => Fuel | Exn => Exn
    end
  | Stuck => Stuck | Fuel => Fuel | Exn => Exn
  end.

Section Reloc.
Variable hash : Z -> Z.      (* the full hash of a key = what hashCodeFullGetter() returns for the element *)

(* one iteration of the inner loop of pvRelocateItems on bucket i of the old table *)
Definition relocate_item (told tnew : table) (L newL i : Z) : outcome (table * table) :=
  let b := told i in
  let slot := 3 - cnt b in
  let key := bky b slot in
  match Gen_O2.GetHashCodePart (bst b) (bsh b) (bhp b) (hash key) i L newL slot with
  | Ok code =>
    match add_nogrow tnew newL code key with
    | Ok tnew' =>
      match Gen_O2.Remove (bst b) (bsh b) (bhp b) slot with
      | Ok (_, st', sh', hp') => Ok (tupd told i (mkB st' sh' hp' (bky b)), tnew')
      | Stuck => Stuck | Fuel => Fuel | Exn => Exn
      end
    | Stuck => Stuck | Fuel => Fuel | Exn => Exn
    end
  | Stuck => Stuck | Fuel => Fuel | Exn => Exn
  end.

Fixpoint migrate_bucket (fuel : nat) (told tnew : table) (L newL i : Z) {struct fuel} : outcome (table * table) :=
  match fuel with
  | O => Fuel
  | S f =>
    if cnt (told i) =? 0 then Ok (told, tnew)
    else match relocate_item told tnew L newL i with
         | Ok (told', tnew') => migrate_bucket f told' tnew' L newL i
         | Stuck => Stuck | Fuel => Fuel | Exn => Exn
         end
  end.

Fixpoint migrate_from (n : nat) (told tnew : table) (L newL i : Z) {struct n} : outcome (table * table) :=
  match n with
  | O => Ok (told, tnew)
  | S m => match migrate_bucket 4 told tnew L newL i with
           | Ok (told', tnew') => migrate_from m told' tnew' L newL (i + 1)
           | Stuck => Stuck | Fuel => Fuel | Exn => Exn
           end
  end.

(* pvRelocateItems(buckets) into a fresh table of 2^newL buckets *)
Definition migrate (told : table) (L newL : Z) : outcome (table * table) :=
  migrate_from (Z.to_nat (2 ^ L)) told empty_table L newL 0.

(* insertion of a list of keys by their full hash (HashSet::Insert without growth) *)
Fixpoint insert_all (t : table) (L : Z) (keys : list Z) : outcome table :=
  match keys with
  | [] => Ok t
  | k :: r => match add_nogrow t L (hash k) k with Ok t' => insert_all t' L r | Stuck => Stuck | Fuel => Fuel | Exn => Exn end
  end.

(* ---- round 3: full-getter call count, a throwing full getter (chained generations), removal at table level ---- *)

(* was hashCodeFullGetter() called?  Decided on the GENERATED GetHashCodePart itself: the answer depends on the getter's
   value iff the getter is used (proved: getter_used_spec) *)
Definition getter_used (b : bucket) (i L newL slot : Z) : bool :=
  match Gen_O2.GetHashCodePart (bst b) (bsh b) (bhp b) 0 i L newL slot,
        Gen_O2.GetHashCodePart (bst b) (bsh b) (bhp b) 1 i L newL slot with
  | Ok x, Ok y => negb (x =? y)
  | _, _ => false
  end.

(* the same loops with a budget of full-getter calls: the call number budget+1 throws (a throwing hash functor); the
   element being examined and everything after it stay where they are (pvRelocateItems() swallows the exception and
   keeps the old generation chained).  Result: (old, new, calls made, thrown) *)
Fixpoint migrate_bucket_c (fuel : nat) (told tnew : table) (L newL i budget calls : Z) {struct fuel}
  : outcome (table * table * Z * bool) :=
  match fuel with
  | O => Fuel
  | S f =>
    if cnt (told i) =? 0 then Ok (told, tnew, calls, false)
    else
      let used := getter_used (told i) i L newL (3 - cnt (told i)) in
      if used && (budget <=? calls) then Ok (told, tnew, calls, true)
      else match relocate_item told tnew L newL i with
           | Ok (told', tnew') => migrate_bucket_c f told' tnew' L newL i budget (if used then calls + 1 else calls)
           | Stuck => Stuck | Fuel => Fuel | Exn => Exn
           end
  end.

Fixpoint migrate_from_c (n : nat) (told tnew : table) (L newL i budget calls : Z) {struct n}
  : outcome (table * table * Z * bool) :=
  match n with
  | O => Ok (told, tnew, calls, false)
  | S m => match migrate_bucket_c 4 told tnew L newL i budget calls with
           | Ok (told', tnew', calls', thrown) =>
               if thrown then Ok (told', tnew', calls', true)
               else migrate_from_c m told' tnew' L newL (i + 1) budget calls'
           | Stuck => Stuck | Fuel => Fuel | Exn => Exn
           end
  end.

(* pvRelocateItems(buckets) for a chain of older generations, oldest first, all into the newest table *)
Fixpoint migrate_gens (gens : list (table * Z)) (tnew : table) (newL budget calls : Z)
  : outcome (list (table * Z) * table * Z * bool) :=
  match gens with
  | [] => Ok ([], tnew, calls, false)
  | (told, L) :: r =>
    match migrate_from_c (Z.to_nat (2 ^ L)) told tnew L newL 0 budget calls with
    | Ok (told', tnew', calls', thrown) =>
        if thrown then Ok ((told', L) :: r, tnew', calls', true)
        else match migrate_gens r tnew' newL budget calls' with
             | Ok (r', t2, c2, th2) => Ok (r', t2, c2, th2)
             | Stuck => Stuck | Fuel => Fuel | Exn => Exn
             end
    | Stuck => Stuck | Fuel => Fuel | Exn => Exn
    end
  end.

(* HashSet::Remove of the element in (bucket b, slot): the generated bucket Remove; the itemReplacer moves the key of the
   lowest occupied slot into the freed one *)
Definition remove_at (t : table) (b slot : Z) : outcome table :=
  let bk := t b in
  match Gen_O2.Remove (bst bk) (bsh bk) (bhp bk) slot with
  | Ok (_, st', sh', hp') => Ok (tupd t b (mkB st' sh' hp' (upd (bky bk) slot (bky bk (3 - cnt bk)))))
  | Stuck => Stuck | Fuel => Fuel | Exn => Exn
  end.
End Reloc.

(* ---- model growth round: HashSet::pvFind over the GENERATED BucketOpen2N2::Find / WasFull / GetMaxProbe / GetNextBucketIndex ----
   bucket_find: Bucket::Find with itemPred = "the key stored in slot i equals key" (HashSet's predicate is key equality on the
   item); the generated function returns &mItems + i + 1 (with &mItems = 0 here) or the null iterator 0 *)
Definition bucket_find (b : bucket) (key h : Z) : outcome Z :=
  Gen_O2.Find (bst b) (bsh b) (bhp b) (fun i => bky b i =? key) h 0.

(* for (probe = 1; bucket->WasFull() && probe <= maxProbe; ++probe) { bucketIndex = GetNextBucketIndex(..); bucket = ..; Find<false> } *)
Fixpoint find_loop (fuel : nat) (t : table) (bc idx probe maxProbe key h : Z) {struct fuel} : outcome (option (Z * Z)) :=
  match fuel with
  | O => Fuel
  | S f =>
    if Gen_O2.WasFull (bst (t idx)) (bsh (t idx)) (bhp (t idx)) && (probe <=? maxProbe) then
      let idx' := Gen_O2.GetNextBucketIndex idx bc probe in
      match bucket_find (t idx') key h with
      | Ok r => if r =? 0 then find_loop f t bc idx' (wrapU 64 (probe + 1)) maxProbe key h else Ok (Some (idx', r - 1))
      | Stuck => Stuck | Fuel => Fuel | Exn => Exn
      end
    else Ok None
  end.

(* pvFind(indexCode, buckets, itemPred): the start bucket, then the probe loop bounded by the START bucket's GetMaxProbe *)
Definition find (t : table) (L key h : Z) : outcome (option (Z * Z)) :=
  let bc := wrapU 64 (Z.shiftl 1 L) in
  let start := Gen_Base.GetStartBucketIndex h bc in
  match bucket_find (t start) key h with
  | Ok r =>
    (* the loop `for (probe = 1; WasFull() && probe <= maxProbe; ++probe)` runs at most maxProbe times: that is its fuel *)
    if r =? 0 then find_loop (S (Z.to_nat (Gen_O2MP.GetMaxProbe (bst (t start))))) t bc start 1 (Gen_O2MP.GetMaxProbe (bst (t start))) key h
    else Ok (Some (start, r - 1))
  | Stuck => Stuck | Fuel => Fuel | Exn => Exn
  end.

(* where is a key stored? (used by the driver to replay set.Remove(key)) *)
Fixpoint locate_from (n : nat) (t : table) (i key : Z) : option (Z * Z) :=
  match n with
  | O => None
  | S m =>
    let b := t i in let c := cnt b in
    if (3 - c <=? 2) && (bky b 2 =? key) then Some (i, 2)
    else if (3 - c <=? 1) && (bky b 1 =? key) then Some (i, 1)
    else if (3 - c <=? 0) && (bky b 0 =? key) then Some (i, 0)
    else locate_from m t (i + 1) key
  end.

(* ---- grow round 3: a chain of successive growths: pvRelocateItems into 2^L1 buckets, then from there into 2^L2, ... ---- *)
Fixpoint grow_chain (hash : Z -> Z) (t : table) (L : Z) (Ls : list Z) : outcome (table * Z) :=
  match Ls with
  | [] => Ok (t, L)
  | newL :: r => match migrate hash t L newL with
                 | Ok (_, tnew) => grow_chain hash tnew newL r
                 | Stuck => Stuck | Fuel => Fuel | Exn => Exn
                 end
  end.

(* HashSet::pvFind(key) across chained generations, newest first *)
Fixpoint find_gens (gens : list (table * Z)) (key h : Z) : outcome (option (nat * Z * Z)) :=
  match gens with
  | [] => Ok None
  | (t, L) :: r =>
    match find t L key h with
    | Ok (Some (b, s)) => Ok (Some (O, b, s))
    | Ok None => match find_gens r key h with
                 | Ok (Some (g, b, s)) => Ok (Some (S g, b, s))
                 | Ok None => Ok None
                 | Stuck => Stuck | Fuel => Fuel | Exn => Exn
                 end
    | Stuck => Stuck | Fuel => Fuel | Exn => Exn
    end
  end.
