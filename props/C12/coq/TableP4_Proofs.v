(* C12: element_found_after_growth for the LimP4 table model TableP4 (linear probing guarded by WasFull). *)
From Coq Require Import ZArith Bool List Lia.
From MomoCommon Require Import GenPrelude.
From C12 Require Import Bits Known Gen_Base Gen_P4 P4_Model P4_Slot P4_Bucket Chain TableP4.
Import ListNotations.
Local Open Scope Z_scope.

Section P4Inv.
Variables (H mm : Z).
Variable hash : Z -> Z.
Hypothesis HH : 4 <= H <= 8.
Hypothesis Hmm : 1 <= mm <= 4.
Hypothesis hash_range : forall k, 0 <= hash k < 2 ^ 64.

Definition phome (L key : Z) : Z := Gen_Base.GetStartBucketIndex (hash key) (2 ^ L).
Definition lidx (L start p : Z) : Z := (start + p) mod 2 ^ L.
Definition sh_of_b (b : pbucket) : Z -> Z := fun i => Gen_P4.pvCalcShortHash (hash (pky b i)).
Definition bv_of_b (L : Z) (b : pbucket) : Z -> Z := fun i => p4_byte (hash (pky b i)) L (ppr b i).

Definition pbwf (L : Z) (b : pbucket) : Prop :=
  p4_inv H (ps b) (pcnt b) (sh_of_b b) (bv_of_b L b) /\ pcnt b <= pmpi b <= 4 /\ 1 <= pmpi b /\
  (forall i, 0 <= i < pcnt b -> 0 <= ppr b i).

(* element i of bucket b sits ppr steps after the home bucket of its TRUE hash and every bucket before it on that path
   "was full" (so pvFind's walk reaches it) *)
Definition pelem_ok (L : Z) (t : ptable) (b i : Z) : Prop :=
  let k := pky (t b) i in let p := ppr (t b) i in
  0 <= p < 2 ^ L /\ b = lidx L (phome L k) p /\ (forall q, 0 <= q < p -> pmpi (t (lidx L (phome L k) q)) = 4).

Definition PTinv (L : Z) (t : ptable) : Prop :=
  (forall b, pbwf L (t b)) /\ (forall b i, 0 <= b < 2 ^ L -> 0 <= i < pcnt (t b) -> pelem_ok L t b i).

Definition PPresent (L : Z) (t : ptable) (k : Z) : Prop :=
  exists b i, 0 <= b < 2 ^ L /\ 0 <= i < pcnt (t b) /\ pky (t b) i = k.

Definition PAt (L : Z) (t : ptable) (k b i : Z) : Prop := 0 <= b < 2 ^ L /\ 0 <= i < pcnt (t b) /\ pky (t b) i = k.

(* what pvFind + BucketLimP4::Find examine: probes 0..2^L-1 along the linear path of the TRUE hash while WasFull() *)
Definition PFound (L : Z) (t : ptable) (k : Z) : Prop :=
  exists p i, 0 <= p < 2 ^ L /\ (forall q, 0 <= q < p -> was_full (t (lidx L (phome L k) q)) = true) /\ 0 <= i < 4 /\
    ps (t (lidx L (phome L k) p)) i = Gen_P4.pvCalcShortHash (hash k) /\ pky (t (lidx L (phome L k) p)) i = k.

Lemma next_lidx L s p : 0 <= L <= 63 -> 0 <= p ->
  Gen_P4.GetNextBucketIndex (lidx L s p) (2 ^ L) = lidx L s (p + 1).
Proof.
  intros HL Hp. unfold Gen_P4.GetNextBucketIndex, lidx.
  assert (0 < 2 ^ L) by (apply pow2_pos; lia). assert (2 ^ L <= 2 ^ 63) by (apply pow2_le_mono; lia).
  rewrite (wrapU_small 64 (2 ^ L - 1)) by (change (2 ^ 64) with (2 * 2 ^ 63); lia).
  rewrite pow2m1_ones, land_wrap64_ones by lia. rewrite Zplus_mod_idemp_l. f_equal. lia.
Qed.

Lemma lidx_range L s p : 0 <= L -> 0 <= lidx L s p < 2 ^ L.
Proof. intros. apply Z.mod_pos_bound. apply pow2_pos. lia. Qed.

Lemma isfull_cnt s c sh bv : p4_inv H s c sh bv -> (Gen_P4.IsFull s = true <-> c = 4).
Proof.
  intros (Hc & Hr & Hs & He & _). unfold Gen_P4.IsFull, Gen_P4.maxCount, Gen_P4.maskEmpty.
  change (wrapU 64 (4 - 1)) with 3. destruct (Z.ltb_spec (s 3) 128); split; intros; try discriminate; try reflexivity.
  - destruct (Z.eq_dec c 4); [assumption|]. pose proof (He 3 ltac:(lia)). lia.
  - subst c. destruct (Hs 3 ltac:(lia)). lia.
Qed.

Lemma pprobe_loop_spec L t start : 0 <= L <= 63 -> forall fuel probe,
  0 <= probe < 2 ^ L -> (Z.to_nat (2 ^ L - probe) <= fuel)%nat ->
  match pprobe_loop fuel t (2 ^ L) (lidx L start probe) probe with
  | Ok (idx, p) => probe <= p < 2 ^ L /\ idx = lidx L start p /\ Gen_P4.IsFull (ps (t idx)) = false /\
                   (forall q, probe <= q < p -> Gen_P4.IsFull (ps (t (lidx L start q))) = true)
  | Exn => True
  | _ => False
  end.
Proof.
  intros HL. assert (2 ^ L <= 2 ^ 63) by (apply pow2_le_mono; lia).
  induction fuel as [|f IH]; intros probe Hp Hf; [exfalso; lia|].
  cbn [pprobe_loop]. destruct (Gen_P4.IsFull _) eqn:Hfull.
  - rewrite (wrapU_small 64 (probe + 1)) by (change (2 ^ 64) with (2 * 2 ^ 63); lia).
    destruct (Z.geb_spec (probe + 1) (2 ^ L)); [exact I|].
    rewrite next_lidx by lia.
    specialize (IH (probe + 1) ltac:(lia) ltac:(lia)).
    destruct (pprobe_loop f t (2 ^ L) (lidx L start (probe + 1)) (probe + 1)) as [[idx p]| | |]; try assumption.
    destruct IH as (G1 & G2 & G3 & G4). split; [lia|]. split; [exact G2|]. split; [exact G3|].
    intros q Hq. destruct (Z.eq_dec q probe) as [->|]; [assumption|apply G4; lia].
  - split; [lia|]. split; [reflexivity|]. split; [assumption|]. intros; lia.
Qed.

Lemma pbwf_cnt L b : pbwf L b -> 0 <= pcnt b <= 4.
Proof. intros ((Hc & _) & _). assumption. Qed.

Lemma phome_range L key : 0 <= L <= 63 -> 0 <= phome L key < 2 ^ L.
Proof. intros. unfold phome. rewrite start_mod by lia. apply Z.mod_pos_bound. apply pow2_pos. lia. Qed.

Lemma pempty_inv L : PTinv L (pempty_table H mm).
Proof.
  assert (Hc0 : Gen_P4.pvGetCount (Gen_P4.pvSetEmpty H (fun _ => 0) 0) = 0)
    by (apply (p4_count_inv H _ 0 (fun _ => 0) (fun _ => 0)); [lia|apply p4_inv_empty; lia]).
  split.
  - intros b. unfold pbwf, pempty_table, pempty_bucket, pcnt. cbn [ps pmpi pky ppr]. rewrite Hc0.
    split; [|split; [lia|split; [lia|intros; lia]]].
    eapply p4_inv_ext; [| |apply p4_inv_empty; lia]; intros; lia.
  - intros b i Hb Hi. unfold pempty_table, pempty_bucket, pcnt in Hi. cbn [ps] in Hi. rewrite Hc0 in Hi. lia.
Qed.

Lemma padd_nogrow_spec L t code key : 0 <= L <= 63 -> PTinv L t -> 0 <= code < 2 ^ 64 ->
  Gen_Base.GetStartBucketIndex code (2 ^ L) = phome L key ->
  Gen_P4.pvCalcShortHash code = Gen_P4.pvCalcShortHash (hash key) ->
  (forall p, 0 <= p -> p4_byte code L p = p4_byte (hash key) L p) ->
  match padd_nogrow H t L code key with
  | Ok t' => PTinv L t' /\ PPresent L t' key /\ (forall k, PPresent L t k -> PPresent L t' k) /\
             (exists b0 s0, ~ (0 <= s0 < pcnt (t b0)) /\
                forall k b s, PAt L t' k b s <-> (PAt L t k b s \/ (k = key /\ b = b0 /\ s = s0 /\ 0 <= b0 < 2 ^ L)))
  | Exn => True
  | _ => False
  end.
Proof.
  intros HL [Hwf Hel] Hcode Hstart Hshort Hbyte.
  assert (Hpos : 0 < 2 ^ L) by (apply pow2_pos; lia).
  assert (Hle : 2 ^ L <= 2 ^ 63) by (apply pow2_le_mono; lia).
  unfold padd_nogrow. rewrite shl1_pow2 by lia.
  rewrite (wrapU_small 64 (2 ^ L)) by (change (2 ^ 64) with (2 * 2 ^ 63); lia).
  rewrite Hstart. pose proof (phome_range L key HL) as Hhome. set (start := phome L key) in *.
  pose proof (pprobe_loop_spec L t start HL (S (Z.to_nat (2 ^ L))) 0 ltac:(lia) ltac:(lia)) as Hloop.
  assert (E0 : lidx L start 0 = start) by (unfold lidx; rewrite Z.add_0_r; apply Z.mod_small; lia).
  rewrite E0 in Hloop.
  destruct (pprobe_loop _ t (2 ^ L) start 0) as [[idx p]| | |]; try exact Hloop.
  destruct Hloop as (Hp & Hidx & Hfull & Hpath).
  destruct (Hwf idx) as (Hinv & Hmpi & Hmpi1 & Hpr).
  set (c := pcnt (t idx)) in *.
  assert (Hc : 0 <= c <= 4) by (apply (pbwf_cnt L), Hwf).
  assert (Hc4 : c < 4).
  { destruct (Z.eq_dec c 4) as [E|]; [|lia]. apply (isfull_cnt _ _ _ _ Hinv) in E. congruence. }
  destruct (p4_add_inv H (ps (t idx)) c _ _ code L p HH Hcode HL ltac:(change (2 ^ 64) with (2 * 2 ^ 63); lia) Hinv Hc4)
    as (s' & Hadd & Hinv').
  rewrite Hadd. fold c.
  set (mpi' := if c =? 0 then pmpi (t idx) else if c =? pmpi (t idx) then pmpi (t idx) + 1 else pmpi (t idx)).
  set (b' := mkP s' mpi' (upd (pky (t idx)) c key) (upd (ppr (t idx)) c p)).
  set (t' := ptupd t idx b').
  assert (Hcnt' : pcnt b' = c + 1) by (unfold pcnt, b'; cbn [ps]; apply (p4_count_inv H _ _ _ _ ltac:(lia) Hinv')).
  assert (Hmpi' : c + 1 <= mpi' <= 4 /\ 1 <= mpi' /\ (pmpi (t idx) = 4 -> mpi' = 4)).
  { unfold mpi'. destruct (Z.eqb_spec c 0); [lia|]. destruct (Z.eqb_spec c (pmpi (t idx))); lia. }
  assert (Ft : forall j, j <> idx -> t' j = t j) by (intros j Hj; unfold t', ptupd; destruct (Z.eqb_spec j idx); [contradiction|reflexivity]).
  assert (Fi : t' idx = b') by (unfold t', ptupd; rewrite Z.eqb_refl; reflexivity).
  assert (Fmpi : forall j, pmpi (t j) = 4 -> pmpi (t' j) = 4).
  { intros j Hj. destruct (Z.eq_dec j idx) as [->|Hne]; [rewrite Fi; cbn [pmpi]; apply Hmpi'; assumption|rewrite Ft by assumption; assumption]. }
  assert (Hidxr : 0 <= idx < 2 ^ L) by (rewrite Hidx; apply lidx_range; lia).
  split; [split|split; [|split]].
  - intros j. destruct (Z.eq_dec j idx) as [->|Hne]; [|rewrite Ft by assumption; apply Hwf].
    rewrite Fi. unfold pbwf. rewrite Hcnt'. split; [|split; [unfold b'; cbn [pmpi]; lia|split; [unfold b'; cbn [pmpi]; lia|]]].
    + eapply p4_inv_ext; [| |exact Hinv']; intros i Hi; unfold sh_of_b, bv_of_b, b'; cbn [pky ppr]; unfold upd;
        destruct (Z.eqb_spec i c); try reflexivity; [rewrite Hshort; reflexivity|apply Hbyte; lia].
    + intros i Hi. unfold b'; cbn [ppr]. unfold upd. destruct (Z.eqb_spec i c); [lia|apply Hpr; lia].
  - intros b i Hb Hi. unfold pelem_ok.
    destruct (Z.eq_dec b idx) as [->|Hne].
    + rewrite Fi in *. rewrite Hcnt' in Hi. unfold b'; cbn [pky ppr]. unfold upd. destruct (Z.eqb_spec i c) as [->|Hic].
      * fold start. split; [lia|]. split; [assumption|]. intros q Hq. apply Fmpi.
        pose proof (Hpath q ltac:(lia)) as Hf. destruct (Hwf (lidx L start q)) as (Hinvq & Hmq & _).
        apply (isfull_cnt _ _ _ _ Hinvq) in Hf. lia.
      * destruct (Hel idx i Hb ltac:(fold c; lia)) as (H1 & H2 & H3). split; [assumption|]. split; [assumption|].
        intros q Hq. apply Fmpi, H3. assumption.
    + rewrite Ft in * by assumption. destruct (Hel b i Hb Hi) as (H1 & H2 & H3). split; [assumption|]. split; [assumption|].
      intros q Hq. apply Fmpi, H3. assumption.
  - exists idx, c. rewrite Fi, Hcnt'. split; [assumption|]. split; [lia|]. unfold b'; cbn [pky]. apply upd_same.
  - intros k (b & i & Hb & Hi & Hk). exists b, i. split; [assumption|].
    destruct (Z.eq_dec b idx) as [->|Hne]; [|rewrite Ft by assumption; split; assumption].
    rewrite Fi, Hcnt'. fold c in Hi. split; [lia|]. unfold b'; cbn [pky]. rewrite upd_other by lia. assumption.
  - exists idx, c. split; [fold c; lia|]. intros k b s. unfold PAt. destruct (Z.eq_dec b idx) as [->|Hne].
    + rewrite Fi, Hcnt'. fold c. unfold b'; cbn [pky]. unfold upd. destruct (Z.eqb_spec s c) as [->|Hns]; split.
      * intros (Hb & Hs & Hk). right. repeat split; try assumption; lia.
      * intros [(Hb & Hs & Hk)|(-> & _)]; [lia|]. repeat split; try assumption; lia.
      * intros (Hb & Hs & Hk). left. repeat split; try assumption; lia.
      * intros [(Hb & Hs & Hk)|(_ & _ & Hs & _)]; [|lia]. repeat split; try assumption; lia.
    + rewrite Ft by assumption. split; [intros G; left; exact G|intros [G|(_ & Hb & _)]; [exact G|contradiction]].
Qed.

(* bucket.Remove of ANY element of a bucket keeps the table invariant (removal between insertions) *)
Lemma premove_at_spec L t b idx : 0 <= L <= 63 -> PTinv L t -> 0 <= idx < pcnt (t b) ->
  exists t', premove_at H mm t b idx = Ok t' /\ PTinv L t' /\ pcnt (t' b) = pcnt (t b) - 1 /\ (forall j, j <> b -> t' j = t j) /\
    (forall k, PPresent L t k -> k = pky (t b) idx \/ PPresent L t' k) /\
    pky (t' b) = upd (pky (t b)) idx (pky (t b) (pcnt (t b) - 1)).
Proof.
  intros HL [Hwf Hel] Hidx. destruct (Hwf b) as (Hinv & Hmpi & Hmpi1 & Hpr). set (c := pcnt (t b)) in *.
  assert (Hbv : forall i, 0 <= i < c -> 128 <= bv_of_b L (t b) i < 256).
  { intros i Hi. unfold bv_of_b. apply p4_byte_range; try lia. apply hash_range. apply Hpr. assumption. }
  unfold premove_at. fold c.
  assert (Hrem : exists s', Gen_P4.Remove H mm (ps (t b)) (8 + idx) 8 (pmpi (t b)) idx = Ok (tt, s') /\
            p4_inv H s' (c - 1) (upd (sh_of_b (t b)) idx (sh_of_b (t b) (c - 1))) (upd (bv_of_b L (t b)) idx (bv_of_b L (t b) (c - 1)))).
  { destruct (Z.eq_dec c 1) as [Hc1|Hc1].
    - assert (idx = 0) by lia. subst idx. rewrite Hc1 in *.
      destruct (p4_remove_last_inv H mm (ps (t b)) _ _ (8 + 0) 8 (pmpi (t b)) HH Hinv ltac:(lia) eq_refl) as (s' & Hs' & Hi').
      exists s'. split; [assumption|]. eapply p4_inv_ext; [| |exact Hi']; intros; lia.
    - apply (p4_remove_inv H mm (ps (t b)) c _ _ idx (8 + idx) 8 (pmpi (t b)) HH Hinv ltac:(lia) Hidx ltac:(lia) Hbv). }
  destruct Hrem as (s' & Hs' & Hinv'). rewrite Hs'.
  set (mpi' := if c =? 1 then (if pmpi (t b) =? Gen_P4.maxCount then pmpi (t b) else mm) else pmpi (t b)).
  set (b' := mkP s' mpi' (upd (pky (t b)) idx (pky (t b) (c - 1))) (upd (ppr (t b)) idx (ppr (t b) (c - 1)))).
  set (t' := ptupd t b b').
  assert (Hcnt' : pcnt b' = c - 1) by (unfold pcnt, b'; cbn [ps]; apply (p4_count_inv H _ _ _ _ ltac:(lia) Hinv')).
  assert (Hmpi' : c - 1 <= mpi' <= 4 /\ 1 <= mpi' /\ (pmpi (t b) = 4 -> mpi' = 4)).
  { unfold mpi', Gen_P4.maxCount. destruct (Z.eqb_spec c 1); [destruct (Z.eqb_spec (pmpi (t b)) 4)|]; lia. }
  assert (Ft : forall j, j <> b -> t' j = t j) by (intros j Hj; unfold t', ptupd; destruct (Z.eqb_spec j b); [contradiction|reflexivity]).
  assert (Fi : t' b = b') by (unfold t', ptupd; rewrite Z.eqb_refl; reflexivity).
  assert (Fmpi : forall j, pmpi (t j) = 4 -> pmpi (t' j) = 4).
  { intros j Hj. destruct (Z.eq_dec j b) as [->|Hne]; [rewrite Fi; unfold b'; cbn [pmpi]; apply Hmpi'; assumption|rewrite Ft by assumption; assumption]. }
  exists t'. split; [reflexivity|]. split; [split|split; [rewrite Fi; exact Hcnt'|split; [exact Ft|split]]].
  - intros j. destruct (Z.eq_dec j b) as [->|Hne]; [|rewrite Ft by assumption; apply Hwf].
    rewrite Fi. unfold pbwf. rewrite Hcnt'. split; [|split; [unfold b'; cbn [pmpi]; lia|split; [unfold b'; cbn [pmpi]; lia|]]].
    + eapply p4_inv_ext; [| |exact Hinv']; intros i Hi; unfold sh_of_b, bv_of_b, b'; cbn [pky ppr]; unfold upd;
        destruct (Z.eqb_spec i idx); reflexivity.
    + intros i Hi. unfold b'; cbn [ppr]. unfold upd. destruct (Z.eqb_spec i idx); apply Hpr; lia.
  - intros b0 i Hb0 Hi. unfold pelem_ok. destruct (Z.eq_dec b0 b) as [->|Hne].
    + rewrite Fi in *. rewrite Hcnt' in Hi. unfold b'; cbn [pky ppr]. unfold upd. destruct (Z.eqb_spec i idx) as [->|Hic].
      * destruct (Hel b (c - 1) Hb0 ltac:(fold c; lia)) as (G1 & G2 & G3). split; [assumption|]. split; [assumption|].
        intros q Hq. apply Fmpi, G3. assumption.
      * destruct (Hel b i Hb0 ltac:(fold c; lia)) as (G1 & G2 & G3). split; [assumption|]. split; [assumption|].
        intros q Hq. apply Fmpi, G3. assumption.
    + rewrite Ft in * by assumption. destruct (Hel b0 i Hb0 Hi) as (G1 & G2 & G3). split; [assumption|]. split; [assumption|].
      intros q Hq. apply Fmpi, G3. assumption.
  - intros k (b0 & i & Hb0 & Hi & Hk). destruct (Z.eq_dec b0 b) as [->|Hne].
    + fold c in Hi. destruct (Z.eq_dec i idx) as [->|Hni]; [left; symmetry; assumption|right].
      destruct (Z.eq_dec i (c - 1)) as [->|Hnl].
      * exists b, idx. rewrite Fi, Hcnt'. split; [assumption|]. split; [lia|]. unfold b'; cbn [pky]. rewrite upd_same. assumption.
      * exists b, i. rewrite Fi, Hcnt'. split; [assumption|]. split; [lia|]. unfold b'; cbn [pky]. rewrite upd_other by lia. assumption.
    + right. exists b0, i. rewrite Ft by assumption. split; [assumption|split; assumption].
  - rewrite Fi. reflexivity.
Qed.

(* one iteration of pvRelocateItems' inner loop *)
Lemma prelocate_item_spec L newL told tnew i : 0 <= L -> L < newL <= 63 -> PTinv L told -> PTinv newL tnew ->
  0 <= i < 2 ^ L -> 0 < pcnt (told i) ->
  match prelocate_item H mm hash told tnew L newL i with
  | Ok (told', tnew') =>
      PTinv L told' /\ PTinv newL tnew' /\ pcnt (told' i) = pcnt (told i) - 1 /\ (forall j, j <> i -> told' j = told j) /\
      (forall k, PPresent L told k -> PPresent L told' k \/ PPresent newL tnew' k) /\
      (forall k, PPresent newL tnew k -> PPresent newL tnew' k) /\
      (* position level: exactly the LAST element of bucket i leaves the old table and enters a free slot of the new one *)
      (let key := pky (told i) (pcnt (told i) - 1) in
       PAt L told key i (pcnt (told i) - 1) /\
       (forall k b s, PAt L told' k b s <-> (PAt L told k b s /\ ~ (b = i /\ s = pcnt (told i) - 1))) /\
       exists b0 s0, ~ (0 <= s0 < pcnt (tnew b0)) /\
         forall k b s, PAt newL tnew' k b s <-> (PAt newL tnew k b s \/ (k = key /\ b = b0 /\ s = s0 /\ 0 <= b0 < 2 ^ newL)))
  | Exn => True
  | _ => False
  end.
Proof.
  intros HL0 HnL Hold Hnew Hi Hc0. pose proof Hold as [Hwf Hel]. unfold prelocate_item.
  destruct (Hwf i) as (Hinv & Hmpi & Hmpi1 & Hpr). set (c := pcnt (told i)) in *. set (idx := c - 1).
  set (key := pky (told i) idx). pose proof (hash_range key) as Hh.
  destruct (Hel i idx Hi ltac:(fold c; subst idx; lia)) as (Hp0 & Hb0 & _). fold key in Hb0. set (p0 := ppr (told i) idx) in *.
  set (code := Gen_P4.GetHashCodePart H (ps (told i)) (hash key) i L newL 8 idx).
  assert (Hcc : code = hash key \/ code = known (qof newL) (hash key)).
  { destruct (p4_bucket_read H (ps (told i)) c _ _ idx (hash key) i L newL 8 HH Hinv ltac:(subst idx; lia) ltac:(lia) ltac:(lia))
      as [Hf|(Hsl & Hv & Hs)]; [left; exact Hf|].
    assert (Hrec : code = if p4_full_used (p4_byte (hash key) L p0) L newL then hash key else known (qof L) (hash key)).
    { unfold code. apply p4_reconstruct; try lia; try exact Hv; try exact Hs; try (subst idx; lia).
      rewrite Hb0 at 1. unfold lidx, phome. rewrite start_mod by lia. reflexivity. }
    rewrite Hrec. destruct (p4_full_used _ _ _) eqn:Hfu; [left; reflexivity|right].
    apply p4_full_used_false in Hfu; [|apply p4_byte_range; lia]. destruct Hfu as [_ Hq]. rewrite Hq. reflexivity. }
  assert (Hq0 : 0 <= qof newL) by (apply qof_nonneg; lia).
  assert (Hagree : 0 <= code < 2 ^ 64 /\ Gen_Base.GetStartBucketIndex code (2 ^ newL) = phome newL key /\
                   Gen_P4.pvCalcShortHash code = Gen_P4.pvCalcShortHash (hash key) /\
                   (forall p, 0 <= p -> p4_byte code newL p = p4_byte (hash key) newL p)).
  { destruct Hcc as [->| ->]; [repeat split; try reflexivity; lia|].
    split; [apply known_range; lia|]. split; [|split].
    - unfold phome. apply start_known; try lia. apply qof_le. lia.
    - apply p4_short_known. lia.
    - intros p Hp. apply p4_byte_known; try lia. }
  destruct Hagree as (Hcr & Ha1 & Ha2 & Ha3).
  pose proof (padd_nogrow_spec newL tnew code key ltac:(lia) Hnew Hcr Ha1 Ha2 Ha3) as Hadd.
  destruct (padd_nogrow H tnew newL code key) as [tnew'| | |]; try exact Hadd.
  destruct Hadd as (Hnew' & Hpres & Hmono & Hpos).
  destruct (premove_at_spec L told i idx ltac:(lia) Hold ltac:(fold c; subst idx; lia)) as (told' & Hrm & Ho' & Hc' & Hfr & Hpr' & Hky').
  rewrite Hrm. split; [exact Ho'|]. split; [exact Hnew'|]. split; [exact Hc'|]. split; [exact Hfr|]. split; [|split; [exact Hmono|]].
  - intros k Hk. destruct (Hpr' k Hk) as [->|Hk']; [right; exact Hpres|left; exact Hk'].
  - fold c idx key. split; [unfold PAt; split; [assumption|split; [fold c; subst idx; lia|reflexivity]]|]. split; [|exact Hpos].
    intros k b1 s1. unfold PAt. destruct (Z.eq_dec b1 i) as [->|Hne].
    + rewrite Hc', Hky'. fold c idx. unfold upd. split.
      * intros (Hb & Hs1 & Hk). destruct (Z.eqb_spec s1 idx); [subst idx; lia|]. split; [split; [assumption|split; [lia|assumption]]|subst idx; lia].
      * intros ((Hb & Hs1 & Hk) & Hn). split; [assumption|].
        assert (s1 <> idx) by (intros ->; apply Hn; split; reflexivity).
        split; [subst idx; lia|]. destruct (Z.eqb_spec s1 idx); [contradiction|assumption].
    + rewrite Hfr by assumption. split; [intros G; split; [exact G|intros [E _]; contradiction]|intros [G _]; exact G].
Qed.

Definition pmig_post (L newL : Z) (told tnew told' tnew' : ptable) : Prop :=
  PTinv L told' /\ PTinv newL tnew' /\
  (forall k, PPresent L told k -> PPresent L told' k \/ PPresent newL tnew' k) /\
  (forall k, PPresent newL tnew k -> PPresent newL tnew' k).

Lemma pmigrate_bucket_spec L newL i : 0 <= L -> L < newL <= 63 -> 0 <= i < 2 ^ L ->
  forall fuel told tnew calls, PTinv L told -> PTinv newL tnew -> (Z.to_nat (pcnt (told i)) < fuel)%nat ->
  match pmigrate_bucket H mm hash fuel told tnew L newL i calls with
  | Ok (told', tnew', _) => pmig_post L newL told tnew told' tnew' /\ pcnt (told' i) = 0 /\ (forall j, j <> i -> told' j = told j)
  | Exn => True
  | _ => False
  end.
Proof.
  intros HL HnL Hi. induction fuel as [|f IH]; intros told tnew calls Hold Hnew Hf; [lia|].
  cbn [pmigrate_bucket]. pose proof (pbwf_cnt L _ (proj1 Hold i)) as Hc.
  destruct (Z.eqb_spec (pcnt (told i)) 0) as [Hz|Hnz].
  - split; [|split; [assumption|reflexivity]]. unfold pmig_post. split; [exact Hold|split; [exact Hnew|split; auto]].
  - pose proof (prelocate_item_spec L newL told tnew i HL HnL Hold Hnew Hi ltac:(lia)) as Hstep.
    destruct (prelocate_item H mm hash told tnew L newL i) as [[told1 tnew1]| | |]; try exact Hstep.
    destruct Hstep as (Ho1 & Hn1 & Hc1 & Hfr1 & Hp1 & Hm1 & _).
    specialize (IH told1 tnew1 (if pgetter_used H (told i) i L newL (pcnt (told i) - 1) then calls + 1 else calls) Ho1 Hn1 ltac:(lia)).
    destruct (pmigrate_bucket H mm hash f told1 tnew1 L newL i _) as [[[told2 tnew2] c2]| | |]; try exact IH.
    destruct IH as ((Ho2 & Hn2 & Hp2 & Hm2) & Hc2 & Hfr2).
    split; [|split; [assumption|]].
    + unfold pmig_post. split; [exact Ho2|split; [exact Hn2|split]].
      * intros k Hk. destruct (Hp1 k Hk) as [G|G]; [apply Hp2; assumption|right; apply Hm2; assumption].
      * intros k Hk. apply Hm2, Hm1. assumption.
    + intros j Hj. rewrite Hfr2, Hfr1 by assumption. reflexivity.
Qed.

Lemma pmigrate_from_spec L newL : 0 <= L -> L < newL <= 63 ->
  forall n told tnew i calls, 0 <= i -> i + Z.of_nat n <= 2 ^ L -> PTinv L told -> PTinv newL tnew ->
  (forall j, 0 <= j < i -> pcnt (told j) = 0) ->
  match pmigrate_from H mm hash n told tnew L newL i calls with
  | Ok (told', tnew', _) => pmig_post L newL told tnew told' tnew' /\ (forall j, 0 <= j < i + Z.of_nat n -> pcnt (told' j) = 0)
  | Exn => True
  | _ => False
  end.
Proof.
  intros HL HnL. induction n as [|m IH]; intros told tnew i calls Hi Hn Hold Hnew Hz.
  - cbn [pmigrate_from]. split; [|intros j Hj; apply Hz; lia].
    unfold pmig_post. split; [exact Hold|split; [exact Hnew|split; auto]].
  - cbn [pmigrate_from]. pose proof (pbwf_cnt L _ (proj1 Hold i)) as Hc.
    pose proof (pmigrate_bucket_spec L newL i HL HnL ltac:(lia) 5%nat told tnew calls Hold Hnew ltac:(lia)) as Hb.
    destruct (pmigrate_bucket H mm hash 5 told tnew L newL i calls) as [[[told1 tnew1] c1]| | |]; try exact Hb.
    destruct Hb as ((Ho1 & Hn1 & Hp1 & Hm1) & Hc1 & Hfr1).
    assert (Hz1 : forall j, 0 <= j < i + 1 -> pcnt (told1 j) = 0).
    { intros j Hj. destruct (Z.eq_dec j i) as [->|]; [assumption|]. rewrite Hfr1 by assumption. apply Hz. lia. }
    specialize (IH told1 tnew1 (i + 1) c1 ltac:(lia) ltac:(lia) Ho1 Hn1 Hz1).
    destruct (pmigrate_from H mm hash m told1 tnew1 L newL (i + 1) c1) as [[[told2 tnew2] c2]| | |]; try exact IH.
    destruct IH as ((Ho2 & Hn2 & Hp2 & Hm2) & Hz2).
    split.
    + unfold pmig_post. split; [exact Ho2|split; [exact Hn2|split]].
      * intros k Hk. destruct (Hp1 k Hk) as [G|G]; [apply Hp2; assumption|right; apply Hm2; assumption].
      * intros k Hk. apply Hm2, Hm1. assumption.
    + intros j Hj. apply Hz2. lia.
Qed.

Lemma ppresent_found L t k : PTinv L t -> PPresent L t k -> PFound L t k.
Proof.
  intros [Hwf Hel] (b & i & Hb & Hi & Hk). destruct (Hel b i Hb Hi) as (Hp & Hbp & Hpath). rewrite Hk in *.
  pose proof (pbwf_cnt L _ (Hwf b)) as Hc. destruct (Hwf b) as ((_ & _ & Hs & _) & _).
  exists (ppr (t b) i), i. rewrite <- Hbp. split; [assumption|]. split.
  - intros q Hq. unfold was_full, Gen_P4.maxCount. rewrite (Hpath q Hq). reflexivity.
  - split; [lia|]. split; [|assumption]. destruct (Hs i Hi) as [E _]. rewrite E. unfold sh_of_b. rewrite Hk. reflexivity.
Qed.

(* element_found_after_growth, LimP4 *)
Theorem pmigrate_found L newL told : 0 <= L -> L < newL <= 63 -> PTinv L told ->
  match pmigrate H mm hash told L newL with
  | Ok (_, tnew, _) => PTinv newL tnew /\ (forall k, PPresent L told k -> PFound newL tnew k)
  | Exn => True
  | _ => False
  end.
Proof.
  intros HL HnL Hold. unfold pmigrate. assert (Hpos : 0 < 2 ^ L) by (apply pow2_pos; lia).
  pose proof (pmigrate_from_spec L newL HL HnL (Z.to_nat (2 ^ L)) told (pempty_table H mm) 0 0 ltac:(lia) ltac:(lia) Hold
              (pempty_inv newL) ltac:(intros; lia)) as Hm.
  destruct (pmigrate_from H mm hash (Z.to_nat (2 ^ L)) told (pempty_table H mm) L newL 0 0) as [[[told' tnew'] c']| | |]; try exact Hm.
  destruct Hm as ((Ho & Hn & Hp & _) & Hz). split; [assumption|].
  intros k Hk. apply ppresent_found; [assumption|].
  destruct (Hp k Hk) as [(b & i & Hb & Hi & _)|G]; [exfalso|assumption].
  rewrite Hz in Hi by lia. lia.
Qed.

Lemma pinsert_all_inv L : 0 <= L <= 63 -> forall keys t, PTinv L t ->
  match pinsert_all H hash t L keys with
  | Ok t' => PTinv L t' /\ (forall k, PPresent L t k -> PPresent L t' k) /\ (forall k, In k keys -> PPresent L t' k)
  | Exn => True
  | _ => False
  end.
Proof.
  intros HL. induction keys as [|k r IH]; intros t Ht; cbn [pinsert_all].
  - split; [assumption|]. split; [auto|intros k []].
  - pose proof (padd_nogrow_spec L t (hash k) k HL Ht (hash_range k) eq_refl eq_refl ltac:(intros; reflexivity)) as Ha.
    destruct (padd_nogrow H t L (hash k) k) as [t1| | |]; try exact Ha.
    destruct Ha as (Ht1 & Hp1 & Hm1 & _). specialize (IH t1 Ht1).
    destruct (pinsert_all H hash t1 L r) as [t2| | |]; try exact IH.
    destruct IH as (Ht2 & Hm2 & Hin). split; [assumption|]. split.
    + intros k0 Hk0. apply Hm2, Hm1. assumption.
    + intros k0 [<-|Hr]; [apply Hm2; assumption|apply Hin; assumption].
Qed.

(* ---- round 4: the budgeted / throwing loops and chained generations for LimP4 ---- *)
Lemma pmigrate_bucket_c_spec L newL i budget : 0 <= L -> L < newL <= 63 -> 0 <= i < 2 ^ L ->
  forall fuel told tnew calls, PTinv L told -> PTinv newL tnew -> (Z.to_nat (pcnt (told i)) < fuel)%nat ->
  match pmigrate_bucket_c H mm hash fuel told tnew L newL i budget calls with
  | Ok (told', tnew', _, thrown) => pmig_post L newL told tnew told' tnew' /\ (thrown = false -> pcnt (told' i) = 0) /\
                                    (forall j, j <> i -> told' j = told j)
  | Exn => True
  | _ => False
  end.
Proof.
  intros HL HnL Hi. induction fuel as [|f IH]; intros told tnew calls Hold Hnew Hf; [lia|].
  cbn [pmigrate_bucket_c]. pose proof (pbwf_cnt L _ (proj1 Hold i)) as Hc.
  assert (Hid : pmig_post L newL told tnew told tnew) by (unfold pmig_post; split; [exact Hold|split; [exact Hnew|split; auto]]).
  destruct (Z.eqb_spec (pcnt (told i)) 0) as [Hz|Hnz]; [split; [exact Hid|split; [intros; assumption|reflexivity]]|].
  destruct (pgetter_used H (told i) i L newL (pcnt (told i) - 1) && (budget <=? calls));
    [split; [exact Hid|split; [intros; discriminate|reflexivity]]|].
  pose proof (prelocate_item_spec L newL told tnew i HL HnL Hold Hnew Hi ltac:(lia)) as Hstep.
  destruct (prelocate_item H mm hash told tnew L newL i) as [[told1 tnew1]| | |]; try exact Hstep.
  destruct Hstep as (Ho1 & Hn1 & Hc1 & Hfr1 & Hp1 & Hm1 & _).
  specialize (IH told1 tnew1 (if pgetter_used H (told i) i L newL (pcnt (told i) - 1) then calls + 1 else calls) Ho1 Hn1 ltac:(lia)).
  destruct (pmigrate_bucket_c H mm hash f told1 tnew1 L newL i budget _) as [[[[told2 tnew2] c2] th]| | |]; try exact IH.
  destruct IH as ((Ho2 & Hn2 & Hp2 & Hm2) & Hc2 & Hfr2).
  split; [|split; [assumption|]].
  - unfold pmig_post. split; [exact Ho2|split; [exact Hn2|split]].
    + intros k Hk. destruct (Hp1 k Hk) as [G|G]; [apply Hp2; assumption|right; apply Hm2; assumption].
    + intros k Hk. apply Hm2, Hm1. assumption.
  - intros j Hj. rewrite Hfr2, Hfr1 by assumption. reflexivity.
Qed.

Lemma pmigrate_from_c_spec L newL budget : 0 <= L -> L < newL <= 63 ->
  forall n told tnew i calls, 0 <= i -> i + Z.of_nat n <= 2 ^ L -> PTinv L told -> PTinv newL tnew ->
  (forall j, 0 <= j < i -> pcnt (told j) = 0) ->
  match pmigrate_from_c H mm hash n told tnew L newL i budget calls with
  | Ok (told', tnew', _, thrown) => pmig_post L newL told tnew told' tnew' /\
                                    (thrown = false -> forall j, 0 <= j < i + Z.of_nat n -> pcnt (told' j) = 0)
  | Exn => True
  | _ => False
  end.
Proof.
  intros HL HnL. induction n as [|m IH]; intros told tnew i calls Hi Hn Hold Hnew Hz.
  - cbn [pmigrate_from_c]. split; [|intros _ j Hj; apply Hz; lia].
    unfold pmig_post. split; [exact Hold|split; [exact Hnew|split; auto]].
  - cbn [pmigrate_from_c]. pose proof (pbwf_cnt L _ (proj1 Hold i)) as Hc.
    pose proof (pmigrate_bucket_c_spec L newL i budget HL HnL ltac:(lia) 5%nat told tnew calls Hold Hnew ltac:(lia)) as Hb.
    destruct (pmigrate_bucket_c H mm hash 5 told tnew L newL i budget calls) as [[[[told1 tnew1] c1] th]| | |]; try exact Hb.
    destruct Hb as ((Ho1 & Hn1 & Hp1 & Hm1) & Hc1 & Hfr1).
    destruct th.
    + split; [|intros; discriminate]. unfold pmig_post. split; [exact Ho1|split; [exact Hn1|split; assumption]].
    + assert (Hz1 : forall j, 0 <= j < i + 1 -> pcnt (told1 j) = 0).
      { intros j Hj. destruct (Z.eq_dec j i) as [->|]; [apply Hc1; reflexivity|]. rewrite Hfr1 by assumption. apply Hz. lia. }
      specialize (IH told1 tnew1 (i + 1) c1 ltac:(lia) ltac:(lia) Ho1 Hn1 Hz1).
      destruct (pmigrate_from_c H mm hash m told1 tnew1 L newL (i + 1) budget c1) as [[[[told2 tnew2] c2] th2]| | |]; try exact IH.
      destruct IH as ((Ho2 & Hn2 & Hp2 & Hm2) & Hz2).
      split.
      * unfold pmig_post. split; [exact Ho2|split; [exact Hn2|split]].
        -- intros k Hk. destruct (Hp1 k Hk) as [G|G]; [apply Hp2; assumption|right; apply Hm2; assumption].
        -- intros k Hk. apply Hm2, Hm1. assumption.
      * intros Hth j Hj. apply Hz2; [assumption|lia].
Qed.

Definition pgens_ok (newL : Z) (gens : list (ptable * Z)) : Prop :=
  Forall (fun g => 0 <= snd g /\ snd g < newL /\ PTinv (snd g) (fst g)) gens.
Definition pin_gens (gens : list (ptable * Z)) (k : Z) : Prop := exists g, In g gens /\ PPresent (snd g) (fst g) k.

Theorem pmigrate_gens_spec newL budget : newL <= 63 -> forall gens tnew calls, pgens_ok newL gens -> PTinv newL tnew ->
  match pmigrate_gens H mm hash gens tnew newL budget calls with
  | Ok (gens', tnew', _, thrown) =>
      pgens_ok newL gens' /\ PTinv newL tnew' /\
      (forall k, pin_gens gens k \/ PPresent newL tnew k -> pin_gens gens' k \/ PPresent newL tnew' k) /\
      (thrown = false -> gens' = [])
  | Exn => True
  | _ => False
  end.
Proof.
  intros HnL. induction gens as [|[told L] r IH]; intros tnew calls Hg Hnew; cbn [pmigrate_gens].
  - split; [constructor|]. split; [assumption|]. split; [auto|reflexivity].
  - inversion Hg as [|g gs Hg1 Hg2]; subst. cbn [fst snd] in Hg1. destruct Hg1 as (HL0 & HLn & Hold).
    assert (Hpos : 0 < 2 ^ L) by (apply pow2_pos; lia).
    pose proof (pmigrate_from_c_spec L newL budget HL0 ltac:(lia) (Z.to_nat (2 ^ L)) told tnew 0 calls ltac:(lia) ltac:(lia) Hold Hnew
                ltac:(intros; lia)) as Hm.
    destruct (pmigrate_from_c H mm hash (Z.to_nat (2 ^ L)) told tnew L newL 0 budget calls) as [[[[told1 tnew1] c1] th]| | |]; try exact Hm.
    destruct Hm as ((Ho1 & Hn1 & Hp1 & Hm1) & Hz1).
    destruct th.
    + split; [constructor; [cbn [fst snd]; split; [assumption|split; assumption]|assumption]|]. split; [assumption|]. split; [|intros; discriminate].
      intros k [(g & [<-|Hin] & Hk)|Hk].
      * cbn [fst snd] in Hk. destruct (Hp1 k Hk) as [G|G]; [left; exists (told1, L); split; [left; reflexivity|exact G]|right; exact G].
      * left. exists g. split; [right; assumption|assumption].
      * right. apply Hm1. assumption.
    + specialize (IH tnew1 c1 Hg2 Hn1).
      destruct (pmigrate_gens H mm hash r tnew1 newL budget c1) as [[[[r' t2] c2] th2]| | |]; try exact IH.
      destruct IH as (Hg' & Ht2 & Hk2 & Hth2). split; [assumption|]. split; [assumption|]. split; [|assumption].
      intros k [(g & [<-|Hin] & Hk)|Hk].
      * cbn [fst snd] in Hk. destruct (Hp1 k Hk) as [(b & x & Hb & Hx & _)|G]; [exfalso|apply Hk2; right; exact G].
        rewrite (Hz1 eq_refl) in Hx by lia. lia.
      * apply Hk2. left. exists g. split; assumption.
      * apply Hk2. right. apply Hm1. assumption.
Qed.

(* ---- round 5: every key is in EXACTLY one generation (LimP4) ---- *)
Definition PUniq (L : Z) (t : ptable) : Prop :=
  forall k b s b' s', PAt L t k b s -> PAt L t k b' s' -> b = b' /\ s = s'.
Definition PSep (L newL : Z) (told tnew : ptable) : Prop :=
  PUniq L told /\ PUniq newL tnew /\ forall k, ~ (PPresent L told k /\ PPresent newL tnew k).
Definition PGood (L newL : Z) (told tnew : ptable) : Prop := PTinv L told /\ PTinv newL tnew /\ PSep L newL told tnew.

Lemma prelocate_good L newL told tnew i told' tnew' : 0 <= L -> L < newL <= 63 -> 0 <= i < 2 ^ L -> pcnt (told i) <> 0 ->
  PGood L newL told tnew -> prelocate_item H mm hash told tnew L newL i = Ok (told', tnew') -> PGood L newL told' tnew'.
Proof.
  intros HL HnL Hi Hc (Hold & Hnew & Huo & Hun & Hdis) Heq.
  pose proof (pbwf_cnt L _ (proj1 Hold i)) as Hc0.
  pose proof (prelocate_item_spec L newL told tnew i HL HnL Hold Hnew Hi ltac:(lia)) as Hs. rewrite Heq in Hs.
  destruct Hs as (Ho' & Hn' & _ & _ & _ & _ & Hat & Hpo & (b0 & s0 & Hfree & Hpn)).
  set (key := pky (told i) (pcnt (told i) - 1)) in *. set (lo := pcnt (told i) - 1) in *.
  split; [exact Ho'|]. split; [exact Hn'|]. split; [|split].
  - intros k b s b' s' H1 H2. apply Hpo in H1. apply Hpo in H2. apply (Huo k); [apply H1|apply H2].
  - intros k b s b' s' H1 H2. apply Hpn in H1. apply Hpn in H2.
    destruct H1 as [H1|(E1 & -> & -> & _)], H2 as [H2|(E2 & -> & -> & _)].
    + apply (Hun k); assumption.
    + exfalso. subst k. apply (Hdis key). split; [exists i, lo; exact Hat|exists b, s; exact H1].
    + exfalso. subst k. apply (Hdis key). split; [exists i, lo; exact Hat|exists b', s'; exact H2].
    + split; reflexivity.
  - intros k [(b & s & H1) (b' & s' & H2)]. apply Hpo in H1. destruct H1 as [H1 Hne]. apply Hpn in H2.
    destruct H2 as [H2|(E & _)].
    + apply (Hdis k). split; [exists b, s; exact H1|exists b', s'; exact H2].
    + subst k. destruct (Huo key b s i lo H1 Hat) as [-> ->]. apply Hne. split; reflexivity.
Qed.

Lemma pmigrate_bucket_c_good L newL i budget : 0 <= L -> L < newL <= 63 -> 0 <= i < 2 ^ L ->
  forall fuel told tnew calls, PGood L newL told tnew ->
  match pmigrate_bucket_c H mm hash fuel told tnew L newL i budget calls with
  | Ok (told', tnew', _, _) => PGood L newL told' tnew'
  | _ => True
  end.
Proof.
  intros HL HnL Hi. induction fuel as [|f IH]; intros told tnew calls Hg; [exact I|].
  cbn [pmigrate_bucket_c]. destruct (Z.eqb_spec (pcnt (told i)) 0) as [Hz|Hnz]; [exact Hg|].
  destruct (pgetter_used H (told i) i L newL (pcnt (told i) - 1) && (budget <=? calls)); [exact Hg|].
  destruct (prelocate_item H mm hash told tnew L newL i) as [[told1 tnew1]| | |] eqn:E; try exact I.
  apply IH. apply (prelocate_good L newL told tnew i told1 tnew1 HL HnL Hi Hnz Hg E).
Qed.

Lemma pmigrate_from_c_good L newL budget : 0 <= L -> L < newL <= 63 ->
  forall n told tnew i calls, 0 <= i -> i + Z.of_nat n <= 2 ^ L -> PGood L newL told tnew ->
  match pmigrate_from_c H mm hash n told tnew L newL i budget calls with
  | Ok (told', tnew', _, _) => PGood L newL told' tnew'
  | _ => True
  end.
Proof.
  intros HL HnL. induction n as [|m IH]; intros told tnew i calls Hi Hn Hg; [exact Hg|].
  cbn [pmigrate_from_c].
  pose proof (pmigrate_bucket_c_good L newL i budget HL HnL ltac:(lia) 5%nat told tnew calls Hg) as Hb.
  destruct (pmigrate_bucket_c H mm hash 5 told tnew L newL i budget calls) as [[[[told1 tnew1] c1] th]| | |]; try exact I.
  destruct th; [exact Hb|]. apply IH; [lia|lia|exact Hb].
Qed.

Theorem pmigrate_from_c_exactly_one L newL budget told tnew calls : 0 <= L -> L < newL <= 63 -> PGood L newL told tnew ->
  match pmigrate_from_c H mm hash (Z.to_nat (2 ^ L)) told tnew L newL 0 budget calls with
  | Ok (told', tnew', _, thrown) =>
      PGood L newL told' tnew' /\
      (forall k, PPresent L told k \/ PPresent newL tnew k ->
         (PPresent L told' k \/ PPresent newL tnew' k) /\ ~ (PPresent L told' k /\ PPresent newL tnew' k)) /\
      (thrown = false -> forall k, PPresent L told k \/ PPresent newL tnew k -> PFound newL tnew' k)
  | Exn => True
  | _ => False
  end.
Proof.
  intros HL HnL Hg. pose proof Hg as (Hold & Hnew & _).
  assert (Hpos : 0 < 2 ^ L) by (apply pow2_pos; lia).
  pose proof (pmigrate_from_c_spec L newL budget HL HnL (Z.to_nat (2 ^ L)) told tnew 0 calls ltac:(lia) ltac:(lia) Hold Hnew
              ltac:(intros; lia)) as Hs.
  pose proof (pmigrate_from_c_good L newL budget HL HnL (Z.to_nat (2 ^ L)) told tnew 0 calls ltac:(lia) ltac:(lia) Hg) as Hgd.
  destruct (pmigrate_from_c H mm hash (Z.to_nat (2 ^ L)) told tnew L newL 0 budget calls) as [[[[told' tnew'] c'] th]| | |]; try exact Hs.
  destruct Hs as ((Ho & Hn & Hp & Hm) & Hz). split; [exact Hgd|]. split.
  - intros k Hk. split.
    + destruct Hk as [Hk|Hk]; [apply Hp; exact Hk|right; apply Hm; exact Hk].
    + destruct Hgd as (_ & _ & _ & _ & Hd). apply Hd.
  - intros Hth k Hk. apply ppresent_found; [exact Hn|].
    destruct Hk as [Hk|Hk]; [|apply Hm; exact Hk].
    destruct (Hp k Hk) as [(b & s & Hb & Hs1 & _)|G]; [exfalso|exact G].
    rewrite (Hz Hth) in Hs1 by lia. lia.
Qed.
End P4Inv.
