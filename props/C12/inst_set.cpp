// second instantiation TU for cxx2coq (C12): the bucket class the REAL HashSet selects for a slow-hash key with
// HashBucketOpen8 (= BucketOpen2N2<HashSetBucketItemTraits<...>, 3, true>), instantiated implicitly by using the container
#include "momo/HashSet.h"
#include "momo/details/HashBucketOpen8.h"
namespace c12set {
struct H { size_t operator()(const uint64_t& k) const { return size_t(k); } };
typedef momo::HashSet<uint64_t, momo::HashTraitsStd<uint64_t, H, std::equal_to<uint64_t>, momo::HashBucketOpen8>> Set;
inline void use(Set& s)
{
	s.Insert(1); s.Reserve(1000); s.Remove(1); (void)s.Find(2); s.Clear(false);
}
}
