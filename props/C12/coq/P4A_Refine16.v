(* DERIVED on every run by prop.py from P4A_Refine.v (Gen_P4A -> Gen_P4A16, minMemPoolIndex 2 -> 1): the same proof
   script for the 16-byte-item instantiation.  Do not edit.  C12, grow round 2: the REAL BucketLimP4::AddCrt (all five branches: pvAdd0<min>, pvAdd0<max>, pvAdd<1..3>, spare memory),
   pvGetMemPoolIndex, pvSetPtrState and WasFull are now generated (Gen_P4A, the pointer state modelled as the two scalars
   mPtrState_ptr / mPtrState_state).  Refinement: the generated AddCrt does to mShortHashes exactly what the hand
   composition P4_Model.p4_add does, and to the memory-pool index exactly what TableP4's hand bookkeeping does. *)
From Coq Require Import ZArith Bool List Lia.
From MomoCommon Require Import GenPrelude.
From C12 Require Import Gen_P4 Gen_P4A Gen_P4A16 P4_Model TableP4.
Local Open Scope Z_scope.

Lemma p4a_same_leaves16 H s ptr stt :
  Gen_P4A16.pvGetCount s ptr stt = Gen_P4.pvGetCount s /\
  (forall x, Gen_P4A16.pvCalcShortHash x = Gen_P4.pvCalcShortHash x) /\
  (forall i x L p, Gen_P4A16.pvSetHashProbe H s ptr stt i x L p = Gen_P4.pvSetHashProbe H s i x L p) /\
  Gen_P4A16.IsFull s ptr stt = Gen_P4.IsFull s.
Proof. repeat split; reflexivity. Qed.

(* memory-pool index = pointer state + 1; WasFull = (index = maxCount) *)
Lemma p4a_mpi16 s ptr stt : 0 <= stt < 4 -> Gen_P4A16.pvGetMemPoolIndex s ptr stt = stt + 1.
Proof. intros. unfold Gen_P4A16.pvGetMemPoolIndex, Gen_P4A16.useHashCodePartGetter. apply wrapU_small. change (2 ^ 64) with 18446744073709551616. lia. Qed.

Lemma p4a_wasfull16 s ptr stt : 0 <= stt < 4 -> Gen_P4A16.WasFull s ptr stt = (stt + 1 =? 4).
Proof. intros. unfold Gen_P4A16.WasFull. rewrite p4a_mpi16 by assumption. reflexivity. Qed.

Lemma p4a_setptr16 s ptr stt items mpi : 1 <= mpi <= 4 ->
  Gen_P4A16.pvSetPtrState s ptr stt items mpi = (s, items, mpi - 1).
Proof.
  intros. unfold Gen_P4A16.pvSetPtrState, Gen_P4A16.useHashCodePartGetter. cbn [negb andb].
  rewrite (wrapU_small 8 mpi) by (change (2 ^ 8) with 256; lia).
  rewrite !(wrapU_small 8 (mpi - 1)) by (change (2 ^ 8) with 256; lia). reflexivity.
Qed.

(* the refinement theorem.  Bucket-state preconditions are those of the class invariant: the pointer is null iff the bucket is
   empty; count <= memPoolIndex <= 4; an empty bucket has memPoolIndex minMemPoolIndex or maxCount. *)
Theorem p4a_addcrt_refines16 H mm s ptr stt x L probe m0a m0b m1a m1b m2a m2b m3a m3b m4a m4b :
  0 <= stt < 4 -> mm = 1 ->   (* pvAdd0<minMemPoolIndex> is instantiated for the 8-byte item: minMemPoolIndex = 1 *)
  let c := Gen_P4.pvGetCount s in let mpi := stt + 1 in
  0 <= c < 4 -> c <= mpi -> (ptr = 0 <-> c = 0) -> (c = 0 -> mpi = mm \/ mpi = 4) ->
  exists r s' ptr' stt',
    Gen_P4A16.AddCrt H mm s ptr stt x L probe m0a m0b m1a m1b m2a m2b m3a m3b m4a m4b = Ok (r, s', ptr', stt') /\
    p4_add H s x L probe = Ok s' /\
    stt' + 1 = (if c =? 0 then mpi else if c =? mpi then mpi + 1 else mpi) /\ 0 <= stt' < 4 /\
    (ptr' = ptr \/ ptr' = m0a \/ ptr' = m1a \/ ptr' = m2a \/ ptr' = m3a \/ ptr' = m4a).
Proof.
  intros Hst Hmm c mpi Hc Hle Hnull Hempty. subst mm.
  unfold Gen_P4A16.AddCrt. rewrite p4a_mpi16 by assumption. fold mpi.
  destruct (p4a_same_leaves16 H s ptr stt) as (Ec & Esh & Ehp & _).
  unfold p4_add. fold c. unfold Gen_P4.maxCount, Gen_P4A16.maxCount. destruct (Z.ltb_spec c 4); [|lia].
  destruct (Z.eqb_spec ptr 0) as [Hp0|Hp0].
  - (* no memory yet: count = 0 *)
    assert (Hc0 : c = 0) by (apply Hnull; assumption). destruct (Hempty Hc0) as [Em|Em].
    + rewrite Em, Z.eqb_refl. cbn [orb]. rewrite Ehp. unfold Gen_P4A16.pvAdd0_min. rewrite Esh, p4a_setptr16 by lia.
      do 4 eexists. split; [reflexivity|]. rewrite Hc0. split; [reflexivity|]. cbn [Z.eqb]. split; [lia|]. split; [lia|]. right; left; reflexivity.
    + rewrite Em. change (4 =? 1) with false. cbn [orb]. rewrite Z.eqb_refl. rewrite Ehp.
      unfold Gen_P4A16.pvAdd0_max. rewrite Esh, p4a_setptr16 by lia.
      do 4 eexists. split; [reflexivity|]. rewrite Hc0. split; [reflexivity|]. cbn [Z.eqb]. split; [lia|]. split; [lia|]. right; right; left; reflexivity.
  - assert (Hcpos : 0 < c) by (destruct (Z.eq_dec c 0) as [E|]; [exfalso; apply Hp0, Hnull, E|lia]).
    rewrite Ec. fold c. destruct (Z.ltb_spec 0 c); [|lia]. destruct (Z.leb_spec c mpi); [|lia]. cbn [andb].
    destruct (Z.ltb_spec c 4); [|lia].
    destruct (Z.eqb_spec c mpi) as [Ecm|Ecm].
    + (* the allocated block is full: move to the next pool *)
      destruct (Z.eqb_spec c 0); [lia|].
      assert (Hcases : mpi = 1 \/ mpi = 2 \/ mpi = 3) by lia.
      destruct Hcases as [E|[E|E]]; rewrite E in *; cbn [Z.eqb Pos.eqb]; rewrite Ehp.
      * unfold Gen_P4A16.pvAdd_1. cbv zeta. rewrite Esh, p4a_setptr16 by (change (wrapU 64 (1 + 1)) with 2; lia).
        do 4 eexists. split; [reflexivity|]. rewrite Ecm. split; [reflexivity|]. change (wrapU 64 (1 + 1)) with 2.
        split; [lia|]. split; [lia|]. right; right; right; right; right; reflexivity.
      * unfold Gen_P4A16.pvAdd_2. cbv zeta. rewrite Esh, p4a_setptr16 by (change (wrapU 64 (2 + 1)) with 3; lia).
        do 4 eexists. split; [reflexivity|]. rewrite Ecm. split; [reflexivity|]. change (wrapU 64 (2 + 1)) with 3.
        split; [lia|]. split; [lia|]. right; right; right; right; left; reflexivity.
      * unfold Gen_P4A16.pvAdd_3. cbv zeta. rewrite Esh, p4a_setptr16 by (change (wrapU 64 (3 + 1)) with 4; lia).
        do 4 eexists. split; [reflexivity|]. rewrite Ecm. split; [reflexivity|]. change (wrapU 64 (3 + 1)) with 4.
        split; [lia|]. split; [lia|]. right; right; right; left; reflexivity.
    + (* spare memory in the current block *)
      destruct (Z.eqb_spec c 0); [lia|]. rewrite Ehp, Esh, p4a_setptr16 by lia.
      do 4 eexists. split; [reflexivity|]. split; [reflexivity|]. split; [lia|]. split; [lia|]. left; reflexivity.
Qed.


(* same code: every function of the 16-byte-item instantiation except pvAdd0<minMemPoolIndex> (and AddCrt, which calls it) is
   convertible to the 8-byte-item one *)
Lemma p4a16_same_code :
  Gen_P4A16.pvGetCount = Gen_P4A.pvGetCount /\ Gen_P4A16.pvCalcShortHash = Gen_P4A.pvCalcShortHash /\
  Gen_P4A16.pvGetProbeShift = Gen_P4A.pvGetProbeShift /\ Gen_P4A16.IsFull = Gen_P4A.IsFull /\
  Gen_P4A16.pvGetMemPoolIndex = Gen_P4A.pvGetMemPoolIndex /\ Gen_P4A16.WasFull = Gen_P4A.WasFull /\
  Gen_P4A16.pvSetPtrState = Gen_P4A.pvSetPtrState /\ Gen_P4A16.pvSetEmpty = Gen_P4A.pvSetEmpty /\ Gen_P4A16.Clear = Gen_P4A.Clear /\
  Gen_P4A16.pvSetHashProbe = Gen_P4A.pvSetHashProbe /\ Gen_P4A16.pvAdd0_max = Gen_P4A.pvAdd0_max /\
  Gen_P4A16.pvAdd_1 = Gen_P4A.pvAdd_1 /\ Gen_P4A16.pvAdd_2 = Gen_P4A.pvAdd_2 /\ Gen_P4A16.pvAdd_3 = Gen_P4A.pvAdd_3 /\
  Gen_P4A16.Remove = Gen_P4A.Remove.
Proof. repeat split; reflexivity. Qed.
