(* C13: instantiate the table-level theorems with the GENERATED encoders and probe steps. *)
From Coq Require Import ZArith Bool List Lia.
From MomoCommon Require Import GenPrelude.
From C13 Require Gen_Open2N2 Gen_OpenN1 Gen_Open8 Open2N2_Proofs OpenN1_Proofs.
From C13 Require Import ProbeSeq OpenTable.
Import ListNotations.
Local Open Scope Z_scope.

Definition upd2 (s : Z -> Z) (p : Z) : Z -> Z :=
  match Gen_Open2N2.UpdateMaxProbe s p with Ok (_, s') => s' | _ => s end.

Lemma pow_le_63 n : 0 <= n <= 63 -> 2 ^ n <= 2 ^ 63.
Proof. intros. apply Z.pow_le_mono_r; lia. Qed.

Section O2.
Variable n : Z. Hypothesis Hn : 0 <= n <= 63.
Lemma upd2_good b p : Open2N2_Proofs.enc_inv b -> 0 <= p < 2 ^ n -> Open2N2_Proofs.enc_inv (upd2 b p).
Proof.
  intros Hb Hp. pose proof (pow_le_63 n Hn).
  destruct (Open2N2_Proofs.update_spec b p Hb ltac:(lia)) as (s' & Hr & Hi & _). unfold upd2. rewrite Hr. exact Hi.
Qed.
Lemma upd2_covers b p : Open2N2_Proofs.enc_inv b -> 0 <= p < 2 ^ n -> p <= Gen_Open2N2.pvGetMaxProbe (upd2 b p).
Proof.
  intros Hb Hp. pose proof (pow_le_63 n Hn).
  destruct (Open2N2_Proofs.update_spec b p Hb ltac:(lia)) as (s' & Hr & _ & Hge & _). unfold upd2. rewrite Hr. exact Hge.
Qed.
Lemma upd2_keeps b p q : Open2N2_Proofs.enc_inv b -> 0 <= p < 2 ^ n -> q < 2 ^ n ->
  q <= Gen_Open2N2.pvGetMaxProbe b -> q <= Gen_Open2N2.pvGetMaxProbe (upd2 b p).
Proof.
  intros Hb Hp _ Hq. pose proof (pow_le_63 n Hn).
  destruct (Open2N2_Proofs.update_spec b p Hb ltac:(lia)) as (s' & Hr & _ & _ & Hmono & _). unfold upd2. rewrite Hr.
  unfold Open2N2_Proofs.decode in Hmono. lia.
Qed.
End O2.

(* Open2N2: every reachable table finds every present key; "full" only when all buckets are full *)
Theorem open2n2_present_key_found n cap h ops b k :
  0 <= n <= 63 -> (forall k, 0 <= h k < 2 ^ n) ->
  let s := fold_left (step n Gen_Open2N2.GetNextBucketIndex cap h (Z -> Z) upd2) ops
                     {| bk := fun _ => []; bd := fun _ => (fun _ => 0) |} in
  In k (bk _ s b) -> find n Gen_Open2N2.GetNextBucketIndex h (Z -> Z) Gen_Open2N2.pvGetMaxProbe s k = true.
Proof.
  intros Hn Hh. apply (present_key_found_all_histories n Hn Gen_Open2N2.GetNextBucketIndex cap h (Z -> Z)
    Open2N2_Proofs.enc_inv Gen_Open2N2.pvGetMaxProbe upd2 (upd2_good n Hn) (upd2_covers n Hn) (upd2_keeps n Hn)).
  exact Open2N2_Proofs.enc_inv_empty.
Qed.

Theorem open2n2_full_only_if_all_full n cap h (s : table (Z -> Z)) k :
  0 <= n <= 63 -> (forall k, 0 <= h k < 2 ^ n) ->
  add n Gen_Open2N2.GetNextBucketIndex cap h (Z -> Z) upd2 s k = None ->
  forall b, 0 <= b < 2 ^ n -> (cap <= length (bk _ s b))%nat.
Proof.
  intros Hn Hh. apply (add_fails_only_if_all_full n Hn Gen_Open2N2.GetNextBucketIndex (open2n2_next_spec n Hn) cap h Hh).
Qed.

(* OpenN1<maxCount> / Open8 *)
Definition updN (mc : Z) (s : Z -> Z) (p : Z) : Z -> Z :=
  match Gen_OpenN1.UpdateMaxProbe mc s p with Ok (_, s') => s' | _ => s end.

Section N1.
Variable mc n : Z. Hypothesis Hn : 0 <= n <= 63.
Lemma updN_good b p : OpenN1_Proofs.enc_inv mc b -> 0 <= p < 2 ^ n -> OpenN1_Proofs.enc_inv mc (updN mc b p).
Proof.
  intros Hb Hp. destruct (OpenN1_Proofs.update_spec mc b p n Hb Hn Hp) as (s' & Hr & Hi & _). unfold updN. rewrite Hr. exact Hi.
Qed.
Lemma updN_covers b p : OpenN1_Proofs.enc_inv mc b -> 0 <= p < 2 ^ n -> p <= Gen_OpenN1.GetMaxProbe mc (updN mc b p) n.
Proof.
  intros Hb Hp. destruct (OpenN1_Proofs.update_spec mc b p n Hb Hn Hp) as (s' & Hr & _ & Hge & _). unfold updN. rewrite Hr. exact Hge.
Qed.
Lemma updN_keeps b p q : OpenN1_Proofs.enc_inv mc b -> 0 <= p < 2 ^ n -> q < 2 ^ n ->
  q <= Gen_OpenN1.GetMaxProbe mc b n -> q <= Gen_OpenN1.GetMaxProbe mc (updN mc b p) n.
Proof.
  intros Hb Hp Hq Hqb. destruct (OpenN1_Proofs.update_spec mc b p n Hb Hn Hp) as (s' & Hr & _ & _ & Hold & _). unfold updN. rewrite Hr.
  apply Hold; assumption.
Qed.
End N1.

Theorem open8_present_key_found mc n cap h ops b k :
  0 <= n <= 63 -> (forall k, 0 <= h k < 2 ^ n) ->
  let s := fold_left (step n Gen_Open8.GetNextBucketIndex cap h (Z -> Z) (updN mc)) ops
                     {| bk := fun _ => []; bd := fun _ => (fun _ => 0) |} in
  In k (bk _ s b) ->
  find n Gen_Open8.GetNextBucketIndex h (Z -> Z) (fun st => Gen_OpenN1.GetMaxProbe mc st n) s k = true.
Proof.
  intros Hn Hh. apply (present_key_found_all_histories n Hn Gen_Open8.GetNextBucketIndex cap h (Z -> Z)
    (OpenN1_Proofs.enc_inv mc) (fun st => Gen_OpenN1.GetMaxProbe mc st n) (updN mc)
    (updN_good mc n Hn) (updN_covers mc n Hn) (updN_keeps mc n Hn)).
  unfold OpenN1_Proofs.enc_inv. lia.
Qed.

Theorem open8_full_only_if_all_full mc n cap h (s : table (Z -> Z)) k :
  0 <= n <= 63 -> (forall k, 0 <= h k < 2 ^ n) ->
  add n Gen_Open8.GetNextBucketIndex cap h (Z -> Z) (updN mc) s k = None ->
  forall b, 0 <= b < 2 ^ n -> (cap <= length (bk _ s b))%nat.
Proof.
  intros Hn Hh. apply (add_fails_only_if_all_full n Hn Gen_Open8.GetNextBucketIndex (open8_next_spec n Hn) cap h Hh).
Qed.

(* non-vacuity: a 4-bucket Open2N2 table, capacity 1, constant hash: four keys fill it, the fifth add fails *)
Example table_example :
  let st := step 2 Gen_Open2N2.GetNextBucketIndex 1 (fun _ => 1) (Z -> Z) upd2 in
  let s := fold_left st [OAdd 10; OAdd 11; OAdd 12; OAdd 13] {| bk := fun _ => []; bd := fun _ => (fun _ => 0) |} in
  map (bk _ s) [0; 1; 2; 3] = [[12]; [10]; [11]; [13]] /\
  add 2 Gen_Open2N2.GetNextBucketIndex 1 (fun _ => 1) (Z -> Z) upd2 s 14 = None /\
  find 2 Gen_Open2N2.GetNextBucketIndex (fun _ => 1) (Z -> Z) Gen_Open2N2.pvGetMaxProbe s 13 = true.
Proof. vm_compute. repeat split. Qed.
