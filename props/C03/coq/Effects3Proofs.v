(* C03 -- proofs for Effects3.v (SegmentedArray range constructor). *)
From Coq Require Import ZArith Bool List Lia.
From C03 Require Import Effects EffectsProofs Effects2 Effects2Proofs Effects3.
Import ListNotations.
Local Open Scope Z_scope.

Section SegArrProofs.
Variables mgr segsz : Z.
Variable segcapf : nat -> nat.
Variable f : loc -> bool.
Variable bs : list (Z * (Z * Z)).
Variables nb0 src : Z.
Hypothesis Hcl : forall l, nb0 <= fst l -> f l = false.
Hypothesis Hsr : forall x, 0 <= x -> f (src, x) = true.

Notation inr := in_rows.
Notation rbl := (rblks mgr segsz).

Definition cur_occ (cur : option (Z * nat)) (l : loc) : bool :=
  match cur with Some (seg, fill) => inrng seg 0 fill l | None => false end.
Definition cur_blk (cur : option (Z * nat)) : list (Z * (Z * Z)) :=
  match cur with Some (seg, _) => [(seg, (mgr, segsz))] | None => [] end.

Definition sa_inv (st : sa_state) (s : rstate) (nb : Z) : Prop :=
  st_is s (fun l => cur_occ (snd st) l || (inr (fst st) l || f l)) (cur_blk (snd st) ++ rbl (fst st) ++ bs) nb /\
  dlist (cur_blk (snd st) ++ rbl (fst st) ++ bs) nb /\
  Forall (fun rw => nb0 <= fst rw) (fst st) /\ nb0 <= nb /\
  match snd st with Some (seg, fill) => nb0 <= seg /\ (fill <= segcapf (length (fst st)))%nat | None => True end.

Lemma olds_clear_at olds seg tail nb l :
  dlist ((seg, (mgr, segsz)) :: rbl olds ++ tail) nb -> nb0 <= seg -> fst l = seg -> inr olds l || f l = false.
Proof.
  intros [_ Dr] Hs El. rewrite (Hcl l) by lia. rewrite orb_false_r. apply in_rows_other. intros r Hin.
  assert (fst r < seg). { apply (dlist_fresh _ seg Dr (fst r) (mgr, segsz)). apply in_or_app. left. unfold rblks.
                          apply in_map_iff. exists r. split; [reflexivity|exact Hin]. }
  lia.
Qed.

(* constructing one more item in the current segment *)
Lemma sa_put olds seg fill i s nb :
  0 <= i -> (fill < segcapf (length olds))%nat -> sa_inv (olds, Some (seg, fill)) s nb ->
  match p_copy (seg, Z.of_nat fill) (src, i) s with
  | (Val _, s') => sa_inv (olds, Some (seg, S fill)) s' nb
  | (Exc, s') => sa_inv (olds, Some (seg, fill)) s' nb
  | (Stuck, _) => False
  end.
Proof.
  intros Hi Hlt (H & D & Hge & Hn & Hs & Hf). cbn [fst snd] in *.
  pose proof (p_copy_post (seg, Z.of_nat fill) (src, i) s _ _ _ H) as P.
  assert (E1 : cur_occ (Some (seg, fill)) (src, i) || (inr olds (src, i) || f (src, i)) = true).
  { rewrite (Hsr i Hi). rewrite !orb_true_r. reflexivity. }
  assert (E2 : cur_occ (Some (seg, fill)) (seg, Z.of_nat fill) || (inr olds (seg, Z.of_nat fill) || f (seg, Z.of_nat fill)) = false).
  { rewrite (olds_clear_at olds seg bs nb (seg, Z.of_nat fill) D Hs eq_refl), orb_false_r. simpl.
    destruct (inrng_spec seg 0 fill (seg, Z.of_nat fill)) as [[_ Eb]|]; [simpl in Eb; lia|reflexivity]. }
  specialize (P E1 E2). unfold post in P.
  destruct (p_copy (seg, Z.of_nat fill) (src, i) s) as [[u| |] s']; [| |contradiction].
  - split; [|split; [exact D|split; [exact Hge|split; [exact Hn|split; [exact Hs|cbn [fst snd]; lia]]]]]. cbn [fst snd].
    eapply st_is_ext; [|exact P]. intros l. cbn [cur_occ].
    pose proof (inrng_snoc seg 0 fill l) as E. rewrite Z.add_0_l in E. rewrite E.
    destruct (loc_eqb l (seg, Z.of_nat fill)), (inrng seg 0 fill l), (inr olds l), (f l); reflexivity.
  - split; [exact P|]. split; [exact D|]. split; [exact Hge|]. split; [exact Hn|]. split; [exact Hs|cbn [fst snd]; lia].
Qed.

Lemma sa_fill_spec : forall n i st s nb,
  0 <= i -> (forall k, 0 < segcapf k)%nat -> sa_inv st s nb ->
  match sa_fill mgr segsz segcapf src i n st s with
  | ((_, Stuck), _) => False
  | ((st', _), s') => exists nb', sa_inv st' s' nb'
  end.
Proof.
  induction n as [|n IH]; intros i [olds cur] s nb Hi Hcap I; simpl.
  - exists nb. exact I.
  - destruct cur as [[seg fill]|].
    + destruct (Nat.ltb_spec fill (segcapf (length olds))) as [Hlt|Hge'].
      * pose proof (sa_put olds seg fill i s nb Hi Hlt I) as P.
        destruct (p_copy (seg, Z.of_nat fill) (src, i) s) as [[u| |] s2]; [| |contradiction].
        -- apply (IH (i + 1) (olds, Some (seg, S fill)) s2 nb); [lia|exact Hcap|exact P].
        -- exists nb. exact P.
      * (* the current segment is full: a new one *)
        pose proof I as (H & D & Hge & Hn & Hs & Hf). cbn [fst snd] in *.
        assert (Efill : fill = segcapf (length olds)) by lia.
        pose proof (p_alloc_post mgr segsz s _ _ nb H) as A. unfold post in A.
        destruct (p_alloc mgr segsz s) as [[sg| |] s1]; [| |contradiction].
        2:{ exists nb. split; [exact A|]. split; [exact D|]. split; [exact Hge|]. split; [exact Hn|]. split; [exact Hs|cbn [fst snd]; lia]. }
        destruct A as [Eg H1]. subst sg.
        assert (I1 : sa_inv ((seg, fill) :: olds, Some (nb, O)) s1 (nb + 1)).
        { split; [|split; [apply (dlist_cons _ nb (mgr, segsz)); exact D|split; [constructor; [exact Hs|exact Hge]|split; [lia|split; [lia|cbn [fst snd]; lia]]]]].
          cbn [fst snd cur_occ cur_blk]. eapply st_is_ext; [|exact H1]. intros l. cbn [cur_occ]. rewrite inrng_0. simpl orb.
          unfold in_rows. simpl existsb. rewrite orb_assoc. reflexivity. }
        pose proof (sa_put ((seg, fill) :: olds) nb O i s1 (nb + 1) Hi (Hcap _) I1) as P.
        change (Z.of_nat 0) with 0 in *.
        destruct (p_copy (nb, 0) (src, i) s1) as [[u| |] s2]; [| |contradiction].
        -- apply (IH (i + 1) ((seg, fill) :: olds, Some (nb, 1%nat)) s2 (nb + 1)); [lia|exact Hcap|exact P].
        -- exists (nb + 1). exact P.
    + (* no segment yet *)
      pose proof I as (H & D & Hge & Hn & _). cbn [fst snd cur_occ cur_blk] in *. simpl app in H, D.
      pose proof (p_alloc_post mgr segsz s _ _ nb H) as A. unfold post in A.
      destruct (p_alloc mgr segsz s) as [[sg| |] s1]; [| |contradiction].
      2:{ exists nb. split; [exact A|]. split; [exact D|]. split; [exact Hge|]. split; [exact Hn|simpl; exact Coq.Init.Logic.I]. }
      destruct A as [Eg H1]. subst sg.
      assert (I1 : sa_inv (olds, Some (nb, O)) s1 (nb + 1)).
      { split; [|split; [apply (dlist_cons _ nb (mgr, segsz)); exact D|split; [exact Hge|split; [lia|split; [lia|cbn [fst snd]; lia]]]]].
        cbn [fst snd cur_occ cur_blk]. eapply st_is_ext; [|exact H1]. intros l. rewrite inrng_0. reflexivity. }
      pose proof (sa_put olds nb O i s1 (nb + 1) Hi (Hcap _) I1) as P.
      change (Z.of_nat 0) with 0 in *.
      destruct (p_copy (nb, 0) (src, i) s1) as [[u| |] s2]; [| |contradiction].
      * apply (IH (i + 1) (olds, Some (nb, 1%nat)) s2 (nb + 1)); [lia|exact Hcap|exact P].
      * exists (nb + 1). exact P.
Qed.

Lemma sa_clear_post st s nb :
  sa_inv st s nb ->
  post (sa_clear mgr segsz st) s (fun _ s' => st_is s' f bs nb /\ dlist bs nb) (fun _ => False).
Proof.
  destruct st as [olds cur]. intros (H & D & Hge & Hn & Hc). cbn [fst snd] in *. unfold sa_clear. cbn [fst snd].
  apply post_bind.
  assert (Rest : forall s1, st_is s1 (fun l => inr olds l || f l) (rbl olds ++ bs) nb -> dlist (rbl olds ++ bs) nb ->
            post (drop_rows mgr segsz olds) s1 (fun _ s' => st_is s' f bs nb /\ dlist bs nb) (fun _ => False)).
  { intros s1 H1 D1.
    eapply post_conseq; [apply (drop_rows_post mgr segsz f bs nb0 Hcl olds s1 nb)| |auto].
    - split; [exact H1|]. split; [exact D1|]. split; [exact Hge|exact Hn].
    - intros u s2 (A & B & _). simpl app in A, B. split; assumption. }
  destruct cur as [[seg fill]|].
  - destruct Hc as [Hs Hf]. cbn [cur_occ cur_blk] in H, D. simpl app in H, D.
    eapply post_conseq;
      [apply (drop_post mgr segsz fill (fun sg => p_touch_blk sg ;;; om_destroy_n sg 0 fill ;;; p_dealloc mgr sg segsz) seg s
                        (fun l => inr olds l || f l) (rbl olds ++ bs) nb eq_refl H D)| |auto].
    + intros l El. apply (olds_clear_at olds seg bs nb l D Hs El).
    + intros u s1 H1. apply (Rest s1 H1). destruct D as [Hb Dr]. apply (dlist_mono _ seg nb); [lia|exact Dr].
  - apply post_ret. cbn [cur_occ cur_blk] in H, D. simpl app in H, D. apply (Rest s H D).
Qed.

End SegArrProofs.

(* SegmentedArray(begin, end, memManager) + ~SegmentedArray: every schedule, every item count, every segment capacity >= 1:
   never Stuck, every item destroyed once, every segment returned once, the world ends as it started *)
Theorem sa_ctor_then_destroy_post mgr segsz segcapf src kr n s f bs :
  (forall k, 0 < segcapf k)%nat -> rows_world s f bs src kr ->
  post (sa_ctor_then_destroy mgr segsz segcapf src n) s
       (fun _ s' => st_is s' f bs (nextb s')) (fun s' => st_is s' f bs (nextb s')).
Proof.
  intros Hcap (H & D & Hcl & Hsr & _). unfold sa_ctor_then_destroy, post.
  assert (I0 : sa_inv mgr segsz segcapf f bs (nextb s) ([], None) s (nextb s)).
  { split; [exact H|]. split; [exact D|]. split; [constructor|]. split; [lia|exact I]. }
  pose proof (sa_fill_spec mgr segsz segcapf f bs (nextb s) src Hcl Hsr n 0 ([], None) s (nextb s) (Z.le_refl 0) Hcap I0) as F.
  destruct (sa_fill mgr segsz segcapf src 0 n ([], None) s) as [[st o] s1].
  assert (Clr : forall st2 s2 nb2, sa_inv mgr segsz segcapf f bs (nextb s) st2 s2 nb2 ->
            match sa_clear mgr segsz st2 s2 with
            | (Stuck, _) => False
            | (_, s3) => st_is s3 f bs nb2 /\ dlist bs nb2 /\ nextb s3 = nb2
            end).
  { intros st2 s2 nb2 I2. pose proof (sa_clear_post mgr segsz segcapf f bs (nextb s) Hcl st2 s2 nb2 I2) as P. unfold post in P.
    destruct (sa_clear mgr segsz st2 s2) as [[u| |] s3]; try contradiction.
    destruct P as [A B]. split; [exact A|]. split; [exact B|]. destruct A as (_ & _ & C). exact C. }
  destruct o as [u| |]; [| |contradiction]; destruct F as [nb1 I1].
  - specialize (Clr st s1 nb1 I1). destruct (sa_clear mgr segsz st s1) as [[u'| |] s3]; try contradiction;
      destruct Clr as (A & _ & C); rewrite C; exact A.
  - pose proof (Clr st s1 nb1 I1) as C1. destruct (sa_clear mgr segsz st s1) as [[u'| |] s2]; try contradiction;
      destruct C1 as (A & B & C);
      (assert (I2 : sa_inv mgr segsz segcapf f bs (nextb s) ([], None) s2 nb1)
         by (split; [exact A|split; [exact B|split; [constructor|split; [destruct I1 as (_ & _ & _ & ? & _); assumption|exact I]]]]));
      pose proof (Clr ([], None) s2 nb1 I2) as C2;
      destruct (sa_clear mgr segsz ([], None) s2) as [[u''| |] s3]; try contradiction;
      destruct C2 as (A2 & _ & C2'); rewrite C2'; exact A2.
Qed.

Theorem sa_ctor_any_schedule mgr segsz segcapf n sch :
  (forall k, 0 < segcapf k)%nat ->
  post (sa_ctor_then_destroy mgr segsz segcapf (-1) n) (rows_init sch)
       (fun _ s' => back_to_start s') (fun s' => back_to_start s').
Proof.
  intros Hcap. eapply post_conseq; [apply (sa_ctor_then_destroy_post mgr segsz segcapf (-1) (-2) n _ _ _ Hcap (rows_init_world sch))| |].
  - intros u s' (A & B & _). split; [exact B|exact A].
  - intros s' (A & B & _). split; [exact B|exact A].
Qed.

(* ================================================================== HashSet growth and pvRelocateItems *)
Section GrowthProofs.
Variable c : cat.
Variable mgr : Z.
Variable gensz : Z -> Z.
Variable f : loc -> bool.
Variable bs : list (Z * (Z * Z)).
Variables nb0 src : Z.
Hypothesis Hcl : forall l, nb0 <= fst l -> f l = false.
Hypothesis Hsr : forall x, 0 <= x -> f (src, x) = true.

Definition gocc (g : gen) (l : loc) : bool := inrng (g_blk g) 0 (g_fill g) l.
Definition gens_occ (gs : list gen) (l : loc) : bool := existsb (fun g => gocc g l) gs.
Definition gens_blks (gs : list gen) : list (Z * (Z * Z)) := map (fun g => (g_blk g, (mgr, gensz (g_no g)))) gs.

(* representation invariant of a table (newest generation, older ones oldest first) on top of the blocks bs *)
Definition tb_inv (t : table) (s : rstate) (nb : Z) : Prop :=
  st_is s (fun l => gens_occ (fst t :: snd t) l || f l) (gens_blks (fst t :: rev (snd t)) ++ bs) nb /\
  dlist (gens_blks (fst t :: rev (snd t)) ++ bs) nb /\
  Forall (fun g => nb0 <= g_blk g) (fst t :: snd t) /\ nb0 <= nb.

Lemma gens_occ_rev gs l : gens_occ (rev gs) l = gens_occ gs l.
Proof.
  unfold gens_occ. apply eq_true_iff_eq. rewrite !existsb_exists. split; intros (g & Hin & Hg); exists g; (split; [|exact Hg]).
  - apply in_rev. exact Hin.
  - apply in_rev. rewrite rev_involutive. exact Hin.
Qed.

Lemma gens_occ_other gs l : (forall g, In g gs -> g_blk g <> fst l) -> gens_occ gs l = false.
Proof.
  induction gs as [|g gs IH]; intros Hn; [reflexivity|]. simpl. unfold gocc at 1.
  rewrite (inrng_other_region (g_blk g) 0 (g_fill g) l) by (intros E; apply (Hn g (or_introl eq_refl)); congruence).
  apply IH. intros g' Hin. apply Hn. right. exact Hin.
Qed.

(* the block ids of the generations of a table are pairwise different (they sit in one strictly descending list) *)
Lemma dlist_ids_distinct l : forall nb, dlist l nb -> NoDup (map fst l).
Proof.
  induction l as [|[b p] l IH]; intros nb D; simpl; [constructor|]. destruct D as [Hb Dr]. constructor; [|apply (IH b Dr)].
  intros Hin. apply in_map_iff in Hin. destruct Hin as ([b' p'] & E & Hin). simpl in E. subst b'.
  pose proof (dlist_fresh l b Dr b p' Hin). lia.
Qed.

(* moving items from one generation to another; everything else (h) lives in other regions *)
Lemma migrate_items_spec (h : loc -> bool) : forall n old nw s bs' nb,
  g_blk old <> g_blk nw ->
  (forall l, fst l = g_blk old \/ fst l = g_blk nw -> h l = false) ->
  st_is s (fun l => gocc nw l || (gocc old l || h l)) bs' nb ->
  match migrate_items c n old nw s with
  | ((_, Stuck), _) => False
  | (((old', nw'), o), s') =>
      st_is s' (fun l => gocc nw' l || (gocc old' l || h l)) bs' nb /\
      g_blk old' = g_blk old /\ g_no old' = g_no old /\ g_blk nw' = g_blk nw /\ g_no nw' = g_no nw /\
      (o = Val tt -> (g_fill old <= n)%nat -> g_fill old' = O)
  end.
Proof.
  induction n as [|n IH]; intros [[ob ofill] ono] [[nwb nfill] nno] s bs' nb Hne Hh H; simpl.
  - split; [exact H|]. do 4 (split; [reflexivity|]). intros _ Hle. unfold g_fill in *. simpl in *. lia.
  - unfold g_fill at 1. cbn [fst snd]. destruct ofill as [|f'].
    + split; [exact H|]. do 4 (split; [reflexivity|]). intros _ _. reflexivity.
    + unfold migrate_item, om_relocate1, g_blk, g_fill, g_no in *. cbn [fst snd] in *.
      replace (Z.of_nat (S f') - 1) with (Z.of_nat f') by lia.
      set (srcl := (ob, Z.of_nat f')). set (dstl := (nwb, Z.of_nat nfill)).
      assert (Es : gocc (nwb, nfill, nno) srcl || (gocc (ob, S f', ono) srcl || h srcl) = true).
      { unfold gocc, g_blk, g_fill. cbn [fst snd]. replace srcl with (ob, 0 + Z.of_nat f') by (unfold srcl; f_equal; lia).
        rewrite (inrng_in ob 0 (S f') (Z.of_nat f')) by lia. rewrite orb_true_r. reflexivity. }
      assert (Ed : gocc (nwb, nfill, nno) dstl || (gocc (ob, S f', ono) dstl || h dstl) = false).
      { unfold gocc, g_blk, g_fill. cbn [fst snd]. rewrite (Hh dstl) by (right; reflexivity).
        rewrite (inrng_other_region ob 0 (S f') dstl) by (simpl; congruence).
        destruct (inrng_spec nwb 0 nfill dstl) as [[_ Eb]|]; [simpl in Eb; lia|reflexivity]. }
      assert (P : post (om_move c dstl srcl ;;; p_destroy srcl) s
                    (fun _ s' => st_is s' (fun l => gocc (nwb, S nfill, nno) l || (gocc (ob, f', ono) l || h l)) bs' nb)
                    (fun s' => st_is s' (fun l => gocc (nwb, nfill, nno) l || (gocc (ob, S f', ono) l || h l)) bs' nb)).
      { apply post_bind.
        eapply post_conseq; [apply (om_move_post c dstl srcl s _ _ _ H Es Ed)| |intros s' [_ ?]; assumption].
        intros u1 s1 H1.
        eapply post_conseq; [apply (p_destroy_post srcl s1 _ _ _ H1)| |intros ? []].
        - cbv beta. rewrite Es. apply orb_true_r.
        - intros u2 s2 H2. eapply st_is_ext; [|exact H2]. intros l. cbv beta. unfold gocc, g_blk, g_fill. cbn [fst snd].
          pose proof (inrng_snoc nwb 0 nfill l) as E1. rewrite Z.add_0_l in E1. rewrite E1.
          pose proof (inrng_snoc ob 0 f' l) as E2. rewrite Z.add_0_l in E2. rewrite E2. fold srcl dstl.
          destruct (loc_eqb_spec l srcl) as [El|]; cbn [negb andb orb].
          + subst l. rewrite (Hh srcl) by (left; reflexivity).
            rewrite (inrng_other_region nwb 0 nfill srcl) by (simpl; congruence).
            destruct (loc_eqb_spec srcl dstl) as [E|]; [unfold srcl, dstl in E; congruence|].
            destruct (inrng_spec ob 0 f' srcl) as [[_ Eb]|]; [simpl in Eb; lia|reflexivity].
          + destruct (loc_eqb l dstl), (inrng nwb 0 nfill l), (inrng ob 0 f' l), (h l); reflexivity. }
      unfold post in P.
      destruct ((om_move c dstl srcl;;; p_destroy srcl) s) as [[u| |] s1]; [| |contradiction].
      * specialize (IH (ob, f', ono) (nwb, S nfill, nno) s1 bs' nb Hne Hh P).
        destruct (migrate_items c n (ob, f', ono) (nwb, S nfill, nno) s1) as [[[old' nw'] o] s2].
        destruct o; try contradiction; destruct IH as (A & B1 & B2 & B3 & B4 & B5);
          (split; [exact A|]; split; [exact B1|]; split; [exact B2|]; split; [exact B3|]; split; [exact B4|]);
          intros E Hle; [apply B5; [exact E|]; unfold g_fill in *; simpl in *; lia|discriminate].
      * split; [exact P|]. do 4 (split; [reflexivity|]). intros E. discriminate.
Qed.

Lemma nodup_app_l {A} (l l' : list A) : NoDup (l ++ l') -> NoDup l.
Proof.
  induction l as [|a l IH]; intros N; [constructor|]. inversion N as [|x xs Hx Hxs]; subst. constructor.
  - intros Hin. apply Hx. apply in_or_app. left. exact Hin.
  - apply IH. exact Hxs.
Qed.

(* facts about the generations of a table that follow from the invariant *)
Lemma tb_blocks_distinct t s nb : tb_inv t s nb -> NoDup (map g_blk (fst t :: rev (snd t))).
Proof.
  intros (_ & D & _). pose proof (dlist_ids_distinct _ nb D) as N. rewrite map_app in N.
  apply nodup_app_l in N. unfold gens_blks in N. rewrite map_map in N. exact N.
Qed.

Lemma gens_blks_app a b : gens_blks (a ++ b) = gens_blks a ++ gens_blks b.
Proof. apply map_app. Qed.

(* pvRelocateItems(buckets): oldest generation first; each is freed exactly when emptied; an exception stops it *)
Lemma migrate_gens_spec : forall olds nw s nb,
  tb_inv (nw, olds) s nb ->
  match migrate_gens c mgr gensz olds nw s with
  | ((_, Stuck), _) => False
  | ((t', _), s') => tb_inv t' s' nb
  end.
Proof.
  induction olds as [|old rest IH]; intros nw s nb I; simpl.
  - exact I.
  - pose proof I as (H & D & Hge & Hn). cbn [fst snd] in H, D, Hge.
    pose proof (tb_blocks_distinct _ _ _ I) as N. cbn [fst snd] in N. simpl rev in N.
    assert (Hne : g_blk old <> g_blk nw).
    { inversion N as [|x xs Hx _]; subst. intros E. apply Hx. rewrite <- E. apply in_map. apply in_or_app. right. left. reflexivity. }
    assert (Hrest : forall g, In g rest -> g_blk g <> g_blk old /\ g_blk g <> g_blk nw).
    { intros g Hin. inversion N as [|x xs Hx Hxs]; subst. split.
      - rewrite map_app in Hxs. simpl in Hxs. intros E.
        apply NoDup_remove_2 in Hxs. apply Hxs. rewrite app_nil_r. rewrite <- E. apply in_map. apply in_rev. rewrite rev_involutive. exact Hin.
      - intros E. apply Hx. rewrite <- E. apply in_map. apply in_or_app. left. apply in_rev. rewrite rev_involutive. exact Hin. }
    set (h := fun l => gens_occ rest l || f l).
    assert (Hh : forall l, fst l = g_blk old \/ fst l = g_blk nw -> h l = false).
    { intros l El. unfold h.
      assert (nb0 <= fst l).
      { inversion Hge as [|x xs Hx Hxs]; subst. inversion Hxs; subst. destruct El as [E|E]; rewrite E; assumption. }
      rewrite (Hcl l) by assumption. rewrite orb_false_r. apply gens_occ_other. intros g Hin.
      destruct (Hrest g Hin). destruct El as [E|E]; rewrite E; assumption. }
    assert (H' : st_is s (fun l => gocc nw l || (gocc old l || h l)) (gens_blks (nw :: rev (old :: rest)) ++ bs) nb).
    { eapply st_is_ext; [|exact H]. intros l. unfold h. simpl. rewrite !orb_assoc. reflexivity. }
    pose proof (migrate_items_spec h (g_fill old) old nw s _ nb Hne Hh H') as M.
    destruct (migrate_items c (g_fill old) old nw s) as [[[old' nw'] o] s1].
    destruct o as [u| |]; [| |contradiction]; destruct M as (A & B1 & B2 & B3 & B4 & B5).
    + (* the generation is empty: its buffer goes back *)
      destruct u. specialize (B5 eq_refl (Nat.le_refl _)).
      assert (Eblk : gens_blks (nw :: rev (old :: rest)) ++ bs =
                     (gens_blks (nw :: rev rest)) ++ (g_blk old', (mgr, gensz (g_no old'))) :: bs).
      { simpl rev. rewrite B1, B2. unfold gens_blks. simpl. rewrite map_app. simpl. rewrite <- app_assoc. reflexivity. }
      rewrite Eblk in A, D.
      pose proof (p_dealloc_post mgr (g_blk old') (gensz (g_no old')) s1 _ _ _ A) as P.
      destruct (remove_mid (g_blk old') (mgr, gensz (g_no old')) bs (gens_blks (nw :: rev rest)) nb D) as [Er Dr].
      assert (Hf : find_blk (g_blk old') (gens_blks (nw :: rev rest) ++ (g_blk old', (mgr, gensz (g_no old'))) :: bs)
                   = Some (mgr, gensz (g_no old'))).
      { clear -D. revert nb D. generalize (gens_blks (nw :: rev rest)) as top. induction top as [|[x y] top IHt]; intros nb D.
        - simpl. rewrite Z.eqb_refl. reflexivity.
        - simpl in D. destruct D as [Hx Dt]. simpl.
          assert (g_blk old' < x). { apply (dlist_fresh _ x Dt (g_blk old') (mgr, gensz (g_no old'))). apply in_or_app. right. left. reflexivity. }
          destruct (Z.eqb_spec x (g_blk old')); [lia|]. apply (IHt x Dt). }
      specialize (P Hf). unfold post in P.
      destruct (p_dealloc mgr (g_blk old') (gensz (g_no old')) s1) as [[u'| |] s2]; try contradiction.
      rewrite Er in P.
      apply (IH nw' s2 nb). split; [|split; [|split]].
      * cbn [fst snd]. assert (Eb : gens_blks (nw' :: rev rest) = gens_blks (nw :: rev rest)).
        { unfold gens_blks. simpl. rewrite B3, B4. reflexivity. }
        rewrite Eb. eapply st_is_ext; [|exact P]. intros l. unfold h. simpl.
        unfold gocc at 2. rewrite B5, inrng_0. simpl. rewrite orb_assoc. reflexivity.
      * cbn [fst snd]. assert (Eb : gens_blks (nw' :: rev rest) = gens_blks (nw :: rev rest)).
        { unfold gens_blks. simpl. rewrite B3, B4. reflexivity. }
        rewrite Eb. exact Dr.
      * cbn [fst snd]. inversion Hge as [|x xs Hx Hxs]; subst. inversion Hxs; subst. constructor; [rewrite B3; assumption|assumption].
      * exact Hn.
    + (* interrupted: the table keeps the partly emptied generation *)
      split; [|split; [|split]].
      * cbn [fst snd].
        assert (Eb : gens_blks (nw' :: rev (old' :: rest)) = gens_blks (nw :: rev (old :: rest))).
        { unfold gens_blks. simpl. rewrite !map_app. simpl. rewrite B1, B2, B3, B4. reflexivity. }
        rewrite Eb. eapply st_is_ext; [|exact A]. intros l. unfold h. simpl. rewrite !orb_assoc. reflexivity.
      * cbn [fst snd].
        assert (Eb : gens_blks (nw' :: rev (old' :: rest)) = gens_blks (nw :: rev (old :: rest))).
        { unfold gens_blks. simpl. rewrite !map_app. simpl. rewrite B1, B2, B3, B4. reflexivity. }
        rewrite Eb. exact D.
      * cbn [fst snd]. inversion Hge as [|x xs Hx Hxs]; subst. inversion Hxs; subst.
        constructor; [rewrite B3; assumption|]. constructor; [rewrite B1; assumption|assumption].
      * exact Hn.
Qed.

Lemma relocate_items_spec t s nb :
  tb_inv t s nb ->
  match relocate_items c mgr gensz t s with
  | ((_, Stuck), _) => False
  | ((t', _), s') => tb_inv t' s' nb
  end.
Proof.
  intros I. unfold relocate_items. destruct t as [nw olds].
  pose proof (migrate_gens_spec olds nw s nb I) as M. cbn [fst snd].
  destruct (migrate_gens c mgr gensz olds nw s) as [[t' o] s']. destruct o; exact M.
Qed.

(* a slot of the newest generation beyond its fill, or any slot of a brand-new block, is free *)
Lemma slot_free t s nb b k :
  tb_inv t s nb -> (b = g_blk (fst t) /\ Z.of_nat (g_fill (fst t)) <= k \/ nb <= b) ->
  gens_occ (fst t :: snd t) (b, k) || f (b, k) = false.
Proof.
  intros I Hb. pose proof I as (_ & D & Hge & Hn).
  pose proof (tb_blocks_distinct _ _ _ I) as N.
  assert (Hf : f (b, k) = false).
  { apply Hcl. simpl. destruct Hb as [[E _]|Hb]; [|lia]. subst b. inversion Hge; assumption. }
  rewrite Hf, orb_false_r. simpl. destruct Hb as [[E Hk]|Hb].
  - unfold gocc at 1. subst b. destruct (inrng_spec (g_blk (fst t)) 0 (g_fill (fst t)) (g_blk (fst t), k)) as [[_ Eb]|]; [simpl in Eb; lia|].
    simpl. apply gens_occ_other. intros g Hin. simpl. inversion N as [|x xs Hx _]; subst. intros E. apply Hx. rewrite <- E.
    apply in_map. apply in_rev. rewrite rev_involutive. exact Hin.
  - assert (Hall : forall g, In g (fst t :: snd t) -> g_blk g < nb).
    { intros g Hin. apply (dlist_fresh _ nb D (g_blk g) (mgr, gensz (g_no g))). apply in_or_app. left.
      unfold gens_blks. apply in_map_iff. exists g. split; [reflexivity|]. destruct Hin as [E|Hin]; [left; exact E|].
      right. apply in_rev. rewrite rev_involutive. exact Hin. }
    unfold gocc at 1. rewrite (inrng_other_region (g_blk (fst t)) 0 _ (b, k)) by (simpl; specialize (Hall (fst t) (or_introl eq_refl)); lia).
    simpl. apply gens_occ_other. intros g Hin. simpl. specialize (Hall g (or_intror Hin)). lia.
Qed.

Definition ok_result (r : (table * outcome unit) * rstate) : Prop :=
  match r with
  | ((_, Stuck), _) => False
  | ((t', _), s') => exists nb', tb_inv t' s' nb'
  end.

Lemma add_nogrow_spec i t s nb : 0 <= i -> tb_inv t s nb -> ok_result (add_nogrow (src, i) t s).
Proof.
  intros Hi I. unfold add_nogrow, ok_result. destruct t as [nw olds]. pose proof I as (H & D & Hge & Hn). cbn [fst snd] in H, D, Hge.
  assert (Esrc : gens_occ (nw :: olds) (src, i) || f (src, i) = true) by (rewrite (Hsr i Hi); apply orb_true_r).
  assert (Ed : gens_occ (nw :: olds) (g_blk nw, Z.of_nat (g_fill nw)) || f (g_blk nw, Z.of_nat (g_fill nw)) = false).
  { apply (slot_free (nw, olds) s nb _ _ I). left. split; [reflexivity|simpl; lia]. }
  pose proof (p_copy_post (g_blk nw, Z.of_nat (g_fill nw)) (src, i) s _ _ _ H Esrc Ed) as P. unfold post in P.
  destruct (p_copy (g_blk nw, Z.of_nat (g_fill nw)) (src, i) s) as [[u| |] s1]; [| |contradiction].
  - exists nb. split; [|split; [|split]].
    + cbn [fst snd]. destruct nw as [[nwb nfill] nno]. unfold g_blk, g_fill, g_no in *. cbn [fst snd] in *.
      eapply st_is_ext; [|exact P]. intros l. simpl. unfold gocc, g_blk, g_fill. cbn [fst snd].
      pose proof (inrng_snoc nwb 0 nfill l) as E. rewrite Z.add_0_l in E. rewrite E.
      destruct (loc_eqb l (nwb, Z.of_nat nfill)), (inrng nwb 0 nfill l); reflexivity.
    + cbn [fst snd]. destruct nw as [[nwb nfill] nno]. exact D.
    + cbn [fst snd]. destruct nw as [[nwb nfill] nno]. inversion Hge; subst. constructor; assumption.
    + exact Hn.
  - exists nb. split; [exact P|]. split; [exact D|]. split; [exact Hge|exact Hn].
Qed.

Lemma add_grow_spec i t s nb : 0 <= i -> tb_inv t s nb -> ok_result (add_grow mgr gensz (src, i) t s).
Proof.
  intros Hi I. unfold add_grow. destruct t as [nw olds]. pose proof I as (H & D & Hge & Hn). cbn [fst snd] in H, D, Hge.
  assert (Esrc : gens_occ (nw :: olds) (src, i) || f (src, i) = true) by (rewrite (Hsr i Hi); apply orb_true_r).
  pose proof (p_alloc_post mgr (gensz (g_no nw + 1)) s _ _ nb H) as A. unfold post in A.
  destruct (p_alloc mgr (gensz (g_no nw + 1)) s) as [[b| |] s1]; [| |contradiction].
  2:{ apply (add_nogrow_spec i (nw, olds) s1 nb Hi). split; [exact A|]. split; [exact D|]. split; [exact Hge|exact Hn]. }
  destruct A as [Eb H1]. subst b. unfold ok_result.
  assert (Ed : gens_occ (nw :: olds) (nb, 0) || f (nb, 0) = false).
  { apply (slot_free (nw, olds) s nb nb 0 I). right. lia. }
  assert (P : post (catch_rethrow (p_copy (nb, 0) (src, i)) (p_dealloc mgr nb (gensz (g_no nw + 1)))) s1
                (fun _ s' => st_is s' (fun l => loc_eqb l (nb, 0) || (gens_occ (nw :: olds) l || f l))
                                   ((nb, (mgr, gensz (g_no nw + 1))) :: gens_blks (nw :: rev olds) ++ bs) (nb + 1))
                (fun s' => st_is s' (fun l => gens_occ (nw :: olds) l || f l) (gens_blks (nw :: rev olds) ++ bs) (nb + 1))).
  { apply post_catch.
    eapply post_conseq; [apply (p_copy_post (nb, 0) (src, i) s1 _ _ _ H1 Esrc Ed)|auto|].
    intros s2 H2. eapply post_conseq; [apply (p_dealloc_post mgr nb (gensz (g_no nw + 1)) s2 _ _ _ H2)| |intros ? []].
    - simpl. rewrite Z.eqb_refl. reflexivity.
    - intros u s3 H3. rewrite (remove_head nb _ _ (nb + 1) (dlist_cons _ nb (mgr, gensz (g_no nw + 1)) D)) in H3. exact H3. }
  unfold post in P.
  destruct (catch_rethrow (p_copy (nb, 0) (src, i)) (p_dealloc mgr nb (gensz (g_no nw + 1))) s1) as [[u| |] s2]; [| |contradiction].
  - exists (nb + 1). split; [|split; [|split]].
    + cbn [fst snd]. rewrite rev_app_distr. simpl rev. simpl app.
      eapply st_is_ext; [|exact P]. intros l. simpl.
      assert (E1 : gocc (nb, 1%nat, g_no nw + 1) l = loc_eqb l (nb, 0)).
      { unfold gocc, g_blk, g_fill. cbn [fst snd]. apply inrng_1. }
      assert (E2 : gens_occ (olds ++ [nw]) l = gens_occ olds l || gocc nw l).
      { unfold gens_occ. rewrite existsb_app. simpl. rewrite orb_false_r. reflexivity. }
      rewrite E1, E2. destruct (loc_eqb l (nb, 0)), (gocc nw l), (gens_occ olds l), (f l); reflexivity.
    + cbn [fst snd]. rewrite rev_app_distr. simpl rev. simpl app. apply (dlist_cons _ nb (mgr, gensz (g_no nw + 1))). exact D.
    + cbn [fst snd]. constructor; [unfold g_blk; simpl; lia|]. apply Forall_app. inversion Hge; subst. split; [assumption|constructor; [assumption|constructor]].
    + lia.
  - exists (nb + 1). split; [exact P|]. split; [apply (dlist_mono _ nb (nb + 1)); [lia|exact D]|]. split; [exact Hge|lia].
Qed.

Lemma after_add_spec r : ok_result r -> ok_result (after_add c mgr gensz r).
Proof.
  destruct r as [[t1 o] s1]. unfold ok_result, after_add. destruct o; try (intros; assumption).
  intros [nb1 I1]. destruct (snd t1) eqn:E.
  - exists nb1. exact I1.
  - pose proof (relocate_items_spec t1 s1 nb1 I1) as R.
    destruct (relocate_items c mgr gensz t1 s1) as [[t' o'] s']. destruct o'; try contradiction; exists nb1; exact R.
Qed.

Lemma hs_add_spec grow i t s nb :
  0 <= i -> tb_inv t s nb -> ok_result (hs_add c mgr gensz grow (src, i) t s).
Proof.
  intros Hi I. unfold hs_add. apply after_add_spec. destruct grow; [apply (add_grow_spec i t s nb Hi I)|apply (add_nogrow_spec i t s nb Hi I)].
Qed.

Lemma hs_adds_spec : forall ops i t s nb,
  0 <= i -> tb_inv t s nb ->
  match hs_adds c mgr gensz ops src i t s with
  | ((_, Stuck), _) => False
  | ((t', _), s') => exists nb', tb_inv t' s' nb'
  end.
Proof.
  induction ops as [|g ops IH]; intros i t s nb Hi I; simpl.
  - exists nb. exact I.
  - pose proof (hs_add_spec g i t s nb Hi I) as A. unfold ok_result in A.
    destruct (hs_add c mgr gensz g (src, i) t s) as [[t' o] s1].
    destruct o; try contradiction; destruct A as [nb1 I1]; apply (IH (i + 1) t' s1 nb1); try lia; exact I1.
Qed.

Lemma hs_adds_auto_spec capf : forall n i t s nb,
  0 <= i -> tb_inv t s nb ->
  match hs_adds_auto c mgr gensz capf n src i t s with
  | ((_, Stuck), _) => False
  | ((t', _), s') => exists nb', tb_inv t' s' nb'
  end.
Proof.
  induction n as [|n IH]; intros i t s nb Hi I; simpl.
  - exists nb. exact I.
  - pose proof (hs_add_spec (negb (Nat.ltb (tb_count t) (capf (g_no (fst t))))) i t s nb Hi I) as A. unfold ok_result in A.
    destruct (hs_add c mgr gensz (negb (Nat.ltb (tb_count t) (capf (g_no (fst t))))) (src, i) t s) as [[t' o] s1].
    destruct o; try contradiction; destruct A as [nb1 I1]; apply (IH (i + 1) t' s1 nb1); try lia; exact I1.
Qed.

(* ~HashSet: every generation still linked is emptied and returned, newest first *)
Lemma gens_destroy_post : forall gs s nb,
  st_is s (fun l => gens_occ gs l || f l) (gens_blks gs ++ bs) nb -> dlist (gens_blks gs ++ bs) nb ->
  Forall (fun g => nb0 <= g_blk g) gs ->
  post (gens_destroy mgr gensz gs) s (fun _ s' => st_is s' f bs nb) (fun _ => False).
Proof.
  induction gs as [|g gs IH]; intros s nb H D Hge; simpl.
  - apply post_ret. exact H.
  - apply post_bind.
    assert (Hc : forall l, fst l = g_blk g -> gens_occ gs l || f l = false).
    { intros l El. inversion Hge; subst. rewrite (Hcl l) by lia. rewrite orb_false_r. apply gens_occ_other. intros g' Hin.
      destruct D as [_ Dr]. assert (g_blk g' < g_blk g).
      { apply (dlist_fresh _ _ Dr (g_blk g') (mgr, gensz (g_no g'))). apply in_or_app. left. unfold gens_blks.
        apply in_map_iff. exists g'. split; [reflexivity|exact Hin]. }
      lia. }
    assert (H' : st_is s (fun l => inrng (g_blk g) 0 (g_fill g) l || (gens_occ gs l || f l))
                      ((g_blk g, (mgr, gensz (g_no g))) :: gens_blks gs ++ bs) nb).
    { eapply st_is_ext; [|exact H]. intros l. simpl. unfold gocc. rewrite orb_assoc. reflexivity. }
    eapply post_conseq;
      [apply (drop_post mgr (gensz (g_no g)) (g_fill g)
                (fun b => p_touch_blk b ;;; om_destroy_n b 0 (g_fill g) ;;; p_dealloc mgr b (gensz (g_no g))) (g_blk g) s _ _ nb eq_refl H' D Hc)| |auto].
    intros u s1 H1. apply (IH s1 nb H1); [|inversion Hge; assumption]. destruct D as [Hb Dr]. apply (dlist_mono _ (g_blk g) nb); [lia|exact Dr].
Qed.

End GrowthProofs.

(* HashSet growth and pvRelocateItems, resource accounting: the first generation, then ANY history of insertions with or
   without growth, for EVERY failure schedule (failed allocations of a new generation, failed item copies, migrations of old
   generations interrupted by a throwing copy and resumed by the next insertion), then ~HashSet: never Stuck - in particular
   an old generation is freed only when it is empty and never twice - and the world ends as it started *)
Theorem hs_history_post c mgr gensz ops src kr s f bs :
  rows_world s f bs src kr ->
  post (hs_history c mgr gensz ops src) s (fun _ s' => st_is s' f bs (nextb s')) (fun s' => st_is s' f bs (nextb s')).
Proof.
  intros (H & D & Hcl & Hsr & _). unfold hs_history, post. set (nb := nextb s) in *.
  pose proof (p_alloc_post mgr (gensz 0) s f bs nb H) as A. unfold post in A.
  destruct (p_alloc mgr (gensz 0) s) as [[b| |] s0]; [| |contradiction].
  2:{ destruct A as (X & Y & Zc). rewrite Zc. repeat split; auto. }
  destruct A as [Eb H0]. subst b.
  assert (I0 : tb_inv mgr gensz f bs nb ((nb, O, 0), []) s0 (nb + 1)).
  { split; [|split; [apply (dlist_cons _ nb (mgr, gensz 0)); exact D|split; [constructor; [unfold g_blk; simpl; lia|constructor]|lia]]].
    cbn [fst snd]. eapply st_is_ext; [|exact H0]. intros l. simpl. unfold gocc, g_blk, g_fill. cbn [fst snd]. rewrite inrng_0. reflexivity. }
  pose proof (hs_adds_spec c mgr gensz f bs nb src Hcl Hsr ops 0 _ s0 (nb + 1) (Z.le_refl 0) I0) as F.
  destruct (hs_adds c mgr gensz ops src 0 ((nb, 0%nat, 0), []) s0) as [[t o] s1].
  assert (Fin : forall nb1, tb_inv mgr gensz f bs nb t s1 nb1 ->
            match hs_destroy mgr gensz t s1 with (Stuck, _) => False | (_, s2) => st_is s2 f bs (nextb s2) end).
  { intros nb1 (X & Y & Zg & _). unfold hs_destroy.
    assert (X' : st_is s1 (fun l => gens_occ (fst t :: rev (snd t)) l || f l) (gens_blks mgr gensz (fst t :: rev (snd t)) ++ bs) nb1).
    { eapply st_is_ext; [|exact X]. intros l. simpl. rewrite gens_occ_rev. reflexivity. }
    assert (Zg' : Forall (fun g => nb <= g_blk g) (fst t :: rev (snd t))).
    { inversion Zg; subst. constructor; [assumption|]. apply Forall_rev. assumption. }
    pose proof (gens_destroy_post mgr gensz f bs nb Hcl _ s1 nb1 X' Y Zg') as P. unfold post in P.
    destruct (gens_destroy mgr gensz (fst t :: rev (snd t)) s1) as [[u| |] s2]; try contradiction.
    destruct P as (P1 & P2 & P3). rewrite P3. repeat split; auto. }
  destruct o; try contradiction; destruct F as [nb1 I1]; specialize (Fin nb1 I1);
    destruct (hs_destroy mgr gensz t s1) as [[u| |] s2]; try contradiction; exact Fin.
Qed.

Theorem hs_history_any_schedule c mgr gensz ops sch :
  post (hs_history c mgr gensz ops (-1)) (rows_init sch) (fun _ s' => back_to_start s') (fun s' => back_to_start s').
Proof.
  eapply post_conseq; [apply (hs_history_post c mgr gensz ops (-1) (-2) _ _ _ (rows_init_world sch))| |].
  - intros u s' (A & B & _). split; [exact B|exact A].
  - intros s' (A & B & _). split; [exact B|exact A].
Qed.

(* the same with the growth points derived from the capacity policy (any policy capf): n insertions, every schedule *)
Theorem hs_history_auto_post c mgr gensz capf n src kr s f bs :
  rows_world s f bs src kr ->
  post (hs_history_auto c mgr gensz capf n src) s (fun _ s' => st_is s' f bs (nextb s')) (fun s' => st_is s' f bs (nextb s')).
Proof.
  intros (H & D & Hcl & Hsr & _). unfold hs_history_auto, post. set (nb := nextb s) in *.
  pose proof (p_alloc_post mgr (gensz 0) s f bs nb H) as A. unfold post in A.
  destruct (p_alloc mgr (gensz 0) s) as [[b| |] s0]; [| |contradiction].
  2:{ destruct A as (X & Y & Zc). rewrite Zc. repeat split; auto. }
  destruct A as [Eb H0]. subst b.
  assert (I0 : tb_inv mgr gensz f bs nb ((nb, O, 0), []) s0 (nb + 1)).
  { split; [|split; [apply (dlist_cons _ nb (mgr, gensz 0)); exact D|split; [constructor; [unfold g_blk; simpl; lia|constructor]|lia]]].
    cbn [fst snd]. eapply st_is_ext; [|exact H0]. intros l. simpl. unfold gocc, g_blk, g_fill. cbn [fst snd]. rewrite inrng_0. reflexivity. }
  pose proof (hs_adds_auto_spec c mgr gensz f bs nb src Hcl Hsr capf n 0 _ s0 (nb + 1) (Z.le_refl 0) I0) as F.
  destruct (hs_adds_auto c mgr gensz capf n src 0 ((nb, 0%nat, 0), []) s0) as [[t o] s1].
  assert (Fin : forall nb1, tb_inv mgr gensz f bs nb t s1 nb1 ->
            match hs_destroy mgr gensz t s1 with (Stuck, _) => False | (_, s2) => st_is s2 f bs (nextb s2) end).
  { intros nb1 (X & Y & Zg & _). unfold hs_destroy.
    assert (X' : st_is s1 (fun l => gens_occ (fst t :: rev (snd t)) l || f l) (gens_blks mgr gensz (fst t :: rev (snd t)) ++ bs) nb1).
    { eapply st_is_ext; [|exact X]. intros l. simpl. rewrite gens_occ_rev. reflexivity. }
    assert (Zg' : Forall (fun g => nb <= g_blk g) (fst t :: rev (snd t))).
    { inversion Zg; subst. constructor; [assumption|]. apply Forall_rev. assumption. }
    pose proof (gens_destroy_post mgr gensz f bs nb Hcl _ s1 nb1 X' Y Zg') as P. unfold post in P.
    destruct (gens_destroy mgr gensz (fst t :: rev (snd t)) s1) as [[u| |] s2]; try contradiction.
    destruct P as (P1 & P2 & P3). rewrite P3. repeat split; auto. }
  destruct o; try contradiction; destruct F as [nb1 I1]; specialize (Fin nb1 I1);
    destruct (hs_destroy mgr gensz t s1) as [[u| |] s2]; try contradiction; exact Fin.
Qed.
