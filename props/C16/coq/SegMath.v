(* C16: exact (unbounded-integer) reading of the sqrt segment arithmetic of SegmentedArraySettings<sqrt, L>
   and its algebra.  Nothing here is trusted as a model: SegSqrt_Proofs.v proves that the functions regenerated
   from SegmentedArray.h compute exactly these values whenever nothing wraps in 64 bits. *)
From Coq Require Import ZArith Bool List Lia.
Local Open Scope Z_scope.

Definition klog (n : Z) : Z := (Z.log2 n + 1) / 2.          (* pvIndexToLogItemCount *)
Definition slog (s : Z) : Z := Z.log2 ((2 * s + 4) / 3).    (* pvSegIndexToLogItemCount *)

Definition seg_of (L i : Z) : Z * Z :=
  let n := i / 2 ^ L + 1 in let k := klog n in
  (n / 2 ^ k + 2 ^ k - 2, (n mod 2 ^ k) * 2 ^ L + i mod 2 ^ L).
Definition idx_of (L s j : Z) : Z :=
  let k := slog s in (((s + 2 - 2 ^ k) * 2 ^ k + j / 2 ^ L) - 1) * 2 ^ L + j mod 2 ^ L.
Definition cnt_of (L s : Z) : Z := 2 ^ (slog s + L).

Lemma pow2_pos k : 0 <= k -> 0 < 2 ^ k.
Proof. intros; apply Z.pow_pos_nonneg; lia. Qed.
Lemma pow2_sq k : 0 <= k -> 2 ^ (2 * k) = 2 ^ k * 2 ^ k.
Proof. intros. replace (2 * k) with (k + k) by lia. apply Z.pow_add_r; lia. Qed.
Lemma pow2_S k : 0 <= k -> 2 ^ (k + 1) = 2 * 2 ^ k.
Proof. intros. rewrite Z.pow_add_r by lia. lia. Qed.

Lemma klog_spec n : 1 <= n -> 0 <= klog n /\ 2 ^ klog n * 2 ^ klog n <= 2 * n < 4 * (2 ^ klog n * 2 ^ klog n).
Proof.
  intros Hn. unfold klog. set (m := Z.log2 n).
  assert (Hm : 0 <= m) by apply Z.log2_nonneg.
  pose proof (Z.log2_spec n ltac:(lia)) as Hs. fold m in Hs.
  replace (Z.succ m) with (m + 1) in Hs by lia. rewrite pow2_S in Hs by lia.
  set (k := (m + 1) / 2).
  assert (Hk : 0 <= k) by (apply Z.div_pos; lia).
  pose proof (Z.div_mod (m + 1) 2 ltac:(lia)) as Hd. fold k in Hd.
  pose proof (Z.mod_pos_bound (m + 1) 2 ltac:(lia)) as Hb.
  split; [exact Hk|].
  rewrite <- pow2_sq by lia.
  assert (m + 1 = 2 * k \/ m = 2 * k) as [E|E] by lia.
  - assert (E2 : 2 * k = m + 1) by lia. rewrite E2. rewrite pow2_S by lia. lia.
  - rewrite <- E. lia.
Qed.

Lemma klog_unique n j : 1 <= n -> 0 <= j -> 2 ^ j * 2 ^ j <= 2 * n < 4 * (2 ^ j * 2 ^ j) -> klog n = j.
Proof.
  intros Hn Hj Hb. destruct (klog_spec n Hn) as [Hk Hkb]. set (k := klog n) in *.
  destruct (Z_lt_dec k j) as [Hlt|Hge].
  - exfalso. assert (2 ^ (k + 1) <= 2 ^ j) by (apply Z.pow_le_mono_r; lia).
    rewrite pow2_S in H by lia. pose proof (pow2_pos k Hk). nia.
  - destruct (Z_lt_dec j k) as [Hlt|Hge2]; [|lia].
    exfalso. assert (2 ^ (j + 1) <= 2 ^ k) by (apply Z.pow_le_mono_r; lia).
    rewrite pow2_S in H by lia. pose proof (pow2_pos j Hj). nia.
Qed.

Lemma slog_spec s : 0 <= s -> 0 <= slog s /\ 3 * 2 ^ slog s <= 2 * s + 4 < 6 * 2 ^ slog s.
Proof.
  intros Hs. unfold slog. set (v := (2 * s + 4) / 3).
  assert (Hv : 1 <= v) by (unfold v; apply Z.div_le_lower_bound; lia).
  pose proof (Z.log2_spec v ltac:(lia)) as H. replace (Z.succ (Z.log2 v)) with (Z.log2 v + 1) in H by lia.
  rewrite pow2_S in H by apply Z.log2_nonneg.
  split; [apply Z.log2_nonneg|].
  pose proof (Z.div_mod (2 * s + 4) 3 ltac:(lia)) as Hd. fold v in Hd.
  pose proof (Z.mod_pos_bound (2 * s + 4) 3 ltac:(lia)). lia.
Qed.

Lemma slog_unique s j : 0 <= s -> 0 <= j -> 3 * 2 ^ j <= 2 * s + 4 < 6 * 2 ^ j -> slog s = j.
Proof.
  intros Hs Hj Hb. destruct (slog_spec s Hs) as [Hk Hkb]. set (k := slog s) in *.
  destruct (Z_lt_dec k j) as [Hlt|Hge].
  - exfalso. assert (2 ^ (k + 1) <= 2 ^ j) by (apply Z.pow_le_mono_r; lia).
    rewrite pow2_S in H by lia. lia.
  - destruct (Z_lt_dec j k) as [Hlt|Hge2]; [|lia].
    exfalso. assert (2 ^ (j + 1) <= 2 ^ k) by (apply Z.pow_le_mono_r; lia).
    rewrite pow2_S in H by lia. lia.
Qed.

(* a power of two that is not 1 is even *)
Lemma pow2_even_or_one k : 0 <= k -> 2 ^ k = 1 \/ exists h, 0 < h /\ 2 ^ k = 2 * h.
Proof.
  intros Hk. destruct (Z.eq_dec k 0) as [->|Hne]; [left; reflexivity|right].
  exists (2 ^ (k - 1)). split; [apply pow2_pos; lia|].
  replace k with ((k - 1) + 1) at 1 by lia. apply pow2_S. lia.
Qed.

(* decomposition of index1 = n : n = q * P + r with P = 2^klog n; then P <= 2q < 4P *)
Lemma klog_quot n : 1 <= n ->
  let P := 2 ^ klog n in let q := n / P in let r := n mod P in
  0 < P /\ n = q * P + r /\ 0 <= r < P /\ P <= 2 * q < 4 * P /\ P * P <= 2 * n < 4 * (P * P).
Proof.
  intros Hn P q r. destruct (klog_spec n Hn) as [Hk Hb]. fold P in Hb.
  assert (HP : 0 < P) by (apply pow2_pos; exact Hk).
  pose proof (Z.div_mod n P ltac:(lia)) as Hd. fold q r in Hd.
  pose proof (Z.mod_pos_bound n P HP) as Hr. fold r in Hr.
  repeat split; try lia.
  - destruct (pow2_even_or_one (klog n) Hk) as [E|[h [Hh E]]]; fold P in E.
    + nia.
    + rewrite E in *. nia.
  - nia.
Qed.

Lemma seg_of_slog L i : 0 <= L -> 0 <= i ->
  let n := i / 2 ^ L + 1 in slog (fst (seg_of L i)) = klog n /\ 0 <= fst (seg_of L i).
Proof.
  intros HL Hi n. unfold seg_of. fold n. cbn [fst].
  assert (Hn : 1 <= n) by (unfold n; pose proof (Z.div_pos i (2 ^ L) Hi (pow2_pos L HL)); lia).
  destruct (klog_quot n Hn) as (HP & Hd & Hr & Hq & Hb).
  destruct (klog_spec n Hn) as [Hk _].
  set (P := 2 ^ klog n) in *. set (q := n / P) in *.
  assert (0 <= q + P - 2) by lia.
  split; [|assumption]. apply slog_unique; try assumption. fold P. lia.
Qed.

Section Sqrt.
Variable L : Z.
Hypothesis HL : 0 <= L.
Let B := 2 ^ L.
Let HB : 0 < B. Proof. apply pow2_pos; exact HL. Qed.

(* item offset < segment size *)
Lemma item_lt_cnt i : 0 <= i -> 0 <= snd (seg_of L i) < cnt_of L (fst (seg_of L i)).
Proof.
  intros Hi. unfold cnt_of. destruct (seg_of_slog L i HL Hi) as [E _]. rewrite E.
  unfold seg_of. cbn [snd]. set (n := i / 2 ^ L + 1).
  assert (Hn : 1 <= n) by (unfold n; pose proof (Z.div_pos i (2 ^ L) Hi (pow2_pos L HL)); lia).
  destruct (klog_quot n Hn) as (HP & Hd & Hr & Hq & Hb). destruct (klog_spec n Hn) as [Hk _].
  rewrite Z.pow_add_r by lia. fold B.
  pose proof (Z.mod_pos_bound i B HB). set (P := 2 ^ klog n) in *. nia.
Qed.

(* GetIndex after GetSegItemIndexes is the identity *)
Lemma roundtrip i : 0 <= i -> idx_of L (fst (seg_of L i)) (snd (seg_of L i)) = i.
Proof.
  intros Hi. unfold idx_of. destruct (seg_of_slog L i HL Hi) as [E _]. rewrite E.
  unfold seg_of. cbn [fst snd]. set (n := i / 2 ^ L + 1).
  assert (Hn : 1 <= n) by (unfold n; pose proof (Z.div_pos i (2 ^ L) Hi (pow2_pos L HL)); lia).
  destruct (klog_quot n Hn) as (HP & Hd & Hr & Hq & Hb).
  fold B. set (P := 2 ^ klog n) in *. set (q := n / P) in *. set (r := n mod P) in *.
  pose proof (Z.mod_pos_bound i B HB) as Hm. set (b := i mod B) in *.
  rewrite Z.div_add_l by lia. rewrite (Z.div_small b B) by lia.
  rewrite Z.add_comm with (n := r * B), Z.mod_add by lia. rewrite (Z.mod_small b B) by lia.
  replace ((q + P - 2 + 2 - P) * P + (r + 0) - 1) with (n - 1) by lia.
  unfold n. fold B. pose proof (Z.div_mod i B ltac:(lia)). fold b in H. lia.
Qed.

(* GetSegItemIndexes after GetIndex is the identity on every slot (s, j), j < size of segment s *)
Lemma roundtrip_rev s j : 0 <= s -> 0 <= j < cnt_of L s -> seg_of L (idx_of L s j) = (s, j) /\ 0 <= idx_of L s j.
Proof.
  intros Hs Hj. unfold cnt_of in Hj. destruct (slog_spec s Hs) as [Hk Hkb].
  rewrite Z.pow_add_r in Hj by lia. fold B in Hj.
  unfold idx_of. fold B. set (k := slog s) in *. set (P := 2 ^ k) in *.
  assert (HP : 0 < P) by (apply pow2_pos; exact Hk).
  set (t := s + 2 - P). assert (Ht : P <= 2 * t < 4 * P) by lia.
  pose proof (Z.div_mod j B ltac:(lia)) as Hd. pose proof (Z.mod_pos_bound j B HB) as Hm.
  set (a := j / B) in *. set (b := j mod B) in *.
  assert (Ha : 0 <= a < P) by nia.
  set (n := t * P + a). assert (Hn : 1 <= n) by (unfold n; nia).
  assert (Ei : (n - 1) * B + b = (n - 1) * B + b) by reflexivity.
  assert (Hdiv : ((n - 1) * B + b) / B = n - 1).
  { rewrite Z.div_add_l by lia. rewrite (Z.div_small b B) by lia. lia. }
  assert (Hmod : ((n - 1) * B + b) mod B = b).
  { rewrite Z.add_comm, Z.mod_add by lia. apply Z.mod_small; lia. }
  assert (Hkl : klog n = k).
  { apply klog_unique; try lia. fold P. unfold n. nia. }
  split; [|nia].
  unfold seg_of. fold B. rewrite Hdiv, Hmod. replace (n - 1 + 1) with n by lia. rewrite Hkl. fold P.
  assert (Hq : n / P = t). { unfold n. rewrite Z.div_add_l by lia. rewrite (Z.div_small a P) by lia. lia. }
  assert (Hr : n mod P = a). { unfold n. rewrite Z.add_comm, Z.mod_add by lia. apply Z.mod_small; lia. }
  rewrite Hq, Hr. f_equal; lia.
Qed.

(* index + 1: next offset of the same segment, or offset 0 of the next segment exactly when the segment is full *)
Lemma contiguous i : 0 <= i ->
  let s := fst (seg_of L i) in let j := snd (seg_of L i) in
  seg_of L (i + 1) = if Z.ltb (j + 1) (cnt_of L s) then (s, j + 1) else (s + 1, 0).
Proof.
  intros Hi s j.
  pose proof (item_lt_cnt i Hi) as Hlt. fold s j in Hlt.
  destruct (seg_of_slog L i HL Hi) as [E Hs0]. fold s in E, Hs0.
  destruct (Z.ltb_spec (j + 1) (cnt_of L s)) as [Hc|Hc].
  - (* not full: slot (s, j+1) exists; its index is i+1 *)
    destruct (roundtrip_rev s (j + 1) Hs0 ltac:(lia)) as [R _].
    rewrite <- R. f_equal.
    pose proof (roundtrip i Hi) as Ri. fold s j in Ri. rewrite <- Ri at 1.
    unfold idx_of. fold B. set (k := slog s). set (P := 2 ^ k).
    pose proof (Z.div_mod j B ltac:(lia)) as Hd. pose proof (Z.mod_pos_bound j B HB) as Hm.
    pose proof (Z.div_mod (j + 1) B ltac:(lia)) as Hd1. pose proof (Z.mod_pos_bound (j + 1) B HB) as Hm1.
    nia.
  - (* full: j + 1 = size; slot (s+1, 0) has index i+1 *)
    assert (Ej : j + 1 = cnt_of L s) by lia.
    assert (Hcnt1 : 0 < cnt_of L (s + 1)) by (unfold cnt_of; apply pow2_pos; destruct (slog_spec (s + 1)); lia).
    destruct (roundtrip_rev (s + 1) 0 ltac:(lia) ltac:(lia)) as [R _].
    rewrite <- R. f_equal.
    pose proof (roundtrip i Hi) as Ri. fold s j in Ri. rewrite <- Ri at 1.
    unfold idx_of. fold B. rewrite Z.div_0_l, Z.mod_0_l by lia.
    unfold cnt_of in Ej. destruct (slog_spec s Hs0) as [Hk Hkb]. destruct (slog_spec (s + 1) ltac:(lia)) as [Hk1 Hkb1].
    rewrite Z.pow_add_r in Ej by lia. fold B in Ej.
    set (k := slog s) in *. set (P := 2 ^ k) in *.
    assert (HP : 0 < P) by (apply pow2_pos; exact Hk).
    assert (Hjd : j / B = P - 1).
    { replace j with ((P - 1) * B + (B - 1)) by lia. rewrite Z.div_add_l by lia. rewrite (Z.div_small (B - 1) B) by lia. lia. }
    assert (Hjm : j mod B = B - 1).
    { replace j with ((P - 1) * B + (B - 1)) by lia. rewrite Z.add_comm, Z.mod_add by lia. apply Z.mod_small; lia. }
    rewrite Hjd, Hjm.
    (* slog (s+1) is k, or k+1 exactly when 2(s+1)+4 = 6P *)
    destruct (Z_lt_dec (2 * (s + 1) + 4) (6 * P)) as [Hsame|Hnext].
    + assert (E1 : slog (s + 1) = k) by (apply slog_unique; try lia; fold P; lia).
      rewrite E1. fold P. nia.
    + assert (E1 : slog (s + 1) = k + 1).
      { apply slog_unique; try lia. rewrite pow2_S by lia. fold P. lia. }
      rewrite E1. rewrite pow2_S by lia. fold P.
      assert (2 * s + 6 = 6 * P) by lia. assert (s = 3 * P - 3) by lia. subst s. nia.
Qed.

(* capacity: the first index of segment s+1 is the first index of segment s plus the size of segment s *)
Lemma cap_step s : 0 <= s -> idx_of L (s + 1) 0 = idx_of L s 0 + cnt_of L s.
Proof.
  intros Hs.
  assert (Hc : 0 < cnt_of L s) by (unfold cnt_of; apply pow2_pos; destruct (slog_spec s); lia).
  destruct (roundtrip_rev s (cnt_of L s - 1) Hs ltac:(lia)) as [R R0].
  pose proof (contiguous _ R0) as C. rewrite R in C. cbn [fst snd] in C.
  replace (cnt_of L s - 1 + 1) with (cnt_of L s) in C by lia. rewrite Z.ltb_irrefl in C.
  pose proof (roundtrip (idx_of L s (cnt_of L s - 1) + 1) ltac:(lia)) as R1.
  rewrite C in R1. cbn [fst snd] in R1. rewrite R1.
  (* idx_of s (c-1) = idx_of s 0 + c - 1 *)
  unfold idx_of, cnt_of. destruct (slog_spec s Hs) as [Hk _]. rewrite Z.pow_add_r by lia. fold B.
  set (P := 2 ^ slog s). assert (HP : 0 < P) by (apply pow2_pos; exact Hk).
  rewrite Z.div_0_l, Z.mod_0_l by lia.
  replace (P * B - 1) with ((P - 1) * B + (B - 1)) by lia.
  rewrite Z.div_add_l by lia. rewrite (Z.div_small (B - 1) B) by lia.
  rewrite Z.add_comm with (n := (P - 1) * B), Z.mod_add by lia. rewrite (Z.mod_small (B - 1) B) by lia. nia.
Qed.

Lemma idx_of_0 : idx_of L 0 0 = 0.
Proof.
  unfold idx_of. replace (slog 0) with 0 by reflexivity. rewrite Z.div_0_l, Z.mod_0_l by (fold B; lia). simpl. lia.
Qed.

Lemma seg_of_0 : seg_of L 0 = (0, 0).
Proof.
  unfold seg_of. rewrite Z.div_0_l, Z.mod_0_l by (fold B; lia). replace (klog (0 + 1)) with 0 by reflexivity.
  simpl. reflexivity.
Qed.

(* strictly monotone in lexicographic order (order-preserving) *)
Lemma idx_offset s j : 0 <= s -> 0 <= j < cnt_of L s -> idx_of L s j = idx_of L s 0 + j.
Proof.
  intros Hs Hj. unfold idx_of. fold B. rewrite Z.div_0_l, Z.mod_0_l by lia.
  pose proof (Z.div_mod j B ltac:(lia)). nia.
Qed.

End Sqrt.

(* ---- consequences used for "order-preserving bijection filling segments in order" ---- *)
Lemma cnt_pos L s : 0 <= L -> 0 <= s -> 0 < cnt_of L s.
Proof. intros. unfold cnt_of. apply pow2_pos. destruct (slog_spec s); lia. Qed.

Lemma cap_mono_nat L s (d : nat) : 0 <= L -> 0 <= s -> idx_of L s 0 <= idx_of L (s + Z.of_nat d) 0.
Proof.
  intros HL Hs. induction d.
  - replace (s + Z.of_nat 0) with s by lia. lia.
  - rewrite Nat2Z.inj_succ. replace (s + Z.succ (Z.of_nat d)) with (s + Z.of_nat d + 1) by lia.
    rewrite cap_step by lia. pose proof (cnt_pos L (s + Z.of_nat d) HL ltac:(lia)). lia.
Qed.

Lemma cap_mono L s s' : 0 <= L -> 0 <= s <= s' -> idx_of L s 0 <= idx_of L s' 0.
Proof.
  intros HL H. replace s' with (s + Z.of_nat (Z.to_nat (s' - s))) by lia. apply cap_mono_nat; lia.
Qed.

(* i < i'  ->  (seg, item) of i is lexicographically before (seg, item) of i' *)
Lemma seg_of_mono L i i' : 0 <= L -> 0 <= i < i' ->
  let s := fst (seg_of L i) in let j := snd (seg_of L i) in
  let s' := fst (seg_of L i') in let j' := snd (seg_of L i') in
  s < s' \/ (s = s' /\ j < j').
Proof.
  intros HL Hi s j s' j'.
  pose proof (roundtrip L HL i ltac:(lia)) as R. pose proof (roundtrip L HL i' ltac:(lia)) as R'.
  pose proof (item_lt_cnt L HL i ltac:(lia)) as C. pose proof (item_lt_cnt L HL i' ltac:(lia)) as C'.
  destruct (seg_of_slog L i HL ltac:(lia)) as [_ S0]. destruct (seg_of_slog L i' HL ltac:(lia)) as [_ S0'].
  fold s j in R, C, S0. fold s' j' in R', C', S0'.
  rewrite idx_offset in R, R' by lia.
  destruct (Z_lt_dec s s') as [|Hge]; [left; assumption|right].
  destruct (Z.eq_dec s s') as [E|Hne].
  - split; [assumption|]. rewrite E in R. lia.
  - exfalso. pose proof (cap_mono L (s' + 1) s HL ltac:(lia)) as M. rewrite cap_step in M by lia. lia.
Qed.

(* index i is below the capacity of sc segments  <->  its segment is one of the first sc *)
Lemma cap_lt_pure L sc i : 0 <= L -> 0 <= sc -> 0 <= i -> (i < idx_of L sc 0 <-> fst (seg_of L i) < sc).
Proof.
  intros HL Hsc Hi.
  pose proof (roundtrip L HL i Hi) as R. pose proof (item_lt_cnt L HL i Hi) as C.
  destruct (seg_of_slog L i HL Hi) as [_ S0].
  set (s := fst (seg_of L i)) in *. set (j := snd (seg_of L i)) in *.
  rewrite idx_offset in R by lia.
  split; intros H.
  - destruct (Z_lt_dec s sc); [assumption|exfalso].
    pose proof (cap_mono L sc s HL ltac:(lia)). lia.
  - pose proof (cap_mono L (s + 1) sc HL ltac:(lia)) as M. rewrite cap_step in M by lia. lia.
Qed.
